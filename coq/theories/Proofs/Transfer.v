(* Proofs about the whole-transfer model (C01, Model/Transfer.v): the composition of the
   sender and the receiver machine over perfect FIFO queues. *)
From Coq Require Import ZArith Lia.
From Trzsz Require Import Base.Bytes Gen.Consts Model.Path Model.Fs Model.Names Model.Escape Model.Base64
  Model.Wire Model.Transfer Proofs.PathFs Proofs.Names Proofs.Wire Proofs.TransferFs Proofs.TransferProgress.

(* The model's reading of the source is pinned to what the translator found.  isCompressFixed is
   INTERPRETED from the regenerated decision list (so changed thresholds are followed, not refused);
   what is pinned is that every rule is of a kind the interpreter knows.  The ORDER of the wire
   operations, which the machines hard-code, is pinned call by call. *)
Lemma transfer_rules_wf :
  forallb (fun r => match r with (k, _, _, cv) => (k <? 3) && (cv <? 3) end) Consts.tr_compress_rules = true /\
  (snd Consts.tr_compress_default <? 3) = true /\ Consts.tr_resume_skipped_for_empty_target = true.
Proof. repeat split; reflexivity. Qed.

Lemma transfer_calls_src_ok :
  (* archiveSourceFiles sendFileNum sendFileNameV3 sendFileName sendFileSize sendFileDataV2 sendFileData sendFileMD5 *)
  Consts.tr_send_files_calls = [[97; 114; 99; 104; 105; 118; 101; 83; 111; 117; 114; 99; 101; 70; 105; 108; 101; 115]; [115; 101; 110; 100; 70; 105; 108; 101; 78; 117; 109]; [115; 101; 110; 100; 70; 105; 108; 101; 78; 97; 109; 101; 86; 51]; [115; 101; 110; 100; 70; 105; 108; 101; 78; 97; 109; 101]; [115; 101; 110; 100; 70; 105; 108; 101; 83; 105; 122; 101]; [115; 101; 110; 100; 70; 105; 108; 101; 68; 97; 116; 97; 86; 50]; [115; 101; 110; 100; 70; 105; 108; 101; 68; 97; 116; 97]; [115; 101; 110; 100; 70; 105; 108; 101; 77; 68; 53]] /\
  (* recvFileNum recvFileNameV3 recvFileName recvFileSize recvFileDataV2 recvFileData recvFileMD5 *)
  Consts.tr_recv_files_calls = [[114; 101; 99; 118; 70; 105; 108; 101; 78; 117; 109]; [114; 101; 99; 118; 70; 105; 108; 101; 78; 97; 109; 101; 86; 51]; [114; 101; 99; 118; 70; 105; 108; 101; 78; 97; 109; 101]; [114; 101; 99; 118; 70; 105; 108; 101; 83; 105; 122; 101]; [114; 101; 99; 118; 70; 105; 108; 101; 68; 97; 116; 97; 86; 50]; [114; 101; 99; 118; 70; 105; 108; 101; 68; 97; 116; 97]; [114; 101; 99; 118; 70; 105; 108; 101; 77; 68; 53]] /\
  (* sendCompressFlag *)
  Consts.tr_send_data_first_call = [[115; 101; 110; 100; 67; 111; 109; 112; 114; 101; 115; 115; 70; 108; 97; 103]] /\
  (* recvCompressFlag *)
  Consts.tr_recv_data_first_call = [[114; 101; 99; 118; 67; 111; 109; 112; 114; 101; 115; 115; 70; 108; 97; 103]] /\
  (* sendInteger checkInteger *)
  Consts.tr_calls_send_num = [[115; 101; 110; 100; 73; 110; 116; 101; 103; 101; 114]; [99; 104; 101; 99; 107; 73; 110; 116; 101; 103; 101; 114]] /\
  (* recvInteger sendInteger *)
  Consts.tr_calls_recv_num = [[114; 101; 99; 118; 73; 110; 116; 101; 103; 101; 114]; [115; 101; 110; 100; 73; 110; 116; 101; 103; 101; 114]] /\
  (* sendString recvString *)
  Consts.tr_calls_send_name = [[115; 101; 110; 100; 83; 116; 114; 105; 110; 103]; [114; 101; 99; 118; 83; 116; 114; 105; 110; 103]] /\
  (* recvString createDirOrFile createFile sendString *)
  Consts.tr_calls_recv_name = [[114; 101; 99; 118; 83; 116; 114; 105; 110; 103]; [99; 114; 101; 97; 116; 101; 68; 105; 114; 79; 114; 70; 105; 108; 101]; [99; 114; 101; 97; 116; 101; 70; 105; 108; 101]; [115; 101; 110; 100; 83; 116; 114; 105; 110; 103]] /\
  (* sendString recvString newArchiveReader sendPrefixHash *)
  Consts.tr_calls_send_name_v3 = [[115; 101; 110; 100; 83; 116; 114; 105; 110; 103]; [114; 101; 99; 118; 83; 116; 114; 105; 110; 103]; [110; 101; 119; 65; 114; 99; 104; 105; 118; 101; 82; 101; 97; 100; 101; 114]; [115; 101; 110; 100; 80; 114; 101; 102; 105; 120; 72; 97; 115; 104]] /\
  (* recvString createDirOrFile sendString recvPrefixHash *)
  Consts.tr_calls_recv_name_v3 = [[114; 101; 99; 118; 83; 116; 114; 105; 110; 103]; [99; 114; 101; 97; 116; 101; 68; 105; 114; 79; 114; 70; 105; 108; 101]; [115; 101; 110; 100; 83; 116; 114; 105; 110; 103]; [114; 101; 99; 118; 80; 114; 101; 102; 105; 120; 72; 97; 115; 104]] /\
  (* sendInteger checkInteger *)
  Consts.tr_calls_send_size = [[115; 101; 110; 100; 73; 110; 116; 101; 103; 101; 114]; [99; 104; 101; 99; 107; 73; 110; 116; 101; 103; 101; 114]] /\
  (* recvInteger sendInteger *)
  Consts.tr_calls_recv_size = [[114; 101; 99; 118; 73; 110; 116; 101; 103; 101; 114]; [115; 101; 110; 100; 73; 110; 116; 101; 103; 101; 114]] /\
  (* sendBinary checkBinary *)
  Consts.tr_calls_send_md5 = [[115; 101; 110; 100; 66; 105; 110; 97; 114; 121]; [99; 104; 101; 99; 107; 66; 105; 110; 97; 114; 121]] /\
  (* recvBinary sendBinary *)
  Consts.tr_calls_recv_md5 = [[114; 101; 99; 118; 66; 105; 110; 97; 114; 121]; [115; 101; 110; 100; 66; 105; 110; 97; 114; 121]] /\
  (* sendData checkInteger *)
  Consts.tr_calls_send_data_v1 = [[115; 101; 110; 100; 68; 97; 116; 97]; [99; 104; 101; 99; 107; 73; 110; 116; 101; 103; 101; 114]] /\
  (* recvData sendInteger *)
  Consts.tr_calls_recv_data_v1 = [[114; 101; 99; 118; 68; 97; 116; 97]; [115; 101; 110; 100; 73; 110; 116; 101; 103; 101; 114]].
Proof. repeat split; reflexivity. Qed.

Ltac norm_app := repeat first [ progress (repeat rewrite <- app_assoc) | progress (cbn [app]) ].

Ltac norm_log := unfold tr_tag_out; repeat first [ progress (repeat rewrite map_app) | progress (cbn [map]) ]; norm_app.

Section TransferProofs.
Variable digest : Type.
Variable H : list byte -> digest.
Variable deq : digest -> digest -> bool.
Variable zcomp : list (list byte) -> list (list byte).
Variable zdecomp : list byte -> option (list byte).
Variable zl : list byte -> list byte.
Variable unzl : list byte -> option (list byte).

Notation msg := (tr_msg digest).
Notation sender := (tr_sender digest H deq zcomp zl).
Notation receiver := (tr_receiver digest H deq zdecomp unzl).
Notation stepc := (tr_step digest H deq zcomp zdecomp zl unzl).
Notation runf := (tr_run_from digest H deq zcomp zdecomp zl unzl).
Notation s_next := (tr_s_next digest).
Notation r_next := (tr_r_next digest).
Notation frames := (tr_frames digest zcomp).
Notation compress := (tr_compress digest).
Notation tag_out := (@tr_tag_out digest).
Notation conf := (tr_conf digest).

(* ---------- running ---------- *)
Lemma run_stuck c d (cf : conf) n : stepc c d cf = None -> runf n c d cf = cf.
Proof. intro E. destruct n; cbn [tr_run_from]; [reflexivity | rewrite E; reflexivity]. Qed.

Lemma run_add c d a : forall b (cf : conf), runf (a + b) c d cf = runf b c d (runf a c d cf).
Proof.
  induction a as [|a IH]; intros b cf; [reflexivity|].
  cbn [plus tr_run_from]. destruct (stepc c d cf) as [cf'|] eqn:E; [apply IH|].
  symmetry. apply run_stuck. exact E.
Qed.

Lemma run_one c d (cf cf' : conf) : stepc c d cf = Some cf' -> runf 1 c d cf = cf'.
Proof. intro E. cbn [tr_run_from]. rewrite E. reflexivity. Qed.

Lemma run_S c d n (cf cf' : conf) : stepc c d cf = Some cf' -> runf (S n) c d cf = runf n c d cf'.
Proof. intro E. cbn [tr_run_from]. rewrite E. reflexivity. Qed.

(* delivering to the receiver / to the sender *)
Lemma step_recv c d s r m q r2s log r' outs :
  receiver c d r m = (r', outs) ->
  stepc c d (mkConf digest s r (m :: q) r2s log) = Some (mkConf digest s r' q (r2s ++ outs) (log ++ tag_out false outs)).
Proof. intro E. unfold tr_step. cbn [cf_s2r cf_r cf_s cf_r2s cf_log]. rewrite E. reflexivity. Qed.

Lemma step_send c d s r m q log s' outs :
  sender c s m = (s', outs) ->
  stepc c d (mkConf digest s r [] (m :: q) log) = Some (mkConf digest s' r outs q (log ++ tag_out true outs)).
Proof. intro E. unfold tr_step. cbn [cf_s2r cf_r cf_s cf_r2s cf_log]. rewrite E. reflexivity. Qed.

Lemma step_recv' c d s r m q r2s log :
  stepc c d (mkConf digest s r (m :: q) r2s log) =
  Some (mkConf digest s (fst (receiver c d r m)) q (r2s ++ snd (receiver c d r m)) (log ++ tag_out false (snd (receiver c d r m)))).
Proof. destruct (receiver c d r m) as [r' outs] eqn:E. apply step_recv. exact E. Qed.

Lemma step_send' c d s r m q log :
  stepc c d (mkConf digest s r [] (m :: q) log) =
  Some (mkConf digest (fst (sender c s m)) r (snd (sender c s m)) q (log ++ tag_out true (snd (sender c s m)))).
Proof. destruct (sender c s m) as [s' outs] eqn:E. apply step_send. exact E. Qed.

Lemma tag_out_app dir (a b : list msg) : tag_out dir (a ++ b) = tag_out dir a ++ tag_out dir b.
Proof. unfold tr_tag_out. apply map_app. Qed.

(* ---------- transitions of the sender, one lemma per protocol step ---------- *)
Lemma snd_num c todo names :
  sender c (mkSS SpNum todo names) (TrSuccInt digest (N.of_nat (length todo))) = s_next c todo names.
Proof. unfold tr_sender. cbn [ss_phase ss_todo ss_names]. rewrite N.eqb_refl. reflexivity. Qed.

Definition name_reply (c : tr_cfg) (ln : name) (tsize : N) : msg :=
  if tr_json_names c then TrSuccTarget digest ln tsize else TrSuccName digest ln.

Lemma snd_name c e sc rest names nm sz :
  sender c (mkSS SpName ((e, sc) :: rest) names) (name_reply c nm sz) =
  tr_s_named digest c (mkSS SpName ((e, sc) :: rest) names) e rest nm (if tr_json_names c then sz else 0).
Proof. unfold tr_sender, name_reply. cbn [ss_phase ss_todo ss_names]. destruct (tr_json_names c); reflexivity. Qed.

Lemma snd_size c e sc rest names :
  sender c (mkSS SpSize ((e, sc) :: rest) names) (TrSuccInt digest (te_size e)) =
  tr_s_data digest H zcomp zl c (mkSS SpSize ((e, sc) :: rest) names) e sc.
Proof. unfold tr_sender. cbn [ss_phase ss_todo ss_names]. rewrite N.eqb_refl. reflexivity. Qed.

Lemma snd_ack c todo names l ls step :
  sender c (mkSS (SpAcks (l :: ls)) todo names) (TrSuccAck digest l step) =
  (mkSS (match ls with [] => SpFinal | _ => SpAcks ls end) todo names, []).
Proof. unfold tr_sender. cbn [ss_phase ss_todo ss_names]. rewrite N.eqb_refl. reflexivity. Qed.

Lemma snd_prefinal c e sc rest names step : step <? te_size e = true ->
  sender c (mkSS SpFinal ((e, sc) :: rest) names) (TrSuccInt digest step) = (mkSS SpFinal ((e, sc) :: rest) names, []).
Proof.
  intro Hlt. unfold tr_sender. cbn [ss_phase ss_todo ss_names].
  apply N.ltb_lt in Hlt.
  assert (E1 : te_size e <? step = false) by (apply N.ltb_ge; lia).
  assert (E2 : step =? te_size e = false) by (apply N.eqb_neq; lia).
  rewrite E1, E2. reflexivity.
Qed.

Lemma snd_final c e sc rest names :
  sender c (mkSS SpFinal ((e, sc) :: rest) names) (TrSuccInt digest (te_size e)) =
  (mkSS SpMd5 ((e, sc) :: rest) names, [TrMd5 digest (H (te_data e))]).
Proof.
  unfold tr_sender. cbn [ss_phase ss_todo ss_names]. rewrite N.ltb_irrefl, N.eqb_refl. reflexivity.
Qed.

Lemma snd_v1 c e sc rest names chs n :
  sender c (mkSS (SpV1 chs n) ((e, sc) :: rest) names) (TrSuccInt digest n) =
  match chs with
  | [] => (mkSS SpMd5 ((e, sc) :: rest) names, [TrMd5 digest (H (te_data e))])
  | ch :: chs' => (mkSS (SpV1 chs' (tr_blen ch)) ((e, sc) :: rest) names, [TrData digest (tr_v1_payload zl c ch)])
  end.
Proof. unfold tr_sender. cbn [ss_phase ss_todo ss_names]. rewrite N.eqb_refl. destruct chs; reflexivity. Qed.

Hypothesis deq_refl : forall a, deq a a = true.

Lemma snd_md5 c e sc rest names :
  sender c (mkSS SpMd5 ((e, sc) :: rest) names) (TrSuccDigest digest (H (te_data e))) = s_next c rest names.
Proof. unfold tr_sender. cbn [ss_phase ss_todo ss_names]. rewrite deq_refl. reflexivity. Qed.

Lemma snd_exit c todo names ns :
  sender c (mkSS SpExit todo names) (TrExit digest ns) = (mkSS SpDone todo names, []).
Proof. reflexivity. Qed.

(* ---------- transitions of the receiver ---------- *)
Lemma rcv_num c d st names sch n :
  receiver c d (mkRS RpNum O st names sch) (TrNum digest n) =
  (fst (r_next c (N.to_nat n) st names sch), TrSuccInt digest n :: snd (r_next c (N.to_nat n) st names sch)).
Proof.
  unfold tr_receiver. cbn [rs_phase rs_st rs_names rs_sched]. destruct (r_next c (N.to_nat n) st names sch). reflexivity.
Qed.

Lemma rcv_name c d left st names sch p :
  receiver c d (mkRS RpName left st names sch) (TrName digest p) = tr_r_name digest c d (mkRS RpName left st names sch) p.
Proof. reflexivity. Qed.

Lemma rcv_size c d left st names sch p n :
  receiver c d (mkRS (RpSize p) left st names sch) (TrSize digest n) = tr_r_size digest c (mkRS (RpSize p) left st names sch) p n.
Proof. reflexivity. Qed.

Lemma rcv_comp c d left st names sch p size b :
  receiver c d (mkRS (RpComp p size) left st names sch) (TrComp digest b) =
  (mkRS (RpData p size b [] (sc_steps (tr_cur_sched (mkRS (RpComp p size) left st names sch)))) left st names sch, []).
Proof. reflexivity. Qed.

Lemma rcv_frame c d left st names sch p size cp acc steps f :
  receiver c d (mkRS (RpData p size cp acc steps) left st names sch) (TrData digest f) =
  tr_r_frame digest zdecomp c (mkRS (RpData p size cp acc steps) left st names sch) p size cp acc steps f.
Proof. reflexivity. Qed.

Lemma rcv_v1 c d left st names sch p size w pl :
  receiver c d (mkRS (RpV1 p size w) left st names sch) (TrData digest pl) =
  tr_r_v1 digest unzl c (mkRS (RpV1 p size w) left st names sch) p size w pl.
Proof. reflexivity. Qed.

Lemma rcv_md5 c d left st names sch p w dg :
  receiver c d (mkRS (RpMd5 p w) left st names sch) (TrMd5 digest dg) =
  tr_r_md5 digest H deq c d (mkRS (RpMd5 p w) left st names sch) p w dg.
Proof. reflexivity. Qed.

Lemma rcv_exit c d left st names sch ns :
  receiver c d (mkRS RpExit left st names sch) (TrExit digest ns) = (mkRS RpDone left st names sch, []).
Proof. reflexivity. Qed.

(* ---------- the configuration between two entries ---------- *)
(* both loops are at their top: the sender has emitted the next NAME (or, after the last
   entry, the client has emitted EXIT), the receiver waits for it *)
Definition between (c : tr_cfg) (ess : list (tr_entry * tr_sched)) (st : state) (names : list name)
    (L : list (bool * msg)) : conf :=
  let sn := s_next c ess names in
  let rn := r_next c (length ess) st names (map snd ess) in
  mkConf digest (fst sn) (fst rn) (snd sn) (snd rn) (L ++ tag_out false (snd rn) ++ tag_out true (snd sn)).

Lemma between_cons c e sc ess st names L :
  between c ((e, sc) :: ess) st names L =
  mkConf digest (mkSS SpName ((e, sc) :: ess) names) (mkRS RpName (S (length ess)) st names (sc :: map snd ess))
    [TrName digest (tr_payload c e)] [] (L ++ [(true, TrName digest (tr_payload c e))]).
Proof. reflexivity. Qed.

(* the acks the receiver writes for a run of non-empty frames, and the steps left over *)
Fixpoint acks_go (fs : list (list byte)) (steps : list N) : list msg * list N :=
  match fs with
  | [] => ([], steps)
  | f :: r =>
    let '(a, s') := acks_go r (tl steps) in
    (TrSuccAck digest (tr_blen f) (match steps with s :: _ => s | [] => 0 end) :: a, s')
  end.

Lemma acks_go_length fs : forall steps, length (fst (acks_go fs steps)) = length fs.
Proof.
  induction fs as [|f r IH]; intro steps; [reflexivity|]. cbn [acks_go].
  specialize (IH (tl steps)). destruct (acks_go r (tl steps)). cbn in *. congruence.
Qed.

Lemma nonempty_cons {A} (f : list A) : nonempty f = true -> exists x r, f = x :: r.
Proof. destruct f; [discriminate | eauto]. Qed.

(* the receiver takes a run of non-empty frames *)
Lemma recv_frames c d p size cp left st names sch : forall fs s acc steps q r2s log,
  all_nonempty fs = true ->
  runf (length fs) c d
    (mkConf digest s (mkRS (RpData p size cp acc steps) left st names sch) (map (TrData digest) fs ++ q) r2s log) =
  mkConf digest s (mkRS (RpData p size cp (acc ++ fs) (snd (acks_go fs steps))) left st names sch) q
    (r2s ++ fst (acks_go fs steps)) (log ++ tag_out false (fst (acks_go fs steps))).
Proof.
  induction fs as [|f r IH]; intros s acc steps q r2s log Hne.
  - cbn. rewrite !app_nil_r. reflexivity.
  - cbn [all_nonempty forallb] in Hne. apply andb_true_iff in Hne as [Hf Hr].
    destruct (nonempty_cons f Hf) as (x & fr & ->).
    cbn [length map app]. erewrite run_S; [|apply step_recv; rewrite rcv_frame; reflexivity].
    cbn [tr_r_phase rs_left rs_st rs_names rs_sched].
    rewrite (IH s (acc ++ [x :: fr]) (tl steps) q _ _ Hr). cbn [acks_go].
    destruct (acks_go r (tl steps)) as [a s'] eqn:E. cbn [fst snd].
    repeat rewrite <- app_assoc. cbn [app]. unfold tr_tag_out. cbn [map]. repeat rewrite <- app_assoc. reflexivity.
Qed.

(* the sender takes the matching acks *)
Lemma send_acks c d todo names r : forall fs steps more q log,
  more <> [] ->
  runf (length fs) c d
    (mkConf digest (mkSS (SpAcks (map tr_blen fs ++ more)) todo names) r [] (fst (acks_go fs steps) ++ q) log) =
  mkConf digest (mkSS (SpAcks more) todo names) r [] q log.
Proof.
  induction fs as [|f fr IH]; intros steps more q log Hm; [reflexivity|].
  cbn [length map app acks_go]. destruct (acks_go fr (tl steps)) as [a s'] eqn:E. cbn [fst app].
  erewrite run_S; [|apply step_send; apply snd_ack].
  assert (Hn : map tr_blen fr ++ more <> []) by (destruct fr; [exact Hm | discriminate]).
  destruct (map tr_blen fr ++ more) as [|l ls] eqn:El; [congruence|]. rewrite <- El.
  unfold tr_tag_out. cbn [map]. rewrite app_nil_r.
  specialize (IH (tl steps) more q log Hm). rewrite E in IH. cbn [fst] in IH. exact IH.
Qed.

Lemma send_prefinal c d e sc rest names r : forall (pf : list N) q log,
  Forall (fun s => s <? te_size e = true) pf ->
  runf (length pf) c d
    (mkConf digest (mkSS SpFinal ((e, sc) :: rest) names) r [] (map (TrSuccInt digest) pf ++ q) log) =
  mkConf digest (mkSS SpFinal ((e, sc) :: rest) names) r [] q log.
Proof.
  induction pf as [|x pf IH]; intros q log Hf; [reflexivity|].
  inversion Hf; subst. cbn [length map app].
  erewrite run_S; [|apply step_send; apply snd_prefinal; assumption].
  unfold tr_tag_out. cbn [map]. rewrite app_nil_r. apply IH. assumption.
Qed.

Lemma filter_Forall {A} (f : A -> bool) l : Forall (fun x => f x = true) (filter f l).
Proof.
  induction l as [|x l IH]; cbn; [constructor|]. destruct (f x) eqn:E; [constructor; assumption | assumption].
Qed.

(* ---------- what the specification says about one entry ---------- *)
Lemma spec_entry_inv c d e st ln st' : tr_spec_entry c d e st = Some (ln, st') ->
  (te_isdir e && negb (tr_json c)) = false /\
  exists st1, tr_create c d (tr_payload c e) [] st = (NOk ln, st1) /\
    if te_isdir e then st' = st1
    else (tr_json_names c && (0 <? tr_target_size d ln (tr_payload c e) st1)) = false /\
         exists ln2, tr_create c d (tr_payload c e) (te_data e) st = (NOk ln2, st').
Proof.
  unfold tr_spec_entry. destruct (te_isdir e && negb (tr_json c)) eqn:E0; [discriminate|].
  destruct (tr_create c d (tr_payload c e) [] st) as [[l1|] st1] eqn:E1; [|discriminate].
  destruct (te_isdir e).
  - intro Hx; inversion Hx; subst. split; [reflexivity|]. exists st'. split; reflexivity.
  - destruct (tr_json_names c && (0 <? tr_target_size d l1 (tr_payload c e) st1)) eqn:E2; [discriminate|].
    destruct (tr_create c d (tr_payload c e) (te_data e) st) as [[l2|] st2] eqn:E3; [|discriminate].
    intro Hx; inversion Hx; subst. split; [reflexivity|]. exists st1. split; [reflexivity|].
    split; [exact E2|]. exists l2. reflexivity.
Qed.

Lemma payload_isdir c e : (te_isdir e && negb (tr_json c)) = false -> tr_p_isdir (tr_payload c e) = te_isdir e.
Proof.
  unfold tr_payload. destruct (tr_json c); cbn [tr_p_isdir s_isdir]; [reflexivity|].
  destruct (te_isdir e); [discriminate | reflexivity].
Qed.

Lemma payload_archive c e : tr_p_archive (tr_payload c e) = false.
Proof. unfold tr_payload. destruct (tr_json c); reflexivity. Qed.

(* ---------- a directory entry: NAME, reply ---------- *)
Definition dir_log (c : tr_cfg) (e : tr_entry) (ln : name) : list (bool * msg) :=
  [(true, TrName digest (tr_payload c e)); (false, name_reply c ln 0)].

Lemma r_name_dir c d e k st names sc sch ln st' :
  te_isdir e = true -> tr_spec_entry c d e st = Some (ln, st') ->
  tr_r_name digest c d (mkRS RpName (S k) st names (sc :: sch)) (tr_payload c e) =
  (fst (r_next c k st' (tr_add_name names ln) sch), name_reply c ln 0 :: snd (r_next c k st' (tr_add_name names ln) sch)).
Proof.
  intros Hd Hs. destruct (spec_entry_inv _ _ _ _ _ _ Hs) as (E0 & st1 & E1 & E2). rewrite Hd in E2. subst st1.
  unfold tr_r_name. cbn [rs_st rs_names rs_phase rs_left rs_sched]. rewrite E1, payload_archive, (payload_isdir _ _ E0), Hd.
  unfold tr_r_done. cbn [rs_left rs_names rs_sched pred tl].
  destruct (r_next c k st' (tr_add_name names ln) sch) as [rn ro]. reflexivity.
Qed.

Lemma entry_dir c d e sc ess st names L ln st' :
  te_isdir e = true -> tr_spec_entry c d e st = Some (ln, st') ->
  runf 2 c d (between c ((e, sc) :: ess) st names L) =
  between c ess st' (tr_add_name names ln) (L ++ dir_log c e ln).
Proof.
  intros Hd Hs. rewrite between_cons.
  rewrite (run_S _ _ _ _ _ (step_recv' _ _ _ _ _ _ _ _)), rcv_name, (r_name_dir c d e (length ess) st names sc (map snd ess) ln st' Hd Hs).
  cbn [fst snd app].
  rewrite (run_one _ _ _ _ (step_send' _ _ _ _ _ _ _)), snd_name.
  unfold tr_s_named. rewrite Hd. cbn [ss_names].
  unfold between, dir_log.
  destruct (r_next c (length ess) st' (tr_add_name names ln) (map snd ess)) as [rn ro].
  destruct (s_next c ess (tr_add_name names ln)) as [sn so]. cbn [fst snd].
  unfold tr_tag_out; cbn [map app]; repeat rewrite <- app_assoc; reflexivity.
Qed.

(* ---------- a file entry, pipelined exchange (protocol >= 2) ---------- *)
Hypothesis z_roundtrip : forall cs, zdecomp (concat (zcomp cs)) = Some (concat cs).
Hypothesis z_bytes : forall cs, bytes_ok (concat (zcomp cs)) = true.
Hypothesis zl_roundtrip : forall d, unzl (zl d) = Some d.
Hypothesis zl_bytes : forall d, bytes_ok (zl d) = true.

Notation table_ok := tr_table_ok.

Lemma r_name_file c d e k st names sc sch ln st' :
  te_isdir e = false -> tr_spec_entry c d e st = Some (ln, st') ->
  tr_r_name digest c d (mkRS RpName (S k) st names (sc :: sch)) (tr_payload c e) =
  (mkRS (RpSize (tr_payload c e)) (S k) st (tr_add_name names ln) (sc :: sch), [name_reply c ln 0]).
Proof.
  intros Hd Hs. destruct (spec_entry_inv _ _ _ _ _ _ Hs) as (E0 & st1 & E1 & E2). rewrite Hd in E2.
  destruct E2 as (E2 & ln2 & E3).
  unfold tr_r_name. cbn [rs_st rs_names rs_phase rs_left rs_sched]. rewrite E1, payload_archive, (payload_isdir _ _ E0), Hd, E2.
  unfold tr_r_phase, name_reply. cbn [rs_st rs_names rs_phase rs_left rs_sched].
  destruct (tr_json_names c) eqn:Ej; [|reflexivity].
  cbn [andb] in E2. apply N.ltb_ge in E2. apply N.le_0_r in E2. rewrite E2. reflexivity.
Qed.

Lemma size_file e : te_isdir e = false -> te_size e = tr_blen (te_data e).
Proof. unfold te_size. intros ->. reflexivity. Qed.

(* the phase the receiver is in after the SIZE echo *)
Definition after_size (c : tr_cfg) (e : tr_entry) (sc : tr_sched) : tr_rphase :=
  match tr_is_compress_fixed c (te_size e) with
  | (true, cp) => RpData (tr_payload c e) (te_size e) cp [] (sc_steps sc)
  | (false, _) => RpComp (tr_payload c e) (te_size e)
  end.

Lemma r_size_v2 c e left st names sc sch : tr_pipeline c = true ->
  tr_r_size digest c (mkRS (RpSize (tr_payload c e)) left st names (sc :: sch)) (tr_payload c e) (te_size e) =
  (mkRS (after_size c e sc) left st names (sc :: sch), [TrSuccInt digest (te_size e)]).
Proof.
  intro Hp. unfold tr_r_size, after_size. rewrite Hp. destruct (tr_is_compress_fixed c (te_size e)) as [[|] cp]; reflexivity.
Qed.

Lemma recv_comp c d e sc s left st names sch q r2s log :
  runf (length (snd (compress c e sc))) c d
    (mkConf digest s (mkRS (after_size c e sc) left st names (sc :: sch)) (snd (compress c e sc) ++ q) r2s log) =
  mkConf digest s (mkRS (RpData (tr_payload c e) (te_size e) (fst (compress c e sc)) [] (sc_steps sc)) left st names (sc :: sch))
    q r2s log.
Proof.
  unfold after_size, tr_compress. destruct (tr_is_compress_fixed c (te_size e)) as [[|] cp]; cbn [fst snd length app]; [reflexivity|].
  rewrite (run_one _ _ _ _ (step_recv' _ _ _ _ _ _ _ _)), rcv_comp. cbn [fst snd]. rewrite !app_nil_r. reflexivity.
Qed.

Definition finish_ack (fs : list (list byte)) (steps : list N) : msg :=
  TrSuccAck digest 0 (match snd (acks_go fs steps) with s :: _ => s | [] => 0 end).

Lemma snd_finish_ack c todo names fs steps :
  sender c (mkSS (SpAcks [0]) todo names) (finish_ack fs steps) = (mkSS SpFinal todo names, []).
Proof. unfold finish_ack. apply snd_ack. Qed.

Definition prefinal_of (e : tr_entry) (sc : tr_sched) : list N := filter (fun s => s <? te_size e) (sc_prefinal sc).

Definition file_log_v2 (c : tr_cfg) (e : tr_entry) (sc : tr_sched) (ln : name) : list (bool * msg) :=
  let fs := frames c e sc in
  [(true, TrName digest (tr_payload c e)); (false, name_reply c ln 0);
   (true, TrSize digest (te_size e)); (false, TrSuccInt digest (te_size e))]
  ++ tag_out true (snd (compress c e sc) ++ map (TrData digest) fs ++ [TrData digest []])
  ++ tag_out false (fst (acks_go fs (sc_steps sc)) ++ [finish_ack fs (sc_steps sc)]
                    ++ map (TrSuccInt digest) (prefinal_of e sc) ++ [TrSuccInt digest (te_size e)])
  ++ [(true, TrMd5 digest (H (te_data e))); (false, TrSuccDigest digest (H (te_data e)))].

Lemma r_finish c e left st names sc sch : table_ok c -> bytes_ok (te_data e) = true -> te_isdir e = false ->
  tr_r_frame digest zdecomp c
    (mkRS (RpData (tr_payload c e) (te_size e) (fst (compress c e sc)) ([] ++ frames c e sc) (snd (acks_go (frames c e sc) (sc_steps sc))))
       left st names (sc :: sch))
    (tr_payload c e) (te_size e) (fst (compress c e sc)) ([] ++ frames c e sc) (snd (acks_go (frames c e sc) (sc_steps sc))) [] =
  (mkRS (RpMd5 (tr_payload c e) (te_data e)) left st names (sc :: sch),
   [finish_ack (frames c e sc) (sc_steps sc)] ++ map (TrSuccInt digest) (prefinal_of e sc) ++ [TrSuccInt digest (te_size e)]).
Proof.
  intros Ht Hb Hd. unfold tr_r_frame. cbn [app].
  unfold tr_frames at 1.
  rewrite (L1_roundtrip zcomp zdecomp z_roundtrip z_bytes (tc_binary c) (fst (compress c e sc)) (tc_table c) (te_chunks e)
             (sc_sizes sc) (sc_dflt sc) [] tr_rdflt Ht Hb (Forall_nil _) (le_n 1)).
  assert (Es : tr_blen (concat (te_chunks e)) =? te_size e = true) by (rewrite (size_file e Hd); apply N.eqb_refl).
  rewrite Es. reflexivity.
Qed.

Lemma r_md5_ok c d e k st names sc sch ln st' :
  te_isdir e = false -> tr_spec_entry c d e st = Some (ln, st') ->
  tr_r_md5 digest H deq c d (mkRS (RpMd5 (tr_payload c e) (te_data e)) (S k) st names (sc :: sch)) (tr_payload c e) (te_data e)
    (H (te_data e)) =
  (fst (r_next c k st' names sch), TrSuccDigest digest (H (te_data e)) :: snd (r_next c k st' names sch)).
Proof.
  intros Hd Hs. destruct (spec_entry_inv _ _ _ _ _ _ Hs) as (E0 & st1 & E1 & E2). rewrite Hd in E2.
  destruct E2 as (E2 & ln2 & E3).
  unfold tr_r_md5. rewrite deq_refl. cbn [rs_st]. rewrite E3. unfold tr_r_done. cbn [rs_left rs_names rs_sched pred tl].
  destruct (r_next c k st' names sch) as [rn ro]. reflexivity.
Qed.

Definition steps_v2 (c : tr_cfg) (e : tr_entry) (sc : tr_sched) : nat :=
  1 + (1 + (1 + (1 + (length (snd (compress c e sc)) + (length (frames c e sc) + (1 + (length (frames c e sc) +
  (1 + (length (prefinal_of e sc) + (1 + (1 + 1))))))))))).

Lemma entry_file_v2 c d e sc ess st names L ln st' :
  tr_pipeline c = true -> table_ok c -> bytes_ok (te_data e) = true ->
  te_isdir e = false -> tr_spec_entry c d e st = Some (ln, st') ->
  runf (steps_v2 c e sc) c d (between c ((e, sc) :: ess) st names L) =
  between c ess st' (tr_add_name names ln) (L ++ file_log_v2 c e sc ln).
Proof.
  intros Hp Ht Hb Hd Hs. rewrite between_cons. unfold steps_v2.
  (* NAME -> reply *)
  rewrite run_add, (run_one _ _ _ _ (step_recv' _ _ _ _ _ _ _ _)), rcv_name,
    (r_name_file c d e (length ess) st names sc (map snd ess) ln st' Hd Hs). cbn [fst snd app].
  (* reply -> SIZE *)
  rewrite run_add, (run_one _ _ _ _ (step_send' _ _ _ _ _ _ _)), snd_name.
  replace (if tr_json_names c then 0 else 0) with 0 by (destruct (tr_json_names c); reflexivity).
  unfold tr_s_named. rewrite Hd, N.ltb_irrefl. cbn [ss_names ss_todo fst snd].
  (* SIZE -> echo *)
  rewrite run_add, (run_one _ _ _ _ (step_recv' _ _ _ _ _ _ _ _)), rcv_size, (r_size_v2 c e _ _ _ sc _ Hp). cbn [fst snd app].
  (* echo -> [COMP] frames finish *)
  rewrite run_add, (run_one _ _ _ _ (step_send' _ _ _ _ _ _ _)), snd_size.
  unfold tr_s_data. rewrite Hp. cbn [ss_names ss_todo fst snd].
  (* [COMP] *)
  rewrite run_add, recv_comp.
  (* frames *)
  rewrite run_add, recv_frames by apply frames_nonempty.
  (* finish flag *)
  rewrite run_add, (run_one _ _ _ _ (step_recv' _ _ _ _ _ _ _ _)), rcv_frame, (r_finish c e _ _ _ sc _ Ht Hb Hd). cbn [fst snd].
  (* the acks *)
  rewrite <- !app_assoc. cbn [app].
  rewrite run_add, send_acks by discriminate.
  rewrite run_add, (run_one _ _ _ _ (step_send' _ _ _ _ _ _ _)).
  rewrite !snd_finish_ack. cbn [fst snd].
  rewrite run_add, send_prefinal by apply filter_Forall.
  rewrite run_add, (run_one _ _ _ _ (step_send' _ _ _ _ _ _ _)), snd_final. cbn [fst snd].
  (* MD5 -> digest *)
  rewrite run_add, (run_one _ _ _ _ (step_recv' _ _ _ _ _ _ _ _)), rcv_md5,
    (r_md5_ok c d e (length ess) st (tr_add_name names ln) sc (map snd ess) ln st' Hd Hs). cbn [fst snd app].
  rewrite (run_one _ _ _ _ (step_send' _ _ _ _ _ _ _)), snd_md5.
  unfold between, file_log_v2.
  destruct (r_next c (length ess) st' (tr_add_name names ln) (map snd ess)) as [rn ro].
  destruct (s_next c ess (tr_add_name names ln)) as [sn so]. cbn [fst snd].
  f_equal.
  rewrite !tag_out_app.
  norm_log.
  reflexivity.
Qed.

(* ---------- a file entry, legacy exchange (protocol 1): stop and wait ---------- *)
Fixpoint dbl (n : nat) : nat := match n with O => O | S m => S (S (dbl m)) end.
Lemma dbl_spec n : dbl n = (2 * n)%nat.
Proof. induction n; cbn [dbl]; lia. Qed.

Fixpoint v1_log (c : tr_cfg) (e : tr_entry) (ch : list byte) (chs : list (list byte)) : list (bool * msg) :=
  (false, TrSuccInt digest (tr_blen ch)) ::
  match chs with
  | [] => [(true, TrMd5 digest (H (te_data e)))]
  | ch' :: chs' => (true, TrData digest (tr_v1_payload zl c ch')) :: v1_log c e ch' chs'
  end.

Lemma bytes_ok_app a b : bytes_ok (a ++ b) = bytes_ok a && bytes_ok b.
Proof. apply forallb_app. Qed.

Lemma blen_app a b : tr_blen (a ++ b) = tr_blen a + tr_blen b.
Proof. unfold tr_blen. rewrite app_length. lia. Qed.

Lemma r_v1_ok c left st names sch p size w ch : table_ok c -> bytes_ok ch = true ->
  tr_r_v1 digest unzl c (mkRS (RpV1 p size w) left st names sch) p size w (tr_v1_payload zl c ch) =
  (mkRS (if tr_blen (w ++ ch) <? size then RpV1 p size (w ++ ch) else RpMd5 p (w ++ ch)) left st names sch,
   [TrSuccInt digest (tr_blen ch)]).
Proof.
  intros Ht Hb. unfold tr_r_v1, tr_v1_payload.
  rewrite (v1_roundtrip zl unzl zl_roundtrip zl_bytes (tc_binary c) (tc_table c) ch Ht Hb). reflexivity.
Qed.

Lemma v1_loop c d e sc rest names p left st rnames sch : table_ok c -> te_isdir e = false ->
  forall chs ch w log, bytes_ok (te_data e) = true -> all_nonempty (ch :: chs) = true ->
  w ++ ch ++ concat chs = te_data e ->
  runf (dbl (length (ch :: chs))) c d
    (mkConf digest (mkSS (SpV1 chs (tr_blen ch)) ((e, sc) :: rest) names) (mkRS (RpV1 p (te_size e) w) left st rnames sch)
       [TrData digest (tr_v1_payload zl c ch)] [] log) =
  mkConf digest (mkSS SpMd5 ((e, sc) :: rest) names) (mkRS (RpMd5 p (te_data e)) left st rnames sch)
    [TrMd5 digest (H (te_data e))] [] (log ++ v1_log c e ch chs).
Proof.
  intros Ht Hd. induction chs as [|ch2 chs IH]; intros ch w log Hb Hne Hw.
  - cbn [length dbl concat] in *. rewrite app_nil_r in Hw.
    assert (Hbc : bytes_ok ch = true).
    { rewrite <- Hw, bytes_ok_app in Hb. apply andb_true_iff in Hb. tauto. }
    rewrite (run_S _ _ _ _ _ (step_recv' _ _ _ _ _ _ _ _)), rcv_v1, (r_v1_ok c _ _ _ _ _ _ _ ch Ht Hbc). cbn [fst snd app].
    rewrite Hw, (size_file e Hd), N.ltb_irrefl.
    rewrite (run_one _ _ _ _ (step_send' _ _ _ _ _ _ _)), snd_v1. cbn [fst snd v1_log].
    norm_log. reflexivity.
  - cbn [length dbl] in *. cbn [concat] in Hw.
    cbn [all_nonempty forallb] in Hne. apply andb_true_iff in Hne as [Hn1 Hn2].
    assert (Hbc : bytes_ok ch = true).
    { rewrite <- Hw, !bytes_ok_app in Hb. repeat (apply andb_true_iff in Hb as [Hb ?]). rewrite !andb_true_iff in *. tauto. }
    rewrite (run_S _ _ _ _ _ (step_recv' _ _ _ _ _ _ _ _)), rcv_v1, (r_v1_ok c _ _ _ _ _ _ _ ch Ht Hbc). cbn [fst snd app].
    assert (Hlt : tr_blen (w ++ ch) <? te_size e = true).
    { apply N.ltb_lt. rewrite (size_file e Hd), <- Hw. rewrite app_assoc, (blen_app (w ++ ch)), blen_app.
      cbn [forallb] in Hn2. apply andb_true_iff in Hn2 as [Hn2 _]. destruct ch2; [discriminate|].
      assert (0 < tr_blen ((b :: ch2) ++ concat chs)) by (unfold tr_blen; cbn [app length]; lia). lia. }
    rewrite Hlt.
    rewrite (run_S _ _ _ _ _ (step_send' _ _ _ _ _ _ _)), snd_v1. cbn [fst snd].
    rewrite (IH ch2 (w ++ ch) _ Hb Hn2) by (rewrite <- app_assoc; exact Hw).
    cbn [v1_log]. norm_log. reflexivity.
Qed.

Lemma wire_frames_nil sizes dflt : wire_frames sizes dflt [] = [].
Proof. unfold wire_frames. destruct (next_size sizes dflt). reflexivity. Qed.

Definition v1_data_log (c : tr_cfg) (e : tr_entry) (sc : tr_sched) : list (bool * msg) :=
  match tr_v1_chunks e sc with
  | [] => [(true, TrMd5 digest (H (te_data e)))]
  | ch :: chs => (true, TrData digest (tr_v1_payload zl c ch)) :: v1_log c e ch chs
  end.

Definition file_log_v1 (c : tr_cfg) (e : tr_entry) (sc : tr_sched) (ln : name) : list (bool * msg) :=
  [(true, TrName digest (tr_payload c e)); (false, name_reply c ln 0);
   (true, TrSize digest (te_size e)); (false, TrSuccInt digest (te_size e))]
  ++ v1_data_log c e sc ++ [(false, TrSuccDigest digest (H (te_data e)))].

Lemma r_size_v1 c e left st names sch : tr_pipeline c = false ->
  tr_r_size digest c (mkRS (RpSize (tr_payload c e)) left st names sch) (tr_payload c e) (te_size e) =
  (mkRS (if 0 <? te_size e then RpV1 (tr_payload c e) (te_size e) [] else RpMd5 (tr_payload c e) []) left st names sch,
   [TrSuccInt digest (te_size e)]).
Proof. intro Hp. unfold tr_r_size. rewrite Hp. destruct (0 <? te_size e); reflexivity. Qed.

Definition steps_v1 (e : tr_entry) (sc : tr_sched) : nat :=
  1 + (1 + (1 + (1 + (dbl (length (tr_v1_chunks e sc)) + (1 + 1))))).

Lemma entry_file_v1 c d e sc ess st names L ln st' :
  tr_pipeline c = false -> table_ok c -> bytes_ok (te_data e) = true ->
  te_isdir e = false -> tr_spec_entry c d e st = Some (ln, st') ->
  runf (steps_v1 e sc) c d (between c ((e, sc) :: ess) st names L) =
  between c ess st' (tr_add_name names ln) (L ++ file_log_v1 c e sc ln).
Proof.
  intros Hp Ht Hb Hd Hs. rewrite between_cons. unfold steps_v1.
  rewrite run_add, (run_one _ _ _ _ (step_recv' _ _ _ _ _ _ _ _)), rcv_name,
    (r_name_file c d e (length ess) st names sc (map snd ess) ln st' Hd Hs). cbn [fst snd app].
  rewrite run_add, (run_one _ _ _ _ (step_send' _ _ _ _ _ _ _)), snd_name.
  replace (if tr_json_names c then 0 else 0) with 0 by (destruct (tr_json_names c); reflexivity).
  unfold tr_s_named. rewrite Hd, N.ltb_irrefl. cbn [ss_names ss_todo fst snd].
  rewrite run_add, (run_one _ _ _ _ (step_recv' _ _ _ _ _ _ _ _)), rcv_size, (r_size_v1 c e _ _ _ _ Hp). cbn [fst snd app].
  rewrite run_add, (run_one _ _ _ _ (step_send' _ _ _ _ _ _ _)), snd_size.
  unfold tr_s_data. rewrite Hp. unfold file_log_v1, v1_data_log.
  pose proof (frames_concat (sc_sizes sc) (sc_dflt sc) (te_data e)) as Hcat.
  pose proof (frames_nonempty (sc_sizes sc) (sc_dflt sc) (te_data e)) as Hne.
  fold (tr_v1_chunks e sc) in Hcat, Hne.
  destruct (tr_v1_chunks e sc) as [|ch chs] eqn:Ech.
  - (* empty file: MD5 at once *)
    cbn [concat] in Hcat. cbn [length dbl plus].
    assert (Hz : 0 <? te_size e = false) by (rewrite (size_file e Hd), <- Hcat; reflexivity).
    rewrite Hz. unfold tr_s_md5. cbn [fst snd ss_todo ss_names].
    rewrite Hcat.
    rewrite (run_S _ _ _ _ _ (step_recv' _ _ _ _ _ _ _ _)), rcv_md5,
      (r_md5_ok c d e (length ess) st (tr_add_name names ln) sc (map snd ess) ln st' Hd Hs). cbn [fst snd app].
    rewrite (run_one _ _ _ _ (step_send' _ _ _ _ _ _ _)), snd_md5.
    unfold between.
    destruct (r_next c (length ess) st' (tr_add_name names ln) (map snd ess)) as [rn ro].
    destruct (s_next c ess (tr_add_name names ln)) as [sn so]. cbn [fst snd].
    f_equal. norm_log. reflexivity.
  - assert (Hz : 0 <? te_size e = true).
    { apply N.ltb_lt. rewrite (size_file e Hd), <- Hcat. cbn [all_nonempty forallb] in Hne.
      apply andb_true_iff in Hne as [Hn _]. destruct ch; [discriminate|]. unfold tr_blen. cbn [concat app length]. lia. }
    rewrite Hz. cbn [fst snd ss_todo ss_names].
    rewrite run_add, (v1_loop c d e sc ess (tr_add_name names ln) _ _ _ _ _ Ht Hd chs ch [] _ Hb Hne Hcat).
    rewrite run_add, (run_one _ _ _ _ (step_recv' _ _ _ _ _ _ _ _)), rcv_md5,
      (r_md5_ok c d e (length ess) st (tr_add_name names ln) sc (map snd ess) ln st' Hd Hs). cbn [fst snd app].
    rewrite (run_one _ _ _ _ (step_send' _ _ _ _ _ _ _)), snd_md5.
    unfold between.
    destruct (r_next c (length ess) st' (tr_add_name names ln) (map snd ess)) as [rn ro].
    destruct (s_next c ess (tr_add_name names ln)) as [sn so]. cbn [fst snd].
    f_equal. norm_log. reflexivity.
Qed.

(* ---------- all entries ---------- *)
Definition entry_log (c : tr_cfg) (es : tr_entry * tr_sched) (ln : name) : list (bool * msg) :=
  if te_isdir (fst es) then dir_log c (fst es) ln
  else if tr_pipeline c then file_log_v2 c (fst es) (snd es) ln
  else file_log_v1 c (fst es) (snd es) ln.

Fixpoint all_log (c : tr_cfg) (ess : list (tr_entry * tr_sched)) (per : list name) : list (bool * msg) :=
  match ess, per with
  | es :: ess', ln :: per' => entry_log c es ln ++ all_log c ess' per'
  | _, _ => []
  end.

Lemma entry_steps_eq c e sc : tr_entry_steps digest zcomp c (e, sc) =
  if te_isdir e then 2%nat else if tr_pipeline c then steps_v2 c e sc else steps_v1 e sc.
Proof.
  unfold tr_entry_steps, steps_v2, steps_v1, prefinal_of. rewrite dbl_spec.
  destruct (te_isdir e); [reflexivity|]. destruct (tr_pipeline c); lia.
Qed.

Definition entries_steps (c : tr_cfg) (ess : list (tr_entry * tr_sched)) : nat :=
  fold_right (fun es n => tr_entry_steps digest zcomp c es + n)%nat 0%nat ess.

Lemma run_entries_prefix c d rest : table_ok c -> forall ess st names L per all stf,
  Forall (fun es => bytes_ok (te_data (fst es)) = true) ess ->
  tr_spec c d (map fst ess) st names = Some (per, all, stf) ->
  runf (entries_steps c ess) c d (between c (ess ++ rest) st names L) = between c rest stf all (L ++ all_log c ess per).
Proof.
  intros Ht. induction ess as [|[e sc] ess IH]; intros st names L per all stf Hb Hs.
  - cbn in Hs. inversion Hs; subst. cbn [entries_steps fold_right tr_run_from all_log app]. rewrite app_nil_r. reflexivity.
  - cbn [map fst tr_spec] in Hs. destruct (tr_spec_entry c d e st) as [[ln st1]|] eqn:Ee; [|discriminate].
    destruct (tr_spec c d (map fst ess) st1 (tr_add_name names ln)) as [[[per' all'] stf']|] eqn:Er; [|discriminate].
    inversion Hs; subst. inversion Hb as [|? ? Hb1 Hb2]; subst. cbn [fst] in Hb1.
    unfold entries_steps. cbn [fold_right]. fold (entries_steps c ess). rewrite run_add.
    cbn [all_log app]. unfold entry_log. cbn [fst snd]. rewrite entry_steps_eq.
    destruct (te_isdir e) eqn:Hd.
    + rewrite (entry_dir c d e sc (ess ++ rest) st names L ln st1 Hd Ee).
      rewrite (IH _ _ _ _ _ _ Hb2 Er), <- app_assoc. reflexivity.
    + destruct (tr_pipeline c) eqn:Hp.
      * rewrite (entry_file_v2 c d e sc (ess ++ rest) st names L ln st1 Hp Ht Hb1 Hd Ee).
        rewrite (IH _ _ _ _ _ _ Hb2 Er), <- app_assoc. reflexivity.
      * rewrite (entry_file_v1 c d e sc (ess ++ rest) st names L ln st1 Hp Ht Hb1 Hd Ee).
        rewrite (IH _ _ _ _ _ _ Hb2 Er), <- app_assoc. reflexivity.
Qed.

Lemma run_entries c d : table_ok c -> forall ess st names L per all stf,
  Forall (fun es => bytes_ok (te_data (fst es)) = true) ess ->
  tr_spec c d (map fst ess) st names = Some (per, all, stf) ->
  runf (entries_steps c ess) c d (between c ess st names L) = between c [] stf all (L ++ all_log c ess per).
Proof.
  intros Ht ess st names L per all stf Hb Hs.
  pose proof (run_entries_prefix c d [] Ht ess st names L per all stf Hb Hs) as Hr. rewrite app_nil_r in Hr. exact Hr.
Qed.

(* ---------- the whole run ---------- *)
Definition full_log (c : tr_cfg) (ess : list (tr_entry * tr_sched)) (per all : list name) : list (bool * msg) :=
  [(true, TrNum digest (N.of_nat (length ess))); (false, TrSuccInt digest (N.of_nat (length ess)))]
  ++ all_log c ess per ++ [(tc_upload c, TrExit digest all)].

Lemma fuel_eq c ess : tr_fuel digest zcomp c ess = (2 + (entries_steps c ess + 1))%nat.
Proof.
  unfold tr_fuel, entries_steps. f_equal. induction ess as [|es ess IH]; [reflexivity|]. cbn [fold_right]. rewrite IH. lia.
Qed.

Lemma init_two_steps c d ess f0 :
  runf 2 c d (tr_init digest c ess f0) =
  between c ess (init_state f0) []
    [(true, TrNum digest (N.of_nat (length ess))); (false, TrSuccInt digest (N.of_nat (length ess)))].
Proof.
  unfold tr_init, tr_sender_init, tr_receiver_init.
  rewrite (run_S _ _ _ _ _ (step_recv' _ _ _ _ _ _ _ _)), rcv_num, Nat2N.id. cbn [fst snd app].
  rewrite (run_one _ _ _ _ (step_send' _ _ _ _ _ _ _)), snd_num.
  unfold between.
  destruct (r_next c (length ess) (init_state f0) [] (map snd ess)) as [rn ro].
  destruct (s_next c ess []) as [sn so]. cbn [fst snd]. f_equal; norm_log; reflexivity.
Qed.

Definition final_conf (c : tr_cfg) (stf : state) (all : list name) (log : list (bool * msg)) : conf :=
  mkConf digest (mkSS SpDone [] all) (mkRS RpDone O stf all []) [] [] log.

Lemma last_step c d stf all L :
  runf 1 c d (between c [] stf all L) = final_conf c stf all (L ++ [(tc_upload c, TrExit digest all)]).
Proof.
  unfold between, final_conf. cbn [tr_s_next tr_r_next length map]. destruct (tc_upload c) eqn:Hu; cbn [fst snd].
  - rewrite (run_one _ _ _ _ (step_recv' _ _ _ _ _ _ _ _)), rcv_exit. cbn [fst snd]. f_equal; norm_log; rewrite ?app_nil_r; reflexivity.
  - rewrite (run_one _ _ _ _ (step_send' _ _ _ _ _ _ _)), snd_exit. cbn [fst snd]. f_equal; norm_log; rewrite ?app_nil_r; reflexivity.
Qed.

Lemma final_stuck c d stf all log : stepc c d (final_conf c stf all log) = None.
Proof. reflexivity. Qed.

Theorem run_complete c d ess f0 per all stf : table_ok c ->
  Forall (fun es => bytes_ok (te_data (fst es)) = true) ess ->
  tr_spec c d (map fst ess) (init_state f0) [] = Some (per, all, stf) ->
  forall fuel, (tr_fuel digest zcomp c ess <= fuel)%nat ->
  tr_run digest H deq zcomp zdecomp zl unzl fuel c d ess f0 = final_conf c stf all (full_log c ess per all).
Proof.
  intros Ht Hb Hs fuel Hf. unfold tr_run.
  replace fuel with (tr_fuel digest zcomp c ess + (fuel - tr_fuel digest zcomp c ess))%nat by lia.
  rewrite run_add, fuel_eq, run_add, init_two_steps, run_add, (run_entries c d Ht ess _ _ _ per all stf Hb Hs), last_step.
  rewrite run_stuck by apply final_stuck. unfold full_log. norm_app. reflexivity.
Qed.

(* ---------- the receiver refuses an entry (or an unmodelled exchange would start) ---------- *)
Lemma entry_fail c d e sc ess st names L :
  (te_isdir e = true -> tr_json c = true) -> tr_spec_entry c d e st = None ->
  let cf := runf 2 c d (between c ((e, sc) :: ess) st names L) in
  stepc c d cf = None /\ tr_sender_ok digest cf = false /\ tr_receiver_ok digest cf = false.
Proof.
  intros Hdj Hs. rewrite between_cons.
  rewrite (run_S _ _ _ _ _ (step_recv' _ _ _ _ _ _ _ _)), rcv_name.
  unfold tr_spec_entry in Hs.
  assert (E0 : te_isdir e && negb (tr_json c) = false).
  { destruct (te_isdir e); [rewrite (Hdj eq_refl); reflexivity | reflexivity]. }
  rewrite E0 in Hs. unfold tr_r_name. cbn [rs_st rs_names rs_phase rs_left rs_sched].
  destruct (tr_create c d (tr_payload c e) [] st) as [[ln|] st1] eqn:E1.
  - rewrite payload_archive, (payload_isdir _ _ E0).
    destruct (te_isdir e) eqn:Hd; [discriminate|].
    destruct (tr_json_names c && (0 <? tr_target_size d ln (tr_payload c e) st1)) eqn:E2.
    + (* the resume exchange would start *)
      apply andb_true_iff in E2 as [Ej E2]. unfold tr_r_phase. cbn [fst snd app rs_st rs_names rs_phase rs_left rs_sched].
      fold (name_reply c ln (tr_target_size d ln (tr_payload c e) st1)).
      rewrite (run_one _ _ _ _ (step_send' _ _ _ _ _ _ _)), snd_name. unfold tr_s_named. rewrite Hd, Ej, E2.
      cbn [fst snd]. repeat split.
    + pose proof (tr_create_indep c d (tr_payload c e) [] (te_data e) st) as Hi. rewrite E1 in Hi. cbn [fst] in Hi.
      destruct (tr_create c d (tr_payload c e) (te_data e) st) as [[l2|] st2]; [discriminate | discriminate].
  - unfold tr_r_fail. cbn [fst snd app rs_st rs_names rs_phase rs_left rs_sched].
    rewrite (run_one _ _ _ _ (step_send' _ _ _ _ _ _ _)). cbn [tr_sender ss_phase fst snd]. repeat split.
Qed.

Lemma spec_none_split c d : forall (ess : list (tr_entry * tr_sched)) st names, tr_spec c d (map fst ess) st names = None ->
  exists pre e sc post per all st1, ess = pre ++ (e, sc) :: post /\
    tr_spec c d (map fst pre) st names = Some (per, all, st1) /\ tr_spec_entry c d e st1 = None.
Proof.
  induction ess as [|[e sc] ess IH]; intros st names Hs; [discriminate|].
  cbn [map fst tr_spec] in Hs. destruct (tr_spec_entry c d e st) as [[ln st1]|] eqn:Ee.
  - destruct (tr_spec c d (map fst ess) st1 (tr_add_name names ln)) as [[[per' all'] stf']|] eqn:Er; [discriminate|].
    destruct (IH _ _ Er) as (pre & e2 & sc2 & post & per & all & st2 & -> & Hp & He).
    exists ((e, sc) :: pre), e2, sc2, post, (ln :: per), all, st2. split; [reflexivity|]. split; [|exact He].
    cbn [map fst tr_spec]. rewrite Ee, Hp. reflexivity.
  - exists [], e, sc, ess, [], names, st. repeat split. exact Ee.
Qed.

Lemma entry_steps_ge2 c es : (2 <= tr_entry_steps digest zcomp c es)%nat.
Proof. destruct es as [e sc]. unfold tr_entry_steps. destruct (te_isdir e); [lia|]. destruct (tr_pipeline c); lia. Qed.

Lemma entries_steps_app c a b : entries_steps c (a ++ b) = (entries_steps c a + entries_steps c b)%nat.
Proof. unfold entries_steps. induction a as [|x a IH]; [reflexivity|]. cbn [app fold_right]. rewrite IH. lia. Qed.

Theorem run_incomplete c d ess f0 : table_ok c ->
  Forall (fun es => bytes_ok (te_data (fst es)) = true) ess ->
  Forall (fun es => te_isdir (fst es) = true -> tr_json c = true) ess ->
  tr_spec c d (map fst ess) (init_state f0) [] = None ->
  forall fuel, (tr_fuel digest zcomp c ess <= fuel)%nat ->
  tr_sender_ok digest (tr_run digest H deq zcomp zdecomp zl unzl fuel c d ess f0) = false /\
  tr_receiver_ok digest (tr_run digest H deq zcomp zdecomp zl unzl fuel c d ess f0) = false.
Proof.
  intros Ht Hb Hdj Hs fuel Hf.
  destruct (spec_none_split c d ess _ _ Hs) as (pre & e & sc & post & per & all & st1 & -> & Hp & He).
  apply Forall_app in Hb as [Hb1 _]. apply Forall_app in Hdj as [_ Hdj]. inversion Hdj as [|? ? Hdj1 _]; subst. cbn [fst] in Hdj1.
  rewrite fuel_eq, entries_steps_app in Hf. cbn [entries_steps fold_right] in Hf. fold (entries_steps c post) in Hf.
  pose proof (entry_steps_ge2 c (e, sc)) as H2.
  unfold tr_run.
  replace fuel with (2 + (entries_steps c pre + (2 + (fuel - 4 - entries_steps c pre))))%nat by lia.
  rewrite run_add, init_two_steps, run_add, (run_entries_prefix c d ((e, sc) :: post) Ht pre _ _ _ per all st1 Hb1 Hp), run_add.
  match goal with |- context [between c ((e, sc) :: post) st1 all ?L] =>
    destruct (entry_fail c d e sc post st1 all L Hdj1 He) as (A & B & C) end.
  rewrite run_stuck by exact A. split; assumption.
Qed.

(* ---------- the shape of the transcript ---------- *)
Definition tg (l : list (bool * msg)) : list tr_tag := map (fun dm => tr_tag_of digest (snd dm)) l.

Lemma tg_app a b : tg (a ++ b) = tg a ++ tg b.
Proof. apply map_app. Qed.

Lemma acc_app pipe : forall l1 q l2, tr_accepts_from pipe q (l1 ++ l2) =
  match tr_accepts_from pipe q l1 with Some q' => tr_accepts_from pipe q' l2 | None => None end.
Proof.
  induction l1 as [|t l1 IH]; intros q l2; [reflexivity|]. cbn [app tr_accepts_from].
  destruct (tr_delta pipe q t); [apply IH | reflexivity].
Qed.

Definition between_q (q : tr_q) : Prop := q = Q2 \/ q = Q4.

Lemma tag_reply c ln sz : tr_tag_of digest (name_reply c ln sz) = TgSucc.
Proof. unfold name_reply. destruct (tr_json_names c); reflexivity. Qed.

Lemma tg_frames dir : forall fs : list (list byte), all_nonempty fs = true ->
  tg (tag_out dir (map (TrData digest) fs)) = map (fun _ => TgData) fs.
Proof.
  induction fs as [|f fs IH]; intro Hne; [reflexivity|].
  cbn [all_nonempty forallb] in Hne. apply andb_true_iff in Hne as [Hf Hr]. destruct (nonempty_cons f Hf) as (x & fr & ->).
  cbn [map tr_tag_out tg snd tr_tag_of]. f_equal. apply (IH Hr).
Qed.

Lemma tg_acks : forall (fs : list (list byte)) steps, tg (tag_out false (fst (acks_go fs steps))) = map (fun _ => TgAck) fs.
Proof.
  induction fs as [|f fs IH]; intro steps; [reflexivity|].
  cbn [acks_go]. specialize (IH (tl steps)). destruct (acks_go fs (tl steps)) as [a s']. cbn [fst] in *.
  cbn [map tr_tag_out tg snd tr_tag_of]. f_equal. exact IH.
Qed.

Lemma tg_ints (l : list N) : tg (tag_out false (map (TrSuccInt digest) l)) = map (fun _ => TgSucc) l.
Proof. induction l as [|x l IH]; [reflexivity|]. cbn [map tr_tag_out tg snd tr_tag_of]. f_equal. exact IH. Qed.

Lemma acc_datas {A} : forall (l : list A) q rest, q = Q6 \/ q = Q7 ->
  tr_accepts_from true q (map (fun _ => TgData) l ++ TgFinish :: rest) = tr_accepts_from true Q8 rest.
Proof.
  induction l as [|x l IH]; intros q rest Hq; cbn [map app tr_accepts_from].
  - destruct Hq as [-> | ->]; reflexivity.
  - assert (Hd : tr_delta true q TgData = Some Q7) by (destruct Hq as [-> | ->]; reflexivity).
    rewrite Hd. apply IH. right; reflexivity.
Qed.

Lemma acc_ackl {A} : forall (l : list A) rest,
  tr_accepts_from true Q8 (map (fun _ => TgAck) l ++ rest) = tr_accepts_from true Q8 rest.
Proof. induction l as [|x l IH]; intro rest; [reflexivity|]. cbn [map app tr_accepts_from tr_delta]. apply IH. Qed.

Lemma acc_succs {A} : forall (l : list A) q rest, q = Q8 \/ q = Q9 ->
  tr_accepts_from true q (map (fun _ => TgSucc) l ++ TgSucc :: rest) = tr_accepts_from true Q9 rest.
Proof.
  induction l as [|x l IH]; intros q rest Hq; cbn [map app tr_accepts_from].
  - destruct Hq as [-> | ->]; reflexivity.
  - assert (Hd : tr_delta true q TgSucc = Some Q9) by (destruct Hq as [-> | ->]; reflexivity).
    rewrite Hd. apply IH. right; reflexivity.
Qed.

Lemma acc_dir c e ln q rest : between_q q ->
  tr_accepts_from (tr_pipeline c) q (tg (dir_log c e ln) ++ rest) = tr_accepts_from (tr_pipeline c) Q4 rest.
Proof.
  intro Hq. unfold dir_log. cbn [tg map snd tr_tag_of app tr_accepts_from]. rewrite tag_reply.
  destruct Hq as [-> | ->]; reflexivity.
Qed.

Lemma tg_file_v2 c e sc ln : tg (file_log_v2 c e sc ln) =
  [TgName; TgSucc; TgSize; TgSucc] ++ tg (tag_out true (snd (compress c e sc)))
  ++ map (fun _ => TgData) (frames c e sc) ++ [TgFinish]
  ++ map (fun _ => TgAck) (frames c e sc) ++ [TgAck]
  ++ map (fun _ => TgSucc) (prefinal_of e sc) ++ [TgSucc] ++ [TgMd5; TgSucc].
Proof.
  unfold file_log_v2. cbv zeta. rewrite !tg_app, !tag_out_app, !tg_app.
  rewrite (tg_frames true (frames c e sc) (frames_nonempty _ _ _)), tg_acks, tg_ints.
  cbn [tg map snd tr_tag_of tr_tag_out]. rewrite tag_reply. unfold finish_ack. cbn [tr_tag_of].
  repeat rewrite <- app_assoc. reflexivity.
Qed.

Lemma acc_file_v2 c e sc ln q rest : tr_pipeline c = true -> between_q q ->
  tr_accepts_from (tr_pipeline c) q (tg (file_log_v2 c e sc ln) ++ rest) = tr_accepts_from (tr_pipeline c) Q2 rest.
Proof.
  intros Hp Hq. rewrite Hp, tg_file_v2. repeat rewrite <- app_assoc. cbn [app tr_accepts_from].
  assert (H1 : tr_delta true q TgName = Some Q3) by (destruct Hq as [-> | ->]; reflexivity).
  rewrite H1. cbn [tr_delta].
  assert (Hc : exists q', (q' = Q6 \/ q' = Q7) /\ forall r,
     tr_accepts_from true Q6 (tg (tag_out true (snd (compress c e sc))) ++ r) = tr_accepts_from true q' r).
  { unfold tr_compress. destruct (tr_is_compress_fixed c (te_size e)) as [[|] cp]; cbn [snd].
    - exists Q6. split; [left; reflexivity | reflexivity].
    - exists Q7. split; [right; reflexivity | reflexivity]. }
  destruct Hc as (q' & Hq' & Hc). rewrite Hc, (acc_datas _ _ _ Hq'), acc_ackl.
  cbn [tr_accepts_from tr_delta]. rewrite acc_succs by (left; reflexivity). reflexivity.
Qed.

(* legacy exchange: DATA SUCC DATA SUCC ... MD5 *)
Lemma tag_data_any f : tr_tag_of digest (TrData digest f) = TgData \/ tr_tag_of digest (TrData digest f) = TgFinish.
Proof. destruct f; [right | left]; reflexivity. Qed.

Lemma acc_v1_log c e : forall chs ch rest,
  tr_accepts_from false Q11 (tg (v1_log c e ch chs) ++ rest) = tr_accepts_from false Q10 rest.
Proof.
  induction chs as [|ch2 chs IH]; intros ch rest; cbn [v1_log tg map snd app tr_tag_of tr_accepts_from tr_delta]; [reflexivity|].
  destruct (tr_v1_payload zl c ch2); apply IH.
Qed.

Lemma acc_file_v1 c e sc ln q rest : tr_pipeline c = false -> between_q q ->
  tr_accepts_from (tr_pipeline c) q (tg (file_log_v1 c e sc ln) ++ rest) = tr_accepts_from (tr_pipeline c) Q2 rest.
Proof.
  intros Hp Hq. rewrite Hp. unfold file_log_v1. rewrite !tg_app. repeat rewrite <- app_assoc.
  cbn [tg map snd tr_tag_of app tr_accepts_from]. rewrite tag_reply.
  assert (H1 : tr_delta false q TgName = Some Q3) by (destruct Hq as [-> | ->]; reflexivity).
  rewrite H1. cbn [tr_delta]. unfold v1_data_log. destruct (tr_v1_chunks e sc) as [|ch chs].
  - reflexivity.
  - cbn [map snd app tr_accepts_from tr_tag_of].
    destruct (tr_v1_payload zl c ch); cbn [tr_delta]; apply acc_v1_log.
Qed.

Lemma acc_all c : forall ess per q rest, between_q q ->
  exists q', between_q q' /\
    tr_accepts_from (tr_pipeline c) q (tg (all_log c ess per) ++ rest) = tr_accepts_from (tr_pipeline c) q' rest.
Proof.
  induction ess as [|[e sc] ess IH]; intros per q rest Hq; [exists q; split; [exact Hq | reflexivity]|].
  destruct per as [|ln per]; [exists q; split; [exact Hq | reflexivity]|].
  cbn [all_log]. rewrite tg_app, <- app_assoc. unfold entry_log. cbn [fst snd].
  destruct (te_isdir e).
  - rewrite (acc_dir c e ln q _ Hq). apply IH. right; reflexivity.
  - destruct (tr_pipeline c) eqn:Hp.
    + pose proof (fun r => acc_file_v2 c e sc ln q r Hp Hq) as Hx. rewrite Hp in Hx. rewrite Hx. apply IH. left; reflexivity.
    + pose proof (fun r => acc_file_v1 c e sc ln q r Hp Hq) as Hx. rewrite Hp in Hx. rewrite Hx. apply IH. left; reflexivity.
Qed.

Theorem shape_ok c ess per all : tr_shape_ok digest (tr_pipeline c) (full_log c ess per all) = true.
Proof.
  unfold tr_shape_ok, full_log. fold (tg ([(true, TrNum digest (N.of_nat (length ess))); (false, TrSuccInt digest (N.of_nat (length ess)))]
    ++ all_log c ess per ++ [(tc_upload c, TrExit digest all)])).
  rewrite tg_app. cbn [tg map snd tr_tag_of app tr_accepts_from tr_delta]. fold (tg (all_log c ess per ++ [(tc_upload c, TrExit digest all)])).
  rewrite tg_app. destruct (acc_all c ess per Q2 (tg [(tc_upload c, TrExit digest all)]) (or_introl eq_refl)) as (q' & Hq' & ->).
  destruct Hq' as [-> | ->]; reflexivity.
Qed.

(* ---------- the composed statements ---------- *)
Lemma nodup_fold_add per : forall names, NoDup names -> NoDup (fold_left tr_add_name per names).
Proof. induction per as [|n per IH]; intros names Hn; [exact Hn|]. cbn [fold_left]. apply IH, nodup_add_name, Hn. Qed.

Theorem transfer_ok c d ess f0 per all stf : table_ok c ->
  Forall (fun es => bytes_ok (te_data (fst es)) = true) ess ->
  stat f0 d = SFound Dir -> tr_wf c (map fst ess) ->
  tr_spec c d (map fst ess) (init_state f0) [] = Some (per, all, stf) ->
  forall fuel, (tr_fuel digest zcomp c ess <= fuel)%nat ->
  tr_outcome_ok c d f0 ess (tr_run digest H deq zcomp zdecomp zl unzl fuel c d ess f0).
Proof.
  intros Ht Hb Hd Hwf Hs fuel Hf. rewrite (run_complete c d ess f0 per all stf Ht Hb Hs fuel Hf).
  destruct (spec_tree c d f0 (map fst ess) per all stf Hd Hwf Hs) as (A1 & A2 & A3 & A4 & A5 & A6).
  unfold tr_outcome_ok, final_conf. cbn [tr_sender_ok tr_receiver_ok tr_quiet cf_s cf_r cf_s2r cf_r2s cf_log ss_phase rs_phase ss_names rs_names rs_st].
  repeat (split; [reflexivity|]). exists per, all. repeat (split; [reflexivity|]).
  split; [|split; [unfold full_log; eexists; rewrite app_assoc; reflexivity | apply shape_ok]].
  unfold tr_tree_at. split; [exact A1|]. split.
  { intro ln. rewrite A2, in_fold_add. cbn. tauto. }
  split; [rewrite A2; apply nodup_fold_add; constructor|]. auto.
Qed.

Lemma quiet_stuck c d (cf : conf) : tr_quiet digest cf = true -> stepc c d cf = None.
Proof. unfold tr_quiet, tr_step. destruct (cf_s2r digest cf); [|discriminate]. destruct (cf_r2s digest cf); [reflexivity | discriminate]. Qed.

Theorem success_implies_ok c d ess f0 : table_ok c ->
  Forall (fun es => bytes_ok (te_data (fst es)) = true) ess ->
  Forall (fun es => te_isdir (fst es) = true -> tr_json c = true) ess ->
  stat f0 d = SFound Dir -> tr_wf c (map fst ess) ->
  forall fuel, (tr_fuel digest zcomp c ess <= fuel)%nat \/ tr_quiet digest (tr_run digest H deq zcomp zdecomp zl unzl fuel c d ess f0) = true ->
  tr_sender_ok digest (tr_run digest H deq zcomp zdecomp zl unzl fuel c d ess f0) = true \/
  tr_receiver_ok digest (tr_run digest H deq zcomp zdecomp zl unzl fuel c d ess f0) = true ->
  tr_outcome_ok c d f0 ess (tr_run digest H deq zcomp zdecomp zl unzl fuel c d ess f0).
Proof.
  intros Ht Hb Hdj Hd Hwf fuel Hf Hok.
  (* at rest, more fuel changes nothing: reduce to the case of enough fuel *)
  assert (Hrun : exists fuel', (tr_fuel digest zcomp c ess <= fuel')%nat /\
     tr_run digest H deq zcomp zdecomp zl unzl fuel' c d ess f0 = tr_run digest H deq zcomp zdecomp zl unzl fuel c d ess f0).
  { destruct Hf as [Hf|Hq]; [exists fuel; split; [exact Hf | reflexivity]|].
    exists (fuel + tr_fuel digest zcomp c ess)%nat. split; [lia|]. unfold tr_run. rewrite run_add.
    apply run_stuck, quiet_stuck, Hq. }
  destruct Hrun as (fuel' & Hf' & Heq). rewrite <- Heq in Hok |- *. clear Heq.
  destruct (tr_spec c d (map fst ess) (init_state f0) []) as [[[per all] stf]|] eqn:Hs.
  - apply (transfer_ok c d ess f0 per all stf Ht Hb Hd Hwf Hs fuel' Hf').
  - destruct (run_incomplete c d ess f0 Ht Hb Hdj Hs fuel' Hf') as [A B]. rewrite A, B in Hok. destruct Hok; discriminate.
Qed.

(* the same with the acceptance premise replaced by a condition on the inputs; then also: the names
   are the names as sent, and nothing but the entries' own places has changed at the destination *)
Theorem transfer_ready c d ess f0 : table_ok c ->
  Forall (fun es => bytes_ok (te_data (fst es)) = true) ess ->
  stat f0 d = SFound Dir -> Forall tr_comp_ok d -> tr_ready c d f0 (map fst ess) ->
  forall fuel, (tr_fuel digest zcomp c ess <= fuel)%nat ->
  let cf := tr_run digest H deq zcomp zdecomp zl unzl fuel c d ess f0 in
  tr_outcome_ok c d f0 ess cf /\
  ss_names (cf_s digest cf) = fold_left tr_add_name (map (tr_key c) (map fst ess)) [] /\
  (forall q, q <> [] -> (forall e, In e (map fst ess) -> q <> tr_leaf_of c d e) ->
     lookup (st_fs (rs_st (cf_r digest cf))) q = lookup f0 q).
Proof.
  intros Ht Hb Hd Hdc Hr fuel Hf. cbv zeta.
  destruct (ready_accepts c d Hdc f0 (map fst ess) Hd Hr) as (all & stf & Hs & Hfr).
  pose proof (ready_wf c d f0 (map fst ess) Hr) as Hwf.
  split; [apply (transfer_ok c d ess f0 _ all stf Ht Hb Hd Hwf Hs fuel Hf)|].
  rewrite (run_complete c d ess f0 _ all stf Ht Hb Hs fuel Hf). cbn [final_conf cf_s cf_r ss_names rs_st].
  destruct (spec_tree c d f0 (map fst ess) _ all stf Hd Hwf Hs) as (_ & A & _). split; [exact A | exact Hfr].
Qed.

End TransferProofs.

(* ---------- the premises are satisfiable ---------- *)
(* an injective coding of arbitrary number lists into byte lists (unary, 0-terminated), as a
   stand-in for a compressor: it meets both codec hypotheses *)
Definition wit_enc (l : list N) : list byte := flat_map (fun x => repeat 1 (N.to_nat x) ++ [0]) l.
Fixpoint wit_dec (acc : N) (l : list byte) : list N :=
  match l with
  | [] => []
  | b :: r => if b =? 0 then acc :: wit_dec 0 r else wit_dec (acc + 1) r
  end.

Lemma wit_dec_ones n : forall acc rest, wit_dec acc (repeat 1 n ++ 0 :: rest) = (acc + N.of_nat n) :: wit_dec 0 rest.
Proof.
  induction n as [|n IH]; intros acc rest.
  - cbn. rewrite N.add_0_r. reflexivity.
  - cbn [repeat app wit_dec]. change (1 =? 0) with false. cbv iota. rewrite IH. f_equal. lia.
Qed.

Lemma wit_roundtrip l : wit_dec 0 (wit_enc l) = l.
Proof.
  induction l as [|x l IH]; [reflexivity|]. cbn [wit_enc flat_map]. rewrite <- app_assoc. cbn [app].
  rewrite wit_dec_ones. fold (wit_enc l). rewrite IH, N.add_0_l, N2Nat.id. reflexivity.
Qed.

Lemma wit_bytes l : bytes_ok (wit_enc l) = true.
Proof.
  unfold bytes_ok. apply forallb_forall. intros b Hb. unfold wit_enc in Hb. apply in_flat_map in Hb as (x & _ & Hb).
  apply in_app_or in Hb as [Hb|[<-|[]]]; [apply repeat_spec in Hb; subst|]; reflexivity.
Qed.

Definition wit_zcomp (cs : list (list byte)) : list (list byte) := [wit_enc (concat cs)].
Definition wit_zdecomp (z : list byte) : option (list byte) := Some (wit_dec 0 z).
Definition wit_zl (d : list byte) : list byte := wit_enc d.
Definition wit_unzl (z : list byte) : option (list byte) := Some (wit_dec 0 z).

Lemma wit_codec_ok :
  (forall cs, wit_zdecomp (concat (wit_zcomp cs)) = Some (concat cs)) /\
  (forall cs, bytes_ok (concat (wit_zcomp cs)) = true) /\
  (forall d, wit_unzl (wit_zl d) = Some d) /\ (forall d, bytes_ok (wit_zl d) = true).
Proof.
  unfold wit_zdecomp, wit_zcomp, wit_unzl, wit_zl. cbn [concat]. repeat split; intros; rewrite ?app_nil_r.
  - rewrite wit_roundtrip. reflexivity.
  - apply wit_bytes.
  - rewrite wit_roundtrip. reflexivity.
  - apply wit_bytes.
Qed.

(* ---------- after the negotiation of C14 both ends run with one configuration ---------- *)
From Trzsz Require Import Model.RelayNeg Proofs.RelayNeg.

Lemma ends_agree_cfg so cc upload : ends_agree so cc -> tr_cfg_of so upload = tr_cfg_of cc upload.
Proof.
  unfold ends_agree, tr_cfg_of. intros (A & B & C & _ & E & _ & G & I & _). rewrite A, B, C, E, G, I. reflexivity.
Qed.

Theorem negotiated_same_cfg g win es wa so cc upload : es = [] \/ same_win win es ->
  negotiate g win es wa = OutAgreed so cc -> tr_cfg_of so upload = tr_cfg_of cc upload.
Proof.
  intros Hes Hn. apply ends_agree_cfg. destruct es as [|e es].
  - apply (ends_agree_direct _ _ _ _ _ Hn).
  - destruct Hes as [Hes|Hw]; [discriminate|]. apply (ends_agree_through_relays g win (e :: es) wa so cc); [discriminate | exact Hw | exact Hn].
Qed.
