(* Proofs about the whole-transfer model (C01, Model/Transfer.v): the composition of the
   sender and the receiver machine over perfect FIFO queues. *)
From Coq Require Import ZArith Lia.
From Trzsz Require Import Base.Bytes Gen.Consts Model.Path Model.Fs Model.Names Model.Escape Model.Base64
  Model.Wire Model.Transfer Proofs.PathFs Proofs.Names Proofs.Wire Proofs.TransferArchive Proofs.TransferResume
  Proofs.TransferFs Proofs.TransferProgress.
From Trzsz Require Model.Resume Model.Archive Proofs.Resume.

(* The model's reading of the source is pinned to what the translator found.  isCompressFixed is
   INTERPRETED from the regenerated decision list (so changed thresholds are followed, not refused);
   what is pinned is that every rule is of a kind the interpreter knows.  The ORDER of the wire
   operations, which the machines hard-code, is pinned call by call. *)
Lemma transfer_rules_wf :
  forallb (fun r => match r with (k, _, _, cv) => (k <? 3) && (cv <? 3) end) Consts.tr_compress_rules = true /\
  (snd Consts.tr_compress_default <? 3) = true /\ Consts.tr_resume_skipped_for_empty_target = true /\
  (* the two ends of the resume exchange read one protocol switch for the unechoed SIZE, and it is not below
     the version at which the exchange exists *)
  (Consts.tr_proto_json_names <=? Consts.tr_proto_resume_nosize) = true.
Proof. repeat split; reflexivity. Qed.

Lemma transfer_calls_src_ok :
  (* archiveSourceFiles sendFileNum sendFileNameV3 sendFileName sendFileSize sendFileDataV2 sendFileData sendFileMD5 *)
  Consts.tr_send_files_calls = [[97; 114; 99; 104; 105; 118; 101; 83; 111; 117; 114; 99; 101; 70; 105; 108; 101; 115]; [115; 101; 110; 100; 70; 105; 108; 101; 78; 117; 109]; [115; 101; 110; 100; 70; 105; 108; 101; 78; 97; 109; 101; 86; 51]; [115; 101; 110; 100; 70; 105; 108; 101; 78; 97; 109; 101]; [115; 101; 110; 100; 70; 105; 108; 101; 83; 105; 122; 101]; [115; 101; 110; 100; 70; 105; 108; 101; 68; 97; 116; 97; 86; 50]; [115; 101; 110; 100; 70; 105; 108; 101; 68; 97; 116; 97]; [115; 101; 110; 100; 70; 105; 108; 101; 77; 68; 53]] /\
  (* recvFileNum recvFileNameV3 recvFileName recvFileSize recvFileDataV2 recvFileData recvFileMD5 *)
  Consts.tr_recv_files_calls = [[114; 101; 99; 118; 70; 105; 108; 101; 78; 117; 109]; [114; 101; 99; 118; 70; 105; 108; 101; 78; 97; 109; 101; 86; 51]; [114; 101; 99; 118; 70; 105; 108; 101; 78; 97; 109; 101]; [114; 101; 99; 118; 70; 105; 108; 101; 83; 105; 122; 101]; [114; 101; 99; 118; 70; 105; 108; 101; 68; 97; 116; 97; 86; 50]; [114; 101; 99; 118; 70; 105; 108; 101; 68; 97; 116; 97]; [114; 101; 99; 118; 70; 105; 108; 101; 77; 68; 53]] /\
  (* sendCompressFlag *)
  Consts.tr_send_data_first_call = [[115; 101; 110; 100; 67; 111; 109; 112; 114; 101; 115; 115; 70; 108; 97; 103]] /\
  (* recvCompressFlag *)
  Consts.tr_recv_data_first_call = [[114; 101; 99; 118; 67; 111; 109; 112; 114; 101; 115; 115; 70; 108; 97; 103]] /\
  (* sendInteger checkInteger *)
  Consts.tr_calls_send_num = [[115; 101; 110; 100; 73; 110; 116; 101; 103; 101; 114]; [99; 104; 101; 99; 107; 73; 110; 116; 101; 103; 101; 114]] /\
  (* recvInteger sendInteger *)
  Consts.tr_calls_recv_num = [[114; 101; 99; 118; 73; 110; 116; 101; 103; 101; 114]; [115; 101; 110; 100; 73; 110; 116; 101; 103; 101; 114]] /\
  (* sendString recvString *)
  Consts.tr_calls_send_name = [[115; 101; 110; 100; 83; 116; 114; 105; 110; 103]; [114; 101; 99; 118; 83; 116; 114; 105; 110; 103]] /\
  (* recvString createDirOrFile createFile sendString *)
  Consts.tr_calls_recv_name = [[114; 101; 99; 118; 83; 116; 114; 105; 110; 103]; [99; 114; 101; 97; 116; 101; 68; 105; 114; 79; 114; 70; 105; 108; 101]; [99; 114; 101; 97; 116; 101; 70; 105; 108; 101]; [115; 101; 110; 100; 83; 116; 114; 105; 110; 103]] /\
  (* sendString recvString newArchiveReader sendPrefixHash *)
  Consts.tr_calls_send_name_v3 = [[115; 101; 110; 100; 83; 116; 114; 105; 110; 103]; [114; 101; 99; 118; 83; 116; 114; 105; 110; 103]; [110; 101; 119; 65; 114; 99; 104; 105; 118; 101; 82; 101; 97; 100; 101; 114]; [115; 101; 110; 100; 80; 114; 101; 102; 105; 120; 72; 97; 115; 104]] /\
  (* recvString createDirOrFile sendString recvPrefixHash *)
  Consts.tr_calls_recv_name_v3 = [[114; 101; 99; 118; 83; 116; 114; 105; 110; 103]; [99; 114; 101; 97; 116; 101; 68; 105; 114; 79; 114; 70; 105; 108; 101]; [115; 101; 110; 100; 83; 116; 114; 105; 110; 103]; [114; 101; 99; 118; 80; 114; 101; 102; 105; 120; 72; 97; 115; 104]] /\
  (* sendInteger checkInteger *)
  Consts.tr_calls_send_size = [[115; 101; 110; 100; 73; 110; 116; 101; 103; 101; 114]; [99; 104; 101; 99; 107; 73; 110; 116; 101; 103; 101; 114]] /\
  (* recvInteger sendInteger *)
  Consts.tr_calls_recv_size = [[114; 101; 99; 118; 73; 110; 116; 101; 103; 101; 114]; [115; 101; 110; 100; 73; 110; 116; 101; 103; 101; 114]] /\
  (* sendBinary checkBinary *)
  Consts.tr_calls_send_md5 = [[115; 101; 110; 100; 66; 105; 110; 97; 114; 121]; [99; 104; 101; 99; 107; 66; 105; 110; 97; 114; 121]] /\
  (* recvBinary sendBinary *)
  Consts.tr_calls_recv_md5 = [[114; 101; 99; 118; 66; 105; 110; 97; 114; 121]; [115; 101; 110; 100; 66; 105; 110; 97; 114; 121]] /\
  (* sendData checkInteger *)
  Consts.tr_calls_send_data_v1 = [[115; 101; 110; 100; 68; 97; 116; 97]; [99; 104; 101; 99; 107; 73; 110; 116; 101; 103; 101; 114]] /\
  (* recvData sendInteger *)
  Consts.tr_calls_recv_data_v1 = [[114; 101; 99; 118; 68; 97; 116; 97]; [115; 101; 110; 100; 73; 110; 116; 101; 103; 101; 114]].
Proof. repeat split; reflexivity. Qed.

Ltac norm_app := repeat first [ progress (repeat rewrite <- app_assoc) | progress (cbn [app]) ].

Ltac norm_log := unfold tr_tag_out; repeat first [ progress (repeat rewrite map_app) | progress (cbn [map]) ]; norm_app.

Section TransferProofs.
Variable digest : Type.
Variable H : list byte -> digest.
Variable deq : digest -> digest -> bool.
Variable zcomp : list (list byte) -> list (list byte).
Variable zdecomp : list byte -> option (list byte).
Variable zl : list byte -> list byte.
Variable unzl : list byte -> option (list byte).
Variable hx : list byte -> Resume.digest.
Variable ahdr : src -> Z -> list byte.
Variable aparse : list byte -> option (src * Z).

Notation msg := (tr_msg digest).
Notation sender := (tr_sender digest H deq zcomp zl hx ahdr).
Notation receiver := (tr_receiver digest H deq zdecomp unzl hx aparse).
Notation stepc := (tr_step digest H deq zcomp zdecomp zl unzl hx ahdr aparse).
Notation runf := (tr_run_from digest H deq zcomp zdecomp zl unzl hx ahdr aparse).
Notation spec_entry := (tr_spec_entry hx ahdr aparse).
Notation spec := (tr_spec hx ahdr aparse).
Notation s_next := (tr_s_next digest).
Notation r_next := (tr_r_next digest).
Notation frames := (tr_frames digest zcomp).
Notation compress := (tr_compress digest).
Notation tag_out := (@tr_tag_out digest).
Notation conf := (tr_conf digest).

(* ---------- running ---------- *)
Lemma run_stuck c d (cf : conf) n : stepc c d cf = None -> runf n c d cf = cf.
Proof. intro E. destruct n; cbn [tr_run_from]; [reflexivity | rewrite E; reflexivity]. Qed.

Lemma run_add c d a : forall b (cf : conf), runf (a + b) c d cf = runf b c d (runf a c d cf).
Proof.
  induction a as [|a IH]; intros b cf; [reflexivity|].
  cbn [plus tr_run_from]. destruct (stepc c d cf) as [cf'|] eqn:E; [apply IH|].
  symmetry. apply run_stuck. exact E.
Qed.

Lemma run_one c d (cf cf' : conf) : stepc c d cf = Some cf' -> runf 1 c d cf = cf'.
Proof. intro E. cbn [tr_run_from]. rewrite E. reflexivity. Qed.

Lemma run_S c d n (cf cf' : conf) : stepc c d cf = Some cf' -> runf (S n) c d cf = runf n c d cf'.
Proof. intro E. cbn [tr_run_from]. rewrite E. reflexivity. Qed.

(* delivering to the receiver / to the sender *)
Lemma step_recv c d s r m q r2s log r' outs :
  receiver c d r m = (r', outs) ->
  stepc c d (mkConf digest s r (m :: q) r2s log) = Some (mkConf digest s r' q (r2s ++ outs) (log ++ tag_out false outs)).
Proof. intro E. unfold tr_step. cbn [cf_s2r cf_r cf_s cf_r2s cf_log]. rewrite E. reflexivity. Qed.

Lemma step_send c d s r m q log s' outs :
  sender c s m = (s', outs) ->
  stepc c d (mkConf digest s r [] (m :: q) log) = Some (mkConf digest s' r outs q (log ++ tag_out true outs)).
Proof. intro E. unfold tr_step. cbn [cf_s2r cf_r cf_s cf_r2s cf_log]. rewrite E. reflexivity. Qed.

Lemma step_recv' c d s r m q r2s log :
  stepc c d (mkConf digest s r (m :: q) r2s log) =
  Some (mkConf digest s (fst (receiver c d r m)) q (r2s ++ snd (receiver c d r m)) (log ++ tag_out false (snd (receiver c d r m)))).
Proof. destruct (receiver c d r m) as [r' outs] eqn:E. apply step_recv. exact E. Qed.

Lemma step_send' c d s r m q log :
  stepc c d (mkConf digest s r [] (m :: q) log) =
  Some (mkConf digest (fst (sender c s m)) r (snd (sender c s m)) q (log ++ tag_out true (snd (sender c s m)))).
Proof. destruct (sender c s m) as [s' outs] eqn:E. apply step_send. exact E. Qed.

Lemma tag_out_app dir (a b : list msg) : tag_out dir (a ++ b) = tag_out dir a ++ tag_out dir b.
Proof. unfold tr_tag_out. apply map_app. Qed.

(* ---------- transitions of the sender, one lemma per protocol step ---------- *)
Lemma snd_num c todo names :
  sender c (mkSS SpNum todo names) (TrSuccInt digest (N.of_nat (length todo))) = s_next c todo names.
Proof. unfold tr_sender. cbn [ss_phase ss_todo ss_names]. rewrite N.eqb_refl. reflexivity. Qed.

Definition name_reply (c : tr_cfg) (ln : name) (tsize : N) : msg :=
  if tr_json_names c then TrSuccTarget digest ln tsize else TrSuccName digest ln.

Lemma snd_name c e sc rest names nm sz :
  sender c (mkSS SpName ((e, sc) :: rest) names) (name_reply c nm sz) =
  tr_s_named digest hx ahdr c (mkSS SpName ((e, sc) :: rest) names) e sc rest nm (if tr_json_names c then sz else 0).
Proof. unfold tr_sender, name_reply. cbn [ss_phase ss_todo ss_names]. destruct (tr_json_names c); reflexivity. Qed.

Lemma snd_size c e sc rest names :
  sender c (mkSS SpSize ((e, sc) :: rest) names) (TrSuccInt digest (te_size e)) =
  tr_s_data digest H zcomp zl c (mkSS SpSize ((e, sc) :: rest) names) e sc.
Proof. unfold tr_sender. cbn [ss_phase ss_todo ss_names]. rewrite N.eqb_refl. reflexivity. Qed.

Lemma snd_ack c todo names l ls step :
  sender c (mkSS (SpAcks (l :: ls)) todo names) (TrSuccAck digest l step) =
  (mkSS (match ls with [] => SpFinal | _ => SpAcks ls end) todo names, []).
Proof. unfold tr_sender. cbn [ss_phase ss_todo ss_names]. rewrite N.eqb_refl. reflexivity. Qed.

Lemma snd_prefinal c e sc rest names step : step <? te_size e = true ->
  sender c (mkSS SpFinal ((e, sc) :: rest) names) (TrSuccInt digest step) = (mkSS SpFinal ((e, sc) :: rest) names, []).
Proof.
  intro Hlt. unfold tr_sender. cbn [ss_phase ss_todo ss_names].
  apply N.ltb_lt in Hlt.
  assert (E1 : te_size e <? step = false) by (apply N.ltb_ge; lia).
  assert (E2 : step =? te_size e = false) by (apply N.eqb_neq; lia).
  rewrite E1, E2. reflexivity.
Qed.

Lemma snd_final c e sc rest names :
  sender c (mkSS SpFinal ((e, sc) :: rest) names) (TrSuccInt digest (te_size e)) =
  (mkSS SpMd5 ((e, sc) :: rest) names, [TrMd5 digest (H (te_data e))]).
Proof.
  unfold tr_sender. cbn [ss_phase ss_todo ss_names]. rewrite N.ltb_irrefl, N.eqb_refl. reflexivity.
Qed.

Lemma snd_v1 c e sc rest names chs n :
  sender c (mkSS (SpV1 chs n) ((e, sc) :: rest) names) (TrSuccInt digest n) =
  match chs with
  | [] => (mkSS SpMd5 ((e, sc) :: rest) names, [TrMd5 digest (H (te_data e))])
  | ch :: chs' => (mkSS (SpV1 chs' (tr_blen ch)) ((e, sc) :: rest) names, [TrData digest (tr_v1_payload zl c ch)])
  end.
Proof. unfold tr_sender. cbn [ss_phase ss_todo ss_names]. rewrite N.eqb_refl. destruct chs; reflexivity. Qed.

Hypothesis deq_refl : forall a, deq a a = true.

Lemma snd_md5 c e sc rest names :
  sender c (mkSS SpMd5 ((e, sc) :: rest) names) (TrSuccDigest digest (H (te_data e))) = s_next c rest names.
Proof. unfold tr_sender. cbn [ss_phase ss_todo ss_names]. rewrite deq_refl. reflexivity. Qed.

Lemma snd_exit c todo names ns :
  sender c (mkSS SpExit todo names) (TrExit digest ns) = (mkSS SpDone todo names, []).
Proof. reflexivity. Qed.

(* ---------- transitions of the receiver ---------- *)
Lemma rcv_num c d st names sch n :
  receiver c d (mkRS RpNum O st names sch) (TrNum digest n) =
  (fst (r_next c (N.to_nat n) st names sch), TrSuccInt digest n :: snd (r_next c (N.to_nat n) st names sch)).
Proof.
  unfold tr_receiver. cbn [rs_phase rs_st rs_names rs_sched]. destruct (r_next c (N.to_nat n) st names sch). reflexivity.
Qed.

Lemma rcv_name c d left st names sch p :
  receiver c d (mkRS RpName left st names sch) (TrName digest p) = tr_r_name digest c d (mkRS RpName left st names sch) p.
Proof. reflexivity. Qed.

Lemma rcv_size c d left st names sch op p n :
  receiver c d (mkRSx (RpSize p) left st names sch op) (TrSize digest n) = tr_r_size digest c (mkRSx (RpSize p) left st names sch op) p n.
Proof. reflexivity. Qed.

Lemma rcv_comp c d left st names sch op p size b :
  receiver c d (mkRSx (RpComp p size) left st names sch op) (TrComp digest b) =
  (mkRSx (RpData p size b [] (sc_steps (tr_cur_sched (mkRSx (RpComp p size) left st names sch op)))) left st names sch op, []).
Proof. reflexivity. Qed.

Lemma rcv_frame c d left st names sch op p size cp acc steps f :
  receiver c d (mkRSx (RpData p size cp acc steps) left st names sch op) (TrData digest f) =
  tr_r_frame digest zdecomp aparse c (mkRSx (RpData p size cp acc steps) left st names sch op) p size cp acc steps f.
Proof. reflexivity. Qed.

Lemma rcv_v1 c d left st names sch p size w pl :
  receiver c d (mkRS (RpV1 p size w) left st names sch) (TrData digest pl) =
  tr_r_v1 digest unzl c (mkRS (RpV1 p size w) left st names sch) p size w pl.
Proof. reflexivity. Qed.

Lemma rcv_md5 c d left st names sch op p w dg :
  receiver c d (mkRSx (RpMd5 p w) left st names sch op) (TrMd5 digest dg) =
  tr_r_md5 digest H deq aparse c d (mkRSx (RpMd5 p w) left st names sch op) p w dg.
Proof. reflexivity. Qed.

Lemma rcv_exit c d left st names sch ns :
  receiver c d (mkRS RpExit left st names sch) (TrExit digest ns) = (mkRS RpDone left st names sch, []).
Proof. reflexivity. Qed.

(* ---------- the configuration between two entries ---------- *)
(* both loops are at their top: the sender has emitted the next NAME (or, after the last
   entry, the client has emitted EXIT), the receiver waits for it *)
Definition between (c : tr_cfg) (ess : list (tr_entry * tr_sched)) (st : state) (names : list name)
    (L : list (bool * msg)) : conf :=
  let sn := s_next c ess names in
  let rn := r_next c (length ess) st names (map snd ess) in
  mkConf digest (fst sn) (fst rn) (snd sn) (snd rn) (L ++ tag_out false (snd rn) ++ tag_out true (snd sn)).

Lemma between_cons c e sc ess st names L :
  between c ((e, sc) :: ess) st names L =
  mkConf digest (mkSS SpName ((e, sc) :: ess) names) (mkRS RpName (S (length ess)) st names (sc :: map snd ess))
    [TrName digest (tr_payload c e)] [] (L ++ [(true, TrName digest (tr_payload c e))]).
Proof. reflexivity. Qed.

(* the acks the receiver writes for a run of non-empty frames, and the steps left over *)
Fixpoint acks_go (fs : list (list byte)) (steps : list N) : list msg * list N :=
  match fs with
  | [] => ([], steps)
  | f :: r =>
    let '(a, s') := acks_go r (tl steps) in
    (TrSuccAck digest (tr_blen f) (match steps with s :: _ => s | [] => 0 end) :: a, s')
  end.

Lemma acks_go_length fs : forall steps, length (fst (acks_go fs steps)) = length fs.
Proof.
  induction fs as [|f r IH]; intro steps; [reflexivity|]. cbn [acks_go].
  specialize (IH (tl steps)). destruct (acks_go r (tl steps)). cbn in *. congruence.
Qed.

Lemma nonempty_cons {A} (f : list A) : nonempty f = true -> exists x r, f = x :: r.
Proof. destruct f; [discriminate | eauto]. Qed.

(* the receiver takes a run of non-empty frames *)
Lemma recv_frames c d p size cp left st names sch op : forall fs s acc steps q r2s log,
  all_nonempty fs = true ->
  runf (length fs) c d
    (mkConf digest s (mkRSx (RpData p size cp acc steps) left st names sch op) (map (TrData digest) fs ++ q) r2s log) =
  mkConf digest s (mkRSx (RpData p size cp (acc ++ fs) (snd (acks_go fs steps))) left st names sch op) q
    (r2s ++ fst (acks_go fs steps)) (log ++ tag_out false (fst (acks_go fs steps))).
Proof.
  induction fs as [|f r IH]; intros s acc steps q r2s log Hne.
  - cbn. rewrite !app_nil_r. reflexivity.
  - cbn [all_nonempty forallb] in Hne. apply andb_true_iff in Hne as [Hf Hr].
    destruct (nonempty_cons f Hf) as (x & fr & ->).
    cbn [length map app]. erewrite run_S; [|apply step_recv; rewrite rcv_frame; reflexivity].
    cbn [tr_r_phase rs_left rs_st rs_names rs_sched].
    rewrite (IH s (acc ++ [x :: fr]) (tl steps) q _ _ Hr). cbn [acks_go].
    destruct (acks_go r (tl steps)) as [a s'] eqn:E. cbn [fst snd].
    repeat rewrite <- app_assoc. cbn [app]. unfold tr_tag_out. cbn [map]. repeat rewrite <- app_assoc. reflexivity.
Qed.

(* the sender takes the matching acks *)
Lemma send_acks c d todo names r : forall fs steps more q log,
  more <> [] ->
  runf (length fs) c d
    (mkConf digest (mkSS (SpAcks (map tr_blen fs ++ more)) todo names) r [] (fst (acks_go fs steps) ++ q) log) =
  mkConf digest (mkSS (SpAcks more) todo names) r [] q log.
Proof.
  induction fs as [|f fr IH]; intros steps more q log Hm; [reflexivity|].
  cbn [length map app acks_go]. destruct (acks_go fr (tl steps)) as [a s'] eqn:E. cbn [fst app].
  erewrite run_S; [|apply step_send; apply snd_ack].
  assert (Hn : map tr_blen fr ++ more <> []) by (destruct fr; [exact Hm | discriminate]).
  destruct (map tr_blen fr ++ more) as [|l ls] eqn:El; [congruence|]. rewrite <- El.
  unfold tr_tag_out. cbn [map]. rewrite app_nil_r.
  specialize (IH (tl steps) more q log Hm). rewrite E in IH. cbn [fst] in IH. exact IH.
Qed.

Lemma send_prefinal c d e sc rest names r : forall (pf : list N) q log,
  Forall (fun s => s <? te_size e = true) pf ->
  runf (length pf) c d
    (mkConf digest (mkSS SpFinal ((e, sc) :: rest) names) r [] (map (TrSuccInt digest) pf ++ q) log) =
  mkConf digest (mkSS SpFinal ((e, sc) :: rest) names) r [] q log.
Proof.
  induction pf as [|x pf IH]; intros q log Hf; [reflexivity|].
  inversion Hf; subst. cbn [length map app].
  erewrite run_S; [|apply step_send; apply snd_prefinal; assumption].
  unfold tr_tag_out. cbn [map]. rewrite app_nil_r. apply IH. assumption.
Qed.

Lemma filter_Forall {A} (f : A -> bool) l : Forall (fun x => f x = true) (filter f l).
Proof.
  induction l as [|x l IH]; cbn; [constructor|]. destruct (f x) eqn:E; [constructor; assumption | assumption].
Qed.

(* ---------- what the specification says about one entry ---------- *)
Lemma payload_isdir c e : (te_isdir e && negb (tr_json c)) = false -> tr_p_isdir (tr_payload c e) = te_isdir e.
Proof.
  unfold tr_payload. destruct (tr_json c); cbn [tr_p_isdir s_isdir]; [reflexivity|].
  destruct (te_isdir e); [discriminate | reflexivity].
Qed.

Lemma payload_archive c e : tr_p_archive (tr_payload c e) = tr_json c && tr_has_subs e.
Proof. unfold tr_payload. destruct (tr_json c); reflexivity. Qed.

Lemma payload_aid c e : tr_json c = true -> tr_p_aid (tr_payload c e) = te_id e.
Proof. unfold tr_payload. intros ->. reflexivity. Qed.

(* an entry without SubFiles: a directory, a file that is resumed, or a file that is written whole *)
Lemma spec_plain_inv c d e sc st ln st' : tr_has_subs e = false -> spec_entry c d e sc st = Some (ln, st') ->
  (te_isdir e && negb (tr_json c)) = false /\
  exists st1, tr_create c d (tr_payload c e) [] st = (NOk ln, st1) /\
    if te_isdir e then st' = st1
    else if tr_json_names c && (0 <? tr_target_size d ln (tr_payload c e) st1)
         then exists o, tr_resume_run hx c e sc (tr_old_content st1 (tr_leaf d ln (tr_payload c e))) = Resume.Done o /\
                st' = tr_set_file st1 (tr_leaf d ln (tr_payload c e)) (Resume.o_final o)
         else exists ln2, tr_create c d (tr_payload c e) (te_data e) st = (NOk ln2, st').
Proof.
  intro Hsub. unfold tr_spec_entry. rewrite Hsub. destruct (te_isdir e && negb (tr_json c)) eqn:E0; [discriminate|].
  destruct (tr_create c d (tr_payload c e) [] st) as [[l1|] st1] eqn:E1; [|discriminate].
  destruct (te_isdir e).
  - intro Hx; inversion Hx; subst. split; [reflexivity|]. exists st'. split; reflexivity.
  - destruct (tr_json_names c && (0 <? tr_target_size d l1 (tr_payload c e) st1)) eqn:E2.
    + destruct (tr_resume_run hx c e sc _) as [o| | | |] eqn:Er; try discriminate.
      intro Hx; inversion Hx; subst. split; [reflexivity|]. exists st1. split; [reflexivity|]. rewrite E2. exists o. split; [exact Er | reflexivity].
    + destruct (tr_create c d (tr_payload c e) (te_data e) st) as [[l2|] st2] eqn:E3; [|discriminate].
      intro Hx; inversion Hx; subst. split; [reflexivity|]. exists st1. split; [reflexivity|]. rewrite E2. exists l2. reflexivity.
Qed.

(* ---------- a directory entry: NAME, reply ---------- *)
Definition dir_log (c : tr_cfg) (e : tr_entry) (ln : name) : list (bool * msg) :=
  [(true, TrName digest (tr_payload c e)); (false, name_reply c ln 0)].

Lemma r_name_dir c d e k st names sc sch ln st' :
  tr_has_subs e = false -> te_isdir e = true -> (te_isdir e && negb (tr_json c)) = false ->
  tr_create c d (tr_payload c e) [] st = (NOk ln, st') ->
  tr_r_name digest c d (mkRS RpName (S k) st names (sc :: sch)) (tr_payload c e) =
  (fst (r_next c k st' (tr_add_name names ln) sch), name_reply c ln 0 :: snd (r_next c k st' (tr_add_name names ln) sch)).
Proof.
  intros Hsub Hd E0 E1.
  unfold tr_r_name. cbn [rs_st rs_names rs_phase rs_left rs_sched rs_open]. rewrite E1, payload_archive, Hsub, andb_false_r, (payload_isdir _ _ E0), Hd.
  cbn [orb]. unfold tr_r_done. cbn [rs_left rs_names rs_sched pred tl].
  destruct (r_next c k st' (tr_add_name names ln) sch) as [rn ro]. reflexivity.
Qed.

Lemma entry_dir c d e sc ess st names L ln st' :
  tr_has_subs e = false -> te_isdir e = true -> (te_isdir e && negb (tr_json c)) = false ->
  tr_create c d (tr_payload c e) [] st = (NOk ln, st') ->
  runf 2 c d (between c ((e, sc) :: ess) st names L) =
  between c ess st' (tr_add_name names ln) (L ++ dir_log c e ln).
Proof.
  intros Hsub Hd E0 E1. rewrite between_cons.
  rewrite (run_S _ _ _ _ _ (step_recv' _ _ _ _ _ _ _ _)), rcv_name, (r_name_dir c d e (length ess) st names sc (map snd ess) ln st' Hsub Hd E0 E1).
  cbn [fst snd app].
  rewrite (run_one _ _ _ _ (step_send' _ _ _ _ _ _ _)), snd_name.
  unfold tr_s_named. rewrite Hsub, andb_false_r, Hd. cbn [ss_names].
  unfold between, dir_log.
  destruct (r_next c (length ess) st' (tr_add_name names ln) (map snd ess)) as [rn ro].
  destruct (s_next c ess (tr_add_name names ln)) as [sn so]. cbn [fst snd].
  unfold tr_tag_out; cbn [map app]; repeat rewrite <- app_assoc; reflexivity.
Qed.

(* ---------- the data of a file, pipelined exchange (protocol >= 2): SIZE .. MD5 ---------- *)
Hypothesis z_roundtrip : forall cs, zdecomp (concat (zcomp cs)) = Some (concat cs).
Hypothesis z_bytes : forall cs, bytes_ok (concat (zcomp cs)) = true.
Hypothesis zl_roundtrip : forall d, unzl (zl d) = Some d.
Hypothesis zl_bytes : forall d, bytes_ok (zl d) = true.

Notation table_ok := tr_table_ok.

Lemma size_file e : te_isdir e = false -> te_size e = tr_blen (te_data e).
Proof. unfold te_size. intros ->. reflexivity. Qed.

(* the phase the receiver is in after the SIZE echo *)
Definition after_size (c : tr_cfg) (p : tr_npayload) (e : tr_entry) (sc : tr_sched) : tr_rphase :=
  match tr_is_compress_fixed c (te_size e) with
  | (true, cp) => RpData p (te_size e) cp [] (sc_steps sc)
  | (false, _) => RpComp p (te_size e)
  end.

Lemma r_size_v2 c p e left st names sc sch op : tr_pipeline c = true ->
  tr_rest_mismatch (mkRSx (RpSize p) left st names (sc :: sch) op) (te_size e) = false ->
  tr_r_size digest c (mkRSx (RpSize p) left st names (sc :: sch) op) p (te_size e) =
  (mkRSx (after_size c p e sc) left st names (sc :: sch) op, [TrSuccInt digest (te_size e)]).
Proof.
  intros Hp Hm. unfold tr_r_size, after_size. rewrite Hm, Hp. destruct (tr_is_compress_fixed c (te_size e)) as [[|] cp]; reflexivity.
Qed.

Lemma recv_comp c d p e sc s left st names sch op q r2s log :
  runf (length (snd (compress c e sc))) c d
    (mkConf digest s (mkRSx (after_size c p e sc) left st names (sc :: sch) op) (snd (compress c e sc) ++ q) r2s log) =
  mkConf digest s (mkRSx (RpData p (te_size e) (fst (compress c e sc)) [] (sc_steps sc)) left st names (sc :: sch) op)
    q r2s log.
Proof.
  unfold after_size, tr_compress. destruct (tr_is_compress_fixed c (te_size e)) as [[|] cp]; cbn [fst snd length app]; [reflexivity|].
  rewrite (run_one _ _ _ _ (step_recv' _ _ _ _ _ _ _ _)), rcv_comp. cbn [fst snd]. rewrite !app_nil_r. reflexivity.
Qed.

Definition finish_ack (fs : list (list byte)) (steps : list N) : msg :=
  TrSuccAck digest 0 (match snd (acks_go fs steps) with s :: _ => s | [] => 0 end).

Lemma snd_finish_ack c todo names fs steps :
  sender c (mkSS (SpAcks [0]) todo names) (finish_ack fs steps) = (mkSS SpFinal todo names, []).
Proof. unfold finish_ack. apply snd_ack. Qed.

Definition prefinal_of (e : tr_entry) (sc : tr_sched) : list N := filter (fun s => s <? te_size e) (sc_prefinal sc).

(* [p] names the entry, [e] is the FILE whose data goes over the wire: the entry itself, the rest of it
   (resume), or the archive stream.  If [p] is an archive, the writer accepts the stream. *)
Lemma r_finish c p e left st names sc sch op : table_ok c -> bytes_ok (te_data e) = true -> te_isdir e = false ->
  (tr_p_archive p = true -> exists t, tr_unarchive aparse (tr_p_aid p) sc (te_data e) = Some t) ->
  tr_r_frame digest zdecomp aparse c
    (mkRSx (RpData p (te_size e) (fst (compress c e sc)) ([] ++ frames c e sc) (snd (acks_go (frames c e sc) (sc_steps sc))))
       left st names (sc :: sch) op)
    p (te_size e) (fst (compress c e sc)) ([] ++ frames c e sc) (snd (acks_go (frames c e sc) (sc_steps sc))) [] =
  (mkRSx (RpMd5 p (te_data e)) left st names (sc :: sch) op,
   [finish_ack (frames c e sc) (sc_steps sc)] ++ map (TrSuccInt digest) (prefinal_of e sc) ++ [TrSuccInt digest (te_size e)]).
Proof.
  intros Ht Hb Hd Ha. unfold tr_r_frame. cbn [app].
  unfold tr_frames at 1.
  rewrite (L1_roundtrip zcomp zdecomp z_roundtrip z_bytes (tc_binary c) (fst (compress c e sc)) (tc_table c) (te_chunks e)
             (sc_sizes sc) (sc_dflt sc) [] tr_rdflt Ht Hb (Forall_nil _) (le_n 1)).
  assert (Es : tr_blen (concat (te_chunks e)) =? te_size e = true) by (rewrite (size_file e Hd); apply N.eqb_refl).
  rewrite Es. fold (te_data e). unfold tr_cur_sched. cbn [rs_sched].
  destruct (tr_p_archive p) eqn:Ea; [|reflexivity]. destruct (Ha eq_refl) as (t & ->). reflexivity.
Qed.

(* SIZE, echo, [COMP], frames, finish flag, acks, final acks; the sender has emitted MD5 *)
Definition tail_log (c : tr_cfg) (e : tr_entry) (sc : tr_sched) : list (bool * msg) :=
  let fs := frames c e sc in
  [(false, TrSuccInt digest (te_size e))]
  ++ tag_out true (snd (compress c e sc) ++ map (TrData digest) fs ++ [TrData digest []])
  ++ tag_out false (fst (acks_go fs (sc_steps sc)) ++ [finish_ack fs (sc_steps sc)]
                    ++ map (TrSuccInt digest) (prefinal_of e sc) ++ [TrSuccInt digest (te_size e)])
  ++ [(true, TrMd5 digest (H (te_data e)))].

Definition tail_steps (c : tr_cfg) (e : tr_entry) (sc : tr_sched) : nat :=
  1 + (1 + (length (snd (compress c e sc)) + (length (frames c e sc) + (1 + (length (frames c e sc) +
  (1 + (length (prefinal_of e sc) + 1))))))).

Lemma file_tail_v2 c d p e sc rest snames left st rnames sch op L :
  tr_pipeline c = true -> table_ok c -> bytes_ok (te_data e) = true -> te_isdir e = false ->
  (tr_p_archive p = true -> exists t, tr_unarchive aparse (tr_p_aid p) sc (te_data e) = Some t) ->
  tr_rest_mismatch (mkRSx (RpSize p) left st rnames (sc :: sch) op) (te_size e) = false ->
  runf (tail_steps c e sc) c d
    (mkConf digest (mkSS SpSize ((e, sc) :: rest) snames) (mkRSx (RpSize p) left st rnames (sc :: sch) op)
       [TrSize digest (te_size e)] [] L) =
  mkConf digest (mkSS SpMd5 ((e, sc) :: rest) snames) (mkRSx (RpMd5 p (te_data e)) left st rnames (sc :: sch) op)
    [TrMd5 digest (H (te_data e))] [] (L ++ tail_log c e sc).
Proof.
  intros Hp Ht Hb Hd Ha Hm. unfold tail_steps.
  (* SIZE -> echo *)
  rewrite run_add, (run_one _ _ _ _ (step_recv' _ _ _ _ _ _ _ _)), rcv_size, (r_size_v2 c p e _ _ _ sc _ _ Hp Hm). cbn [fst snd app].
  (* echo -> [COMP] frames finish *)
  rewrite run_add, (run_one _ _ _ _ (step_send' _ _ _ _ _ _ _)), snd_size.
  unfold tr_s_data. rewrite Hp. cbn [ss_names ss_todo fst snd].
  (* [COMP] *)
  rewrite run_add, recv_comp.
  (* frames *)
  rewrite run_add, recv_frames by apply frames_nonempty.
  (* finish flag *)
  rewrite run_add, (run_one _ _ _ _ (step_recv' _ _ _ _ _ _ _ _)), rcv_frame, (r_finish c p e _ _ _ sc _ _ Ht Hb Hd Ha). cbn [fst snd].
  (* the acks *)
  rewrite <- !app_assoc. cbn [app].
  rewrite run_add, send_acks by discriminate.
  rewrite run_add, (run_one _ _ _ _ (step_send' _ _ _ _ _ _ _)).
  rewrite !snd_finish_ack. cbn [fst snd].
  rewrite run_add, send_prefinal by apply filter_Forall.
  rewrite (run_one _ _ _ _ (step_send' _ _ _ _ _ _ _)), snd_final. cbn [fst snd].
  unfold tail_log. f_equal. rewrite !tag_out_app. norm_log. reflexivity.
Qed.

(* MD5 -> digest reply -> the next entry *)
Lemma md5_steps c d p e sc rest k st names sch op L st' :
  tr_complete aparse c d (mkRSx (RpMd5 p (te_data e)) (S k) st names (sc :: sch) op) p (te_data e) = Some st' ->
  length rest = k -> map snd rest = sch ->
  runf 2 c d
    (mkConf digest (mkSS SpMd5 ((e, sc) :: rest) names) (mkRSx (RpMd5 p (te_data e)) (S k) st names (sc :: sch) op)
       [TrMd5 digest (H (te_data e))] [] L) =
  between c rest st' names (L ++ [(false, TrSuccDigest digest (H (te_data e)))]).
Proof.
  intros Hc <- <-.
  rewrite (run_S _ _ _ _ _ (step_recv' _ _ _ _ _ _ _ _)), rcv_md5. unfold tr_r_md5. rewrite deq_refl, Hc.
  unfold tr_r_done. cbn [rs_left rs_names rs_sched pred tl].
  destruct (r_next c (length rest) st' names (map snd rest)) as [rn ro] eqn:Ern. cbn [fst snd app].
  rewrite (run_one _ _ _ _ (step_send' _ _ _ _ _ _ _)), snd_md5.
  unfold between. rewrite Ern.
  destruct (s_next c rest names) as [sn so]. cbn [fst snd].
  f_equal. norm_log. reflexivity.
Qed.

Lemma tail_steps_eq c e sc : tr_pipeline c = true -> tr_tail_steps digest zcomp c e sc = (tail_steps c e sc + 2)%nat.
Proof. intro Hp. unfold tr_tail_steps, tail_steps, prefinal_of. rewrite Hp. lia. Qed.

(* ---------- a file entry written whole, pipelined exchange ---------- *)
Lemma r_name_file c d e k st names sc sch ln st1 :
  tr_has_subs e = false -> te_isdir e = false -> (te_isdir e && negb (tr_json c)) = false ->
  tr_create c d (tr_payload c e) [] st = (NOk ln, st1) ->
  tr_json_names c && (0 <? tr_target_size d ln (tr_payload c e) st1) = false ->
  tr_r_name digest c d (mkRS RpName (S k) st names (sc :: sch)) (tr_payload c e) =
  (mkRS (RpSize (tr_payload c e)) (S k) st (tr_add_name names ln) (sc :: sch), [name_reply c ln 0]).
Proof.
  intros Hsub Hd E0 E1 E2.
  unfold tr_r_name. cbn [rs_st rs_names rs_phase rs_left rs_sched rs_open]. rewrite E1, payload_archive, Hsub, andb_false_r, (payload_isdir _ _ E0), Hd.
  cbn [orb]. rewrite E2.
  unfold tr_r_phase, name_reply. cbn [rs_st rs_names rs_phase rs_left rs_sched rs_open].
  destruct (tr_json_names c) eqn:Ej; [|reflexivity].
  cbn [andb] in E2. apply N.ltb_ge in E2. apply N.le_0_r in E2. rewrite E2. reflexivity.
Qed.

Definition file_log_v2 (c : tr_cfg) (e : tr_entry) (sc : tr_sched) (ln : name) : list (bool * msg) :=
  [(true, TrName digest (tr_payload c e)); (false, name_reply c ln 0); (true, TrSize digest (te_size e))]
  ++ tail_log c e sc ++ [(false, TrSuccDigest digest (H (te_data e)))].

Lemma entry_file_v2 c d e sc ess st names L ln st1 ln2 st' :
  tr_pipeline c = true -> table_ok c -> bytes_ok (te_data e) = true ->
  tr_has_subs e = false -> te_isdir e = false -> (te_isdir e && negb (tr_json c)) = false ->
  tr_create c d (tr_payload c e) [] st = (NOk ln, st1) ->
  tr_json_names c && (0 <? tr_target_size d ln (tr_payload c e) st1) = false ->
  tr_create c d (tr_payload c e) (te_data e) st = (NOk ln2, st') ->
  runf (2 + (tail_steps c e sc + 2)) c d (between c ((e, sc) :: ess) st names L) =
  between c ess st' (tr_add_name names ln) (L ++ file_log_v2 c e sc ln).
Proof.
  intros Hp Ht Hb Hsub Hd E0 E1 E2 E3. rewrite between_cons.
  (* NAME -> reply *)
  rewrite run_add. cbn [tr_run_from].
  rewrite (step_recv' _ _ _ _ _ _ _ _), rcv_name, (r_name_file c d e (length ess) st names sc (map snd ess) ln st1 Hsub Hd E0 E1 E2). cbn [fst snd app].
  (* reply -> SIZE *)
  rewrite (step_send' _ _ _ _ _ _ _), snd_name.
  replace (if tr_json_names c then 0 else 0) with 0 by (destruct (tr_json_names c); reflexivity).
  unfold tr_s_named. rewrite Hsub, andb_false_r, Hd, N.ltb_irrefl. cbn [ss_names ss_todo fst snd].
  rewrite run_add, (file_tail_v2 c d (tr_payload c e) e sc ess _ _ _ _ _ None _ Hp Ht Hb Hd); [| |reflexivity].
  2:{ rewrite payload_archive, Hsub, andb_false_r. discriminate. }
  rewrite (md5_steps c d (tr_payload c e) e sc ess (length ess) st _ (map snd ess) None _ st' ); [|  | reflexivity | reflexivity].
  - unfold file_log_v2. f_equal. norm_log. reflexivity.
  - unfold tr_complete. cbn [rs_open rs_st]. rewrite payload_archive, Hsub, andb_false_r, E3. reflexivity.
Qed.
(* ---------- a file entry, legacy exchange (protocol 1): stop and wait ---------- *)
Fixpoint dbl (n : nat) : nat := match n with O => O | S m => S (S (dbl m)) end.
Lemma dbl_spec n : dbl n = (2 * n)%nat.
Proof. induction n; cbn [dbl]; lia. Qed.

Fixpoint v1_log (c : tr_cfg) (e : tr_entry) (ch : list byte) (chs : list (list byte)) : list (bool * msg) :=
  (false, TrSuccInt digest (tr_blen ch)) ::
  match chs with
  | [] => [(true, TrMd5 digest (H (te_data e)))]
  | ch' :: chs' => (true, TrData digest (tr_v1_payload zl c ch')) :: v1_log c e ch' chs'
  end.

Lemma bytes_ok_app a b : bytes_ok (a ++ b) = bytes_ok a && bytes_ok b.
Proof. apply forallb_app. Qed.

Lemma blen_app a b : tr_blen (a ++ b) = tr_blen a + tr_blen b.
Proof. unfold tr_blen. rewrite app_length. lia. Qed.

Lemma r_v1_ok c left st names sch p size w ch : table_ok c -> bytes_ok ch = true ->
  tr_r_v1 digest unzl c (mkRS (RpV1 p size w) left st names sch) p size w (tr_v1_payload zl c ch) =
  (mkRS (if tr_blen (w ++ ch) <? size then RpV1 p size (w ++ ch) else RpMd5 p (w ++ ch)) left st names sch,
   [TrSuccInt digest (tr_blen ch)]).
Proof.
  intros Ht Hb. unfold tr_r_v1, tr_v1_payload.
  rewrite (v1_roundtrip zl unzl zl_roundtrip zl_bytes (tc_binary c) (tc_table c) ch Ht Hb). reflexivity.
Qed.

Lemma v1_loop c d e sc rest names p left st rnames sch : table_ok c -> te_isdir e = false ->
  forall chs ch w log, bytes_ok (te_data e) = true -> all_nonempty (ch :: chs) = true ->
  w ++ ch ++ concat chs = te_data e ->
  runf (dbl (length (ch :: chs))) c d
    (mkConf digest (mkSS (SpV1 chs (tr_blen ch)) ((e, sc) :: rest) names) (mkRS (RpV1 p (te_size e) w) left st rnames sch)
       [TrData digest (tr_v1_payload zl c ch)] [] log) =
  mkConf digest (mkSS SpMd5 ((e, sc) :: rest) names) (mkRS (RpMd5 p (te_data e)) left st rnames sch)
    [TrMd5 digest (H (te_data e))] [] (log ++ v1_log c e ch chs).
Proof.
  intros Ht Hd. induction chs as [|ch2 chs IH]; intros ch w log Hb Hne Hw.
  - cbn [length dbl concat] in *. rewrite app_nil_r in Hw.
    assert (Hbc : bytes_ok ch = true).
    { rewrite <- Hw, bytes_ok_app in Hb. apply andb_true_iff in Hb. tauto. }
    rewrite (run_S _ _ _ _ _ (step_recv' _ _ _ _ _ _ _ _)), rcv_v1, (r_v1_ok c _ _ _ _ _ _ _ ch Ht Hbc). cbn [fst snd app].
    rewrite Hw, (size_file e Hd), N.ltb_irrefl.
    rewrite (run_one _ _ _ _ (step_send' _ _ _ _ _ _ _)), snd_v1. cbn [fst snd v1_log].
    norm_log. reflexivity.
  - cbn [length dbl] in *. cbn [concat] in Hw.
    cbn [all_nonempty forallb] in Hne. apply andb_true_iff in Hne as [Hn1 Hn2].
    assert (Hbc : bytes_ok ch = true).
    { rewrite <- Hw, !bytes_ok_app in Hb. repeat (apply andb_true_iff in Hb as [Hb ?]). rewrite !andb_true_iff in *. tauto. }
    rewrite (run_S _ _ _ _ _ (step_recv' _ _ _ _ _ _ _ _)), rcv_v1, (r_v1_ok c _ _ _ _ _ _ _ ch Ht Hbc). cbn [fst snd app].
    assert (Hlt : tr_blen (w ++ ch) <? te_size e = true).
    { apply N.ltb_lt. rewrite (size_file e Hd), <- Hw. rewrite app_assoc, (blen_app (w ++ ch)), blen_app.
      cbn [forallb] in Hn2. apply andb_true_iff in Hn2 as [Hn2 _]. destruct ch2; [discriminate|].
      assert (0 < tr_blen ((b :: ch2) ++ concat chs)) by (unfold tr_blen; cbn [app length]; lia). lia. }
    rewrite Hlt.
    rewrite (run_S _ _ _ _ _ (step_send' _ _ _ _ _ _ _)), snd_v1. cbn [fst snd].
    rewrite (IH ch2 (w ++ ch) _ Hb Hn2) by (rewrite <- app_assoc; exact Hw).
    cbn [v1_log]. norm_log. reflexivity.
Qed.

Lemma wire_frames_nil sizes dflt : wire_frames sizes dflt [] = [].
Proof. unfold wire_frames. destruct (next_size sizes dflt). reflexivity. Qed.

Definition v1_data_log (c : tr_cfg) (e : tr_entry) (sc : tr_sched) : list (bool * msg) :=
  match tr_v1_chunks e sc with
  | [] => [(true, TrMd5 digest (H (te_data e)))]
  | ch :: chs => (true, TrData digest (tr_v1_payload zl c ch)) :: v1_log c e ch chs
  end.

Definition file_log_v1 (c : tr_cfg) (e : tr_entry) (sc : tr_sched) (ln : name) : list (bool * msg) :=
  [(true, TrName digest (tr_payload c e)); (false, name_reply c ln 0);
   (true, TrSize digest (te_size e)); (false, TrSuccInt digest (te_size e))]
  ++ v1_data_log c e sc ++ [(false, TrSuccDigest digest (H (te_data e)))].

Lemma r_size_v1 c e left st names sch : tr_pipeline c = false ->
  tr_r_size digest c (mkRS (RpSize (tr_payload c e)) left st names sch) (tr_payload c e) (te_size e) =
  (mkRS (if 0 <? te_size e then RpV1 (tr_payload c e) (te_size e) [] else RpMd5 (tr_payload c e) []) left st names sch,
   [TrSuccInt digest (te_size e)]).
Proof. intro Hp. unfold tr_r_size, tr_rest_mismatch. cbn [rs_open]. rewrite Hp. destruct (0 <? te_size e); reflexivity. Qed.

Definition steps_v1 (e : tr_entry) (sc : tr_sched) : nat :=
  1 + (1 + (1 + (1 + (dbl (length (tr_v1_chunks e sc)) + 2)))).

Lemma entry_file_v1 c d e sc ess st names L ln st1 ln2 st' :
  tr_pipeline c = false -> table_ok c -> bytes_ok (te_data e) = true ->
  tr_has_subs e = false -> te_isdir e = false -> (te_isdir e && negb (tr_json c)) = false ->
  tr_create c d (tr_payload c e) [] st = (NOk ln, st1) ->
  tr_json_names c && (0 <? tr_target_size d ln (tr_payload c e) st1) = false ->
  tr_create c d (tr_payload c e) (te_data e) st = (NOk ln2, st') ->
  runf (steps_v1 e sc) c d (between c ((e, sc) :: ess) st names L) =
  between c ess st' (tr_add_name names ln) (L ++ file_log_v1 c e sc ln).
Proof.
  intros Hp Ht Hb Hsub Hd E0 E1 E2 E3. rewrite between_cons. unfold steps_v1.
  assert (Hcomp : tr_complete aparse c d (mkRS (RpMd5 (tr_payload c e) (te_data e)) (S (length ess)) st (tr_add_name names ln) (sc :: map snd ess))
                    (tr_payload c e) (te_data e) = Some st').
  { unfold tr_complete. cbn [rs_open rs_st]. rewrite payload_archive, Hsub, andb_false_r, E3. reflexivity. }
  rewrite run_add, (run_one _ _ _ _ (step_recv' _ _ _ _ _ _ _ _)), rcv_name,
    (r_name_file c d e (length ess) st names sc (map snd ess) ln st1 Hsub Hd E0 E1 E2). cbn [fst snd app].
  rewrite run_add, (run_one _ _ _ _ (step_send' _ _ _ _ _ _ _)), snd_name.
  replace (if tr_json_names c then 0 else 0) with 0 by (destruct (tr_json_names c); reflexivity).
  unfold tr_s_named. rewrite Hsub, andb_false_r, Hd, N.ltb_irrefl. cbn [ss_names ss_todo fst snd].
  rewrite run_add, (run_one _ _ _ _ (step_recv' _ _ _ _ _ _ _ _)), rcv_size, (r_size_v1 c e _ _ _ _ Hp). cbn [fst snd app].
  rewrite run_add, (run_one _ _ _ _ (step_send' _ _ _ _ _ _ _)), snd_size.
  unfold tr_s_data. rewrite Hp. unfold file_log_v1, v1_data_log.
  pose proof (frames_concat (sc_sizes sc) (sc_dflt sc) (te_data e)) as Hcat.
  pose proof (frames_nonempty (sc_sizes sc) (sc_dflt sc) (te_data e)) as Hne.
  fold (tr_v1_chunks e sc) in Hcat, Hne.
  destruct (tr_v1_chunks e sc) as [|ch chs] eqn:Ech.
  - (* empty file: MD5 at once *)
    cbn [concat] in Hcat. cbn [length dbl plus].
    assert (Hz : 0 <? te_size e = false) by (rewrite (size_file e Hd), <- Hcat; reflexivity).
    rewrite Hz. unfold tr_s_md5. cbn [fst snd ss_todo ss_names].
    rewrite Hcat.
    rewrite (md5_steps c d (tr_payload c e) e sc ess (length ess) st _ (map snd ess) None _ st' Hcomp eq_refl eq_refl).
    f_equal. norm_log. reflexivity.
  - assert (Hz : 0 <? te_size e = true).
    { apply N.ltb_lt. rewrite (size_file e Hd), <- Hcat. cbn [all_nonempty forallb] in Hne.
      apply andb_true_iff in Hne as [Hn _]. destruct ch; [discriminate|]. unfold tr_blen. cbn [concat app length]. lia. }
    rewrite Hz. cbn [fst snd ss_todo ss_names].
    rewrite run_add, (v1_loop c d e sc ess (tr_add_name names ln) _ _ _ _ _ Ht Hd chs ch [] _ Hb Hne Hcat).
    rewrite (md5_steps c d (tr_payload c e) e sc ess (length ess) st _ (map snd ess) None _ st' Hcomp eq_refl eq_refl).
    f_equal. norm_log. reflexivity.
Qed.

(* ---------- a file entry resumed (protocol >= 3, a non-empty file in the way) ---------- *)
Notation B := tr_hash_B.
Notation hmsg_of := (tr_hmsg digest).
Notation hack_of := (tr_hack digest).

Lemma rcv_hsize c d left st names sch op p leaf old n :
  receiver c d (mkRSx (RpHSize p leaf old) left st names sch op) (TrSize digest n) =
  (mkRSx (RpHash p leaf old n Resume.r_init) left st names sch op, []).
Proof. reflexivity. Qed.

Lemma rcv_hash c d left st names sch op p leaf old sz r s h :
  receiver c d (mkRSx (RpHash p leaf old sz r) left st names sch op) (TrHash digest s h) =
  tr_r_hash digest hx (mkRSx (RpHash p leaf old sz r) left st names sch op) p leaf old sz r s h.
Proof. reflexivity. Qed.

Lemma rcv_over c d left st names sch op p leaf old sz r :
  receiver c d (mkRSx (RpHash p leaf old sz r) left st names sch op) (TrHashOver digest) =
  tr_r_over digest (mkRSx (RpHash p leaf old sz r) left st names sch op) p leaf old sz r.
Proof. reflexivity. Qed.

Lemma skipn_app_len {A} (a b : list A) : skipn (length a) (a ++ b) = b.
Proof. induction a as [|x a IH]; [reflexivity | exact IH]. Qed.

Lemma skipn_len_nil {A} (a : list A) : skipn (length a) a = [].
Proof. induction a as [|x a IH]; [reflexivity | exact IH]. Qed.

(* the receiver takes a run of HASH records: one step of Resume.recv_hashes each, the answers it appends *)
Lemma recv_hash_loop c d p leaf old sz left st names sch op : forall hs s r r' q r2s log,
  Resume.recv_hashes B hx old hs r = Resume.RBlocked r' ->
  runf (length hs) c d
    (mkConf digest s (mkRSx (RpHash p leaf old sz r) left st names sch op) (map hmsg_of hs ++ q) r2s log) =
  mkConf digest s (mkRSx (RpHash p leaf old sz r') left st names sch op) q
    (r2s ++ map hack_of (skipn (length (Resume.r_acks r)) (Resume.r_acks r')))
    (log ++ tag_out false (map hack_of (skipn (length (Resume.r_acks r)) (Resume.r_acks r')))).
Proof.
  induction hs as [|m hs IH]; intros s r r' q r2s log Hr.
  - cbn in Hr. inversion Hr; subst r'. rewrite skipn_len_nil. cbn. rewrite !app_nil_r. reflexivity.
  - destruct m as [hs0 h|]; [|cbn in Hr; discriminate].
    change (Resume.Hash hs0 h :: hs) with ([Resume.Hash hs0 h] ++ hs) in Hr. rewrite recv_hashes_app in Hr.
    destruct (Resume.recv_hashes B hx old [Resume.Hash hs0 h] r) as [rx|r1| | |] eqn:E1; try discriminate.
    cbn [length map app tr_hmsg].
    rewrite (run_S _ _ _ _ _ (step_recv' _ _ _ _ _ _ _ _)), rcv_hash. unfold tr_r_hash. rewrite E1.
    cbn [fst snd tr_r_phase rs_left rs_st rs_names rs_sched rs_open].
    rewrite (IH s r1 r' q _ _ Hr).
    destruct (recv_acks_grow B hx old [Resume.Hash hs0 h] r r1 (or_introl E1)) as (e1 & He1).
    destruct (recv_acks_grow B hx old hs r1 r' (or_introl Hr)) as (e2 & He2).
    rewrite He2, He1, <- app_assoc, !skipn_app_len.
    rewrite <- (app_assoc (Resume.r_acks r)), skipn_app_len, map_app, tag_out_app. norm_app. reflexivity.
Qed.


(* the sender takes the answers, as Resume.recv_acks does: on an honest receiver's answers to the
   announced steps it consumes them all, and has the verdict exactly when they contain it *)
Lemma snd_hack c e sc rest names size mstep step m :
  sender c (mkSS (SpHash size mstep) ((e, sc) :: rest) names) (TrSuccHack digest step m) =
  tr_s_hack digest (mkSS (SpHash size mstep) ((e, sc) :: rest) names) size mstep step m.
Proof. reflexivity. Qed.

Definition after_hacks (e : tr_entry) (sc : tr_sched) (rest : list (tr_entry * tr_sched)) (names : list name)
    (r : tr_rstate) (size : nat) (verdict : bool) (m : nat) (q : list msg) (log : list (bool * msg)) : conf :=
  if verdict then
    mkConf digest (mkSS SpSize ((tr_rem_entry e (Z.of_nat m), sc) :: rest) names) r
      [TrSize digest (te_size (tr_rem_entry e (Z.of_nat m)))] q
      (log ++ [(true, TrSize digest (te_size (tr_rem_entry e (Z.of_nat m))))])
  else mkConf digest (mkSS (SpHash (Z.of_nat size) (Z.of_nat m)) ((e, sc) :: rest) names) r [] q log.

Lemma send_hacks c d e sc rest names r src old size : forall l cur q log,
  Proofs.Resume.incr cur l -> Forall (fun s => s <= size)%nat l ->
  runf (length (Proofs.Resume.acks_of hx src old l)) c d
    (mkConf digest (mkSS (SpHash (Z.of_nat size) (Z.of_nat cur)) ((e, sc) :: rest) names) r []
       (map hack_of (Proofs.Resume.acks_of hx src old l) ++ q) log) =
  after_hacks e sc rest names r size (Proofs.Resume.verdict hx src old size l)
    (last (Proofs.Resume.take_good hx src old l) cur) q log.
Proof.
  induction l as [|s l IH]; intros cur q log Hin Hall; [reflexivity|].
  cbn [Proofs.Resume.incr] in Hin. destruct Hin as [Hcs Hin]. inversion Hall as [|? ? Hs Hall']; subst.
  cbn [Proofs.Resume.acks_of Proofs.Resume.verdict Proofs.Resume.take_good]. destruct (Proofs.Resume.good hx src old s) eqn:Hg.
  - cbn [length map app tr_hack Resume.a_step Resume.a_match].
    unfold tr_hack at 1. cbn [Resume.a_step Resume.a_match].
    rewrite (run_S _ _ _ _ _ (step_send' _ _ _ _ _ _ _)), snd_hack. unfold tr_s_hack. cbn [ss_todo negb ss_names].
    rewrite Proofs.Resume.last_cons_default.
    destruct (Z.eqb_spec (Z.of_nat s) (Z.of_nat size)) as [He|Hne].
    + assert (s = size) by lia. subst s. rewrite Nat.eqb_refl. cbn [orb].
      destruct l as [|s2 l]; [|cbn [Proofs.Resume.incr] in Hin; inversion Hall'; subst; lia].
      cbn [Proofs.Resume.acks_of length map app tr_run_from Proofs.Resume.take_good last fst snd].
      unfold after_hacks, tr_s_size. cbn [fst snd]. unfold tr_tag_out. cbn [map]. reflexivity.
    + destruct (Nat.eqb_spec s size); [lia|]. cbn [orb].
      destruct (Z.ltb_spec (Z.of_nat size) (Z.of_nat s)); [lia|]. cbn [fst snd].
      unfold tr_tag_out. cbn [map]. rewrite app_nil_r. apply IH; assumption.
  - cbn [length map app last]. unfold tr_hack at 1. cbn [Resume.a_step Resume.a_match].
    rewrite (run_one _ _ _ _ (step_send' _ _ _ _ _ _ _)), snd_hack. unfold tr_s_hack. cbn [ss_todo negb ss_names fst snd].
    unfold after_hacks, tr_s_size. cbn [fst snd]. unfold tr_tag_out. cbn [map]. reflexivity.
Qed.

Lemma bytes_ok_skipn n : forall l, bytes_ok l = true -> bytes_ok (skipn n l) = true.
Proof.
  induction n as [|n IH]; intros l Hl; [exact Hl|]. destruct l as [|x l]; [reflexivity|].
  cbn [skipn]. apply IH. cbn [bytes_ok forallb] in Hl. apply andb_true_iff in Hl. tauto.
Qed.

Definition resume_log (c : tr_cfg) (e : tr_entry) (sc : tr_sched) (ln : name) (tsize : N) (o : Resume.outcome) : list (bool * msg) :=
  let f := tr_rem_entry e (Resume.o_msend o) in
  [(true, TrName digest (tr_payload c e)); (false, name_reply c ln tsize)]
  ++ tag_out true (tr_resume_pre digest c e ++ map hmsg_of (Resume.o_hashes o))
  ++ tag_out false (map hack_of (Resume.o_acks o))
  ++ [(true, TrSize digest (te_size f))]
  ++ tail_log c f sc ++ [(false, TrSuccDigest digest (H (te_data f)))].

Definition resume_steps (c : tr_cfg) (e : tr_entry) (sc : tr_sched) (o : Resume.outcome) : nat :=
  1 + (1 + (length (tr_resume_pre digest c e) + (length (Resume.o_hashes o) + (length (Resume.o_acks o)
  + (tail_steps c (tr_rem_entry e (Resume.o_msend o)) sc + 2))))).

(* what the receiver found when it opened the file *)
Lemma target_size_pos d ln p st1 : (0 <? tr_target_size d ln p st1) = true ->
  tr_old_content st1 (tr_leaf d ln p) <> [] /\ tr_target_size d ln p st1 = tr_blen (tr_old_content st1 (tr_leaf d ln p)).
Proof.
  unfold tr_target_size, tr_old_content. destruct (lookup (st_fs st1) (tr_leaf d ln p)) as [[old|]|]; try discriminate.
  intro Hp. split; [|reflexivity]. destruct old; [discriminate Hp | discriminate].
Qed.

Lemma pipeline_of_json_names c : tr_json_names c = true -> tr_pipeline c = true.
Proof.
  unfold tr_json_names, tr_pipeline. intro Hj. apply N.leb_le in Hj. destruct proto_order_src_ok as [H1 _]. apply N.leb_le in H1.
  apply N.leb_le. lia.
Qed.

Lemma json_of_json_names c : tr_json_names c = true -> tr_json c = true.
Proof. unfold tr_json. intros ->. reflexivity. Qed.

Lemma payload_size c e : tr_json c = true -> tr_p_size (tr_payload c e) = te_size e.
Proof. unfold tr_payload. intros ->. reflexivity. Qed.

Lemma snd_name_target c e sc rest names nm sz : tr_json_names c = true ->
  sender c (mkSS SpName ((e, sc) :: rest) names) (TrSuccTarget digest nm sz) =
  tr_s_named digest hx ahdr c (mkSS SpName ((e, sc) :: rest) names) e sc rest nm sz.
Proof. intro Hj. unfold tr_sender. cbn [ss_phase ss_todo ss_names]. rewrite Hj. reflexivity. Qed.

Lemma entry_resume c d e sc ess st names L ln st1 o :
  table_ok c -> bytes_ok (te_data e) = true -> tr_json_names c = true ->
  tr_has_subs e = false -> te_isdir e = false -> (te_isdir e && negb (tr_json c)) = false ->
  tr_create c d (tr_payload c e) [] st = (NOk ln, st1) ->
  (0 <? tr_target_size d ln (tr_payload c e) st1) = true ->
  tr_resume_run hx c e sc (tr_old_content st1 (tr_leaf d ln (tr_payload c e))) = Resume.Done o ->
  runf (resume_steps c e sc o) c d (between c ((e, sc) :: ess) st names L) =
  between c ess (tr_set_file st1 (tr_leaf d ln (tr_payload c e)) (Resume.o_final o)) (tr_add_name names ln)
    (L ++ resume_log c e sc ln (tr_target_size d ln (tr_payload c e) st1) o).
Proof.
  intros Ht Hb Hj Hsub Hd E0 E1 Hts Hrun.
  pose proof (pipeline_of_json_names c Hj) as Hp.
  set (leaf := tr_leaf d ln (tr_payload c e)) in *.
  destruct (target_size_pos d ln (tr_payload c e) st1 Hts) as [Hold Etsz]. fold leaf in Hold, Etsz.
  set (old := tr_old_content st1 leaf) in *. set (src := te_data e) in *.
  (* the exchange, taken apart and in closed form *)
  destruct (resume_run_inv hx c e sc old o Hj Hold Hrun) as (hs & rst & ms & Hsend & Hrecv & Hacks & Ho).
  pose proof (resume_run_cases hx c e sc old Hj Hold) as Hcases. cbv zeta in Hcases. fold src in Hcases, Hsend, Ho.
  set (size := Nat.min (length src) (length old)) in *. set (l := rs_steps sc src old) in *.
  set (m := last (Proofs.Resume.take_good hx src old l) O) in *.
  rewrite Hrun in Hcases.
  destruct ((size =? 0)%nat || Proofs.Resume.verdict hx src old size l) eqn:Hv; [|discriminate].
  assert (Hhs : hs = map (Proofs.Resume.mk hx src) l ++ [Resume.Over]).
  { pose proof (send_hashes_steps hx sc src old) as Hx. cbv zeta in Hx. fold size l in Hx. rewrite Hsend in Hx. inversion Hx. reflexivity. }
  injection Hcases as Ho2. rewrite Ho in Ho2.
  assert (Ea : Resume.r_acks rst = Proofs.Resume.acks_of hx src old l) by (apply (f_equal Resume.o_acks) in Ho2; exact Ho2).
  assert (Emr : Resume.r_mstep rst = Z.of_nat m) by (apply (f_equal Resume.o_mrecv) in Ho2; exact Ho2).
  assert (Ems : ms = Z.of_nat m) by (apply (f_equal Resume.o_msend) in Ho2; exact Ho2).
  clear Ho2.
  destruct (rs_steps_props sc src old) as [Hincr Hall]. fold l size in Hincr, Hall.
  (* the receiver's loop on the records *)
  assert (Hloop : Resume.recv_hashes B hx old (map (Proofs.Resume.mk hx src) l) Resume.r_init = Resume.RBlocked rst).
  { rewrite Hhs, recv_hashes_app in Hrecv.
    destruct (Resume.recv_hashes B hx old (map (Proofs.Resume.mk hx src) l) Resume.r_init) as [rx|r1| | |] eqn:E; try discriminate.
    - exfalso. apply (recv_hashes_no_over B hx old _ Resume.r_init rx) in E; [exact E|].
      intros x Hx. apply in_map_iff in Hx as (y & <- & _). discriminate.
    - cbn in Hrecv. inversion Hrecv. reflexivity. }
  (* the quantities of the outcome *)
  assert (Eoh : Resume.o_hashes o = map (Proofs.Resume.mk hx src) l ++ [Resume.Over]) by (rewrite Ho, <- Hhs; reflexivity).
  assert (Eoa : Resume.o_acks o = Proofs.Resume.acks_of hx src old l) by (rewrite Ho; cbn [Resume.o_acks]; exact Ea).
  assert (Eom : Resume.o_msend o = Z.of_nat m) by (rewrite Ho; cbn [Resume.o_msend]; exact Ems).
  assert (Eof : Resume.o_final o =
     Resume.f_data (Resume.f_write (Resume.f_truncate (Resume.f_seek (Resume.mkFile old (Resume.r_off rst)) (Z.to_nat (Resume.r_mstep rst)))
                                      (Z.to_nat (Resume.r_mstep rst))) (te_data (tr_rem_entry e (Z.of_nat m))))).
  { rewrite Ho. cbn [Resume.o_final]. rewrite rem_entry_data, Ems. reflexivity. }
  unfold resume_steps, resume_log. cbv zeta. rewrite Eoh, Eoa, Eom, Eof. clear Eoh Eoa Eom Eof.
  set (f := tr_rem_entry e (Z.of_nat m)).
  rewrite between_cons.
  (* NAME -> reply with the size of what is there *)
  rewrite run_add, (run_one _ _ _ _ (step_recv' _ _ _ _ _ _ _ _)), rcv_name.
  unfold tr_r_name. cbn [rs_st rs_names rs_phase rs_left rs_sched rs_open].
  rewrite E1, payload_archive, Hsub, andb_false_r, (payload_isdir _ _ E0), Hd.
  cbn [orb]. rewrite Hj, Hts. cbn [andb fst snd app]. fold leaf. fold old.
  unfold tr_r_phase. cbn [rs_st rs_names rs_phase rs_left rs_sched rs_open].
  (* reply -> [SIZE] HASH records *)
  rewrite run_add, (run_one _ _ _ _ (step_send' _ _ _ _ _ _ _)).
  rewrite (snd_name_target c e sc ess names ln _ Hj).
  unfold tr_s_named. rewrite Hsub, andb_false_r, Hd, Hts. cbn [ss_names].
  unfold tr_s_resume. rewrite Etsz, (resume_size_min e old). fold src size. rewrite Hsend, Hhs.
  rewrite map_app. cbn [map tr_hmsg].
  assert (Hpre : forall (ph : tr_rphase) rl rn rs q r2s lg,
    runf (length (tr_resume_pre digest c e)) c d
      (mkConf digest rs
         (mkRSx (if tc_proto c <? Consts.tr_proto_resume_nosize then RpHSize (tr_payload c e) leaf old else RpHash (tr_payload c e) leaf old (tr_p_size (tr_payload c e)) Resume.r_init) rl st rn (sc :: map snd ess) None)
         (tr_resume_pre digest c e ++ q) r2s lg) =
    mkConf digest rs (mkRSx (RpHash (tr_payload c e) leaf old (te_size e) Resume.r_init) rl st rn (sc :: map snd ess) None) q r2s lg).
  { intros _ rl rn rs q r2s lg. unfold tr_resume_pre. destruct (tc_proto c <? Consts.tr_proto_resume_nosize); [|rewrite (payload_size c e (json_of_json_names c Hj)); reflexivity].
    cbn [length app]. rewrite (run_one _ _ _ _ (step_recv' _ _ _ _ _ _ _ _)), rcv_hsize. cbn [fst snd]. rewrite !app_nil_r. reflexivity. }
  assert (Hacksrst : Resume.r_acks rst = Proofs.Resume.acks_of hx src old l) by exact Ea.
  assert (Hmrst : Z.to_nat (Resume.r_mstep rst) = m) by (rewrite Emr; lia).
  (* what the receiver expects the rest to measure is what the sender announces *)
  assert (Hrestm : (Z.of_N (te_size e) - Z.of_nat m)%Z = Z.of_N (te_size f)).
  { destruct (Proofs.Resume.agreed_good B hx hash_B_pos src old l size Hall) as [_ Hle]. fold m in Hle.
    unfold f, te_size. cbn [tr_rem_entry te_isdir]. rewrite Hd, rem_entry_data. fold src.
    rewrite skipn_length, Nat2Z.id. unfold size in Hle. lia. }
  destruct (Nat.eqb_spec size 0) as [Hz|Hnz].
  - (* nothing to compare: Over and the SIZE of the whole file at once *)
    assert (Hl : l = []).
    { unfold l, rs_steps. fold size. rewrite Hz. reflexivity. }
    assert (Hm0 : m = O) by (unfold m; rewrite Hl; reflexivity).
    assert (Hf0 : tr_rem_entry e 0 = f) by (unfold f; rewrite Hm0; reflexivity).
    rewrite Hl in Hloop |- *. cbn [map app length Proofs.Resume.acks_of].
    cbn [fst snd]. rewrite <- !app_assoc.
    rewrite run_add, (Hpre RpNum). cbn [app].
    change (0 + (tail_steps c f sc + 2))%nat with (tail_steps c f sc + 2)%nat.
    rewrite run_add, (run_one _ _ _ _ (step_recv' _ _ _ _ _ _ _ _)), rcv_over. unfold tr_r_over.
    cbn [fst snd rs_left rs_st rs_names rs_sched]. cbn in Hloop. inversion Hloop as [Hrst]. rewrite <- Hrst in *.
    rewrite app_nil_r, Hf0.
    rewrite run_add, (file_tail_v2 c d (tr_payload c e) f sc ess _ _ _ _ _ _ _ Hp Ht); [| apply (eq_trans (f_equal bytes_ok (rem_entry_data e _))), bytes_ok_skipn, Hb | reflexivity| |].
    2:{ rewrite payload_archive, Hsub, andb_false_r. discriminate. }
    2:{ unfold tr_rest_mismatch. cbn [rs_open]. rewrite ?Hrst0, Emr, Hrestm, Z.eqb_refl. cbn [negb]. rewrite !andb_false_r. reflexivity. }
    erewrite (md5_steps c d (tr_payload c e) f sc ess (length ess) st _ (map snd ess)); [| | reflexivity | reflexivity].
    + unfold name_reply. rewrite Hj. f_equal. rewrite !tag_out_app. norm_log. reflexivity.
    + unfold tr_complete. cbn [rs_open rs_st]. rewrite E1. reflexivity.
  - (* the records, the answers, the verdict *)
    cbn [fst snd]. rewrite <- !app_assoc.
    rewrite run_add, (Hpre RpNum).
    rewrite app_length. cbn [length]. rewrite map_length.
    replace (length l + 1 + (length (Proofs.Resume.acks_of hx src old l) + (tail_steps c f sc + 2)))%nat
      with (length (map (Proofs.Resume.mk hx src) l) + (1 + (length (Proofs.Resume.acks_of hx src old l) + (tail_steps c f sc + 2))))%nat
      by (rewrite map_length; lia).
    rewrite run_add, (recv_hash_loop c d (tr_payload c e) leaf old _ _ _ _ _ _ _ _ _ rst _ _ _ Hloop).
    cbn [Resume.r_init Resume.r_acks length skipn]. rewrite Hacksrst. cbn [app].
    rewrite run_add, (run_one _ _ _ _ (step_recv' _ _ _ _ _ _ _ _)), rcv_over. unfold tr_r_over.
    cbn [fst snd rs_left rs_st rs_names rs_sched]. rewrite app_nil_r.
    assert (Hverd : Proofs.Resume.verdict hx src old size l = true).
    { apply orb_true_iff in Hv as [Hv|Hv]; [discriminate Hv | exact Hv]. }
    rewrite run_add.
    rewrite <- (app_nil_r (map hack_of (Proofs.Resume.acks_of hx src old l))) at 1.
    change 0%Z with (Z.of_nat 0).
    rewrite (send_hacks c d e sc ess _ _ src old size l 0 [] _ Hincr Hall), Hverd. unfold after_hacks. fold m f.
    rewrite Hmrst.
    rewrite run_add, (file_tail_v2 c d (tr_payload c e) f sc ess _ _ _ _ _ _ _ Hp Ht); [| apply (eq_trans (f_equal bytes_ok (rem_entry_data e _))), bytes_ok_skipn, Hb | reflexivity| |].
    2:{ rewrite payload_archive, Hsub, andb_false_r. discriminate. }
    2:{ unfold tr_rest_mismatch. cbn [rs_open]. rewrite ?Hrst0, Emr, Hrestm, Z.eqb_refl. cbn [negb]. rewrite !andb_false_r. reflexivity. }
    erewrite (md5_steps c d (tr_payload c e) f sc ess (length ess) st _ (map snd ess)); [| | reflexivity | reflexivity].
    + unfold name_reply. rewrite Hj. f_equal. rewrite !tag_out_app. norm_log. reflexivity.
    + unfold tr_complete. cbn [rs_open rs_st]. rewrite E1. reflexivity.
Qed.

(* the hash sender stopped before the verdict: the ack reader waits for an answer that never comes;
   neither side ever reports success *)
Lemma entry_blocked c d e sc ess st names L ln st1 hs acks :
  tr_json_names c = true ->
  tr_has_subs e = false -> te_isdir e = false -> (te_isdir e && negb (tr_json c)) = false ->
  tr_create c d (tr_payload c e) [] st = (NOk ln, st1) ->
  (0 <? tr_target_size d ln (tr_payload c e) st1) = true ->
  tr_resume_run hx c e sc (tr_old_content st1 (tr_leaf d ln (tr_payload c e))) = Resume.SenderBlocked hs acks ->
  let cf := runf (1 + (1 + (length (tr_resume_pre digest c e) + (length hs + length acks)))) c d (between c ((e, sc) :: ess) st names L) in
  stepc c d cf = None /\ tr_sender_ok digest cf = false /\ tr_receiver_ok digest cf = false.
Proof.
  intros Hj Hsub Hd E0 E1 Hts Hrun.
  set (leaf := tr_leaf d ln (tr_payload c e)) in *.
  destruct (target_size_pos d ln (tr_payload c e) st1 Hts) as [Hold Etsz]. fold leaf in Hold, Etsz.
  set (old := tr_old_content st1 leaf) in *. set (src := te_data e) in *.
  pose proof (resume_run_cases hx c e sc old Hj Hold) as Hcases. cbv zeta in Hcases. fold src in Hcases.
  set (size := Nat.min (length src) (length old)) in *. set (l := rs_steps sc src old) in *.
  rewrite Hrun in Hcases.
  destruct ((size =? 0)%nat || Proofs.Resume.verdict hx src old size l) eqn:Hv; [discriminate|].
  apply orb_false_iff in Hv as [Hnz Hverd]. apply Nat.eqb_neq in Hnz.
  injection Hcases as Ehs Eacks. subst hs acks.
  destruct (recv_honest_steps hx sc src old) as (rst & Hrecv & _ & Hacksrst). fold l in Hrecv, Hacksrst.
  destruct (rs_steps_props sc src old) as [Hincr Hall]. fold l size in Hincr, Hall.
  assert (Hloop : Resume.recv_hashes B hx old (map (Proofs.Resume.mk hx src) l) Resume.r_init = Resume.RBlocked rst).
  { rewrite recv_hashes_app in Hrecv.
    destruct (Resume.recv_hashes B hx old (map (Proofs.Resume.mk hx src) l) Resume.r_init) as [rx|r1| | |] eqn:E; try discriminate.
    - exfalso. apply (recv_hashes_no_over B hx old _ Resume.r_init rx) in E; [exact E|].
      intros x Hx. apply in_map_iff in Hx as (y & <- & _). discriminate.
    - cbn in Hrecv. inversion Hrecv. reflexivity. }
  pose proof (send_hashes_steps hx sc src old) as Hsend. cbv zeta in Hsend. fold size l in Hsend.
  assert (Hfin : exists sz ms rr lg,
    runf (1 + (1 + (length (tr_resume_pre digest c e) + (length (map (Proofs.Resume.mk hx src) l ++ [Resume.Over]) + length (Proofs.Resume.acks_of hx src old l))))) c d
      (between c ((e, sc) :: ess) st names L) =
    mkConf digest (mkSS (SpHash sz ms) ((e, sc) :: ess) (tr_add_name names ln))
      (mkRSx (RpSize (tr_payload c e)) (S (length ess)) st (tr_add_name names ln) (sc :: map snd ess) rr) [] [] lg);
  [|destruct Hfin as (sz & ms & rr & lg & Hfin); cbv zeta; rewrite Hfin; split; [reflexivity | split; reflexivity]].
  do 4 eexists. rewrite between_cons.
  rewrite run_add, (run_one _ _ _ _ (step_recv' _ _ _ _ _ _ _ _)), rcv_name.
  unfold tr_r_name. cbn [rs_st rs_names rs_phase rs_left rs_sched rs_open].
  rewrite E1, payload_archive, Hsub, andb_false_r, (payload_isdir _ _ E0), Hd.
  cbn [orb]. rewrite Hj, Hts. cbn [andb fst snd app]. fold leaf. fold old.
  unfold tr_r_phase. cbn [rs_st rs_names rs_phase rs_left rs_sched rs_open].
  rewrite run_add, (run_one _ _ _ _ (step_send' _ _ _ _ _ _ _)).
  rewrite (snd_name_target c e sc ess names ln _ Hj).
  unfold tr_s_named. rewrite Hsub, andb_false_r, Hd, Hts. cbn [ss_names].
  unfold tr_s_resume. rewrite Etsz, (resume_size_min e old). fold src size. rewrite Hsend.
  destruct (Nat.eqb_spec size 0) as [Hz|_]; [contradiction|].
  rewrite map_app. cbn [map tr_hmsg fst snd]. rewrite <- !app_assoc.
  assert (Hpre : forall rl rn rs q r2s lg,
    runf (length (tr_resume_pre digest c e)) c d
      (mkConf digest rs
         (mkRSx (if tc_proto c <? Consts.tr_proto_resume_nosize then RpHSize (tr_payload c e) leaf old else RpHash (tr_payload c e) leaf old (tr_p_size (tr_payload c e)) Resume.r_init) rl st rn (sc :: map snd ess) None)
         (tr_resume_pre digest c e ++ q) r2s lg) =
    mkConf digest rs (mkRSx (RpHash (tr_payload c e) leaf old (te_size e) Resume.r_init) rl st rn (sc :: map snd ess) None) q r2s lg).
  { intros rl rn rs q r2s lg. unfold tr_resume_pre. destruct (tc_proto c <? Consts.tr_proto_resume_nosize); [|rewrite (payload_size c e (json_of_json_names c Hj)); reflexivity].
    cbn [length app]. rewrite (run_one _ _ _ _ (step_recv' _ _ _ _ _ _ _ _)), rcv_hsize. cbn [fst snd]. rewrite !app_nil_r. reflexivity. }
  rewrite run_add, Hpre.
  rewrite app_length. cbn [length]. rewrite map_length.
  replace (length l + 1 + length (Proofs.Resume.acks_of hx src old l))%nat
    with (length (map (Proofs.Resume.mk hx src) l) + (1 + length (Proofs.Resume.acks_of hx src old l)))%nat
    by (rewrite map_length; lia).
  rewrite run_add, (recv_hash_loop c d (tr_payload c e) leaf old _ _ _ _ _ _ _ _ _ rst _ _ _ Hloop).
  cbn [Resume.r_init Resume.r_acks length skipn]. rewrite Hacksrst. cbn [app].
  rewrite run_add, (run_one _ _ _ _ (step_recv' _ _ _ _ _ _ _ _)), rcv_over. unfold tr_r_over.
  cbn [fst snd rs_left rs_st rs_names rs_sched]. rewrite app_nil_r.
  rewrite <- (app_nil_r (map hack_of (Proofs.Resume.acks_of hx src old l))) at 1.
  change 0%Z with (Z.of_nat 0).
  rewrite (send_hacks c d e sc ess _ _ src old size l 0 [] _ Hincr Hall), Hverd. unfold after_hacks.
  reflexivity.
Qed.

(* ---------- an archive: NAME (archive:true), reply, then the entry stream as a file ---------- *)
Definition arch_log (c : tr_cfg) (e : tr_entry) (sc : tr_sched) (ln : name) (f : tr_entry) : list (bool * msg) :=
  [(true, TrName digest (tr_payload c e)); (false, name_reply c ln 0); (true, TrSize digest (te_size f))]
  ++ tail_log c f sc ++ [(false, TrSuccDigest digest (H (te_data f)))].

Lemma entry_arch c d e sc ess st names L ln st1 f t :
  table_ok c -> tr_json_names c = true -> tr_has_subs e = true -> (te_isdir e && negb (tr_json c)) = false ->
  tr_create c d (tr_payload c e) [] st = (NOk ln, st1) ->
  tr_arch_entry ahdr e sc = Some f -> te_isdir f = false -> te_size f = Z.to_N (tr_arch_size ahdr e) ->
  bytes_ok (te_data f) = true ->
  tr_unarchive aparse (te_id e) sc (te_data f) = Some t ->
  runf (2 + (tail_steps c f sc + 2)) c d (between c ((e, sc) :: ess) st names L) =
  between c ess (tr_graft_st st1 (d ++ [ln]) t) (tr_add_name names ln) (L ++ arch_log c e sc ln f).
Proof.
  intros Ht Hj Hsub E0 E1 Ef Hdf Hsz Hb Hun.
  pose proof (pipeline_of_json_names c Hj) as Hp. pose proof (json_of_json_names c Hj) as Hjs.
  assert (Hpa : tr_p_archive (tr_payload c e) = true) by (rewrite payload_archive, Hjs, Hsub; reflexivity).
  rewrite between_cons.
  rewrite run_add. cbn [tr_run_from].
  rewrite (step_recv' _ _ _ _ _ _ _ _), rcv_name.
  unfold tr_r_name. cbn [rs_st rs_names rs_phase rs_left rs_sched rs_open]. rewrite E1, Hpa, orb_true_r, Hj.
  unfold tr_r_phase. cbn [rs_st rs_names rs_phase rs_left rs_sched rs_open fst snd app].
  rewrite (step_send' _ _ _ _ _ _ _), (snd_name_target c e sc ess names ln _ Hj).
  unfold tr_s_named. rewrite Hj, Hsub, Ef. cbn [andb ss_names]. unfold tr_s_size. rewrite <- Hsz. cbn [fst snd].
  rewrite run_add, (file_tail_v2 c d (tr_payload c e) f sc ess _ _ _ _ _ None _ Hp Ht Hb Hdf); [| |reflexivity].
  2:{ intros _. rewrite (payload_aid c e Hjs). eauto. }
  erewrite (md5_steps c d (tr_payload c e) f sc ess (length ess) st _ (map snd ess)); [| | reflexivity | reflexivity].
  - unfold arch_log, name_reply. rewrite Hj. f_equal. norm_log. reflexivity.
  - unfold tr_complete. cbn [rs_open rs_st]. rewrite Hpa, E1, (payload_aid c e Hjs). unfold tr_cur_sched. cbn [rs_sched].
    rewrite Hun. reflexivity.
Qed.

(* ---------- all entries ---------- *)
(* the messages of one item, by the way it is received (the specification decides which) *)
Definition entry_log (c : tr_cfg) (d : path) (e : tr_entry) (sc : tr_sched) (st : state) (ln : name) : list (bool * msg) :=
  match tr_create c d (tr_payload c e) [] st with
  | (NErr, _) => []
  | (NOk _, st1) =>
    if tr_json_names c && tr_has_subs e then match tr_arch_entry ahdr e sc with Some f => arch_log c e sc ln f | None => [] end
    else if te_isdir e then dir_log c e ln
    else if tr_json_names c && (0 <? tr_target_size d ln (tr_payload c e) st1) then
      match tr_resume_run hx c e sc (tr_old_content st1 (tr_leaf d ln (tr_payload c e))) with
      | Resume.Done o => resume_log c e sc ln (tr_target_size d ln (tr_payload c e) st1) o
      | _ => []
      end
    else if tr_pipeline c then file_log_v2 c e sc ln else file_log_v1 c e sc ln
  end.

Fixpoint all_log (c : tr_cfg) (d : path) (ess : list (tr_entry * tr_sched)) (st : state) (per : list name) : list (bool * msg) :=
  match ess, per with
  | (e, sc) :: ess', ln :: per' =>
    entry_log c d e sc st ln ++
    match spec_entry c d e sc st with Some (_, st') => all_log c d ess' st' per' | None => [] end
  | _, _ => []
  end.

Fixpoint esteps (c : tr_cfg) (d : path) (ess : list (tr_entry * tr_sched)) (st : state) : nat :=
  match ess with
  | [] => 0
  | (e, sc) :: r =>
    tr_entry_steps digest zcomp hx ahdr c d e sc st +
    match spec_entry c d e sc st with Some (_, st') => esteps c d r st' | None => 0 end
  end.

(* what is assumed of one item: contents are bytes; SubFiles only in archive mode and well-formed;
   their headers decode *)
Definition item_ok (c : tr_cfg) (e : tr_entry) : Prop :=
  Forall (fun m => bytes_ok (te_data m) = true) (tr_members e) /\
  (te_subs e <> [] -> tr_archive_mode c = true /\ tr_subs_wf e) /\
  (forall s, In s (te_subs e) -> tr_hdr_ok1 ahdr aparse s).

Lemma has_subs_ne e : tr_has_subs e = true -> te_subs e <> [].
Proof. unfold tr_has_subs. destruct (te_subs e); [discriminate | discriminate]. Qed.

Lemma item_bytes c e : item_ok c e -> bytes_ok (te_data e) = true.
Proof. intros (Hb & _). inversion Hb; assumption. Qed.

(* the archive "file" of an item that is in order *)
Lemma arch_item c e sc : item_ok c e -> tr_has_subs e = true ->
  exists f t, tr_arch_entry ahdr e sc = Some f /\ te_isdir f = false /\ te_size f = Z.to_N (tr_arch_size ahdr e) /\
    bytes_ok (te_data f) = true /\ tr_unarchive aparse (te_id e) sc (te_data f) = Some t.
Proof.
  intros (Hb & Hw & Hh) Hsub. destruct (Hw (has_subs_ne e Hsub)) as [_ Hwf].
  destruct (arch_entry_ok ahdr e sc) as (f & Ef & Hdata & Hdf & _ & _ & _ & Hsz).
  destruct (unarchive_ok ahdr aparse e sc Hwf Hh) as (t & Et & _).
  exists f, t. split; [exact Ef|]. split; [exact Hdf|]. split; [exact Hsz|]. rewrite Hdata. split; [|exact Et].
  apply (arch_stream_bytes ahdr aparse e Hwf Hh). inversion Hb; assumption.
Qed.

Lemma entry_run c d e sc ess st names L ln st' : table_ok c -> item_ok c e ->
  spec_entry c d e sc st = Some (ln, st') ->
  runf (tr_entry_steps digest zcomp hx ahdr c d e sc st) c d (between c ((e, sc) :: ess) st names L) =
  between c ess st' (tr_add_name names ln) (L ++ entry_log c d e sc st ln).
Proof.
  intros Ht Hok Hs. pose proof (item_bytes c e Hok) as Hb. destruct (tr_has_subs e) eqn:Hsub.
  - (* an archive *)
    destruct Hok as (Hb' & Hw & Hh). destruct (Hw (has_subs_ne e Hsub)) as [Ham _].
    destruct (archive_mode_facts c Ham) as (_ & Hj & Hjs & Hp).
    destruct (arch_item c e sc (conj Hb' (conj Hw Hh)) Hsub) as (f & t & Ef & Hdf & Hsz & Hbf & Et).
    unfold tr_spec_entry in Hs. destruct (te_isdir e && negb (tr_json c)) eqn:E0; [discriminate|].
    unfold tr_entry_steps, entry_log.
    destruct (tr_create c d (tr_payload c e) [] st) as [[l1|] st1] eqn:E1; [|discriminate].
    rewrite Hsub, Ef, Et in Hs. inversion Hs; subst l1 st'. clear Hs.
    rewrite Hj, Hsub, Ef. cbn [andb]. rewrite (tail_steps_eq c f sc Hp).
    apply (entry_arch c d e sc ess st names L ln st1 f t Ht Hj Hsub E0 E1 Ef Hdf Hsz Hbf Et).
  - destruct (spec_plain_inv c d e sc st ln st' Hsub Hs) as (E0 & st1 & E1 & Hrest).
    unfold tr_entry_steps, entry_log. rewrite E1, Hsub, andb_false_r.
    destruct (te_isdir e) eqn:Hd.
    + subst st'. assert (E0' : te_isdir e && negb (tr_json c) = false) by (rewrite Hd; exact E0).
      apply (entry_dir c d e sc ess st names L ln st1 Hsub Hd E0' E1).
    + assert (E0' : te_isdir e && negb (tr_json c) = false) by (rewrite Hd; exact E0). clear E0. rename E0' into E0.
      destruct (tr_json_names c && (0 <? tr_target_size d ln (tr_payload c e) st1)) eqn:E2.
      * destruct Hrest as (o & Er & ->). rewrite Er. apply andb_true_iff in E2 as [Hj Hts].
        replace (2 + (length (tr_resume_pre digest c e) + length (Resume.o_hashes o) + length (Resume.o_acks o)
                      + tr_tail_steps digest zcomp c (tr_rem_entry e (Resume.o_msend o)) sc))%nat
          with (resume_steps c e sc o) by (unfold resume_steps; rewrite (tail_steps_eq c _ sc (pipeline_of_json_names c Hj)); lia).
        apply (entry_resume c d e sc ess st names L ln st1 o Ht Hb Hj Hsub Hd E0 E1 Hts Er).
      * destruct Hrest as (ln2 & E3). destruct (tr_pipeline c) eqn:Hp.
        -- rewrite (tail_steps_eq c e sc Hp).
           apply (entry_file_v2 c d e sc ess st names L ln st1 ln2 st' Hp Ht Hb Hsub Hd E0 E1 E2 E3).
        -- replace (2 + tr_tail_steps digest zcomp c e sc)%nat with (steps_v1 e sc)
             by (unfold tr_tail_steps, steps_v1; rewrite Hp, dbl_spec; lia).
           apply (entry_file_v1 c d e sc ess st names L ln st1 ln2 st' Hp Ht Hb Hsub Hd E0 E1 E2 E3).
Qed.

Lemma run_entries_prefix c d rest : table_ok c -> forall ess st names L per all stf,
  Forall (fun es => item_ok c (fst es)) ess ->
  spec c d ess st names = Some (per, all, stf) ->
  runf (esteps c d ess st) c d (between c (ess ++ rest) st names L) = between c rest stf all (L ++ all_log c d ess st per).
Proof.
  intros Ht. induction ess as [|[e sc] ess IH]; intros st names L per all stf Hb Hs.
  - cbn in Hs. inversion Hs; subst. cbn [esteps tr_run_from all_log app]. rewrite app_nil_r. reflexivity.
  - cbn [tr_spec] in Hs. destruct (spec_entry c d e sc st) as [[ln st1]|] eqn:Ee; [|discriminate].
    destruct (spec c d ess st1 (tr_add_name names ln)) as [[[per' all'] stf']|] eqn:Er; [|discriminate].
    inversion Hs; subst. inversion Hb as [|? ? Hb1 Hb2]; subst. cbn [fst] in Hb1.
    cbn [esteps all_log app]. rewrite Ee, run_add.
    rewrite (entry_run c d e sc (ess ++ rest) st names L ln st1 Ht Hb1 Ee).
    rewrite (IH _ _ _ _ _ _ Hb2 Er), <- app_assoc. reflexivity.
Qed.

Lemma run_entries c d : table_ok c -> forall ess st names L per all stf,
  Forall (fun es => item_ok c (fst es)) ess ->
  spec c d ess st names = Some (per, all, stf) ->
  runf (esteps c d ess st) c d (between c ess st names L) = between c [] stf all (L ++ all_log c d ess st per).
Proof.
  intros Ht ess st names L per all stf Hb Hs.
  pose proof (run_entries_prefix c d [] Ht ess st names L per all stf Hb Hs) as Hr. rewrite app_nil_r in Hr. exact Hr.
Qed.

(* ---------- the whole run ---------- *)
Definition full_log (c : tr_cfg) (d : path) (ess : list (tr_entry * tr_sched)) (f0 : fs) (per all : list name) : list (bool * msg) :=
  [(true, TrNum digest (N.of_nat (length ess))); (false, TrSuccInt digest (N.of_nat (length ess)))]
  ++ all_log c d ess (init_state f0) per ++ [(tc_upload c, TrExit digest all)].

Notation fuel_go := (tr_fuel_go digest zcomp hx ahdr aparse).
Notation fuel_items := (tr_fuel_items digest zcomp hx ahdr aparse).

Lemma fuel_ok c d : forall ess st names per all stf, spec c d ess st names = Some (per, all, stf) ->
  fuel_go c d ess st = (esteps c d ess st + 1)%nat.
Proof.
  induction ess as [|[e sc] ess IH]; intros st names per all stf Hs; [reflexivity|].
  cbn [tr_spec] in Hs. cbn [tr_fuel_go esteps]. destruct (spec_entry c d e sc st) as [[ln st1]|]; [|discriminate].
  destruct (spec c d ess st1 (tr_add_name names ln)) as [[[per' all'] stf']|] eqn:Er; [|discriminate].
  rewrite (IH _ _ _ _ _ Er). lia.
Qed.

Lemma init_two_steps c d ess f0 :
  runf 2 c d (tr_init digest c ess f0) =
  between c ess (init_state f0) []
    [(true, TrNum digest (N.of_nat (length ess))); (false, TrSuccInt digest (N.of_nat (length ess)))].
Proof.
  unfold tr_init, tr_sender_init, tr_receiver_init.
  rewrite (run_S _ _ _ _ _ (step_recv' _ _ _ _ _ _ _ _)), rcv_num, Nat2N.id. cbn [fst snd app].
  rewrite (run_one _ _ _ _ (step_send' _ _ _ _ _ _ _)), snd_num.
  unfold between.
  destruct (r_next c (length ess) (init_state f0) [] (map snd ess)) as [rn ro].
  destruct (s_next c ess []) as [sn so]. cbn [fst snd]. f_equal; norm_log; reflexivity.
Qed.

Definition final_conf (c : tr_cfg) (stf : state) (all : list name) (log : list (bool * msg)) : conf :=
  mkConf digest (mkSS SpDone [] all) (mkRS RpDone O stf all []) [] [] log.

Lemma last_step c d stf all L :
  runf 1 c d (between c [] stf all L) = final_conf c stf all (L ++ [(tc_upload c, TrExit digest all)]).
Proof.
  unfold between, final_conf. cbn [tr_s_next tr_r_next length map]. destruct (tc_upload c) eqn:Hu; cbn [fst snd].
  - rewrite (run_one _ _ _ _ (step_recv' _ _ _ _ _ _ _ _)), rcv_exit. cbn [fst snd]. f_equal; norm_log; rewrite ?app_nil_r; reflexivity.
  - rewrite (run_one _ _ _ _ (step_send' _ _ _ _ _ _ _)), snd_exit. cbn [fst snd]. f_equal; norm_log; rewrite ?app_nil_r; reflexivity.
Qed.

Lemma final_stuck c d stf all log : stepc c d (final_conf c stf all log) = None.
Proof. reflexivity. Qed.

Notation run_items := (tr_run_items digest H deq zcomp zdecomp zl unzl hx ahdr aparse).

Theorem run_complete c d ess f0 per all stf : table_ok c ->
  Forall (fun es => item_ok c (fst es)) ess ->
  spec c d ess (init_state f0) [] = Some (per, all, stf) ->
  forall fuel, (fuel_items c d ess f0 <= fuel)%nat ->
  run_items fuel c d ess f0 = final_conf c stf all (full_log c d ess f0 per all).
Proof.
  intros Ht Hb Hs fuel Hf. unfold tr_run_items. unfold tr_fuel_items in Hf. rewrite (fuel_ok c d ess _ _ _ _ _ Hs) in Hf.
  replace fuel with (2 + (esteps c d ess (init_state f0) + (1 + (fuel - 3 - esteps c d ess (init_state f0)))))%nat by lia.
  rewrite run_add, init_two_steps, run_add, (run_entries c d Ht ess _ _ _ per all stf Hb Hs), run_add, last_step.
  rewrite run_stuck by apply final_stuck. unfold full_log. norm_app. reflexivity.
Qed.

(* ---------- the receiver refuses an entry, or the resume exchange does not complete ---------- *)
Lemma entry_fail c d e sc ess st names L :
  item_ok c e -> (te_isdir e = true -> tr_json c = true) -> spec_entry c d e sc st = None ->
  let cf := runf (tr_entry_steps digest zcomp hx ahdr c d e sc st) c d (between c ((e, sc) :: ess) st names L) in
  stepc c d cf = None /\ tr_sender_ok digest cf = false /\ tr_receiver_ok digest cf = false.
Proof.
  intros Hok Hdj Hs.
  assert (E0 : te_isdir e && negb (tr_json c) = false).
  { destruct (te_isdir e); [rewrite (Hdj eq_refl); reflexivity | reflexivity]. }
  unfold tr_entry_steps. pose proof Hs as Hs0. unfold tr_spec_entry in Hs. rewrite E0 in Hs.
  destruct (tr_create c d (tr_payload c e) [] st) as [[ln|] st1] eqn:E1.
  - destruct (tr_has_subs e) eqn:Hsub.
    + (* an archive in order is never refused *)
      exfalso. destruct (arch_item c e sc Hok Hsub) as (f & t & Ef & _ & _ & _ & Et). rewrite Ef, Et in Hs. discriminate.
    + rewrite andb_false_r. destruct (te_isdir e) eqn:Hd; [discriminate|].
      assert (E0' : te_isdir e && negb (tr_json c) = false) by (rewrite Hd; exact E0). clear E0. rename E0' into E0.
      destruct (tr_json_names c && (0 <? tr_target_size d ln (tr_payload c e) st1)) eqn:E2.
      * apply andb_true_iff in E2 as [Hj Hts].
        destruct (target_size_pos d ln (tr_payload c e) st1 Hts) as [Hold _].
        pose proof (resume_run_cases hx c e sc _ Hj Hold) as Hc. cbv zeta in Hc.
        destruct (tr_resume_run hx c e sc (tr_old_content st1 (tr_leaf d ln (tr_payload c e)))) as [o|hs acks| | |] eqn:Er;
          try (destruct (_ || _) in Hc; discriminate Hc).
        -- discriminate.
        -- replace (2 + (length (tr_resume_pre digest c e) + length hs + length acks))%nat
             with (1 + (1 + (length (tr_resume_pre digest c e) + (length hs + length acks))))%nat by lia.
           apply (entry_blocked c d e sc ess st names L ln st1 hs acks Hj Hsub Hd E0 E1 Hts Er).
      * exfalso. pose proof (tr_create_indep c d (tr_payload c e) [] (te_data e) st) as Hi. rewrite E1 in Hi. cbn [fst] in Hi.
        destruct (tr_create c d (tr_payload c e) (te_data e) st) as [[l2|] st2]; discriminate.
  - cbv zeta. rewrite between_cons. cbn [plus].
    rewrite (run_S _ _ _ _ _ (step_recv' _ _ _ _ _ _ _ _)), rcv_name. unfold tr_r_name. cbn [rs_st]. rewrite E1.
    unfold tr_r_fail. cbn [fst snd app rs_st rs_names rs_phase rs_left rs_sched rs_open].
    rewrite (run_one _ _ _ _ (step_send' _ _ _ _ _ _ _)). cbn [tr_sender ss_phase fst snd]. repeat split.
Qed.

Lemma spec_none_split c d : forall (ess : list (tr_entry * tr_sched)) st names, spec c d ess st names = None ->
  exists pre e sc post per all st1, ess = pre ++ (e, sc) :: post /\
    spec c d pre st names = Some (per, all, st1) /\ spec_entry c d e sc st1 = None.
Proof.
  induction ess as [|[e sc] ess IH]; intros st names Hs; [discriminate|].
  cbn [tr_spec] in Hs. destruct (spec_entry c d e sc st) as [[ln st1]|] eqn:Ee.
  - destruct (spec c d ess st1 (tr_add_name names ln)) as [[[per' all'] stf']|] eqn:Er; [discriminate|].
    destruct (IH _ _ Er) as (pre & e2 & sc2 & post & per & all & st2 & -> & Hp & He).
    exists ((e, sc) :: pre), e2, sc2, post, (ln :: per), all, st2. split; [reflexivity|]. split; [|exact He].
    cbn [tr_spec]. rewrite Ee, Hp. reflexivity.
  - exists [], e, sc, ess, [], names, st. repeat split. exact Ee.
Qed.

Lemma fuel_fail c d : forall pre e sc post st names per all st1,
  spec c d pre st names = Some (per, all, st1) -> spec_entry c d e sc st1 = None ->
  fuel_go c d (pre ++ (e, sc) :: post) st = (esteps c d pre st + tr_entry_steps digest zcomp hx ahdr c d e sc st1)%nat.
Proof.
  induction pre as [|[e0 sc0] pre IH]; intros e sc post st names per all st1 Hp He.
  - cbn in Hp. inversion Hp; subst. cbn [app tr_fuel_go esteps]. rewrite He. lia.
  - cbn [tr_spec] in Hp. cbn [app tr_fuel_go esteps]. destruct (spec_entry c d e0 sc0 st) as [[ln st2]|]; [|discriminate].
    destruct (spec c d pre st2 (tr_add_name names ln)) as [[[per' all'] stf']|] eqn:Er; [|discriminate].
    inversion Hp; subst. rewrite (IH e sc post st2 _ _ _ _ Er He). lia.
Qed.

Theorem run_incomplete c d ess f0 : table_ok c ->
  Forall (fun es => item_ok c (fst es)) ess ->
  Forall (fun es => te_isdir (fst es) = true -> tr_json c = true) ess ->
  spec c d ess (init_state f0) [] = None ->
  forall fuel, (fuel_items c d ess f0 <= fuel)%nat ->
  tr_sender_ok digest (run_items fuel c d ess f0) = false /\
  tr_receiver_ok digest (run_items fuel c d ess f0) = false.
Proof.
  intros Ht Hb Hdj Hs fuel Hf.
  destruct (spec_none_split c d ess _ _ Hs) as (pre & e & sc & post & per & all & st1 & -> & Hp & He).
  apply Forall_app in Hb as [Hb1 Hb2]. inversion Hb2 as [|? ? Hbe _]; subst. cbn [fst] in Hbe.
  apply Forall_app in Hdj as [_ Hdj]. inversion Hdj as [|? ? Hdj1 _]; subst. cbn [fst] in Hdj1.
  unfold tr_fuel_items in Hf. rewrite (fuel_fail c d pre e sc post _ _ _ _ _ Hp He) in Hf.
  unfold tr_run_items.
  set (n1 := esteps c d pre (init_state f0)) in *. set (n2 := tr_entry_steps digest zcomp hx ahdr c d e sc st1) in *.
  replace fuel with (2 + (n1 + (n2 + (fuel - 2 - n1 - n2))))%nat by lia.
  rewrite run_add, init_two_steps, run_add, (run_entries_prefix c d ((e, sc) :: post) Ht pre _ _ _ per all st1 Hb1 Hp), run_add.
  match goal with |- context [between c ((e, sc) :: post) st1 all ?L] =>
    destruct (entry_fail c d e sc post st1 all L Hbe Hdj1 He) as (A & B & C) end.
  fold n2 in A, B, C. rewrite run_stuck by exact A. split; assumption.
Qed.

(* ---------- the shape of the transcript ---------- *)
Definition tg (l : list (bool * msg)) : list tr_tag := map (fun dm => tr_tag_of digest (snd dm)) l.

Lemma tg_app a b : tg (a ++ b) = tg a ++ tg b.
Proof. apply map_app. Qed.

Lemma acc_app pipe : forall l1 q l2, tr_accepts_from pipe q (l1 ++ l2) =
  match tr_accepts_from pipe q l1 with Some q' => tr_accepts_from pipe q' l2 | None => None end.
Proof.
  induction l1 as [|t l1 IH]; intros q l2; [reflexivity|]. cbn [app tr_accepts_from].
  destruct (tr_delta pipe q t); [apply IH | reflexivity].
Qed.

Definition between_q (q : tr_q) : Prop := q = Q2 \/ q = Q4.

Lemma tag_reply c ln sz : tr_tag_of digest (name_reply c ln sz) = TgSucc.
Proof. unfold name_reply. destruct (tr_json_names c); reflexivity. Qed.

Lemma tg_frames dir : forall fs : list (list byte), all_nonempty fs = true ->
  tg (tag_out dir (map (TrData digest) fs)) = map (fun _ => TgData) fs.
Proof.
  induction fs as [|f fs IH]; intro Hne; [reflexivity|].
  cbn [all_nonempty forallb] in Hne. apply andb_true_iff in Hne as [Hf Hr]. destruct (nonempty_cons f Hf) as (x & fr & ->).
  cbn [map tr_tag_out tg snd tr_tag_of]. f_equal. apply (IH Hr).
Qed.

Lemma tg_acks : forall (fs : list (list byte)) steps, tg (tag_out false (fst (acks_go fs steps))) = map (fun _ => TgAck) fs.
Proof.
  induction fs as [|f fs IH]; intro steps; [reflexivity|].
  cbn [acks_go]. specialize (IH (tl steps)). destruct (acks_go fs (tl steps)) as [a s']. cbn [fst] in *.
  cbn [map tr_tag_out tg snd tr_tag_of]. f_equal. exact IH.
Qed.

Lemma tg_ints (l : list N) : tg (tag_out false (map (TrSuccInt digest) l)) = map (fun _ => TgSucc) l.
Proof. induction l as [|x l IH]; [reflexivity|]. cbn [map tr_tag_out tg snd tr_tag_of]. f_equal. exact IH. Qed.

Lemma acc_datas {A} : forall (l : list A) q rest, q = Q6 \/ q = Q7 ->
  tr_accepts_from true q (map (fun _ => TgData) l ++ TgFinish :: rest) = tr_accepts_from true Q8 rest.
Proof.
  induction l as [|x l IH]; intros q rest Hq; cbn [map app tr_accepts_from].
  - destruct Hq as [-> | ->]; reflexivity.
  - assert (Hd : tr_delta true q TgData = Some Q7) by (destruct Hq as [-> | ->]; reflexivity).
    rewrite Hd. apply IH. right; reflexivity.
Qed.

Lemma acc_ackl {A} : forall (l : list A) rest,
  tr_accepts_from true Q8 (map (fun _ => TgAck) l ++ rest) = tr_accepts_from true Q8 rest.
Proof. induction l as [|x l IH]; intro rest; [reflexivity|]. cbn [map app tr_accepts_from tr_delta]. apply IH. Qed.

Lemma acc_succs {A} : forall (l : list A) q rest, q = Q8 \/ q = Q9 ->
  tr_accepts_from true q (map (fun _ => TgSucc) l ++ TgSucc :: rest) = tr_accepts_from true Q9 rest.
Proof.
  induction l as [|x l IH]; intros q rest Hq; cbn [map app tr_accepts_from].
  - destruct Hq as [-> | ->]; reflexivity.
  - assert (Hd : tr_delta true q TgSucc = Some Q9) by (destruct Hq as [-> | ->]; reflexivity).
    rewrite Hd. apply IH. right; reflexivity.
Qed.

Lemma acc_dir c e ln q rest : between_q q ->
  tr_accepts_from (tr_pipeline c) q (tg (dir_log c e ln) ++ rest) = tr_accepts_from (tr_pipeline c) Q4 rest.
Proof.
  intro Hq. unfold dir_log. cbn [tg map snd tr_tag_of app tr_accepts_from]. rewrite tag_reply.
  destruct Hq as [-> | ->]; reflexivity.
Qed.

(* the data of a file: echo, [COMP], frames, finish flag, acks, final acks, MD5 - then the digest reply *)
Lemma tg_tail c e sc : tg (tail_log c e sc) =
  [TgSucc] ++ tg (tag_out true (snd (compress c e sc)))
  ++ map (fun _ => TgData) (frames c e sc) ++ [TgFinish]
  ++ map (fun _ => TgAck) (frames c e sc) ++ [TgAck]
  ++ map (fun _ => TgSucc) (prefinal_of e sc) ++ [TgSucc] ++ [TgMd5].
Proof.
  unfold tail_log. cbv zeta. rewrite !tg_app, !tag_out_app, !tg_app.
  rewrite (tg_frames true (frames c e sc) (frames_nonempty _ _ _)), tg_acks, tg_ints.
  cbn [tg map snd tr_tag_of tr_tag_out]. unfold finish_ack. cbn [tr_tag_of].
  repeat rewrite <- app_assoc. reflexivity.
Qed.

Lemma acc_tail c e sc rest :
  tr_accepts_from true Q5 (tg (tail_log c e sc) ++ TgSucc :: rest) = tr_accepts_from true Q2 rest.
Proof.
  rewrite tg_tail. repeat rewrite <- app_assoc. cbn [app tr_accepts_from tr_delta].
  assert (Hc : exists q', (q' = Q6 \/ q' = Q7) /\ forall r,
     tr_accepts_from true Q6 (tg (tag_out true (snd (compress c e sc))) ++ r) = tr_accepts_from true q' r).
  { unfold tr_compress. destruct (tr_is_compress_fixed c (te_size e)) as [[|] cp]; cbn [snd].
    - exists Q6. split; [left; reflexivity | reflexivity].
    - exists Q7. split; [right; reflexivity | reflexivity]. }
  destruct Hc as (q' & Hq' & Hc). rewrite Hc, (acc_datas _ _ _ Hq'), acc_ackl.
  cbn [tr_accepts_from tr_delta]. rewrite acc_succs by (left; reflexivity). reflexivity.
Qed.

Lemma acc_file_v2 c e sc ln q rest : tr_pipeline c = true -> between_q q ->
  tr_accepts_from (tr_pipeline c) q (tg (file_log_v2 c e sc ln) ++ rest) = tr_accepts_from (tr_pipeline c) Q2 rest.
Proof.
  intros Hp Hq. rewrite Hp. unfold file_log_v2. rewrite !tg_app. repeat rewrite <- app_assoc.
  cbn [tg map snd tr_tag_of app tr_accepts_from]. rewrite tag_reply.
  assert (H1 : tr_delta true q TgName = Some Q3) by (destruct Hq as [-> | ->]; reflexivity).
  rewrite H1. cbn [tr_delta]. fold (tg (tail_log c e sc)). apply acc_tail.
Qed.

Lemma acc_arch c e sc ln f q rest : tr_pipeline c = true -> between_q q ->
  tr_accepts_from (tr_pipeline c) q (tg (arch_log c e sc ln f) ++ rest) = tr_accepts_from (tr_pipeline c) Q2 rest.
Proof.
  intros Hp Hq. rewrite Hp. unfold arch_log. rewrite !tg_app. repeat rewrite <- app_assoc.
  cbn [tg map snd tr_tag_of app tr_accepts_from]. rewrite tag_reply.
  assert (H1 : tr_delta true q TgName = Some Q3) by (destruct Hq as [-> | ->]; reflexivity).
  rewrite H1. cbn [tr_delta]. fold (tg (tail_log c f sc)). apply acc_tail.
Qed.

(* the resume exchange: [SIZE] HASH* Over hash-ack* *)
Lemma tg_hashes : forall hl : list Resume.hmsg, (forall m, In m hl -> m <> Resume.Over) ->
  tg (tag_out true (map hmsg_of hl)) = map (fun _ => TgHash) hl.
Proof.
  induction hl as [|m hl IH]; intro Hall; [reflexivity|]. cbn [map tr_tag_out tg snd].
  destruct m as [s h|]; [|exfalso; apply (Hall Resume.Over); [left; reflexivity | reflexivity]].
  cbn [tr_hmsg tr_tag_of]. f_equal. apply IH. intros m Hm. apply Hall. right. exact Hm.
Qed.

Lemma tg_hacks : forall acks : list Resume.ack, tg (tag_out false (map hack_of acks)) = map (fun _ => TgHack) acks.
Proof. induction acks as [|a acks IH]; [reflexivity|]. cbn [map tr_tag_out tg snd tr_hack tr_tag_of]. f_equal. exact IH. Qed.

Lemma acc_hashes {A} : forall (l : list A) q rest, q = Q4 \/ q = Q5 \/ q = QH ->
  tr_accepts_from true q (map (fun _ => TgHash) l ++ TgOver :: rest) = tr_accepts_from true QO rest.
Proof.
  induction l as [|x l IH]; intros q rest Hq; cbn [map app tr_accepts_from].
  - destruct Hq as [-> | [-> | ->]]; reflexivity.
  - assert (Hd : tr_delta true q TgHash = Some QH) by (destruct Hq as [-> | [-> | ->]]; reflexivity).
    rewrite Hd. apply IH. right; right; reflexivity.
Qed.

Lemma acc_hacks {A} : forall (l : list A) rest,
  tr_accepts_from true QO (map (fun _ => TgHack) l ++ rest) = tr_accepts_from true QO rest.
Proof. induction l as [|x l IH]; intro rest; [reflexivity|]. cbn [map app tr_accepts_from tr_delta]. apply IH. Qed.

Lemma acc_resume c e sc ln tsize o hl q rest : tr_pipeline c = true -> between_q q ->
  Resume.o_hashes o = hl ++ [Resume.Over] -> (forall m, In m hl -> m <> Resume.Over) ->
  tr_accepts_from (tr_pipeline c) q (tg (resume_log c e sc ln tsize o) ++ rest) = tr_accepts_from (tr_pipeline c) Q2 rest.
Proof.
  intros Hp Hq Eh Hall. rewrite Hp. unfold resume_log. cbv zeta. rewrite Eh, map_app, !tag_out_app, !tg_app.
  rewrite (tg_hashes hl Hall), tg_hacks. repeat rewrite <- app_assoc.
  cbn [tg map snd tr_tag_of tr_tag_out tr_hmsg app tr_accepts_from]. rewrite tag_reply.
  assert (H1 : tr_delta true q TgName = Some Q3) by (destruct Hq as [-> | ->]; reflexivity).
  rewrite H1. cbn [tr_delta].
  assert (Hpre : exists qa, (qa = Q4 \/ qa = Q5 \/ qa = QH) /\ forall r,
     tr_accepts_from true Q4 (map (fun dm => tr_tag_of digest (snd dm)) (map (fun m : msg => (true, m)) (tr_resume_pre digest c e)) ++ r) =
     tr_accepts_from true qa r).
  { unfold tr_resume_pre. destruct (tc_proto c <? Consts.tr_proto_resume_nosize).
    - exists Q5. split; [right; left; reflexivity | reflexivity].
    - exists Q4. split; [left; reflexivity | reflexivity]. }
  destruct Hpre as (qa & Hqa & Hpre). rewrite Hpre, (acc_hashes _ _ _ Hqa), acc_hacks.
  cbn [tr_accepts_from tr_delta]. fold (tg (tail_log c (tr_rem_entry e (Resume.o_msend o)) sc)). apply acc_tail.
Qed.

(* legacy exchange: DATA SUCC DATA SUCC ... MD5 *)
Lemma tag_data_any f : tr_tag_of digest (TrData digest f) = TgData \/ tr_tag_of digest (TrData digest f) = TgFinish.
Proof. destruct f; [right | left]; reflexivity. Qed.

Lemma acc_v1_log c e : forall chs ch rest,
  tr_accepts_from false Q11 (tg (v1_log c e ch chs) ++ rest) = tr_accepts_from false Q10 rest.
Proof.
  induction chs as [|ch2 chs IH]; intros ch rest; cbn [v1_log tg map snd app tr_tag_of tr_accepts_from tr_delta]; [reflexivity|].
  destruct (tr_v1_payload zl c ch2); apply IH.
Qed.

Lemma acc_file_v1 c e sc ln q rest : tr_pipeline c = false -> between_q q ->
  tr_accepts_from (tr_pipeline c) q (tg (file_log_v1 c e sc ln) ++ rest) = tr_accepts_from (tr_pipeline c) Q2 rest.
Proof.
  intros Hp Hq. rewrite Hp. unfold file_log_v1. rewrite !tg_app. repeat rewrite <- app_assoc.
  cbn [tg map snd tr_tag_of app tr_accepts_from]. rewrite tag_reply.
  assert (H1 : tr_delta false q TgName = Some Q3) by (destruct Hq as [-> | ->]; reflexivity).
  rewrite H1. cbn [tr_delta]. unfold v1_data_log. destruct (tr_v1_chunks e sc) as [|ch chs].
  - reflexivity.
  - cbn [map snd app tr_accepts_from tr_tag_of].
    destruct (tr_v1_payload zl c ch); cbn [tr_delta]; apply acc_v1_log.
Qed.

Lemma acc_entry c d e sc st ln q rest : between_q q ->
  exists q', between_q q' /\
    tr_accepts_from (tr_pipeline c) q (tg (entry_log c d e sc st ln) ++ rest) = tr_accepts_from (tr_pipeline c) q' rest.
Proof.
  intro Hq. unfold entry_log.
  assert (Hsame : exists q', between_q q' /\ tr_accepts_from (tr_pipeline c) q (tg [] ++ rest) = tr_accepts_from (tr_pipeline c) q' rest)
    by (exists q; split; [exact Hq | reflexivity]).
  destruct (tr_create c d (tr_payload c e) [] st) as [[l1|] st1]; [|exact Hsame].
  destruct (tr_json_names c && tr_has_subs e) eqn:Hsub.
  - apply andb_true_iff in Hsub as [Hj _]. pose proof (pipeline_of_json_names c Hj) as Hp.
    destruct (tr_arch_entry ahdr e sc) as [f|]; [|exact Hsame].
    exists Q2. split; [left; reflexivity|]. apply (acc_arch c e sc ln f q rest Hp Hq).
  - destruct (te_isdir e).
    + exists Q4. split; [right; reflexivity|]. apply (acc_dir c e ln q rest Hq).
    + destruct (tr_json_names c && (0 <? tr_target_size d ln (tr_payload c e) st1)) eqn:E2.
      * apply andb_true_iff in E2 as [Hj Hts]. pose proof (pipeline_of_json_names c Hj) as Hp.
        destruct (target_size_pos d ln (tr_payload c e) st1 Hts) as [Hold _].
        destruct (tr_resume_run hx c e sc (tr_old_content st1 (tr_leaf d ln (tr_payload c e)))) as [o| | | |] eqn:Er; try exact Hsame.
        destruct (resume_run_inv hx c e sc _ o Hj Hold Er) as (hs & rst & ms & Hsend & _ & _ & Ho).
        destruct (send_hashes_shape B hx _ _ _ _ _ _ _ Hsend) as (hl & Ehs & Hall).
        exists Q2. split; [left; reflexivity|].
        apply (acc_resume c e sc ln _ o hl q rest Hp Hq); [rewrite Ho; cbn [Resume.o_hashes]; exact Ehs | exact Hall].
      * destruct (tr_pipeline c) eqn:Hp.
        -- exists Q2. split; [left; reflexivity|]. pose proof (acc_file_v2 c e sc ln q rest Hp Hq) as Hx. rewrite Hp in Hx. exact Hx.
        -- exists Q2. split; [left; reflexivity|]. pose proof (acc_file_v1 c e sc ln q rest Hp Hq) as Hx. rewrite Hp in Hx. exact Hx.
Qed.

Lemma acc_all c d : forall ess st per q rest, between_q q ->
  exists q', between_q q' /\
    tr_accepts_from (tr_pipeline c) q (tg (all_log c d ess st per) ++ rest) = tr_accepts_from (tr_pipeline c) q' rest.
Proof.
  induction ess as [|[e sc] ess IH]; intros st per q rest Hq; [exists q; split; [exact Hq | reflexivity]|].
  destruct per as [|ln per]; [exists q; split; [exact Hq | reflexivity]|].
  cbn [all_log]. rewrite tg_app, <- app_assoc.
  destruct (acc_entry c d e sc st ln q (tg (match spec_entry c d e sc st with Some (_, st') => all_log c d ess st' per | None => [] end) ++ rest) Hq)
    as (q1 & Hq1 & ->).
  destruct (spec_entry c d e sc st) as [[l1 st1]|]; [apply IH, Hq1 | exists q1; split; [exact Hq1 | reflexivity]].
Qed.

Theorem shape_ok c d ess f0 per all : tr_shape_ok digest (tr_pipeline c) (full_log c d ess f0 per all) = true.
Proof.
  unfold tr_shape_ok, full_log. fold (tg ([(true, TrNum digest (N.of_nat (length ess))); (false, TrSuccInt digest (N.of_nat (length ess)))]
    ++ all_log c d ess (init_state f0) per ++ [(tc_upload c, TrExit digest all)])).
  rewrite tg_app. cbn [tg map snd tr_tag_of app tr_accepts_from tr_delta]. fold (tg (all_log c d ess (init_state f0) per ++ [(tc_upload c, TrExit digest all)])).
  rewrite tg_app. destruct (acc_all c d ess (init_state f0) per Q2 (tg [(tc_upload c, TrExit digest all)]) (or_introl eq_refl)) as (q' & Hq' & ->).
  destruct Hq' as [-> | ->]; reflexivity.
Qed.

(* ---------- the composed statements ---------- *)
Lemma nodup_fold_add per : forall names, NoDup names -> NoDup (fold_left tr_add_name per names).
Proof. induction per as [|n per IH]; intros names Hn; [exact Hn|]. cbn [fold_left]. apply IH, nodup_add_name, Hn. Qed.

Lemma items_ok c items : tr_bytes_ok items -> tr_wf c (map fst items) -> tr_hdrs_ok ahdr aparse (map fst items) ->
  Forall (fun es => item_ok c (fst es)) items.
Proof.
  intros Hb (_ & _ & Hw & _) Hh. unfold tr_bytes_ok in Hb. rewrite Forall_forall in Hb. apply Forall_forall. intros [e sc] Hin. cbn [fst].
  assert (He : In e (map fst items)) by (apply in_map_iff; exists (e, sc); auto).
  split; [apply (Hb (e, sc) Hin)|]. split; [apply Hw, He | intros s Hs; apply (Hh e s He Hs)].
Qed.

Notation safe := (tr_resume_safe hx ahdr aparse).

Theorem transfer_ok c d items f0 per all stf : table_ok c -> tr_bytes_ok items ->
  stat f0 d = SFound Dir -> tr_wf c (map fst items) -> tr_hdrs_ok ahdr aparse (map fst items) ->
  safe c d items (init_state f0) ->
  spec c d items (init_state f0) [] = Some (per, all, stf) ->
  forall fuel, (fuel_items c d items f0 <= fuel)%nat ->
  tr_outcome_ok c d f0 items (run_items fuel c d items f0).
Proof.
  intros Ht Hb Hd Hwf Hh Hsafe Hs fuel Hf.
  rewrite (run_complete c d items f0 per all stf Ht (items_ok c items Hb Hwf Hh) Hs fuel Hf).
  destruct (spec_tree hx ahdr aparse c d f0 items per all stf Hd Hwf Hh Hsafe Hs) as (A1 & A2 & A3 & A4 & A5 & A6).
  unfold tr_outcome_ok, final_conf. cbn [tr_sender_ok tr_receiver_ok tr_quiet cf_s cf_r cf_s2r cf_r2s cf_log ss_phase rs_phase ss_names rs_names rs_st].
  repeat (split; [reflexivity|]). exists per, all. repeat (split; [reflexivity|]).
  split; [|split; [unfold full_log; eexists; rewrite app_assoc; reflexivity | apply shape_ok]].
  unfold tr_tree_at. split; [rewrite map_length; exact A1|]. split.
  { intro ln. rewrite A2, in_fold_add. cbn. tauto. }
  split; [rewrite A2; apply nodup_fold_add; constructor|]. auto.
Qed.

Lemma quiet_stuck c d (cf : conf) : tr_quiet digest cf = true -> stepc c d cf = None.
Proof. unfold tr_quiet, tr_step. destruct (cf_s2r digest cf); [|discriminate]. destruct (cf_r2s digest cf); [reflexivity | discriminate]. Qed.

Theorem success_implies_ok c d items f0 : table_ok c -> tr_bytes_ok items ->
  Forall (fun es => te_isdir (fst es) = true -> tr_json c = true) items ->
  stat f0 d = SFound Dir -> tr_wf c (map fst items) -> tr_hdrs_ok ahdr aparse (map fst items) ->
  safe c d items (init_state f0) ->
  forall fuel, (fuel_items c d items f0 <= fuel)%nat \/ tr_quiet digest (run_items fuel c d items f0) = true ->
  tr_sender_ok digest (run_items fuel c d items f0) = true \/
  tr_receiver_ok digest (run_items fuel c d items f0) = true ->
  tr_outcome_ok c d f0 items (run_items fuel c d items f0).
Proof.
  intros Ht Hb Hdj Hd Hwf Hh Hsafe fuel Hf Hok.
  (* at rest, more fuel changes nothing: reduce to the case of enough fuel *)
  assert (Hrun : exists fuel', (fuel_items c d items f0 <= fuel')%nat /\ run_items fuel' c d items f0 = run_items fuel c d items f0).
  { destruct Hf as [Hf|Hq]; [exists fuel; split; [exact Hf | reflexivity]|].
    exists (fuel + fuel_items c d items f0)%nat. split; [lia|]. unfold tr_run_items. rewrite run_add.
    apply run_stuck, quiet_stuck, Hq. }
  destruct Hrun as (fuel' & Hf' & Heq). rewrite <- Heq in Hok |- *. clear Heq.
  destruct (spec c d items (init_state f0) []) as [[[per all] stf]|] eqn:Hs.
  - apply (transfer_ok c d items f0 per all stf Ht Hb Hd Hwf Hh Hsafe Hs fuel' Hf').
  - destruct (run_incomplete c d items f0 Ht (items_ok c items Hb Hwf Hh) Hdj Hs fuel' Hf') as [A B]. rewrite A, B in Hok. destruct Hok; discriminate.
Qed.

(* the same with the acceptance premise replaced by a condition on the inputs; then also: the names
   are the names as sent, and nothing but the entries' own places (an archive: what is below its name)
   has changed at the destination *)
Theorem transfer_ready c d items f0 : table_ok c -> tr_bytes_ok items ->
  stat f0 d = SFound Dir -> Forall tr_comp_ok d -> tr_ready hx c d f0 items -> tr_hdrs_ok ahdr aparse (map fst items) ->
  forall fuel, (fuel_items c d items f0 <= fuel)%nat ->
  let cf := run_items fuel c d items f0 in
  tr_outcome_ok c d f0 items cf /\
  ss_names (cf_s digest cf) = fold_left tr_add_name (map (tr_key c) (map fst items)) [] /\
  (forall q, q <> [] ->
     (forall e, In e (map fst items) -> q <> tr_leaf_of c d e /\ (te_subs e <> [] -> is_prefix (tr_leaf_of c d e) q = false)) ->
     lookup (st_fs (rs_st (cf_r digest cf))) q = lookup f0 q).
Proof.
  intros Ht Hb Hd Hdc Hr Hh fuel Hf. cbv zeta.
  destruct (ready_accepts hx ahdr aparse c d Hdc f0 items Hd Hr Hh) as (all & stf & Hs & Hsafe & Hfr).
  pose proof (ready_wf hx c d f0 items Hr) as Hwf.
  split; [apply (transfer_ok c d items f0 _ all stf Ht Hb Hd Hwf Hh Hsafe Hs fuel Hf)|].
  rewrite (run_complete c d items f0 _ all stf Ht (items_ok c items Hb Hwf Hh) Hs fuel Hf). cbn [final_conf cf_s cf_r ss_names rs_st].
  destruct (spec_tree hx ahdr aparse c d f0 items _ all stf Hd Hwf Hh Hsafe Hs) as (_ & A & _). split; [exact A | exact Hfr].
Qed.

End TransferProofs.

(* ---------- the premises are satisfiable ---------- *)
(* an injective coding of arbitrary number lists into byte lists (unary, 0-terminated), as a
   stand-in for a compressor: it meets both codec hypotheses *)
Definition wit_enc (l : list N) : list byte := flat_map (fun x => repeat 1 (N.to_nat x) ++ [0]) l.
Fixpoint wit_dec (acc : N) (l : list byte) : list N :=
  match l with
  | [] => []
  | b :: r => if b =? 0 then acc :: wit_dec 0 r else wit_dec (acc + 1) r
  end.

Lemma wit_dec_ones n : forall acc rest, wit_dec acc (repeat 1 n ++ 0 :: rest) = (acc + N.of_nat n) :: wit_dec 0 rest.
Proof.
  induction n as [|n IH]; intros acc rest.
  - cbn. rewrite N.add_0_r. reflexivity.
  - cbn [repeat app wit_dec]. change (1 =? 0) with false. cbv iota. rewrite IH. f_equal. lia.
Qed.

Lemma wit_roundtrip l : wit_dec 0 (wit_enc l) = l.
Proof.
  induction l as [|x l IH]; [reflexivity|]. cbn [wit_enc flat_map]. rewrite <- app_assoc. cbn [app].
  rewrite wit_dec_ones. fold (wit_enc l). rewrite IH, N.add_0_l, N2Nat.id. reflexivity.
Qed.

Lemma wit_bytes l : bytes_ok (wit_enc l) = true.
Proof.
  unfold bytes_ok. apply forallb_forall. intros b Hb. unfold wit_enc in Hb. apply in_flat_map in Hb as (x & _ & Hb).
  apply in_app_or in Hb as [Hb|[<-|[]]]; [apply repeat_spec in Hb; subst|]; reflexivity.
Qed.

Definition wit_zcomp (cs : list (list byte)) : list (list byte) := [wit_enc (concat cs)].
Definition wit_zdecomp (z : list byte) : option (list byte) := Some (wit_dec 0 z).
Definition wit_zl (d : list byte) : list byte := wit_enc d.
Definition wit_unzl (z : list byte) : option (list byte) := Some (wit_dec 0 z).

Lemma wit_codec_ok :
  (forall cs, wit_zdecomp (concat (wit_zcomp cs)) = Some (concat cs)) /\
  (forall cs, bytes_ok (concat (wit_zcomp cs)) = true) /\
  (forall d, wit_unzl (wit_zl d) = Some d) /\ (forall d, bytes_ok (wit_zl d) = true).
Proof.
  unfold wit_zdecomp, wit_zcomp, wit_unzl, wit_zl. cbn [concat]. repeat split; intros; rewrite ?app_nil_r.
  - rewrite wit_roundtrip. reflexivity.
  - apply wit_bytes.
  - rewrite wit_roundtrip. reflexivity.
  - apply wit_bytes.
Qed.

(* ---------- after the negotiation of C14 both ends run with one configuration ---------- *)
From Trzsz Require Import Model.RelayNeg Proofs.RelayNeg.

Lemma ends_agree_cfg so cc upload : ends_agree so cc -> tr_cfg_of so upload = tr_cfg_of cc upload.
Proof.
  unfold ends_agree, tr_cfg_of. intros (A & B & C & _ & E & _ & G & I & _). rewrite A, B, C, E, G, I. reflexivity.
Qed.

Theorem negotiated_same_cfg g win es wa so cc upload : es = [] \/ same_win win es ->
  negotiate g win es wa = OutAgreed so cc -> tr_cfg_of so upload = tr_cfg_of cc upload.
Proof.
  intros Hes Hn. apply ends_agree_cfg. destruct es as [|e es].
  - apply (ends_agree_direct _ _ _ _ _ Hn).
  - destruct Hes as [Hes|Hw]; [discriminate|]. apply (ends_agree_through_relays g win (e :: es) wa so cc); [discriminate | exact Hw | exact Hn].
Qed.
