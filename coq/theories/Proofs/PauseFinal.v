(* C18: the phases after the last DATA frame (abstract machines [ustep], [vstep] of Model/PauseDown.v). *)
From Trzsz Require Import Base.Bytes Gen.Consts Model.Pause Model.PauseDown Proofs.PauseComp.
From Coq Require Import Lia.
Local Open Scope nat_scope.

(* ================= (f) download, final-ack loop: no bound on the pause length ================= *)

Section DownFinalProofs.
Variables T' SL GL FP : nat.
Let T := S T'.
Let cf := mkCfg T SL GL true.
Hypothesis HGL : 1 <= GL.
Hypothesis HFP : 1 <= FP.
Hypothesis HGT : GL < T.
Hypothesis HFT : FP < T.

Definition final_in (q : list wline) : Prop := exists k, k <> 0 /\ In (WLData k) q.

Record VInv (v : vst) : Prop := mkVInv {
  v_bad : vBad v = false;
  v_rd : forall t, vPF v = RRead t ->
           vPFq v = [] /\ 1 <= t <= T /\ vPfin v = false /\
           match vK v with
           | K2Sleep j => T + j <= GL + t
           | K2Wait j => T + j <= FP + t
           | K2Done => False
           | _ => True
           end;
  v_k : match vK v with K2Sleep j => 1 <= j <= GL | K2Wait j => 1 <= j <= FP | _ => True end;
  v_done : vK v = K2Done -> vPfin v = true \/ final_in (vPFq v) }.

Ltac vflds := cbn [vPausing vK vSaved vPF vPFq vPfin vBad] in *.
Ltac vopen v H := destruct v as [pa k sv pf pq fin bad]; destruct H as [Hbad Hrd Hk Hdone]; vflds.
Ltac vunf := repeat (progress unfold v_setPF, v_setK, v_arrive, v_pfcall, v_gate in * ); change (cT cf) with T in *; change (cGL cf) with GL in *.

Lemma first_data_none_no_final : forall q, first_data q = None -> ~ final_in q.
Proof.
  induction q as [|[|k] q IH]; cbn; intros H (k0 & Hk & Hin); try discriminate.
  - destruct Hin.
  - destruct Hin as [Hin|Hin]; [discriminate|]. apply (IH H). exists k0. auto.
Qed.

Lemma first_data_some_final : forall q k q', first_data q = Some (k, q') -> final_in q -> is_final k = true \/ final_in q'.
Proof.
  induction q as [|[|k0] q IH]; cbn; intros k q' H (k1 & Hk & Hin); try discriminate.
  - destruct Hin as [Hin|Hin]; [discriminate|]. apply IH; [exact H|]. exists k1. auto.
  - inversion H; subst. destruct Hin as [Hin|Hin].
    + inversion Hin; subst. left. destruct k1; [congruence|reflexivity].
    + right. exists k1. auto.
Qed.

Lemma final_in_app : forall q l, final_in q -> final_in (q ++ [l]).
Proof. intros q l (k & Hk & Hin). exists k. split; [exact Hk|]. apply in_or_app. auto. Qed.

Lemma vinv_init : VInv vinit.
Proof. unfold vinit. constructor; vflds; auto; intros; discriminate. Qed.

Lemma vstep_inv : forall x v v', VInv v -> vstep cf FP v x = Some v' -> VInv v'.
Proof.
  intros x v v' H Hs. vopen v H. destruct x; unfold vstep in Hs; vflds.
  - (* tick *)
    destruct (v_quiescent _) eqn:Hq; [|discriminate]. inversion Hs; subst; clear Hs.
    unfold v_quiescent in Hq; vflds. apply Bool.andb_true_iff in Hq. destruct Hq as (Hq1 & Hq2).
    unfold v_tickK, v_tickPF; vflds.
    destruct pf as [|t].
    + (* the peer's reader is not blocked *)
      destruct k as [|[|[|j]]| |[|[|j]]|]; try discriminate; vunf; vflds;
        try (destruct pa); vflds; constructor; vflds; auto; try (intros; discriminate); try lia;
        try (intros E; specialize (Hdone E); destruct Hdone; [auto|right; apply final_in_app; auto]).
    + destruct (Hrd t eq_refl) as (Hpq & Ht & Hfin & Hkk). subst pq fin.
      destruct k as [|j| |j|]; try discriminate; try contradiction.
      * (* asleep in the gate *)
        destruct t as [|[|t]]; [lia|lia|].
        destruct j as [|[|j]]; [lia| |]; vunf; vflds; try (destruct pa); vflds; constructor; vflds; auto;
          try (intros; discriminate); try lia;
          try (intros t0 E; inversion E; subst; repeat split; auto; unfold T in *; lia).
      * (* in the poll wait *)
        destruct t as [|[|t]]; [lia|lia|].
        destruct j as [|[|j]]; [lia| |]; vunf; vflds; constructor; vflds; auto;
          try (intros; discriminate); try lia;
          try (intros t0 E; inversion E; subst; repeat split; auto; unfold T in *; lia).
  - (* pause *)
    inversion Hs; subst; clear Hs. constructor; vflds; auto.
  - (* resume *)
    inversion Hs; subst; clear Hs. constructor; vflds; auto.
  - (* the gate is called *)
    destruct k; try discriminate. inversion Hs; subst; clear Hs. vunf; vflds.
    destruct pa; [destruct pf as [|t]|]; vflds; constructor; vflds; auto; try (intros; discriminate); try lia.
    + intros t0 E. inversion E; subst. destruct (Hrd t eq_refl) as (Hpq & Ht & Hfin & _). repeat split; auto; unfold T in *; lia.
  - (* "#SUCC:step" is written *)
    destruct k; try discriminate. destruct sv; inversion Hs; subst; clear Hs; vunf; vflds.
    + destruct pf as [|t]; vflds; constructor; vflds; auto; try (intros; discriminate).
      * intros _. right. exists 1. split; [discriminate|]. apply in_or_app. right. left. reflexivity.
      * intros _. left. apply Bool.orb_true_r.
    + destruct pf as [|t]; vflds; constructor; vflds; auto; try (intros; discriminate); lia.
  - (* the disk has everything: ackImmediately *)
    destruct sv; [discriminate|]. inversion Hs; subst; clear Hs.
    constructor; vflds; auto.
    + intros t E. destruct (Hrd t E) as (Hpq & Ht & Hfin & Hkk). repeat split; auto; try lia. destruct k; auto.
    + destruct k; auto.
    + intros E. apply Hdone. destruct k; try discriminate; auto.
  - (* the peer's reader is called *)
    destruct pf; try discriminate. destruct fin; [discriminate|]. inversion Hs; subst; clear Hs. vunf; vflds.
    destruct (first_data pq) as [[k0 q']|] eqn:Ef; vflds; constructor; vflds; auto; try (intros; discriminate).
    + intros E. specialize (Hdone E). destruct Hdone as [Hd|Hd]; [discriminate|].
      destruct (first_data_some_final _ _ _ Ef Hd) as [Hf|Hf]; [left; exact Hf|right; exact Hf].
    + intros t E. inversion E; subst. repeat split; auto; try (unfold T; lia).
      destruct k as [|j| |j|]; auto; try (unfold T in *; lia).
      destruct (Hdone eq_refl) as [Hd|Hd]; [discriminate|]. exact (first_data_none_no_final _ Ef Hd).
    + intros E. specialize (Hdone E). destruct Hdone as [Hd|Hd]; [discriminate|].
      exfalso. exact (first_data_none_no_final _ Ef Hd).
Qed.

Lemma vrun_inv : forall xs v v', VInv v -> vrun cf FP v xs = Some v' -> VInv v'.
Proof.
  induction xs as [|x xs IH]; intros v v' H Hr; cbn [vrun] in Hr.
  - inversion Hr; subst; exact H.
  - destruct (vstep cf FP v x) as [v1|] eqn:E; [|discriminate]. eapply IH; [|exact Hr]. eapply vstep_inv; eauto.
Qed.

(* THE THEOREM for the download final-ack loop: for EVERY schedule of moves, ticks, pauses and resumes --
   no bound on the length or the number of the pauses, no distance between them -- the peer's reader never
   times out, provided only that the gate sleep and the poll interval are shorter than the timeout; and
   when our acker is done and nothing can move the peer has seen the final ack. *)
Theorem down_final_never_times_out : forall xs v, vrun cf FP vinit xs = Some v ->
  vBad v = false /\ (vK v = K2Done -> v_quiescent v = true -> vPfin v = true).
Proof.
  intros xs v Hr. pose proof (vrun_inv xs _ _ vinv_init Hr) as H. split; [exact (v_bad v H)|].
  intros Hk Hq. unfold v_quiescent in Hq. apply Bool.andb_true_iff in Hq. destruct Hq as (_ & Hq).
  destruct (vPF v) as [|t] eqn:Epf.
  - apply Bool.negb_true_iff in Hq. apply Bool.negb_false_iff in Hq. exact Hq.
  - destruct (v_rd v H t Epf) as (_ & _ & _ & Hkk). rewrite Hk in Hkk. contradiction.
Qed.

End DownFinalProofs.

(* ================= (e) upload, after the last DATA frame ================= *)

Section UpFinalProofs.
Variables T' SL GL FP P : nat.
Let T := S T'.
Let cf := mkCfg T SL GL true.
Hypothesis HSL : 1 <= SL.
Hypothesis HFP : 1 <= FP.
Hypothesis HFT : FP < T.
Hypothesis HP : P + SL < T.

Definition usleeper_ok (e : epi) (j : nat) : Prop :=
  1 <= j <= SL /\ match e with EpNone => False | EpPausing _ => True | EpResumed _ i => j + i <= SL end.

Record UInv (u : ust) : Prop := mkUInv {
  u_nbad : uBad u = false;
  u_done : uPK u = PKDone -> uSaved u = true /\ uPM u <> PMWait /\ (uFin u = true \/ In 1 (uFAq u));
  u_wait : forall j, uPK u = PKWait j ->
             1 <= j <= FP /\ uSaved u = false /\ uFin u = false /\ uPM u = PMWait /\ (forall l, In l (uFAq u) -> l = 0);
  u_pm : match uPM u with
         | PMWait => True
         | PMRead t => 1 <= t <= T /\ uFin u = false /\ T <= elapsed (uEp u) + t
         | PMDone => uFin u = true
         end;
  u_fin : uFin u = true -> uPM u = PMDone /\ uFA u = OIdle;
  u_rd : forall t, uFA u = ORead t ->
           uFAq u = [] /\ 1 <= t <= T /\ uFin u = false /\ exists j, uPK u = PKWait j /\ T + j <= FP + t;
  u_p1 : uPausing u = true <-> exists e, uEp u = EpPausing e;
  u_p2 : forall j, uFA u = OGate j -> usleeper_ok (uEp u) j;
  u_p3 : match uEp u with EpNone => True | EpPausing e => e <= P | EpResumed e i => e <= P /\ i <= SL end }.

Ltac uflds := cbn [uPausing uFA uFAq uFin uPK uSaved uPM uBad uEp] in *.
Ltac uopen u H :=
  destruct u as [pa fa fq fin pk sv pm bad ep];
  destruct H as [Hbad Hdone Hwait Hpm Hfin Hrd P1 P2 P3]; uflds.
Ltac uunf := repeat (progress unfold u_setFA, u_bad, u_flags, u_deliver, u_arrive, u_facall, u_poll in * ).

Lemma uinv_init : UInv (uinit cf FP).
Proof.
  unfold uinit. uunf; uflds. constructor; uflds; auto; try (intros; discriminate).
  - intros j E. inversion E; subst. repeat split; auto; try lia. intros l [<-|[]]. reflexivity.
  - split; [discriminate|intros (e & He); discriminate].
Qed.

Lemma ustep_pause : forall u u', UInv u -> ustep cf FP P u UPause = Some u' -> UInv u'.
Proof.
  intros u u' H Hs. uopen u H. cbn in Hs.
  destruct ep as [|e|e j]; inversion Hs; subst; clear Hs; unfold u_flags; constructor; uflds; cbn [ep_pause elapsed] in *; auto.
  - split; eauto.
  - intros j E. destruct (P2 j E) as (? & []).
  - lia.
  - split; eauto.
Qed.

Lemma ustep_resume : forall u u', UInv u -> ustep cf FP P u UResume = Some u' -> UInv u'.
Proof.
  intros u u' H Hs. uopen u H. cbn in Hs.
  destruct ep as [|e|e j]; try discriminate. destruct pa; inversion Hs; subst; clear Hs; unfold u_flags; constructor; uflds;
    cbn [elapsed] in *; auto.
  - destruct pm; auto. destruct Hpm as (? & ? & ?). repeat split; auto; lia.
  - split; [discriminate|intros (e0 & He); discriminate].
  - intros j E. destruct (P2 j E) as (? & _). split; [auto|lia].
  - lia.
Qed.

Lemma ustep_facall : forall u u', UInv u -> ustep cf FP P u UFACall = Some u' -> UInv u'.
Proof.
  intros u u' H Hs. uopen u H. unfold ustep in Hs; uflds.
  destruct fa; try discriminate. destruct fin; [discriminate|]. inversion Hs; subst; clear Hs. uunf; uflds.
  destruct pa; [|destruct fq as [|l q]]; uflds.
  - constructor; uflds; auto; try (intros; discriminate).
    intros j E. inversion E; subst. split; [change (cSL cf) with SL; lia|]. destruct (proj1 P1 eq_refl) as (e & ->). exact I.
  - (* nothing buffered: blocked in the read *)
    constructor; uflds; auto; try (intros; discriminate).
    intros t E. inversion E; subst. change (cT cf) with T. repeat split; auto; try (unfold T; lia).
    destruct pk as [j|].
    + destruct (Hwait j eq_refl) as (Hj & _). exists j. split; [reflexivity|lia].
    + destruct (Hdone eq_refl) as (_ & _ & [Hd|[]]). discriminate.
  - destruct l as [|l]; uflds.
    + (* a progress ack *)
      constructor; uflds; auto; try (intros; discriminate).
      * intros E. destruct (Hdone E) as (? & ? & [Hd|[Hd|Hd]]); try discriminate; auto.
      * intros j E. destruct (Hwait j E) as (? & ? & ? & ? & Hall). repeat split; auto; try lia. intros l0 Hl. apply Hall. right. exact Hl.
    + (* the final ack: sendFileDataV2 returns, the MD5 line reaches the peer *)
      assert (Hpk : pk = PKDone).
      { destruct pk as [j|]; [|reflexivity]. destruct (Hwait j eq_refl) as (_ & _ & _ & _ & Hall). specialize (Hall (S l) (or_introl eq_refl)). discriminate. }
      subst pk. destruct (Hdone eq_refl) as (Hsv & Hpmw & _).
      destruct pm as [|t|]; [congruence| |]; constructor; uflds; auto; try (intros; discriminate);
        intros _; repeat split; auto; discriminate.
Qed.

Lemma ustep_saved : forall u u', UInv u -> ustep cf FP P u USaved = Some u' -> UInv u'.
Proof.
  intros u u' H Hs. uopen u H. unfold ustep in Hs; uflds.
  destruct sv; [discriminate|]. destruct pk as [j|]; [|discriminate]. inversion Hs; subst; clear Hs.
  destruct (Hwait j eq_refl) as (Hj & _ & Hfn & Hpmw & Hall). subst fin pm.
  uunf; uflds. change (cT cf) with T.
  destruct fa as [|jf|t]; uflds.
  - constructor; uflds; auto; try (intros; discriminate).
    + intros _. repeat split; auto; [discriminate|]. right. apply in_or_app. right. left. reflexivity.
    + repeat split; auto; unfold T; lia.
  - constructor; uflds; auto; try (intros; discriminate).
    + intros _. repeat split; auto; [discriminate|]. right. apply in_or_app. right. left. reflexivity.
    + repeat split; auto; unfold T; lia.
  - (* our reader was blocked: it returns the final ack at once *)
    constructor; uflds; auto; try (intros; discriminate).
    intros _. repeat split; auto; discriminate.
Qed.


Ltac ueqs :=
  repeat match goal with
         | H : OGate _ = OGate _ |- _ => inversion H; subst; clear H
         | H : ORead _ = ORead _ |- _ => inversion H; subst; clear H
         | H : PKWait _ = PKWait _ |- _ => inversion H; subst; clear H
         | H : PMRead _ = PMRead _ |- _ => inversion H; subst; clear H
         | H : EpPausing _ = EpPausing _ |- _ => inversion H; subst; clear H
         | H : @eq oph _ _ |- _ => discriminate H
         | H : @eq pkph _ _ |- _ => discriminate H
         | H : @eq pmph _ _ |- _ => discriminate H
         | H : @eq epi _ _ |- _ => discriminate H
         | H : @eq bool _ _ |- _ => discriminate H
         | H : exists _, _ |- _ => destruct H
         | H : _ /\ _ |- _ => destruct H
         | H : In _ [] |- _ => destruct H
         | H : In _ (_ :: _) |- _ => destruct H as [H|H]
         | H : In _ (_ ++ _) |- _ => apply in_app_or in H; destruct H as [H|H]
         end.

Ltac ufin :=
  intros; ueqs; repeat split; intros; ueqs; subst;
  first [ solve [auto] | lia | discriminate | congruence
        | solve [eauto 6] | (right; apply in_or_app; cbn; solve [auto])
        | (match goal with H4 : forall l, In l _ -> l = 0 |- _ = 0 => apply H4; cbn; solve [auto 6] end)
        | (match goal with D : _ \/ In _ (_ :: _) |- _ \/ In _ _ => destruct D as [D|[D|D]]; [discriminate D|discriminate D|right; exact D] end)
        | (eexists; split; [reflexivity|lia]) | idtac ].

Ltac utick_eval Hs :=
  cbv [u_tickPK u_tickFA u_tickPM u_setFA u_bad u_flags u_deliver u_arrive u_facall u_poll
       uPausing uFA uFAq uFin uPK uSaved uPM uBad uEp cT cSL cGL cf] in Hs;
  inversion Hs; subst; clear Hs.

Ltac uclose Hs := utick_eval Hs; constructor; uflds; cbn [elapsed] in *; ufin.

Ltac upa_of_ep pa P1a P1b :=
    destruct pa;
    try (exfalso; destruct (P1a eq_refl) as (? & X); discriminate X);
    try (exfalso; assert (X : false = true) by (apply P1b; eauto); discriminate X).

(* splits on the three components; prunes expiring timers with the timing invariants *)
Ltac uconj := repeat match goal with H : _ /\ _ |- _ => destruct H | H : exists _, _ |- _ => destruct H end.

Ltac usplit :=
  lazymatch goal with
  | pk0 : pkph, fa0 : oph, pm0 : pmph, fq0 : list nat |- _ =>
    lazymatch goal with
    | Hdone : pk0 = PKDone -> _, Hwait : forall j, pk0 = PKWait j -> _, Hrd : forall t, fa0 = ORead t -> _,
      P2 : forall j, fa0 = OGate j -> _ |- _ =>
      (destruct pk0 as [jp|];
       [ pose proof (Hwait jp eq_refl); uconj; destruct jp as [|[|jp]]; [exfalso; lia| |]
       | pose proof (Hdone eq_refl); uconj ]);
      (destruct fa0 as [|jf|tf];
       [ idtac
       | pose proof (P2 jf eq_refl); uconj; destruct jf as [|[|jf]]; [exfalso; lia|destruct fq0 as [|[|l0] fq0]|]
       | pose proof (Hrd tf eq_refl); uconj;
         first [ match goal with R1 : PKDone = PKWait _ |- _ => discriminate R1 end
               | (match goal with R1 : PKWait _ = PKWait _ |- _ => inversion R1; subst; clear R1 end;
                  destruct tf as [|[|tf]]; [exfalso; lia|exfalso; lia|]) ] ]);
      try (destruct pm0 as [|tm|]); uconj; cbn [elapsed] in *; subst
    end
  end.

(* no episode is open *)
Lemma ustep_tick_none : forall u u', UInv u -> uEp u = EpNone -> ustep cf FP P u UTick = Some u' -> UInv u'.
Proof.
  intros u u' H Hep Hs. unfold ustep in Hs.
  destruct (u_quiescent u) eqn:Hq; [|discriminate]. cbn [andb] in Hs.
  unfold u_quiescent in Hq. apply Bool.negb_true_iff in Hq.
  uopen u H. subst bad. unfold u_ep_tick in Hs. change (cSL cf) with SL in Hs.
  unfold usleeper_ok in *. destruct P1 as [P1a P1b].
  assert (HT2 : 2 <= T) by (unfold T in *; lia).
  subst ep. upa_of_ep pa P1a P1b.
  usplit; subst; try discriminate; try (exfalso; lia); try (exfalso; tauto); try congruence;
    try (destruct (Hfin eq_refl); discriminate);
    try (exfalso; match goal with H4 : forall l, In l (S ?x :: _) -> l = 0 |- _ => specialize (H4 (S x) (or_introl eq_refl)); discriminate H4 end);
    try (exfalso; match goal with D : _ = true \/ In _ [] |- _ => destruct D as [D|D]; [discriminate D|destruct D] end).
  all: try (destruct tm as [|[|tm]]; [exfalso; lia|exfalso; lia|]).
  all: try (timeout 20 (uclose Hs)).
Qed.

Lemma ustep_tick_pausing : forall u u' e, UInv u -> uEp u = EpPausing e -> ustep cf FP P u UTick = Some u' -> UInv u'.
Proof.
  intros u u' e H Hep Hs. unfold ustep in Hs.
  destruct (u_quiescent u) eqn:Hq; [|discriminate]. cbn [andb] in Hs.
  unfold u_quiescent in Hq. apply Bool.negb_true_iff in Hq.
  uopen u H. subst bad. unfold u_ep_tick in Hs. change (cSL cf) with SL in Hs.
  unfold usleeper_ok in *. destruct P1 as [P1a P1b].
  assert (HT2 : 2 <= T) by (unfold T in *; lia).
  subst ep. upa_of_ep pa P1a P1b.
  destruct (Nat.ltb_spec e P); [|discriminate].
  usplit; subst; try discriminate; try (exfalso; lia); try (exfalso; tauto); try congruence;
    try (destruct (Hfin eq_refl); discriminate);
    try (exfalso; match goal with H4 : forall l, In l (S ?x :: _) -> l = 0 |- _ => specialize (H4 (S x) (or_introl eq_refl)); discriminate H4 end);
    try (exfalso; match goal with D : _ = true \/ In _ [] |- _ => destruct D as [D|D]; [discriminate D|destruct D] end).
  all: try (destruct tm as [|[|tm]]; [exfalso; lia|exfalso; lia|]).
  all: try (timeout 20 (uclose Hs)).
  all: try (timeout 20 (uclose Hs)).
Qed.

Lemma ustep_tick_resumed : forall u u' e i, UInv u -> uEp u = EpResumed e i -> i < SL ->
  ustep cf FP P u UTick = Some u' -> UInv u'.
Proof.
  intros u u' e i H Hep Hi Hs. unfold ustep in Hs.
  destruct (u_quiescent u) eqn:Hq; [|discriminate]. cbn [andb] in Hs.
  unfold u_quiescent in Hq. apply Bool.negb_true_iff in Hq.
  uopen u H. subst bad. unfold u_ep_tick in Hs. change (cSL cf) with SL in Hs.
  unfold usleeper_ok in *. destruct P1 as [P1a P1b].
  assert (HT2 : 2 <= T) by (unfold T in *; lia).
  subst ep. upa_of_ep pa P1a P1b.
  destruct (Nat.ltb_spec i SL); [|exfalso; lia].
  usplit; subst; try discriminate; try (exfalso; lia); try (exfalso; tauto); try congruence;
    try (destruct (Hfin eq_refl); discriminate);
    try (exfalso; match goal with H4 : forall l, In l (S ?x :: _) -> l = 0 |- _ => specialize (H4 (S x) (or_introl eq_refl)); discriminate H4 end);
    try (exfalso; match goal with D : _ = true \/ In _ [] |- _ => destruct D as [D|D]; [discriminate D|destruct D] end).
  all: try (destruct tm as [|[|tm]]; [exfalso; lia|exfalso; lia|]).
  all: try (timeout 20 (uclose Hs)).
  all: try (timeout 20 (uclose Hs)).
Qed.

Lemma ustep_tick_closing : forall u u' e i, UInv u -> uEp u = EpResumed e i -> SL <= i ->
  ustep cf FP P u UTick = Some u' -> UInv u'.
Proof.
  intros u u' e i H Hep Hi Hs. unfold ustep in Hs.
  destruct (u_quiescent u) eqn:Hq; [|discriminate]. cbn [andb] in Hs.
  unfold u_quiescent in Hq. apply Bool.negb_true_iff in Hq.
  uopen u H. subst bad. unfold u_ep_tick in Hs. change (cSL cf) with SL in Hs.
  unfold usleeper_ok in *. destruct P1 as [P1a P1b].
  assert (HT2 : 2 <= T) by (unfold T in *; lia).
  subst ep. upa_of_ep pa P1a P1b.
  destruct (Nat.ltb_spec i SL); [exfalso; lia|].
  usplit; subst; try discriminate; try (exfalso; lia); try (exfalso; tauto); try congruence;
    try (destruct (Hfin eq_refl); discriminate);
    try (exfalso; match goal with H4 : forall l, In l (S ?x :: _) -> l = 0 |- _ => specialize (H4 (S x) (or_introl eq_refl)); discriminate H4 end);
    try (exfalso; match goal with D : _ = true \/ In _ [] |- _ => destruct D as [D|D]; [discriminate D|destruct D] end).
  all: try (destruct tm as [|[|tm]]; [exfalso; lia|exfalso; lia|]).
  all: try (timeout 20 (uclose Hs)).
  all: try (timeout 20 (uclose Hs)).
Qed.

Lemma ustep_tick : forall u u', UInv u -> ustep cf FP P u UTick = Some u' -> UInv u'.
Proof.
  intros u u' H Hs. destruct (uEp u) as [|e|e i] eqn:Eep.
  - eapply ustep_tick_none; eauto.
  - eapply ustep_tick_pausing; eauto.
  - destruct (Nat.lt_ge_cases i SL).
    + eapply ustep_tick_resumed; eauto.
    + eapply ustep_tick_closing; eauto.
Qed.

Lemma ustep_inv : forall x u u', UInv u -> ustep cf FP P u x = Some u' -> UInv u'.
Proof.
  intros [] u u' H Hs.
  - eapply ustep_tick; eauto.
  - eapply ustep_pause; eauto.
  - eapply ustep_resume; eauto.
  - eapply ustep_facall; eauto.
  - eapply ustep_saved; eauto.
Qed.

Lemma urun_inv : forall xs u u', UInv u -> urun cf FP P u xs = Some u' -> UInv u'.
Proof.
  induction xs as [|x xs IH]; intros u u' H Hr; cbn [urun] in Hr.
  - inversion Hr; subst; exact H.
  - destruct (ustep cf FP P u x) as [u1|] eqn:E; [|discriminate]. eapply IH; [|exact Hr]. eapply ustep_inv; eauto.
Qed.

(* THE THEOREM for the upload after the last DATA frame: for every schedule in which an episode of pausing
   lasts at most P ticks, P + one sleep < Timeout (a new pause beginning more than one sleep after the
   previous resume) and the peer polls faster than the timeout: neither the peer's plain read of the MD5
   line nor our final-ack reader times out, and whenever nothing can move, no episode is open and the
   peer's disk has everything, our side has seen the final ack and the peer has the MD5 line. *)
Theorem up_final_short_pause : forall xs u, urun cf FP P (uinit cf FP) xs = Some u ->
  uBad u = false /\
  (u_quiescent u = true -> uEp u = EpNone -> uSaved u = true -> uFin u = true /\ uPM u = PMDone).
Proof.
  intros xs u Hr. pose proof (urun_inv xs _ _ uinv_init Hr) as H. split; [exact (u_nbad u H)|].
  intros Hq He Hsv. unfold u_quiescent in Hq. apply Bool.negb_true_iff in Hq.
  assert (Hpk : uPK u = PKDone).
  { destruct (uPK u) as [j|] eqn:E; [|reflexivity]. destruct (u_wait u H j E) as (_ & Hs & _). congruence. }
  destruct (u_done u H Hpk) as (_ & _ & Hd).
  assert (Hf : uFin u = true).
  { destruct (uFA u) as [|j|t] eqn:EF.
    - apply Bool.negb_false_iff in Hq. exact Hq.
    - destruct (u_p2 u H j EF) as (_ & Hx). rewrite He in Hx. contradiction.
    - destruct (u_rd u H t EF) as (_ & _ & _ & j & Hj & _). congruence. }
  split; [exact Hf|]. exact (proj1 (u_fin u H Hf)).
Qed.

End UpFinalProofs.
