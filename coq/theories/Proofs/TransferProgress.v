(* When does the receiver's name handling accept every entry of a transfer?  A sufficient
   condition on the inputs alone ("clean names, parents first, nothing in the way"), so that the
   acceptance premise of C01_transfer can be discharged without running the specification. *)
From Coq Require Import ZArith Lia.
From Trzsz Require Import Base.Bytes Gen.Consts Model.Path Model.Fs Model.Names Model.Transfer
  Proofs.PathFs Proofs.Names Proofs.TransferArchive Proofs.TransferResume Proofs.TransferFs.
From Trzsz Require Model.Resume Model.Archive.

(* ---------- success of the file-system primitives ---------- *)
Notation len_ok := tr_len_ok.
Notation comp_ok := tr_comp_ok.

Lemma walk_through f : forall p pre rest,
  (forall a b, p = a ++ b -> get f (pre ++ a) = Some Dir) -> Forall len_ok p ->
  walk f pre (p ++ rest) = walk f (pre ++ p) rest.
Proof.
  induction p as [|c p IH]; intros pre rest Hc Hl; [rewrite app_nil_r; reflexivity|].
  cbn [app walk]. pose proof (Hc [] (c :: p) eq_refl) as H0. rewrite app_nil_r in H0. rewrite H0.
  inversion Hl as [|? ? Hc1 Hl1]; subst. unfold tr_len_ok in Hc1. rewrite Hc1.
  rewrite IH; [rewrite <- app_assoc; reflexivity | | exact Hl1].
  intros a b Hab. rewrite <- app_assoc. apply (Hc (c :: a) b). cbn. congruence.
Qed.

Lemma bad_path_false p : Forall comp_ok p -> bad_path p = false.
Proof.
  intro Hp. unfold bad_path. induction Hp as [|n p [Hn _] _ IH]; [reflexivity|]. cbn [existsb]. rewrite Hn, IH. reflexivity.
Qed.

Lemma comp_len p : Forall comp_ok p -> Forall len_ok p.
Proof. intro Hp. induction Hp as [|n p [_ Hn] _ IH]; constructor; assumption. Qed.

Lemma stat_chain_dir f p : chain f p -> Forall comp_ok p -> stat f p = SFound Dir.
Proof.
  intros Hc Hp. unfold stat. rewrite (bad_path_false p Hp).
  pose proof (walk_through f p [] [] (fun a b Hab => Hc a b Hab) (comp_len p Hp)) as Hw.
  rewrite app_nil_r in Hw. rewrite Hw. cbn [walk app]. rewrite (Hc p [] (eq_sym (app_nil_r p))). reflexivity.
Qed.

Lemma stat_absent f p n : chain f p -> Forall comp_ok p -> comp_ok n -> lookup f (p ++ [n]) = None ->
  stat f (p ++ [n]) = SNotExist.
Proof.
  intros Hc Hp Hn Hl. unfold stat.
  rewrite (bad_path_false (p ++ [n])) by (apply Forall_app; split; [exact Hp | constructor; [exact Hn | constructor]]).
  rewrite (walk_through f p [] [n] (fun a b Hab => Hc a b Hab) (comp_len p Hp)). cbn [app walk].
  rewrite (Hc p [] (eq_sym (app_nil_r p))). destruct Hn as [_ Hn]. unfold tr_len_ok in Hn. rewrite Hn.
  unfold get. destruct (p ++ [n]) eqn:E; [destruct p; discriminate|]. rewrite Hl. reflexivity.
Qed.

Lemma removelast_snoc {A} (l : list A) x : removelast (l ++ [x]) = l.
Proof. apply removelast_last. Qed.
Lemma last_snoc {A} (l : list A) x dflt : last (l ++ [x]) dflt = x.
Proof. apply last_last. Qed.

Lemma open_create_ok f p n t pl : chain f p -> Forall comp_ok p -> comp_ok n ->
  lookup f (p ++ [n]) <> Some Dir -> exists f' es, open_create f (p ++ [n]) t pl = Some (f', es).
Proof.
  intros Hc Hp [Hn1 Hn2] Hl. unfold open_create.
  destruct (p ++ [n]) as [|x0 p0] eqn:E; [destruct p; discriminate|]. rewrite <- E in *.
  rewrite removelast_snoc, last_snoc, (stat_chain_dir f p Hc Hp), Hn1. unfold tr_len_ok in Hn2. rewrite Hn2. cbn [orb].
  destruct (lookup f (p ++ [n])) as [[old|]|]; [eauto | congruence | eauto].
Qed.

(* MkdirAll of an existing chain plus one absent component *)
Lemma mk_down_new f : forall p pre n,
  (forall a b, p = a ++ b -> a <> [] -> lookup f (pre ++ a) = Some Dir) -> Forall comp_ok p -> comp_ok n ->
  lookup f (pre ++ p ++ [n]) = None ->
  exists f' es, mk_down f pre (p ++ [n]) = (true, f', es).
Proof.
  induction p as [|c p IH]; intros pre n Hc Hp [Hn1 Hn2] Hl.
  - cbn [app mk_down]. unfold tr_len_ok in Hn2. rewrite Hn1, Hn2. cbn [orb]. cbn [app] in Hl. rewrite Hl. eauto.
  - cbn [app mk_down]. inversion Hp as [|? ? [Hc1 Hc2] Hp1]; subst. unfold tr_len_ok in Hc2. rewrite Hc1, Hc2. cbn [orb].
    pose proof (Hc [c] p eq_refl ltac:(discriminate)) as H0. rewrite H0.
    apply (IH (pre ++ [c]) n); [| exact Hp1 | split; assumption |].
    + intros a b Hab Ha. rewrite <- app_assoc. apply (Hc (c :: a) b); [cbn; congruence | discriminate].
    + rewrite <- app_assoc. exact Hl.
Qed.

Lemma chain_lookup f p : chain f p -> forall a b, p = a ++ b -> a <> [] -> lookup f ([] ++ a) = Some Dir.
Proof. intros Hc a b Hab Ha. specialize (Hc a b Hab). unfold get in Hc. destruct a; [congruence | exact Hc]. Qed.

(* doCreateDirectory succeeds on an existing directory and on an absent name in an existing chain *)
Lemma do_create_directory_ok p n st : chain (st_fs st) p -> Forall comp_ok p -> comp_ok n ->
  lookup (st_fs st) (p ++ [n]) = None \/ lookup (st_fs st) (p ++ [n]) = Some Dir ->
  exists st', do_create_directory (p ++ [n]) st = (true, st').
Proof.
  intros Hc Hp Hn Hl. unfold do_create_directory. destruct Hl as [Hl|Hl].
  - rewrite (stat_absent _ p n Hc Hp Hn Hl). unfold mkdir_all.
    destruct (mk_down_new (st_fs st) p [] n (chain_lookup _ _ Hc) Hp Hn Hl) as (f' & es & ->). eauto.
  - assert (Hc2 : chain (st_fs st) (p ++ [n])).
    { intros a b Hab. destruct (Nat.le_gt_cases (length a) (length p)) as [Hle|Hgt].
      - destruct (app_eq_app_le a b p [n] (eq_sym Hab) Hle) as (e & He & _). apply (Hc a e He).
      - assert (a = p ++ [n]).
        { apply (f_equal (@length name)) in Hab as Hlen. rewrite !app_length in Hlen. cbn in Hlen.
          assert (b = []) by (destruct b; [reflexivity | cbn in Hlen; lia]). subst b. rewrite app_nil_r in Hab. congruence. }
        subst a. unfold get. destruct (p ++ [n]) eqn:E; [reflexivity|]. exact Hl. }
    rewrite (stat_chain_dir _ _ Hc2) by (apply Forall_app; split; [exact Hp | constructor; [exact Hn | constructor]]). eauto.
Qed.

Lemma classic_prefix (q p : path) : (exists b, p = q ++ b) \/ ~ (exists b, p = q ++ b).
Proof.
  destruct (is_prefix q p) eqn:E; [left; apply is_prefix_spec; exact E|].
  right. intro Hx. apply is_prefix_spec in Hx. congruence.
Qed.

Lemma do_create_directory_exists q st : chain (st_fs st) q -> Forall comp_ok q ->
  do_create_directory q st = (true, st).
Proof. intros Hc Hq. unfold do_create_directory. rewrite (stat_chain_dir _ _ Hc Hq). reflexivity. Qed.

(* ... and when it creates, only the new name changes *)
Lemma do_create_directory_new p n st : chain (st_fs st) p -> Forall comp_ok p -> comp_ok n ->
  lookup (st_fs st) (p ++ [n]) = None ->
  exists st', do_create_directory (p ++ [n]) st = (true, st') /\ st_map st' = st_map st /\
    lookup (st_fs st') (p ++ [n]) = Some Dir /\
    forall q, q <> [] -> q <> p ++ [n] -> lookup (st_fs st') q = lookup (st_fs st) q.
Proof.
  intros Hc Hp Hn Hl. destruct (do_create_directory_ok p n st Hc Hp Hn (or_introl Hl)) as (st' & E).
  exists st'. split; [exact E|].
  assert (Hne : p ++ [n] <> []) by (destruct p; discriminate).
  destruct (do_create_directory_result _ _ _ Hne E) as (A & B & C). split; [exact C|]. split; [exact A|].
  intros q Hq0 Hq. destruct (lookup (st_fs st) q) eqn:El; [rewrite <- El; apply B; left; congruence|].
  rewrite <- El. apply B. destruct (classic_prefix q (p ++ [n])) as [(b & Hb)|Hnp]; [|right; exact Hnp].
  (* q is a prefix of p ++ [n], different from it: a prefix of p, hence a directory *)
  left. assert (Hpre : exists b', p = q ++ b').
  { destruct b as [|x b] using rev_ind; [rewrite app_nil_r in Hb; congruence|].
    clear IHb. rewrite app_assoc in Hb. apply app_inj_tail in Hb as [Hb _]. eauto. }
  destruct Hpre as (b' & Hb'). specialize (Hc q b' Hb'). unfold get in Hc. destruct q; congruence.
Qed.

Lemma names_max_len_is_name_max : names_max_len = name_max.
Proof. reflexivity. Qed.

Lemma do_create_file_new p n t x st : chain (st_fs st) p -> Forall comp_ok p -> comp_ok n ->
  lookup (st_fs st) (p ++ [n]) = None ->
  exists st', do_create_file (p ++ [n]) t x st = (true, st') /\ st_map st' = st_map st /\
    lookup (st_fs st') (p ++ [n]) = Some (File x) /\
    forall q, q <> p ++ [n] -> lookup (st_fs st') q = lookup (st_fs st) q.
Proof.
  intros Hc Hp Hn Hl.
  destruct (open_create_ok (st_fs st) p n t x Hc Hp Hn) as (f' & es & E); [rewrite Hl; discriminate|].
  unfold do_create_file. rewrite E. eexists. split; [reflexivity|]. cbn [st_map st_fs]. split; [reflexivity|].
  destruct (open_create_result _ _ _ _ _ _ E) as (A & B & _). split; [|exact B].
  rewrite A. unfold old_content. rewrite Hl. destruct t; rewrite write0_nil_l; reflexivity.
Qed.

(* an existing regular file may be opened as well *)
Lemma do_create_file_any p n t x st : chain (st_fs st) p -> Forall comp_ok p -> comp_ok n ->
  lookup (st_fs st) (p ++ [n]) <> Some Dir ->
  exists st', do_create_file (p ++ [n]) t x st = (true, st') /\ st_map st' = st_map st /\
    lookup (st_fs st') (p ++ [n]) = Some (File (write0 (if t then [] else old_content (st_fs st) (p ++ [n])) x)) /\
    forall q, q <> p ++ [n] -> lookup (st_fs st') q = lookup (st_fs st) q.
Proof.
  intros Hc Hp Hn Hl.
  destruct (open_create_ok (st_fs st) p n t x Hc Hp Hn Hl) as (f' & es & E).
  unfold do_create_file. rewrite E. eexists. split; [reflexivity|]. cbn [st_map st_fs]. split; [reflexivity|].
  destruct (open_create_result _ _ _ _ _ _ E) as (A & B & _). split; [exact A | exact B].
Qed.

(* createDirOrFile's last step: a new directory, a new file, or (where a file goes) an existing file *)
Lemma create_leaf_ready s p n t x ln st : chain (st_fs st) p -> Forall comp_ok p -> comp_ok n ->
  (s_archive s = true -> s_isdir s = true) ->
  (lookup (st_fs st) (p ++ [n]) = None \/ (s_isdir s = false /\ exists old, lookup (st_fs st) (p ++ [n]) = Some (File old))) ->
  exists st', create_leaf s (p ++ [n]) t x ln st = (NOk ln, st') /\ st_map st' = st_map st /\
    lookup (st_fs st') (p ++ [n]) =
      Some (if s_isdir s then Dir else File (write0 (if t then [] else old_content (st_fs st) (p ++ [n])) x)) /\
    forall q, q <> [] -> q <> p ++ [n] -> lookup (st_fs st') q = lookup (st_fs st) q.
Proof.
  intros Hc Hp Hn Ha Hl. unfold create_leaf.
  assert (HD : s_isdir s = true -> exists st', do_create_directory (p ++ [n]) st = (true, st') /\ st_map st' = st_map st /\
             lookup (st_fs st') (p ++ [n]) = Some Dir /\ forall q, q <> [] -> q <> p ++ [n] -> lookup (st_fs st') q = lookup (st_fs st) q).
  { intro Hd. destruct Hl as [Hl|[Hf _]]; [|congruence]. apply do_create_directory_new; assumption. }
  destruct (s_archive s).
  - rewrite (Ha eq_refl) in *. cbn [negb]. destruct (HD eq_refl) as (st' & E & M & A & B). rewrite E. eauto 6.
  - destruct (s_isdir s).
    + destruct (HD eq_refl) as (st' & E & M & A & B). rewrite E. eauto 6.
    + assert (Hnd : lookup (st_fs st) (p ++ [n]) <> Some Dir).
      { destruct Hl as [Hl|[_ (old & Hl)]]; rewrite Hl; discriminate. }
      destruct (do_create_file_any p n t x st Hc Hp Hn Hnd) as (st' & E & M & A & B). rewrite E.
      exists st'. split; [reflexivity|]. split; [exact M|]. split; [exact A|]. intros q _ Hq. apply B, Hq.
Qed.

Section Progress.
Variable hx : list byte -> Resume.digest.
Variable ahdr : src -> Z -> list byte.
Variable aparse : list byte -> option (src * Z).
Variable c : tr_cfg.
Variable d : path.
Hypothesis Hd_ok : Forall comp_ok d.

Notation name_fine := tr_name_fine.
Notation entry_clean := (tr_entry_clean c).
Notation leaf_of := (tr_leaf_of c d).
Notation spec_entry := (tr_spec_entry hx ahdr aparse c d).
Notation spec := (tr_spec hx ahdr aparse c d).

(* how the local name will be resolved to the name as sent *)
Definition resolves (st : state) (e : tr_entry) : Prop :=
  tc_overwrite c = false -> tr_json c = true ->
  match map_get (st_map st) (te_id e) with Some v => v = tr_key c e | None => tr_tail c e = [] end.

Definition map_after (st : state) (e : tr_entry) : list (Z * name) :=
  if tc_overwrite c then st_map st
  else if tr_json c then
    match map_get (st_map st) (te_id e) with Some _ => st_map st | None => (te_id e, tr_key c e) :: st_map st end
  else st_map st.

Lemma fine_good n : name_fine n -> good n.
Proof. intros [Hv _]. apply valid_name_good, Hv. Qed.
Lemma fine_comp l : Forall name_fine l -> Forall comp_ok l.
Proof. intro Hl. induction Hl as [|n l [_ Hn] _ IH]; constructor; assumption. Qed.
Lemma fine_goods l : Forall name_fine l -> Forall good l.
Proof. intro Hl. induction Hl as [|n l Hn _ IH]; constructor; [apply fine_good, Hn | assumption]. Qed.
Lemma fine_valid l : Forall name_fine l -> forallb valid_name l = true.
Proof. intro Hl. induction Hl as [|n l [Hn _] _ IH]; [reflexivity|]. cbn [forallb]. rewrite Hn, IH. reflexivity. Qed.

Lemma get_new_name_self f nm : chain f d -> name_fine nm -> lookup f (d ++ [nm]) = None -> get_new_name f d nm = Some nm.
Proof.
  intros Hc [Hv [Hn1 Hn2]] Hl. unfold get_new_name. rewrite names_max_len_is_name_max. unfold tr_len_ok in Hn2. rewrite Hn2.
  rewrite join_good by (constructor; [apply valid_name_good, Hv | constructor]).
  rewrite (stat_absent f d nm Hc Hd_ok (conj Hn1 Hn2) Hl). reflexivity.
Qed.

(* what is at the place of an entry: nothing, or (overwrite on, a file goes there) a regular file *)
Definition place_st (st : state) (e : tr_entry) : Prop :=
  lookup (st_fs st) (leaf_of e) = None \/
  (tc_overwrite c = true /\ te_isdir e = false /\ exists old, lookup (st_fs st) (leaf_of e) = Some (File old)).

Lemma create_ready e st x :
  chain (st_fs st) d -> entry_clean e -> (tr_has_subs e = true -> te_isdir e = true) ->
  chain (st_fs st) (d ++ removelast (tr_key c e :: tr_tail c e)) ->
  place_st st e -> resolves st e ->
  exists st', tr_create c d (tr_payload c e) x st = (NOk (tr_key c e), st') /\
    lookup (st_fs st') (leaf_of e) =
      Some (if te_isdir e then Dir
            else File (write0 (if tr_json_names c then old_content (st_fs st) (leaf_of e) else []) x)) /\
    (forall q, q <> [] -> q <> leaf_of e -> lookup (st_fs st') q = lookup (st_fs st) q) /\
    st_map st' = map_after st e.
Proof.
  intros Hc (Hfine & Hrel & Hdj) Harch Hpar Hplace Hres. unfold place_st, tr_leaf_of, map_after, resolves in *.
  unfold tr_create, tr_key, tr_tail, tr_payload in *. destruct (tr_json c) eqn:Ej.
  - (* JSON names *)
    cbn [tr_p_head tr_p_tail s_rel] in *. destruct (te_rel e) as [|r0 rest] eqn:Er; [exfalso; apply Hrel; reflexivity|].
    cbn [hd tl] in *. clear Hrel.
    assert (HJ : forall t, exists st',
      recv_json code_checks (tr_names_cfg c) d
        (Some {| s_id := te_id e; s_rel := r0 :: rest; s_isdir := te_isdir e; s_archive := tr_has_subs e |}) t x st = (NOk r0, st') /\
      lookup (st_fs st') (d ++ r0 :: rest) =
        Some (if te_isdir e then Dir else File (write0 (if t then [] else old_content (st_fs st) (d ++ r0 :: rest)) x)) /\
      (forall q, q <> [] -> q <> d ++ r0 :: rest -> lookup (st_fs st') q = lookup (st_fs st) q) /\
      st_map st' = (if tc_overwrite c then st_map st
                    else match map_get (st_map st) (te_id e) with Some _ => st_map st | None => (te_id e, r0) :: st_map st end)).
    { intro t. unfold recv_json. cbn [s_rel]. destruct code_checks_on as [Hu _]. rewrite Hu, (fine_valid _ Hfine). cbn [andb negb].
      unfold create_dir_or_file. cbn [tr_names_cfg overwrite s_id].
      inversion Hfine as [|? ? Hf0 Hfr]; subst.
      (* the chosen name is r0, the file system is untouched by the choice *)
      set (chosen := if tc_overwrite c then Some (r0, st) else _).
      assert (Hch : exists st1, chosen = Some (r0, st1) /\ st_fs st1 = st_fs st /\
                st_map st1 = (if tc_overwrite c then st_map st
                              else match map_get (st_map st) (te_id e) with Some _ => st_map st | None => (te_id e, r0) :: st_map st end)).
      { subst chosen. destruct (tc_overwrite c) eqn:Eo; [exists st; auto|]. specialize (Hres eq_refl eq_refl).
        destruct (map_get (st_map st) (te_id e)) as [v|] eqn:Em; [subst v; exists st; auto|]. subst rest.
        destruct Hplace as [Hleaf|[Hx _]]; [|discriminate].
        rewrite (get_new_name_self _ r0 Hc Hf0 Hleaf). eexists. split; [reflexivity|]. split; reflexivity. }
      destruct Hch as (st1 & -> & Ef & Em1).
      assert (Hc1 : chain (st_fs st1) d) by (rewrite Ef; exact Hc).
      set (sr := {| s_id := te_id e; s_rel := r0 :: rest; s_isdir := te_isdir e; s_archive := tr_has_subs e |}).
      assert (Hsa : s_archive sr = true -> s_isdir sr = true) by exact Harch.
      destruct rest as [|c2 rest].
      - rewrite join_good by (constructor; [apply fine_good, Hf0 | constructor]).
        assert (Hpl : lookup (st_fs st1) (d ++ [r0]) = None \/
                      (s_isdir sr = false /\ exists old, lookup (st_fs st1) (d ++ [r0]) = Some (File old))).
        { rewrite Ef. destruct Hplace as [Hl|(_ & Hd & Ho)]; [left; exact Hl | right; split; [exact Hd | exact Ho]]. }
        destruct (create_leaf_ready sr d r0 t x r0 st1 Hc1 Hd_ok (proj2 Hf0) Hsa Hpl) as (st' & E & M & A & B).
        rewrite E. exists st'. split; [reflexivity|]. rewrite Ef in A. split; [exact A|].
        split; [intros q H1 H2; rewrite <- Ef; apply B; assumption|]. rewrite M. exact Em1.
      - destruct (forall_good_split (c2 :: rest) ltac:(discriminate) (fine_goods _ Hfr)) as [Hgm Hgl].
        assert (Hsplit : c2 :: rest = removelast (c2 :: rest) ++ [last (c2 :: rest) []]) by (apply app_removelast_last; discriminate).
        set (mids := removelast (c2 :: rest)) in *. set (lst := last (c2 :: rest) []) in *.
        assert (Hfm : Forall name_fine mids /\ name_fine lst).
        { rewrite Hsplit in Hfr. apply Forall_app in Hfr as [A B]. inversion B; auto. }
        destruct Hfm as [Hfm Hfl].
        rewrite (join_good (r0 :: mids)) by (constructor; [apply fine_good, Hf0 | exact Hgm]).
        assert (Hparent : d ++ removelast (r0 :: c2 :: rest) = d ++ r0 :: mids) by reflexivity.
        rewrite Hparent in Hpar. rewrite <- Ef in Hpar.
        assert (Hpc : Forall comp_ok (d ++ r0 :: mids)).
        { apply Forall_app. split; [exact Hd_ok|]. constructor; [exact (proj2 Hf0) | apply fine_comp, Hfm]. }
        rewrite (do_create_directory_exists _ st1 Hpar Hpc).
        rewrite join_good by (constructor; [apply fine_good, Hfl | constructor]).
        assert (Hlf : (d ++ r0 :: mids) ++ [lst] = d ++ r0 :: c2 :: rest) by (rewrite Hsplit, <- app_assoc; reflexivity).
        rewrite <- Hlf in Hplace |- *.
        assert (Hpl : lookup (st_fs st1) ((d ++ r0 :: mids) ++ [lst]) = None \/
                      (s_isdir sr = false /\ exists old, lookup (st_fs st1) ((d ++ r0 :: mids) ++ [lst]) = Some (File old))).
        { rewrite Ef. destruct Hplace as [Hl|(_ & Hd & Ho)]; [left; exact Hl | right; split; [exact Hd | exact Ho]]. }
        destruct (create_leaf_ready sr _ lst t x r0 st1 Hpar Hpc (proj2 Hfl) Hsa Hpl) as (st' & E & M & A & B).
        rewrite E. exists st'. split; [reflexivity|]. rewrite Ef in A. split; [exact A|].
        split; [intros q H1 H2; rewrite <- Ef; apply B; assumption|]. rewrite M. exact Em1. }
    destruct (tr_json_names c) eqn:Ejn; [apply HJ|].
    assert (Hdir : tc_directory c = true) by (unfold tr_json in Ej; rewrite Ejn in Ej; exact Ej).
    rewrite Hdir. apply HJ.
  - (* the plain name *)
    cbn [tr_p_head tr_p_tail] in *. inversion Hfine as [|? ? Hf0 _]; subst.
    assert (Hnd : te_isdir e = false) by (destruct (te_isdir e); [specialize (Hdj eq_refl); discriminate | reflexivity]).
    rewrite Hnd. unfold create_file. destruct code_checks_on as [_ Hck]. rewrite Hck, (proj1 Hf0). cbn [andb negb].
    cbn [tr_names_cfg overwrite].
    assert (Hjn : tr_json_names c = false) by (unfold tr_json in Ej; apply orb_false_iff in Ej; tauto).
    assert (Hname : (if tc_overwrite c then Some (te_name e) else get_new_name (st_fs st) d (te_name e)) = Some (te_name e)).
    { destruct (tc_overwrite c) eqn:Eo; [reflexivity|]. destruct Hplace as [Hleaf|[Hx _]]; [|discriminate]. apply get_new_name_self; assumption. }
    rewrite Hname. rewrite join_good by (constructor; [apply fine_good, Hf0 | constructor]).
    assert (Hnotdir : lookup (st_fs st) (d ++ [te_name e]) <> Some Dir).
    { destruct Hplace as [Hl|(_ & _ & old & Hl)]; rewrite Hl; discriminate. }
    destruct (do_create_file_any d (te_name e) true x st Hc Hd_ok (proj2 Hf0) Hnotdir) as (st' & E & M & A & B).
    rewrite E. exists st'. split; [reflexivity|]. rewrite Hjn. split; [exact A|]. split; [intros q _ H2; apply B; assumption|].
    rewrite M. destruct (tc_overwrite c); reflexivity.
Qed.

(* ---------- the whole list ---------- *)
Variable f0 : fs.

Notation tr_ready' := (tr_ready hx c d f0).

(* [q] is none of the places the entries received so far have written to *)
Definition untouched (done : list tr_entry) (q : path) : Prop :=
  forall e, In e done -> q <> leaf_of e /\ (te_subs e <> [] -> is_prefix (leaf_of e) q = false).

Definition PInv (st : state) (done : list tr_entry) : Prop :=
  chain (st_fs st) d /\
  (forall e, In e done -> te_isdir e = true -> chain (st_fs st) (leaf_of e)) /\
  (tc_overwrite c = false -> tr_json c = true ->
     (forall e, In e done -> map_get (st_map st) (te_id e) = Some (tr_key c e)) /\
     (forall id v, map_get (st_map st) id = Some v -> exists e, In e done /\ te_id e = id)) /\
  (forall q, q <> [] -> untouched done q -> lookup (st_fs st) q = lookup f0 q).

Lemma leaf_not_nil e : leaf_of e <> [].
Proof. unfold tr_leaf_of. destruct d; discriminate. Qed.

Lemma chain_extend f p n : chain f p -> lookup f (p ++ [n]) = Some Dir -> chain f (p ++ [n]).
Proof.
  intros Hc Hl a b Hab. destruct (Nat.le_gt_cases (length a) (length p)) as [Hle|Hgt].
  - destruct (app_eq_app_le a b p [n] (eq_sym Hab) Hle) as (x & Hx & _). apply (Hc a x Hx).
  - assert (a = p ++ [n]).
    { apply (f_equal (@length name)) in Hab as Hlen. rewrite !app_length in Hlen. cbn in Hlen.
      assert (b = []) by (destruct b; [reflexivity | cbn in Hlen; lia]). subst b. rewrite app_nil_r in Hab. congruence. }
    subst a. unfold get. destruct (p ++ [n]) eqn:E; [reflexivity | exact Hl].
Qed.

Lemma chain_frame_eq f f' p : chain f p -> (forall a b, p = a ++ b -> a <> [] -> lookup f' a = lookup f a) -> chain f' p.
Proof.
  intros Hc Hf a b Hab. specialize (Hc a b Hab). unfold get in *. destruct a as [|x a]; [reflexivity|].
  rewrite (Hf (x :: a) b Hab) by discriminate. exact Hc.
Qed.

(* a prefix of one entry's place that lies below another top-level name: the names are equal *)
Lemma prefix_under_top k k' t' a b : d ++ k' :: t' = a ++ b -> is_prefix (d ++ [k]) a = true -> k = k'.
Proof.
  intros Hab Hp. apply is_prefix_spec in Hp as (r & ->). rewrite <- !app_assoc in Hab. apply app_inv_head in Hab.
  cbn [app] in Hab. inversion Hab. reflexivity.
Qed.

(* in archive mode every item is a top-level entry *)
Lemma arch_top items e : tr_ready' items -> tr_archive_mode c = true -> In e (map fst items) -> tr_tail c e = [].
Proof.
  intros (_ & _ & Hpar & _ & _ & _ & Hnd) Ham Hin. specialize (Hnd Ham).
  destruct (tr_tail c e) eqn:Et; [reflexivity|]. exfalso.
  apply in_split in Hin as (pre & post & Hes). destruct (Hpar pre e post Hes) as (e' & Hin' & _ & Hid & _); [rewrite Et; discriminate|].
  rewrite Hes in Hnd. apply (nodup_mid te_id _ _ _ Hnd e' Hin' Hid).
Qed.

(* the state after an entry, however it was received: only its own place (an archive: what is below its
   name) differs from the state before, a directory is there, the name map has the entry *)
Lemma pinv_step items st done e sc todo st' : tr_ready' items -> items = done ++ (e, sc) :: todo -> PInv st (map fst done) ->
  (forall q, q <> [] -> (if tr_has_subs e then is_prefix (leaf_of e) q = false else q <> leaf_of e) ->
     lookup (st_fs st') q = lookup (st_fs st) q) ->
  (te_isdir e = true -> lookup (st_fs st') (leaf_of e) = Some Dir) ->
  st_map st' = map_after st e -> resolves st e ->
  chain (st_fs st) (d ++ removelast (tr_key c e :: tr_tail c e)) ->
  PInv st' (map fst (done ++ [(e, sc)])).
Proof.
  intros Hr Hes (Hc & Hdirs & Hmap & Hframe) Hfr Hl' Hmp Hres Hparent.
  pose proof Hr as (Hclean & Hdist & Hpar & Hids & _ & Harc & Hnd).
  assert (Hesf : map fst items = map fst done ++ e :: map fst todo) by (rewrite Hes, map_app; reflexivity).
  assert (Hin : In e (map fst items)) by (rewrite Hesf; apply in_or_app; right; left; reflexivity).
  (* the places of the other entries are not touched by this one *)
  assert (Hsub_e : tr_has_subs e = true -> tr_archive_mode c = true /\ leaf_of e = d ++ [tr_key c e]).
  { intro Hs. assert (Hne : te_subs e <> []) by (unfold tr_has_subs in Hs; destruct (te_subs e); discriminate).
    destruct (Harc e Hin Hne) as (Ham & _). split; [exact Ham|]. unfold tr_leaf_of. rewrite (arch_top items e Hr Ham Hin). reflexivity. }
  assert (Hother : forall e', In e' (map fst done) -> forall a b, leaf_of e' = a ++ b -> a <> [] ->
            (if tr_has_subs e then is_prefix (leaf_of e) a = false else a <> leaf_of e)).
  { intros e' Hin' a b Hab Ha. destruct (tr_has_subs e) eqn:Hs.
    - destruct (Hsub_e eq_refl) as [Ham Hle]. rewrite Hle.
      destruct (is_prefix (d ++ [tr_key c e]) a) eqn:Ep; [|reflexivity]. exfalso.
      unfold tr_leaf_of in Hab. pose proof (prefix_under_top _ _ _ _ _ Hab Ep) as Hk.
      assert (Hid : te_id e = te_id e') by (apply Hids; [exact Hin | rewrite Hesf; apply in_or_app; left; exact Hin' | exact Hk]).
      specialize (Hnd Ham). rewrite Hesf in Hnd. apply (nodup_mid te_id _ _ _ Hnd e' Hin'). congruence.
    - intros ->. pose proof (Hdirs e') as Hx. clear Hx.
      (* a proper prefix of an earlier place, or that place itself: the latter is excluded by distinctness,
         the former is a directory chain element, handled by the callers *)
      destruct b as [|b0 b].
      + rewrite app_nil_r in Hab. unfold tr_leaf_of in Hab. apply app_inv_head in Hab.
        rewrite Hesf, map_app in Hdist. cbn [map] in Hdist. apply NoDup_remove_2 in Hdist. apply Hdist.
        rewrite <- Hab. apply in_or_app. left. apply in_map_iff. exists e'. auto.
      + (* the new place is a proper prefix of an earlier one: then the new entry is that one's ancestor
           directory and would have had to come first *)
        exfalso. assert (Hlt : (length (tr_key c e :: tr_tail c e) < length (tr_key c e' :: tr_tail c e'))%nat).
        { unfold tr_leaf_of in Hab. apply (f_equal (@length name)) in Hab. rewrite !app_length in Hab. cbn [length] in *. lia. }
        (* walk up from e' to the ancestor of the length of e's path *)
        assert (Hanc : forall n x, In x (map fst done) -> (length (tr_key c x :: tr_tail c x) = n + length (tr_key c e :: tr_tail c e))%nat ->
                  is_prefix (leaf_of e) (leaf_of x) = true -> False).
        { induction n as [|n IHn]; intros x Hx Hlen Hpx.
          - apply is_prefix_spec in Hpx as (r & Hr'). unfold tr_leaf_of in Hr'. rewrite <- app_assoc in Hr'. apply app_inv_head in Hr'.
            assert (r = []).
            { apply (f_equal (@length name)) in Hr'. rewrite app_length in Hr'. cbn [plus] in Hlen. destruct r; [reflexivity | cbn [length] in *; lia]. }
            subst r. rewrite app_nil_r in Hr'.
            rewrite Hesf, map_app in Hdist. cbn [map] in Hdist. apply NoDup_remove_2 in Hdist. apply Hdist.
            rewrite <- Hr'. apply in_or_app. left. apply in_map_iff. exists x. auto.
          - assert (Htx : tr_tail c x <> []).
            { intro Ht0. rewrite Ht0 in Hlen. cbn [length] in Hlen. lia. }
            apply in_split in Hx as (pre & post & Hdone).
            assert (Hsplit : map fst items = pre ++ x :: (post ++ e :: map fst todo)).
            { rewrite Hesf, Hdone, <- app_assoc. reflexivity. }
            destruct (Hpar pre x _ Hsplit Htx) as (y & Hy & _ & _ & Hky).
            apply (IHn y).
            + rewrite Hdone. apply in_or_app. left. exact Hy.
            + rewrite Hky. assert (Hl2 : (length (removelast (tr_key c x :: tr_tail c x)) = length (tr_key c x :: tr_tail c x) - 1)%nat).
              { destruct (tr_tail c x) as [|t0 tl0] using rev_ind; [congruence|]. clear IHtl0.
                change (tr_key c x :: tl0 ++ [t0]) with ((tr_key c x :: tl0) ++ [t0]). rewrite removelast_last, app_length. cbn. lia. }
              lia.
            + unfold tr_leaf_of. rewrite Hky. apply is_prefix_spec in Hpx as (r & Hr'). unfold tr_leaf_of in Hr'.
              rewrite <- app_assoc in Hr'. apply app_inv_head in Hr'.
              destruct r as [|r0 r] using rev_ind.
              { exfalso. rewrite app_nil_r in Hr'. rewrite Hr' in Hlen. lia. }
              clear IHr. rewrite app_assoc in Hr'. rewrite Hr', removelast_last. apply is_prefix_spec. exists r. rewrite <- app_assoc. reflexivity. }
        apply (Hanc (length (tr_key c e' :: tr_tail c e') - length (tr_key c e :: tr_tail c e))%nat e' Hin'); [lia|].
        apply is_prefix_spec. exists (b0 :: b). exact Hab. }
  unfold PInv. split; [|split; [|split]].
  - apply (chain_frame_eq _ _ _ Hc). intros a b Hab Ha. apply Hfr; [exact Ha|].
    destruct (tr_has_subs e) eqn:Hs.
    + destruct (Hsub_e eq_refl) as [_ ->]. apply (is_prefix_longer d _ a b Hab).
    + intro Heq. apply (f_equal (@length name)) in Heq. unfold tr_leaf_of in Heq. rewrite Hab, !app_length in Heq. cbn in Heq. lia.
  - intros e' Hin' Hd'. rewrite map_app in Hin'. cbn [map fst] in Hin'. apply in_app_or in Hin' as [Hin'|[<-|[]]].
    + apply (chain_frame_eq _ _ _ (Hdirs e' Hin' Hd')). intros a b Hab Ha. apply Hfr; [exact Ha|].
      apply (Hother e' Hin' a b Hab Ha).
    + (* the new directory: its parent chain plus itself *)
      specialize (Hl' Hd').
      assert (Hsp : leaf_of e = (d ++ removelast (tr_key c e :: tr_tail c e)) ++ [last (tr_key c e :: tr_tail c e) []]).
      { unfold tr_leaf_of. rewrite <- app_assoc. f_equal. apply app_removelast_last. discriminate. }
      rewrite Hsp in Hl' |- *. apply chain_extend; [|exact Hl'].
      apply (chain_frame_eq _ _ _ Hparent). intros a b Hab Ha. apply Hfr; [exact Ha|].
      destruct (tr_has_subs e) eqn:Hs.
      * destruct (Hsub_e eq_refl) as [Ham Hle]. rewrite Hle. rewrite (arch_top items e Hr Ham Hin) in Hab.
        cbn [removelast] in Hab. rewrite app_nil_r in Hab. apply (is_prefix_longer d _ a b Hab).
      * intro Heq. rewrite Hsp in Heq. subst a. apply (f_equal (@length name)) in Hab. rewrite !app_length in Hab. cbn in Hab. lia.
  - intros Eo Ej. destruct (Hmap Eo Ej) as (Hm1 & Hm2). rewrite Hmp. unfold map_after. rewrite Eo, Ej.
    specialize (Hres Eo Ej). rewrite map_app. cbn [map fst]. destruct (map_get (st_map st) (te_id e)) as [v|] eqn:Em.
    + subst v. split.
      * intros e' Hin'. apply in_app_or in Hin' as [Hin'|[<-|[]]]; [apply Hm1, Hin' | exact Em].
      * intros id v Hv. destruct (Hm2 _ _ Hv) as (e' & Hi & He). exists e'. split; [apply in_or_app; left; exact Hi | exact He].
    + split.
      * intros e' Hin'. cbn [map_get]. apply in_app_or in Hin' as [Hin'|[<-|[]]].
        -- destruct (Z.eqb (te_id e) (te_id e')) eqn:Ez; [|apply Hm1, Hin'].
           apply Z.eqb_eq in Ez. rewrite Ez, (Hm1 e' Hin') in Em. discriminate.
        -- rewrite Z.eqb_refl. reflexivity.
      * intros id v. cbn [map_get]. destruct (Z.eqb (te_id e) id) eqn:Ez.
        -- intros _. apply Z.eqb_eq in Ez. exists e. split; [apply in_or_app; right; left; reflexivity | exact Ez].
        -- intro Hv. destruct (Hm2 _ _ Hv) as (e' & Hi & He). exists e'. split; [apply in_or_app; left; exact Hi | exact He].
  - intros q Hq Hun. rewrite map_app in Hun. cbn [map fst] in Hun.
    assert (Hine : In e (map fst done ++ [e])) by (apply in_or_app; right; left; reflexivity).
    destruct (Hun e Hine) as [Hq1 Hq2].
    rewrite Hfr; [apply Hframe; [exact Hq|] | exact Hq|].
    + intros e' Hi. apply Hun. apply in_or_app; left; exact Hi.
    + destruct (tr_has_subs e) eqn:Hs; [|exact Hq1]. apply Hq2. unfold tr_has_subs in Hs. destruct (te_subs e); discriminate.
Qed.

Lemma progress_step items st done e sc todo : tr_ready' items -> tr_hdrs_ok ahdr aparse (map fst items) ->
  items = done ++ (e, sc) :: todo -> PInv st (map fst done) ->
  exists st', spec_entry e sc st = Some (tr_key c e, st') /\ tr_coll_ok hx c d e st /\ PInv st' (map fst (done ++ [(e, sc)])).
Proof.
  intros Hr Hh Hes HI. pose proof HI as (Hc & Hdirs & Hmap & Hframe).
  pose proof Hr as (Hclean & Hdist & Hpar & Hids & Hplaces & Harc & Hnd).
  assert (Hesf : map fst items = map fst done ++ e :: map fst todo) by (rewrite Hes, map_app; reflexivity).
  assert (Hin : In e (map fst items)) by (rewrite Hesf; apply in_or_app; right; left; reflexivity).
  assert (Hce : entry_clean e) by (rewrite Forall_forall in Hclean; apply Hclean, Hin).
  pose proof Hce as (Hfine & Hrel & Hdj).
  (* the parent directory is there *)
  assert (Hparent : chain (st_fs st) (d ++ removelast (tr_key c e :: tr_tail c e))).
  { destruct (tr_tail c e) as [|t0 tl0] eqn:Et; [cbn [removelast]; rewrite app_nil_r; exact Hc|].
    destruct (Hpar (map fst done) e (map fst todo) Hesf) as (e' & Hin' & Hd' & _ & Hk'); [rewrite Et; discriminate|].
    rewrite Et in Hk'. rewrite <- Hk'. apply (Hdirs e' Hin' Hd'). }
  (* the place of the entry is as it was at the start *)
  assert (Hsame : lookup (st_fs st) (leaf_of e) = lookup f0 (leaf_of e)).
  { apply Hframe; [apply leaf_not_nil|]. intros e' Hin'. split.
    - intro Heq. unfold tr_leaf_of in Heq. apply app_inv_head in Heq.
      rewrite Hesf, map_app in Hdist. cbn [map] in Hdist. apply NoDup_remove_2 in Hdist. apply Hdist.
      rewrite Heq. apply in_or_app. left. apply in_map_iff. exists e'. auto.
    - intro Hne. assert (Hin2 : In e' (map fst items)) by (rewrite Hesf; apply in_or_app; left; exact Hin').
      destruct (Harc e' Hin2 Hne) as (Ham & _). unfold tr_leaf_of. rewrite (arch_top items e' Hr Ham Hin2).
      apply is_prefix_top. intro Hk. specialize (Hnd Ham). rewrite Hesf in Hnd.
      apply (nodup_mid te_id _ _ _ Hnd e' Hin'). apply Hids; [exact Hin2 | exact Hin | symmetry; exact Hk]. }
  assert (Hpl0 : tr_place_ok hx c d f0 (e, sc)) by (apply Hplaces; rewrite Hes; apply in_or_app; right; left; reflexivity).
  unfold tr_place_ok in Hpl0. cbn [fst snd] in Hpl0.
  assert (Hplace : place_st st e).
  { unfold place_st. rewrite Hsame. destruct Hpl0 as [Hl|(Eo & Hd & old & Hl & _)]; [left; exact Hl | right; eauto]. }
  assert (Hres : resolves st e).
  { intros Eo Ej. destruct (Hmap Eo Ej) as (Hm1 & Hm2). destruct (map_get (st_map st) (te_id e)) as [v|] eqn:Em.
    - destruct (Hm2 _ _ Em) as (e' & Hin' & Hid'). rewrite <- Hid', (Hm1 e' Hin') in Em. inversion Em as [Hv]. clear Em.
      apply Hids; [rewrite Hesf; apply in_or_app; left; exact Hin' | exact Hin | exact Hid'].
    - destruct (tr_tail c e) eqn:Et; [reflexivity|]. exfalso.
      destruct (Hpar (map fst done) e (map fst todo) Hesf) as (e' & Hin' & _ & Hid' & _); [rewrite Et; discriminate|].
      rewrite <- Hid', (Hm1 e' Hin') in Em. discriminate. }
  assert (Harch : tr_has_subs e = true -> te_isdir e = true).
  { intro Hs. assert (Hne : te_subs e <> []) by (unfold tr_has_subs in Hs; destruct (te_subs e); discriminate).
    apply (Harc e Hin Hne). }
  assert (E0 : te_isdir e && negb (tr_json c) = false).
  { destruct (te_isdir e); [rewrite (Hdj eq_refl); reflexivity | reflexivity]. }
  (* the first creation, with nothing written *)
  destruct (create_ready e st [] Hc Hce Harch Hparent Hplace Hres) as (st1 & E1 & Hl1 & Hfr1 & Hmp1).
  assert (Hleafeq : tr_leaf d (tr_key c e) (tr_payload c e) = leaf_of e).
  { unfold tr_leaf. fold (tr_tail c e). rewrite join_good by (apply fine_goods, Hfine). reflexivity. }
  (* the file the entry meets *)
  assert (Hold1 : tr_old_content st1 (leaf_of e) =
                  if te_isdir e then [] else if tr_json_names c then old_content (st_fs st) (leaf_of e) else []).
  { unfold tr_old_content. rewrite Hl1. destruct (te_isdir e); [reflexivity|]. rewrite write0_nil_r. destruct (tr_json_names c); reflexivity. }
  assert (Hcoll : tr_coll_ok hx c d e st).
  { intros ln st1' E1' Hne. rewrite E1 in E1'. inversion E1'; subst ln st1'. rewrite Hleafeq in Hne |- *. rewrite Hold1 in Hne |- *.
    destruct (te_isdir e); [congruence|]. destruct (tr_json_names c); [|congruence].
    destruct Hpl0 as [Hl|(_ & _ & old & Hl & _ & Hnc)].
    - exfalso. apply Hne. unfold old_content. rewrite Hsame, Hl. reflexivity.
    - unfold old_content. rewrite Hsame, Hl. exact Hnc. }
  unfold tr_spec_entry. rewrite E0, E1.
  destruct (tr_has_subs e) eqn:Hsub.
  - (* an archive *)
    assert (Hne : te_subs e <> []) by (unfold tr_has_subs in Hsub; destruct (te_subs e); discriminate).
    destruct (Harc e Hin Hne) as (Ham & Hwf & Hd).
    destruct (arch_entry_ok ahdr e sc) as (f & Ef & Hdata & _). rewrite Ef, Hdata.
    destruct (unarchive_ok ahdr aparse e sc Hwf (fun s Hs => Hh e s Hin Hs)) as (t & Et & Ht). rewrite Et.
    eexists. split; [reflexivity|]. split; [exact Hcoll|].
    assert (Hle : leaf_of e = d ++ [tr_key c e]) by (unfold tr_leaf_of; rewrite (arch_top items e Hr Ham Hin); reflexivity).
    apply (pinv_step items st done e sc todo _ Hr Hes HI); [| | |exact Hres|exact Hparent].
    + intros q Hq Hnp. rewrite Hsub in Hnp. unfold tr_graft_st. rewrite set_fs_fs. rewrite Hle in Hnp.
      rewrite graft_lookup_out by exact Hnp. apply Hfr1; [exact Hq|]. intros ->.
      rewrite Hle in Hnp. pose proof (is_prefix_app (d ++ [tr_key c e]) []) as Hx. rewrite app_nil_r in Hx. congruence.
    + intros _. unfold tr_graft_st. rewrite set_fs_fs, Hle. apply (graft_root _ _ e t Ht).
    + unfold tr_graft_st. rewrite set_fs_map. exact Hmp1.
  - destruct (te_isdir e) eqn:Hd.
    + (* a directory *)
      eexists. split; [reflexivity|]. split; [exact Hcoll|].
      apply (pinv_step items st done e sc todo st1 Hr Hes HI); [| | exact Hmp1 | exact Hres | exact Hparent].
      * intros q Hq Hne. rewrite Hsub in Hne. apply Hfr1; assumption.
      * intros _. exact Hl1.
    + rewrite Hleafeq. unfold tr_target_size. rewrite Hleafeq, Hl1, write0_nil_r. cbv beta iota.
      match goal with |- exists st', (if ?b then _ else _) = _ /\ _ => destruct b eqn:E2 end.
      * (* the resume exchange *)
        apply andb_true_iff in E2 as [Ej E2]. rewrite Ej in E2, Hold1. rewrite Hold1.
        assert (Hold : exists old, lookup f0 (leaf_of e) = Some (File old) /\ old_content (st_fs st) (leaf_of e) = old /\
                    tr_stops_ok hx sc (te_data e) old).
        { unfold old_content in *. rewrite Hsame in *. destruct Hpl0 as [Hl|(_ & _ & old & Hl & Hst & _)]; rewrite Hl in *; [discriminate E2|].
          exists old. auto. }
        destruct Hold as (old & Hf0 & -> & Hst).
        destruct (resume_run_done hx c e sc old Hst) as (o & ->).
        eexists. split; [reflexivity|]. split; [exact Hcoll|].
        apply (pinv_step items st done e sc todo _ Hr Hes HI); [| | |exact Hres|exact Hparent].
        -- intros q Hq Hne. rewrite Hsub in Hne. rewrite set_file_lookup.
           destruct (path_eqb (leaf_of e) q) eqn:Eq; [apply path_eqb_eq in Eq; congruence|]. apply Hfr1; assumption.
        -- intro Hx; congruence.
        -- rewrite set_file_map. exact Hmp1.
      * (* a plain file *)
        assert (Harch' : tr_has_subs e = true -> te_isdir e = true) by (rewrite Hsub; discriminate).
        destruct (create_ready e st (te_data e) Hc Hce Harch' Hparent Hplace Hres) as (st2 & E3 & Hl2 & Hfr2 & Hmp2).
        rewrite E3. eexists. split; [reflexivity|]. split; [exact Hcoll|].
        apply (pinv_step items st done e sc todo st2 Hr Hes HI); [| | exact Hmp2 | exact Hres | exact Hparent].
        -- intros q Hq Hne. rewrite Hsub in Hne. apply Hfr2; assumption.
        -- intro Hx; congruence.
Qed.

Lemma progress_all items : tr_ready' items -> tr_hdrs_ok ahdr aparse (map fst items) ->
  forall todo done st names, items = done ++ todo -> PInv st (map fst done) ->
  exists all stf, spec todo st names = Some (map (tr_key c) (map fst todo), all, stf) /\
    tr_resume_safe hx ahdr aparse c d todo st /\ PInv stf (map fst items).
Proof.
  intros Hr Hh. induction todo as [|[e sc] todo IH]; intros done st names Hes HI.
  - cbn. rewrite app_nil_r in Hes. subst done. eauto.
  - destruct (progress_step items st done e sc todo Hr Hh Hes HI) as (st' & Es & Hcoll & HI').
    cbn [tr_spec map fst tr_resume_safe]. rewrite Es.
    destruct (IH (done ++ [(e, sc)]) st' (tr_add_name names (tr_key c e))) as (all & stf & E & Hsafe & HF); [rewrite <- app_assoc; exact Hes | exact HI'|].
    rewrite E. eauto 6.
Qed.

(* accepted, the premise about the digests holds along the run, and nothing but the entries' own places
   (for an archive: what is below its name) has changed *)
Theorem ready_accepts items : stat f0 d = SFound Dir -> tr_ready' items -> tr_hdrs_ok ahdr aparse (map fst items) ->
  exists all stf, spec items (init_state f0) [] = Some (map (tr_key c) (map fst items), all, stf) /\
    tr_resume_safe hx ahdr aparse c d items (init_state f0) /\
    forall q, q <> [] -> untouched (map fst items) q -> lookup (st_fs stf) q = lookup f0 q.
Proof.
  intros Hd Hr Hh.
  destruct (progress_all items Hr Hh items [] (init_state f0) [] eq_refl) as (all & stf & E & Hsafe & HF).
  - unfold PInv. cbn [init_state st_fs st_map map].
    split; [apply stat_dir_chain, Hd|]. split; [intros e Hf; destruct Hf|].
    split; [|reflexivity]. intros _ _. split; [intros e Hf; destruct Hf | intros id v Hv; discriminate Hv].
  - exists all, stf. split; [exact E|]. split; [exact Hsafe|]. destruct HF as (_ & _ & _ & F). exact F.
Qed.

Lemma nodup_map_coarser {A B C} (f : A -> B) (g : A -> C) (l : list A) :
  (forall x y, In x l -> In y l -> g x = g y -> f x = f y) -> NoDup (map f l) -> NoDup (map g l).
Proof.
  intros Hfg. induction l as [|x l IH]; intro Hn; [constructor|]. cbn [map] in *. inversion Hn as [|? ? Hx Hn']; subst.
  constructor.
  - intro Hin. apply in_map_iff in Hin as (y & Hy & Hiy). apply Hx. apply in_map_iff. exists y. split; [|exact Hiy].
    apply Hfg; [right; exact Hiy | left; reflexivity | exact Hy].
  - apply IH; [|exact Hn']. intros a b Ha Hb. apply Hfg; right; assumption.
Qed.

Theorem ready_wf items : tr_ready' items -> tr_wf c (map fst items).
Proof.
  intros (Hclean & Hdist & Hpar & Hids & _ & Harc & Hnd). unfold tr_wf. split; [|split; [|split]].
  - intros Eo Ej. split.
    + apply (nodup_map_coarser (fun e => tr_key c e :: tr_tail c e) _ (map fst items)); [|exact Hdist].
      intros x y Hx Hy Heq. inversion Heq as [[Hid Ht]]. f_equal; [apply Hids; assumption|].
      unfold tr_tail, tr_payload. rewrite Ej. cbn [tr_p_tail s_rel]. exact Ht.
    + intros pre e post Hes Ht. destruct (Hpar pre e post Hes) as (e' & Hi & _ & Hid & _); [|eauto].
      unfold tr_tail, tr_payload. rewrite Ej. exact Ht.
  - intros _. exact Hdist.
  - intros e He Hne. destruct (Harc e He Hne) as (A & B & _). split; assumption.
  - exact Hnd.
Qed.

End Progress.
