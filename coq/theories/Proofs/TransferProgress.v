(* When does the receiver's name handling accept every entry of a transfer?  A sufficient
   condition on the inputs alone ("clean names, parents first, nothing in the way"), so that the
   acceptance premise of C01_transfer can be discharged without running the specification. *)
From Coq Require Import ZArith Lia.
From Trzsz Require Import Base.Bytes Gen.Consts Model.Path Model.Fs Model.Names Model.Transfer
  Proofs.PathFs Proofs.Names Proofs.TransferFs.

(* ---------- success of the file-system primitives ---------- *)
Notation len_ok := tr_len_ok.
Notation comp_ok := tr_comp_ok.

Lemma walk_through f : forall p pre rest,
  (forall a b, p = a ++ b -> get f (pre ++ a) = Some Dir) -> Forall len_ok p ->
  walk f pre (p ++ rest) = walk f (pre ++ p) rest.
Proof.
  induction p as [|c p IH]; intros pre rest Hc Hl; [rewrite app_nil_r; reflexivity|].
  cbn [app walk]. pose proof (Hc [] (c :: p) eq_refl) as H0. rewrite app_nil_r in H0. rewrite H0.
  inversion Hl as [|? ? Hc1 Hl1]; subst. unfold tr_len_ok in Hc1. rewrite Hc1.
  rewrite IH; [rewrite <- app_assoc; reflexivity | | exact Hl1].
  intros a b Hab. rewrite <- app_assoc. apply (Hc (c :: a) b). cbn. congruence.
Qed.

Lemma bad_path_false p : Forall comp_ok p -> bad_path p = false.
Proof.
  intro Hp. unfold bad_path. induction Hp as [|n p [Hn _] _ IH]; [reflexivity|]. cbn [existsb]. rewrite Hn, IH. reflexivity.
Qed.

Lemma comp_len p : Forall comp_ok p -> Forall len_ok p.
Proof. intro Hp. induction Hp as [|n p [_ Hn] _ IH]; constructor; assumption. Qed.

Lemma stat_chain_dir f p : chain f p -> Forall comp_ok p -> stat f p = SFound Dir.
Proof.
  intros Hc Hp. unfold stat. rewrite (bad_path_false p Hp).
  pose proof (walk_through f p [] [] (fun a b Hab => Hc a b Hab) (comp_len p Hp)) as Hw.
  rewrite app_nil_r in Hw. rewrite Hw. cbn [walk app]. rewrite (Hc p [] (eq_sym (app_nil_r p))). reflexivity.
Qed.

Lemma stat_absent f p n : chain f p -> Forall comp_ok p -> comp_ok n -> lookup f (p ++ [n]) = None ->
  stat f (p ++ [n]) = SNotExist.
Proof.
  intros Hc Hp Hn Hl. unfold stat.
  rewrite (bad_path_false (p ++ [n])) by (apply Forall_app; split; [exact Hp | constructor; [exact Hn | constructor]]).
  rewrite (walk_through f p [] [n] (fun a b Hab => Hc a b Hab) (comp_len p Hp)). cbn [app walk].
  rewrite (Hc p [] (eq_sym (app_nil_r p))). destruct Hn as [_ Hn]. unfold tr_len_ok in Hn. rewrite Hn.
  unfold get. destruct (p ++ [n]) eqn:E; [destruct p; discriminate|]. rewrite Hl. reflexivity.
Qed.

Lemma removelast_snoc {A} (l : list A) x : removelast (l ++ [x]) = l.
Proof. apply removelast_last. Qed.
Lemma last_snoc {A} (l : list A) x dflt : last (l ++ [x]) dflt = x.
Proof. apply last_last. Qed.

Lemma open_create_ok f p n t pl : chain f p -> Forall comp_ok p -> comp_ok n ->
  lookup f (p ++ [n]) <> Some Dir -> exists f' es, open_create f (p ++ [n]) t pl = Some (f', es).
Proof.
  intros Hc Hp [Hn1 Hn2] Hl. unfold open_create.
  destruct (p ++ [n]) as [|x0 p0] eqn:E; [destruct p; discriminate|]. rewrite <- E in *.
  rewrite removelast_snoc, last_snoc, (stat_chain_dir f p Hc Hp), Hn1. unfold tr_len_ok in Hn2. rewrite Hn2. cbn [orb].
  destruct (lookup f (p ++ [n])) as [[old|]|]; [eauto | congruence | eauto].
Qed.

(* MkdirAll of an existing chain plus one absent component *)
Lemma mk_down_new f : forall p pre n,
  (forall a b, p = a ++ b -> a <> [] -> lookup f (pre ++ a) = Some Dir) -> Forall comp_ok p -> comp_ok n ->
  lookup f (pre ++ p ++ [n]) = None ->
  exists f' es, mk_down f pre (p ++ [n]) = (true, f', es).
Proof.
  induction p as [|c p IH]; intros pre n Hc Hp [Hn1 Hn2] Hl.
  - cbn [app mk_down]. unfold tr_len_ok in Hn2. rewrite Hn1, Hn2. cbn [orb]. cbn [app] in Hl. rewrite Hl. eauto.
  - cbn [app mk_down]. inversion Hp as [|? ? [Hc1 Hc2] Hp1]; subst. unfold tr_len_ok in Hc2. rewrite Hc1, Hc2. cbn [orb].
    pose proof (Hc [c] p eq_refl ltac:(discriminate)) as H0. rewrite H0.
    apply (IH (pre ++ [c]) n); [| exact Hp1 | split; assumption |].
    + intros a b Hab Ha. rewrite <- app_assoc. apply (Hc (c :: a) b); [cbn; congruence | discriminate].
    + rewrite <- app_assoc. exact Hl.
Qed.

Lemma chain_lookup f p : chain f p -> forall a b, p = a ++ b -> a <> [] -> lookup f ([] ++ a) = Some Dir.
Proof. intros Hc a b Hab Ha. specialize (Hc a b Hab). unfold get in Hc. destruct a; [congruence | exact Hc]. Qed.

(* doCreateDirectory succeeds on an existing directory and on an absent name in an existing chain *)
Lemma do_create_directory_ok p n st : chain (st_fs st) p -> Forall comp_ok p -> comp_ok n ->
  lookup (st_fs st) (p ++ [n]) = None \/ lookup (st_fs st) (p ++ [n]) = Some Dir ->
  exists st', do_create_directory (p ++ [n]) st = (true, st').
Proof.
  intros Hc Hp Hn Hl. unfold do_create_directory. destruct Hl as [Hl|Hl].
  - rewrite (stat_absent _ p n Hc Hp Hn Hl). unfold mkdir_all.
    destruct (mk_down_new (st_fs st) p [] n (chain_lookup _ _ Hc) Hp Hn Hl) as (f' & es & ->). eauto.
  - assert (Hc2 : chain (st_fs st) (p ++ [n])).
    { intros a b Hab. destruct (Nat.le_gt_cases (length a) (length p)) as [Hle|Hgt].
      - destruct (app_eq_app_le a b p [n] (eq_sym Hab) Hle) as (e & He & _). apply (Hc a e He).
      - assert (a = p ++ [n]).
        { apply (f_equal (@length name)) in Hab as Hlen. rewrite !app_length in Hlen. cbn in Hlen.
          assert (b = []) by (destruct b; [reflexivity | cbn in Hlen; lia]). subst b. rewrite app_nil_r in Hab. congruence. }
        subst a. unfold get. destruct (p ++ [n]) eqn:E; [reflexivity|]. exact Hl. }
    rewrite (stat_chain_dir _ _ Hc2) by (apply Forall_app; split; [exact Hp | constructor; [exact Hn | constructor]]). eauto.
Qed.

Lemma classic_prefix (q p : path) : (exists b, p = q ++ b) \/ ~ (exists b, p = q ++ b).
Proof.
  destruct (is_prefix q p) eqn:E; [left; apply is_prefix_spec; exact E|].
  right. intro Hx. apply is_prefix_spec in Hx. congruence.
Qed.

Lemma do_create_directory_exists q st : chain (st_fs st) q -> Forall comp_ok q ->
  do_create_directory q st = (true, st).
Proof. intros Hc Hq. unfold do_create_directory. rewrite (stat_chain_dir _ _ Hc Hq). reflexivity. Qed.

(* ... and when it creates, only the new name changes *)
Lemma do_create_directory_new p n st : chain (st_fs st) p -> Forall comp_ok p -> comp_ok n ->
  lookup (st_fs st) (p ++ [n]) = None ->
  exists st', do_create_directory (p ++ [n]) st = (true, st') /\ st_map st' = st_map st /\
    lookup (st_fs st') (p ++ [n]) = Some Dir /\
    forall q, q <> [] -> q <> p ++ [n] -> lookup (st_fs st') q = lookup (st_fs st) q.
Proof.
  intros Hc Hp Hn Hl. destruct (do_create_directory_ok p n st Hc Hp Hn (or_introl Hl)) as (st' & E).
  exists st'. split; [exact E|].
  assert (Hne : p ++ [n] <> []) by (destruct p; discriminate).
  destruct (do_create_directory_result _ _ _ Hne E) as (A & B & C). split; [exact C|]. split; [exact A|].
  intros q Hq0 Hq. destruct (lookup (st_fs st) q) eqn:El; [rewrite <- El; apply B; left; congruence|].
  rewrite <- El. apply B. destruct (classic_prefix q (p ++ [n])) as [(b & Hb)|Hnp]; [|right; exact Hnp].
  (* q is a prefix of p ++ [n], different from it: a prefix of p, hence a directory *)
  left. assert (Hpre : exists b', p = q ++ b').
  { destruct b as [|x b] using rev_ind; [rewrite app_nil_r in Hb; congruence|].
    clear IHb. rewrite app_assoc in Hb. apply app_inj_tail in Hb as [Hb _]. eauto. }
  destruct Hpre as (b' & Hb'). specialize (Hc q b' Hb'). unfold get in Hc. destruct q; congruence.
Qed.

Lemma names_max_len_is_name_max : names_max_len = name_max.
Proof. reflexivity. Qed.

Lemma do_create_file_new p n t x st : chain (st_fs st) p -> Forall comp_ok p -> comp_ok n ->
  lookup (st_fs st) (p ++ [n]) = None ->
  exists st', do_create_file (p ++ [n]) t x st = (true, st') /\ st_map st' = st_map st /\
    lookup (st_fs st') (p ++ [n]) = Some (File x) /\
    forall q, q <> p ++ [n] -> lookup (st_fs st') q = lookup (st_fs st) q.
Proof.
  intros Hc Hp Hn Hl.
  destruct (open_create_ok (st_fs st) p n t x Hc Hp Hn) as (f' & es & E); [rewrite Hl; discriminate|].
  unfold do_create_file. rewrite E. eexists. split; [reflexivity|]. cbn [st_map st_fs]. split; [reflexivity|].
  destruct (open_create_result _ _ _ _ _ _ E) as (A & B & _). split; [|exact B].
  rewrite A. unfold old_content. rewrite Hl. destruct t; rewrite write0_nil_l; reflexivity.
Qed.

Section Progress.
Variable c : tr_cfg.
Variable d : path.
Hypothesis Hd_ok : Forall comp_ok d.

Notation name_fine := tr_name_fine.
Notation entry_clean := (tr_entry_clean c).
Notation leaf_of := (tr_leaf_of c d).

(* how the local name will be resolved to the name as sent *)
Definition resolves (st : state) (e : tr_entry) : Prop :=
  tc_overwrite c = false -> tr_json c = true ->
  match map_get (st_map st) (te_id e) with Some v => v = tr_key c e | None => tr_tail c e = [] end.

Definition map_after (st : state) (e : tr_entry) : list (Z * name) :=
  if tc_overwrite c then st_map st
  else if tr_json c then
    match map_get (st_map st) (te_id e) with Some _ => st_map st | None => (te_id e, tr_key c e) :: st_map st end
  else st_map st.

Lemma fine_good n : name_fine n -> good n.
Proof. intros [Hv _]. apply valid_name_good, Hv. Qed.
Lemma fine_comp l : Forall name_fine l -> Forall comp_ok l.
Proof. intro Hl. induction Hl as [|n l [_ Hn] _ IH]; constructor; assumption. Qed.
Lemma fine_goods l : Forall name_fine l -> Forall good l.
Proof. intro Hl. induction Hl as [|n l Hn _ IH]; constructor; [apply fine_good, Hn | assumption]. Qed.
Lemma fine_valid l : Forall name_fine l -> forallb valid_name l = true.
Proof. intro Hl. induction Hl as [|n l [Hn _] _ IH]; [reflexivity|]. cbn [forallb]. rewrite Hn, IH. reflexivity. Qed.

Lemma get_new_name_self f nm : chain f d -> name_fine nm -> lookup f (d ++ [nm]) = None -> get_new_name f d nm = Some nm.
Proof.
  intros Hc [Hv [Hn1 Hn2]] Hl. unfold get_new_name. rewrite names_max_len_is_name_max. unfold tr_len_ok in Hn2. rewrite Hn2.
  rewrite join_good by (constructor; [apply valid_name_good, Hv | constructor]).
  rewrite (stat_absent f d nm Hc Hd_ok (conj Hn1 Hn2) Hl). reflexivity.
Qed.

Lemma create_ready e st x :
  chain (st_fs st) d -> entry_clean e ->
  chain (st_fs st) (d ++ removelast (tr_key c e :: tr_tail c e)) ->
  lookup (st_fs st) (leaf_of e) = None -> resolves st e ->
  exists st', tr_create c d (tr_payload c e) x st = (NOk (tr_key c e), st') /\
    lookup (st_fs st') (leaf_of e) = Some (if te_isdir e then Dir else File x) /\
    (forall q, q <> [] -> q <> leaf_of e -> lookup (st_fs st') q = lookup (st_fs st) q) /\
    st_map st' = map_after st e.
Proof.
  intros Hc (Hfine & Hrel & Hdj) Hpar Hleaf Hres. unfold tr_leaf_of, map_after, resolves in *.
  unfold tr_create, tr_key, tr_tail, tr_payload in *. destruct (tr_json c) eqn:Ej.
  - (* JSON names *)
    cbn [tr_p_head tr_p_tail s_rel] in *. destruct (te_rel e) as [|r0 rest] eqn:Er; [exfalso; apply Hrel; reflexivity|].
    cbn [hd tl] in *. clear Hrel.
    assert (HJ : forall t, exists st',
      recv_json code_checks (tr_names_cfg c) d
        (Some {| s_id := te_id e; s_rel := r0 :: rest; s_isdir := te_isdir e; s_archive := false |}) t x st = (NOk r0, st') /\
      lookup (st_fs st') (d ++ r0 :: rest) = Some (if te_isdir e then Dir else File x) /\
      (forall q, q <> [] -> q <> d ++ r0 :: rest -> lookup (st_fs st') q = lookup (st_fs st) q) /\
      st_map st' = (if tc_overwrite c then st_map st
                    else match map_get (st_map st) (te_id e) with Some _ => st_map st | None => (te_id e, r0) :: st_map st end)).
    { intro t. unfold recv_json. cbn [s_rel]. destruct code_checks_on as [Hu _]. rewrite Hu, (fine_valid _ Hfine). cbn [andb negb].
      unfold create_dir_or_file. cbn [tr_names_cfg overwrite s_id s_isdir s_archive].
      inversion Hfine as [|? ? Hf0 Hfr]; subst.
      (* the chosen name is r0, the file system is untouched by the choice *)
      set (chosen := if tc_overwrite c then Some (r0, st) else _).
      assert (Hch : exists st1, chosen = Some (r0, st1) /\ st_fs st1 = st_fs st /\
                st_map st1 = (if tc_overwrite c then st_map st
                              else match map_get (st_map st) (te_id e) with Some _ => st_map st | None => (te_id e, r0) :: st_map st end)).
      { subst chosen. destruct (tc_overwrite c) eqn:Eo; [exists st; auto|]. specialize (Hres eq_refl eq_refl).
        destruct (map_get (st_map st) (te_id e)) as [v|] eqn:Em; [subst v; exists st; auto|]. subst rest.
        rewrite (get_new_name_self _ r0 Hc Hf0 Hleaf). eexists. split; [reflexivity|]. split; reflexivity. }
      destruct Hch as (st1 & -> & Ef & Em1).
      assert (Hc1 : chain (st_fs st1) d) by (rewrite Ef; exact Hc).
      destruct rest as [|c2 rest].
      - rewrite join_good by (constructor; [apply fine_good, Hf0 | constructor]). unfold create_leaf. cbn [s_archive s_isdir].
        rewrite <- Ef in Hleaf. destruct (te_isdir e).
        + destruct (do_create_directory_new d r0 st1 Hc1 Hd_ok (proj2 Hf0) Hleaf) as (st' & E & M & A & B).
          rewrite E. exists st'. split; [reflexivity|]. split; [exact A|]. split; [intros q H1 H2; rewrite <- Ef; apply B; assumption|].
          rewrite M. exact Em1.
        + destruct (do_create_file_new d r0 t x st1 Hc1 Hd_ok (proj2 Hf0) Hleaf) as (st' & E & M & A & B).
          rewrite E. exists st'. split; [reflexivity|]. split; [exact A|]. split; [intros q _ H2; rewrite <- Ef; apply B; assumption|].
          rewrite M. exact Em1.
      - destruct (forall_good_split (c2 :: rest) ltac:(discriminate) (fine_goods _ Hfr)) as [Hgm Hgl].
        assert (Hsplit : c2 :: rest = removelast (c2 :: rest) ++ [last (c2 :: rest) []]) by (apply app_removelast_last; discriminate).
        set (mids := removelast (c2 :: rest)) in *. set (lst := last (c2 :: rest) []) in *.
        assert (Hfm : Forall name_fine mids /\ name_fine lst).
        { rewrite Hsplit in Hfr. apply Forall_app in Hfr as [A B]. inversion B; auto. }
        destruct Hfm as [Hfm Hfl].
        rewrite (join_good (r0 :: mids)) by (constructor; [apply fine_good, Hf0 | exact Hgm]).
        assert (Hparent : d ++ removelast (r0 :: c2 :: rest) = d ++ r0 :: mids) by reflexivity.
        rewrite Hparent in Hpar. rewrite <- Ef in Hpar, Hleaf.
        assert (Hpc : Forall comp_ok (d ++ r0 :: mids)).
        { apply Forall_app. split; [exact Hd_ok|]. constructor; [exact (proj2 Hf0) | apply fine_comp, Hfm]. }
        rewrite (do_create_directory_exists _ st1 Hpar Hpc).
        rewrite join_good by (constructor; [apply fine_good, Hfl | constructor]).
        assert (Hlf : (d ++ r0 :: mids) ++ [lst] = d ++ r0 :: c2 :: rest) by (rewrite Hsplit, <- app_assoc; reflexivity).
        rewrite <- Hlf in Hleaf |- *. unfold create_leaf. cbn [s_archive s_isdir]. destruct (te_isdir e).
        + destruct (do_create_directory_new _ lst st1 Hpar Hpc (proj2 Hfl) Hleaf) as (st' & E & M & A & B).
          rewrite E. exists st'. split; [reflexivity|]. split; [exact A|]. split; [intros q H1 H2; rewrite <- Ef; apply B; assumption|].
          rewrite M. exact Em1.
        + destruct (do_create_file_new _ lst t x st1 Hpar Hpc (proj2 Hfl) Hleaf) as (st' & E & M & A & B).
          rewrite E. exists st'. split; [reflexivity|]. split; [exact A|]. split; [intros q _ H2; rewrite <- Ef; apply B; assumption|].
          rewrite M. exact Em1. }
    destruct (tr_json_names c) eqn:Ejn; [apply HJ|].
    assert (Hdir : tc_directory c = true) by (unfold tr_json in Ej; rewrite Ejn in Ej; exact Ej).
    rewrite Hdir. apply HJ.
  - (* the plain name *)
    cbn [tr_p_head tr_p_tail] in *. inversion Hfine as [|? ? Hf0 _]; subst.
    assert (Hnd : te_isdir e = false) by (destruct (te_isdir e); [specialize (Hdj eq_refl); discriminate | reflexivity]).
    rewrite Hnd. unfold create_file. destruct code_checks_on as [_ Hck]. rewrite Hck, (proj1 Hf0). cbn [andb negb].
    cbn [tr_names_cfg overwrite].
    assert (Hname : (if tc_overwrite c then Some (te_name e) else get_new_name (st_fs st) d (te_name e)) = Some (te_name e)).
    { destruct (tc_overwrite c); [reflexivity|]. apply get_new_name_self; assumption. }
    rewrite Hname. rewrite join_good by (constructor; [apply fine_good, Hf0 | constructor]).
    destruct (do_create_file_new d (te_name e) true x st Hc Hd_ok (proj2 Hf0) Hleaf) as (st' & E & M & A & B).
    rewrite E. exists st'. split; [reflexivity|]. split; [exact A|]. split; [intros q _ H2; apply B; assumption|].
    rewrite M. destruct (tc_overwrite c); reflexivity.
Qed.


(* ---------- the whole list ---------- *)
Variable f0 : fs.

Notation tr_ready' := (tr_ready c d f0).

Definition PInv (st : state) (done todo : list tr_entry) : Prop :=
  chain (st_fs st) d /\
  (forall e, In e done -> te_isdir e = true -> chain (st_fs st) (leaf_of e)) /\
  (forall e, In e todo -> lookup (st_fs st) (leaf_of e) = None) /\
  (tc_overwrite c = false -> tr_json c = true ->
     (forall e, In e done -> map_get (st_map st) (te_id e) = Some (tr_key c e)) /\
     (forall id v, map_get (st_map st) id = Some v -> exists e, In e done /\ te_id e = id)) /\
  (forall q, q <> [] -> (forall e, In e done -> q <> leaf_of e) -> lookup (st_fs st) q = lookup f0 q).

Lemma leaf_not_nil e : leaf_of e <> [].
Proof. unfold tr_leaf_of. destruct d; discriminate. Qed.

Lemma chain_extend f p n : chain f p -> lookup f (p ++ [n]) = Some Dir -> chain f (p ++ [n]).
Proof.
  intros Hc Hl a b Hab. destruct (Nat.le_gt_cases (length a) (length p)) as [Hle|Hgt].
  - destruct (app_eq_app_le a b p [n] (eq_sym Hab) Hle) as (x & Hx & _). apply (Hc a x Hx).
  - assert (a = p ++ [n]).
    { apply (f_equal (@length name)) in Hab as Hlen. rewrite !app_length in Hlen. cbn in Hlen.
      assert (b = []) by (destruct b; [reflexivity | cbn in Hlen; lia]). subst b. rewrite app_nil_r in Hab. congruence. }
    subst a. unfold get. destruct (p ++ [n]) eqn:E; [reflexivity | exact Hl].
Qed.

Lemma chain_frame_eq f f' p : chain f p -> (forall a b, p = a ++ b -> a <> [] -> lookup f' a = lookup f a) -> chain f' p.
Proof.
  intros Hc Hf a b Hab. specialize (Hc a b Hab). unfold get in *. destruct a as [|x a]; [reflexivity|].
  rewrite (Hf (x :: a) b Hab) by discriminate. exact Hc.
Qed.

Lemma progress_step es st done e todo : tr_ready' es -> es = done ++ e :: todo -> PInv st done (e :: todo) ->
  exists st', tr_spec_entry c d e st = Some (tr_key c e, st') /\ PInv st' (done ++ [e]) todo.
Proof.
  intros (Hclean & Hdist & Hpar & Hids & _) Hes (Hc & Hdirs & Habs & Hmap & Hframe).
  assert (Hin : In e es) by (rewrite Hes; apply in_or_app; right; left; reflexivity).
  assert (Hce : entry_clean e) by (rewrite Forall_forall in Hclean; apply Hclean, Hin).
  pose proof Hce as (Hfine & Hrel & Hdj).
  (* the parent directory is there *)
  assert (Hparent : chain (st_fs st) (d ++ removelast (tr_key c e :: tr_tail c e))).
  { destruct (tr_tail c e) as [|t0 tl0] eqn:Et; [cbn [removelast]; rewrite app_nil_r; exact Hc|].
    destruct (Hpar done e todo Hes) as (e' & Hin' & Hd' & _ & Hk'); [rewrite Et; discriminate|].
    rewrite Et in Hk'. rewrite <- Hk'. apply (Hdirs e' Hin' Hd'). }
  assert (Hleaf : lookup (st_fs st) (leaf_of e) = None) by (apply Habs; left; reflexivity).
  assert (Hres : resolves st e).
  { intros Eo Ej. destruct (Hmap Eo Ej) as (Hm1 & Hm2). destruct (map_get (st_map st) (te_id e)) as [v|] eqn:Em.
    - destruct (Hm2 _ _ Em) as (e' & Hin' & Hid'). rewrite <- Hid', (Hm1 e' Hin') in Em. inversion Em as [Hv]. clear Em.
      apply Hids; [rewrite Hes; apply in_or_app; left; exact Hin' | exact Hin | exact Hid'].
    - destruct (tr_tail c e) eqn:Et; [reflexivity|]. exfalso.
      destruct (Hpar done e todo Hes) as (e' & Hin' & _ & Hid' & _); [rewrite Et; discriminate|].
      rewrite <- Hid', (Hm1 e' Hin') in Em. discriminate. }
  set (x := if te_isdir e then [] else te_data e).
  destruct (create_ready e st x Hc Hce Hparent Hleaf Hres) as (st' & Ecr & Hl' & Hfr & Hmp).
  exists st'. split.
  - (* the specification accepts the entry *)
    unfold tr_spec_entry.
    assert (E0 : te_isdir e && negb (tr_json c) = false).
    { destruct (te_isdir e); [rewrite (Hdj eq_refl); reflexivity | reflexivity]. }
    rewrite E0. subst x. clear Hdj. destruct (te_isdir e) eqn:Hd; [rewrite Ecr; reflexivity|].
    destruct (create_ready e st [] Hc Hce Hparent Hleaf Hres) as (st1 & E1 & Hl1 & _).
    rewrite E1. rewrite Hd in Hl1.
    assert (Hts : tr_target_size d (tr_key c e) (tr_payload c e) st1 = 0).
    { unfold tr_target_size, tr_leaf. fold (tr_tail c e). rewrite join_good by (apply fine_goods, Hfine).
      fold (tr_leaf_of c d e). rewrite Hl1. reflexivity. }
    rewrite Hts, N.ltb_irrefl, andb_false_r, Ecr. reflexivity.
  - (* the invariant *)
    assert (Hother : forall e', In e' done \/ In e' todo -> leaf_of e' <> leaf_of e).
    { intros e' Hin' Heq. unfold tr_leaf_of in Heq. apply app_inv_head in Heq.
      rewrite Hes, map_app in Hdist. cbn [map] in Hdist. apply NoDup_remove_2 in Hdist. apply Hdist.
      rewrite <- Heq. apply in_or_app. destruct Hin' as [Hi|Hi]; [left | right]; apply in_map_iff; exists e'; auto. }
    unfold PInv. split; [|split; [|split; [|split]]].
    + apply (chain_frame_eq _ _ _ Hc). intros a b Hab Ha. apply Hfr; [exact Ha|].
      intro Heq. apply (f_equal (@length name)) in Heq. unfold tr_leaf_of in Heq. rewrite Hab, !app_length in Heq. cbn in Heq. lia.
    + intros e' Hin' Hd'. apply in_app_or in Hin' as [Hin'|[<-|[]]].
      * apply (chain_frame_eq _ _ _ (Hdirs e' Hin' Hd')). intros a b Hab Ha. apply Hfr; [exact Ha|].
        intro Heq. subst a. pose proof (Hdirs e' Hin' Hd' (leaf_of e) b Hab) as Hg. unfold get in Hg.
        destruct (leaf_of e) eqn:El; [exact (leaf_not_nil e El) | congruence].
      * (* the new directory: its parent chain plus itself *)
        rewrite Hd' in Hl'.
        assert (Hsp : leaf_of e = (d ++ removelast (tr_key c e :: tr_tail c e)) ++ [last (tr_key c e :: tr_tail c e) []]).
        { unfold tr_leaf_of. rewrite <- app_assoc. f_equal. apply app_removelast_last. discriminate. }
        rewrite Hsp in Hl' |- *. apply chain_extend; [|exact Hl'].
        apply (chain_frame_eq _ _ _ Hparent). intros a b Hab Ha. apply Hfr; [exact Ha|].
        intro Heq. rewrite Hsp in Heq. subst a. apply (f_equal (@length name)) in Hab. rewrite !app_length in Hab. cbn in Hab. lia.
    + intros e' Hin'. rewrite Hfr; [apply Habs; right; exact Hin' | apply leaf_not_nil | apply Hother; right; exact Hin'].
    + intros Eo Ej. destruct (Hmap Eo Ej) as (Hm1 & Hm2). rewrite Hmp. unfold map_after. rewrite Eo, Ej.
      specialize (Hres Eo Ej). destruct (map_get (st_map st) (te_id e)) as [v|] eqn:Em.
      * subst v. split.
        -- intros e' Hin'. apply in_app_or in Hin' as [Hin'|[<-|[]]]; [apply Hm1, Hin' | exact Em].
        -- intros id v Hv. destruct (Hm2 _ _ Hv) as (e' & Hi & He). exists e'. split; [apply in_or_app; left; exact Hi | exact He].
      * split.
        -- intros e' Hin'. cbn [map_get]. apply in_app_or in Hin' as [Hin'|[<-|[]]].
           ++ destruct (Z.eqb (te_id e) (te_id e')) eqn:Ez; [|apply Hm1, Hin'].
              apply Z.eqb_eq in Ez. rewrite Ez, (Hm1 e' Hin') in Em. discriminate.
           ++ rewrite Z.eqb_refl. reflexivity.
        -- intros id v. cbn [map_get]. destruct (Z.eqb (te_id e) id) eqn:Ez.
           ++ intros _. apply Z.eqb_eq in Ez. exists e. split; [apply in_or_app; right; left; reflexivity | exact Ez].
           ++ intro Hv. destruct (Hm2 _ _ Hv) as (e' & Hi & He). exists e'. split; [apply in_or_app; left; exact Hi | exact He].
    + intros q Hq Hnl. rewrite Hfr; [apply Hframe; [exact Hq|] | exact Hq | apply Hnl; apply in_or_app; right; left; reflexivity].
      intros e' Hi. apply Hnl. apply in_or_app; left; exact Hi.
Qed.

Lemma progress_all es : tr_ready' es -> forall todo done st names, es = done ++ todo -> PInv st done todo ->
  exists all stf, tr_spec c d todo st names = Some (map (tr_key c) todo, all, stf) /\ PInv stf es [].
Proof.
  intro Hr. induction todo as [|e todo IH]; intros done st names Hes HI.
  - cbn. rewrite app_nil_r in Hes. subst done. eauto.
  - destruct (progress_step es st done e todo Hr Hes HI) as (st' & Es & HI').
    cbn [tr_spec map]. rewrite Es.
    destruct (IH (done ++ [e]) st' (tr_add_name names (tr_key c e))) as (all & stf & E & HF); [rewrite <- app_assoc; exact Hes | exact HI'|].
    rewrite E. eauto.
Qed.

(* accepted, and nothing but the entries' own places has changed *)
Theorem ready_accepts es : stat f0 d = SFound Dir -> tr_ready' es ->
  exists all stf, tr_spec c d es (init_state f0) [] = Some (map (tr_key c) es, all, stf) /\
    forall q, q <> [] -> (forall e, In e es -> q <> leaf_of e) -> lookup (st_fs stf) q = lookup f0 q.
Proof.
  intros Hd Hr.
  destruct (progress_all es Hr es [] (init_state f0) [] eq_refl) as (all & stf & E & HF).
  - destruct Hr as (_ & _ & _ & _ & Habs). unfold PInv. cbn [init_state st_fs st_map].
    split; [apply stat_dir_chain, Hd|]. split; [intros e Hf; destruct Hf|]. split; [exact Habs|].
    split; [|reflexivity]. intros _ _. split; [intros e Hf; destruct Hf | intros id v Hv; discriminate Hv].
  - exists all, stf. split; [exact E|]. destruct HF as (_ & _ & _ & _ & F). exact F.
Qed.

Lemma nodup_map_coarser {A B C} (f : A -> B) (g : A -> C) (l : list A) :
  (forall x y, In x l -> In y l -> g x = g y -> f x = f y) -> NoDup (map f l) -> NoDup (map g l).
Proof.
  intros Hfg. induction l as [|x l IH]; intro Hn; [constructor|]. cbn [map] in *. inversion Hn as [|? ? Hx Hn']; subst.
  constructor.
  - intro Hin. apply in_map_iff in Hin as (y & Hy & Hiy). apply Hx. apply in_map_iff. exists y. split; [|exact Hiy].
    apply Hfg; [right; exact Hiy | left; reflexivity | exact Hy].
  - apply IH; [|exact Hn']. intros a b Ha Hb. apply Hfg; right; assumption.
Qed.

Theorem ready_wf es : tr_ready' es -> tr_wf c es.
Proof.
  intros (Hclean & Hdist & Hpar & Hids & _). unfold tr_wf. split.
  - intros Eo Ej. split.
    + apply (nodup_map_coarser (fun e => tr_key c e :: tr_tail c e) _ es); [|exact Hdist].
      intros x y Hx Hy Heq. inversion Heq as [[Hid Ht]]. f_equal; [apply Hids; assumption|].
      unfold tr_tail, tr_payload. rewrite Ej. cbn [tr_p_tail s_rel]. exact Ht.
    + intros pre e post Hes Ht. destruct (Hpar pre e post Hes) as (e' & Hi & _ & Hid & _); [|eauto].
      unfold tr_tail, tr_payload. rewrite Ej. exact Ht.
  - intros _. exact Hdist.
Qed.

End Progress.
