(* Proofs about Model/TunnelRelay.v (C17, the relay's tunnel code). *)
From Trzsz Require Import Base.Bytes Gen.Consts Gen.Skel_rtunnel Model.TunnelSkel Model.TunnelRelaySkel
  Model.Tunnel Model.TunnelRelay Proofs.Tunnel.
From Coq Require Import ZArith Lia.

Ltac rproj := cbn [r_pairs r_lis r_apc r_connector r_trelay r_era r_tconnected r_x] in *.
Ltac xproj := cbn [x_status x_pc x_lock x_bufin x_bufout x_outin x_outout x_seen] in *.
Ltac pproj := cbn [p_cli p_srv p_pc p_first p_sfirst p_br p_won] in *.
Ltac eproj := cbn [e_script e_rx e_eof e_tx e_closed] in *.
Ltac hproj := cbn [h_chan h_chan_closed h_writer h_pump h_log b_in b_out b_relay] in *.
Ltac allproj := rproj; pproj; eproj; hproj.

Section RelayProofs.
Variables ch1 sh4 ch2 sh3 : list N.

(* ------------------------------------------------------------------------------------ *)
(* the per-pair invariant, by program point of handleTunnelConn *)

Definition rt_stx (p : rt_pair) : option (list N) := option_map e_tx (p_srv p).
Definition rt_closed_cli (p : rt_pair) : Prop := e_closed (p_cli p) = true.
Definition rt_closed_srv (p : rt_pair) : Prop := option_map e_closed (p_srv p) = Some true.

(* nothing has been written to anybody, no server connection exists *)
Definition rt_pre (p : rt_pair) (r : option (list N)) : Prop :=
  p_first p = r /\ p_sfirst p = None /\ e_tx (p_cli p) = [] /\ p_srv p = None /\ p_br p = None /\ p_won p = None.

(* the client is authenticated, a server connection exists and has been sent t; the client has been sent nothing *)
Definition rt_mid (p : rt_pair) (t : list N) (r : option (list N)) : Prop :=
  p_first p = Some ch1 /\ p_sfirst p = r /\ e_tx (p_cli p) = [] /\ rt_stx p = Some t /\ p_br p = None /\ p_won p = None.

Definition rt_hello (d : rt_dir) : list N := match d with RdIn => ch2 | RdOut => sh4 end.
Definition rt_dst_tx (d : rt_dir) (p : rt_pair) : option (list N) := option_map e_tx (rt_dst_end d p).

Definition rt_half_ok (d : rt_dir) (c : nat) (p : rt_pair) (h : rt_half) : Prop :=
  rt_dst_tx d p = Some (rt_hello d ++ rt_payload (h_log h)) /\
  forallb (rt_tag_ok d c) (h_chan h) = true /\ forallb (rt_tag_ok d c) (h_log h) = true /\
  (h_writer h = false -> option_map e_closed (rt_dst_end d p) = Some true).

(* both greetings succeeded; each connection has been sent its hello and then exactly what its writer logged *)
Definition rt_brf (c : nat) (p : rt_pair) (b : rt_bridge) : Prop :=
  p_first p = Some ch1 /\ p_sfirst p = Some sh3 /\ rt_half_ok RdIn c p (b_in b) /\ rt_half_ok RdOut c p (b_out b).

Definition rt_half_fresh (h : rt_half) : Prop := h_chan h = [] /\ h_log h = [] /\ h_pump h = PmNone.
Definition rt_notwon (p : rt_pair) (b : rt_bridge) : Prop :=
  p_won p = None /\ b_relay b = false /\ rt_half_fresh (b_in b) /\ rt_half_fresh (b_out b).

Definition rt_with_br (p : rt_pair) (P : rt_bridge -> Prop) : Prop :=
  match p_br p with Some b => P b | None => False end.

Definition rt_local (c : nat) (p : rt_pair) : Prop :=
  match p_pc p with
  | RtRefused | RtPending | RtAccepted | RtLoadConn | RtRead => rt_pre p None
  | RtCmp r => rt_pre p r
  | RtDial => rt_pre p (Some ch1)
  | RtWriteSrv => rt_mid p [] None
  | RtReadSrv => rt_mid p ch2 None
  | RtCmpSrv r => rt_mid p ch2 r
  | RtReply => rt_mid p ch2 (Some sh3)
  | RtNew => p_first p = Some ch1 /\ p_sfirst p = Some sh3 /\ e_tx (p_cli p) = sh4 /\ rt_stx p = Some ch2 /\
             p_br p = None /\ p_won p = None
  | RtCas | RtCloseC => rt_with_br p (fun b => rt_brf c p b /\ rt_notwon p b)
  | RtCloseS => rt_with_br p (fun b => rt_brf c p b /\ rt_notwon p b /\ h_chan_closed (b_in b) = true)
  | RtStoreRelay =>
    rt_with_br p (fun b => rt_brf c p b /\ p_won p <> None /\ h_pump (b_in b) = PmNone /\ h_pump (b_out b) = PmNone)
  | RtGoIn =>
    rt_with_br p (fun b => rt_brf c p b /\ p_won p <> None /\ h_pump (b_in b) = PmNone /\ h_pump (b_out b) = PmNone)
  | RtGoOut => rt_with_br p (fun b => rt_brf c p b /\ p_won p <> None /\ h_pump (b_out b) = PmNone)
  | RtCloseLis => rt_with_br p (fun b => rt_brf c p b /\ p_won p <> None)
  | RtDone o =>
    match o with
    | RoBusy | RoNoConnector => rt_pre p None /\ rt_closed_cli p
    | RoBadClient => (exists r, rt_pre p r /\ r <> Some ch1) /\ rt_closed_cli p
    | RoDialFailed => rt_pre p (Some ch1) /\ rt_closed_cli p
    | RoSrvWriteFailed => rt_mid p [] None /\ rt_closed_cli p /\ rt_closed_srv p
    | RoBadServer => (exists r, rt_mid p ch2 r /\ r <> Some sh3) /\ rt_closed_cli p /\ rt_closed_srv p
    | RoReplyFailed => rt_mid p ch2 (Some sh3) /\ rt_closed_cli p /\ rt_closed_srv p
    | RoWon => rt_with_br p (fun b => rt_brf c p b /\ p_won p <> None)
    | RoLost => rt_with_br p (fun b => rt_brf c p b /\ rt_notwon p b /\
                                        h_chan_closed (b_in b) = true /\ h_chan_closed (b_out b) = true)
    end
  end.

(* ------------------------------------------------------------------------------------ *)
(* the global invariant *)

Definition rt_L (ps : list rt_pair) : Prop := forall c p, nth_error ps c = Some p -> rt_local c p.

Definition rt_GW (t : option nat) (era : nat) (ps : list rt_pair) : Prop :=
  (forall c p, nth_error ps c = Some p -> (t = Some c <-> p_won p = Some era)) /\
  (forall c p e, nth_error ps c = Some p -> p_won p = Some e -> (e <= era)%nat) /\
  (forall c1 c2 p1 p2 e, nth_error ps c1 = Some p1 -> nth_error ps c2 = Some p2 ->
     p_won p1 = Some e -> p_won p2 = Some e -> c1 = c2) /\
  (forall c, t = Some c -> (c < length ps)%nat).

(* what may sit in a handshake buffer: in-band chunks that arrived while tunnelConnected was false, and chunks a
   pump of the pair that IS in tunnelRelay read from its own connection (clients' in stdinBuffer, servers' in stdoutBuffer) *)
Definition rt_buf_ok (t : option nat) (d : rt_dir) (x : rt_src * list N) : Prop :=
  match fst x with
  | RsRelay => False
  | RsInband g => g = false
  | RsCli c => d = RdIn /\ t = Some c
  | RsSrv c => d = RdOut /\ t = Some c
  end.

Definition rt_flush_pc (pc : rt_hspc) : bool :=
  match pc with HsFlushIn _ | HsFlushOut _ | HsFlushEnd _ => true | _ => false end.

(* the relay's status word, handshake goroutine, buffers and in-band output *)
Definition rt_X (t : option nat) (era : nat) (x : rt_hs) : Prop :=
  (forall d y, In y (rt_buf d x) -> rt_buf_ok t d y) /\
  (x_status x = StHandshaking <-> x_pc x <> HsIdle) /\
  (x_lock x = rt_flush_pc (x_pc x)) /\
  (x_status x <> StHandshaking -> x_bufin x = [] /\ x_bufout x = []) /\
  (match x_pc x with HsFlushOut _ => x_bufin x = [] | HsFlushEnd _ => x_bufin x = [] /\ x_bufout x = [] | _ => True end) /\
  (x_status x = StHandshaking -> era = 0%nat) /\
  (forall d o, In o (rt_outs d x) -> rt_is_tunnel_src (fst (fst o)) = true -> snd o = false).

Definition rt_ACC (a : rt_apc) (ps : list rt_pair) : Prop :=
  forall c, a = RaCheck c -> exists p, nth_error ps c = Some p /\ p_pc p = RtAccepted.

Definition RInv (s : rt_state) : Prop :=
  rt_L (r_pairs s) /\ rt_GW (r_trelay s) (r_era s) (r_pairs s) /\ rt_X (r_trelay s) (r_era s) (r_x s) /\
  rt_ACC (r_apc s) (r_pairs s).

Lemma RInv_init : RInv rt_init.
Proof.
  unfold RInv, rt_init. rproj. split; [|split; [|split]].
  - intros c p H. destruct c; discriminate H.
  - unfold rt_GW. split; [|split; [|split]].
    + intros c p H. destruct c; discriminate H.
    + intros c p e H. destruct c; discriminate H.
    + intros c1 c2 p1 p2 e H. destruct c1; discriminate H.
    + intros c H. discriminate H.
  - unfold rt_X, rt_hs_init. xproj. split; [intros d y H; destruct d; destruct H|].
    split; [split; [discriminate|reflexivity]|]. split; [reflexivity|]. split; [intros H; exfalso; apply H; reflexivity|].
    split; [exact I|]. split; [reflexivity|]. intros d o H. destruct d; destruct H.
  - intros c H. discriminate H.
Qed.

(* ------------------------------------------------------------------------------------ *)
(* generic preservation lemmas *)

Lemma rt_L_upd : forall ps c f,
  rt_L ps -> (forall p, nth_error ps c = Some p -> rt_local c p -> rt_local c (f p)) -> rt_L (upd c f ps).
Proof.
  intros ps c f HL Hf c' p' Hn. rewrite nth_upd in Hn. destruct (Nat.eqb c c') eqn:E.
  - apply Nat.eqb_eq in E. subst c'. destruct (nth_error ps c) as [p|] eqn:Ep; [|discriminate Hn].
    cbn [option_map] in Hn. injection Hn as <-. apply Hf; [reflexivity|]. apply HL. exact Ep.
  - apply HL. exact Hn.
Qed.

Lemma rt_GW_upd : forall t era ps c f,
  rt_GW t era ps -> (forall p, nth_error ps c = Some p -> p_won (f p) = p_won p) -> rt_GW t era (upd c f ps).
Proof.
  intros t era ps c f (G1 & G2 & G3 & G4) Hf.
  assert (Hback : forall c' p', nth_error (upd c f ps) c' = Some p' ->
            exists p, nth_error ps c' = Some p /\ p_won p' = p_won p).
  { intros c' p' Hn. rewrite nth_upd in Hn. destruct (Nat.eqb c c') eqn:E.
    - apply Nat.eqb_eq in E. subst c'.
      destruct (nth_error ps c) as [p|] eqn:Ep; [|discriminate Hn]. cbn [option_map] in Hn. injection Hn as <-.
      exists p. split; [reflexivity|apply Hf; reflexivity].
    - exists p'. split; [exact Hn|reflexivity]. }
  split; [|split; [|split]].
  - intros c' p' Hn. destruct (Hback c' p' Hn) as (p & Hp & Hw). rewrite Hw. exact (G1 c' p Hp).
  - intros c' p' e Hn Hwon. destruct (Hback c' p' Hn) as (p & Hp & Hw). rewrite Hw in Hwon. exact (G2 c' p e Hp Hwon).
  - intros c1 c2 p1 p2 e H1 H2 W1 W2.
    destruct (Hback c1 p1 H1) as (q1 & Hq1 & Hw1). destruct (Hback c2 p2 H2) as (q2 & Hq2 & Hw2).
    rewrite Hw1 in W1. rewrite Hw2 in W2. exact (G3 c1 c2 q1 q2 e Hq1 Hq2 W1 W2).
  - intros c' H. rewrite length_upd. exact (G4 c' H).
Qed.

(* the compare-and-swap succeeds: nothing of a tunnel can have been parked before *)
Lemma rt_X_adopt : forall c era x, rt_X None era x -> rt_X (Some c) era x.
Proof.
  intros c era x (X1 & X2). split; [|exact X2]. intros d y Hy. specialize (X1 d y Hy).
  unfold rt_buf_ok in *. destruct (fst y); try exact X1; destruct X1 as [_ X1]; discriminate X1.
Qed.

Lemma rt_ACC_upd : forall a ps c f,
  rt_ACC a ps -> (forall p, nth_error ps c = Some p -> p_pc p = RtAccepted -> p_pc (f p) = RtAccepted) ->
  rt_ACC a (upd c f ps).
Proof.
  intros a ps c f HA Hf c' Ha. destruct (HA c' Ha) as (p & Hn & Hpc). rewrite nth_upd.
  destruct (Nat.eqb c c') eqn:E.
  - apply Nat.eqb_eq in E. subst c'. rewrite Hn. cbn [option_map]. exists (f p). split; [reflexivity|].
    apply Hf; assumption.
  - exists p. split; assumption.
Qed.

(* a step that rewrites pair c by a function that keeps p_won (and p_pc where the acceptor looks) *)
Lemma RInv_upd : forall s c f,
  RInv s ->
  (forall p, nth_error (r_pairs s) c = Some p -> rt_local c p -> rt_local c (f p)) ->
  (forall p, nth_error (r_pairs s) c = Some p -> p_won (f p) = p_won p) ->
  (forall p, nth_error (r_pairs s) c = Some p -> p_pc p = RtAccepted -> p_pc (f p) = RtAccepted) ->
  RInv (rt_upd_pair s c f).
Proof.
  intros s c f (HL & HG & HP & HA) Hl Hw Hpc. unfold RInv, rt_upd_pair, rt_with_pairs. rproj.
  split; [apply rt_L_upd; assumption|]. split; [apply rt_GW_upd; assumption|].
  split; [exact HP|apply rt_ACC_upd; assumption].
Qed.

(* ------------------------------------------------------------------------------------ *)
(* how the elementary updates of a pair act on the per-pair invariant *)

Lemma rt_payload_app : forall l x, rt_payload (l ++ [x]) = rt_payload l ++ snd x.
Proof.
  intros l x. unfold rt_payload. rewrite map_app, concat_app. cbn [map concat]. rewrite app_nil_r. reflexivity.
Qed.

Lemma rt_forallb_snoc : forall A (f : A -> bool) l x, forallb f (l ++ [x]) = forallb f l && f x.
Proof. intros A f l x. rewrite forallb_app. cbn [forallb]. rewrite andb_true_r. reflexivity. Qed.

Lemma rt_tag_ok_own : forall d c bs, rt_tag_ok d c (rt_tag d c, bs) = true.
Proof. intros d c bs. destruct d; cbn [rt_tag_ok rt_tag fst]; apply Nat.eqb_refl. Qed.

Lemma rt_tag_ok_relay : forall d c bs, rt_tag_ok d c (RsRelay, bs) = true.
Proof. intros d c bs. destruct d; reflexivity. Qed.

Ltac unf := unfold rt_pre, rt_mid, rt_brf, rt_half_ok, rt_notwon, rt_half_fresh, rt_with_br, rt_closed_cli,
  rt_closed_srv, rt_stx, rt_dst_tx, rt_dst_end, rt_src_end, rt_hello in *.

Ltac dex := repeat match goal with
  | H : exists _, _ |- _ => destruct H
  | H : _ /\ _ |- _ => destruct H
  end.

(* peers, and anything else that only touches script / rx / eof of the client connection or closes it *)
Lemma rt_local_set_cli : forall c p e,
  e_tx e = e_tx (p_cli p) -> (e_closed (p_cli p) = true -> e_closed e = true) ->
  rt_local c p -> rt_local c (rt_set_cli e p).
Proof.
  intros c p e Htx Hcl Hl. unfold rt_local, rt_set_cli in *. pproj.
  destruct (p_pc p) as [ | | | | |r| | | |r| | | | | | | | | |o]; try destruct o; unf; pproj;
    try rewrite Htx; dex;
    repeat match goal with |- _ /\ _ => split | |- exists _, _ => eexists end; eauto;
    try (destruct (p_br p); [|contradiction]; dex; cbn [option_map] in *; rewrite ?Htx;
         repeat match goal with |- _ /\ _ => split end; eauto);
    try (let Hw := fresh in intros Hw;
         match goal with H : _ -> Some _ = Some true |- _ => specialize (H Hw); injection H as H; rewrite (Hcl H); reflexivity end).
Qed.

Ltac pcs p := destruct (p_pc p) as [ | | | | |?r| | | |?r| | | | | | | | | |?o]; try destruct o.
Ltac splits := repeat match goal with |- _ /\ _ => split | |- exists _, _ => eexists end.

Lemma rt_local_set_srv : forall c p e0 e,
  p_srv p = Some e0 -> e_tx e = e_tx e0 -> (e_closed e0 = true -> e_closed e = true) ->
  rt_local c p -> rt_local c (rt_set_srv e p).
Proof.
  intros c p e0 e Hs Htx Hcl Hl. unfold rt_local, rt_set_srv in *. pproj.
  pcs p; unf; pproj; rewrite Hs in *; cbn [option_map] in *; try rewrite Htx; dex; try discriminate;
    splits; eauto;
    try (destruct (p_br p); [|contradiction]; dex; cbn [option_map] in *; rewrite ?Htx; splits; eauto);
    try (match goal with H : Some _ = Some true |- _ => injection H as H; rewrite (Hcl H); reflexivity end);
    try (let Hw := fresh in intros Hw;
         match goal with H : _ -> Some _ = Some true |- _ => specialize (H Hw); injection H as H; rewrite (Hcl H); reflexivity end).
Qed.

(* an update of one half of the bridge that leaves the writer's log alone *)
Lemma rt_local_set_half : forall c p b d h',
  p_br p = Some b ->
  h_log h' = h_log (rt_half_of d b) ->
  h_writer h' = h_writer (rt_half_of d b) ->
  (forallb (rt_tag_ok d c) (h_chan (rt_half_of d b)) = true -> forallb (rt_tag_ok d c) (h_chan h') = true) ->
  (h_chan_closed (rt_half_of d b) = true -> h_chan_closed h' = true) ->
  (h_pump (rt_half_of d b) = PmNone -> h_pump h' = PmNone) ->
  (p_won p = None -> rt_half_fresh (rt_half_of d b) -> h_chan h' = []) ->
  rt_local c p -> rt_local c (rt_set_br (rt_set_half d h' b) p).
Proof.
  intros c p b d h' Hb Hlog Hwr Htag Hcl Hpn Hfr Hl. unfold rt_local, rt_set_br in *. pproj.
  pcs p; unf; pproj; rewrite Hb in *; dex; try discriminate; try contradiction;
    destruct d; cbn [rt_set_half rt_half_of] in *; hproj; rewrite ?Hlog, ?Hwr; splits; eauto.
Qed.

Lemma rt_local_set_relay : forall c p b v,
  p_br p = Some b -> (v = false \/ p_won p <> None) ->
  rt_local c p -> rt_local c (rt_set_br (rt_set_relay v b) p).
Proof.
  intros c p b v Hb Hv Hl. unfold rt_local, rt_set_br, rt_set_relay in *. pproj.
  pcs p; unf; pproj; rewrite Hb in *; dex; try discriminate; try contradiction; hproj; splits; eauto;
    destruct Hv as [->|Hv]; try reflexivity; exfalso; apply Hv; assumption.
Qed.

(* the writer takes a chunk and writes it *)
Lemma rt_local_writer_write : forall c p b d e x rest,
  p_br p = Some b -> rt_dst_end d p = Some e -> h_chan (rt_half_of d b) = x :: rest ->
  rt_local c p ->
  rt_local c (rt_set_dst_end d (rt_end_write (snd x) e)
               (rt_set_br (rt_set_half d (mkRtHalf rest (h_chan_closed (rt_half_of d b)) true (h_pump (rt_half_of d b))
                                                   (h_log (rt_half_of d b) ++ [x])) b) p)).
Proof.
  intros c p b d e x rest Hb He Hch Hl. unfold rt_local in *.
  destruct d; unfold rt_set_dst_end, rt_dst_end, rt_set_half, rt_half_of, rt_set_srv, rt_set_cli, rt_set_br, rt_end_write in *; pproj;
    pcs p; unf; pproj; rewrite Hb in *; dex; try discriminate; try contradiction; hproj; eproj;
    try (rewrite Hch in *; discriminate);
    rewrite ?He in *; cbn [option_map] in *; eproj;
    repeat match goal with H : Some _ = Some _ |- _ => injection H as H end;
    rewrite ?rt_payload_app, ?rt_forallb_snoc; rewrite Hch in *; cbn [forallb] in *;
    repeat match goal with H : _ && _ = true |- _ => apply andb_true_iff in H; destruct H end;
    splits; eauto;
    try congruence;
    try (match goal with H : e_tx _ = _ |- _ => rewrite H; rewrite <- app_assoc; reflexivity end);
    try (apply andb_true_iff; split; assumption).
Qed.

(* the writer's range ends: the deferred Close *)
Lemma rt_local_writer_exit : forall c p b d e,
  p_br p = Some b -> rt_dst_end d p = Some e ->
  h_chan (rt_half_of d b) = [] -> h_chan_closed (rt_half_of d b) = true ->
  rt_local c p ->
  rt_local c (rt_set_dst_end d (rt_end_close e)
               (rt_set_br (rt_set_half d (mkRtHalf [] true false (h_pump (rt_half_of d b)) (h_log (rt_half_of d b))) b) p)).
Proof.
  intros c p b d e Hb He Hch Hcl Hl. unfold rt_local in *.
  destruct d; unfold rt_set_dst_end, rt_dst_end, rt_set_half, rt_half_of, rt_set_srv, rt_set_cli, rt_set_br, rt_end_close in *; pproj;
    pcs p; unf; pproj; rewrite Hb in *; dex; try discriminate; try contradiction; hproj; eproj;
    rewrite ?He in *; cbn [option_map] in *; eproj;
    repeat match goal with H : Some _ = Some _ |- _ => injection H as H end;
    splits; eauto; try congruence.
Qed.

Ltac setters := unfold rt_give_up, rt_close_srv, rt_close_cli, rt_set_pc, rt_set_cli, rt_set_srv, rt_set_br, rt_end_close,
  rt_end_write, rt_end_drop, rt_new_end, rt_set_half, rt_set_relay, rt_half_set_pump, rt_half_close_chan, rt_half_push,
  rt_new_half, rt_half_of in *.

(* one statement of handleTunnelConn: the pair is rewritten by f, p_won untouched *)
Ltac hstep Hinv Ep Epc :=
  apply RInv_upd; [exact Hinv| | |];
  [ let p0 := fresh "p0" in let Hp0 := fresh "Hp0" in let Hl0 := fresh "Hl0" in
    intros p0 Hp0 Hl0; rewrite Ep in Hp0; injection Hp0 as <-;
    unfold rt_local in *; rewrite Epc in Hl0; setters; pproj; unf; pproj; dex
  | let p0 := fresh "p0" in let Hp0 := fresh "Hp0" in
    intros p0 Hp0; rewrite Ep in Hp0; injection Hp0 as <-; setters; pproj;
    try (match goal with |- context [match p_srv ?q with _ => _ end] => destruct (p_srv q) end); reflexivity
  | let p0 := fresh "p0" in let Hp0 := fresh "Hp0" in let Hpc0 := fresh "Hpc0" in
    intros p0 Hp0 Hpc0; rewrite Ep in Hp0; injection Hp0 as <-; rewrite Epc in Hpc0; discriminate Hpc0 ].

Ltac srvcase p := destruct (p_srv p) eqn:?; pproj; cbn [option_map] in *; eproj; try congruence.
Ltac fin p := srvcase p; splits; eauto; try congruence.

Lemma rt_handler_inv : forall s c p dial fail s',
  RInv s -> nth_error (r_pairs s) c = Some p -> rt_handler ch1 sh4 ch2 sh3 s c p dial fail = Some s' -> RInv s'.
Proof.
  intros s c p dial fail s' Hinv Ep Hstep. unfold rt_handler in Hstep.
  destruct (p_pc p) as [ | | | | |r| | | |r| | | | | | | | | |o] eqn:Epc; try discriminate Hstep.
  - (* RtLoadConn *)
    destruct (r_connector s); injection Hstep as <-; hstep Hinv Ep Epc; fin p.
  - (* RtRead *)
    destruct (e_rx (p_cli p)) eqn:Erx; [destruct (e_eof (p_cli p)); [|discriminate Hstep]|];
      injection Hstep as <-; hstep Hinv Ep Epc; fin p.
  - (* RtCmp *)
    destruct r as [got|]; [destruct (hello_matches got ch1) eqn:Em|]; injection Hstep as <-; hstep Hinv Ep Epc.
    + apply hello_matches_true in Em. subst got. fin p.
    + fin p. intros E. injection E as E. subst got. unfold hello_matches in Em.
      assert (list_eqb ch1 ch1 = true) by (apply list_eqb_eq; reflexivity). congruence.
    + fin p.
  - (* RtDial *)
    destruct dial as [script|]; injection Hstep as <-; hstep Hinv Ep Epc; fin p.
  - (* RtWriteSrv *)
    destruct (p_srv p) as [e|] eqn:Es; [|discriminate Hstep].
    destruct fail; [destruct (e_eof e); [|discriminate Hstep]|]; injection Hstep as <-; hstep Hinv Ep Epc; fin p.
    injection Es as <-. match goal with H : Some _ = Some [] |- _ => injection H as H; rewrite H end. reflexivity.
  - (* RtReadSrv *)
    destruct (p_srv p) as [e|] eqn:Es; [|discriminate Hstep].
    destruct (e_rx e) eqn:Erx; [destruct (e_eof e); [|discriminate Hstep]|];
      injection Hstep as <-; hstep Hinv Ep Epc; fin p.
  - (* RtCmpSrv *)
    destruct r as [got|]; [destruct (hello_matches got sh3) eqn:Em|]; injection Hstep as <-; hstep Hinv Ep Epc.
    + apply hello_matches_true in Em. subst got. fin p.
    + fin p. intros E. injection E as E. subst got. unfold hello_matches in Em.
      assert (list_eqb sh3 sh3 = true) by (apply list_eqb_eq; reflexivity). congruence.
    + fin p.
  - (* RtReply *)
    destruct fail; [destruct (e_eof (p_cli p)); [|discriminate Hstep]|]; injection Hstep as <-; hstep Hinv Ep Epc; fin p.
    match goal with H : e_tx _ = [] |- _ => rewrite H end. reflexivity.
  - (* RtNew *)
    injection Hstep as <-; hstep Hinv Ep Epc. hproj. srvcase p. cbn [rt_payload map concat] in *.
    rewrite !app_nil_r. splits; eauto; congruence.
  - (* RtCas *)
    destruct Hinv as (HL & (G1 & G2 & G3 & G4) & HP & HA).
    pose proof (HL c p Ep) as Hl. unfold rt_local in Hl. rewrite Epc in Hl. unfold rt_with_br in Hl.
    destruct (p_br p) as [b|] eqn:Eb; [|contradiction]. destruct Hl as (Hbrf & Hnw).
    destruct (r_trelay s) as [t|] eqn:Et; injection Hstep as <-.
    + (* lost *)
      apply RInv_upd; [unfold RInv, rt_GW; rewrite Et; exact (conj HL (conj (conj G1 (conj G2 (conj G3 G4))) (conj HP HA)))| | |].
      * intros p0 Hp0 _. rewrite Ep in Hp0. injection Hp0 as <-. unfold rt_local, rt_set_pc. pproj.
        unfold rt_with_br. pproj. rewrite Eb. split; [|exact Hnw].
        unfold rt_brf, rt_half_ok, rt_dst_tx, rt_dst_end in *. pproj. exact Hbrf.
      * intros p0 _. reflexivity.
      * intros p0 Hp0 Hpc0. rewrite Ep in Hp0. injection Hp0 as <-. rewrite Epc in Hpc0. discriminate Hpc0.
    + (* won *)
      unfold RInv. rproj. split; [|split; [|split]].
      * apply rt_L_upd; [exact HL|]. intros p0 Hp0 _. rewrite Ep in Hp0. injection Hp0 as <-.
        unfold rt_local. pproj. unfold rt_with_br. pproj. rewrite Eb.
        destruct Hnw as (_ & _ & (_ & _ & Hpi) & (_ & _ & Hpo)).
        split; [|split; [discriminate|split; assumption]].
        unfold rt_brf, rt_half_ok, rt_dst_tx, rt_dst_end in *. pproj. exact Hbrf.
      * assert (Hnone : forall c' p', nth_error (r_pairs s) c' = Some p' -> p_won p' <> Some (r_era s)).
        { intros c' p' Hn Hw. apply (G1 c' p' Hn) in Hw. discriminate Hw. }
        assert (Hback : forall c' p', nth_error (upd c (fun p1 => mkRtPair (p_cli p1) (p_srv p1) RtStoreRelay (p_first p1)
                          (p_sfirst p1) (p_br p1) (Some (r_era s))) (r_pairs s)) c' = Some p' ->
                  (c' = c /\ p_won p' = Some (r_era s)) \/
                  (c' <> c /\ nth_error (r_pairs s) c' = Some p')).
        { intros c' p' Hn. rewrite nth_upd in Hn. destruct (Nat.eqb c c') eqn:E.
          - apply Nat.eqb_eq in E. subst c'. rewrite Ep in Hn. cbn [option_map] in Hn. injection Hn as <-. left. auto.
          - apply Nat.eqb_neq in E. right. auto. }
        unfold rt_GW. split; [|split; [|split]].
        -- intros c' p' Hn. destruct (Hback c' p' Hn) as [[-> Hw]|[Hne Hn']].
           ++ rewrite Hw. split; reflexivity.
           ++ split; intros H.
              ** injection H as H. exfalso. apply Hne. symmetry. exact H.
              ** exfalso. exact (Hnone c' p' Hn' H).
        -- intros c' p' e Hn Hw. destruct (Hback c' p' Hn) as [[-> Hw']|[Hne Hn']].
           ++ rewrite Hw' in Hw. injection Hw as <-. lia.
           ++ exact (G2 c' p' e Hn' Hw).
        -- intros c1 c2 p1 p2 e H1 H2 W1 W2.
           destruct (Hback c1 p1 H1) as [[-> Hw1]|[Hne1 Hn1]]; destruct (Hback c2 p2 H2) as [[-> Hw2]|[Hne2 Hn2]].
           ++ reflexivity.
           ++ rewrite Hw1 in W1. injection W1 as <-. exfalso. exact (Hnone c2 p2 Hn2 W2).
           ++ rewrite Hw2 in W2. injection W2 as <-. exfalso. exact (Hnone c1 p1 Hn1 W1).
           ++ exact (G3 c1 c2 p1 p2 e Hn1 Hn2 W1 W2).
        -- intros c' H. injection H as <-. rewrite length_upd. eapply nth_error_lt. exact Ep.
      * exact (rt_X_adopt _ _ _ HP).
      * apply rt_ACC_upd; [exact HA|]. intros p0 Hp0 Hpc0. rewrite Ep in Hp0. injection Hp0 as <-.
        rewrite Epc in Hpc0. discriminate Hpc0.
  - (* RtStoreRelay *)
    destruct (p_br p) as [b|] eqn:Eb; [|discriminate Hstep]. injection Hstep as <-. hstep Hinv Ep Epc.
    rewrite Eb in *. dex. hproj. splits; eauto.
  - (* RtGoIn *)
    destruct (p_br p) as [b|] eqn:Eb; [|discriminate Hstep]. injection Hstep as <-. hstep Hinv Ep Epc.
    rewrite Eb in *. dex. hproj. splits; eauto.
  - (* RtGoOut *)
    destruct (p_br p) as [b|] eqn:Eb; [|discriminate Hstep]. injection Hstep as <-. hstep Hinv Ep Epc.
    rewrite Eb in *. dex. hproj. splits; eauto.
  - (* RtCloseLis *)
    injection Hstep as <-. destruct Hinv as (HL & HG & HP & HA). unfold RInv. rproj.
    split; [|split; [|split]].
    + apply rt_L_upd; [exact HL|]. intros p0 Hp0 Hl0. rewrite Ep in Hp0. injection Hp0 as <-.
      unfold rt_local in *. rewrite Epc in Hl0. setters. pproj. unf. pproj. exact Hl0.
    + apply rt_GW_upd; [exact HG|]. intros p0 _. reflexivity.
    + exact HP.
    + apply rt_ACC_upd; [exact HA|]. intros p0 Hp0 Hpc0. rewrite Ep in Hp0. injection Hp0 as <-.
      rewrite Epc in Hpc0. discriminate Hpc0.
  - (* RtCloseC *)
    destruct (p_br p) as [b|] eqn:Eb; [|discriminate Hstep]. injection Hstep as <-. hstep Hinv Ep Epc.
    rewrite Eb in *. dex. hproj. splits; eauto.
  - (* RtCloseS *)
    destruct (p_br p) as [b|] eqn:Eb; [|discriminate Hstep]. injection Hstep as <-. hstep Hinv Ep Epc.
    rewrite Eb in *. dex. hproj. splits; eauto.
Qed.

(* ------------------------------------------------------------------------------------ *)
(* what the per-pair invariant says, program point forgotten *)

Lemma rt_local_br : forall c p b, rt_local c p -> p_br p = Some b -> rt_brf c p b.
Proof.
  intros c p b Hl Hb. unfold rt_local in Hl.
  pcs p; unf; rewrite Hb in *; dex; try discriminate; try contradiction; splits; assumption.
Qed.

Lemma rt_local_nobr : forall c p, rt_local c p -> p_br p = None ->
  p_won p = None /\ e_tx (p_cli p) = [] \/
  (p_won p = None /\ e_tx (p_cli p) = sh4 /\ p_first p = Some ch1 /\ p_sfirst p = Some sh3 /\ rt_stx p = Some ch2).
Proof.
  intros c p Hl Hb. unfold rt_local in Hl.
  pcs p; unf; rewrite ?Hb in *; dex; try contradiction; try (left; split; assumption).
  right. splits; assumption.
Qed.

Lemma rt_local_won_br : forall c p, rt_local c p -> p_won p <> None -> exists b, p_br p = Some b.
Proof.
  intros c p Hl Hw. destruct (p_br p) as [b|] eqn:Eb; [exists b; reflexivity|].
  destruct (rt_local_nobr c p Hl Eb) as [(H & _)|(H & _)]; contradiction.
Qed.

(* anything beyond a freshly made, never used bridge means the pair won the compare-and-swap *)
Lemma rt_local_used_won : forall c p b d, rt_local c p -> p_br p = Some b ->
  h_pump (rt_half_of d b) <> PmNone \/ h_chan (rt_half_of d b) <> [] \/ h_log (rt_half_of d b) <> [] \/ b_relay b = true ->
  p_won p <> None.
Proof.
  intros c p b d Hl Hb Hor Hw. unfold rt_local in Hl.
  pcs p; unf; rewrite Hb in *; dex; try discriminate; try contradiction;
    destruct d; cbn [rt_half_of] in *; destruct Hor as [Hx|[Hx|[Hx|Hx]]]; congruence.
Qed.

Lemma rt_local_unauth_cli : forall c p, rt_local c p -> p_first p <> Some ch1 ->
  e_tx (p_cli p) = [] /\ p_srv p = None /\ p_br p = None /\ p_won p = None /\
  (forall o, p_pc p = RtDone o -> e_closed (p_cli p) = true).
Proof.
  intros c p Hl Hf. unfold rt_local in Hl.
  pcs p; unf; dex; try contradiction; try congruence;
    try (destruct (p_br p); [dex; congruence|contradiction]);
    splits; try assumption; try (intros o' Ho; congruence).
Qed.

Lemma rt_local_unauth_srv : forall c p, rt_local c p -> p_sfirst p <> Some sh3 ->
  e_tx (p_cli p) = [] /\ p_br p = None /\ p_won p = None /\
  (rt_stx p = None \/ rt_stx p = Some [] \/ rt_stx p = Some ch2) /\
  (forall o, p_pc p = RtDone o -> e_closed (p_cli p) = true /\ (p_srv p <> None -> rt_closed_srv p)).
Proof.
  intros c p Hl Hf. unfold rt_local in Hl.
  pcs p; unf; dex; try contradiction; try congruence;
    try (destruct (p_br p); [dex; congruence|contradiction]);
    splits; try assumption; try (intros o' Ho; try congruence);
    try (match goal with H : p_srv p = None |- _ => rewrite H; cbn [option_map]; auto end);
    try (right; auto; fail); try (split; [assumption|]; intros Hs; try assumption; congruence).
Qed.

Lemma rt_end_peer_same : forall e e', rt_end_peer e = Some e' -> e_tx e' = e_tx e /\ e_closed e' = e_closed e.
Proof.
  intros e e' H. unfold rt_end_peer in H. destruct (e_script e) as [|[bs|] r]; [discriminate H| |];
    injection H as <-; eproj; split; reflexivity.
Qed.

Lemma rt_local_set_src_drop : forall c p d e n,
  rt_src_end d p = Some e -> rt_local c p -> rt_local c (rt_set_src_end d (rt_end_drop n e) p).
Proof.
  intros c p d e n He Hl. destruct d; cbn [rt_src_end rt_set_src_end] in *.
  - injection He as <-. apply rt_local_set_cli; [reflexivity| |exact Hl]. intros H. exact H.
  - apply (rt_local_set_srv c p e); [exact He|reflexivity| |exact Hl]. intros H. exact H.
Qed.

Lemma rt_local_set_dst_close : forall c p d e,
  rt_dst_end d p = Some e -> rt_local c p -> rt_local c (rt_set_dst_end d (rt_end_close e) p).
Proof.
  intros c p d e He Hl. destruct d; cbn [rt_dst_end rt_set_dst_end] in *.
  - apply (rt_local_set_srv c p e); [exact He|reflexivity| |exact Hl]. intros _. reflexivity.
  - injection He as <-. apply rt_local_set_cli; [reflexivity| |exact Hl]. intros _. reflexivity.
Qed.

Lemma rt_trelay_won : forall s c p, RInv s -> r_trelay s = Some c -> nth_error (r_pairs s) c = Some p -> p_won p <> None.
Proof.
  intros s c p (_ & (G1 & _) & _) Ht Hn. apply (G1 c p Hn) in Ht. rewrite Ht. discriminate.
Qed.

Lemma rt_reset_inv : forall s x, RInv s -> rt_X None (S (r_era s)) x -> RInv (rt_reset s x).
Proof.
  intros s x Hinv HX. destruct Hinv as (HL & (G1 & G2 & G3 & G4) & HP & HA).
    set (f := fun p : rt_pair => match p_br p with Some b => rt_set_br (rt_set_relay false b) p | None => p end).
    assert (Hfw : forall p, p_won (f p) = p_won p) by (intros p; unfold f; destruct (p_br p); reflexivity).
    assert (Hfpc : forall p, p_pc (f p) = p_pc p) by (intros p; unfold f; destruct (p_br p); reflexivity).
    assert (Hfl : forall c p, rt_local c p -> rt_local c (f p)).
    { intros c p Hl. unfold f. destruct (p_br p) as [b|] eqn:Eb; [|exact Hl].
      apply rt_local_set_relay; [exact Eb|left; reflexivity|exact Hl]. }
    set (ps := match r_trelay s with Some c => upd c f (r_pairs s) | None => r_pairs s end).
    assert (Hback : forall c p', nth_error ps c = Some p' ->
              exists p, nth_error (r_pairs s) c = Some p /\ p_won p' = p_won p /\ p_pc p' = p_pc p /\ (rt_local c p -> rt_local c p')).
    { intros c p' Hn. unfold ps in Hn. destruct (r_trelay s) as [t|].
      - rewrite nth_upd in Hn. destruct (Nat.eqb t c).
        + destruct (nth_error (r_pairs s) c) as [p|]; [|discriminate Hn]. cbn [option_map] in Hn. injection Hn as <-.
          exists p. split; [reflexivity|]. split; [apply Hfw|]. split; [apply Hfpc|apply Hfl].
        + exists p'. auto.
      - exists p'. auto. }
    assert (Hlen : length ps = length (r_pairs s)).
    { unfold ps. destruct (r_trelay s); [apply length_upd|reflexivity]. }
    unfold RInv, rt_reset. rproj. fold f. fold ps. split; [|split; [|split]].
    + intros c p' Hn. destruct (Hback c p' Hn) as (p & Hp & _ & _ & Hl). apply Hl. exact (HL c p Hp).
    + unfold rt_GW. split; [|split; [|split]].
      * intros c p' Hn. destruct (Hback c p' Hn) as (p & Hp & Hw & _). rewrite Hw. split; intros H; [discriminate H|].
        apply (G2 c p _ Hp) in H. lia.
      * intros c p' e Hn Hwon. destruct (Hback c p' Hn) as (p & Hp & Hw & _). rewrite Hw in Hwon.
        apply (G2 c p e Hp) in Hwon. lia.
      * intros c1 c2 p1 p2 e H1 H2 W1 W2.
        destruct (Hback c1 p1 H1) as (q1 & Hq1 & Hw1 & _). destruct (Hback c2 p2 H2) as (q2 & Hq2 & Hw2 & _).
        rewrite Hw1 in W1. rewrite Hw2 in W2. exact (G3 c1 c2 q1 q2 e Hq1 Hq2 W1 W2).
      * intros c H. discriminate H.
    + exact HX.
    + intros c H. destruct (HA c H) as (p & Hn & Hpc). unfold ps. destruct (r_trelay s) as [t|].
      * rewrite nth_upd. destruct (Nat.eqb t c).
        -- rewrite Hn. cbn [option_map]. exists (f p). split; [reflexivity|]. rewrite Hfpc. exact Hpc.
        -- exists p. auto.
      * exists p. auto.
Qed.

(* ---- the status word, the handshake goroutine and the buffers ---- *)

Ltac xunf := unfold rt_X, rt_set_pc_lock, rt_set_buf, rt_add_out, rt_hs_finish, rt_set_status, rt_add_seen, rt_buf, rt_outs in *.

Lemma rt_X_add_out : forall t era x d o, rt_X t era x ->
  (rt_is_tunnel_src (fst (fst o)) = true -> snd o = false) -> rt_X t era (rt_add_out d o x).
Proof.
  intros t era x d o (X1 & X2 & X3 & X4 & X5 & X6 & X7) Ho. unfold rt_X.
  split; [intros d' y Hy; apply (X1 d'); destruct d, d'; exact Hy|].
  split; [destruct d; exact X2|]. split; [destruct d; exact X3|]. split; [destruct d; exact X4|].
  split; [destruct d; exact X5|]. split; [destruct d; exact X6|].
  intros d' o' Ho'. destruct d, d'; cbn [rt_add_out rt_outs] in Ho'; xproj;
    try (apply in_app_or in Ho'; destruct Ho' as [Ho'|[<-|[]]]; [|exact Ho]);
    first [exact (X7 RdIn o' Ho') | exact (X7 RdOut o' Ho')].
Qed.

(* the ghost log of the pumps' reads is not constrained *)
Lemma rt_X_add_seen : forall t era x y, rt_X t era x -> rt_X t era (rt_add_seen y x).
Proof. intros t era x y H. exact H. Qed.

Lemma RInv_with_x : forall s x, RInv s -> rt_X (r_trelay s) (r_era s) x -> RInv (rt_with_x s x).
Proof. intros s x (HL & HG & _ & HA) HX. unfold RInv, rt_with_x. rproj. auto. Qed.

(* addHandshakeBuffer takes a chunk (bufferLock free, the relay handshaking) *)
Lemma rt_X_park : forall t era x d y, rt_X t era x -> x_lock x = false -> x_status x = StHandshaking ->
  rt_buf_ok t d y -> rt_X t era (rt_set_buf d (rt_buf d x ++ [y]) x).
Proof.
  intros t era x d y (X1 & X2 & X3 & X4 & X5 & X6 & X7) Hlk Hst Hy. unfold rt_X.
  assert (Hnf : rt_flush_pc (x_pc x) = false) by (rewrite <- X3; exact Hlk).
  split.
  { intros d' y' Hy'. destruct d, d'; cbn [rt_set_buf rt_buf] in Hy'; xproj;
      try (apply in_app_or in Hy'; destruct Hy' as [Hy'|[<-|[]]]; [|exact Hy]);
      first [exact (X1 RdIn y' Hy') | exact (X1 RdOut y' Hy')]. }
  split; [destruct d; exact X2|]. split; [destruct d; exact X3|].
  split; [intros H; destruct d; cbn [rt_set_buf] in H; xproj; congruence|].
  split; [destruct d; cbn [rt_set_buf]; xproj; destruct (x_pc x); try exact I; discriminate Hnf|].
  split; [destruct d; exact X6|]. intros d' o Ho. apply (X7 d'). destruct d, d'; exact Ho.
Qed.

Lemma rt_drop_bytes_in : forall k b y, In y (rt_drop_bytes k b) -> exists y0, In y0 b /\ fst y0 = fst y.
Proof.
  intros k b. revert k. induction b as [|[src bs] r IH]; intros k y Hy.
  - destruct k; destruct Hy.
  - destruct k as [|k]; [exists y; split; [exact Hy|reflexivity]|].
    cbn [rt_drop_bytes] in Hy. destruct (length bs <=? S k)%nat.
    + destruct (IH _ y Hy) as (y0 & H0 & H1). exists y0. split; [right; exact H0|exact H1].
    + destruct Hy as [<-|Hy]; [exists (src, bs); split; [left; reflexivity|reflexivity]|].
      exists y. split; [right; exact Hy|reflexivity].
Qed.

(* a readLine of the handshake goroutine: bytes leave the front of a buffer, the goroutine moves on *)
Lemma rt_X_read : forall t era x d k pc, rt_X t era x ->
  (d = RdIn /\ x_pc x = HsRecvAct) \/ (d = RdOut /\ x_pc x = HsRecvCfg) \/ x_pc x = HsRecvAct \/ x_pc x = HsRecvCfg ->
  pc <> HsIdle -> rt_flush_pc pc = false ->
  rt_X t era (rt_set_pc_lock pc false (rt_set_buf d (rt_drop_bytes k (rt_buf d x)) x)).
Proof.
  intros t era x d k pc (X1 & X2 & X3 & X4 & X5 & X6 & X7) Hpc Hni Hnf. unfold rt_X.
  assert (Hst : x_status x = StHandshaking).
  { apply X2. destruct Hpc as [[_ H]|[[_ H]|[H|H]]]; rewrite H; discriminate. }
  split.
  { intros d' y Hy. destruct d, d'; unfold rt_set_pc_lock, rt_set_buf, rt_buf in Hy; xproj;
      try (apply rt_drop_bytes_in in Hy; destruct Hy as (y0 & H0 & H1); unfold rt_buf_ok; rewrite <- H1);
      first [exact (X1 RdIn _ H0) | exact (X1 RdOut _ H0) | exact (X1 RdIn y Hy) | exact (X1 RdOut y Hy)]. }
  split; [destruct d; unfold rt_set_pc_lock, rt_set_buf; xproj; (split; [intros _; exact Hni|intros _; exact Hst])|].
  split; [destruct d; unfold rt_set_pc_lock, rt_set_buf; xproj; symmetry; exact Hnf|].
  split; [intros H; destruct d; unfold rt_set_pc_lock, rt_set_buf in H; xproj; congruence|].
  split; [destruct d; unfold rt_set_pc_lock, rt_set_buf; xproj; destruct pc; try exact I; discriminate Hnf|].
  split; [destruct d; exact X6|]. intros d' o Ho. apply (X7 d'). destruct d, d'; exact Ho.
Qed.

(* the handshake goroutine moves to pc (buffers as they are); ob = what the new program point says about the buffers *)
Lemma rt_X_pc : forall t era x pc, rt_X t era x -> x_pc x <> HsIdle -> pc <> HsIdle ->
  forall lk, lk = rt_flush_pc pc ->
  match pc with HsFlushOut _ => x_bufin x = [] | HsFlushEnd _ => x_bufin x = [] /\ x_bufout x = [] | _ => True end ->
  rt_X t era (rt_set_pc_lock pc lk x).
Proof.
  intros t era x pc (X1 & X2 & X3 & X4 & X5 & X6 & X7) Hold Hni lk Hlk Hob. unfold rt_X, rt_set_pc_lock. xproj.
  assert (Hst : x_status x = StHandshaking) by (apply X2; exact Hold).
  split; [intros d y Hy; apply (X1 d); destruct d; exact Hy|].
  split; [split; [intros _; exact Hni|intros _; exact Hst]|]. split; [exact Hlk|].
  split; [intros H; congruence|]. split; [exact Hob|]. split; [exact X6|].
  intros d o Ho. apply (X7 d). destruct d; exact Ho.
Qed.

(* one round of a flush loop took the head of a buffer *)
Lemma rt_X_pop : forall t era x d y rest, rt_X t era x -> rt_buf d x = y :: rest ->
  match x_pc x with HsFlushOut _ => x_bufin x = [] | _ => True end ->
  rt_X t era (rt_set_buf d rest x).
Proof.
  intros t era x d y rest (X1 & X2 & X3 & X4 & X5 & X6 & X7) Hb Hin. unfold rt_X.
  split.
  { intros d' y' Hy'. destruct d, d'; cbn [rt_set_buf rt_buf] in *; xproj;
      first [apply (X1 RdIn); cbn [rt_buf]; rewrite ?Hb; first [right; exact Hy'|exact Hy']
            |apply (X1 RdOut); cbn [rt_buf]; rewrite ?Hb; first [right; exact Hy'|exact Hy']]. }
  split; [destruct d; exact X2|]. split; [destruct d; exact X3|].
  split.
  { intros H. destruct d; cbn [rt_set_buf rt_buf] in *; xproj; pose proof (X4 H) as H12; destruct H12; congruence. }
  split.
  { destruct d; cbn [rt_set_buf rt_buf] in *; xproj; destruct (x_pc x); try exact I; try exact Hin;
      try (destruct X5; congruence); try congruence. }
  split; [destruct d; exact X6|]. intros d' o Ho. apply (X7 d'). destruct d, d'; exact Ho.
Qed.

Lemma rt_X_finish : forall t era x st, rt_X t era x -> x_bufin x = [] /\ x_bufout x = [] ->
  st <> StHandshaking -> (st = StHandshaking -> era = 0%nat) -> rt_X t era (rt_hs_finish st x).
Proof.
  intros t era x st (X1 & X2 & X3 & X4 & X5 & X6 & X7) [Hbi Hbo] Hst Hera. unfold rt_X, rt_hs_finish. xproj.
  split; [intros d y Hy; apply (X1 d); destruct d; exact Hy|].
  split; [split; [intros H; contradiction|intros H; exfalso; apply H; reflexivity]|]. split; [reflexivity|].
  split; [intros _; split; assumption|]. split; [exact I|]. split; [exact Hera|].
  intros d o Ho. apply (X7 d). destruct d; exact Ho.
Qed.

Lemma rt_X_standby : forall t era x, rt_X t era x -> x_status x <> StHandshaking -> rt_X t era (rt_set_status StStandby x).
Proof.
  intros t era x (X1 & X2 & X3 & X4 & X5 & X6 & X7) Hst. unfold rt_X, rt_set_status. xproj.
  assert (Hpc : x_pc x = HsIdle).
  { destruct (x_pc x) eqn:E; try reflexivity; exfalso; apply Hst; apply X2; discriminate. }
  split; [intros d y Hy; apply (X1 d); destruct d; exact Hy|].
  split; [split; [intros H; discriminate H|intros H; contradiction]|]. split; [exact X3|].
  split; [intros _; exact (X4 Hst)|]. split; [exact X5|]. split; [intros H; discriminate H|].
  intros d o Ho. apply (X7 d). destruct d; exact Ho.
Qed.

(* after a reset: tunnelRelay is nil, one more era; the relay is not handshaking, so nothing is parked *)
Lemma rt_X_none : forall t era x, rt_X t era x -> x_status x <> StHandshaking -> rt_X None (S era) x.
Proof.
  intros t era x (X1 & X2 & X3 & X4 & X5 & X6 & X7) Hst. unfold rt_X.
  destruct (X4 Hst) as [Hbi Hbo].
  split; [intros d y Hy; destruct d; cbn [rt_buf] in Hy; rewrite ?Hbi, ?Hbo in Hy; destruct Hy|].
  split; [exact X2|]. split; [exact X3|]. split; [exact X4|]. split; [exact X5|].
  split; [intros H; contradiction|exact X7].
Qed.

(* the relay writes a chunk towards the server / the client: into the adopted bridge, or in-band *)
Lemma rt_route_inv : forall s d y pc lk s',
  rt_L (r_pairs s) -> rt_GW (r_trelay s) (r_era s) (r_pairs s) -> rt_ACC (r_apc s) (r_pairs s) ->
  rt_route s d y pc lk = Some s' ->
  fst y = RsRelay \/ rt_buf_ok (r_trelay s) d y ->
  rt_X (r_trelay s) (r_era s) (rt_set_pc_lock pc lk (r_x s)) ->
  RInv s'.
Proof.
  intros s d y pc lk s' HL HG HA Hstep Hy HX. unfold rt_route in Hstep.
  destruct (r_trelay s) as [c|] eqn:Et.
  - destruct (r_tconnected s) eqn:Etc.
    + destruct (nth_error (r_pairs s) c) as [p|] eqn:Ep; [|discriminate Hstep].
      destruct (p_br p) as [b|] eqn:Eb; [|discriminate Hstep].
      destruct (rt_chan_has_room (rt_half_of d b)); [|discriminate Hstep]. injection Hstep as <-.
      assert (Hwon : p_won p <> None).
      { destruct HG as (G1 & _). assert (H : Some c = Some c) by reflexivity. apply (G1 c p Ep) in H. rewrite H. discriminate. }
      unfold RInv, rt_with_x, rt_upd_pair, rt_with_pairs. rproj. rewrite Et. split; [|split; [|split]].
      * apply rt_L_upd; [exact HL|]. intros p0 Hp0 Hl0. rewrite Ep in Hp0. injection Hp0 as <-.
        apply rt_local_set_half; [exact Eb|reflexivity|reflexivity| | | | |exact Hl0]; unfold rt_half_push; hproj; auto.
        -- intros H. rewrite rt_forallb_snoc, H. cbn [andb]. unfold rt_tag_ok.
           destruct Hy as [Hy|Hy]; [rewrite Hy; destruct d; reflexivity|].
           unfold rt_buf_ok in Hy. destruct (fst y) as [c'|c'| |g].
           ++ destruct Hy as [-> Hy]. injection Hy as <-. apply Nat.eqb_refl.
           ++ destruct Hy as [-> Hy]. injection Hy as <-. apply Nat.eqb_refl.
           ++ destruct Hy.
           ++ subst g. destruct d; reflexivity.
        -- intros H. contradiction.
      * apply rt_GW_upd; [exact HG|]. intros p0 _. reflexivity.
      * exact HX.
      * apply rt_ACC_upd; [exact HA|]. intros p0 _ H. exact H.
    + injection Hstep as <-. unfold RInv, rt_with_x. rproj. rewrite Et.
      split; [exact HL|]. split; [exact HG|]. split; [|exact HA].
      apply rt_X_add_out; [exact HX|]. cbn [fst snd]. intros _. reflexivity.
  - assert (Hr : s' = rt_with_x s (rt_add_out d (y, r_tconnected s) (rt_set_pc_lock pc lk (r_x s)))).
    { destruct (r_tconnected s); injection Hstep as <-; reflexivity. }
    subst s'. unfold RInv, rt_with_x. rproj. rewrite Et.
    split; [exact HL|]. split; [exact HG|]. split; [|exact HA].
    apply rt_X_add_out; [exact HX|]. cbn [fst snd]. intros Hts.
    destruct Hy as [Hy|Hy]; [rewrite Hy in Hts; discriminate Hts|].
    unfold rt_buf_ok in Hy. destruct (fst y); try discriminate Hts; destruct Hy as [_ Hy]; discriminate Hy.
Qed.

Lemma rt_step_inv : forall s l s', RInv s -> rt_step ch1 sh4 ch2 sh3 s l = Some s' -> RInv s'.
Proof.
  intros s l s' Hinv Hstep.
  destruct l as [script|c|c|c| | |c dial fail|c d|c d n|c d|c d|c d|v|d bs|k ok tun conf|bs| ]; unfold rt_step in Hstep.
  - (* RLConnect *)
    injection Hstep as <-. destruct Hinv as (HL & (G1 & G2 & G3 & G4) & HP & HA).
    unfold RInv, rt_with_pairs. rproj.
    assert (Hnew : forall c p, nth_error (r_pairs s ++ [rt_new_pair script (if r_lis s then RtPending else RtRefused)]) c = Some p ->
              nth_error (r_pairs s) c = Some p \/ (c = length (r_pairs s) /\ p_won p = None /\ rt_local c p)).
    { intros c p Hn. apply nth_error_app_last in Hn. destruct Hn as [Hn|[-> ->]]; [left; exact Hn|right].
      split; [reflexivity|]. split; [reflexivity|]. unfold rt_local, rt_new_pair. pproj.
      destruct (r_lis s); unf; pproj; eproj; splits; reflexivity. }
    split; [|split; [|split]].
    + intros c p Hn. destruct (Hnew c p Hn) as [H|(_ & _ & H)]; [exact (HL c p H)|exact H].
    + unfold rt_GW. split; [|split; [|split]].
      * intros c p Hn. destruct (Hnew c p Hn) as [H|(-> & Hw & _)]; [exact (G1 c p H)|].
        rewrite Hw. split; intros H; [|discriminate H]. apply G4 in H. lia.
      * intros c p e Hn Hw. destruct (Hnew c p Hn) as [H|(_ & Hw' & _)]; [exact (G2 c p e H Hw)|congruence].
      * intros c1 c2 p1 p2 e H1 H2 W1 W2.
        destruct (Hnew c1 p1 H1) as [H1'|(_ & Hw1 & _)]; [|congruence].
        destruct (Hnew c2 p2 H2) as [H2'|(_ & Hw2 & _)]; [|congruence].
        exact (G3 c1 c2 p1 p2 e H1' H2' W1 W2).
      * intros c H. rewrite app_length. apply G4 in H. lia.
    + exact HP.
    + intros c H. destruct (HA c H) as (p & Hn & Hpc). exists p. split; [|exact Hpc].
      rewrite nth_error_app1; [exact Hn|]. eapply nth_error_lt. exact Hn.
  - (* RLPeerC *)
    destruct (nth_error (r_pairs s) c) as [p|] eqn:Ep; [|discriminate Hstep].
    destruct (rt_end_peer (p_cli p)) as [e|] eqn:Ee; [|discriminate Hstep]. injection Hstep as <-.
    destruct (rt_end_peer_same _ _ Ee) as [Htx Hcl].
    apply RInv_upd; [exact Hinv| | |].
    + intros p0 Hp0 Hl0. rewrite Ep in Hp0. injection Hp0 as <-. apply rt_local_set_cli; [exact Htx|rewrite Hcl; auto|exact Hl0].
    + intros p0 _. reflexivity.
    + intros p0 _ H. exact H.
  - (* RLPeerS *)
    destruct (nth_error (r_pairs s) c) as [p|] eqn:Ep; [|discriminate Hstep].
    destruct (p_srv p) as [e0|] eqn:Es; [|discriminate Hstep].
    destruct (rt_end_peer e0) as [e|] eqn:Ee; [|discriminate Hstep]. injection Hstep as <-.
    destruct (rt_end_peer_same _ _ Ee) as [Htx Hcl].
    apply RInv_upd; [exact Hinv| | |].
    + intros p0 Hp0 Hl0. rewrite Ep in Hp0. injection Hp0 as <-. apply (rt_local_set_srv c p e0); [exact Es|exact Htx|rewrite Hcl; auto|exact Hl0].
    + intros p0 _. reflexivity.
    + intros p0 _ H. exact H.
  - (* RLAccept *)
    destruct (r_apc s) eqn:Ea; try discriminate Hstep. destruct (r_lis s); try discriminate Hstep.
    destruct (nth_error (r_pairs s) c) as [p|] eqn:Ep; [|discriminate Hstep].
    destruct (p_pc p) eqn:Epc; try discriminate Hstep. injection Hstep as <-.
    destruct Hinv as (HL & HG & HP & HA). unfold RInv. rproj. split; [|split; [|split]].
    + apply rt_L_upd; [exact HL|]. intros p0 Hp0 Hl0. rewrite Ep in Hp0. injection Hp0 as <-.
      unfold rt_local, rt_set_pc in *. pproj. rewrite Epc in Hl0. exact Hl0.
    + apply rt_GW_upd; [exact HG|]. intros p0 _. reflexivity.
    + exact HP.
    + intros c0 H. injection H as <-. rewrite nth_upd_same, Ep. cbn [option_map]. eexists. split; reflexivity.
  - (* RLAcceptErr *)
    destruct (r_apc s) eqn:Ea; try discriminate Hstep. destruct (r_lis s); try discriminate Hstep.
    injection Hstep as <-. destruct Hinv as (HL & HG & HP & HA). unfold RInv. rproj.
    split; [exact HL|]. split; [exact HG|]. split; [exact HP|]. intros c0 H. discriminate H.
  - (* RLCheck *)
    destruct (r_apc s) as [|c|] eqn:Ea; try discriminate Hstep.
    destruct Hinv as (HL & HG & HP & HA). destruct (HA c Ea) as (p & Ep & Epc).
    destruct (r_trelay s) as [t|] eqn:Et; injection Hstep as <-; unfold RInv; rproj; (split; [|split; [|split]]).
    + apply rt_L_upd; [exact HL|]. intros p0 Hp0 Hl0. rewrite Ep in Hp0. injection Hp0 as <-.
      unfold rt_local in *. rewrite Epc in Hl0. setters. pproj. unf. pproj. dex. fin p.
    + apply rt_GW_upd; [exact HG|]. intros p0 _. setters. destruct (p_srv p0); reflexivity.
    + exact HP.
    + intros c0 H. discriminate H.
    + apply rt_L_upd; [exact HL|]. intros p0 Hp0 Hl0. rewrite Ep in Hp0. injection Hp0 as <-.
      unfold rt_local, rt_set_pc in *. pproj. rewrite Epc in Hl0. exact Hl0.
    + apply rt_GW_upd; [exact HG|]. intros p0 _. reflexivity.
    + exact HP.
    + intros c0 H. discriminate H.
  - (* RLHandler *)
    destruct (nth_error (r_pairs s) c) as [p|] eqn:Ep; [|discriminate Hstep].
    exact (rt_handler_inv s c p dial fail s' Hinv Ep Hstep).
  - (* RLWriter *)
    destruct (nth_error (r_pairs s) c) as [p|] eqn:Ep; [|discriminate Hstep].
    destruct (p_br p) as [b|] eqn:Eb; [|discriminate Hstep].
    destruct (rt_dst_end d p) as [e|] eqn:Ee; [|discriminate Hstep].
    destruct (h_writer (rt_half_of d b)) eqn:Ew; [|discriminate Hstep].
    destruct (h_chan (rt_half_of d b)) as [|x rest] eqn:Ech.
    + destruct (h_chan_closed (rt_half_of d b)) eqn:Ecl; [|discriminate Hstep]. injection Hstep as <-.
      apply RInv_upd; [exact Hinv| | |].
      * intros p0 Hp0 Hl0. rewrite Ep in Hp0. injection Hp0 as <-. apply rt_local_writer_exit; assumption.
      * intros p0 _. destruct d; cbn [rt_set_dst_end]; reflexivity.
      * intros p0 _ H. destruct d; cbn [rt_set_dst_end]; exact H.
    + destruct (e_closed e); injection Hstep as <-; (apply RInv_upd; [exact Hinv| | |]).
      * intros p0 Hp0 Hl0. rewrite Ep in Hp0. injection Hp0 as <-.
        apply rt_local_set_half; [exact Eb|reflexivity|try reflexivity| | | | |exact Hl0]; hproj; auto.
        -- rewrite Ech. cbn [forallb]. intros H. apply andb_true_iff in H. exact (proj2 H).
        -- intros _ (H & _). rewrite Ech in H. discriminate H.
      * intros p0 _. reflexivity.
      * intros p0 _ H. exact H.
      * intros p0 Hp0 Hl0. rewrite Ep in Hp0. injection Hp0 as <-. apply rt_local_writer_write; assumption.
      * intros p0 _. destruct d; cbn [rt_set_dst_end]; reflexivity.
      * intros p0 _ H. destruct d; cbn [rt_set_dst_end]; exact H.
  - (* RLPump *)
    destruct (nth_error (r_pairs s) c) as [p|] eqn:Ep; [|discriminate Hstep].
    destruct (p_br p) as [b|] eqn:Eb; [|discriminate Hstep].
    destruct (rt_src_end d p) as [e|] eqn:Ee; [|discriminate Hstep].
    destruct (h_pump (rt_half_of d b)) eqn:Epm; try discriminate Hstep.
    match type of Hstep with (if ?x then _ else _) = _ => destruct x end; [|discriminate Hstep].
    destruct (b_relay b && rt_handshaking s) eqn:Epark.
    + destruct (x_lock (r_x s)) eqn:Elk; [discriminate Hstep|]. injection Hstep as <-.
      apply andb_true_iff in Epark. destruct Epark as [Erel Ehs].
      destruct Hinv as (HL & HG & HP & HA). unfold RInv. rproj. split; [|split; [|split]].
      * apply rt_L_upd; [exact HL|]. intros p0 Hp0 Hl0. rewrite Ep in Hp0. injection Hp0 as <-.
        apply rt_local_set_src_drop; assumption.
      * apply rt_GW_upd; [exact HG|]. intros p0 _. destruct d; reflexivity.
      * assert (Hwon : p_won p <> None).
        { apply (rt_local_used_won c p b d (HL c p Ep) Eb). right. right. right. exact Erel. }
        assert (Ht : r_trelay s = Some c).
        { destruct HP as (_ & _ & _ & _ & _ & X6 & _). unfold rt_handshaking in Ehs.
          destruct (x_status (r_x s)) eqn:Est; try discriminate Ehs. specialize (X6 eq_refl).
          destruct HG as (G1 & G2 & _). destruct (p_won p) as [e0|] eqn:Ew; [|contradiction].
          pose proof (G2 c p e0 Ep Ew) as Hle. apply (G1 c p Ep). rewrite Ew. f_equal. lia. }
        apply rt_X_add_seen.
        apply rt_X_park; [exact HP|exact Elk|unfold rt_handshaking in Ehs; destruct (x_status (r_x s)); try discriminate Ehs; reflexivity|].
        unfold rt_buf_ok. destruct d; cbn [fst rt_tag]; split; auto.
      * apply rt_ACC_upd; [exact HA|]. intros p0 _ H. destruct d; exact H.
    + destruct (rt_chan_has_room (rt_half_of d b)); [|discriminate Hstep]. injection Hstep as <-.
      apply RInv_with_x; [|unfold rt_upd_pair, rt_with_pairs; rproj; apply rt_X_add_seen; destruct Hinv as (_ & _ & HP & _); exact HP].
      apply RInv_upd; [exact Hinv| | |].
      * intros p0 Hp0 Hl0. rewrite Ep in Hp0. injection Hp0 as <-. apply rt_local_set_src_drop.
        { destruct d; cbn [rt_src_end] in *; unfold rt_set_br; pproj; exact Ee. }
        apply rt_local_set_half; [exact Eb|reflexivity|try reflexivity| | | | |exact Hl0]; unfold rt_half_push; hproj; auto.
        -- intros H. rewrite rt_forallb_snoc, H, rt_tag_ok_own. reflexivity.
        -- intros _ (_ & _ & H). congruence.
      * intros p0 _. destruct d; reflexivity.
      * intros p0 _ H. destruct d; exact H.
  - (* RLPumpEof *)
    destruct (nth_error (r_pairs s) c) as [p|] eqn:Ep; [|discriminate Hstep].
    destruct (p_br p) as [b|] eqn:Eb; [|discriminate Hstep].
    destruct (rt_src_end d p) as [e|] eqn:Ee; [|discriminate Hstep].
    destruct (h_pump (rt_half_of d b)) eqn:Epm; try discriminate Hstep.
    destruct (e_rx e); [|discriminate Hstep].
    match type of Hstep with (if ?x then _ else _) = _ => destruct x end; [|discriminate Hstep].
    injection Hstep as <-. apply RInv_upd; [exact Hinv| | |].
    + intros p0 Hp0 Hl0. rewrite Ep in Hp0. injection Hp0 as <-.
      apply rt_local_set_half; [exact Eb|reflexivity|try reflexivity| | | | |exact Hl0]; unfold rt_half_set_pump; hproj; auto.
      * intros H. congruence.
      * intros _ (_ & _ & H). congruence.
    + intros p0 _. reflexivity.
    + intros p0 _ H. exact H.
  - (* RLPumpExit *)
    destruct (nth_error (r_pairs s) c) as [p|] eqn:Ep; [|discriminate Hstep].
    destruct (p_br p) as [b|] eqn:Eb; [|discriminate Hstep].
    destruct (h_pump (rt_half_of d b)) eqn:Epm; try discriminate Hstep.
    destruct (b_relay b); [discriminate Hstep|].
    injection Hstep as <-. apply RInv_upd; [exact Hinv| | |].
    + intros p0 Hp0 Hl0. rewrite Ep in Hp0. injection Hp0 as <-.
      apply rt_local_set_half; [exact Eb|reflexivity|try reflexivity| | | | |exact Hl0];
        unfold rt_half_set_pump, rt_half_close_chan; hproj; auto.
      * intros H. congruence.
      * intros _ (_ & _ & H). congruence.
    + intros p0 _. reflexivity.
    + intros p0 _ H. exact H.
  - (* RLPumpSpin *)
    destruct (nth_error (r_pairs s) c) as [p|] eqn:Ep; [|discriminate Hstep].
    destruct (p_br p) as [b|] eqn:Eb; [|discriminate Hstep].
    destruct (rt_src_end d p) as [e|] eqn:Ee; [|discriminate Hstep].
    destruct (h_pump (rt_half_of d b)); try discriminate Hstep.
    destruct (e_closed e); [|discriminate Hstep]. injection Hstep as <-. exact Hinv.
  - (* RLSetConnector *)
    injection Hstep as <-. exact Hinv.
  - (* RLInband *)
    destruct bs as [|b0 bs]; [discriminate Hstep|].
    destruct Hinv as (HL & HG & HP & HA).
    destruct (rt_handshaking s) eqn:Ehs.
    + destruct (x_lock (r_x s)) eqn:Elk; [discriminate Hstep|].
      destruct (r_tconnected s) eqn:Etc; injection Hstep as <-; unfold RInv, rt_with_x; rproj;
        (split; [exact HL|]; split; [exact HG|]; split; [|exact HA]).
      * apply rt_X_add_out; [exact HP|]. cbn [fst snd rt_is_tunnel_src]. discriminate.
      * apply rt_X_park; [exact HP|exact Elk| |reflexivity].
        unfold rt_handshaking in Ehs. destruct (x_status (r_x s)); try discriminate Ehs; reflexivity.
    + injection Hstep as <-. unfold RInv, rt_with_x. rproj.
      split; [exact HL|]. split; [exact HG|]. split; [|exact HA].
      apply rt_X_add_out; [exact HP|]. cbn [fst snd rt_is_tunnel_src]. discriminate.
  - (* RLHsRead *)
    destruct Hinv as (HL & HG & HP & HA).
    destruct (x_pc (r_x s)) eqn:Epc; try discriminate Hstep;
      (match type of Hstep with (if ?x then _ else _) = _ => destruct x end; [|discriminate Hstep]);
      injection Hstep as <-; unfold RInv, rt_with_x; rproj;
      (split; [exact HL|]; split; [exact HG|]; split; [|exact HA]).
    + apply (rt_X_read _ _ _ RdIn); [exact HP|right; right; left; exact Epc|destruct ok; discriminate|destruct ok; reflexivity].
    + apply (rt_X_read _ _ _ RdOut); [exact HP|right; right; right; exact Epc|destruct ok; discriminate|destruct ok; reflexivity].
  - (* RLHs *)
    pose proof Hinv as (HL & HG & HP & HA).
    destruct (x_pc (r_x s)) as [ |tn cf|cf| | | | |cf|cf|cf| ] eqn:Epc; try discriminate Hstep.
    + (* HsStore *)
      injection Hstep as <-. unfold RInv. rproj. split; [exact HL|]. split; [exact HG|]. split; [|exact HA].
      apply rt_X_pc; [exact HP|rewrite Epc; discriminate|discriminate|reflexivity|exact I].
    + (* HsSendAct *)
      apply (rt_route_inv s RdIn (RsRelay, bs) _ _ s' HL HG HA Hstep); [left; reflexivity|].
      destruct cf; (apply rt_X_pc; [exact HP|rewrite Epc; discriminate|discriminate|reflexivity|exact I]).
    + (* HsSendCfg *)
      apply (rt_route_inv s RdOut (RsRelay, bs) _ _ s' HL HG HA Hstep); [left; reflexivity|].
      apply rt_X_pc; [exact HP|rewrite Epc; discriminate|discriminate|reflexivity|exact I].
    + (* HsErr1 *)
      apply (rt_route_inv s RdOut (RsRelay, bs) _ _ s' HL HG HA Hstep); [left; reflexivity|].
      apply rt_X_pc; [exact HP|rewrite Epc; discriminate|discriminate|reflexivity|exact I].
    + (* HsErr2 *)
      apply (rt_route_inv s RdIn (RsRelay, bs) _ _ s' HL HG HA Hstep); [left; reflexivity|].
      apply rt_X_pc; [exact HP|rewrite Epc; discriminate|discriminate|reflexivity|exact I].
    + (* HsFlushIn *)
      destruct (x_bufin (r_x s)) as [|y rest] eqn:Eb.
      * injection Hstep as <-. unfold RInv, rt_with_x. rproj. split; [exact HL|]. split; [exact HG|]. split; [|exact HA].
        apply rt_X_pc; [exact HP|rewrite Epc; discriminate|discriminate|reflexivity|exact Eb].
      * assert (Hy : rt_buf_ok (r_trelay s) RdIn y).
        { destruct HP as (X1 & _). apply (X1 RdIn). cbn [rt_buf]. rewrite Eb. left. reflexivity. }
        apply (rt_route_inv (rt_with_x s (rt_set_buf RdIn rest (r_x s))) RdIn y (HsFlushIn cf) true s'); unfold rt_with_x; rproj;
          try assumption; [right; exact Hy|].
        apply rt_X_pc; [apply (rt_X_pop _ _ _ RdIn y rest); [exact HP|exact Eb|rewrite Epc; exact I]
                       |cbn [rt_set_buf]; xproj; rewrite Epc; discriminate|discriminate|reflexivity
                       |exact I].
    + (* HsFlushOut *)
      assert (Hbi : x_bufin (r_x s) = []).
      { destruct HP as (_ & _ & _ & _ & X5 & _). rewrite Epc in X5. exact X5. }
      destruct (x_bufout (r_x s)) as [|y rest] eqn:Eb.
      * injection Hstep as <-. unfold RInv, rt_with_x. rproj. split; [exact HL|]. split; [exact HG|]. split; [|exact HA].
        apply rt_X_pc; [exact HP|rewrite Epc; discriminate|discriminate|reflexivity|split; assumption].
      * assert (Hy : rt_buf_ok (r_trelay s) RdOut y).
        { destruct HP as (X1 & _). apply (X1 RdOut). cbn [rt_buf]. rewrite Eb. left. reflexivity. }
        apply (rt_route_inv (rt_with_x s (rt_set_buf RdOut rest (r_x s))) RdOut y (HsFlushOut cf) true s'); unfold rt_with_x; rproj;
          try assumption; [right; exact Hy|].
        apply rt_X_pc; [apply (rt_X_pop _ _ _ RdOut y rest); [exact HP|exact Eb|rewrite Epc; exact Hbi]
                       |cbn [rt_set_buf]; xproj; rewrite Epc; discriminate|discriminate|reflexivity
                       |cbn [rt_set_buf]; xproj; exact Hbi].
    + (* HsFlushEnd *)
      assert (Hbe : x_bufin (r_x s) = [] /\ x_bufout (r_x s) = []).
      { destruct HP as (_ & _ & _ & _ & X5 & _). rewrite Epc in X5. exact X5. }
      destruct cf; injection Hstep as <-.
      * unfold RInv, rt_with_x. rproj. split; [exact HL|]. split; [exact HG|]. split; [|exact HA].
        apply rt_X_finish; [exact HP|exact Hbe|discriminate|intros H; discriminate H].
      * apply rt_reset_inv; [exact Hinv|]. apply (rt_X_none (r_trelay s)); [|cbn; discriminate].
        apply rt_X_finish; [exact HP|exact Hbe|discriminate|intros H; discriminate H].
  - (* RLReset *)
    destruct (x_status (r_x s)) eqn:Est; try discriminate Hstep. injection Hstep as <-.
    apply rt_reset_inv; [exact Hinv|]. destruct Hinv as (_ & _ & HP & _). apply (rt_X_none (r_trelay s)); [|cbn; discriminate].
    apply rt_X_standby; [exact HP|rewrite Est; discriminate].
Qed.

Lemma rt_run_inv : forall ls s s', RInv s -> rt_run ch1 sh4 ch2 sh3 s ls = Some s' -> RInv s'.
Proof.
  induction ls as [|l ls IH]; intros s s' Hinv Hrun; cbn [rt_run] in Hrun.
  - injection Hrun as <-. exact Hinv.
  - destruct (rt_step ch1 sh4 ch2 sh3 s l) as [s1|] eqn:E; [|discriminate Hrun].
    apply (IH s1 s'); [|exact Hrun]. exact (rt_step_inv s l s1 Hinv E).
Qed.

Lemma rt_reach_inv : forall s, rt_reach ch1 sh4 ch2 sh3 s -> RInv s.
Proof. intros s [ls H]. exact (rt_run_inv ls rt_init s RInv_init H). Qed.

(* ------------------------------------------------------------------------------------ *)
(* the theorems *)

(* a pair that is in tunnelRelay, or won the swap, or for which a bridge was ever built: the client's single
   first read was exactly the hello for (id, relay port), the relay wrote exactly the hello for (id, server
   port) to the server and the server's single answer was exactly its hello; the client was answered after
   that; and each end has been sent its hello followed by exactly what its writer took from its channel *)
Lemma rt_adopted_authenticated : forall s c p, rt_reach ch1 sh4 ch2 sh3 s ->
  nth_error (r_pairs s) c = Some p ->
  r_trelay s = Some c \/ p_won p <> None \/ p_br p <> None ->
  p_first p = Some ch1 /\ p_sfirst p = Some sh3 /\
  exists e b, p_srv p = Some e /\ p_br p = Some b /\
    e_tx e = ch2 ++ rt_payload (h_log (b_in b)) /\ e_tx (p_cli p) = sh4 ++ rt_payload (h_log (b_out b)).
Proof.
  intros s c p Hr Hn Hor. apply rt_reach_inv in Hr. pose proof Hr as (HL & _).
  pose proof (HL c p Hn) as Hl.
  assert (Hb : exists b, p_br p = Some b).
  { destruct Hor as [H|[H|H]].
    - apply (rt_local_won_br c p Hl). exact (rt_trelay_won s c p Hr H Hn).
    - exact (rt_local_won_br c p Hl H).
    - destruct (p_br p) as [b|]; [exists b; reflexivity|contradiction]. }
  destruct Hb as (b & Hb). pose proof (rt_local_br c p b Hl Hb) as (H1 & H2 & (H3 & _) & (H4 & _)).
  split; [exact H1|]. split; [exact H2|].
  unfold rt_dst_tx, rt_dst_end, rt_hello in *. destruct (p_srv p) as [e|]; [|discriminate H3].
  cbn [option_map] in *. injection H3 as H3. injection H4 as H4. exists e, b. auto.
Qed.

(* the cell and the ghost agree; at most one pair wins per era (between two resets) *)
Lemma rt_current_adopted : forall s c p, rt_reach ch1 sh4 ch2 sh3 s -> nth_error (r_pairs s) c = Some p ->
  (r_trelay s = Some c <-> p_won p = Some (r_era s)).
Proof. intros s c p Hr Hn. apply rt_reach_inv in Hr. destruct Hr as (_ & (G1 & _) & _). exact (G1 c p Hn). Qed.

Lemma rt_at_most_one : forall s c1 c2 p1 p2 e, rt_reach ch1 sh4 ch2 sh3 s ->
  nth_error (r_pairs s) c1 = Some p1 -> nth_error (r_pairs s) c2 = Some p2 ->
  p_won p1 = Some e -> p_won p2 = Some e -> c1 = c2.
Proof.
  intros s c1 c2 p1 p2 e Hr H1 H2 W1 W2. apply rt_reach_inv in Hr. destruct Hr as (_ & (_ & _ & G3 & _) & _).
  exact (G3 c1 c2 p1 p2 e H1 H2 W1 W2).
Qed.

Lemma rt_adopted_exists : forall s c, rt_reach ch1 sh4 ch2 sh3 s -> r_trelay s = Some c ->
  exists p, nth_error (r_pairs s) c = Some p.
Proof.
  intros s c Hr Ht. apply rt_reach_inv in Hr. destruct Hr as (_ & (_ & _ & _ & G4) & _).
  apply G4 in Ht. destruct (nth_error (r_pairs s) c) as [p|] eqn:E; [exists p; reflexivity|].
  apply nth_error_None in E. lia.
Qed.

(* the cell changes only by a compare-and-swap from nil, or by a reset, which starts a new era *)
Lemma rt_step_cell : forall s l s', rt_step ch1 sh4 ch2 sh3 s l = Some s' ->
  (r_era s' = r_era s /\ (r_trelay s' = r_trelay s \/ r_trelay s = None)) \/
  (r_era s' = S (r_era s) /\ r_trelay s' = None).
Proof.
  intros s l s' Hstep.
  destruct l; unfold rt_step, rt_handler, rt_route, rt_reset, rt_with_x, rt_upd_pair, rt_with_pairs in Hstep;
    repeat match type of Hstep with
           | match ?x with _ => _ end = _ => destruct x eqn:?; try discriminate Hstep
           | (if ?x then _ else _) = _ => destruct x eqn:?; try discriminate Hstep
           end;
    injection Hstep as <-; rproj;
    first [ left; split; [reflexivity|first [left; reflexivity | right; assumption | right; reflexivity | left; congruence]]
          | right; split; reflexivity ].
Qed.

Lemma rt_run_era_mono : forall ls s s', rt_run ch1 sh4 ch2 sh3 s ls = Some s' -> (r_era s <= r_era s')%nat.
Proof.
  induction ls as [|l ls IH]; intros s s' Hrun; cbn [rt_run] in Hrun.
  - injection Hrun as <-. lia.
  - destruct (rt_step ch1 sh4 ch2 sh3 s l) as [s1|] eqn:E; [|discriminate Hrun].
    specialize (IH s1 s' Hrun). destruct (rt_step_cell s l s1 E) as [[He _]|[He _]]; lia.
Qed.

Lemma rt_adoption_stable : forall ls s s' c, rt_run ch1 sh4 ch2 sh3 s ls = Some s' ->
  r_era s' = r_era s -> r_trelay s = Some c -> r_trelay s' = Some c.
Proof.
  induction ls as [|l ls IH]; intros s s' c Hrun He Ht; cbn [rt_run] in Hrun.
  - injection Hrun as <-. exact Ht.
  - destruct (rt_step ch1 sh4 ch2 sh3 s l) as [s1|] eqn:E; [|discriminate Hrun].
    pose proof (rt_run_era_mono ls s1 s' Hrun) as Hm.
    destruct (rt_step_cell s l s1 E) as [[He1 Hc]|[He1 _]]; [|lia].
    apply (IH s1 s' c Hrun); [lia|]. destruct Hc as [Hc|Hc]; congruence.
Qed.

(* a client that presented anything but the hello for (id, relay port) — or nothing yet: not one byte was
   written to it, the connector was never called on its behalf, no bridge, not adopted; closed when its
   handler is done *)
Lemma rt_unauth_client : forall s c p, rt_reach ch1 sh4 ch2 sh3 s -> nth_error (r_pairs s) c = Some p ->
  p_first p <> Some ch1 ->
  e_tx (p_cli p) = [] /\ p_srv p = None /\ p_br p = None /\ p_won p = None /\ r_trelay s <> Some c /\
  (forall o, p_pc p = RtDone o -> e_closed (p_cli p) = true).
Proof.
  intros s c p Hr Hn Hf. apply rt_reach_inv in Hr. pose proof Hr as (HL & (G1 & _) & _).
  destruct (rt_local_unauth_cli c p (HL c p Hn) Hf) as (H1 & H2 & H3 & H4 & H5).
  splits; try assumption. intros Ht. apply (G1 c p Hn) in Ht. congruence.
Qed.

(* a server connection that answered anything but the hello for (id, server port) — or nothing yet: the
   CLIENT has been sent nothing, no bridge, not adopted, the server connection has been sent at most the
   relay's hello; both closed when the handler is done *)
Lemma rt_unauth_server : forall s c p, rt_reach ch1 sh4 ch2 sh3 s -> nth_error (r_pairs s) c = Some p ->
  p_sfirst p <> Some sh3 ->
  e_tx (p_cli p) = [] /\ p_br p = None /\ p_won p = None /\ r_trelay s <> Some c /\
  (forall e, p_srv p = Some e -> e_tx e = [] \/ e_tx e = ch2) /\
  (forall o, p_pc p = RtDone o -> e_closed (p_cli p) = true /\ (forall e, p_srv p = Some e -> e_closed e = true)).
Proof.
  intros s c p Hr Hn Hf. apply rt_reach_inv in Hr. pose proof Hr as (HL & (G1 & _) & _).
  destruct (rt_local_unauth_srv c p (HL c p Hn) Hf) as (H1 & H2 & H3 & H4 & H5).
  splits; try assumption.
  - intros Ht. apply (G1 c p Hn) in Ht. congruence.
  - intros e He. unfold rt_stx in H4. rewrite He in H4. cbn [option_map] in H4.
    destruct H4 as [H4|[H4|H4]]; [discriminate H4|left|right]; injection H4 as H4; exact H4.
  - intros o Ho. destruct (H5 o Ho) as [Hc Hs]. split; [exact Hc|]. intros e He.
    assert (Hne : p_srv p <> None) by congruence. apply Hs in Hne. unfold rt_closed_srv in Hne.
    rewrite He in Hne. cbn [option_map] in Hne. injection Hne as Hne. exact Hne.
Qed.

(* … and the very next statement of the handler closes it (them), whatever the connector or anybody else does *)
Lemma rt_unauth_client_next : forall s c p r dial fail, rt_reach ch1 sh4 ch2 sh3 s ->
  nth_error (r_pairs s) c = Some p -> p_pc p = RtCmp r -> r <> Some ch1 ->
  exists s' p', rt_step ch1 sh4 ch2 sh3 s (RLHandler c dial fail) = Some s' /\ nth_error (r_pairs s') c = Some p' /\
    p_pc p' = RtDone RoBadClient /\ e_closed (p_cli p') = true /\ e_tx (p_cli p') = [] /\ p_srv p' = None.
Proof.
  intros s c p r dial fail Hr Hn Hpc Hne. apply rt_reach_inv in Hr. destruct Hr as (HL & _).
  pose proof (HL c p Hn) as Hl. unfold rt_local in Hl. rewrite Hpc in Hl. destruct Hl as (_ & _ & Htx & Hs & _).
  exists (rt_upd_pair s c (rt_give_up RoBadClient)), (rt_give_up RoBadClient p).
  split.
  - unfold rt_step. rewrite Hn. unfold rt_handler. rewrite Hpc. destruct r as [got|]; [|reflexivity].
    rewrite (hello_matches_false got ch1 Hne). reflexivity.
  - unfold rt_upd_pair, rt_with_pairs. rproj. rewrite nth_upd_same, Hn. cbn [option_map].
    setters. rewrite Hs. pproj. eproj. repeat split; auto.
Qed.

Lemma rt_unauth_server_next : forall s c p r dial fail, rt_reach ch1 sh4 ch2 sh3 s ->
  nth_error (r_pairs s) c = Some p -> p_pc p = RtCmpSrv r -> r <> Some sh3 ->
  exists s' p' e', rt_step ch1 sh4 ch2 sh3 s (RLHandler c dial fail) = Some s' /\ nth_error (r_pairs s') c = Some p' /\
    p_pc p' = RtDone RoBadServer /\ e_closed (p_cli p') = true /\ e_tx (p_cli p') = [] /\
    p_srv p' = Some e' /\ e_closed e' = true /\ e_tx e' = ch2.
Proof.
  intros s c p r dial fail Hr Hn Hpc Hne. apply rt_reach_inv in Hr. destruct Hr as (HL & _).
  pose proof (HL c p Hn) as Hl. unfold rt_local in Hl. rewrite Hpc in Hl. destruct Hl as (_ & _ & Htx & Hs & _).
  unfold rt_stx in Hs. destruct (p_srv p) as [e|] eqn:Es; [|discriminate Hs]. cbn [option_map] in Hs. injection Hs as Hs.
  exists (rt_upd_pair s c (rt_give_up RoBadServer)), (rt_give_up RoBadServer p), (rt_end_close e).
  split.
  - unfold rt_step. rewrite Hn. unfold rt_handler. rewrite Hpc. destruct r as [got|]; [|reflexivity].
    rewrite (hello_matches_false got sh3 Hne). reflexivity.
  - unfold rt_upd_pair, rt_with_pairs. rproj. rewrite nth_upd_same, Hn. cbn [option_map].
    setters. rewrite Es. pproj. eproj. repeat split; auto.
Qed.

(* bytes cross a bridge only between the pair it belongs to: whatever is in a channel of pair c, or was
   written by one of its writers, was read from pair c's OWN other connection by pair c's own pump (directly, or
   parked in the relay's handshake buffer and flushed), or was written by the relay itself, or was read in-band
   while tunnelConnected was still false (parked, flushed); and only a pair that won the swap has ever had
   anything in its channels *)
Lemma rt_bridge_bytes : forall s c p b d x, rt_reach ch1 sh4 ch2 sh3 s ->
  nth_error (r_pairs s) c = Some p -> p_br p = Some b ->
  In x (h_chan (rt_half_of d b)) \/ In x (h_log (rt_half_of d b)) ->
  (fst x = rt_tag d c \/ fst x = RsRelay \/ fst x = RsInband false) /\ p_won p <> None.
Proof.
  intros s c p b d x Hr Hn Hb Hin. apply rt_reach_inv in Hr. destruct Hr as (HL & _).
  pose proof (HL c p Hn) as Hl. pose proof (rt_local_br c p b Hl Hb) as (_ & _ & (_ & Hi1 & Hi2 & _) & (_ & Ho1 & Ho2 & _)).
  split.
  - assert (Hok : rt_tag_ok d c x = true).
    { destruct d; cbn [rt_half_of] in Hin; destruct Hin as [H|H];
        first [exact (proj1 (forallb_forall _ _) Hi1 x H) | exact (proj1 (forallb_forall _ _) Hi2 x H)
              | exact (proj1 (forallb_forall _ _) Ho1 x H) | exact (proj1 (forallb_forall _ _) Ho2 x H)]. }
    unfold rt_tag_ok in Hok. destruct x as [[c'|c'| |[|]] bs]; destruct d; cbn [fst rt_tag negb] in *; try discriminate Hok;
      try (right; left; reflexivity); try (right; right; reflexivity); apply Nat.eqb_eq in Hok; subst c'; left; reflexivity.
  - apply (rt_local_used_won c p b d Hl Hb). destruct Hin as [H|H].
    + right. left. intros E. rewrite E in H. destruct H.
    + right. right. left. intros E. rewrite E in H. destruct H.
Qed.

(* ONCE THE TUNNEL IS AGREED, IN-BAND BYTES STAY OUT OF IT — also at the relay, in every phase of its handshake:
   nothing the relay read in-band while tunnelConnected was set is ever in a handshake buffer, in a channel of a
   bridge, or written to a tunnel connection *)
Lemma rt_inband_agreed_never_in_tunnel : forall s, rt_reach ch1 sh4 ch2 sh3 s ->
  (forall d bs, ~ In (RsInband true, bs) (rt_buf d (r_x s))) /\
  (forall c p b d bs, nth_error (r_pairs s) c = Some p -> p_br p = Some b ->
     ~ In (RsInband true, bs) (h_chan (rt_half_of d b)) /\ ~ In (RsInband true, bs) (h_log (rt_half_of d b))).
Proof.
  intros s Hr. split.
  - intros d bs Hin. apply rt_reach_inv in Hr. destruct Hr as (_ & _ & (X1 & _) & _).
    specialize (X1 d _ Hin). unfold rt_buf_ok in X1. cbn [fst] in X1. discriminate X1.
  - intros c p b d bs Hn Hb.
    assert (H : forall x, In x (h_chan (rt_half_of d b)) \/ In x (h_log (rt_half_of d b)) -> fst x <> RsInband true).
    { intros x Hx E. destruct (rt_bridge_bytes s c p b d x Hr Hn Hb Hx) as ([H|[H|H]] & _); rewrite E in H;
        try discriminate H. destruct d; discriminate H. }
    split; intros Hin; [apply (H _ (or_introl Hin))|apply (H _ (or_intror Hin))]; reflexivity.
Qed.

(* … and the other way round: whatever a pump read from a TUNNEL connection is written in-band only while
   tunnelConnected is false (a handshake that did not agree on the tunnel hands the parked bytes back in-band) *)
Lemma rt_tunnel_never_inband_once_agreed : forall s d src bs g, rt_reach ch1 sh4 ch2 sh3 s ->
  In (src, bs, g) (rt_outs d (r_x s)) -> rt_is_tunnel_src src = true -> g = false.
Proof.
  intros s d src bs g Hr Hin Hs. apply rt_reach_inv in Hr. destruct Hr as (_ & _ & (_ & _ & _ & _ & _ & _ & X7) & _).
  exact (X7 d _ Hin Hs).
Qed.

(* what the relay does with a chunk it reads in-band while tunnelConnected is set, in every state it can be in
   (every program point of its handshake, before and after): it passes it on in-band, unchanged, at once — or, while
   flushHandshakeBuffer holds the lock, waits; nothing else changes *)
Lemma rt_inband_agreed_passes : forall s d bs s', rt_step ch1 sh4 ch2 sh3 s (RLInband d bs) = Some s' ->
  r_tconnected s = true ->
  s' = rt_with_x s (rt_add_out d (RsInband true, bs, true) (r_x s)).
Proof.
  intros s d bs s' Hstep Htc. unfold rt_step in Hstep. rewrite Htc in Hstep. destruct bs as [|b0 bs]; [discriminate Hstep|].
  destruct (rt_handshaking s); [destruct (x_lock (r_x s)); [discriminate Hstep|]|]; injection Hstep as <-; reflexivity.
Qed.

(* what is in a handshake buffer: in-band chunks that arrived before the agreement, chunks of the pair in tunnelRelay *)
Lemma rt_parked_from_adopted : forall s d x, rt_reach ch1 sh4 ch2 sh3 s -> In x (rt_buf d (r_x s)) ->
  fst x = RsInband false \/
  exists c p, fst x = rt_tag d c /\ r_trelay s = Some c /\ nth_error (r_pairs s) c = Some p /\ p_won p <> None.
Proof.
  intros s d x Hr Hx. pose proof (rt_reach_inv s Hr) as Hinv. pose proof Hinv as (_ & (_ & _ & _ & G4) & (X1 & _) & _).
  specialize (X1 d x Hx). unfold rt_buf_ok in X1. destruct (fst x) as [c|c| |g] eqn:E.
  - destruct X1 as [-> Ht]. right. exists c.
    pose proof (G4 c Ht) as Hlt. destruct (nth_error (r_pairs s) c) as [p|] eqn:Ep; [|apply nth_error_None in Ep; lia].
    exists p. split; [reflexivity|]. split; [exact Ht|]. split; [reflexivity|]. exact (rt_trelay_won s c p Hinv Ht Ep).
  - destruct X1 as [-> Ht]. right. exists c.
    pose proof (G4 c Ht) as Hlt. destruct (nth_error (r_pairs s) c) as [p|] eqn:Ep; [|apply nth_error_None in Ep; lia].
    exists p. split; [reflexivity|]. split; [exact Ht|]. split; [reflexivity|]. exact (rt_trelay_won s c p Hinv Ht Ep).
  - destruct X1.
  - left. rewrite X1. reflexivity.
Qed.

(* a pump, a relay back-pointer: only on a pair that won *)
Lemma rt_pumps_only_adopted : forall s c p b d, rt_reach ch1 sh4 ch2 sh3 s ->
  nth_error (r_pairs s) c = Some p -> p_br p = Some b ->
  h_pump (rt_half_of d b) <> PmNone \/ b_relay b = true -> p_won p <> None.
Proof.
  intros s c p b d Hr Hn Hb Hor. apply rt_reach_inv in Hr. destruct Hr as (HL & _).
  apply (rt_local_used_won c p b d (HL c p Hn) Hb). destruct Hor as [H|H]; auto.
Qed.

(* the relay's own writes go into a bridge only while tunnelRelay holds a pair — an authenticated one — and
   tunnelConnected is set; otherwise in-band *)
Lemma rt_route_only_adopted : forall s d y pc lk s', rt_reach ch1 sh4 ch2 sh3 s ->
  rt_route s d y pc lk = Some s' ->
  (exists c p, r_trelay s = Some c /\ r_tconnected s = true /\ nth_error (r_pairs s) c = Some p /\
     p_first p = Some ch1 /\ p_sfirst p = Some sh3) \/
  s' = rt_with_x s (rt_add_out d (y, r_tconnected s) (rt_set_pc_lock pc lk (r_x s))).
Proof.
  intros s d y pc lk s' Hr Hstep. unfold rt_route in Hstep.
  destruct (r_trelay s) as [c|] eqn:Et.
  - destruct (r_tconnected s) eqn:Etc; [|right; injection Hstep as <-; reflexivity].
    destruct (nth_error (r_pairs s) c) as [p|] eqn:Ep; [|discriminate Hstep].
    left. exists c, p. destruct (rt_adopted_authenticated s c p Hr Ep (or_introl Et)) as (H1 & H2 & _). auto.
  - right. destruct (r_tconnected s); injection Hstep as <-; reflexivity.
Qed.

(* the pair that lost the swap: both channels closed and empty, nothing ever crossed; each writer has either
   already closed its connection or its next step does *)
Lemma rt_loser_closed : forall s c p, rt_reach ch1 sh4 ch2 sh3 s -> nth_error (r_pairs s) c = Some p ->
  p_pc p = RtDone RoLost ->
  exists b, p_br p = Some b /\ p_won p = None /\ r_trelay s <> Some c /\
    forall d, h_chan (rt_half_of d b) = [] /\ h_log (rt_half_of d b) = [] /\ h_chan_closed (rt_half_of d b) = true /\
              h_pump (rt_half_of d b) = PmNone /\
              ((h_writer (rt_half_of d b) = false /\ option_map e_closed (rt_dst_end d p) = Some true) \/
               (exists s' p' e', rt_step ch1 sh4 ch2 sh3 s (RLWriter c d) = Some s' /\ nth_error (r_pairs s') c = Some p' /\
                  rt_dst_end d p' = Some e' /\ e_closed e' = true /\ rt_dst_tx d p' = Some (rt_hello d))).
Proof.
  intros s c p Hr Hn Hpc. apply rt_reach_inv in Hr. pose proof Hr as (HL & (G1 & _) & _).
  pose proof (HL c p Hn) as Hl. unfold rt_local in Hl. rewrite Hpc in Hl. unfold rt_with_br in Hl.
  destruct (p_br p) as [b|] eqn:Eb; [|contradiction].
  destruct Hl as ((_ & _ & Hin & Hout) & (Hw & _ & (Hi1 & Hi2 & Hi3) & (Ho1 & Ho2 & Ho3)) & Hci & Hco).
  exists b. split; [reflexivity|]. split; [exact Hw|]. split.
  { intros Ht. apply (G1 c p Hn) in Ht. congruence. }
  intros d.
  assert (Hd : h_chan (rt_half_of d b) = [] /\ h_log (rt_half_of d b) = [] /\ h_chan_closed (rt_half_of d b) = true /\
               h_pump (rt_half_of d b) = PmNone /\ rt_half_ok d c p (rt_half_of d b)).
  { destruct d; cbn [rt_half_of]; auto 10. }
  destruct Hd as (H1 & H2 & H3 & H4 & (Htx & _ & _ & Hwc)). splits; try assumption.
  destruct (h_writer (rt_half_of d b)) eqn:Ew.
  - right. unfold rt_dst_tx in Htx. destruct (rt_dst_end d p) as [e|] eqn:Ee; [|discriminate Htx].
    cbn [option_map] in Htx. injection Htx as Htx. rewrite H2 in Htx. cbn [rt_payload map concat] in Htx. rewrite app_nil_r in Htx.
    eexists. eexists. exists (rt_end_close e). split.
    + unfold rt_step. rewrite Hn, Eb, Ee, Ew, H1, H3. reflexivity.
    + unfold rt_upd_pair, rt_with_pairs. rproj. rewrite nth_upd_same, Hn. cbn [option_map]. split; [reflexivity|].
      destruct d; unfold rt_dst_tx; cbn [rt_set_dst_end rt_dst_end]; setters; pproj; cbn [option_map]; eproj;
        (split; [reflexivity|split; [reflexivity|rewrite Htx; reflexivity]]).
  - left. split; [reflexivity|]. apply Hwc. reflexivity.
Qed.

(* ------------------------------------------------------------------------------------ *)
(* observation (outside the listed properties): a pump whose own connection has been closed BY THE RELAY
   (the writer goroutine of the opposite direction runs `defer conn.Close()` when its channel is closed)
   never leaves its loop: Read returns (0, "use of closed network connection"), which is not io.EOF, so
   the loop goes round for ever, whatever anybody else does; and its next iteration is always enabled *)

(* ------------------------------------------------------------------------------------ *)
(* ORDER: per pair and direction, what is on its way through the bridge (written by the writer, in the channel,
   parked in the relay's handshake buffer, in this order) is what the pump read, some of it left out, none of it
   overtaken *)

Lemma rt_sub_refl : forall l, rt_sub l l.
Proof. induction l; constructor; assumption. Qed.

Lemma rt_sub_trans : forall b a c, rt_sub a b -> rt_sub b c -> rt_sub a c.
Proof.
  intros b a c Hab Hbc. revert a Hab. induction Hbc as [l|x b c Hbc IH|x b c Hbc IH]; intros a Hab.
  - inversion Hab. constructor.
  - inversion Hab as [l|y a' b' Ha'|y a' b' Ha']; subst.
    + constructor.
    + constructor. apply IH. exact Ha'.
    + apply rt_sub_skip. apply IH. exact Ha'.
  - apply rt_sub_skip. apply IH. exact Hab.
Qed.

Lemma rt_sub_app : forall a b a' b', rt_sub a b -> rt_sub a' b' -> rt_sub (a ++ a') (b ++ b').
Proof.
  intros a b a' b' H H'. induction H as [l|x a b H IH|x a b H IH]; cbn [app].
  - induction l as [|y l IHl]; cbn [app]; [exact H'|apply rt_sub_skip; exact IHl].
  - constructor. exact IH.
  - apply rt_sub_skip. exact IH.
Qed.

Lemma rt_sub_app_r : forall a b, rt_sub b (a ++ b).
Proof. intros a b. change b with ([] ++ b) at 1. apply rt_sub_app; [constructor|apply rt_sub_refl]. Qed.

Lemma rt_sub_app_l : forall a b, rt_sub a (a ++ b).
Proof. intros a b. rewrite <- (app_nil_r a) at 1. apply rt_sub_app; [apply rt_sub_refl|constructor]. Qed.

Lemma rt_own_app : forall d c l1 l2, rt_own d c (l1 ++ l2) = rt_own d c l1 ++ rt_own d c l2.
Proof. intros d c l1 l2. unfold rt_own, rt_payload. rewrite filter_app, map_app, concat_app. reflexivity. Qed.

Lemma rt_own_cons : forall d c x l,
  rt_own d c (x :: l) = (if rt_src_eqb (fst x) (rt_tag d c) then snd x else []) ++ rt_own d c l.
Proof.
  intros d c x l. unfold rt_own, rt_payload. cbn [filter]. destruct (rt_src_eqb (fst x) (rt_tag d c)); reflexivity.
Qed.

Lemma rt_own_one : forall d c x, rt_own d c [x] = if rt_src_eqb (fst x) (rt_tag d c) then snd x else [].
Proof. intros d c x. rewrite rt_own_cons. unfold rt_own, rt_payload. cbn. apply app_nil_r. Qed.

Lemma rt_src_eqb_eq : forall a b, rt_src_eqb a b = true <-> a = b.
Proof.
  intros a b. destruct a as [x|x| |g], b as [y|y| |h]; cbn [rt_src_eqb]; split; intros H; try discriminate H; try reflexivity.
  - apply Nat.eqb_eq in H. subst. reflexivity.
  - injection H as ->. apply Nat.eqb_refl.
  - apply Nat.eqb_eq in H. subst. reflexivity.
  - injection H as ->. apply Nat.eqb_refl.
  - destruct g, h; try discriminate H; reflexivity.
  - injection H as ->. destruct h; reflexivity.
Qed.

Lemma rt_tag_inj : forall d c d' c', rt_tag d c = rt_tag d' c' -> d = d' /\ c = c'.
Proof. intros d c d' c' H. destruct d, d'; cbn [rt_tag] in H; try discriminate H; injection H as ->; auto. Qed.

Lemma rt_own_other : forall d c x, fst x <> rt_tag d c -> rt_own d c [x] = [].
Proof.
  intros d c x H. rewrite rt_own_one. destruct (rt_src_eqb (fst x) (rt_tag d c)) eqn:E; [|reflexivity].
  apply rt_src_eqb_eq in E. contradiction.
Qed.

Lemma rt_own_self : forall d c bs, rt_own d c [(rt_tag d c, bs)] = bs.
Proof.
  intros d c bs. rewrite rt_own_one. cbn [fst snd].
  assert (H : rt_src_eqb (rt_tag d c) (rt_tag d c) = true) by (apply rt_src_eqb_eq; reflexivity). rewrite H. reflexivity.
Qed.

Lemma rt_own_drop : forall d c k b, rt_sub (rt_own d c (rt_drop_bytes k b)) (rt_own d c b).
Proof.
  intros d c k b. revert k. induction b as [|[src bs] r IH]; intros k.
  - destruct k; apply rt_sub_refl.
  - destruct k as [|k]; [apply rt_sub_refl|]. cbn [rt_drop_bytes].
    destruct (length bs <=? S k)%nat.
    + rewrite (rt_own_cons d c (src, bs) r). eapply rt_sub_trans; [apply IH|apply rt_sub_app_r].
    + rewrite !rt_own_cons. cbn [fst snd]. apply rt_sub_app; [|apply rt_sub_refl].
      destruct (rt_src_eqb src (rt_tag d c)); [|constructor].
      rewrite <- (firstn_skipn (S k) bs) at 2. apply rt_sub_app_r.
Qed.

Definition rt_relayed (ps : list rt_pair) (c : nat) : Prop :=
  exists p b, nth_error ps c = Some p /\ p_br p = Some b /\ b_relay b = true.

Definition rt_ORD (s : rt_state) : Prop :=
  (forall c p b d, nth_error (r_pairs s) c = Some p -> p_br p = Some b ->
     rt_sub (rt_pipe d c b (r_x s)) (rt_own d c (x_seen (r_x s)))) /\
  (forall d y c, In y (rt_buf d (r_x s)) -> fst y = rt_tag d c -> rt_relayed (r_pairs s) c).

Lemma rt_ORD_init : rt_ORD rt_init.
Proof. split; [intros c p b d H; destruct c; discriminate H|intros d y c H; destruct d; destruct H]. Qed.

(* nothing of a pair without a bridge is parked *)
Lemma rt_own_nobr : forall s c p d, RInv s -> nth_error (r_pairs s) c = Some p -> p_br p = None ->
  forall y, In y (rt_buf d (r_x s)) -> fst y <> rt_tag d c.
Proof.
  intros s c p d Hinv Hn Hb y Hy E. pose proof Hinv as (HL & _ & (X1 & _) & _).
  specialize (X1 d y Hy). unfold rt_buf_ok in X1. rewrite E in X1.
  assert (Ht : r_trelay s = Some c) by (destruct d; cbn [rt_tag] in X1; destruct X1 as [_ X1]; exact X1).
  destruct (rt_local_won_br c p (HL c p Hn) (rt_trelay_won s c p Hinv Ht Hn)) as (b & Hb'). congruence.
Qed.

Lemma rt_own_nil : forall d c l, (forall y, In y l -> fst y <> rt_tag d c) -> rt_own d c l = [].
Proof.
  intros d c l. induction l as [|x l IH]; intros H; [reflexivity|].
  rewrite rt_own_cons. rewrite IH; [|intros y Hy; apply H; right; exact Hy].
  destruct (rt_src_eqb (fst x) (rt_tag d c)) eqn:E; [|reflexivity].
  apply rt_src_eqb_eq in E. exfalso. exact (H x (or_introl eq_refl) E).
Qed.

Definition rt_ORDp (ps : list rt_pair) (x : rt_hs) : Prop :=
  (forall c p b d, nth_error ps c = Some p -> p_br p = Some b -> rt_sub (rt_pipe d c b x) (rt_own d c (x_seen x))) /\
  (forall d y c, In y (rt_buf d x) -> fst y = rt_tag d c -> rt_relayed ps c).

Lemma rt_ORD_p : forall s, rt_ORD s <-> rt_ORDp (r_pairs s) (r_x s).
Proof. intros s. unfold rt_ORD, rt_ORDp. split; intros H; exact H. Qed.

(* the part of a pair the order statement looks at did not change (p' is the later pair) *)
Definition rt_qsame (p p' : rt_pair) : Prop :=
  forall b', p_br p' = Some b' -> exists b, p_br p = Some b /\
    forall d, h_log (rt_half_of d b') = h_log (rt_half_of d b) /\ h_chan (rt_half_of d b') = h_chan (rt_half_of d b).
Definition rt_qkeep (p p' : rt_pair) : Prop :=
  forall b, p_br p = Some b -> b_relay b = true -> exists b', p_br p' = Some b' /\ b_relay b' = true.

Lemma rt_pipe_same : forall d c b b' x x',
  h_log (rt_half_of d b') = h_log (rt_half_of d b) -> h_chan (rt_half_of d b') = h_chan (rt_half_of d b) ->
  rt_buf d x' = rt_buf d x -> rt_pipe d c b' x' = rt_pipe d c b x.
Proof. intros d c b b' x x' H1 H2 H3. unfold rt_pipe. rewrite H1, H2, H3. reflexivity. Qed.

Lemma rt_ORDp_frame : forall ps x ps' x',
  rt_ORDp ps x ->
  (forall c p', nth_error ps' c = Some p' -> exists p, nth_error ps c = Some p /\ rt_qsame p p') ->
  (forall c p, nth_error ps c = Some p -> exists p', nth_error ps' c = Some p' /\ rt_qkeep p p') \/ (forall d, rt_buf d x' = []) ->
  (forall d, rt_buf d x' = rt_buf d x) -> x_seen x' = x_seen x ->
  rt_ORDp ps' x'.
Proof.
  intros ps x ps' x' (HP & HR) HA HB Hbuf Hseen. split.
  - intros c p' b' d Hn' Hb'. destruct (HA c p' Hn') as (p & Hn & Hq). destruct (Hq b' Hb') as (b & Hb & Hd).
    destruct (Hd d) as [H1 H2]. rewrite (rt_pipe_same d c b b' x x' H1 H2 (Hbuf d)), Hseen. exact (HP c p b d Hn Hb).
  - intros d y c Hy Ht. destruct HB as [HB|HB]; [|rewrite HB in Hy; destruct Hy].
    rewrite Hbuf in Hy. destruct (HR d y c Hy Ht) as (p & b & Hn & Hb & Hr).
    destruct (HB c p Hn) as (p' & Hn' & Hk). destruct (Hk b Hb Hr) as (b' & Hb' & Hr'). exists p', b'. auto.
Qed.

Lemma rt_frame_upd : forall ps c0 f,
  (forall p, nth_error ps c0 = Some p -> rt_qsame p (f p) /\ rt_qkeep p (f p)) ->
  (forall c p', nth_error (upd c0 f ps) c = Some p' -> exists p, nth_error ps c = Some p /\ rt_qsame p p') /\
  (forall c p, nth_error ps c = Some p -> exists p', nth_error (upd c0 f ps) c = Some p' /\ rt_qkeep p p').
Proof.
  intros ps c0 f Hf.
  assert (Hid1 : forall p, rt_qsame p p) by (intros p b' Hb'; exists b'; split; [exact Hb'|intros d; split; reflexivity]).
  assert (Hid2 : forall p, rt_qkeep p p) by (intros p b Hb Hr; exists b; auto).
  split.
  - intros c p' Hn'. rewrite nth_upd in Hn'. destruct (Nat.eqb c0 c) eqn:E.
    + apply Nat.eqb_eq in E. subst c. destruct (nth_error ps c0) as [p|] eqn:Ep; [|discriminate Hn'].
      cbn [option_map] in Hn'. injection Hn' as <-. exists p. split; [reflexivity|]. apply Hf. reflexivity.
    + exists p'. split; [exact Hn'|apply Hid1].
  - intros c p Hn. rewrite nth_upd. destruct (Nat.eqb c0 c) eqn:E.
    + apply Nat.eqb_eq in E. subst c. rewrite Hn. cbn [option_map]. exists (f p). split; [reflexivity|]. apply Hf. exact Hn.
    + exists p. split; [exact Hn|apply Hid2].
Qed.

(* a step that rewrites pair c0 by f, keeps the buffers and the read log, and f keeps what the order statement looks at *)
Lemma rt_ORDp_upd : forall ps x c0 f x',
  rt_ORDp ps x ->
  (forall p, nth_error ps c0 = Some p -> rt_qsame p (f p) /\ rt_qkeep p (f p)) ->
  (forall d, rt_buf d x' = rt_buf d x) -> x_seen x' = x_seen x ->
  rt_ORDp (upd c0 f ps) x'.
Proof.
  intros ps x c0 f x' HO Hf Hb Hs. destruct (rt_frame_upd ps c0 f Hf) as [HA HB].
  apply (rt_ORDp_frame ps x); try assumption. left. exact HB.
Qed.

Ltac qs_clean := setters; pproj;
  repeat match goal with
         | |- context [match p_srv ?p with _ => _ end] => destruct (p_srv p)
         | H : context [match p_srv ?p with _ => _ end] |- _ => destruct (p_srv p)
         end; pproj.
Ltac qs := (* rt_qsame p (f p) /\ rt_qkeep p (f p) for an f that does not touch logs or channels and does not clear the back-pointer *)
  split;
  [ let b1 := fresh "b1" in let Hb1 := fresh "Hb1" in intros b1 Hb1; qs_clean;
    first [ exists b1; split; [exact Hb1|intros d; split; reflexivity]
          | injection Hb1 as <-; eexists; split; [eassumption|]; intros d; destruct d; hproj; split; reflexivity ]
  | let b0 := fresh "b0" in let Hb0 := fresh "Hb0" in let Hr0 := fresh "Hr0" in intros b0 Hb0 Hr0; qs_clean;
    first [ exists b0; split; assumption
          | eexists; split; [reflexivity|]; hproj;
            try match goal with Eb : p_br ?p = Some _ |- _ => rewrite Eb in Hb0; injection Hb0 as <- end;
            first [assumption|reflexivity] ] ].

Ltac ordp := apply rt_ORD_p; unfold rt_upd_pair, rt_with_pairs, rt_with_x; rproj.
(* a step that rewrites one pair by an f that the order statement does not see *)
Ltac ord_upd HO Ep := ordp; apply (rt_ORDp_upd _ _ _ _ _ (proj1 (rt_ORD_p _) HO));
  [ let p0 := fresh "p0" in let Hp0 := fresh "Hp0" in intros p0 Hp0; rewrite Ep in Hp0; injection Hp0 as <-; qs
  | intros ?d; reflexivity | reflexivity ].

Lemma rt_ord_handler : forall s c p dial fail s', RInv s -> rt_ORD s ->
  nth_error (r_pairs s) c = Some p -> rt_handler ch1 sh4 ch2 sh3 s c p dial fail = Some s' -> rt_ORD s'.
Proof.
  intros s c p dial fail s' Hinv HO Ep Hstep. unfold rt_handler in Hstep.
  destruct (p_pc p) as [ | | | | |r| | | |r| | | | | | | | | |o] eqn:Epc; try discriminate Hstep.
  - destruct (r_connector s); injection Hstep as <-; ord_upd HO Ep.
  - destruct (e_rx (p_cli p)); [destruct (e_eof (p_cli p)); [|discriminate Hstep]|]; injection Hstep as <-; ord_upd HO Ep.
  - destruct r as [got|]; [destruct (hello_matches got ch1)|]; injection Hstep as <-; ord_upd HO Ep.
  - destruct dial; injection Hstep as <-; ord_upd HO Ep.
  - destruct (p_srv p) as [e|] eqn:Es; [|discriminate Hstep].
    destruct fail; [destruct (e_eof e); [|discriminate Hstep]|]; injection Hstep as <-; ord_upd HO Ep.
  - destruct (p_srv p) as [e|] eqn:Es; [|discriminate Hstep].
    destruct (e_rx e); [destruct (e_eof e); [|discriminate Hstep]|]; injection Hstep as <-; ord_upd HO Ep.
  - destruct r as [got|]; [destruct (hello_matches got sh3)|]; injection Hstep as <-; ord_upd HO Ep.
  - destruct fail; [destruct (e_eof (p_cli p)); [|discriminate Hstep]|]; injection Hstep as <-; ord_upd HO Ep.
  - (* RtNew: a fresh bridge; nothing of this pair can be parked *)
    injection Hstep as <-. pose proof Hinv as (HL & _). pose proof (HL c p Ep) as Hl. unfold rt_local in Hl. rewrite Epc in Hl.
    destruct Hl as (_ & _ & _ & _ & Hbr & _). destruct HO as (HP & HR). ordp. split.
    + intros c' p' b' d Hn' Hb'. rewrite nth_upd in Hn'. destruct (Nat.eqb c c') eqn:E.
      * apply Nat.eqb_eq in E. subst c'. rewrite Ep in Hn'. cbn [option_map] in Hn'. injection Hn' as <-.
        setters. pproj. injection Hb' as <-. unfold rt_pipe. destruct d; hproj; cbn [rt_own rt_payload filter map concat app];
          rewrite (rt_own_nil _ c _ (rt_own_nobr s c p _ Hinv Ep Hbr)); constructor.
      * exact (HP c' p' b' d Hn' Hb').
    + intros d y c' Hy Ht. destruct (HR d y c' Hy Ht) as (q & b & Hn & Hb & Hr). exists q, b. split; [|auto].
      rewrite nth_upd. destruct (Nat.eqb c c') eqn:E; [|exact Hn].
      apply Nat.eqb_eq in E. subst c'. rewrite Ep in Hn. injection Hn as <-. congruence.
  - (* RtCas *)
    destruct (r_trelay s); injection Hstep as <-.
    + ord_upd HO Ep.
    + ordp. apply (rt_ORDp_upd _ _ _ _ _ (proj1 (rt_ORD_p _) HO)); [|intros d; reflexivity|reflexivity].
      intros p0 Hp0. rewrite Ep in Hp0. injection Hp0 as <-. qs.
  - destruct (p_br p) as [b|] eqn:Eb; [|discriminate Hstep]. injection Hstep as <-. ord_upd HO Ep.
  - destruct (p_br p) as [b|] eqn:Eb; [|discriminate Hstep]. injection Hstep as <-. ord_upd HO Ep.
  - destruct (p_br p) as [b|] eqn:Eb; [|discriminate Hstep]. injection Hstep as <-. ord_upd HO Ep.
  - injection Hstep as <-. ord_upd HO Ep.
  - destruct (p_br p) as [b|] eqn:Eb; [|discriminate Hstep]. injection Hstep as <-. ord_upd HO Ep.
  - destruct (p_br p) as [b|] eqn:Eb; [|discriminate Hstep]. injection Hstep as <-. ord_upd HO Ep.
Qed.

(* only the buffers change, and they lose (or gain foreign) chunks *)
Lemma rt_ORDp_bufs : forall ps x x', rt_ORDp ps x -> x_seen x' = x_seen x ->
  (forall d c, rt_sub (rt_own d c (rt_buf d x')) (rt_own d c (rt_buf d x))) ->
  (forall d y, In y (rt_buf d x') -> (exists y0, In y0 (rt_buf d x) /\ fst y0 = fst y) \/ (forall c, fst y <> rt_tag d c)) ->
  rt_ORDp ps x'.
Proof.
  intros ps x x' (HP & HR) Hs Hsub Hin. split.
  - intros c p b d Hn Hb. rewrite Hs. eapply rt_sub_trans; [|exact (HP c p b d Hn Hb)].
    unfold rt_pipe. apply rt_sub_app; [apply rt_sub_refl|]. apply rt_sub_app; [apply rt_sub_refl|apply Hsub].
  - intros d y c Hy Ht. destruct (Hin d y Hy) as [(y0 & H0 & H1)|H]; [|exfalso; exact (H c Ht)].
    apply (HR d y0 c H0). congruence.
Qed.

(* a chunk z joins the channel of pair c0 (direction d0): a line of the relay's own, or the head of the handshake buffer *)
Lemma rt_ORDp_push : forall ps x x' c0 p b d0 z pre,
  rt_ORDp ps x -> nth_error ps c0 = Some p -> p_br p = Some b ->
  x_seen x' = x_seen x -> (forall d, d <> d0 -> rt_buf d x' = rt_buf d x) -> rt_buf d0 x = pre ++ rt_buf d0 x' ->
  (pre = [] /\ fst z = RsRelay) \/ (pre = [z] /\ forall c, fst z = rt_tag d0 c -> c = c0) ->
  rt_ORDp (upd c0 (rt_set_br (rt_set_half d0 (rt_half_push z (rt_half_of d0 b)) b)) ps) x'.
Proof.
  intros ps x x' c0 p b d0 z pre (HP & HR) Ep Eb Hs Hoth Hd0 Hz. split.
  - intros c p' b' d Hn' Hb'. rewrite Hs. rewrite nth_upd in Hn'. destruct (Nat.eqb c0 c) eqn:E.
    + apply Nat.eqb_eq in E. subst c. rewrite Ep in Hn'. cbn [option_map] in Hn'. injection Hn' as <-.
      unfold rt_set_br in Hb'. pproj. injection Hb' as <-. specialize (HP c0 p b d Ep Eb). unfold rt_pipe in *.
      destruct d, d0; unfold rt_half_push in *; cbn [rt_set_half rt_half_of] in *; hproj;
        try (first [rewrite (Hoth RdIn ltac:(discriminate))|rewrite (Hoth RdOut ltac:(discriminate))]; exact HP);
        rewrite Hd0 in HP; rewrite rt_own_app, rt_own_one;
        (destruct Hz as [[-> Hz]|[-> Hz]];
         [ rewrite Hz; cbn [rt_src_eqb rt_tag app] in *; rewrite ?app_nil_r in *; exact HP
         | rewrite rt_own_app, rt_own_one in HP; rewrite <- ?app_assoc in *; exact HP ]).
    + apply Nat.eqb_neq in E. specialize (HP c p' b' d Hn' Hb'). unfold rt_pipe in *.
      assert (Hb : rt_own d c (rt_buf d x') = rt_own d c (rt_buf d x)).
      { assert (Hmain : rt_own d0 c (rt_buf d0 x') = rt_own d0 c (rt_buf d0 x)).
        { rewrite Hd0, rt_own_app. destruct Hz as [[-> _]|[-> Hz]]; [reflexivity|].
          rewrite rt_own_other; [reflexivity|]. intros Ht. apply E. symmetry. exact (Hz c Ht). }
        destruct d, d0; first [exact Hmain | rewrite (Hoth RdIn ltac:(discriminate)); reflexivity
                              | rewrite (Hoth RdOut ltac:(discriminate)); reflexivity]. }
      rewrite Hb. exact HP.
  - intros d y c Hy Ht.
    assert (Hy' : In y (rt_buf d x)).
    { destruct d, d0; try (first [rewrite <- (Hoth RdIn ltac:(discriminate))|rewrite <- (Hoth RdOut ltac:(discriminate))]; exact Hy); rewrite Hd0; apply in_or_app; right; exact Hy. }
    destruct (HR d y c Hy' Ht) as (q & b1 & Hn & Hb1 & Hr). unfold rt_relayed. rewrite nth_upd.
    destruct (Nat.eqb c0 c) eqn:E; [|exists q, b1; auto].
    apply Nat.eqb_eq in E. subst c. rewrite Ep in Hn. injection Hn as <-. rewrite Ep. cbn [option_map].
    rewrite Eb in Hb1. injection Hb1 as <-. eexists. eexists. split; [reflexivity|].
    unfold rt_set_br. pproj. split; [reflexivity|]. destruct d0; exact Hr.
Qed.

(* rt_route under the order invariant: the buffers of the routed state are those of x (pre = what was just popped) *)
Lemma rt_ord_route : forall s d0 z pc lk s' x pre,
  rt_route s d0 z pc lk = Some s' -> rt_ORDp (r_pairs s) x ->
  x_seen (r_x s) = x_seen x -> (forall d, d <> d0 -> rt_buf d (r_x s) = rt_buf d x) -> rt_buf d0 x = pre ++ rt_buf d0 (r_x s) ->
  (pre = [] /\ fst z = RsRelay) \/ (pre = [z] /\ rt_buf_ok (r_trelay s) d0 z) ->
  rt_ORD s'.
Proof.
  intros s d0 z pc lk s' x pre Hstep HO Hs Hoth Hd0 Hz. unfold rt_route in Hstep.
  assert (Hinb : rt_ORDp (r_pairs s) (rt_add_out d0 (z, r_tconnected s) (rt_set_pc_lock pc lk (r_x s)))).
  { assert (Hbf : forall d o, rt_buf d (rt_add_out d0 o (rt_set_pc_lock pc lk (r_x s))) = rt_buf d (r_x s))
      by (intros d o; destruct d, d0; reflexivity).
    assert (Hcase : forall d, (d <> d0 /\ rt_buf d (r_x s) = rt_buf d x) \/ (d = d0)).
    { intros d. destruct d, d0; first [right; reflexivity | left; split; [discriminate|apply Hoth; discriminate]]. }
    apply (rt_ORDp_bufs _ x); [exact HO|destruct d0; exact Hs| |].
    - intros d c. rewrite Hbf. destruct (Hcase d) as [[_ H]| ->]; [rewrite H; apply rt_sub_refl|].
      rewrite Hd0, rt_own_app. apply rt_sub_app_r.
    - intros d y Hy. rewrite Hbf in Hy. left. exists y. split; [|reflexivity].
      destruct (Hcase d) as [[_ H]| ->]; [rewrite <- H; exact Hy|]. rewrite Hd0. apply in_or_app. right. exact Hy. }
  destruct (r_trelay s) as [c0|] eqn:Et.
  - destruct (r_tconnected s) eqn:Etc.
    + destruct (nth_error (r_pairs s) c0) as [p|] eqn:Ep; [|discriminate Hstep].
      destruct (p_br p) as [b|] eqn:Eb; [|discriminate Hstep].
      destruct (rt_chan_has_room (rt_half_of d0 b)); [|discriminate Hstep]. injection Hstep as <-.
      ordp. apply (rt_ORDp_push _ x _ c0 p b d0 z pre HO Ep Eb).
      * destruct d0; exact Hs.
      * intros d Hd. destruct d, d0; try contradiction; cbn [rt_set_pc_lock rt_buf]; xproj; apply (Hoth _ Hd).
      * destruct d0; exact Hd0.
      * destruct Hz as [Hz|[Hp Hz]]; [left; exact Hz|right]. split; [exact Hp|]. intros c Ht.
        unfold rt_buf_ok in Hz. rewrite Ht in Hz. destruct d0; cbn [rt_tag] in Hz; destruct Hz as [_ Hz]; congruence.
    + injection Hstep as <-. ordp. exact Hinb.
  - assert (Hr : s' = rt_with_x s (rt_add_out d0 (z, r_tconnected s) (rt_set_pc_lock pc lk (r_x s)))).
    { destruct (r_tconnected s); injection Hstep as <-; reflexivity. }
    subst s'. ordp. exact Hinb.
Qed.

(* a reset: the buffers are empty; the back-pointer of the pair that was adopted is cleared *)
Lemma rt_ord_reset : forall s x, rt_ORD s -> (forall d, rt_buf d x = []) -> x_seen x = x_seen (r_x s) ->
  (forall d, rt_buf d x = rt_buf d (r_x s)) -> rt_ORD (rt_reset s x).
Proof.
  intros s x HO Hemp Hs Hbuf. apply rt_ORD_p. unfold rt_reset. rproj.
  set (f := fun p : rt_pair => match p_br p with Some b => rt_set_br (rt_set_relay false b) p | None => p end).
  assert (Hq : forall p, rt_qsame p (f p)).
  { intros p b' Hb'. unfold f in Hb'. destruct (p_br p) as [b|] eqn:Eb; [|congruence].
    unfold rt_set_br, rt_set_relay in Hb'. pproj. injection Hb' as <-. exists b. split; [reflexivity|].
    intros d; destruct d; hproj; split; reflexivity. }
  apply (rt_ORDp_frame (r_pairs s) (r_x s)); [exact (proj1 (rt_ORD_p _) HO)| |right; exact Hemp|exact Hbuf|exact Hs].
  intros c p' Hn'. destruct (r_trelay s) as [t|].
  - rewrite nth_upd in Hn'. destruct (Nat.eqb t c).
    + destruct (nth_error (r_pairs s) c) as [p|]; [|discriminate Hn']. cbn [option_map] in Hn'. injection Hn' as <-.
      exists p. split; [reflexivity|apply Hq].
    + exists p'. split; [exact Hn'|]. intros b' Hb'. exists b'. split; [exact Hb'|intros d; split; reflexivity].
  - exists p'. split; [exact Hn'|]. intros b' Hb'. exists b'. split; [exact Hb'|intros d; split; reflexivity].
Qed.

Lemma rt_ord_step : forall s l s', RInv s -> rt_ORD s -> rt_step ch1 sh4 ch2 sh3 s l = Some s' -> rt_ORD s'.
Proof.
  intros s l s' Hinv HO Hstep.
  destruct l as [script|c|c|c| | |c dial fail|c d|c d n|c d|c d|c d|v|d bs|k ok tun conf|bs| ]; unfold rt_step in Hstep.
  - (* RLConnect *)
    injection Hstep as <-. ordp. destruct HO as (HP & HR). split.
    + intros c p b d Hn Hb. apply nth_error_app_last in Hn. destruct Hn as [Hn|[_ ->]]; [exact (HP c p b d Hn Hb)|].
      unfold rt_new_pair in Hb. pproj. discriminate Hb.
    + intros d y c Hy Ht. destruct (HR d y c Hy Ht) as (p & b & Hn & Hb & Hr). exists p, b. split; [|auto].
      rewrite nth_error_app1; [exact Hn|]. eapply nth_error_lt. exact Hn.
  - (* RLPeerC *)
    destruct (nth_error (r_pairs s) c) as [p|] eqn:Ep; [|discriminate Hstep].
    destruct (rt_end_peer (p_cli p)); [|discriminate Hstep]. injection Hstep as <-. ord_upd HO Ep.
  - (* RLPeerS *)
    destruct (nth_error (r_pairs s) c) as [p|] eqn:Ep; [|discriminate Hstep].
    destruct (p_srv p) as [e0|] eqn:Es; [|discriminate Hstep].
    destruct (rt_end_peer e0); [|discriminate Hstep]. injection Hstep as <-. ord_upd HO Ep.
  - (* RLAccept *)
    destruct (r_apc s); try discriminate Hstep. destruct (r_lis s); try discriminate Hstep.
    destruct (nth_error (r_pairs s) c) as [p|] eqn:Ep; [|discriminate Hstep].
    destruct (p_pc p); try discriminate Hstep. injection Hstep as <-. ord_upd HO Ep.
  - (* RLAcceptErr *)
    destruct (r_apc s); try discriminate Hstep. destruct (r_lis s); try discriminate Hstep.
    injection Hstep as <-. exact HO.
  - (* RLCheck *)
    destruct (r_apc s) as [|c|] eqn:Ea; try discriminate Hstep. destruct Hinv as (_ & _ & _ & HA).
    destruct (HA c Ea) as (p & Ep & _).
    destruct (r_trelay s); injection Hstep as <-; ord_upd HO Ep.
  - (* RLHandler *)
    destruct (nth_error (r_pairs s) c) as [p|] eqn:Ep; [|discriminate Hstep].
    exact (rt_ord_handler s c p dial fail s' Hinv HO Ep Hstep).
  - (* RLWriter *)
    destruct (nth_error (r_pairs s) c) as [p|] eqn:Ep; [|discriminate Hstep].
    destruct (p_br p) as [b|] eqn:Eb; [|discriminate Hstep].
    destruct (rt_dst_end d p) as [e|] eqn:Ee; [|discriminate Hstep].
    destruct (h_writer (rt_half_of d b)) eqn:Ew; [|discriminate Hstep].
    destruct (h_chan (rt_half_of d b)) as [|x rest] eqn:Ech.
    + destruct (h_chan_closed (rt_half_of d b)) eqn:Ecl; [|discriminate Hstep]. injection Hstep as <-.
      ordp. apply (rt_ORDp_upd _ _ _ _ _ (proj1 (rt_ORD_p _) HO)); [|intros d'; reflexivity|reflexivity].
      intros p0 Hp0. rewrite Ep in Hp0. injection Hp0 as <-. split.
      * intros b' Hb'. destruct d; cbn [rt_set_dst_end] in Hb'; setters; pproj; injection Hb' as <-;
          (exists b; split; [exact Eb|]); intros d'; destruct d'; hproj; cbn [rt_half_of] in *; split; congruence.
      * intros b0 Hb0 Hr0. rewrite Eb in Hb0. injection Hb0 as <-.
        destruct d; cbn [rt_set_dst_end]; setters; pproj; eexists; (split; [reflexivity|]); hproj; exact Hr0.
    + (* a chunk leaves the channel: written (it joins the log) or dropped *)
      destruct HO as (HP & HR).
      assert (Hres : exists wr : bool, r_pairs s' = upd c (fun q => let q1 := rt_set_br (rt_set_half d
                 (mkRtHalf rest (h_chan_closed (rt_half_of d b)) true (h_pump (rt_half_of d b))
                           (if wr then h_log (rt_half_of d b) ++ [x] else h_log (rt_half_of d b))) b) q in
                 if wr then rt_set_dst_end d (rt_end_write (snd x) e) q1 else q1) (r_pairs s) /\ r_x s' = r_x s).
      { destruct (e_closed e); injection Hstep as <-; [exists false|exists true]; unfold rt_upd_pair, rt_with_pairs; rproj;
          split; reflexivity. }
      destruct Hres as (wr & Hps & Hx). apply rt_ORD_p. rewrite Hps, Hx. split.
      * intros c' p' b' d' Hn' Hb'. rewrite nth_upd in Hn'. destruct (Nat.eqb c c') eqn:E.
        -- apply Nat.eqb_eq in E. subst c'. rewrite Ep in Hn'. cbn [option_map] in Hn'. injection Hn' as <-.
           assert (Hb'' : b' = rt_set_half d (mkRtHalf rest (h_chan_closed (rt_half_of d b)) true (h_pump (rt_half_of d b))
                             (if wr then h_log (rt_half_of d b) ++ [x] else h_log (rt_half_of d b))) b).
           { destruct wr; destruct d; cbn [rt_set_dst_end] in Hb'; setters; pproj; injection Hb' as <-; reflexivity. }
           subst b'. specialize (HP c p b d' Ep Eb). unfold rt_pipe in *.
           destruct d, d'; cbn [rt_set_half rt_half_of] in *; hproj; try exact HP; rewrite Ech in HP;
             rewrite (rt_own_cons _ c x rest) in HP; destruct wr; rewrite ?rt_own_app, ?rt_own_one, <- ?app_assoc in *;
             try exact HP;
             (eapply rt_sub_trans; [|exact HP]; apply rt_sub_app; [apply rt_sub_refl|apply rt_sub_app_r]).
        -- exact (HP c' p' b' d' Hn' Hb').
      * intros d' y c' Hy Ht. destruct (HR d' y c' Hy Ht) as (q & b1 & Hn & Hb1 & Hr). unfold rt_relayed. rewrite nth_upd.
        destruct (Nat.eqb c c') eqn:E; [|exists q, b1; auto].
        apply Nat.eqb_eq in E. subst c'. rewrite Ep in Hn. injection Hn as <-. rewrite Ep. cbn [option_map].
        rewrite Eb in Hb1. injection Hb1 as <-.
        destruct wr; destruct d; cbn [rt_set_dst_end]; setters; pproj;
          (eexists; eexists; split; [reflexivity|]; pproj; split; [reflexivity|]; hproj; exact Hr).
  - (* RLPump *)
    destruct (nth_error (r_pairs s) c) as [p|] eqn:Ep; [|discriminate Hstep].
    destruct (p_br p) as [b|] eqn:Eb; [|discriminate Hstep].
    destruct (rt_src_end d p) as [e|] eqn:Ee; [|discriminate Hstep].
    destruct (h_pump (rt_half_of d b)) eqn:Epm; try discriminate Hstep.
    match type of Hstep with (if ?x then _ else _) = _ => destruct x end; [|discriminate Hstep].
    set (z := (rt_tag d c, firstn n (e_rx e))) in *.
    assert (Hzo : forall d' c', (d', c') <> (d, c) -> rt_own d' c' [z] = []).
    { intros d' c' Hne. apply rt_own_other. unfold z. cbn [fst]. intros Ht. apply rt_tag_inj in Ht. destruct Ht as [-> ->]. apply Hne. reflexivity. }
    assert (Hzs : rt_own d c [z] = snd z) by (unfold z; apply rt_own_self).
    destruct (b_relay b && rt_handshaking s) eqn:Epark.
    + (* parked: behind everything of this pair that is parked already *)
      destruct (x_lock (r_x s)); [discriminate Hstep|]. injection Hstep as <-.
      apply andb_true_iff in Epark. destruct Epark as [Erel _].
      assert (H1 : rt_ORDp (upd c (rt_set_src_end d (rt_end_drop n e)) (r_pairs s)) (r_x s)).
      { apply (rt_ORDp_upd _ (r_x s)); [exact (proj1 (rt_ORD_p _) HO)| |intros d'; reflexivity|reflexivity].
        intros p0 Hp0. rewrite Ep in Hp0. injection Hp0 as <-. destruct d; cbn [rt_set_src_end]; qs. }
      ordp. destruct H1 as (HP & HR). split.
      * intros c' p' b' d' Hn' Hb'. specialize (HP c' p' b' d' Hn' Hb'). unfold rt_pipe in *.
        assert (Hsn : x_seen (rt_add_seen z (rt_set_buf d (rt_buf d (r_x s) ++ [z]) (r_x s))) = x_seen (r_x s) ++ [z])
          by (destruct d; reflexivity).
        rewrite Hsn, rt_own_app.
        destruct d, d'; unfold rt_add_seen, rt_set_buf, rt_buf in *; xproj;
          first [ rewrite rt_own_app, !app_assoc; apply rt_sub_app; [|apply rt_sub_refl]; rewrite <- !app_assoc; exact HP
                | eapply rt_sub_trans; [exact HP|apply rt_sub_app_l] ].
      * intros d' y c' Hy Ht.
        assert (Hy' : In y (rt_buf d' (r_x s)) \/ (y = z /\ d' = d)).
        { destruct d, d'; unfold rt_add_seen, rt_set_buf, rt_buf in *; xproj; try (left; exact Hy);
            (apply in_app_or in Hy; destruct Hy as [Hy|[<-|[]]]; [left; exact Hy|right; split; reflexivity]). }
        destruct Hy' as [Hy'|[-> ->]]; [exact (HR d' y c' Hy' Ht)|].
        unfold z in Ht. cbn [fst] in Ht. apply rt_tag_inj in Ht. destruct Ht as [_ <-].
        unfold rt_relayed. rewrite nth_upd_same, Ep. cbn [option_map]. eexists. exists b. split; [reflexivity|].
        split; [destruct d; cbn [rt_set_src_end]; setters; pproj; exact Eb|exact Erel].
    + (* forwarded into the pump's own channel: nothing of this pair and direction is parked *)
      destruct (rt_chan_has_room (rt_half_of d b)); [|discriminate Hstep]. injection Hstep as <-.
      destruct HO as (HP & HR).
      assert (Hnb : rt_own d c (rt_buf d (r_x s)) = []).
      { apply rt_own_nil. intros y Hy Ht. destruct (HR d y c Hy Ht) as (q & b1 & Hn & Hb1 & Hr).
        rewrite Ep in Hn. injection Hn as <-. rewrite Eb in Hb1. injection Hb1 as <-. rewrite Hr in Epark.
        pose proof Hinv as (_ & _ & (_ & _ & _ & X4 & _) & _).
        assert (Hne : x_status (r_x s) <> StHandshaking).
        { intros H. unfold rt_handshaking in Epark. rewrite H in Epark. discriminate Epark. }
        destruct (X4 Hne) as [Hbi Hbo]. destruct d; cbn [rt_buf] in Hy; rewrite ?Hbi, ?Hbo in Hy; destruct Hy. }
      ordp. split.
      * intros c' p' b' d' Hn' Hb'. assert (Hsn : x_seen (rt_add_seen z (r_x s)) = x_seen (r_x s) ++ [z]) by reflexivity.
        assert (Hbf : forall d0, rt_buf d0 (rt_add_seen z (r_x s)) = rt_buf d0 (r_x s)) by (intros d0; destruct d0; reflexivity).
        unfold rt_pipe. rewrite Hsn, Hbf, rt_own_app. rewrite nth_upd in Hn'. destruct (Nat.eqb c c') eqn:E.
        -- apply Nat.eqb_eq in E. subst c'. rewrite Ep in Hn'. cbn [option_map] in Hn'. injection Hn' as <-.
           assert (Hb'' : b' = rt_set_half d (rt_half_push z (rt_half_of d b)) b).
           { destruct d; cbn [rt_set_src_end] in Hb'; setters; pproj; injection Hb' as <-; reflexivity. }
           subst b'. specialize (HP c p b d' Ep Eb). unfold rt_pipe in HP.
           destruct d, d'; unfold rt_half_push; cbn [rt_set_half rt_half_of] in *; hproj;
             first [ rewrite Hnb in *; rewrite rt_own_app, !app_nil_r in *; rewrite app_assoc; apply rt_sub_app; [exact HP|apply rt_sub_refl]
                   | eapply rt_sub_trans; [exact HP|apply rt_sub_app_l] ].
        -- eapply rt_sub_trans; [exact (HP c' p' b' d' Hn' Hb')|apply rt_sub_app_l].
      * intros d' y c' Hy Ht. assert (Hy' : In y (rt_buf d' (r_x s))) by (destruct d'; exact Hy).
        destruct (HR d' y c' Hy' Ht) as (q & b1 & Hn & Hb1 & Hr). unfold rt_relayed. rewrite nth_upd.
        destruct (Nat.eqb c c') eqn:E; [|exists q, b1; auto].
        apply Nat.eqb_eq in E. subst c'. rewrite Ep in Hn. injection Hn as <-. rewrite Ep. cbn [option_map].
        rewrite Eb in Hb1. injection Hb1 as <-.
        destruct d; cbn [rt_set_src_end]; setters; pproj; (eexists; eexists; split; [reflexivity|]; pproj; split; [reflexivity|]; hproj; exact Hr).
  - (* RLPumpEof *)
    destruct (nth_error (r_pairs s) c) as [p|] eqn:Ep; [|discriminate Hstep].
    destruct (p_br p) as [b|] eqn:Eb; [|discriminate Hstep].
    destruct (rt_src_end d p) as [e|] eqn:Ee; [|discriminate Hstep].
    destruct (h_pump (rt_half_of d b)) eqn:Epm; try discriminate Hstep. destruct (e_rx e); [|discriminate Hstep].
    match type of Hstep with (if ?x then _ else _) = _ => destruct x end; [|discriminate Hstep].
    injection Hstep as <-. destruct d; ord_upd HO Ep.
  - (* RLPumpExit *)
    destruct (nth_error (r_pairs s) c) as [p|] eqn:Ep; [|discriminate Hstep].
    destruct (p_br p) as [b|] eqn:Eb; [|discriminate Hstep].
    destruct (h_pump (rt_half_of d b)) eqn:Epm; try discriminate Hstep. destruct (b_relay b); [discriminate Hstep|].
    injection Hstep as <-. destruct d; ord_upd HO Ep.
  - (* RLPumpSpin *)
    destruct (nth_error (r_pairs s) c) as [p|] eqn:Ep; [|discriminate Hstep].
    destruct (p_br p) as [b|]; [|discriminate Hstep]. destruct (rt_src_end d p) as [e|]; [|discriminate Hstep].
    destruct (h_pump (rt_half_of d b)); try discriminate Hstep. destruct (e_closed e); [|discriminate Hstep].
    injection Hstep as <-. exact HO.
  - (* RLSetConnector *)
    injection Hstep as <-. exact HO.
  - (* RLInband *)
    destruct bs as [|b0 bs]; [discriminate Hstep|].
    assert (Hout : forall o, rt_ORDp (r_pairs s) (rt_add_out d o (r_x s))).
    { intros o. apply (rt_ORDp_bufs _ (r_x s)); [exact (proj1 (rt_ORD_p _) HO)|destruct d; reflexivity| |].
      - intros d' c'. destruct d, d'; apply rt_sub_refl.
      - intros d' y Hy. left. exists y. split; [destruct d, d'; exact Hy|reflexivity]. }
    destruct (rt_handshaking s); [destruct (x_lock (r_x s)); [discriminate Hstep|]; destruct (r_tconnected s)|];
      injection Hstep as <-; ordp; try apply Hout.
    apply (rt_ORDp_bufs _ (r_x s)); [exact (proj1 (rt_ORD_p _) HO)|destruct d; reflexivity| |].
    + intros d' c'. destruct d, d'; cbn [rt_set_buf rt_buf]; xproj; try apply rt_sub_refl;
        rewrite rt_own_app, rt_own_other, app_nil_r; try apply rt_sub_refl; cbn [fst]; destruct c'; discriminate.
    + intros d' y Hy. destruct d, d'; cbn [rt_set_buf rt_buf] in Hy; xproj;
        try (left; exists y; split; [exact Hy|reflexivity]);
        (apply in_app_or in Hy; destruct Hy as [Hy|[<-|[]]];
         [left; exists y; split; [exact Hy|reflexivity]|right; intros c'; cbn [fst rt_tag]; discriminate]).
  - (* RLHsRead *)
    destruct (x_pc (r_x s)); try discriminate Hstep;
      (match type of Hstep with (if ?x then _ else _) = _ => destruct x end; [|discriminate Hstep]);
      injection Hstep as <-; ordp;
      (apply (rt_ORDp_bufs _ (r_x s)); [exact (proj1 (rt_ORD_p _) HO)|reflexivity| |]).
    + intros d c. destruct d; cbn [rt_set_pc_lock rt_set_buf rt_buf]; xproj; [apply rt_own_drop|apply rt_sub_refl].
    + intros d y Hy. left. destruct d; cbn [rt_set_pc_lock rt_set_buf rt_buf] in Hy; xproj;
        [apply rt_drop_bytes_in in Hy; exact Hy|exists y; split; [exact Hy|reflexivity]].
    + intros d c. destruct d; cbn [rt_set_pc_lock rt_set_buf rt_buf]; xproj; [apply rt_sub_refl|apply rt_own_drop].
    + intros d y Hy. left. destruct d; cbn [rt_set_pc_lock rt_set_buf rt_buf] in Hy; xproj;
        [exists y; split; [exact Hy|reflexivity]|apply rt_drop_bytes_in in Hy; exact Hy].
  - (* RLHs *)
    assert (Hpc : forall pc lk, rt_ORDp (r_pairs s) (rt_set_pc_lock pc lk (r_x s))).
    { intros pc lk. apply (rt_ORDp_bufs _ (r_x s)); [exact (proj1 (rt_ORD_p _) HO)|reflexivity| |].
      - intros d c. destruct d; apply rt_sub_refl.
      - intros d y Hy. left. exists y. split; [destruct d; exact Hy|reflexivity]. }
    assert (Hline : forall d0 pc lk, rt_route s d0 (RsRelay, bs) pc lk = Some s' -> rt_ORD s').
    { intros d0 pc lk Hr. apply (rt_ord_route s d0 (RsRelay, bs) pc lk s' (r_x s) [] Hr (proj1 (rt_ORD_p _) HO));
        [reflexivity|intros d _; reflexivity|reflexivity|left; split; reflexivity]. }
    pose proof Hinv as (_ & _ & (X1 & _ & _ & X4 & X5 & _) & _).
    destruct (x_pc (r_x s)) as [ |tn cf|cf| | | | |cf|cf|cf| ] eqn:Epc; try discriminate Hstep.
    + injection Hstep as <-. ordp. apply Hpc.
    + exact (Hline _ _ _ Hstep).
    + exact (Hline _ _ _ Hstep).
    + exact (Hline _ _ _ Hstep).
    + exact (Hline _ _ _ Hstep).
    + destruct (x_bufin (r_x s)) as [|y rest] eqn:Eb; [injection Hstep as <-; ordp; apply Hpc|].
      apply (rt_ord_route _ RdIn y _ _ s' (r_x s) [y] Hstep); unfold rt_with_x; rproj.
      * exact (proj1 (rt_ORD_p _) HO).
      * reflexivity.
      * intros d Hd. destruct d; [contradiction|reflexivity].
      * cbn [rt_set_buf rt_buf]. xproj. rewrite Eb. reflexivity.
      * right. split; [reflexivity|]. apply (X1 RdIn). cbn [rt_buf]. rewrite Eb. left. reflexivity.
    + destruct (x_bufout (r_x s)) as [|y rest] eqn:Eb; [injection Hstep as <-; ordp; apply Hpc|].
      apply (rt_ord_route _ RdOut y _ _ s' (r_x s) [y] Hstep); unfold rt_with_x; rproj.
      * exact (proj1 (rt_ORD_p _) HO).
      * reflexivity.
      * intros d Hd. destruct d; [reflexivity|contradiction].
      * cbn [rt_set_buf rt_buf]. xproj. rewrite Eb. reflexivity.
      * right. split; [reflexivity|]. apply (X1 RdOut). cbn [rt_buf]. rewrite Eb. left. reflexivity.
    + (* HsFlushEnd: the buffers are empty *)
      cbn iota in X5. destruct X5 as [Hbi Hbo].
      destruct cf; injection Hstep as <-.
      * ordp. apply (rt_ORDp_bufs _ (r_x s)); [exact (proj1 (rt_ORD_p _) HO)|reflexivity| |].
        -- intros d c. destruct d; apply rt_sub_refl.
        -- intros d y Hy. left. exists y. split; [destruct d; exact Hy|reflexivity].
      * apply rt_ord_reset; [exact HO|intros d; destruct d; cbn [rt_hs_finish rt_buf]; xproj; assumption|reflexivity
                             |intros d; destruct d; reflexivity].
  - (* RLReset *)
    destruct (x_status (r_x s)) eqn:Est; try discriminate Hstep. injection Hstep as <-.
    pose proof Hinv as (_ & _ & (_ & _ & _ & X4 & _) & _).
    assert (Hne : x_status (r_x s) <> StHandshaking) by (rewrite Est; discriminate). destruct (X4 Hne) as [Hbi Hbo].
    apply rt_ord_reset; [exact HO|intros d; destruct d; cbn [rt_set_status rt_buf]; xproj; assumption|reflexivity
                         |intros d; destruct d; reflexivity].
Qed.


Lemma rt_reach_ord : forall s, rt_reach ch1 sh4 ch2 sh3 s -> RInv s /\ rt_ORD s.
Proof.
  intros s [ls H]. assert (G : forall ls s0 s1, RInv s0 -> rt_ORD s0 -> rt_run ch1 sh4 ch2 sh3 s0 ls = Some s1 -> RInv s1 /\ rt_ORD s1).
  { clear. induction ls as [|l ls IH]; intros s0 s1 Hi Ho Hrun; cbn [rt_run] in Hrun.
    - injection Hrun as <-. split; assumption.
    - destruct (rt_step ch1 sh4 ch2 sh3 s0 l) as [s2|] eqn:E; [|discriminate Hrun].
      apply (IH s2 s1); [exact (rt_step_inv s0 l s2 Hi E)|exact (rt_ord_step s0 l s2 Hi Ho E)|exact Hrun]. }
  exact (G ls rt_init s RInv_init rt_ORD_init H).
Qed.

(* ORDER THROUGH THE BRIDGE: for every pair and direction, what of the pump's reads is on its way — written to the far
   connection, then in the channel, then parked in the relay's handshake buffer — is, in this order, what the pump read
   from the near connection with some bytes left out (the handshake lines the relay consumed, what a writer could not
   write to a closed connection, what an unagreed handshake handed back in-band) and NOTHING OVERTAKEN *)
Lemma rt_order : forall s c p b d, rt_reach ch1 sh4 ch2 sh3 s -> nth_error (r_pairs s) c = Some p -> p_br p = Some b ->
  rt_sub (rt_pipe d c b (r_x s)) (rt_own d c (x_seen (r_x s))).
Proof. intros s c p b d Hr Hn Hb. destruct (rt_reach_ord s Hr) as [_ (HP & _)]. exact (HP c p b d Hn Hb). Qed.

(* in particular what the far connection has been sent of it *)
Lemma rt_order_far : forall s c p b d, rt_reach ch1 sh4 ch2 sh3 s -> nth_error (r_pairs s) c = Some p -> p_br p = Some b ->
  rt_sub (rt_own d c (h_log (rt_half_of d b))) (rt_own d c (x_seen (r_x s))).
Proof.
  intros s c p b d Hr Hn Hb. eapply rt_sub_trans; [|exact (rt_order s c p b d Hr Hn Hb)]. unfold rt_pipe. apply rt_sub_app_l.
Qed.

(* parked chunks are flushed before any later chunk of the same pair and direction is forwarded: a pump puts a chunk
   into its own channel only when nothing of its pair and direction is parked *)
Lemma rt_forward_only_when_none_parked : forall s c d n s', rt_reach ch1 sh4 ch2 sh3 s ->
  rt_step ch1 sh4 ch2 sh3 s (RLPump c d n) = Some s' ->
  (forall d', rt_buf d' (r_x s') = rt_buf d' (r_x s)) -> rt_own d c (rt_buf d (r_x s)) = [].
Proof.
  intros s c d n s' Hr Hstep Hsame. destruct (rt_reach_ord s Hr) as [Hinv (_ & HR)]. unfold rt_step in Hstep.
  destruct (nth_error (r_pairs s) c) as [p|] eqn:Ep; [|discriminate Hstep].
  destruct (p_br p) as [b|] eqn:Eb; [|discriminate Hstep].
  destruct (rt_src_end d p) as [e|] eqn:Ee; [|discriminate Hstep].
  destruct (h_pump (rt_half_of d b)); try discriminate Hstep.
  match type of Hstep with (if ?x then _ else _) = _ => destruct x end; [|discriminate Hstep].
  destruct (b_relay b && rt_handshaking s) eqn:Epark.
  - destruct (x_lock (r_x s)); [discriminate Hstep|]. injection Hstep as <-. exfalso.
    specialize (Hsame d). rproj.
    assert (Hl : rt_buf d (rt_add_seen (rt_tag d c, firstn n (e_rx e)) (rt_set_buf d (rt_buf d (r_x s) ++ [(rt_tag d c, firstn n (e_rx e))]) (r_x s)))
                 = rt_buf d (r_x s) ++ [(rt_tag d c, firstn n (e_rx e))]) by (destruct d; reflexivity).
    rewrite Hl in Hsame. apply (f_equal (@length _)) in Hsame. rewrite app_length in Hsame. cbn [length] in Hsame. lia.
  - apply rt_own_nil. intros y Hy Ht. destruct (HR d y c Hy Ht) as (q & b1 & Hn & Hb1 & Hrel).
    rewrite Ep in Hn. injection Hn as <-. rewrite Eb in Hb1. injection Hb1 as <-. rewrite Hrel in Epark.
    pose proof Hinv as (_ & _ & (_ & _ & _ & X4 & _) & _).
    assert (Hne : x_status (r_x s) <> StHandshaking).
    { intros H. unfold rt_handshaking in Epark. rewrite H in Epark. discriminate Epark. }
    destruct (X4 Hne) as [Hbi Hbo]. destruct d; cbn [rt_buf] in Hy; rewrite ?Hbi, ?Hbo in Hy; destruct Hy.
Qed.

Definition rt_spin_pair (d : rt_dir) (p : rt_pair) : Prop :=
  exists b e, p_br p = Some b /\ rt_src_end d p = Some e /\ h_pump (rt_half_of d b) = PmRun /\ e_closed e = true.

Lemma rt_spinning_iff : forall s c d, rt_spinning s c d <-> exists p, nth_error (r_pairs s) c = Some p /\ rt_spin_pair d p.
Proof.
  intros s c d. unfold rt_spinning, rt_spin_pair. split.
  - intros (p & b & e & H1 & H2). exists p. split; [exact H1|]. exists b, e. exact H2.
  - intros (p & H1 & b & e & H2). exists p, b, e. split; assumption.
Qed.

Lemma rt_spin_upd : forall ps c c0 f d p,
  nth_error ps c = Some p -> rt_spin_pair d p -> (c0 = c -> rt_spin_pair d (f p)) ->
  exists p', nth_error (upd c0 f ps) c = Some p' /\ rt_spin_pair d p'.
Proof.
  intros ps c c0 f d p Hn Hs Hf. rewrite nth_upd. destruct (Nat.eqb c0 c) eqn:E.
  - apply Nat.eqb_eq in E. rewrite Hn. cbn [option_map]. exists (f p). split; [reflexivity|]. apply Hf. exact E.
  - exists p. split; assumption.
Qed.

(* a pair with a bridge is past newTunnelRelay *)
Lemma rt_local_br_pc : forall c p b, rt_local c p -> p_br p = Some b ->
  p_pc p = RtCas \/ p_pc p = RtStoreRelay \/ p_pc p = RtGoIn \/ p_pc p = RtGoOut \/ p_pc p = RtCloseLis \/
  p_pc p = RtCloseC \/ p_pc p = RtCloseS \/ p_pc p = RtDone RoWon \/ p_pc p = RtDone RoLost.
Proof.
  intros c p b Hl Hb. unfold rt_local in Hl.
  pcs p; unf; rewrite ?Hb in *; dex; try discriminate; try contradiction; auto 12.
Qed.

Ltac spin_fin :=
  unfold rt_spin_pair in *; dex; setters; pproj;
  repeat match goal with d : rt_dir |- _ => destruct d end;
  cbn [rt_src_end rt_dst_end rt_set_src_end rt_set_dst_end rt_tag] in *; setters; pproj; hproj; eproj;
  repeat match goal with
         | H : Some _ = Some _ |- _ => injection H as H; try subst
         | H : p_br _ = Some _, H' : p_br _ = Some _ |- _ => rewrite H in H'
         | H : p_srv _ = Some _, H' : p_srv _ = Some _ |- _ => rewrite H in H'
         end;
  try congruence;
  try (eexists; eexists; repeat split; pproj; hproj; eproj; eauto; try congruence; fail).

Lemma rt_spin_reset : forall s x c d p, nth_error (r_pairs s) c = Some p -> rt_spin_pair d p ->
  exists p', nth_error (r_pairs (rt_reset s x)) c = Some p' /\ rt_spin_pair d p'.
Proof.
  intros s x c d p Hn Hsp. unfold rt_reset. rproj. destruct (r_trelay s) as [c0|]; [|exists p; auto].
  apply (rt_spin_upd _ c c0 _ d p Hn Hsp). intros ->. destruct Hsp as (b & e & Hb & He & Hpm & Hcl). rewrite Hb. spin_fin.
Qed.

Lemma rt_spin_route : forall s d0 y pc lk s' c d p, rt_route s d0 y pc lk = Some s' ->
  nth_error (r_pairs s) c = Some p -> rt_spin_pair d p ->
  exists p', nth_error (r_pairs s') c = Some p' /\ rt_spin_pair d p'.
Proof.
  intros s d0 y pc lk s' c d p Hstep Hn Hsp. unfold rt_route in Hstep.
  destruct (r_trelay s) as [c0|]; [destruct (r_tconnected s)|];
    try (injection Hstep as <-; unfold rt_with_x; rproj; exists p; auto; fail).
  - destruct (nth_error (r_pairs s) c0) as [q|] eqn:Eq; [|discriminate Hstep].
    destruct (p_br q) as [b0|] eqn:Eb; [|discriminate Hstep].
    destruct (rt_chan_has_room (rt_half_of d0 b0)); [|discriminate Hstep].
    injection Hstep as <-; unfold rt_with_x, rt_upd_pair, rt_with_pairs; rproj;
      (apply (rt_spin_upd _ c c0 _ d p Hn Hsp); intros ->; rewrite Hn in Eq; injection Eq as <-; spin_fin).
Qed.

Lemma rt_spin_step : forall s l s' c d, RInv s -> rt_spinning s c d ->
  rt_step ch1 sh4 ch2 sh3 s l = Some s' -> rt_spinning s' c d.
Proof.
  intros s l s' c d Hinv Hspin Hstep. apply rt_spinning_iff in Hspin. apply rt_spinning_iff.
  destruct Hspin as (p & Hn & Hsp). pose proof Hinv as (HL & _). pose proof (HL c p Hn) as Hl.
  destruct l as [script|c0|c0|c0| | |c0 dial fail|c0 d0|c0 d0 n|c0 d0|c0 d0|c0 d0|v|d0 bs|k ok tun conf|bs| ]; unfold rt_step in Hstep.
  - injection Hstep as <-. unfold rt_with_pairs. rproj. exists p. split; [|exact Hsp].
    rewrite nth_error_app1; [exact Hn|]. eapply nth_error_lt. exact Hn.
  - destruct (nth_error (r_pairs s) c0) as [q|] eqn:Eq; [|discriminate Hstep].
    destruct (rt_end_peer (p_cli q)) as [e1|] eqn:Ee; [|discriminate Hstep]. injection Hstep as <-.
    unfold rt_upd_pair, rt_with_pairs. rproj. apply (rt_spin_upd _ c c0 _ d p Hn Hsp). intros ->.
    rewrite Hn in Eq. injection Eq as <-. destruct (rt_end_peer_same _ _ Ee) as [_ Hc]. spin_fin.
  - destruct (nth_error (r_pairs s) c0) as [q|] eqn:Eq; [|discriminate Hstep].
    destruct (p_srv q) as [e0|] eqn:Es; [|discriminate Hstep].
    destruct (rt_end_peer e0) as [e1|] eqn:Ee; [|discriminate Hstep]. injection Hstep as <-.
    unfold rt_upd_pair, rt_with_pairs. rproj. apply (rt_spin_upd _ c c0 _ d p Hn Hsp). intros ->.
    rewrite Hn in Eq. injection Eq as <-. destruct (rt_end_peer_same _ _ Ee) as [_ Hc]. spin_fin.
  - destruct (r_apc s); try discriminate Hstep. destruct (r_lis s); try discriminate Hstep.
    destruct (nth_error (r_pairs s) c0) as [q|] eqn:Eq; [|discriminate Hstep].
    destruct (p_pc q); try discriminate Hstep. injection Hstep as <-. rproj.
    apply (rt_spin_upd _ c c0 _ d p Hn Hsp). intros ->. spin_fin.
  - destruct (r_apc s); try discriminate Hstep. destruct (r_lis s); try discriminate Hstep.
    injection Hstep as <-. rproj. exists p. auto.
  - destruct (r_apc s) as [|c1|] eqn:Ea; try discriminate Hstep. destruct Hinv as (_ & _ & _ & HA).
    destruct (HA c1 Ea) as (q & Eq & Eqpc).
    assert (Hne : c1 = c -> False).
    { intros ->. rewrite Hn in Eq. injection Eq as <-. destruct Hsp as (b & _ & Hb & _).
      destruct (rt_local_br_pc c p b Hl Hb) as [H|[H|[H|[H|[H|[H|[H|[H|H]]]]]]]]; congruence. }
    destruct (r_trelay s); injection Hstep as <-; rproj;
      (apply (rt_spin_upd _ c c1 _ d p Hn Hsp); intros E; exfalso; exact (Hne E)).
  - destruct (nth_error (r_pairs s) c0) as [q|] eqn:Eq; [|discriminate Hstep].
    destruct (Nat.eqb c0 c) eqn:Ec.
    + apply Nat.eqb_eq in Ec. subst c0. rewrite Hn in Eq. injection Eq as <-.
      pose proof Hsp as (b & e & Hb & He & Hpm & Hcl).
      unfold rt_handler in Hstep.
      destruct (rt_local_br_pc c p b Hl Hb) as [H|[H|[H|[H|[H|[H|[H|[H|H]]]]]]]]; rewrite H in Hstep; try discriminate Hstep.
      * destruct (r_trelay s); injection Hstep as <-; unfold rt_upd_pair, rt_with_pairs; rproj;
          (apply (rt_spin_upd _ c c _ d p Hn Hsp); intros _; spin_fin).
      * rewrite Hb in Hstep. injection Hstep as <-. unfold rt_upd_pair, rt_with_pairs. rproj.
        apply (rt_spin_upd _ c c _ d p Hn Hsp). intros _. spin_fin.
      * rewrite Hb in Hstep. injection Hstep as <-. unfold rt_upd_pair, rt_with_pairs. rproj.
        apply (rt_spin_upd _ c c _ d p Hn Hsp). intros _. spin_fin.
      * rewrite Hb in Hstep. injection Hstep as <-. unfold rt_upd_pair, rt_with_pairs. rproj.
        apply (rt_spin_upd _ c c _ d p Hn Hsp). intros _. spin_fin.
      * injection Hstep as <-. rproj. apply (rt_spin_upd _ c c _ d p Hn Hsp). intros _. spin_fin.
      * rewrite Hb in Hstep. injection Hstep as <-. unfold rt_upd_pair, rt_with_pairs. rproj.
        apply (rt_spin_upd _ c c _ d p Hn Hsp). intros _. spin_fin.
      * rewrite Hb in Hstep. injection Hstep as <-. unfold rt_upd_pair, rt_with_pairs. rproj.
        apply (rt_spin_upd _ c c _ d p Hn Hsp). intros _. spin_fin.
    + (* another pair's handler: pair c is untouched *)
      apply Nat.eqb_neq in Ec.
      assert (Hother : forall f t e k, exists p', nth_error (r_pairs (mkRt (upd c0 f (r_pairs s)) (r_lis s) (r_apc s) (r_connector s) t e k (r_x s))) c = Some p' /\ rt_spin_pair d p').
      { intros f t e k. rproj. apply (rt_spin_upd _ c c0 _ d p Hn Hsp). intros E. exfalso. exact (Ec E). }
      assert (Hres : exists f lis t, s' = mkRt (upd c0 f (r_pairs s)) lis (r_apc s) (r_connector s) t (r_era s) (r_tconnected s) (r_x s)).
      { unfold rt_handler, rt_upd_pair, rt_with_pairs in Hstep.
        destruct (p_pc q) as [ | | | | |r| | | |r| | | | | | | | | |o]; try discriminate Hstep;
          repeat match type of Hstep with
                 | match ?x with _ => _ end = _ => destruct x; try discriminate Hstep
                 | (if ?x then _ else _) = _ => destruct x; try discriminate Hstep
                 end;
          injection Hstep as <-; eexists; eexists; eexists; reflexivity. }
      destruct Hres as (f & lis & t & ->). rproj. apply (rt_spin_upd _ c c0 _ d p Hn Hsp). intros E. exfalso. exact (Ec E).
  - destruct (nth_error (r_pairs s) c0) as [q|] eqn:Eq; [|discriminate Hstep].
    destruct (p_br q) as [b0|] eqn:Eb; [|discriminate Hstep]. destruct (rt_dst_end d0 q) as [e0|] eqn:Ee; [|discriminate Hstep].
    destruct (h_writer (rt_half_of d0 b0)); [|discriminate Hstep].
    destruct (h_chan (rt_half_of d0 b0)); [destruct (h_chan_closed (rt_half_of d0 b0)); [|discriminate Hstep]|destruct (e_closed e0) eqn:Ec0];
      injection Hstep as <-; unfold rt_upd_pair, rt_with_pairs; rproj;
      (apply (rt_spin_upd _ c c0 _ d p Hn Hsp); intros ->; rewrite Hn in Eq; injection Eq as <-; spin_fin).
  - destruct (nth_error (r_pairs s) c0) as [q|] eqn:Eq; [|discriminate Hstep].
    destruct (p_br q) as [b0|] eqn:Eb; [|discriminate Hstep]. destruct (rt_src_end d0 q) as [e0|] eqn:Ee; [|discriminate Hstep].
    destruct (h_pump (rt_half_of d0 b0)) eqn:Ep0; try discriminate Hstep.
    destruct (e_closed e0) eqn:Ec0; [cbn [negb andb] in Hstep; discriminate Hstep|]. cbn [negb andb] in Hstep.
    match type of Hstep with (if ?x then _ else _) = _ => destruct x end; [|discriminate Hstep].
    destruct (b_relay b0 && rt_handshaking s); [destruct (x_lock (r_x s))|destruct (rt_chan_has_room (rt_half_of d0 b0))]; try discriminate Hstep;
      injection Hstep as <-; unfold rt_upd_pair, rt_with_pairs; rproj;
      (apply (rt_spin_upd _ c c0 _ d p Hn Hsp); intros ->; rewrite Hn in Eq; injection Eq as <-; spin_fin).
  - destruct (nth_error (r_pairs s) c0) as [q|] eqn:Eq; [|discriminate Hstep].
    destruct (p_br q) as [b0|] eqn:Eb; [|discriminate Hstep]. destruct (rt_src_end d0 q) as [e0|] eqn:Ee; [|discriminate Hstep].
    destruct (h_pump (rt_half_of d0 b0)) eqn:Ep0; try discriminate Hstep. destruct (e_rx e0); [|discriminate Hstep].
    destruct (e_closed e0) eqn:Ec0; [rewrite andb_false_r in Hstep; discriminate Hstep|].
    destruct (e_eof e0); [|discriminate Hstep]. cbn [negb andb] in Hstep.
    injection Hstep as <-; unfold rt_upd_pair, rt_with_pairs; rproj;
      (apply (rt_spin_upd _ c c0 _ d p Hn Hsp); intros ->; rewrite Hn in Eq; injection Eq as <-; spin_fin).
  - destruct (nth_error (r_pairs s) c0) as [q|] eqn:Eq; [|discriminate Hstep].
    destruct (p_br q) as [b0|] eqn:Eb; [|discriminate Hstep].
    destruct (h_pump (rt_half_of d0 b0)) eqn:Ep0; try discriminate Hstep. destruct (b_relay b0); [discriminate Hstep|].
    injection Hstep as <-; unfold rt_upd_pair, rt_with_pairs; rproj;
      (apply (rt_spin_upd _ c c0 _ d p Hn Hsp); intros ->; rewrite Hn in Eq; injection Eq as <-; spin_fin).
  - destruct (nth_error (r_pairs s) c0) as [q|] eqn:Eq; [|discriminate Hstep].
    destruct (p_br q) as [b0|]; [|discriminate Hstep]. destruct (rt_src_end d0 q) as [e0|]; [|discriminate Hstep].
    destruct (h_pump (rt_half_of d0 b0)); try discriminate Hstep. destruct (e_closed e0); [|discriminate Hstep].
    injection Hstep as <-. exists p. auto.
  - injection Hstep as <-. rproj. exists p. auto.
  - (* RLInband *)
    destruct bs as [|b0 bs]; [discriminate Hstep|].
    destruct (rt_handshaking s); [destruct (x_lock (r_x s)); [discriminate Hstep|]; destruct (r_tconnected s)|];
      injection Hstep as <-; unfold rt_with_x; rproj; exists p; auto.
  - (* RLHsRead *)
    destruct (x_pc (r_x s)); try discriminate Hstep;
      (match type of Hstep with (if ?x then _ else _) = _ => destruct x end; [|discriminate Hstep]);
      injection Hstep as <-; unfold rt_with_x; rproj; exists p; auto.
  - (* RLHs *)
    destruct (x_pc (r_x s)) as [ |tn cf|cf| | | | |cf|cf|cf| ]; try discriminate Hstep.
    + injection Hstep as <-. rproj. exists p. auto.
    + exact (rt_spin_route _ _ _ _ _ _ c d p Hstep Hn Hsp).
    + exact (rt_spin_route _ _ _ _ _ _ c d p Hstep Hn Hsp).
    + exact (rt_spin_route _ _ _ _ _ _ c d p Hstep Hn Hsp).
    + exact (rt_spin_route _ _ _ _ _ _ c d p Hstep Hn Hsp).
    + destruct (x_bufin (r_x s)); [injection Hstep as <-; unfold rt_with_x; rproj; exists p; auto|].
      apply (rt_spin_route _ _ _ _ _ _ c d p Hstep); [unfold rt_with_x; rproj; exact Hn|exact Hsp].
    + destruct (x_bufout (r_x s)); [injection Hstep as <-; unfold rt_with_x; rproj; exists p; auto|].
      apply (rt_spin_route _ _ _ _ _ _ c d p Hstep); [unfold rt_with_x; rproj; exact Hn|exact Hsp].
    + destruct cf; injection Hstep as <-; [unfold rt_with_x; rproj; exists p; auto|exact (rt_spin_reset s _ c d p Hn Hsp)].
  - (* RLReset *)
    destruct (x_status (r_x s)); try discriminate Hstep. injection Hstep as <-. exact (rt_spin_reset s _ c d p Hn Hsp).
Qed.

Lemma rt_spins_for_ever : forall ls s s' c d, rt_reach ch1 sh4 ch2 sh3 s -> rt_spinning s c d ->
  rt_run ch1 sh4 ch2 sh3 s ls = Some s' ->
  rt_spinning s' c d /\ rt_step ch1 sh4 ch2 sh3 s' (RLPumpSpin c d) = Some s'.
Proof.
  intros ls s s' c d Hr. apply rt_reach_inv in Hr. revert s Hr.
  induction ls as [|l ls IH]; intros s Hinv Hsp Hrun; cbn [rt_run] in Hrun.
  - injection Hrun as <-. split; [exact Hsp|]. destruct Hsp as (p & b & e & Hn & Hb & He & Hpm & Hcl).
    unfold rt_step. rewrite Hn, Hb, He, Hpm, Hcl. reflexivity.
  - destruct (rt_step ch1 sh4 ch2 sh3 s l) as [s1|] eqn:E; [|discriminate Hrun].
    apply (IH s1); [exact (rt_step_inv s l s1 Hinv E)|exact (rt_spin_step s l s1 c d Hinv Hsp E)|exact Hrun].
Qed.


End RelayProofs.

(* ------------------------------------------------------------------------------------ *)
(* listenForTunnel's rewrite of the trigger, and the four hellos *)

Lemma rt_rewrite_fmt_src_ok : fmt_verbs Consts.rtunnel_rewrite_fmt = [115; 100].
Proof. reflexivity. Qed.

Lemma rt_port_tag_eq : forall uid port, rt_port_tag uid port = 58 :: uid ++ 58 :: (dec_Z port ++ []).
Proof. reflexivity. Qed.

Lemma rt_is_prefix_app : forall p s, rt_is_prefix p (p ++ s) = true.
Proof.
  induction p as [|a p IH]; intros s; cbn [rt_is_prefix app]; [reflexivity|].
  rewrite N.eqb_refl. cbn [andb]. apply IH.
Qed.

Lemma rt_replace_all_skip : forall pat rep l post,
  rt_replace_all pat rep (l ++ post) (length l) = rt_replace_all pat rep post 0.
Proof.
  intros pat rep. induction l as [|a l IH]; intros post; cbn [app length rt_replace_all]; [|apply IH].
  destruct post; reflexivity.
Qed.

(* the first occurrence of the pattern is replaced, everything before it is kept, the rest is rewritten in turn *)
Lemma rt_replace_all_first : forall pat rep pre post, pat <> [] ->
  (forall i, (i < length pre)%nat -> rt_is_prefix pat (skipn i (pre ++ pat ++ post)) = false) ->
  rt_replace_all pat rep (pre ++ pat ++ post) 0 = pre ++ rep ++ rt_replace_all pat rep post 0.
Proof.
  intros pat rep pre post Hne. induction pre as [|b pre IH]; intros Hno.
  - cbn [app]. destruct pat as [|a pat]; [contradiction|]. cbn [app rt_replace_all].
    change (a :: pat ++ post) with ((a :: pat) ++ post). rewrite rt_is_prefix_app.
    replace (length (a :: pat) - 1)%nat with (length pat) by (cbn [length]; lia).
    rewrite rt_replace_all_skip. reflexivity.
  - cbn [app rt_replace_all]. pose proof (Hno 0%nat) as H0. cbn [skipn length app] in H0. rewrite H0; [|lia].
    f_equal. apply IH. intros i Hi. apply (Hno (S i)). cbn [length]. lia.
Qed.

Lemma rt_rewrite_first : forall uid sport rport pre post,
  (forall i, (i < length pre)%nat -> rt_is_prefix (rt_port_tag uid sport) (skipn i (pre ++ rt_port_tag uid sport ++ post)) = false) ->
  rt_rewrite uid sport rport (pre ++ rt_port_tag uid sport ++ post) =
  pre ++ rt_port_tag uid rport ++ rt_rewrite uid sport rport post.
Proof.
  intros uid sport rport pre post Hno. unfold rt_rewrite. apply rt_replace_all_first; [|exact Hno].
  rewrite rt_port_tag_eq. discriminate.
Qed.

Lemma server_hello_eq : forall uid port,
  server_hello uid port =
  [58; 58; 84; 82; 90; 83; 90; 58; 58; 83; 69; 82; 86; 69; 82; 58; 58; 72; 69; 76; 76; 79; 58; 58]
    ++ cut_uid uid ++ 58 :: (dec_Z port ++ []).
Proof. reflexivity. Qed.

Lemma server_hello_injective : forall uid1 uid2 port1 port2,
  server_hello uid1 port1 = server_hello uid2 port2 ->
  forallb is_digit (cut_uid uid1) = true -> forallb is_digit (cut_uid uid2) = true ->
  cut_uid uid1 = cut_uid uid2 /\ port1 = port2.
Proof.
  intros uid1 uid2 port1 port2 E H1 H2. rewrite !server_hello_eq in E.
  apply app_inv_head in E. apply digits_sep in E; [|exact H1|exact H2].
  destruct E as [Eu Ed]. split; [exact Eu|]. rewrite !app_nil_r in Ed. apply dec_Z_inj. exact Ed.
Qed.

Lemma client_server_hello_differ : forall uid1 uid2 port1 port2, client_hello uid1 port1 <> server_hello uid2 port2.
Proof. intros uid1 uid2 port1 port2 E. rewrite client_hello_eq, server_hello_eq in E. cbn [app] in E. discriminate E. Qed.

(* a greeting computed from the port the SERVER announced is not the one the relay expects: without the
   rewrite of the trigger the genuine client would be turned away *)
Lemma rt_unrewritten_rejected : forall uid sport rport,
  forallb is_digit (cut_uid uid) = true -> sport <> rport ->
  hello_matches (client_hello uid sport) (client_hello uid rport) = false /\
  hello_matches (server_hello uid rport) (server_hello uid sport) = false.
Proof.
  intros uid sport rport Hd Hne.
  assert (Hf : forall got e, got <> e -> hello_matches got e = false)
    by (intros got e H; apply hello_matches_false; congruence).
  split; apply Hf; intros E.
  - apply hello_injective in E; [|exact Hd|exact Hd]. destruct E as [_ E]. exact (Hne E).
  - apply server_hello_injective in E; [|exact Hd|exact Hd]. destruct E as [_ E]. exact (Hne (eq_sym E)).
Qed.

(* ------------------------------------------------------------------------------------ *)
(* the regenerated statement skeleton is the one the model transcribes *)

Lemma rt_skel_matches :
  rt_set_tunnel_connector_skel = expected_rt_set_tunnel_connector /\
  rt_listen_for_tunnel_skel = expected_rt_listen_for_tunnel /\
  rt_accept_on_tunnel_skel = expected_rt_accept_on_tunnel /\
  rt_handle_tunnel_conn_skel = expected_rt_handle_tunnel_conn /\
  rt_new_tunnel_relay_skel = expected_rt_new_tunnel_relay /\
  rt_wrap_input_skel = expected_rt_wrap_input /\
  rt_wrap_output_skel = expected_rt_wrap_output /\
  rt_reset_to_standby_skel = expected_rt_reset_to_standby /\
  rt_add_handshake_buffer_skel = expected_rt_add_handshake_buffer /\
  rt_flush_handshake_buffer_skel = expected_rt_flush_handshake_buffer /\
  rt_send_string_to_client_skel = expected_rt_send_string_to_client /\
  rt_send_string_to_server_skel = expected_rt_send_string_to_server /\
  rt_send_error_skel = expected_rt_send_error /\
  rt_handshake_skel = expected_rt_handshake /\
  rt_relay_wrap_input_skel = expected_rt_relay_wrap_input /\
  rt_relay_wrap_output_skel = expected_rt_relay_wrap_output /\
  rt_sites_bufchan_send = expected_rt_sites_bufchan_send /\
  rt_sites_atomic_writes = expected_rt_sites_atomic_writes /\
  rt_sites_plain_writes = expected_rt_sites_plain_writes /\
  rt_sites_starts = expected_rt_sites_starts.
Proof. repeat split; reflexivity. Qed.

(* ------------------------------------------------------------------------------------ *)
(* a concrete instance (used by the examples of Props/C17.v) and the refutation of "at most one EVER" *)

Definition exr_uid : list N := [49; 55; 50; 55; 55; 50; 52; 56; 48; 48; 49; 50; 48].   (* "1727724800120" as a relay rewrites it *)
Definition exr_sport : Z := 40001%Z.
Definition exr_rport : Z := 40002%Z.
Definition exr_ch1 := client_hello exr_uid exr_rport.
Definition exr_sh4 := server_hello exr_uid exr_rport.
Definition exr_ch2 := client_hello exr_uid exr_sport.
Definition exr_sh3 := server_hello exr_uid exr_sport.
Definition exr_H (c : nat) : rt_label := RLHandler c None false.
(* handleTunnelConn of c from its first statement to the compare-and-swap, the connector returning a
   connection that behaves as [script] says *)
Definition exr_greet (c : nat) (script : list pev) : list rt_label :=
  [exr_H c; exr_H c; exr_H c; RLHandler c (Some script) false; exr_H c; RLPeerS c; exr_H c; exr_H c; exr_H c; exr_H c].


(* the relay's handshake fails on a junk line that arrives in-band: FAIL both ways, flush, resetToStandby(kRelayHandshaking) *)
Definition exr_hs_fail : list rt_label :=
  [RLInband RdIn [64; 10]; RLHsRead 2 false false false; RLHs [35; 70; 10]; RLHs [35; 70; 10]; RLHs []; RLHs []; RLHs []].
(* the relay's handshake succeeds: ACT (tunnel = tun) and CFG arrive through the adopted pair c's connections *)
Definition exr_hs_ok (c : nat) (tun : bool) : list rt_label :=
  [RLPeerC c; RLPump c RdIn 2; RLHsRead 2 true tun true; RLHs []; RLHs [35; 65; 10];
   RLPeerS c; RLPump c RdOut 2; RLHsRead 2 true false false; RLHs [35; 67; 10]; RLHs []; RLHs []; RLHs []].

Lemma rt_at_most_one_ever_refuted :
  exists ls s p0 p1, rt_run exr_ch1 exr_sh4 exr_ch2 exr_sh3 rt_init ls = Some s /\
    r_pairs s = [p0; p1] /\ p_won p0 = Some 0%nat /\ p_won p1 = Some 1%nat /\ r_trelay s = Some 1%nat.
Proof.
  exists ([RLConnect [PWrite exr_ch1]; RLConnect [PWrite exr_ch1]; RLAccept 0; RLCheck; RLAccept 1; RLCheck; RLPeerC 0]
          ++ exr_greet 0 [PWrite exr_sh3] ++ [exr_H 0; exr_H 0; exr_H 0; exr_H 0; exr_H 0] ++ exr_hs_fail ++ [RLPeerC 1]
          ++ exr_greet 1 [PWrite exr_sh3] ++ [exr_H 1]).
  vm_compute. do 3 eexists. repeat split.
Qed.

Lemma rt_at_most_one_ever_false :
  ~ (forall s c1 c2 p1 p2, rt_reach exr_ch1 exr_sh4 exr_ch2 exr_sh3 s ->
       nth_error (r_pairs s) c1 = Some p1 -> nth_error (r_pairs s) c2 = Some p2 ->
       p_won p1 <> None -> p_won p2 <> None -> c1 = c2).
Proof.
  intros H. destruct rt_at_most_one_ever_refuted as (ls & s & p0 & p1 & Hrun & Hps & W0 & W1 & _).
  assert (E : 0%nat = 1%nat).
  { apply (H s 0%nat 1%nat p0 p1); [exists ls; exact Hrun|rewrite Hps; reflexivity|rewrite Hps; reflexivity| |];
      congruence. }
  discriminate E.
Qed.
