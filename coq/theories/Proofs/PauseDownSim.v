(* C18, download direction, data phase: the SIMULATION between the composition built from the reader
   machine ([ydstep]) and the abstract composition [ystep], as Proofs/PauseSim.v does for the upload. *)
From Trzsz Require Import Base.Bytes Gen.Consts Model.Pause Model.PauseDown Proofs.Pause Proofs.PauseComp Proofs.PauseSim
  Proofs.PauseDown.
From Coq Require Import Lia.
Local Open Scope nat_scope.

Section DownSim.
Variables T' SL GL n W P : nat.
Let T := S T'.
Let cf := mkCfg T SL GL true.

Ltac p3 := change (cP3 cf) with true in *; change (cSL cf) with SL in *; change (cGL cf) with GL in *;
  change (cT cf) with T in *.

(* ---------- our reader, with its read timer ---------- *)

Definition okD (a : rstate nat) : Prop :=
  stopped (core a) = false /\ match ph a with PRead _ => queue a = [] /\ exists t, tmo (core a) = Some t | _ => True end.

Definition absO (a : rstate nat) : oph :=
  match ph a with PIdle => OIdle | PGate _ j => OGate j | PRead _ => ORead (tmo_val (core a)) end.

Definition wakes (pa : bool) (q : list nat) (a' : rstate nat) (o : option (out nat)) : Prop :=
  if pa then o = None /\ absO a' = OGate SL /\ queue a' = q
  else match q with
       | [] => o = None /\ absO a' = ORead T /\ queue a' = []
       | k :: q' => (exists b, o = Some (ODelivered k b)) /\ absO a' = OIdle /\ queue a' = q'
       end.

Lemma rdD : forall q e c a' o, stopped c = false -> (forall snap, e <> GotLine snap) ->
  rd nat cls_a cf q e c = (a', o) ->
  okD a' /\ pausing (core a') = pausing c /\ wakes (pausing c) q a' o.
Proof.
  intros q e c a' o Hst He H. unfold wakes.
  assert (Hpre : pre nat cf e c = gate_check nat cf c (match e with AtTop => pidx c | AfterGate s0 => s0 | GotLine s0 => s0 end)).
  { destruct e as [|s0|s0]; [reflexivity|reflexivity|exfalso; eapply He; reflexivity]. }
  destruct q as [|k q']; cbn [rd] in H; rewrite Hpre in H; unfold gate_check in H; p3; cbn [andb] in H;
    rewrite Hst in H; destruct (pausing c) eqn:Ep; cbn [cls_a] in H.
  - inversion H; subst; clear H. unfold okD, absO; cbn. auto.
  - inversion H; subst; clear H. unfold okD, absO, tmo_val, arm, fresh; cbn. p3. unfold T. repeat split; eauto.
  - inversion H; subst; clear H. unfold okD, absO; cbn. auto.
  - destruct (rbt (arm cf c)); cbn [andb] in H; inversion H; subst; clear H; unfold okD, absO; cbn; repeat split; auto; eexists; reflexivity.
Qed.

Lemma D_call : forall a a' o, okD a -> ph a = PIdle -> rstep nat cls_a cf a ECall = (a', o) ->
  okD a' /\ pausing (core a') = pausing (core a) /\ wakes (pausing (core a)) (queue a) a' o.
Proof.
  intros [c q p] a' o (Hst & _) Hp H; cbn [core queue ph] in *. subst p. cbn [rstep ph core queue] in H.
  exact (rdD q AtTop (upd_pflag c false) a' o Hst ltac:(discriminate) H).
Qed.

Lemma D_arrive : forall a k a' o, okD a -> rstep nat cls_a cf a (EArrive k) = (a', o) ->
  okD a' /\ pausing (core a') = pausing (core a) /\
  match ph a with
  | PRead _ => (exists b, o = Some (ODelivered k b)) /\ absO a' = OIdle /\ queue a' = []
  | _ => o = None /\ absO a' = absO a /\ queue a' = queue a ++ [k]
  end.
Proof.
  intros [c q p] k a' o (Hst & Hq) H; cbn [core queue ph] in *. cbn [rstep core queue ph] in H. rewrite Hst in H.
  destruct p as [|snap j|snap].
  - inversion H; subst; clear H. unfold okD, absO; cbn. auto.
  - inversion H; subst; clear H. unfold okD, absO; cbn. auto.
  - destruct Hq as (-> & _). cbn [app rd pre cls_a] in H. p3; cbn [andb] in H.
    destruct (rbt c); inversion H; subst; clear H; unfold okD, absO; cbn; repeat split; auto; eexists; reflexivity.
Qed.

Lemma D_tick : forall a a' o, okD a -> rstep nat cls_a cf a ETick = (a', o) ->
  match absO a with
  | OIdle => okD a' /\ pausing (core a') = pausing (core a) /\ o = None /\ absO a' = OIdle /\ queue a' = queue a
  | OGate (S (S j)) => okD a' /\ pausing (core a') = pausing (core a) /\ o = None /\ absO a' = OGate (S j) /\ queue a' = queue a
  | OGate _ => okD a' /\ pausing (core a') = pausing (core a) /\ wakes (pausing (core a)) (queue a) a' o
  | ORead (S (S t)) => okD a' /\ pausing (core a') = pausing (core a) /\ o = None /\ absO a' = ORead (S t) /\ queue a' = queue a
  | ORead _ => True
  end.
Proof.
  intros [c q p] a' o (Hst & Hq) H; cbn [core queue ph] in *. cbn [rstep] in H. unfold rtick in H; cbn [core queue ph] in H.
  unfold absO; cbn [ph core].
  destruct p as [|snap j|snap].
  - inversion H; subst; clear H. unfold okD, absO; cbn. auto.
  - destruct j as [|[|j]];
      try (inversion H; subst; clear H; unfold okD, absO; cbn; auto; fail);
      exact (rdD q (AfterGate snap) (upd_timers c (dec (tmo c)) (dec (ntmo c))) a' o Hst ltac:(discriminate) H).
  - destruct Hq as (-> & t & Ht). unfold tmo_val. rewrite Ht in *. destruct t as [|[|t]]; try exact I.
    cbn [dec upd_timers tmo fired] in H. inversion H; subst; clear H. unfold okD, absO, tmo_val; cbn. repeat split; eauto.
Qed.

Lemma D_pause : forall a, okD a ->
  let a' := mkR (do_pause (core a)) (queue a) (ph a) in
  okD a' /\ pausing (core a') = true /\ absO a' = absO a.
Proof. intros [c q p] (Hst & Hq); cbn [core queue ph]. unfold okD, absO, do_pause, tmo_val; destruct (pbt c); cbn; auto. Qed.

Lemma D_resume : forall a b, okD a ->
  let a' := mkR (do_resume cf (core a) b) (queue a) (ph a) in
  okD a' /\ pausing (core a') = false /\ absO a' = absO a.
Proof. intros [c q p] b (Hst & Hq); cbn [core queue ph]. unfold okD, absO, do_resume, tmo_val; cbn; auto. Qed.

(* ---------- the composition ---------- *)

Definition DInv (s : dstate) : Prop := okD (dD s) /\ okR (dPA s) /\ dErrD s = false /\ dErrPA s = false.

Ltac dflds := cbn [dD dDeliv dK dKq dPS dPcnt dPA dPacked dErrD dErrPA dEp] in *.
Ltac yflds := cbn [yPausing yPS yPcnt yD yDq yDeliv yK yKq yPA yPAq yPacked yBad yEp] in *.

Lemma yabs_eq : forall s, yabs s =
  mkB (pausing (core (dD s))) (dPS s) (dPcnt s) (absO (dD s)) (queue (dD s)) (dDeliv s) (dK s) (dKq s)
      (absR (dPA s)) (queue (dPA s)) (dPacked s) (dErrD s || dErrPA s) (dEp s).
Proof. reflexivity. Qed.

Lemma yabs_setD : forall s a dl kq err, yabs (d_setD s a dl kq err) =
  mkB (pausing (core a)) (dPS s) (dPcnt s) (absO a) (queue a) dl (dK s) kq
      (absR (dPA s)) (queue (dPA s)) (dPacked s) (err || dErrPA s) (dEp s).
Proof. reflexivity. Qed.

Lemma yabs_setPA : forall s r acked err, yabs (d_setPA s r acked err) =
  mkB (pausing (core (dD s))) (dPS s) (dPcnt s) (absO (dD s)) (queue (dD s)) (dDeliv s) (dK s) (dKq s)
      (absR r) (queue r) acked (dErrD s || err) (dEp s).
Proof. reflexivity. Qed.

Lemma DInv_setD : forall s a dl kq, DInv s -> okD a -> DInv (d_setD s a dl kq (dErrD s)).
Proof. intros s a dl kq (HA & HR & EA & ER) H. unfold DInv, d_setD; dflds. auto. Qed.

Lemma DInv_setPA : forall s r acked, DInv s -> okR r -> DInv (d_setPA s r acked (dErrPA s)).
Proof. intros s r acked (HA & HR & EA & ER) H. unfold DInv, d_setPA; dflds. auto. Qed.

(* the effect of a wake-up of our reader on the composition *)
Lemma sim_wakeD : forall s a' o, DInv s -> okD a' -> pausing (core a') = pausing (core (dD s)) ->
  wakes (pausing (core (dD s))) (queue (dD s)) a' o ->
  let s' := match o with
            | Some (ODelivered k _) => d_setD s a' (dDeliv s ++ [k]) (dKq s ++ [k]) (dErrD s)
            | Some _ => d_setD s a' (dDeliv s) (dKq s) true
            | None => d_setD s a' (dDeliv s) (dKq s) (dErrD s)
            end in
  DInv s' /\ yabs s' = y_dcall cf (yabs s).
Proof.
  intros s a' o Hinv HA' Hpa Hw. cbn zeta. unfold y_dcall, y_setD, y_deliver. p3.
  change (yPausing (yabs s)) with (pausing (core (dD s))). change (yDq (yabs s)) with (queue (dD s)).
  unfold wakes in Hw. pose proof Hinv as (_ & _ & EA & _).
  destruct (pausing (core (dD s))) eqn:Epa.
  - destruct Hw as (-> & Ha & Hq). split; [apply DInv_setD; auto|]. rewrite yabs_setD, Hpa, Ha, Hq. reflexivity.
  - destruct (queue (dD s)) as [|k q'] eqn:Eq.
    + destruct Hw as (-> & Ha & Hq). split; [apply DInv_setD; auto|]. rewrite yabs_setD, Hpa, Ha, Hq. reflexivity.
    + destruct Hw as ((b & ->) & Ha & Hq). split; [apply DInv_setD; auto|]. rewrite yabs_setD, Hpa, Ha, Hq. reflexivity.
Qed.

Lemma sim_feedD_call : forall s, DInv s -> ph (dD s) = PIdle ->
  DInv (feedD cf s ECall) /\ yabs (feedD cf s ECall) = y_dcall cf (yabs s).
Proof.
  intros s Hinv Hp. pose proof Hinv as (HA & HR & EA & ER). unfold feedD.
  destruct (rstep nat cls_a cf (dD s) ECall) as [a' o] eqn:E.
  destruct (D_call _ _ _ HA Hp E) as (HA' & Hpa & Hres).
  exact (sim_wakeD s a' o Hinv HA' Hpa Hres).
Qed.

Lemma sim_feedD_arrive : forall s k, DInv s ->
  DInv (feedD cf s (EArrive k)) /\ yabs (feedD cf s (EArrive k)) = y_darrive (yabs s) k.
Proof.
  intros s k Hinv. pose proof Hinv as (HA & HR & EA & ER). unfold feedD.
  destruct (rstep nat cls_a cf (dD s) (EArrive k)) as [a' o] eqn:E.
  destruct (D_arrive _ _ _ _ HA E) as (HA' & Hpa & Hres).
  unfold y_darrive, y_deliver, y_setD. change (yD (yabs s)) with (absO (dD s)).
  destruct (ph (dD s)) as [|snap j|snap] eqn:Eph.
  - assert (Hab : absO (dD s) = OIdle) by (unfold absO; rewrite Eph; reflexivity). rewrite Hab in *.
    destruct Hres as (-> & Ha & Hq). split; [apply DInv_setD; auto|]. rewrite yabs_setD, Hpa, Ha, Hq. reflexivity.
  - assert (Hab : absO (dD s) = OGate j) by (unfold absO; rewrite Eph; reflexivity). rewrite Hab in *.
    destruct Hres as (-> & Ha & Hq). split; [apply DInv_setD; auto|]. rewrite yabs_setD, Hpa, Ha, Hq. reflexivity.
  - assert (Hab : absO (dD s) = ORead (tmo_val (core (dD s)))) by (unfold absO; rewrite Eph; reflexivity). rewrite Hab in *.
    destruct Hres as ((b & ->) & Ha & Hq). split; [apply DInv_setD; auto|]. rewrite yabs_setD, Hpa, Ha, Hq. reflexivity.
Qed.

Lemma sim_feedD_tick : forall s, DInv s -> yBad (y_tickD cf (yabs s)) = false ->
  DInv (feedD cf s ETick) /\ yabs (feedD cf s ETick) = y_tickD cf (yabs s).
Proof.
  intros s Hinv Hb. pose proof Hinv as (HA & HR & EA & ER). unfold feedD.
  destruct (rstep nat cls_a cf (dD s) ETick) as [a' o] eqn:E.
  pose proof (D_tick _ _ _ HA E) as Hres.
  unfold y_tickD in *. change (yD (yabs s)) with (absO (dD s)) in *.
  destruct (absO (dD s)) as [|j|t] eqn:Hab.
  - destruct Hres as (HA' & Hpa & -> & Ha & Hq). split; [apply DInv_setD; auto|].
    rewrite yabs_setD, Hpa, Ha, Hq, (yabs_eq s), Hab, EA. reflexivity.
  - destruct j as [|[|j]].
    + destruct Hres as (HA' & Hpa & Hw). exact (sim_wakeD s a' o Hinv HA' Hpa Hw).
    + destruct Hres as (HA' & Hpa & Hw). exact (sim_wakeD s a' o Hinv HA' Hpa Hw).
    + destruct Hres as (HA' & Hpa & -> & Ha & Hq). split; [apply DInv_setD; auto|].
      unfold y_setD. rewrite yabs_setD, Hpa, Ha, Hq. reflexivity.
  - destruct t as [|[|t]]; try (cbn in Hb; discriminate).
    destruct Hres as (HA' & Hpa & -> & Ha & Hq). split; [apply DInv_setD; auto|].
    unfold y_setD. rewrite yabs_setD, Hpa, Ha, Hq. reflexivity.
Qed.

Lemma sim_feedD_pause : forall s, DInv s ->
  DInv (feedD cf s EPause) /\ yabs (feedD cf s EPause) = y_flags (yabs s) true (dEp s).
Proof.
  intros s Hinv. pose proof Hinv as (HA & HR & EA & ER). unfold feedD. cbn [rstep].
  destruct (D_pause _ HA) as (HA' & Hpa & Ha). cbn zeta in *.
  split; [apply DInv_setD; auto|]. rewrite yabs_setD, Hpa, Ha. cbn [queue]. reflexivity.
Qed.

Lemma sim_feedD_resume : forall s, DInv s ->
  DInv (feedD cf s EResume) /\ yabs (feedD cf s EResume) = y_flags (yabs s) false (dEp s).
Proof.
  intros s Hinv. pose proof Hinv as (HA & HR & EA & ER). unfold feedD. cbn [rstep].
  destruct (D_resume _ (is_read (ph (dD s))) HA) as (HA' & Hpa & Ha). cbn zeta in *.
  split; [apply DInv_setD; auto|]. rewrite yabs_setD, Hpa, Ha. cbn [queue]. reflexivity.
Qed.

(* the peer's ack reader *)
Lemma sim_feedPA_arrive : forall s l, DInv s ->
  DInv (feedPA cf s (EArrive l)) /\ yabs (feedPA cf s (EArrive l)) = y_paarrive cf (yabs s) l.
Proof.
  intros s l Hinv. pose proof Hinv as (HA & HR & EA & ER). unfold feedPA.
  destruct (rstep wline cls_w cf (dPA s) (EArrive l)) as [r' o] eqn:E.
  destruct (R_arrive T' SL GL _ _ _ _ HR E) as (HR' & Hres).
  unfold y_paarrive, y_setPA. change (yPA (yabs s)) with (absR (dPA s)).
  destruct (ph (dPA s)) as [|snap j|snap] eqn:Eph.
  - assert (Hab : absR (dPA s) = RIdle) by (unfold absR; rewrite Eph; reflexivity). rewrite Hab.
    destruct Hres as (-> & Ha & Hq). split; [apply DInv_setPA; auto|]. rewrite yabs_setPA, Ha, Hq. reflexivity.
  - destruct HR as (_ & HR). rewrite Eph in HR. contradiction.
  - assert (Hab : exists t, absR (dPA s) = RRead t) by (unfold absR; rewrite Eph; eauto). destruct Hab as (t & Hab). rewrite Hab.
    assert (Hq0 : queue (dPA s) = []) by (destruct HR as (_ & HR); rewrite Eph in HR; apply HR).
    destruct l as [|k].
    + destruct Hres as (-> & Ha & Hq). split; [apply DInv_setPA; auto|]. rewrite yabs_setPA, Ha, Hq.
      change (yPAq (yabs s)) with (queue (dPA s)). rewrite Hq0. reflexivity.
    + destruct Hres as ((b & ->) & Ha & Hq). split; [apply DInv_setPA; auto|]. rewrite yabs_setPA, Ha, Hq.
      change (yPAq (yabs s)) with (queue (dPA s)). rewrite Hq0. reflexivity.
Qed.

Lemma sim_feedPA_call : forall s, DInv s -> ph (dPA s) = PIdle ->
  DInv (feedPA cf s ECall) /\ yabs (feedPA cf s ECall) = y_pacall cf (yabs s).
Proof.
  intros s Hinv Hp. pose proof Hinv as (HA & HR & EA & ER). unfold feedPA.
  destruct (rstep wline cls_w cf (dPA s) ECall) as [r' o] eqn:E.
  destruct (R_call T' SL GL _ _ _ HR Hp E) as (HR' & Hres).
  unfold y_pacall, y_setPA. change (yPAq (yabs s)) with (queue (dPA s)).
  destruct (first_data (queue (dPA s))) as [[k q']|] eqn:Ef.
  - destruct Hres as ((b & ->) & Ha & Hq). split; [apply DInv_setPA; auto|]. rewrite yabs_setPA, Ha, Hq. reflexivity.
  - destruct Hres as (-> & Ha & Hq). split; [apply DInv_setPA; auto|]. rewrite yabs_setPA, Ha, Hq. reflexivity.
Qed.

Lemma sim_feedPA_tick : forall s, DInv s -> yBad (y_tickPA (yabs s)) = false ->
  DInv (feedPA cf s ETick) /\ yabs (feedPA cf s ETick) = y_tickPA (yabs s).
Proof.
  intros s Hinv Hb. pose proof Hinv as (HA & HR & EA & ER). unfold feedPA.
  destruct (rstep wline cls_w cf (dPA s) ETick) as [r' o] eqn:E.
  pose proof (R_tick T' SL GL _ _ _ HR E) as Hres.
  unfold y_tickPA in *. change (yPA (yabs s)) with (absR (dPA s)) in *. unfold y_setPA, y_bad in *.
  destruct (absR (dPA s)) as [|t] eqn:Ea.
  - destruct Hres as (HR' & -> & Ha & Hq). split; [apply DInv_setPA; auto|].
    rewrite yabs_setPA, Ha, Hq, (yabs_eq s), Ea, ER. reflexivity.
  - destruct t as [|[|t]]; try (cbn [yBad] in Hb; discriminate).
    destruct Hres as (HR' & -> & Ha & Hq). split; [apply DInv_setPA; auto|].
    rewrite yabs_setPA, Ha, Hq. reflexivity.
Qed.

Lemma yabs_setK : forall s p q, yabs (d_setK s p q) = y_setK (yabs s) p q. Proof. reflexivity. Qed.
Lemma yabs_setPS : forall s p c, yabs (d_setPS s p c) = y_setPS (yabs s) p c. Proof. reflexivity. Qed.
Lemma yabs_setEp : forall s e, yabs (d_setEp s e) = y_flags (yabs s) (yPausing (yabs s)) e. Proof. reflexivity. Qed.
Lemma DInv_setK : forall s p q, DInv s -> DInv (d_setK s p q). Proof. intros s p q H; exact H. Qed.
Lemma DInv_setPS : forall s p c, DInv s -> DInv (d_setPS s p c). Proof. intros s p c H; exact H. Qed.
Lemma DInv_setEp : forall s e, DInv s -> DInv (d_setEp s e). Proof. intros s e H; exact H. Qed.

Lemma y_setK_paarrive : forall b p q l, y_paarrive cf (y_setK b p q) l = y_setK (y_paarrive cf b l) p q.
Proof. intros b p q l. unfold y_paarrive, y_setK, y_setPA; yflds. destruct (yPA b); [reflexivity|]. destruct l; reflexivity. Qed.

Lemma yKq_paarrive : forall b l, yKq (y_paarrive cf b l) = yKq b.
Proof. intros b l. unfold y_paarrive, y_setPA. destruct (yPA b); [reflexivity|]. destruct l; reflexivity. Qed.

(* the gate of our acker, entered from its loop condition *)
Lemma sim_kgate : forall s k p e, DInv s ->
  (p = SIdle /\ e = SCall) \/ (exists j, p = SSleep j /\ j <= 1 /\ e = STick) ->
  DInv (k_move cf s k p e) /\ yabs (k_move cf s k p e) = y_kgate cf (yabs s) k.
Proof.
  intros s k p e Hinv Hpe. pose proof Hinv as (HA & HR & EA & ER). unfold k_move.
  assert (Hst : d_stopped s = false) by (destruct HA as (HA & _); exact HA).
  assert (Hstep : sphase_step cf (d_pausing s) (d_stopped s) p e = gate_enter cf (d_pausing s) false).
  { rewrite Hst. destruct Hpe as [(-> & ->)|(j & -> & Hj & ->)]; [reflexivity|]. destruct j as [|[|j]]; [reflexivity|reflexivity|lia]. }
  rewrite Hstep. unfold gate_enter, y_kgate. p3; cbn [andb].
  change (d_pausing s) with (yPausing (yabs s)).
  assert (Hm : match e with SWrite => False | _ => True end) by (destruct Hpe as [(_ & ->)|(j & _ & _ & ->)]; exact I).
  destruct (yPausing (yabs s)) eqn:Epa.
  - cbn [d_emit]. destruct (sim_feedPA_arrive s WLKeep Hinv) as (Hc & He).
    destruct e; try contradiction; (split; [apply DInv_setK; exact Hc|]);
      rewrite yabs_setK, He, y_setK_paarrive; f_equal; change (dKq (feedPA cf s (EArrive WLKeep))) with (yKq (yabs (feedPA cf s (EArrive WLKeep))));
      rewrite He, yKq_paarrive; reflexivity.
  - cbn [d_emit]. destruct e; try contradiction; (split; [apply DInv_setK; exact Hinv|]); rewrite yabs_setK; reflexivity.
Qed.

Lemma y_quiescent_abs : forall s, DInv s -> d_quiescent n W s = y_quiescent n W (yabs s).
Proof.
  intros s (HA & (_ & HR) & _). unfold d_quiescent, y_quiescent, d_live, y_live. rewrite (yabs_eq s); yflds.
  unfold absR, absO. destruct (ph (dPA s)); [|contradiction|]; destruct (ph (dD s)); reflexivity.
Qed.

(* yBad is only ever set *)
Lemma yBad_paarrive : forall b l, yBad (y_paarrive cf b l) = yBad b.
Proof. intros b l. unfold y_paarrive, y_setPA. destruct (yPA b); [reflexivity|]. destruct l; reflexivity. Qed.
Lemma yBad_kgate : forall b k, yBad (y_kgate cf b k) = yBad b.
Proof. intros b k. unfold y_kgate. destruct (yPausing b); [rewrite yBad_paarrive|]; reflexivity. Qed.
Lemma yBad_tickK : forall b, yBad (y_tickK cf b) = yBad b.
Proof. intros b. unfold y_tickK. destruct (yK b) as [| |k [|[|[|j]]|]]; try reflexivity; apply yBad_kgate. Qed.
Lemma yBad_dcall : forall b, yBad (y_dcall cf b) = yBad b.
Proof. intros b. unfold y_dcall, y_setD, y_deliver. destruct (yPausing b); [reflexivity|]. destruct (yDq b); reflexivity. Qed.
Lemma yBad_tickD : forall b, yBad (y_tickD cf b) = false -> yBad b = false.
Proof.
  intros b H. unfold y_tickD in H. destruct (yD b) as [|[|[|j]]|[|[|t]]]; try rewrite yBad_dcall in H; try exact H; cbn in H; discriminate.
Qed.

(* THE SIMULATION, one step *)
Theorem down_sim_step : forall s x s', DInv s -> ydstep cf n W P s x = Some s' ->
  exists b', ystep cf n W P (yabs s) x = Some b' /\ (yBad b' = false -> b' = yabs s' /\ DInv s').
Proof.
  intros s x s' Hinv Hs. pose proof Hinv as (HA & HR & EA & ER).
  destruct x; unfold ydstep in Hs; unfold ystep.
  - (* tick *)
    rewrite <- (y_quiescent_abs s Hinv). change (yEp (yabs s)) with (dEp s).
    destruct (d_quiescent n W s && match dEp s with EpPausing e => e <? P | _ => true end); [|discriminate].
    inversion Hs; subst; clear Hs. eexists. split; [reflexivity|]. intros Hb. cbn [yBad y_flags] in Hb.
    rewrite yBad_tickK in Hb. pose proof (yBad_tickD _ Hb) as Hb1.
    destruct (sim_feedPA_tick s Hinv Hb1) as (Hc1 & He1).
    rewrite <- He1 in Hb.
    destruct (sim_feedD_tick _ Hc1 Hb) as (Hc2 & He2).
    set (s1 := feedD cf (feedPA cf s ETick) ETick) in *.
    assert (HS : DInv (match dK s1 with KIn k (SSleep j) => k_move cf s1 k (SSleep j) STick | _ => s1 end) /\
                 yabs (match dK s1 with KIn k (SSleep j) => k_move cf s1 k (SSleep j) STick | _ => s1 end) = y_tickK cf (yabs s1)).
    { unfold y_tickK. change (yK (yabs s1)) with (dK s1).
      destruct (dK s1) as [|k|k [|j|]] eqn:EK; try (split; [exact Hc2|reflexivity]).
      destruct j as [|[|j]].
      - apply sim_kgate; [exact Hc2|right; exists 0; auto].
      - apply sim_kgate; [exact Hc2|right; exists 1; auto].
      - unfold k_move. cbn [sphase_step d_emit]. split; [apply DInv_setK; exact Hc2|]. rewrite yabs_setK. reflexivity. }
    destruct HS as (Hc3 & He3). split; [|apply DInv_setEp; exact Hc3].
    rewrite yabs_setEp, He3, He2, He1. reflexivity.
  - (* pause *)
    change (yEp (yabs s)) with (dEp s). destruct (dEp s) as [|e|e j] eqn:Eep; try discriminate;
      inversion Hs; subst; clear Hs; (eexists; split; [reflexivity|]); intros _;
      destruct (sim_feedD_pause s Hinv) as (Hc & He); (split; [|apply DInv_setEp; exact Hc]);
      rewrite yabs_setEp, He; unfold y_flags; yflds; rewrite ?Eep; reflexivity.
  - (* resume *)
    change (yEp (yabs s)) with (dEp s). change (yPausing (yabs s)) with (d_pausing s).
    destruct (dEp s) as [|e|e j] eqn:Eep; try discriminate. destruct (d_pausing s); [|discriminate].
    inversion Hs; subst; clear Hs. eexists; split; [reflexivity|]. intros _.
    destruct (sim_feedD_resume s Hinv) as (Hc & He). split; [|apply DInv_setEp; exact Hc].
    rewrite yabs_setEp, He. unfold y_flags; yflds. rewrite ?Eep. reflexivity.
  - (* the peer's sender passes its (inactive) gate *)
    change (yPS (yabs s)) with (dPS s). destruct (dPS s) as [k|k p|k|]; try discriminate.
    inversion Hs; subst; clear Hs. eexists; split; [reflexivity|]. intros _. split; [reflexivity|exact Hinv].
  - (* the peer's sender writes its frame *)
    change (yPS (yabs s)) with (dPS s). destruct (dPS s) as [k|k [|j|]|k|]; try discriminate.
    inversion Hs; subst; clear Hs. eexists; split; [reflexivity|]. intros _.
    destruct (sim_feedD_arrive (d_setPS s (CSPush k) (dPcnt s)) k (DInv_setPS _ _ _ Hinv)) as (Hc & He). split; [|exact Hc].
    rewrite He. reflexivity.
  - (* the peer's sender pushes the acknowledgement slot *)
    change (yPS (yabs s)) with (dPS s). change (yPcnt (yabs s)) with (dPcnt s).
    destruct (dPS s) as [k|k p|k|]; try discriminate. destruct (dPcnt s <? W); [|discriminate].
    inversion Hs; subst; clear Hs. eexists; split; [reflexivity|]. intros _. split; [reflexivity|exact Hinv].
  - (* the peer's ack reader takes a slot and reads *)
    assert (Hx : yPA (yabs s) = absR (dPA s)) by reflexivity. rewrite Hx. unfold absR.
    change (yPcnt (yabs s)) with (dPcnt s).
    destruct (ph (dPA s)) as [|snap j|snap] eqn:Eph; try discriminate. destruct (dPcnt s) as [|c] eqn:Ec; try discriminate.
    inversion Hs; subst; clear Hs. eexists; split; [reflexivity|]. intros _.
    destruct (sim_feedPA_call (d_setPS s (dPS s) c) (DInv_setPS _ _ _ Hinv) Eph) as (Hc & He). split; [|exact Hc].
    rewrite He. reflexivity.
  - (* our data reader is called *)
    assert (Hx : yD (yabs s) = absO (dD s)) by reflexivity. rewrite Hx. unfold absO.
    destruct (ph (dD s)) as [|snap j|snap] eqn:Eph; try discriminate.
    change (y_live n (yabs s)) with (d_live n s). destruct (d_live n s); [|discriminate].
    inversion Hs; subst; clear Hs. eexists; split; [reflexivity|]. intros _.
    destruct (sim_feedD_call s Hinv Eph) as (Hc & He). auto.
  - (* our acker takes a length from its channel *)
    change (yK (yabs s)) with (dK s). change (yKq (yabs s)) with (dKq s).
    destruct (dK s); try discriminate. destruct (dKq s) as [|k q]; try discriminate.
    inversion Hs; subst; clear Hs. eexists; split; [reflexivity|]. intros _. split; [reflexivity|exact Hinv].
  - (* our acker calls the gate *)
    change (yK (yabs s)) with (dK s). destruct (dK s) as [|k|k p]; try discriminate.
    inversion Hs; subst; clear Hs. eexists; split; [reflexivity|]. intros _.
    destruct (sim_kgate s k SIdle SCall Hinv (or_introl (conj eq_refl eq_refl))) as (Hc & He). auto.
  - (* our acker writes the acknowledgement *)
    change (yK (yabs s)) with (dK s). destruct (dK s) as [|k|k [|j|]]; try discriminate.
    inversion Hs; subst; clear Hs. eexists; split; [reflexivity|]. intros _.
    unfold k_move. cbn [sphase_step d_emit].
    destruct (sim_feedPA_arrive s (WLData k) Hinv) as (Hc & He).
    split; [|apply DInv_setK; exact Hc]. rewrite yabs_setK, He, y_setK_paarrive. f_equal.
    change (dKq (feedPA cf s (EArrive (WLData k)))) with (yKq (yabs (feedPA cf s (EArrive (WLData k))))).
    rewrite He, yKq_paarrive. reflexivity.
Qed.

Lemma DInv_init : DInv (ydinit n) /\ yabs (ydinit n) = yinit n.
Proof. unfold DInv, okD, okR, peer_core, ydinit, rinit; cbn. auto 12. Qed.

Hypothesis HW : 1 <= W.
Hypothesis HSL : 1 <= SL.
Hypothesis HGL : 1 <= GL.
Hypothesis HP : P + Nat.max SL GL < T.

Theorem down_sim_run : forall xs s, ydrun cf n W P (ydinit n) xs = Some s ->
  yrun cf n W P (yinit n) xs = Some (yabs s) /\ DInv s.
Proof.
  assert (G : forall xs s0 s, DInv s0 -> BInv T' SL GL n W P (yabs s0) -> ydrun cf n W P s0 xs = Some s ->
            yrun cf n W P (yabs s0) xs = Some (yabs s) /\ DInv s).
  { induction xs as [|x xs IH]; intros s0 s Hc Ha Hr; cbn [ydrun yrun] in *.
    - inversion Hr; subst. auto.
    - destruct (ydstep cf n W P s0 x) as [s1|] eqn:E; [|discriminate].
      destruct (down_sim_step s0 x s1 Hc E) as (b' & Hs & Hrel). fold cf in Hs. rewrite Hs.
      pose proof (ystep_inv T' SL GL n W P HW HSL HGL HP x _ _ Ha Hs) as Ha'.
      destruct (Hrel (b_bad _ _ _ _ _ _ _ Ha')) as (-> & Hc1).
      apply IH; auto. }
  intros xs s Hr. destruct DInv_init as (Hc & He). rewrite <- He. apply G; auto.
  rewrite He. apply yinv_init; assumption.
Qed.

(* THE COMPOSITION THEOREM, download direction, data phase, for the composition of the reader machines *)
Theorem down_short_pause_completes_conc : forall xs s, ydrun cf n W P (ydinit n) xs = Some s ->
  dErrD s = false /\ dErrPA s = false /\ dDeliv s = seq 0 (length (dDeliv s)) /\ length (dDeliv s) <= n /\
  (d_quiescent n W s = true -> dEp s = EpNone -> dDeliv s = seq 0 n /\ dPacked s = n).
Proof.
  intros xs s Hr. destruct (down_sim_run xs s Hr) as (Ha & Hc).
  destruct (down_short_pause_completes_abs T' SL GL n W P HW HSL HGL HP xs _ Ha) as (Hb & Hd & Hl & Hq).
  pose proof Hc as (HA & HR & EA & ER). repeat split; auto.
  - apply Hq; [|exact H0]. rewrite <- y_quiescent_abs; [exact H|exact Hc].
  - apply Hq; [|exact H0]. rewrite <- y_quiescent_abs; [exact H|exact Hc].
Qed.

End DownSim.
