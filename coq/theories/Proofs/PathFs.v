(* Lemmas about Model/Path.v and Model/Fs.v (C07, C09). *)
From Trzsz Require Import Base.Bytes Model.Path Model.Fs.

(* ---------- equality tests ---------- *)
Lemma list_eqb_eq a : forall b, list_eqb a b = true <-> a = b.
Proof.
  induction a as [|x a IH]; intros [|y b]; cbn [list_eqb]; split; intro H; try congruence; try reflexivity.
  - apply andb_true_iff in H as [H1 H2]. apply N.eqb_eq in H1. apply IH in H2. congruence.
  - inversion H; subst. apply andb_true_iff; split. apply N.eqb_refl. apply IH; reflexivity.
Qed.

Lemma list_eqb_refl a : list_eqb a a = true.
Proof. apply list_eqb_eq; reflexivity. Qed.

Lemma list_eqb_neq a b : list_eqb a b = false <-> a <> b.
Proof.
  split; intro H.
  - intro E. apply list_eqb_eq in E. congruence.
  - destruct (list_eqb a b) eqn:E; [|reflexivity]. apply list_eqb_eq in E. contradiction.
Qed.

Lemma path_eqb_eq a : forall b, path_eqb a b = true <-> a = b.
Proof.
  induction a as [|x a IH]; intros [|y b]; cbn [path_eqb]; split; intro H; try congruence; try reflexivity.
  - apply andb_true_iff in H as [H1 H2]. apply list_eqb_eq in H1. apply IH in H2. congruence.
  - inversion H; subst. apply andb_true_iff; split. apply list_eqb_refl. apply IH; reflexivity.
Qed.

Lemma path_eqb_refl a : path_eqb a a = true.
Proof. apply path_eqb_eq; reflexivity. Qed.

Lemma path_eqb_neq a b : path_eqb a b = false <-> a <> b.
Proof.
  split; intro H.
  - intro E. apply path_eqb_eq in E. congruence.
  - destruct (path_eqb a b) eqn:E; [|reflexivity]. apply path_eqb_eq in E. contradiction.
Qed.

Lemma path_eq_dec (a b : path) : {a = b} + {a <> b}.
Proof.
  destruct (path_eqb a b) eqn:E; [left; apply path_eqb_eq; exact E | right; apply path_eqb_neq; exact E].
Qed.

(* ---------- prefixes ---------- *)
Lemma is_prefix_spec a : forall b, is_prefix a b = true <-> exists r, b = a ++ r.
Proof.
  induction a as [|x a IH]; intros b; cbn [is_prefix].
  - split; [intros _; exists b; reflexivity | reflexivity].
  - destruct b as [|y b].
    + split; [discriminate | intros [r Hr]; discriminate].
    + split.
      * intro H. apply andb_true_iff in H as [H1 H2]. apply list_eqb_eq in H1. apply IH in H2 as [r Hr].
        exists r. cbn. congruence.
      * intros [r Hr]. cbn in Hr. inversion Hr; subst. apply andb_true_iff; split.
        apply list_eqb_refl. apply IH. exists r; reflexivity.
Qed.

Lemma is_prefix_app a r : is_prefix a (a ++ r) = true.
Proof. apply is_prefix_spec. exists r; reflexivity. Qed.

Lemma inside_spec d p : inside d p = true <-> exists n r, p = d ++ n :: r.
Proof.
  unfold inside. rewrite andb_true_iff, is_prefix_spec, Nat.ltb_lt. split.
  - intros [[r Hr] Hl]. subst p. rewrite app_length in Hl. destruct r as [|n r]; [cbn in Hl; lia|].
    exists n, r; reflexivity.
  - intros (n & r & ->). split; [exists (n :: r); reflexivity|]. rewrite app_length; cbn; lia.
Qed.

(* two prefixes of one list are comparable *)
Lemma app_eq_app_le {A} (a : list A) : forall b c d, a ++ b = c ++ d -> (length a <= length c)%nat ->
  exists e, c = a ++ e /\ b = e ++ d.
Proof.
  induction a as [|x a IH]; intros b c d H Hl.
  - exists c. cbn in *. auto.
  - destruct c as [|y c]; [cbn in Hl; lia|]. cbn in H. inversion H; subst.
    destruct (IH b c d H2) as (e & -> & ->); [cbn in Hl; lia|]. exists e. auto.
Qed.

(* ---------- join on clean single elements ---------- *)
(* a single path element: what checkFileName lets through *)
Definition good (c : name) : Prop := c <> [] /\ c <> [dot] /\ c <> [dot; dot] /\ ~ In slash c.

Lemma split_slash_noslash s : ~ In slash s -> split_slash s = [s].
Proof.
  induction s as [|c s IH]; intro H; [reflexivity|]. cbn [split_slash].
  destruct (c =? slash) eqn:E.
  - apply N.eqb_eq in E. exfalso. apply H. left. auto.
  - rewrite IH; [reflexivity|]. intro Hin. apply H. right. exact Hin.
Qed.

Lemma step_comp_good acc c : good c -> step_comp acc c = acc ++ [c].
Proof.
  intros (H1 & H2 & H3 & _). unfold step_comp, is_dot, is_dotdot.
  destruct c as [|x c]; [congruence|]. cbn [is_empty orb].
  apply list_eqb_neq in H2. apply list_eqb_neq in H3. rewrite H2, H3. reflexivity.
Qed.

Lemma join_good : forall elems base, Forall good elems -> join base elems = base ++ elems.
Proof.
  unfold join. induction elems as [|c elems IH]; intros base H; cbn [flat_map fold_left].
  - rewrite app_nil_r; reflexivity.
  - inversion H as [|? ? Hc Hr]; subst. destruct Hc as (H1 & H2 & H3 & H4).
    rewrite (split_slash_noslash c H4). cbn [app fold_left].
    rewrite step_comp_good by (repeat split; assumption). rewrite IH by assumption.
    rewrite <- app_assoc. reflexivity.
Qed.

Lemma join_app_good base elems c : Forall good elems -> good c ->
  join (join base elems) [c] = join base (elems ++ [c]).
Proof.
  intros H Hc. rewrite !join_good; auto.
  - rewrite app_assoc; reflexivity.
  - apply Forall_app; auto.
Qed.

(* ---------- lookup ---------- *)
Lemma lookup_filter_neq f p q : lookup (filter (fun kv => negb (path_eqb (fst kv) p)) f) q =
  if path_eqb p q then None else lookup f q.
Proof.
  induction f as [|[k n] f IH]; cbn [filter lookup fst].
  - destruct (path_eqb p q); reflexivity.
  - destruct (path_eqb k p) eqn:E1; cbn [negb].
    + apply path_eqb_eq in E1; subst k. rewrite IH. destruct (path_eqb p q); reflexivity.
    + cbn [lookup]. rewrite IH. destruct (path_eqb k q) eqn:E2; [|reflexivity].
      apply path_eqb_eq in E2; subst k. destruct (path_eqb p q) eqn:E3; [|reflexivity].
      apply path_eqb_eq in E3; subst. rewrite path_eqb_refl in E1. discriminate.
Qed.

Lemma lookup_set f p n q : lookup (set f p n) q = if path_eqb p q then Some n else lookup f q.
Proof.
  unfold set. cbn [lookup]. destruct (path_eqb p q) eqn:E; [reflexivity|].
  rewrite lookup_filter_neq, E. reflexivity.
Qed.

Lemma lookup_set_other f p n q : q <> p -> lookup (set f p n) q = lookup f q.
Proof.
  intro H. rewrite lookup_set. destruct (path_eqb p q) eqn:E; [|reflexivity].
  apply path_eqb_eq in E. congruence.
Qed.

Lemma lookup_remove f p q : lookup (filter (fun kv => negb (is_prefix p (fst kv))) f) q =
  if is_prefix p q then None else lookup f q.
Proof.
  induction f as [|[k n] f IH]; cbn [filter lookup fst].
  - destruct (is_prefix p q); reflexivity.
  - destruct (is_prefix p k) eqn:E1; cbn [negb].
    + rewrite IH. destruct (is_prefix p q) eqn:E2; [reflexivity|].
      destruct (path_eqb k q) eqn:E3; [|reflexivity]. apply path_eqb_eq in E3; subst. congruence.
    + cbn [lookup]. rewrite IH. destruct (path_eqb k q) eqn:E3; [|reflexivity].
      apply path_eqb_eq in E3; subst. rewrite E1. reflexivity.
Qed.

(* ---------- frames: what an operation may change and log ---------- *)
Definition frame (P : path -> Prop) (f f' : fs) (es : list effect) : Prop :=
  (forall q, ~ P q -> lookup f' q = lookup f q) /\ (forall e, In e es -> P (effect_path e)).

Lemma frame_weaken (P Q : path -> Prop) f f' es : (forall q, P q -> Q q) -> frame P f f' es -> frame Q f f' es.
Proof. intros H [H1 H2]. split; [intros q Hq; apply H1; auto | intros e He; apply H; auto]. Qed.

Lemma open_create_frame f p t pl f' es : open_create f p t pl = Some (f', es) -> frame (eq p) f f' es.
Proof.
  unfold open_create. destruct p as [|c0 p0]; [discriminate|]. set (p := c0 :: p0).
  destruct (stat f (removelast p)) as [[|]| |]; try discriminate.
  destruct (has_nul (last p []) || (name_max <? name_len (last p []))); [discriminate|].
  destruct (lookup f p) as [[old|]|] eqn:E; intro H; inversion H; subst; clear H.
  - split; [intros q Hq; apply lookup_set_other; congruence|].
    intros e [<-|[]]. destruct t; reflexivity.
  - split; [intros q Hq; apply lookup_set_other; congruence|]. intros e [<-|[]]. reflexivity.
Qed.

Lemma open_create_present f p t pl f' es : open_create f p t pl = Some (f', es) -> lookup f' p <> None.
Proof.
  unfold open_create. destruct p as [|c0 p0]; [discriminate|]. set (p := c0 :: p0).
  destruct (stat f (removelast p)) as [[|]| |]; try discriminate.
  destruct (has_nul (last p []) || (name_max <? name_len (last p []))); [discriminate|].
  destruct (lookup f p) as [[old|]|] eqn:E; intro H; inversion H; subst; clear H;
    rewrite lookup_set, path_eqb_refl; discriminate.
Qed.

Lemma mk_down_frame : forall rest f pre ok f' es, mk_down f pre rest = (ok, f', es) ->
  frame (fun q => exists a b, a <> [] /\ rest = a ++ b /\ q = pre ++ a /\ lookup f q = None) f f' es.
Proof.
  induction rest as [|c rest IH]; intros f pre ok f' es H; cbn [mk_down] in H.
  - inversion H; subst. split; [reflexivity | intros e []].
  - destruct (has_nul c || (name_max <? name_len c)).
    { inversion H; subst. split; [reflexivity | intros e []]. }
    destruct (lookup f (pre ++ [c])) as [[old|]|] eqn:E.
    + inversion H; subst. split; [reflexivity | intros e []].
    + apply IH in H. eapply frame_weaken; [|exact H]. cbn beta.
      intros q (a & b & Ha & -> & -> & Hq). exists (c :: a), b. repeat split; try discriminate.
      * rewrite <- app_assoc. reflexivity.
      * exact Hq.
    + destruct (mk_down (set f (pre ++ [c]) Dir) (pre ++ [c]) rest) as [[ok1 f1] es1] eqn:E1.
      inversion H; subst; clear H. apply IH in E1. destruct E1 as [F1 F2].
      assert (Hfirst : exists a b, a <> [] /\ c :: rest = a ++ b /\ pre ++ [c] = pre ++ a /\ lookup f (pre ++ [c]) = None).
      { exists [c], rest. repeat split; try discriminate; auto. }
      split.
      * intros q Hq. destruct (path_eq_dec q (pre ++ [c])) as [->|Hne]; [contradiction|].
        rewrite F1, lookup_set_other; auto.
        intros (a & b & Ha & -> & -> & Hl). apply Hq. exists (c :: a), b.
        repeat split; try discriminate.
        -- rewrite <- app_assoc. reflexivity.
        -- rewrite lookup_set_other in Hl; auto.
      * intros e [<-|He]; [exact Hfirst|]. apply F2 in He. destruct He as (a & b & Ha & -> & Hp & Hl).
        exists (c :: a), b. repeat split; try discriminate.
        -- rewrite Hp, <- app_assoc. reflexivity.
        -- rewrite Hp in Hl |- *. rewrite lookup_set_other in Hl; [exact Hl|].
           rewrite <- app_assoc. cbn. intro Heq. apply (f_equal (@length name)) in Heq.
           rewrite !app_length in Heq. cbn in Heq. destruct a; [congruence|cbn in Heq; lia].
Qed.

Lemma remove_all_frame f p f' es : remove_all f p = (f', es) -> frame (fun q => is_prefix p q = true) f f' es.
Proof.
  unfold remove_all. intro H; inversion H; subst; clear H. split.
  - intros q Hq. rewrite lookup_remove. destruct (is_prefix p q); [contradiction Hq; reflexivity | reflexivity].
  - intros e He. apply in_map_iff in He as ([k n] & <- & Hin). apply filter_In in Hin as [_ Hp]. exact Hp.
Qed.

(* ---------- the destination is a chain of directories ---------- *)
Definition chain (f : fs) (d : path) : Prop := forall a b, d = a ++ b -> get f a = Some Dir.

Lemma walk_dir_chain : forall rest f pre, walk f pre rest = SFound Dir ->
  forall a b, rest = a ++ b -> get f (pre ++ a) = Some Dir.
Proof.
  induction rest as [|c rest IH]; intros f pre H a b Hab; cbn [walk] in H.
  - destruct a; [|discriminate]. rewrite app_nil_r. destruct (get f pre) as [[|]|]; congruence.
  - destruct (get f pre) as [[|]|] eqn:E; try discriminate.
    destruct (name_max <? name_len c); [discriminate|].
    destruct a as [|x a]; [rewrite app_nil_r; exact E|].
    cbn in Hab. inversion Hab; subst. specialize (IH f (pre ++ [x]) H a b eq_refl).
    rewrite <- app_assoc in IH. exact IH.
Qed.

Lemma stat_dir_chain f d : stat f d = SFound Dir -> chain f d.
Proof.
  unfold stat. destruct (bad_path d); [discriminate|]. intros H a b Hab.
  apply (walk_dir_chain d f [] H a b Hab).
Qed.

(* on a chain, the walk goes through (or stops with an error other than "not exist") *)
Lemma walk_chain_app : forall d f pre rest, (forall a b, d = a ++ b -> get f (pre ++ a) = Some Dir) ->
  walk f pre (d ++ rest) = SOther \/ walk f pre (d ++ rest) = walk f (pre ++ d) rest.
Proof.
  induction d as [|c d IH]; intros f pre rest H; [right; rewrite app_nil_r; reflexivity|].
  cbn [app walk]. specialize (H [] (c :: d) eq_refl) as H0. rewrite app_nil_r in H0. rewrite H0.
  destruct (name_max <? name_len c); [left; reflexivity|].
  destruct (IH f (pre ++ [c]) rest) as [E|E].
  - intros a b Hab. rewrite <- app_assoc. apply (H (c :: a) b). cbn. congruence.
  - left; exact E.
  - right. rewrite E, <- app_assoc. reflexivity.
Qed.

Lemma stat_notexist_lookup f d n : chain f d -> stat f (d ++ [n]) = SNotExist -> lookup f (d ++ [n]) = None.
Proof.
  intros Hc. unfold stat. destruct (bad_path (d ++ [n])); [discriminate|].
  destruct (walk_chain_app d f [] [n]) as [E|E]; [intros a b Hab; apply (Hc a b Hab) | rewrite E; discriminate |].
  rewrite E. cbn [app walk]. rewrite (Hc d [] (eq_sym (app_nil_r d))).
  destruct (name_max <? name_len n); [discriminate|].
  unfold get. destruct (d ++ [n]) as [|x0 p0] eqn:Ed; [destruct d; discriminate|].
  destruct (lookup f (x0 :: p0)); [discriminate | reflexivity].
Qed.

Lemma chain_frame (P : path -> Prop) f f' es d : chain f d -> frame P f f' es ->
  (forall a b, d = a ++ b -> ~ P a) -> chain f' d.
Proof.
  intros Hc [F _] HP a b Hab. specialize (Hc a b Hab). unfold get in *. destruct a as [|x a]; [reflexivity|].
  rewrite F; [exact Hc|]. apply (HP _ b Hab).
Qed.
