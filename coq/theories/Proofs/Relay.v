(* Proofs about the relay interleaving model (Model/Relay.v): the inductive invariant behind
   C13 and its corollaries; the skeleton pin; the refutation of the variant without the
   re-read under the lock. *)
From Trzsz Require Import Base.Bytes Base.Skel Gen.Consts Gen.Skel_relay Model.Relay.
Import List ListNotations.
Open Scope N_scope.

(* ---- tie to the source ---- *)
Lemma skel_matches : Skel_relay.relay_skel = Relay.expected_skel.
Proof. reflexivity. Qed.

Lemma status_codes_ok :
  status_code StS = 0 /\ status_code StH = 1 /\ status_code StT = 2.
Proof. repeat split; reflexivity. Qed.

(* ---- auxiliary control predicates ---- *)
Definition owner_eqb (a b : owner) : bool :=
  match a, b with
  | Free, Free | ByIn, ByIn | ByOut, ByOut | ByHs, ByHs | ByTl, ByTl => true
  | _, _ => false
  end.
Definition is_O5g (p : outpc) := match p with O5g _ _ => true | _ => false end.
Definition out_standby (p : outpc) := match p with O5 _ false | O4u _ false | O5h _ _ => true | _ => false end.
Definition hs_pastI (p : hspc) := match p with HP2 _ | HS2 _ _ | HD _ => true | _ => false end.
Definition hs_pastO (p : hspc) := match p with HD _ => true | _ => false end.
Definition in_direct (p : inpc) := match p with I4u _ _ | I5 _ _ => true | _ => false end.
Definition out_direct (p : outpc) :=
  match p with O4u _ _ | O5 _ _ | O5h _ _ | O5g _ _ | O5s _ _ => true | _ => false end.
Definition is_I4a (p : inpc) := match p with I4a _ => true | _ => false end.
Definition is_O4a (p : outpc) := match p with O4a _ => true | _ => false end.
Definition out_trg (p : outpc) :=
  match p with O5 _ true | O4u _ true | O5h _ _ | O5g _ _ | O6 => true | _ => false end.
Definition hs_alive (p : hspc) := match p with HN => false | _ => true end.

Record Inv (ci si : list byte) (s : state) : Prop := {
  (* conservation, both directions *)
  i_cI : inI_of (hI s) ++ hs_flI (hpc s) ++ flat (ibr s) (ibq s) ++ inflightI (ipc s) ++ concat (cin s) = ci;
  i_lI : outI_of (hI s) = slog s;
  i_cO : inO_of (hO s) ++ hs_flO (hpc s) ++ flat (obr s) (obq s) ++ inflightO (opc s) ++ concat (sin s) = si;
  i_lO : outO_of Std (hO s) = clog s;
  i_bO : outO_of Byp (hO s) = blog s;
  (* the lock is held by exactly the thread whose program point says so *)
  i_kI : owner_eqb (lk s) ByIn = in_holds (ipc s);
  i_kO : owner_eqb (lk s) ByOut = out_holds (opc s);
  i_kH : owner_eqb (lk s) ByHs = hs_holds (hpc s);
  i_kT : owner_eqb (lk s) ByTl = tlk s;
  (* handshaking exactly while a worker is alive (or about to be spawned), and only one *)
  i_w  : st s = StH <-> (hs_alive (hpc s) || is_O5g (opc s) = true);
  i_wx : hs_alive (hpc s) && is_O5g (opc s) = false;
  (* Out between a standby read and its status store: still standby, no worker *)
  i_os : out_standby (opc s) = true -> st s = StS /\ hpc s = HN;
  (* parked bytes only while handshaking and not yet flushed *)
  i_pI : flat (ibr s) (ibq s) <> [] -> st s = StH /\ hs_pastI (hpc s) = false;
  i_pO : flat (obr s) (obq s) <> [] -> st s = StH /\ hs_pastO (hpc s) = false;
  (* a chunk forwarded directly never overtakes parked bytes *)
  i_aI : in_direct (ipc s) = true -> flat (ibr s) (ibq s) = [] /\ hs_flI (hpc s) = [];
  i_aO : out_direct (opc s) = true -> flat (obr s) (obq s) = [] /\ hs_flO (hpc s) = [];
  (* handshaking read under the lock is still current when the chunk is parked *)
  i_rI : is_I4a (ipc s) = true -> st s = StH;
  i_rO : is_O4a (opc s) = true -> st s = StH;
  (* until the detector fires nothing but plain forwarding happens *)
  i_q  : trg s = false -> st s = StS /\ hpc s = HN /\ tlk s = false
                          /\ forallb is_passI (hI s) = true /\ forallb is_passO_std (hO s) = true;
  i_qo : out_trg (opc s) = true -> trg s = true;
}.

(* ---- list facts ---- *)
Lemma inI_app h e : inI_of (h ++ [e]) = inI_of h ++ evI_in e.
Proof. unfold inI_of. rewrite map_app, concat_app. cbn. rewrite app_nil_r. reflexivity. Qed.
Lemma outI_app h e : outI_of (h ++ [e]) = outI_of h ++ evI_out e.
Proof. unfold outI_of. rewrite map_app, concat_app. cbn. rewrite app_nil_r. reflexivity. Qed.
Lemma inO_app h e : inO_of (h ++ [e]) = inO_of h ++ evO_in e.
Proof. unfold inO_of. rewrite map_app, concat_app. cbn. rewrite app_nil_r. reflexivity. Qed.
Lemma outO_app d h e : outO_of d (h ++ [e]) = outO_of d h ++ evO_out d e.
Proof. unfold outO_of. rewrite map_app, concat_app. cbn. rewrite app_nil_r. reflexivity. Qed.

Lemma flat_snoc r q c : flat r (q ++ [c]) = flat r q ++ c.
Proof. unfold flat. rewrite concat_app. cbn. rewrite app_nil_r, app_assoc. reflexivity. Qed.

Lemma drop_parked_flat q : forall n r r' q',
  drop_parked n r q = (r', q') -> flat r' q' = skipn n (flat r q).
Proof.
  induction q as [|c q IH]; intros n r r' q' E; cbn [drop_parked] in E.
  - destruct (Nat.leb_spec n (length r)) as [L|L]; inversion E; subst; unfold flat; cbn [concat].
    + rewrite !app_nil_r. reflexivity.
    + rewrite !app_nil_r. rewrite skipn_all2 by lia. reflexivity.
  - destruct (Nat.leb_spec n (length r)) as [L|L].
    + inversion E; subst. unfold flat. rewrite (skipn_app n r).
      replace (n - length r)%nat with 0%nat by lia. reflexivity.
    + apply IH in E. rewrite E. unfold flat. cbn [concat]. rewrite (skipn_app n r).
      rewrite (skipn_all2 r) by lia. reflexivity.
Qed.

Lemma eat_split n r q r' q' :
  drop_parked n r q = (r', q') -> firstn n (flat r q) ++ flat r' q' = flat r q.
Proof. intro E. rewrite (drop_parked_flat _ _ _ _ _ E). apply firstn_skipn. Qed.

Lemma eat_nil n r q r' q' : drop_parked n r q = (r', q') -> flat r q = [] -> flat r' q' = [].
Proof. intros E Z. rewrite (drop_parked_flat _ _ _ _ _ E), Z. destruct n; reflexivity. Qed.

Lemma pop_some r q b r' q' : pop_buf r q = (Some b, r', q') -> b ++ flat r' q' = flat r q.
Proof.
  unfold pop_buf, flat. destruct r as [|x r].
  - destruct q as [|c q]; intro E; inversion E; subst. reflexivity.
  - intro E; inversion E; subst. cbn. rewrite ?app_nil_r. reflexivity.
Qed.
Lemma pop_none r q r' q' : pop_buf r q = (None, r', q') -> flat r q = [] /\ flat r' q' = [].
Proof.
  unfold pop_buf, flat. destruct r as [|x r].
  - destruct q as [|c q]; intro E; inversion E; subst. split; reflexivity.
  - intro E; inversion E.
Qed.

Lemma nil_dec (l : list byte) : l = [] \/ l <> [].
Proof. destruct l; [left; reflexivity | right; discriminate]. Qed.

Lemma owner_eqb_true a b : owner_eqb a b = true -> a = b.
Proof. destruct a, b; cbn; congruence. Qed.

Lemma forallb_snoc {A} (f : A -> bool) l x : forallb f (l ++ [x]) = forallb f l && f x.
Proof. rewrite forallb_app. cbn. rewrite andb_true_r. reflexivity. Qed.

(* ---- the invariant is inductive: one lemma per label ---- *)
Ltac sp := cbn [st lk cin sin ibr ibq obr obq slog clog blog ipc opc hpc tlk hI hO trg
   set_st set_lk set_cin set_sin set_ib set_ob set_slog set_clog set_blog set_ipc set_opc set_hpc set_tl set_hI set_hO set_trg
   send_srv send_cli cas_t_s bdev after_load_in after_reload_in after_load_out after_reload_out
   inflightI inflightO hs_flI hs_flO in_holds out_holds hs_holds is_O5g out_standby hs_pastI hs_pastO
   in_direct out_direct is_I4a is_O4a out_trg hs_alive
   owner_eqb evI_in evI_out evO_in evO_out dev_eqb is_passI is_passO_std andb orb concat app] in *.

Ltac start I :=
  destruct I as [HcI HlI HcO HlO HbO HkI HkO HkH HkT Hw Hwx Hos HpI HpO HaI HaO HrI HrO Hq Hqo].

Ltac lists := rewrite ?inI_app, ?outI_app, ?inO_app, ?outO_app, ?flat_snoc, ?forallb_snoc; sp;
  rewrite <- ?app_assoc, ?app_nil_r, ?andb_true_r; sp.

Ltac fin :=
  try solve [ assumption | reflexivity | discriminate | congruence | tauto
            | intros; discriminate | intros; congruence
            | lists; congruence | lists; assumption ].

Section S.
Variables (ci si : list byte) (tm : bool).


Ltac open_step E :=
  unfold step_fn in E; cbv beta iota in E;
  repeat match type of E with
  | context [match ipc ?s with _ => _ end] => let Ei := fresh "Ei" in destruct (ipc s) eqn:Ei; try discriminate E
  | context [match opc ?s with _ => _ end] => let Eo := fresh "Eo" in destruct (opc s) eqn:Eo; try discriminate E
  | context [match hpc ?s with _ => _ end] => let Eh := fresh "Eh" in destruct (hpc s) eqn:Eh; try discriminate E
  | context [match cin ?s with _ => _ end] => let Ec := fresh "Ec" in destruct (cin s) eqn:Ec; try discriminate E
  | context [match sin ?s with _ => _ end] => let Ec := fresh "Ec" in destruct (sin s) eqn:Ec; try discriminate E
  | context [match lk ?s with _ => _ end] => let El := fresh "El" in destruct (lk s) eqn:El; try discriminate E
  | context [if tlk ?s then _ else _] => let El := fresh "Et" in destruct (tlk s) eqn:Et; try discriminate E
  | context [match ?t with true => _ | false => _ end] => is_var t; destruct t; try discriminate E
  | context [drop_parked ?n ?r ?q] => let Ed := fresh "Ed" in destruct (drop_parked n r q) as [r' q'] eqn:Ed
  | context [pop_buf ?r ?q] => let Ep := fresh "Ep" in destruct (pop_buf r q) as [[[b|] r'] q'] eqn:Ep
  end;
  injection E as <-.

Ltac rw :=
  repeat match goal with
  | E : ipc ?s = _ |- _ => rewrite E in *; clear E
  | E : opc ?s = _ |- _ => rewrite E in *; clear E
  | E : hpc ?s = _ |- _ => rewrite E in *; clear E
  | E : cin ?s = _ |- _ => rewrite E in *; clear E
  | E : sin ?s = _ |- _ => rewrite E in *; clear E
  | E : lk ?s = _ |- _ => rewrite E in *; clear E
  | E : tlk ?s = _ |- _ => rewrite E in *; clear E
  | E : st ?s = _ |- _ => rewrite E in *; clear E
  | E : trg ?s = _ |- _ => rewrite E in *; clear E
  end.

Lemma p_InRead s s' : Inv ci si s -> step_fn true tm LInRead s = Some s' -> Inv ci si s'.
Proof. intros I E; start I. open_step E. constructor; sp; rw; sp; fin. Qed.


Lemma flat_nil_st (f : list byte) x P : (f <> [] -> x = StH /\ P) -> x <> StH -> f = [].
Proof. intros H N. destruct (nil_dec f) as [E|E]; [exact E|]. destruct (H E). contradiction. Qed.
Lemma flat_nil_past (f : list byte) (x : status) b : (f <> [] -> x = StH /\ b = false) -> b = true -> f = [].
Proof. intros H N. destruct (nil_dec f) as [E|E]; [exact E|]. destruct (H E). congruence. Qed.
Lemma not_h_hn x p g : (x = StH <-> hs_alive p || g = true) -> x <> StH -> p = HN.
Proof. intros H N. destruct p; try reflexivity; exfalso; apply N, H; reflexivity. Qed.
Lemma alive_h x p g : (x = StH <-> hs_alive p || g = true) -> hs_alive p = true -> x = StH.
Proof. intros H N. apply H. rewrite N. reflexivity. Qed.

(* facts available when the status is known not to be handshaking *)
Ltac prep s :=
  match goal with
  | HpI : flat (ibr s) (ibq s) <> [] -> _, HpO : flat (obr s) (obq s) <> [] -> _,
    Hw : st s = StH <-> _ |- _ =>
    pose proof (flat_nil_st _ _ _ HpI) as ZI; pose proof (flat_nil_st _ _ _ HpO) as ZO;
    pose proof (not_h_hn _ _ _ Hw) as ZH
  end.
Ltac nonH :=
  repeat match goal with
  | H : ?a <> StH -> _ |- _ => first [specialize (H ltac:(discriminate)) | clear H]
  end.

Lemma p_InLoad s s' : Inv ci si s -> step_fn true tm LInLoad s = Some s' -> Inv ci si s'.
Proof. intros I E; start I. open_step E. prep s. destruct (st s) eqn:Es; nonH; constructor; sp; rw; sp; fin.
  all: try solve [intros _; rewrite ZI; auto].
Qed.

Lemma p_InLock s s' : Inv ci si s -> step_fn true tm LInLock s = Some s' -> Inv ci si s'.
Proof. intros I E; start I. open_step E. constructor; sp; rw; sp; fin. Qed.

Lemma p_InReload s s' : Inv ci si s -> step_fn true tm LInReload s = Some s' -> Inv ci si s'.
Proof. intros I E; start I. open_step E. prep s. destruct (st s) eqn:Es; nonH; constructor; sp; rw; sp; fin.
  all: try solve [intros _; rewrite ZI; auto].
Qed.


Ltac lockx s := destruct (lk s); sp; try discriminate.

Lemma p_InAdd s s' : Inv ci si s -> step_fn true tm LInAdd s = Some s' -> Inv ci si s'.
Proof. intros I E; start I. open_step E. sp. pose proof (HrI eq_refl) as Hst.
  constructor; sp; rw; sp; fin.
  intros _; split; [reflexivity|]. lockx s. destruct (hpc s); try discriminate; reflexivity.
Qed.


Ltac quiet Hq :=
  let Q := fresh "Q" in intro Q; destruct (Hq Q) as (Q1&Q2&Q3&Q4&Q5);
  try (rewrite Q2 in *; discriminate); try discriminate;
  repeat split; fin; lists; fin.

Lemma p_InUnlockP s s' : Inv ci si s -> step_fn true tm LInUnlockP s = Some s' -> Inv ci si s'.
Proof. intros I E; start I. open_step E. sp. lockx s. constructor; sp; rw; sp; fin. Qed.

Lemma p_InUnlockU s s' : Inv ci si s -> step_fn true tm LInUnlockU s = Some s' -> Inv ci si s'.
Proof. intros I E; start I. open_step E. sp. lockx s. constructor; sp; rw; sp; fin. Qed.

Lemma p_InSend s s' : Inv ci si s -> step_fn true tm LInSend s = Some s' -> Inv ci si s'.
Proof. intros I E; start I. open_step E. sp. destruct (HaI eq_refl) as [ZI ZF].
  constructor; sp; rw; sp; fin.
  all: try solve [lists; rewrite ZI, ZF in *; sp; exact HcI].
  all: try solve [quiet Hq].
Qed.


Ltac stfix Hw HrI HrO :=
  let X := fresh "X" in
  try solve [ split; intro X; [discriminate | apply Hw in X; discriminate]
            | intro X; apply HrO in X; discriminate
            | intro X; apply HrI in X; discriminate ].

Lemma p_InEnd cas s s' : Inv ci si s -> step_fn true tm (LInEnd cas) s = Some s' -> Inv ci si s'.
Proof. intros I E; start I. open_step E. prep s.
  destruct t, cas; sp; unfold cas_t_s; try (destruct (st s) eqn:Es; nonH); constructor; sp; rw; sp; fin.
  all: stfix Hw HrI HrO.
Qed.


Ltac trgT Hq :=
  intros _; match goal with |- trg ?s = true =>
    let Et := fresh "Et" in destruct (trg s) eqn:Et; [reflexivity | destruct (Hq eq_refl) as (Q1&Q2&_); discriminate] end.

Lemma p_OutRead s s' : Inv ci si s -> step_fn true tm LOutRead s = Some s' -> Inv ci si s'.
Proof. intros I E; start I. open_step E. constructor; sp; rw; sp; fin. Qed.

Lemma p_OutLoad s s' : Inv ci si s -> step_fn true tm LOutLoad s = Some s' -> Inv ci si s'.
Proof. intros I E; start I. open_step E. prep s. destruct (st s) eqn:Es; nonH; constructor; sp; rw; sp; fin.
  all: try solve [intros _; rewrite ZO; auto].
  all: try solve [trgT Hq].
Qed.

Lemma p_OutLock s s' : Inv ci si s -> step_fn true tm LOutLock s = Some s' -> Inv ci si s'.
Proof. intros I E; start I. open_step E. constructor; sp; rw; sp; fin. Qed.

Lemma p_OutReload s s' : Inv ci si s -> step_fn true tm LOutReload s = Some s' -> Inv ci si s'.
Proof. intros I E; start I. open_step E. prep s. destruct (st s) eqn:Es; nonH; constructor; sp; rw; sp; fin.
  all: try solve [intros _; rewrite ZO; auto].
  all: try solve [trgT Hq].
Qed.

Lemma p_OutAdd s s' : Inv ci si s -> step_fn true tm LOutAdd s = Some s' -> Inv ci si s'.
Proof. intros I E; start I. open_step E. sp. pose proof (HrO eq_refl) as Hst.
  constructor; sp; rw; sp; fin.
  intros _; split; [reflexivity|]. lockx s. destruct (hpc s); try discriminate; reflexivity.
Qed.

Lemma p_OutUnlockP s s' : Inv ci si s -> step_fn true tm LOutUnlockP s = Some s' -> Inv ci si s'.
Proof. intros I E; start I. open_step E. sp. lockx s. constructor; sp; rw; sp; fin. Qed.

Lemma p_OutUnlockU s s' : Inv ci si s -> step_fn true tm LOutUnlockU s = Some s' -> Inv ci si s'.
Proof. intros I E; start I. open_step E. sp. lockx s. constructor; sp; rw; sp; fin. Qed.

Lemma p_OutBypass s s' : Inv ci si s -> step_fn true tm LOutBypass s = Some s' -> Inv ci si s'.
Proof. intros I E; start I. open_step E. sp. destruct (HaO eq_refl) as [ZO ZF]. pose proof (Hqo eq_refl) as Ht.
  destruct tm; constructor; sp; rw; sp; fin.
  all: try solve [lists; rewrite ZO, ZF in *; sp; exact HcO].
Qed.

Lemma p_OutDetect c' trig s s' : Inv ci si s -> step_fn true tm (LOutDetect c' trig) s = Some s' -> Inv ci si s'.
Proof. intros I E; start I. open_step E. sp. destruct (HaO eq_refl) as [ZO ZF]. destruct (Hos eq_refl) as [Hst Hhn].
  all: constructor; sp; rw; sp; fin.
Qed.

Lemma p_OutStoreH s s' : Inv ci si s -> step_fn true tm LOutStoreH s = Some s' -> Inv ci si s'.
Proof. intros I E; start I. open_step E. sp. destruct (HaO eq_refl) as [ZO ZF]. destruct (Hos eq_refl) as [Hst Hhn].
  pose proof (Hqo eq_refl) as Ht.
  constructor; sp; rw; sp; fin.
Qed.

Lemma p_OutGo s s' : Inv ci si s -> step_fn true tm LOutGo s = Some s' -> Inv ci si s'.
Proof. intros I E; start I. open_step E. sp. destruct (HaO eq_refl) as [ZO ZF].
  pose proof (Hqo eq_refl) as Ht.
  assert (Hhn : hpc s = HN) by (destruct (hpc s); sp; try discriminate; reflexivity).
  assert (Hst : st s = StH) by (apply Hw; rewrite orb_true_r; reflexivity).
  rewrite Hhn in *. sp.
  constructor; sp; rw; sp; fin.
Qed.

Lemma p_OutSend s s' : Inv ci si s -> step_fn true tm LOutSend s = Some s' -> Inv ci si s'.
Proof. intros I E; start I. open_step E. sp. destruct (HaO eq_refl) as [ZO ZF].
  constructor; sp; rw; sp; fin.
  all: try solve [lists; rewrite ZO, ZF in *; sp; exact HcO].
  all: try solve [quiet Hq].
Qed.

Lemma p_OutEnd cas s s' : Inv ci si s -> step_fn true tm (LOutEnd cas) s = Some s' -> Inv ci si s'.
Proof. intros I E; start I. open_step E. prep s. pose proof (Hqo eq_refl) as Ht.
  all: sp; unfold cas_t_s; try (destruct (st s) eqn:Es; nonH); constructor; sp; rw; sp; fin.
  all: stfix Hw HrI HrO.
Qed.

(* a worker is alive: the status is handshaking and the detector has fired *)
Ltac alive s Hw Hq :=
  assert (Hst : st s = StH) by (apply Hw; reflexivity);
  assert (Ht : trg s = true) by
    (let Et := fresh "Et" in destruct (trg s) eqn:Et; [reflexivity | destruct (Hq eq_refl) as (_&Q2&_); discriminate]).


Ltac osfix Hos := try solve [let X := fresh "X" in intro X; destruct (Hos X); discriminate].

Lemma p_HsAct n r s s' : Inv ci si s -> step_fn true tm (LHsAct n r) s = Some s' -> Inv ci si s'.
Proof. intros I E; start I. open_step E. sp. alive s Hw Hq.
  pose proof (eat_split _ _ _ _ _ Ed) as Hsp. pose proof (eat_nil _ _ _ _ _ Ed) as Hnil.
  destruct r; constructor; sp; rw; sp; fin; osfix Hos.
  all: try solve [lists; rewrite <- Hsp in HcI; rewrite <- ?app_assoc in HcI; exact HcI].
  all: try solve [intros _; split; reflexivity].
  all: try solve [let X := fresh "X" in intro X; destruct (HaI X) as [Z1 Z2]; split; [apply Hnil; exact Z1| reflexivity]].
Qed.

Lemma p_HsSendAct l cf s s' : Inv ci si s -> step_fn true tm (LHsSendAct l cf) s = Some s' -> Inv ci si s'.
Proof. intros I E; start I. open_step E. all: sp. all: alive s Hw Hq. all: constructor; sp; rw; sp; fin; osfix Hos.
Qed.

Lemma p_HsCfg n r s s' : Inv ci si s -> step_fn true tm (LHsCfg n r) s = Some s' -> Inv ci si s'.
Proof. intros I E; start I. open_step E. sp. alive s Hw Hq.
  pose proof (eat_split _ _ _ _ _ Ed) as Hsp. pose proof (eat_nil _ _ _ _ _ Ed) as Hnil.
  destruct r; constructor; sp; rw; sp; fin; osfix Hos.
  all: try solve [lists; rewrite <- Hsp in HcO; rewrite <- ?app_assoc in HcO; exact HcO].
  all: try solve [intros _; split; reflexivity].
  all: try solve [let X := fresh "X" in intro X; destruct (HaO X) as [Z1 Z2]; split; [apply Hnil; exact Z1| reflexivity]].
Qed.

Lemma p_HsSendCfg l s s' : Inv ci si s -> step_fn true tm (LHsSendCfg l) s = Some s' -> Inv ci si s'.
Proof. intros I E; start I. open_step E. all: sp. all: alive s Hw Hq. all: destruct tm; constructor; sp; rw; sp; fin; osfix Hos.
Qed.

Lemma p_HsFail1 l s s' : Inv ci si s -> step_fn true tm (LHsFail1 l) s = Some s' -> Inv ci si s'.
Proof. intros I E; start I. open_step E. all: sp. all: alive s Hw Hq. all: destruct tm; constructor; sp; rw; sp; fin; osfix Hos.
Qed.

Lemma p_HsFail2 l s s' : Inv ci si s -> step_fn true tm (LHsFail2 l) s = Some s' -> Inv ci si s'.
Proof. intros I E; start I. open_step E. all: sp. all: alive s Hw Hq. all: constructor; sp; rw; sp; fin; osfix Hos.
Qed.

Lemma p_HsLock s s' : Inv ci si s -> step_fn true tm LHsLock s = Some s' -> Inv ci si s'.
Proof. intros I E; start I. open_step E. all: sp. all: alive s Hw Hq. all: constructor; sp; rw; sp; fin; osfix Hos.
Qed.

Lemma p_HsPopI s s' : Inv ci si s -> step_fn true tm LHsPopI s = Some s' -> Inv ci si s'.
Proof. intros I E; start I. open_step E. all: sp. all: alive s Hw Hq.
  - pose proof (pop_some _ _ _ _ _ Ep) as Hsp.
    constructor; sp; rw; sp; fin; osfix Hos.
    all: try solve [rewrite <- Hsp in HcI; rewrite <- ?app_assoc in HcI; exact HcI].
    all: try solve [intros _; split; reflexivity].
    all: try solve [let X := fresh "X" in intro X; destruct (HaI X) as [Z1 Z2]; rewrite Z1 in Hsp;
                    apply app_eq_nil in Hsp; tauto].
  - destruct (pop_none _ _ _ _ Ep) as [Z Z'].
    constructor; sp; rw; sp; fin; osfix Hos.
    all: try solve [rewrite Z in HcI; rewrite Z'; exact HcI].
    all: try solve [intros X; contradiction].
    all: try solve [intros _; split; [exact Z'|reflexivity]].
Qed.

Lemma p_HsSendI s s' : Inv ci si s -> step_fn true tm LHsSendI s = Some s' -> Inv ci si s'.
Proof. intros I E; start I. open_step E. all: sp. all: alive s Hw Hq. all: constructor; sp; rw; sp; fin; osfix Hos.
  all: try solve [let X := fresh "X" in intro X; destruct (HaI X) as [Z1 Z2]; split; [exact Z1| reflexivity]].
Qed.

Lemma p_HsPopO s s' : Inv ci si s -> step_fn true tm LHsPopO s = Some s' -> Inv ci si s'.
Proof. intros I E; start I. open_step E. all: sp. all: alive s Hw Hq.
  - pose proof (pop_some _ _ _ _ _ Ep) as Hsp.
    constructor; sp; rw; sp; fin; osfix Hos.
    all: try solve [rewrite <- Hsp in HcO; rewrite <- ?app_assoc in HcO; exact HcO].
    all: try solve [intros _; split; reflexivity].
    all: try solve [let X := fresh "X" in intro X; destruct (HaO X) as [Z1 Z2]; rewrite Z1 in Hsp;
                    apply app_eq_nil in Hsp; tauto].
  - destruct (pop_none _ _ _ _ Ep) as [Z Z'].
    constructor; sp; rw; sp; fin; osfix Hos.
    all: try solve [rewrite Z in HcO; rewrite Z'; exact HcO].
    all: try solve [intros X; contradiction].
    all: try solve [intros _; split; [exact Z'|reflexivity]].
Qed.

Lemma p_HsSendO s s' : Inv ci si s -> step_fn true tm LHsSendO s = Some s' -> Inv ci si s'.
Proof. intros I E; start I. open_step E. all: sp. all: alive s Hw Hq. all: destruct tm; constructor; sp; rw; sp; fin; osfix Hos.
  all: try solve [let X := fresh "X" in intro X; destruct (HaO X) as [Z1 Z2]; split; [exact Z1| reflexivity]].
Qed.

Lemma p_HsDone s s' : Inv ci si s -> step_fn true tm LHsDone s = Some s' -> Inv ci si s'.
Proof. intros I E; start I. open_step E. all: sp. all: alive s Hw Hq.
  all: pose proof (flat_nil_past _ _ _ HpI eq_refl) as ZI; pose proof (flat_nil_past _ _ _ HpO eq_refl) as ZO.
  all: rewrite ?Hst; lockx s.
  all: constructor; sp; rw; sp; fin; osfix Hos.
  all: try solve [split; [discriminate | let X := fresh "X" in intro X; rewrite X in Hwx; discriminate]].
  all: try solve [destruct (ipc s); sp; discriminate].
  all: try solve [destruct (opc s); sp; discriminate].
Qed.

Lemma p_TlUnlock s s' : Inv ci si s -> step_fn true tm LTlUnlock s = Some s' -> Inv ci si s'.
Proof. intros I E; start I. open_step E. all: sp. lockx s.
  all: constructor; sp; rw; sp; fin; osfix Hos.
Qed.

Theorem step_inv l s s' : Inv ci si s -> step_fn true tm l s = Some s' -> Inv ci si s'.
Proof.
  destruct l.
  - apply p_InRead. - apply p_InLoad. - apply p_InLock. - apply p_InReload. - apply p_InAdd.
  - apply p_InUnlockP. - apply p_InUnlockU. - apply p_InSend. - apply p_InEnd.
  - apply p_OutRead. - apply p_OutLoad. - apply p_OutLock. - apply p_OutReload. - apply p_OutAdd.
  - apply p_OutUnlockP. - apply p_OutUnlockU. - apply p_OutBypass. - apply p_OutDetect.
  - apply p_OutStoreH. - apply p_OutGo. - apply p_OutSend. - apply p_OutEnd.
  - apply p_HsAct. - apply p_HsSendAct. - apply p_HsCfg. - apply p_HsSendCfg. - apply p_HsFail1.
  - apply p_HsFail2. - apply p_HsLock. - apply p_HsPopI. - apply p_HsSendI. - apply p_HsPopO.
  - apply p_HsSendO. - apply p_HsDone. - apply p_TlUnlock.
Qed.
End S.

(* ---- every reachable state ---- *)
Lemma init_inv cs ss : Inv (concat cs) (concat ss) (init cs ss).
Proof.
  constructor; cbn; try reflexivity; try tauto; try discriminate.
  all: try solve [split; discriminate].
  all: try solve [intros _; repeat split; reflexivity].
Qed.

Theorem reach_inv tm cs ss s : reach tm (init cs ss) s -> Inv (concat cs) (concat ss) s.
Proof.
  induction 1 as [|s s' l R IH E]; [apply init_inv|]. eapply step_inv; eassumption.
Qed.

Theorem relay_conserved tm cs ss s : reach tm (init cs ss) s ->
  conserved_I (concat cs) s /\ conserved_O (concat ss) s.
Proof. intro R. destruct (reach_inv _ _ _ _ R). repeat split; assumption. Qed.

(* the four auxiliary facts, in readable form *)
Definition lock_discipline (s : state) : Prop :=
  (lk s = ByIn <-> in_holds (ipc s) = true) /\ (lk s = ByOut <-> out_holds (opc s) = true) /\
  (lk s = ByHs <-> hs_holds (hpc s) = true) /\ (lk s = ByTl <-> tlk s = true).
Definition handshaking_iff_worker (s : state) : Prop :=
  (st s = StH <-> (hpc s <> HN \/ exists c c', opc s = O5g c c')) /\
  ~ (hpc s <> HN /\ exists c c', opc s = O5g c c').
Definition parked_only_while_handshaking (s : state) : Prop :=
  (flat (ibr s) (ibq s) <> [] -> st s = StH /\ hs_pastI (hpc s) = false) /\
  (flat (obr s) (obq s) <> [] -> st s = StH /\ hs_pastO (hpc s) = false).
Definition status_read_still_current (s : state) : Prop :=
  (forall c, ipc s = I4a c -> st s = StH) /\ (forall c, opc s = O4a c -> st s = StH) /\
  (forall c t, ipc s = I4u c t \/ ipc s = I5 c t -> flat (ibr s) (ibq s) = [] /\ hs_flI (hpc s) = []) /\
  (in_direct (ipc s) = true -> flat (ibr s) (ibq s) = [] /\ hs_flI (hpc s) = []) /\
  (out_direct (opc s) = true -> flat (obr s) (obq s) = [] /\ hs_flO (hpc s) = []).

Lemma owner_eqb_iff a b : owner_eqb a b = true <-> a = b.
Proof. split; [apply owner_eqb_true|]. intros ->. destruct b; reflexivity. Qed.

Theorem relay_aux tm cs ss s : reach tm (init cs ss) s ->
  lock_discipline s /\ handshaking_iff_worker s /\ parked_only_while_handshaking s /\ status_read_still_current s.
Proof.
  intro R. destruct (reach_inv _ _ _ _ R) as [HcI HlI HcO HlO HbO HkI HkO HkH HkT Hw Hwx Hos HpI HpO HaI HaO HrI HrO Hq Hqo].
  split; [|split; [|split]].
  - unfold lock_discipline. rewrite <- HkI, <- HkO, <- HkH, <- HkT.
    repeat split; intro X; try (apply owner_eqb_iff; exact X); apply owner_eqb_iff in X; exact X.
  - split.
    + rewrite Hw. split.
      * intro X. apply orb_true_iff in X. destruct X as [X|X].
        -- left. intro Z. rewrite Z in X. discriminate.
        -- right. destruct (opc s); try discriminate. eauto.
      * intros [X|(c & c' & X)]; apply orb_true_iff.
        -- left. destruct (hpc s); try reflexivity. contradiction.
        -- right. rewrite X. reflexivity.
    + intros [X (c & c' & Y)]. rewrite Y in Hwx. destruct (hpc s); try discriminate. contradiction.
  - split; assumption.
  - repeat split.
    + intros c X. apply HrI. rewrite X. reflexivity.
    + intros c X. apply HrO. rewrite X. reflexivity.
    + destruct H as [X|X]; apply HaI; rewrite X; reflexivity.
    + destruct H as [X|X]; apply HaI; rewrite X; reflexivity.
    + apply HaI; assumption.
    + apply HaI; assumption.
    + apply HaO; assumption.
    + apply HaO; assumption.
Qed.

(* ---- order ---- *)
Lemma subseq_refl {A} (l : list A) : subseq l l.
Proof. induction l; constructor; assumption. Qed.
Lemma subseq_app {A} (a b c d : list A) : subseq a b -> subseq c d -> subseq (a ++ c) (b ++ d).
Proof. induction 1; cbn; intros; try constructor; auto. Qed.
Lemma subseq_nil {A} (l : list A) : subseq [] l.
Proof. induction l; constructor; assumption. Qed.
Lemma subseq_app_r {A} (a b c : list A) : subseq a b -> subseq a (b ++ c).
Proof. intro H. rewrite <- (app_nil_r a). apply subseq_app; [assumption|apply subseq_nil]. Qed.

Lemma passedI_in h : subseq (passedI h) (inI_of h).
Proof.
  induction h as [|e h IH]; [constructor|]. unfold passedI, inI_of in *. cbn [map concat].
  apply subseq_app; [|exact IH]. destruct e; cbn; [apply subseq_refl|apply subseq_nil|constructor].
Qed.
Lemma passedI_out h : subseq (passedI h) (outI_of h).
Proof.
  induction h as [|e h IH]; [constructor|]. unfold passedI, outI_of in *. cbn [map concat].
  apply subseq_app; [|exact IH]. destruct e; cbn; [apply subseq_refl|constructor|apply subseq_nil].
Qed.

Theorem relay_order tm cs ss s : reach tm (init cs ss) s ->
  subseq (passedI (hI s)) (concat cs) /\ subseq (passedI (hI s)) (slog s).
Proof.
  intro R. destruct (reach_inv _ _ _ _ R) as [HcI HlI _ _ _ _ _ _ _ _ _ _ _ _ _ _ _ _ _ _].
  split.
  - rewrite <- HcI. apply subseq_app_r. apply passedI_in.
  - rewrite <- HlI. apply passedI_out.
Qed.

(* ---- nothing crosses sides ---- *)
Lemma outI_all (P : byte -> Prop) h : Forall P (inI_of h) -> Forall (insI_all P) h -> Forall P (outI_of h).
Proof.
  induction h as [|e h IH]; intros Hi Hn; [constructor|].
  unfold inI_of, outI_of in *. cbn [map concat] in *. apply Forall_app in Hi. destruct Hi as [H1 H2].
  inversion Hn; subst. apply Forall_app. split; [|apply IH; assumption].
  destruct e; cbn in *; auto.
Qed.
Lemma outO_all_log (P : byte -> Prop) d h : Forall (outO_all P) h -> Forall P (outO_of d h).
Proof.
  induction h as [|e h IH]; intros Hn; [constructor|]. inversion Hn; subst.
  unfold outO_of in *. cbn [map concat]. apply Forall_app. split; [|apply IH; assumption].
  destruct e; cbn in *; try destruct (dev_eqb d d0); auto.
Qed.

Theorem relay_no_cross tm cs ss s (P : byte -> Prop) : reach tm (init cs ss) s ->
  (Forall P (concat cs) -> Forall (insI_all P) (hI s) -> Forall P (slog s)) /\
  (Forall (outO_all P) (hO s) -> Forall P (clog s) /\ Forall P (blog s)).
Proof.
  intro R. destruct (reach_inv _ _ _ _ R) as [HcI HlI HcO HlO HbO _ _ _ _ _ _ _ _ _ _ _ _ _ _ _].
  split.
  - intros Hc Hn. rewrite <- HlI. apply outI_all; [|assumption].
    rewrite <- HcI in Hc. apply Forall_app in Hc. tauto.
  - intro Hn. rewrite <- HlO, <- HbO. split; apply outO_all_log; assumption.
Qed.

(* ---- standby is the identity ---- *)
Lemma all_pass_I h : forallb is_passI h = true -> outI_of h = inI_of h.
Proof.
  induction h as [|e h IH]; [reflexivity|]. cbn [forallb]. intro H. apply andb_true_iff in H. destruct H as [H1 H2].
  unfold outI_of, inI_of in *. cbn [map concat]. rewrite IH by assumption. destruct e; try discriminate. reflexivity.
Qed.
Lemma all_pass_O h : forallb is_passO_std h = true -> Forall passO_same h ->
  outO_of Std h = inO_of h /\ outO_of Byp h = [].
Proof.
  induction h as [|e h IH]; [split; reflexivity|]. cbn [forallb]. intros H F. apply andb_true_iff in H. destruct H as [H1 H2].
  inversion F; subst. destruct (IH H2) as [A B]; [assumption|].
  unfold outO_of, inO_of in *. cbn [map concat]. rewrite A, B.
  destruct e as [d c c'| |]; try discriminate. destruct d; try discriminate. cbn in *. subst. split; reflexivity.
Qed.

Theorem relay_standby_identity tm cs ss s : reach tm (init cs ss) s -> trg s = false ->
  slog s ++ inflightI (ipc s) ++ concat (cin s) = concat cs /\
  (Forall passO_same (hO s) ->
   clog s ++ inflightO (opc s) ++ concat (sin s) = concat ss /\ blog s = []).
Proof.
  intros R Q. destruct (reach_inv _ _ _ _ R) as [HcI HlI HcO HlO HbO HkI HkO HkH HkT Hw Hwx Hos HpI HpO HaI HaO HrI HrO Hq Hqo].
  destruct (Hq Q) as (Q1 & Q2 & Q3 & Q4 & Q5).
  assert (Hn : st s <> StH) by congruence.
  pose proof (flat_nil_st _ _ _ HpI Hn) as ZI. pose proof (flat_nil_st _ _ _ HpO Hn) as ZO.
  rewrite Q2, ZI in HcI. rewrite Q2, ZO in HcO. cbn [hs_flI hs_flO app] in *.
  split.
  - rewrite <- HlI, all_pass_I by assumption. exact HcI.
  - intro F. destruct (all_pass_O _ Q5 F) as [A B]. rewrite <- HlO, <- HbO, A, B. split; [exact HcO|reflexivity].
Qed.

(* ---- the re-read under the lock is needed ---- *)
Lemma list_eqb_false a b : list_eqb a b = false -> a <> b.
Proof.
  revert b. induction a as [|x a IH]; destruct b as [|y b]; cbn; try discriminate; try congruence.
  intro H. apply andb_false_iff in H. destruct H as [H|H].
  - apply N.eqb_neq in H. congruence.
  - apply IH in H. congruence.
Qed.

Lemma conserved_I_b_false ci s : conserved_I_b ci s = false -> ~ conserved_I ci s.
Proof.
  unfold conserved_I_b, conserved_I. intros H [A B]. apply andb_false_iff in H.
  destruct H as [H|H]; apply list_eqb_false in H; contradiction.
Qed.

(* client chunks [1] (the handshake line), [2], [3]; one server chunk that triggers.
   In reads [2] and sees handshaking, then waits for the lock while the worker eats [1],
   answers (cancel), flushes and returns to standby; without the re-read In parks [2] in
   standby, and [3] is forwarded ahead of it. *)
Definition recheck_witness : list label :=
  [ LOutRead; LOutLoad; LOutDetect [9] true; LOutStoreH; LOutGo; LOutSend;
    LInRead; LInLoad; LInLock; LInReload; LInAdd; LInUnlockP;
    LInRead; LInLoad;
    LHsAct 1 RdOk; LHsSendAct [7] false; LHsLock; LHsPopI; LHsPopO; LHsDone; LTlUnlock;
    LInLock; LInReload; LInAdd; LInUnlockP;
    LInRead; LInLoad; LInSend ].

Theorem recheck_needed :
  exists cs ss sched s, run false false sched (init cs ss) = Some s /\ ~ conserved_I (concat cs) s
    /\ slog s = [7; 3] /\ flat (ibr s) (ibq s) = [2] /\ st s = StS.
Proof.
  exists [[1]; [2]; [3]], [[9]], recheck_witness.
  eexists. split; [vm_compute; reflexivity|]. split; [|repeat split].
  apply conserved_I_b_false. vm_compute. reflexivity.
Qed.

(* the same schedule is not a path of the faithful model: after the re-read In does not park *)
Lemma recheck_witness_not_faithful : run true false recheck_witness (init [[1]; [2]; [3]] [[9]]) = None.
Proof. vm_compute. reflexivity. Qed.

(* ---- trace validation: a trace the replay function accepts is a path of the model ---- *)
From Coq Require Import Lia.
Lemma run_app rc tm a : forall b s,
  run rc tm (a ++ b) s = match run rc tm a s with Some s' => run rc tm b s' | None => None end.
Proof.
  induction a as [|l a IH]; intros b s; cbn [run app]; [reflexivity|].
  destruct (step_fn rc tm l s); [apply IH|reflexivity].
Qed.

Lemma run_reach tm s0 ls : forall s s', reach tm s0 s -> run true tm ls s = Some s' -> reach tm s0 s'.
Proof.
  induction ls as [|l ls IH]; intros s s' R E; cbn [run] in E.
  - injection E as <-. exact R.
  - destruct (step_fn true tm l s) as [s1|] eqn:E1; [|discriminate].
    eapply IH; [|exact E]. eapply reach_step; eassumption.
Qed.

Lemma rv_step_path tm e s s' : rv_step tm e s = Some s' ->
  exists ls, rv_labels e s = Some ls /\ run true tm ls s = Some s'.
Proof.
  unfold rv_step. destruct (rv_labels e s) as [ls|]; [|discriminate]. intro E. exists ls. split; [reflexivity|exact E].
Qed.

Lemma rv_step_reach tm s0 e s s' : reach tm s0 s -> rv_step tm e s = Some s' -> reach tm s0 s'.
Proof. intros R E. destruct (rv_step_path _ _ _ _ E) as (ls & _ & E'). eapply run_reach; eassumption. Qed.

(* an accepted trace stands for a label sequence that the model runs to the same state *)
Theorem rv_run_path tm es : forall i s s', rv_run tm es i s = RvOk s' ->
  exists ls, rv_path tm es s = Some ls /\ run true tm ls s = Some s'.
Proof.
  induction es as [|e es IH]; intros i s s' E; cbn [rv_run rv_path] in *.
  - injection E as <-. exists []. split; reflexivity.
  - destruct (rv_step tm e s) as [s1|] eqn:E1; [|discriminate].
    destruct (rv_step_path _ _ _ _ E1) as (ls & L & R1). rewrite L, R1.
    destruct (IH _ _ _ E) as (ls' & P & R2). rewrite P. exists (ls ++ ls'). split; [reflexivity|].
    rewrite run_app, R1. exact R2.
Qed.

Theorem rv_run_reach tm s0 es : forall i s s', reach tm s0 s -> rv_run tm es i s = RvOk s' -> reach tm s0 s'.
Proof.
  intros i s s' R E. destruct (rv_run_path _ _ _ _ _ E) as (ls & _ & E'). eapply run_reach; eassumption.
Qed.

(* acceptance is prefix-closed, and a rejected trace was accepted up to the offending event *)
Lemma rv_run_prefix tm es : forall k i s s', rv_run tm es i s = RvOk s' ->
  exists sk, rv_run tm (firstn k es) i s = RvOk sk.
Proof.
  induction es as [|e es IH]; intros k i s s' E.
  - rewrite firstn_nil. exists s. reflexivity.
  - destruct k as [|k]; [exists s; reflexivity|]. cbn [rv_run firstn] in *.
    destruct (rv_step tm e s) as [s1|]; [|discriminate]. eapply IH; exact E.
Qed.

Lemma rv_run_bad_prefix tm es : forall i s j sb, rv_run tm es i s = RvBad j sb ->
  (i <= j)%nat /\ rv_run tm (firstn (j - i) es) i s = RvOk sb.
Proof.
  induction es as [|e es IH]; intros i s j sb E; cbn [rv_run] in E; [discriminate|].
  destruct (rv_step tm e s) as [s1|] eqn:E1.
  - destruct (IH _ _ _ _ E) as [Hle E']. split; [lia|].
    replace (j - i)%nat with (S (j - S i))%nat.
    + cbn [firstn rv_run]. rewrite E1. exact E'.
    + clear - Hle. lia.
  - injection E as <- <-. split; [apply Nat.le_refl|]. rewrite Nat.sub_diag. reflexivity.
Qed.

(* the two worlds connected: every state along an accepted trace of the real relay -- the
   state after each of its prefixes -- is reachable, hence satisfies the invariants *)
Theorem relay_trace_sound tm cs ss es s : rv_run tm es O (init cs ss) = RvOk s ->
  (exists ls, rv_path tm es (init cs ss) = Some ls /\ run true tm ls (init cs ss) = Some s) /\
  forall k, exists sk, rv_run tm (firstn k es) O (init cs ss) = RvOk sk /\ reach tm (init cs ss) sk /\
    conserved_I (concat cs) sk /\ conserved_O (concat ss) sk /\
    lock_discipline sk /\ handshaking_iff_worker sk /\ parked_only_while_handshaking sk /\ status_read_still_current sk.
Proof.
  intro E. split; [eapply rv_run_path; exact E|]. intro k.
  destruct (rv_run_prefix _ _ k _ _ _ E) as (sk & Ek). exists sk. split; [exact Ek|].
  assert (R : reach tm (init cs ss) sk) by (eapply rv_run_reach; [apply reach_refl|exact Ek]).
  split; [exact R|]. destruct (relay_conserved _ _ _ _ R) as [A B]. split; [exact A|]. split; [exact B|].
  apply (relay_aux _ _ _ _ R).
Qed.

Lemma rv_run_bad_event tm es : forall i s j sb, rv_run tm es i s = RvBad j sb ->
  exists e, nth_error es (j - i) = Some e /\ rv_step tm e sb = None.
Proof.
  induction es as [|e es IH]; intros i s j sb E; cbn [rv_run] in E; [discriminate|].
  destruct (rv_step tm e s) as [s1|] eqn:E1.
  - destruct (rv_run_bad_prefix _ _ _ _ _ _ E) as [Hle _]. destruct (IH _ _ _ _ E) as (e' & N & X).
    exists e'. split; [|exact X].
    replace (j - i)%nat with (S (j - S i))%nat; [exact N|].
    clear - Hle. lia.
  - injection E as <- <-. exists e. rewrite Nat.sub_diag. split; [reflexivity|exact E1].
Qed.

(* a rejected trace: everything in front of the offending event is a path of the model and
   the state the model is in at that point satisfies the invariants; the disagreement is
   about that one event *)
Theorem relay_trace_rejected tm cs ss es j sb : rv_run tm es O (init cs ss) = RvBad j sb ->
  rv_run tm (firstn j es) O (init cs ss) = RvOk sb /\ reach tm (init cs ss) sb /\
  (exists e, nth_error es j = Some e /\ rv_step tm e sb = None).
Proof.
  intro E. destruct (rv_run_bad_prefix _ _ _ _ _ _ E) as [_ P]. rewrite Nat.sub_0_r in P.
  split; [exact P|]. split; [eapply rv_run_reach; [apply reach_refl|exact P]|].
  destruct (rv_run_bad_event _ _ _ _ _ _ E) as (e & N & X). rewrite Nat.sub_0_r in N. eauto.
Qed.

(* ---- the reset guard ---- *)
(* the guarded variant IS the faithful model: every theorem about [reach] speaks of it *)
Lemma rg_step_guarded tm l s : rg_step false tm l s = step_fn true tm l s.
Proof. destruct l; reflexivity. Qed.

Lemma rg_run_guarded tm ls : forall s, rg_run false tm ls s = run true tm ls s.
Proof.
  induction ls as [|l ls IH]; intro s; cbn [rg_run run]; [reflexivity|].
  rewrite rg_step_guarded. destruct (step_fn true tm l s); [apply IH|reflexivity].
Qed.

(* the current source resets with CompareAndSwap(expected, standby): said by the constant
   regenerated from resetToStandby and, independently, by the generated skeleton *)
Definition rg_reset_op (k : skel) : option aop :=
  match find (fun p => String.eqb (fst p) "resetToStandby") k with
  | Some (_, SkIf (SkAtomic v op :: _) _ _ :: _) => if String.eqb v "relayStatus" then Some op else None
  | _ => None
  end.
Definition rg_unguarded (k : skel) : bool := match rg_reset_op k with Some ACas => false | _ => true end.

Lemma reset_guard_ok : rg_current = false /\ rg_unguarded Skel_relay.relay_skel = rg_current.
Proof. split; reflexivity. Qed.

Lemma conserved_O_b_false si s : conserved_O_b si s = false -> ~ conserved_O si s.
Proof.
  unfold conserved_O_b, conserved_O. intros H (A & B & C). apply andb_false_iff in H.
  destruct H as [H|H]; [apply andb_false_iff in H; destruct H as [H|H]|]; apply list_eqb_false in H; contradiction.
Qed.

(* server chunks: trigger [9], end marker [7], second trigger [9], [8], [6]; one client chunk
   [7] (an end marker).  First transfer confirmed; In reads [7] while transferring, sends it
   and is delayed in front of its reset; the server's end marker resets the relay; the second
   trigger makes it handshaking and [8] is parked; only now In's stale reset runs.  Without
   the expected-state guard the relay is back in standby with [8] parked and a worker alive,
   and [6] overtakes [8]. *)
Definition reset_guard_witness : list label :=
  [ LOutRead; LOutLoad; LOutDetect [9] true; LOutStoreH; LOutGo; LOutSend;
    LHsAct 0 RdOk; LHsSendAct [101] true; LHsCfg 0 RdOk; LHsSendCfg [102];
    LHsLock; LHsPopI; LHsPopO; LHsDone; LTlUnlock;
    LInRead; LInLoad; LInSend;
    LOutRead; LOutLoad; LOutBypass; LOutEnd true;
    LOutRead; LOutLoad; LOutDetect [9] true; LOutStoreH; LOutGo; LOutSend;
    LOutRead; LOutLoad; LOutLock; LOutReload; LOutAdd; LOutUnlockP;
    LInEnd true;
    LOutRead; LOutLoad; LOutDetect [6] false; LOutSend ].

Theorem reset_guard_needed :
  exists cs ss sched s, rg_run true false sched (init cs ss) = Some s /\ ~ conserved_O (concat ss) s
    /\ clog s = [9; 102; 7; 9; 6] /\ flat (obr s) (obq s) = [8] /\ st s = StS /\ rg_stranded s = true.
Proof.
  exists [[7]], [[9]; [7]; [9]; [8]; [6]], reset_guard_witness.
  eexists. split; [vm_compute; reflexivity|]. split; [|repeat split].
  apply conserved_O_b_false. vm_compute. reflexivity.
Qed.

(* with the guard the same history up to and including the stale reset leaves the relay
   handshaking with [8] parked for the worker to flush; the last four steps are then no path
   (Out parks [6] behind [8] instead of forwarding it) *)
Lemma reset_guard_witness_guarded :
  (exists s, rg_run false false (firstn 35 reset_guard_witness) (init [[7]] [[9]; [7]; [9]; [8]; [6]]) = Some s
     /\ st s = StH /\ rg_bad [7] [9; 7; 9; 8; 6] s = false) /\
  rg_run false false reset_guard_witness (init [[7]] [[9]; [7]; [9]; [8]; [6]]) = None.
Proof. split; [eexists; split; [vm_compute; reflexivity|split; reflexivity]|vm_compute; reflexivity]. Qed.

(* ---- where "handshaking" is published ---- *)
(* published by the output reader (late = false) the wrapper is the model itself *)
Lemma rp_step_early ug tm l s : rp_step false ug tm (RpL l) (false, s) = rp_keep false (rg_step ug tm l s).
Proof. destruct l; reflexivity. Qed.

Lemma rp_run_early tm ls : forall s,
  rp_run false false tm (map RpL ls) (false, s) = rp_keep false (run true tm ls s).
Proof.
  induction ls as [|l ls IH]; intro s; cbn [rp_run map run]; [reflexivity|].
  rewrite rp_step_early, rg_step_guarded. destruct (step_fn true tm l s); cbn [rp_keep]; [apply IH|reflexivity].
Qed.

(* the current source stores "handshaking" in wrapOutput, in front of `go r.handshake()` *)
Lemma publish_ok : rp_current = false /\ Consts.relay_handshaking_stored_by_worker = false.
Proof. split; reflexivity. Qed.

(* one transfer: trigger [9] and the server's CFG [2;10]; the client answers the trigger with
   its ACT [1;3;10] at once.  Published by the worker, the input reader runs between the output
   reader's forward of the trigger and the worker's first step: it still sees standby and
   passes the ACT line to the server raw; then the worker publishes "handshaking" and waits for
   an ACT line that will not come; the server's CFG is parked; no thread can move. *)
Definition publish_witness : list rp_label :=
  [ RpL LOutRead; RpL LOutLoad; RpL (LOutDetect [9] true); RpL LOutStoreH; RpL LOutGo; RpL LOutSend;
    RpL LInRead; RpL LInLoad; RpL LInSend; RpL (LInEnd false);
    RpPublish;
    RpL LOutRead; RpL LOutLoad; RpL LOutLock; RpL LOutReload; RpL LOutAdd; RpL LOutUnlockP ].

Theorem publish_before_forward_needed :
  exists cs ss sched ps, rp_run true false false sched (false, init cs ss) = Some ps
    /\ slog (snd ps) = [1; 3; 10] /\ clog (snd ps) = [9] /\ flat (obr (snd ps)) (obq (snd ps)) = [2; 10]
    /\ cin (snd ps) = [] /\ sin (snd ps) = [] /\ st (snd ps) = StH /\ rp_holds (snd ps) = true
    /\ forall m th, rp_move true false false th (m, ps) = None.
Proof.
  exists [[1; 3; 10]], [[9]; [2; 10]], publish_witness.
  eexists. split; [vm_compute; reflexivity|]. repeat split.
  intros m th. destruct th; vm_compute; reflexivity.
Qed.

(* the same order of the threads with the store in the output reader: the ACT is parked, eaten
   and rewritten, the CFG likewise, nothing is left in the relay *)
Lemma publish_witness_early :
  exists s, run true false
    [ LOutRead; LOutLoad; LOutDetect [9] true; LOutStoreH; LOutGo; LOutSend;
      LInRead; LInLoad; LInLock; LInReload; LInAdd; LInUnlockP;
      LHsAct 3 RdOk; LHsSendAct [101] true;
      LOutRead; LOutLoad; LOutLock; LOutReload; LOutAdd; LOutUnlockP;
      LHsCfg 2 RdOk; LHsSendCfg [102]; LHsLock; LHsPopI; LHsPopO; LHsDone; LTlUnlock ]
    (init [[1; 3; 10]] [[9]; [2; 10]]) = Some s
  /\ slog s = [101] /\ clog s = [9; 102] /\ rp_holds s = false /\ st s = StT.
Proof. eexists. split; [vm_compute; reflexivity|]. repeat split. Qed.
