(* Proofs about Model/ArchiveNames.v (property C15): checkFileName over the whole of Unicode. *)
From Trzsz Require Import Base.Bytes Gen.Consts Model.Names Model.ArchiveNames Proofs.Archive.
From Coq Require Import Lia.

(* what checkFileName refuses, as regenerated from the source *)
Lemma anm_names_consts_ok :
  Consts.names_reject_exact = [[]; [46]; [46; 46]] /\ Consts.names_reject_bytes = [47].
Proof. split; reflexivity. Qed.

Lemma list_eqb_false a b : a <> b -> list_eqb a b = false.
Proof. intros H. destruct (list_eqb a b) eqn:E; [|reflexivity]. apply list_eqb_eq in E. contradiction. Qed.

Lemma list_eqb_refl a : list_eqb a a = true.
Proof. apply list_eqb_eq. reflexivity. Qed.

(* checkFileName is a test on bytes: refused iff empty, ".", "..", or a byte '/' occurs *)
Lemma valid_name_bytes nm :
  valid_name nm = true <-> nm <> [] /\ nm <> [46] /\ nm <> [46; 46] /\ ~ In 47 nm.
Proof.
  unfold valid_name. destruct anm_names_consts_ok as [-> ->]. cbn [existsb]. split.
  - intros H. apply andb_prop in H as [H1 H2].
    apply negb_true_iff in H1, H2.
    apply orb_false_elim in H1 as [Ha H1]. apply orb_false_elim in H1 as [Hb H1].
    apply orb_false_elim in H1 as [Hc _].
    repeat split.
    + intros ->. discriminate.
    + intros ->. discriminate.
    + intros ->. discriminate.
    + intros Hin. assert (existsb (fun b => (b =? 47) || false) nm = true); [|congruence].
      apply existsb_exists. exists 47. split; [exact Hin|reflexivity].
  - intros (Ha & Hb & Hc & Hd). apply andb_true_intro. split; apply negb_true_iff.
    + rewrite !list_eqb_false by assumption. reflexivity.
    + destruct (existsb (fun b => (b =? 47) || false) nm) eqn:E; [|reflexivity]. exfalso.
      apply existsb_exists in E as (x & Hx & Hx'). rewrite orb_false_r in Hx'. apply N.eqb_eq in Hx'. subst x. contradiction.
Qed.

(* ---- UTF-8: a byte below 128 occurs only as the encoding of that very code point ---- *)
Lemma anm_enc1_low c : c < 128 -> anm_enc1 c = [c].
Proof. intros H. unfold anm_enc1. destruct (N.ltb_spec c 128); [reflexivity|lia]. Qed.

Lemma anm_le_add a k x : a <= k -> a <= k + x.
Proof. lia. Qed.

Lemma anm_enc1_high c : 128 <= c -> anm_enc1 c <> [] /\ Forall (fun b => 128 <= b) (anm_enc1 c).
Proof.
  intros H. unfold anm_enc1, anm_replacement. destruct (N.ltb_spec c 128); [lia|].
  destruct (c <? 2048); [split; [discriminate|repeat constructor; apply anm_le_add; lia]|].
  destruct ((55296 <=? c) && (c <? 57344)); [split; [discriminate|repeat constructor; lia]|].
  destruct (c <? 65536); [split; [discriminate|repeat constructor; apply anm_le_add; lia]|].
  destruct (c <? 1114112); split; try discriminate; repeat constructor; try lia; apply anm_le_add; lia.
Qed.

Lemma anm_utf8_head b l c r : anm_utf8 (c :: r) = b :: l -> b < 128 -> c = b /\ anm_utf8 r = l.
Proof.
  cbn [anm_utf8 flat_map]. fold (anm_utf8 r). intros E Hb. destruct (N.ltb_spec c 128) as [Hc|Hc].
  - rewrite (anm_enc1_low c Hc) in E. cbn [app] in E. injection E as -> E. auto.
  - destruct (anm_enc1_high c Hc) as [Hne Hall]. destruct (anm_enc1 c) as [|x xs]; [contradiction|].
    cbn [app] in E. injection E as -> _. apply Forall_inv in Hall. lia.
Qed.

Lemma anm_utf8_nil cps : anm_utf8 cps = [] <-> cps = [].
Proof.
  split; [|intros ->; reflexivity]. destruct cps as [|c r]; [reflexivity|].
  cbn [anm_utf8 flat_map]. intros E. apply app_eq_nil in E as [E _]. exfalso.
  destruct (N.ltb_spec c 128) as [Hc|Hc]; [rewrite anm_enc1_low in E by exact Hc; discriminate|].
  destruct (anm_enc1_high c Hc) as [Hne _]. contradiction.
Qed.

Lemma anm_utf8_in47 cps : In 47 (anm_utf8 cps) <-> In 47 cps.
Proof.
  induction cps as [|c r IH]; [reflexivity|]. cbn [anm_utf8 flat_map In]. fold (anm_utf8 r).
  rewrite in_app_iff, IH. destruct (N.ltb_spec c 128) as [Hc|Hc].
  - rewrite (anm_enc1_low c Hc). cbn [In]. tauto.
  - destruct (anm_enc1_high c Hc) as [_ Hall]. rewrite Forall_forall in Hall. split.
    + intros [H|H]; [apply Hall in H; lia|right; exact H].
    + intros [H|H]; [lia|right; exact H].
Qed.

(* C15_names_unicode *)
Theorem anm_valid_spec cps :
  anm_valid cps = true <-> cps <> [] /\ cps <> [46] /\ cps <> [46; 46] /\ ~ In 47 cps.
Proof.
  unfold anm_valid. rewrite valid_name_bytes, anm_utf8_in47, anm_utf8_nil.
  assert (H1 : anm_utf8 cps = [46] <-> cps = [46]).
  { split; [|intros ->; reflexivity]. destruct cps as [|c r]; [discriminate|]. intros E.
    apply anm_utf8_head in E as [-> E]; [|lia]. apply (proj1 (anm_utf8_nil _)) in E. subst. reflexivity. }
  assert (H2 : anm_utf8 cps = [46; 46] <-> cps = [46; 46]).
  { split; [|intros ->; reflexivity]. destruct cps as [|c r]; [discriminate|]. intros E.
    apply anm_utf8_head in E as [-> E]; [|lia]. destruct r as [|d r]; [discriminate|].
    apply anm_utf8_head in E as [-> E]; [|lia]. apply (proj1 (anm_utf8_nil _)) in E. subst. reflexivity. }
  rewrite H1, H2. reflexivity.
Qed.
