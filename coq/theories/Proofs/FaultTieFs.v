(* C02 on the whole-transfer receiver, the file system part: right after the receiver answered an
   MD5 message with SUCC:<digest>, the abstract file system holds exactly the accepted bytes at the
   place of that file (dest / local name / rest of the relative path) - for a file written whole;
   for a RESUMED file (the receiver kept [rs_open]: the existing file cut at its matchStep) it holds
   the kept part followed by the accepted bytes; an archive's "file" is the entry stream, its tree is
   the subject of C15. *)
From Coq Require Import ZArith Lia List.
From Trzsz Require Import Base.Bytes Gen.Consts Model.Path Model.Fs Model.Names Model.Wire
  Model.Transfer Model.Protocol Model.FaultTie Proofs.PathFs Proofs.Names Proofs.TransferResume Proofs.TransferFs Proofs.FaultTie.
From Trzsz Require Model.Resume.
Import ListNotations.

Section FaultTieFs.
Variable digest : Type.
Variable H : list byte -> digest.
Variable deq : digest -> digest -> bool.
Variable zdecomp : list byte -> option (list byte).
Variable unzl : list byte -> option (list byte).
Variable hx : list byte -> Resume.digest.
Variable aparse : list byte -> option (src * Z).

Notation receiver := (tr_receiver digest H deq zdecomp unzl hx aparse).
Notation run := (ft_run digest H deq zdecomp unzl hx aparse).

(* what is known of the NAME record a phase carries *)
Definition pfact0 (c : tr_cfg) (dest : path) (fst_ : Names.state) (p : tr_npayload) : Prop :=
  tr_p_archive p = false /\ tr_p_isdir p = false /\
  exists ln st1, tr_create c dest p [] fst_ = (NOk ln, st1) /\
                 (tr_json_names c = true -> tr_target_size dest ln p st1 = 0).

(* ... when it is a file written whole: not an archive, not resumed *)
Definition pfact_at (c : tr_cfg) (dest : path) (st : tr_rstate) (p : tr_npayload) : Prop :=
  rs_open st = None -> tr_p_archive p = false -> pfact0 c dest (rs_st st) p.

Definition inv2 (c : tr_cfg) (dest : path) (st : tr_rstate) : Prop :=
  map_good (st_map (rs_st st)) /\
  match rs_phase st with
  | RpSize p | RpComp p _ | RpData p _ _ _ _ | RpV1 p _ _ | RpMd5 p _ => pfact_at c dest st p
  | _ => True
  end.

Lemma inv2_intro c dest st : map_good (st_map (rs_st st)) ->
  match rs_phase st with
  | RpSize p | RpComp p _ | RpData p _ _ _ _ | RpV1 p _ _ | RpMd5 p _ => pfact_at c dest st p
  | _ => True
  end -> inv2 c dest st.
Proof. intros A B. split; assumption. Qed.

Lemma inv2_fail c dest st : inv2 c dest st -> inv2 c dest (fst (tr_r_fail digest st)).
Proof. intros [M _]. split; [exact M | exact I]. Qed.

Lemma inv2_next c dest left fst_ names sch : map_good (st_map fst_) ->
  inv2 c dest (fst (tr_r_next digest c left fst_ names sch)).
Proof. intro M. unfold tr_r_next. destruct left; [destruct (tc_upload c)|]; split; try exact M; exact I. Qed.

Lemma inv2_done c dest st fst_ outs : map_good (st_map fst_) -> inv2 c dest (fst (tr_r_done digest c st fst_ outs)).
Proof.
  intro M. unfold tr_r_done.
  pose proof (inv2_next c dest (pred (rs_left st)) fst_ (rs_names st) (tl (rs_sched st)) M) as P.
  destruct (tr_r_next digest c (pred (rs_left st)) fst_ (rs_names st) (tl (rs_sched st))). exact P.
Qed.

Lemma pfact_phase c dest st p ph : pfact_at c dest st p -> pfact_at c dest (tr_r_phase st ph) p.
Proof. intro F. exact F. Qed.

Lemma inv2_name c dest st p : inv2 c dest st -> inv2 c dest (fst (tr_r_name digest c dest st p)).
Proof.
  intros [M Ph]. unfold tr_r_name.
  destruct (tr_create c dest p [] (rs_st st)) as [[ln|] st1] eqn:Cr; [|apply inv2_fail; split; assumption].
  destruct (tr_p_archive p) eqn:Ea; [split; [exact M | cbn; intros _ Hx; congruence]|].
  destruct (tr_create_result c dest p [] (rs_st st) ln st1 M Cr) as (_ & M1 & _).
  destruct (tr_p_isdir p) eqn:Ed; [apply inv2_done; exact M1|]. cbn [orb].
  destruct (tr_json_names c && (0 <? tr_target_size dest ln p st1)) eqn:Er; cbn [fst].
  - destruct (tc_proto c <? _); split; try exact M; exact I.
  - split; [exact M|]. cbn. intros _ _. split; [exact Ea|]. split; [exact Ed|]. exists ln, st1. split; [exact Cr|].
    intro J. rewrite J in Er. cbn [andb] in Er. apply N.ltb_ge in Er. lia.
Qed.

Lemma inv2_step c dest st m : inv2 c dest st -> inv2 c dest (fst (receiver c dest st m)).
Proof.
  intros [M Ph]. unfold tr_receiver.
  assert (Fail : inv2 c dest (fst (tr_r_fail digest st))) by (split; [exact M | exact I]).
  assert (Keep : forall ph p, pfact_at c dest st p ->
            match ph with RpSize q | RpComp q _ | RpData q _ _ _ _ | RpV1 q _ _ | RpMd5 q _ => q = p | _ => True end ->
            inv2 c dest (tr_r_phase st ph)).
  { intros ph p F E. split; [exact M|]. cbn. destruct ph; try exact I; subst; exact F. }
  destruct (rs_phase st) as [| |p lf od|p lf od sz rr|p|p size|p size cp acc steps|p size w|p w| | |] eqn:Ep.
  - destruct m as [mn|mp|mn|mb|mf|md|mnames|hs hh| |mn|mnm|mnm msz|mlen mstp|md|hs hm| |]; try exact Fail; try (split; [exact M | exact I]).
    pose proof (inv2_next c dest (N.to_nat mn) (rs_st st) (rs_names st) (rs_sched st) M) as P.
    destruct (tr_r_next digest c (N.to_nat mn) (rs_st st) (rs_names st) (rs_sched st)). exact P.
  - destruct m as [mn|mp|mn|mb|mf|md|mnames|hs hh| |mn|mnm|mnm msz|mlen mstp|md|hs hm| |]; try exact Fail; try (split; [exact M | exact I]).
    apply inv2_name. split; [exact M|]. rewrite Ep. exact I.
  - (* RpHSize *)
    destruct m as [mn|mp|mn|mb|mf|md|mnames|hs hh| |mn|mnm|mnm msz|mlen mstp|md|hs hm| |]; try exact Fail; try (split; [exact M | exact I]).
  - (* RpHash *)
    destruct m as [mn|mp|mn|mb|mf|md|mnames|hs hh| |mn|mnm|mnm msz|mlen mstp|md|hs hm| |]; try exact Fail; try (split; [exact M | exact I]).
    + unfold tr_r_hash. destruct (Resume.recv_hashes _ _ _ _ _); exact Fail.
    + (* Over: the file is kept open, cut: no longer a file written whole *)
      unfold tr_r_over. cbn [fst]. split; [exact M|]. cbn. intro Hx. discriminate Hx.
  - destruct m as [mn|mp|mn|mb|mf|md|mnames|hs hh| |mn|mnm|mnm msz|mlen mstp|md|hs hm| |]; try exact Fail; try (split; [exact M | exact I]).
    unfold tr_r_size. destruct (tr_rest_mismatch st mn); [split; [exact M | exact I]|]. destruct (tr_pipeline c).
    + destruct (tr_is_compress_fixed c mn) as [[|] cpx]; cbn [fst]; apply (Keep _ p Ph); reflexivity.
    + destruct (0 <? mn); cbn [fst]; apply (Keep _ p Ph); reflexivity.
  - destruct m as [mn|mp|mn|mb|mf|md|mnames|hs hh| |mn|mnm|mnm msz|mlen mstp|md|hs hm| |]; try exact Fail; try (split; [exact M | exact I]).
    cbn [fst]. apply (Keep _ p Ph); reflexivity.
  - destruct m as [mn|mp|mn|mb|mf|md|mnames|hs hh| |mn|mnm|mnm msz|mlen mstp|md|hs hm| |]; try exact Fail; try (split; [exact M | exact I]).
    + unfold tr_r_frame. destruct mf as [|b f].
      * destruct (wire_decode _ _ _ _ _ _ _) as [w|]; [|exact Fail].
        destruct (tr_blen w =? size); [|exact Fail]. destruct (tr_p_archive p && _); [exact Fail|].
        cbn [fst]. apply (Keep _ p Ph); reflexivity.
      * cbn [fst]. apply (Keep _ p Ph); reflexivity.
    + cbn [fst tr_r_stay]. split; [exact M|]. rewrite Ep. exact Ph.
  - destruct m as [mn|mp|mn|mb|mf|md|mnames|hs hh| |mn|mnm|mnm msz|mlen mstp|md|hs hm| |]; try exact Fail; try (split; [exact M | exact I]).
    unfold tr_r_v1. destruct (wire_v1_decode _ _ _ _) as [ch|]; [|exact Fail].
    cbn [fst]. destruct (tr_blen (w ++ ch) <? size); apply (Keep _ p Ph); reflexivity.
  - destruct m as [mn|mp|mn|mb|mf|md|mnames|hs hh| |mn|mnm|mnm msz|mlen mstp|md|hs hm| |]; try exact Fail; try (split; [exact M | exact I]).
    unfold tr_r_md5. destruct (deq md (H w)); [|exact Fail].
    destruct (tr_complete aparse c dest st p w) as [st2|] eqn:Cc; [|exact Fail].
    apply inv2_done.
    (* whichever way the file is completed, the name map stays well-formed *)
    unfold tr_complete in Cc. destruct (rs_open st) as [[[leaf f] rest]|].
    + destruct (tr_create c dest p [] (rs_st st)) as [[ln|] stx] eqn:Cr; [|discriminate]. inversion Cc; subst.
      destruct (tr_create_result c dest p [] (rs_st st) ln stx M Cr) as (_ & Mx & _). exact Mx.
    + destruct (tr_p_archive p).
      * destruct (tr_create c dest p [] (rs_st st)) as [[ln|] stx] eqn:Cr; [|discriminate].
        destruct (tr_unarchive aparse _ _ w); [|discriminate]. inversion Cc; subst.
        destruct (tr_create_result c dest p [] (rs_st st) ln stx M Cr) as (_ & Mx & _). exact Mx.
      * destruct (tr_create c dest p w (rs_st st)) as [[ln|] stx] eqn:Cr; [|discriminate]. inversion Cc; subst.
        destruct (tr_create_result c dest p w (rs_st st) ln st2 M Cr) as (_ & Mx & _). exact Mx.
  - destruct m as [mn|mp|mn|mb|mf|md|mnames|hs hh| |mn|mnm|mnm msz|mlen mstp|md|hs hm| |]; try exact Fail; try (split; [exact M | exact I]).
  - cbn [fst tr_r_stay]. split; [exact M|]. rewrite Ep. exact I.
  - cbn [fst tr_r_stay]. split; [exact M|]. rewrite Ep. exact I.
Qed.

Lemma blen_zero w : tr_blen w = 0 -> w = [].
Proof. unfold tr_blen. destruct w; [reflexivity|]. cbn [length]. lia. Qed.

Lemma done_st c st st2 outs st' outs' : tr_r_done digest c st st2 outs = (st', outs') -> rs_st st' = st2.
Proof.
  unfold tr_r_done, tr_r_next. destruct (pred (rs_left st)); [destruct (tc_upload c)|]; intro R; inversion R; reflexivity.
Qed.

(* the MD5 step itself, a file written whole *)
Lemma md5_step_fs c dest st p w d st' outs :
  inv2 c dest st -> rs_phase st = RpMd5 p w -> rs_open st = None -> tr_p_archive p = false ->
  receiver c dest st (TrMd5 digest d) = (st', outs) -> rs_phase st' <> RpFail ->
  exists ln, fst (tr_create c dest p [] (rs_st st)) = NOk ln /\
    lookup (st_fs (rs_st st')) (dest ++ ln :: tr_p_tail p) = Some (File w).
Proof.
  intros [M Ph] Ep Eo Ea0 R NF. rewrite Ep in Ph. destruct (Ph Eo Ea0) as (Ea & Ed & ln & st1 & Cr0 & Ts).
  unfold tr_receiver in R. rewrite Ep in R. unfold tr_r_md5, tr_complete in R. rewrite Eo, Ea in R.
  destruct (deq d (H w)); [|inversion R; subst; exfalso; apply NF; reflexivity].
  destruct (tr_create c dest p w (rs_st st)) as [[ln2|] st2] eqn:Cr; [|inversion R; subst; exfalso; apply NF; reflexivity].
  pose proof (tr_create_indep c dest p [] w (rs_st st)) as Ind. rewrite Cr0, Cr in Ind. cbn [fst] in Ind.
  inversion Ind; subst ln2.
  exists ln. split; [rewrite Cr0; reflexivity|].
  destruct (tr_create_result c dest p w (rs_st st) ln st2 M Cr) as (Gl & _ & Gt & Lk & _).
  destruct (tr_create_result c dest p [] (rs_st st) ln st1 M Cr0) as (_ & _ & _ & Lk0 & _).
  rewrite Ed in Lk, Lk0.
  rewrite (done_st c st st2 _ st' outs R), Lk. f_equal. f_equal.
  destruct (tr_json_names c) eqn:J; [|apply write0_nil_l].
  (* the target had size 0 when the name was answered: nothing old is kept *)
  specialize (Ts eq_refl). unfold tr_target_size, tr_leaf in Ts.
  rewrite join_good in Ts by (constructor; assumption). rewrite Lk0 in Ts. rewrite write0_nil_r in Ts.
  apply blen_zero in Ts. rewrite Ts. apply write0_nil_l.
Qed.

(* ... and of a resumed file: the kept part, then the accepted bytes *)
Lemma md5_step_resumed c dest st p w d st' outs leaf f rest :
  rs_phase st = RpMd5 p w -> rs_open st = Some (leaf, f, rest) ->
  receiver c dest st (TrMd5 digest d) = (st', outs) -> rs_phase st' <> RpFail ->
  lookup (st_fs (rs_st st')) leaf = Some (File (Resume.f_data (Resume.f_write f w))).
Proof.
  intros Ep Eo R NF. unfold tr_receiver in R. rewrite Ep in R. unfold tr_r_md5, tr_complete in R. rewrite Eo in R.
  destruct (deq d (H w)); [|inversion R; subst; exfalso; apply NF; reflexivity].
  destruct (tr_create c dest p [] (rs_st st)) as [[ln|] st2]; [|inversion R; subst; exfalso; apply NF; reflexivity].
  rewrite (done_st c st _ _ st' outs R), set_file_lookup, path_eqb_refl. reflexivity.
Qed.

Lemma saved_not_failed c dest st p w md st1 outs : rs_phase st = RpMd5 p w ->
  receiver c dest st (TrMd5 digest md) = (st1, outs) -> existsb (ft_is_digest digest) outs = true -> rs_phase st1 <> RpFail.
Proof.
  intros Ph R Ex F. apply existsb_exists in Ex. destruct Ex as (o & Io & Eo). destruct o; try discriminate.
  unfold tr_receiver in R. rewrite Ph in R. unfold tr_r_md5 in R.
  destruct (deq md (H w)).
  - destruct (tr_complete aparse c dest st p w) as [stx|].
    + unfold tr_r_done, tr_r_next in R. destruct (pred (rs_left st)); [destruct (tc_upload c)|]; inversion R; subst; discriminate.
    + inversion R; subst. destruct Io as [Io|[]]; discriminate.
  - inversion R; subst. destruct Io as [Io|[]]; discriminate.
Qed.

Theorem ft_saved_on_fs c dest : forall ms st g,
  inv2 c dest st -> forall sv, In sv (snd (run c dest st g ms)) ->
  (rs_open (fv_before digest sv) = None -> tr_p_archive (fv_payload digest sv) = false ->
   exists ln, ft_leaf digest c dest sv = Some (dest ++ ln :: tr_p_tail (fv_payload digest sv)) /\
     lookup (st_fs (rs_st (fv_after digest sv))) (dest ++ ln :: tr_p_tail (fv_payload digest sv)) = Some (File (fv_content digest sv))) /\
  (forall leaf f rest, rs_open (fv_before digest sv) = Some (leaf, f, rest) ->
     lookup (st_fs (rs_st (fv_after digest sv))) leaf = Some (File (Resume.f_data (Resume.f_write f (fv_content digest sv))))).
Proof.
  induction ms as [|m r IH]; intros st g Inv sv; cbn [ft_run snd]; [intros []|].
  destruct (receiver c dest st m) as [st1 outs] eqn:R.
  pose proof (inv2_step c dest st m Inv) as Inv1. rewrite R in Inv1. cbn [fst] in Inv1.
  specialize (IH st1 (ft_ghost_step digest c st m g) Inv1 sv).
  destruct (run c dest st1 (ft_ghost_step digest c st m g) r) as [[st2 outs2] svs]. cbn [snd] in *.
  intro In1. apply in_app_or in In1. destruct In1 as [In1|In1]; [|exact (IH In1)]. clear IH.
  destruct (rs_phase st) as [| |p lf od|p lf od sz rr|p|p size|p size cp acc steps|p size w|p w| | |] eqn:Ph; try (destruct In1; fail).
  destruct m as [mn|mp|mn|mb|mf|md|mnames|hs hh| |mn|mnm|mnm msz|mlen mstp|md|hs hm| |]; try (destruct In1; fail).
  destruct (existsb (ft_is_digest digest) outs) eqn:Ex; [|destruct In1].
  destruct In1 as [<-|[]]. unfold ft_leaf. cbn [fv_before fv_payload fv_content fv_after].
  pose proof (saved_not_failed c dest st p w md st1 outs Ph R Ex) as NF.
  split.
  - intros Eo Ea. destruct (md5_step_fs c dest st p w md st1 outs Inv Ph Eo Ea R NF) as (ln & Cr & Lk).
    exists ln. destruct (tr_create c dest p [] (rs_st st)) as [[ln0|] stz]; cbn [fst] in Cr; [|discriminate].
    inversion Cr; subst. split; [reflexivity | exact Lk].
  - intros leaf f rest Eo. apply (md5_step_resumed c dest st p w md st1 outs leaf f rest Ph Eo R NF).
Qed.

Lemma inv2_init c dest f0 sch : inv2 c dest (tr_receiver_init f0 sch).
Proof. split; [intros id v E; discriminate | exact I]. Qed.

Theorem ft_receive_saved_on_fs c dest f0 sch ms sv :
  In sv (snd (ft_receive digest H deq zdecomp unzl hx aparse c dest f0 sch ms)) ->
  (rs_open (fv_before digest sv) = None -> tr_p_archive (fv_payload digest sv) = false ->
   exists ln, ft_leaf digest c dest sv = Some (dest ++ ln :: tr_p_tail (fv_payload digest sv)) /\
     lookup (st_fs (rs_st (fv_after digest sv))) (dest ++ ln :: tr_p_tail (fv_payload digest sv)) = Some (File (fv_content digest sv))) /\
  (forall leaf f rest, rs_open (fv_before digest sv) = Some (leaf, f, rest) ->
     lookup (st_fs (rs_st (fv_after digest sv))) leaf = Some (File (Resume.f_data (Resume.f_write f (fv_content digest sv))))).
Proof. exact (ft_saved_on_fs c dest ms _ _ (inv2_init c dest f0 sch) sv). Qed.

End FaultTieFs.
