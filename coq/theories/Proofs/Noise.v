(* Lemmas about Model/Noise.v (property C16), part 1: the tmux junk-tolerant reader. *)
From Trzsz Require Import Base.Bytes Gen.Consts Model.Buffer Model.Noise Proofs.Buffer.
From Coq Require Import ZArith Lia.

(* [byte] is a definition for [N]: implicit type arguments may be either; normalise before lia *)
Ltac norm_len := unfold byte in *.

(* ---- the generated constants are what the noise relations talk about ---- *)
Lemma noise_consts_src_ok :
  Consts.recv_marker_open = [HASH] /\ Consts.recv_marker_close = [COLON] /\
  Consts.recv_fallback_byte = HASH /\
  Consts.tmux_status_begin = status_begin /\ Consts.tmux_status_mid = status_begin /\
  Consts.tmux_status_end = status_end /\
  N.to_nat Consts.tmux_status_begin_skip = length status_begin /\
  N.to_nat Consts.tmux_status_mid_skip = length status_begin /\
  N.to_nat Consts.tmux_status_end_skip = length status_end.
Proof. repeat split; reflexivity. Qed.

Lemma marker_eq ty : marker ty = HASH :: ty ++ [COLON].
Proof. reflexivity. Qed.

(* ================= junk-mode reading, byte by byte ================= *)
Fixpoint junk_bytes (acc s : list byte) : fres :=
  match s with
  | [] => FBlocked
  | b :: t =>
    if b =? intr then FInterrupted
    else if b =? nl then (if ends_cr acc then junk_bytes (removelast acc) t else FDone acc t)
    else junk_bytes (acc ++ [b]) t
  end.

Lemma junk_bytes_segment : forall s acc pre r,
  split_at nl s = (pre, r) ->
  junk_bytes acc s =
  if has_byte intr pre then FInterrupted else
  match r with
  | Some post => if ends_cr (acc ++ pre) then junk_bytes (removelast (acc ++ pre)) post
                 else FDone (acc ++ pre) post
  | None => FBlocked
  end.
Proof.
  induction s as [|x t IH]; intros acc pre r H; cbn [split_at] in H.
  - inversion H; subst. reflexivity.
  - destruct (x =? nl) eqn:Xn.
    + inversion H; subst. apply N.eqb_eq in Xn. subst x. cbn [junk_bytes has_byte existsb].
      change (nl =? intr) with false. rewrite N.eqb_refl, app_nil_r. reflexivity.
    + destruct (split_at nl t) as [p' r'] eqn:E. inversion H; subst.
      cbn [junk_bytes has_byte existsb]. rewrite Xn. rewrite (N.eqb_sym intr x).
      destruct (x =? intr); [reflexivity|]. cbn [orb].
      rewrite (IH (acc ++ [x]) _ _ eq_refl). rewrite <- !app_assoc. reflexivity.
Qed.

Lemma junk_bytes_ref : forall f s acc, (length s < f)%nat -> ref_junk_line f acc s = junk_bytes acc s.
Proof.
  induction f as [|f IH]; intros s acc Hf; [lia|].
  cbn [ref_junk_line]. destruct (split_at nl s) as [pre [post|]] eqn:E;
    rewrite (junk_bytes_segment _ acc _ _ E); destruct (has_byte intr pre); try reflexivity.
  destruct (ends_cr (acc ++ pre)); [|reflexivity].
  apply IH. apply split_at_len in E. lia.
Qed.

(* the junk-tolerant read of any pending list, on the flat stream *)
Theorem read_line_junk_flat pend :
  obs_of (read_line true [] pend) = junk_bytes [] (concat pend).
Proof.
  rewrite read_line_flat, ref_junk_line_ok by lia. apply junk_bytes_ref. lia.
Qed.

Lemma ends_cr_snoc a b : ends_cr (a ++ [b]) = (b =? cr).
Proof. unfold ends_cr. rewrite rev_app_distr. reflexivity. Qed.

Lemma ends_cr_app x y : y <> [] -> ends_cr (x ++ y) = ends_cr y.
Proof.
  intros Hy. unfold ends_cr. rewrite rev_app_distr.
  destruct (rev y) as [|b t] eqn:E; [|reflexivity].
  apply (f_equal (@rev byte)) in E. rewrite rev_involutive in E. contradiction.
Qed.

Lemma ends_cr_nocr (y : list byte) : forallb (fun b => negb (b =? CR)) y = true -> ends_cr y = false.
Proof.
  intros H. unfold ends_cr. destruct (rev y) as [|b t] eqn:E; [reflexivity|].
  assert (In b y) as Hin by (apply in_rev; rewrite E; left; reflexivity).
  rewrite forallb_forall in H. specialize (H b Hin). change cr with CR.
  destruct (b =? CR); [discriminate|reflexivity].
Qed.

Definition no_lf_etx (l : list byte) : bool := forallb (fun b => negb (b =? LF) && negb (b =? ETX)) l.

(* CR LF wraps are transparent *)
Lemma junk_bytes_wrapped : forall l s, wrapped l s -> no_lf_etx l = true ->
  forall acc rest,
  junk_bytes acc (s ++ LF :: rest) =
  if ends_cr (acc ++ l) then junk_bytes (removelast (acc ++ l)) rest else FDone (acc ++ l) rest.
Proof.
  induction 1 as [|b l s W IH|l s W IH]; intros Hl acc rest.
  - cbn [app junk_bytes]. change (LF =? intr) with false. change (LF =? nl) with true.
    rewrite app_nil_r. reflexivity.
  - cbn [no_lf_etx forallb] in Hl. apply andb_true_iff in Hl. destruct Hl as [Hb Hl].
    apply andb_true_iff in Hb. destruct Hb as [B1 B2].
    cbn [app junk_bytes]. change intr with ETX. change nl with LF.
    destruct (b =? ETX); [discriminate|]. destruct (b =? LF); [discriminate|].
    rewrite (IH Hl). rewrite <- !app_assoc. reflexivity.
  - cbn [app junk_bytes]. change (CR =? intr) with false. change (CR =? nl) with false.
    change (LF =? intr) with false. change (LF =? nl) with true.
    rewrite ends_cr_snoc. change (CR =? cr) with true. rewrite removelast_last. apply IH, Hl.
Qed.

(* ================= status strings ================= *)
Definition noesc (l : list byte) : bool := forallb (fun b => negb (b =? ESC)) l.

Lemma has_prefix_refl_app : forall p x, has_prefix p (p ++ x) = true.
Proof. induction p as [|a p IH]; intros x; [reflexivity|]. cbn [has_prefix app]. rewrite N.eqb_refl. apply IH. Qed.

Lemma has_prefix_ext : forall p u v, (length p <= length u)%nat -> has_prefix p (u ++ v) = has_prefix p u.
Proof.
  induction p as [|a p IH]; intros u v H; [destruct u; reflexivity|].
  destruct u as [|b u]; [cbn [length] in H; lia|].
  cbn [has_prefix app]. rewrite IH by (cbn [length] in H; lia). reflexivity.
Qed.

Lemma contains_cons pat b l :
  contains pat (b :: l) = false -> has_prefix pat (b :: l) = false /\ contains pat l = false.
Proof.
  unfold contains. cbn [index_of]. destruct (has_prefix pat (b :: l)); [discriminate|].
  destruct (index_of pat l); [discriminate|]. auto.
Qed.

Lemma contains_false_index pat l : contains pat l = false -> index_of pat l = None.
Proof. unfold contains. destruct (index_of pat l); [discriminate|reflexivity]. Qed.

(* first occurrence of pat in a ++ pat ++ x when none starts inside a *)
Lemma index_of_after : forall (pat a x : list byte), pat <> [] ->
  contains pat (a ++ removelast pat) = false ->
  index_of pat (a ++ pat ++ x) = Some (length a).
Proof.
  intros pat a x Hp. induction a as [|b a IH]; intros H.
  - cbn [app length]. destruct pat as [|p0 pt]; [congruence|].
    change (index_of (p0 :: pt) ((p0 :: pt) ++ x))
      with (if has_prefix (p0 :: pt) ((p0 :: pt) ++ x) then Some O else
            match (p0 :: pt) ++ x with [] => None | _ :: l' =>
              match index_of (p0 :: pt) l' with Some i => Some (S i) | None => None end end).
    rewrite has_prefix_refl_app. reflexivity.
  - cbn [app] in H. apply contains_cons in H. destruct H as [H1 H2].
    cbn [app length index_of].
    assert (E: b :: a ++ pat ++ x = (b :: a ++ removelast pat) ++ [last pat 0] ++ x).
    { rewrite (app_removelast_last 0 Hp) at 1. cbn [app]. rewrite <- !app_assoc. reflexivity. }
    assert (HP: has_prefix pat (b :: a ++ pat ++ x) = false).
    { rewrite E, has_prefix_ext; [exact H1|].
      cbn [length]. rewrite app_length.
      assert (length pat = S (length (removelast pat))).
      { rewrite (app_removelast_last 0 Hp) at 1. rewrite app_length. cbn [length]. norm_len. lia. }
      norm_len. lia. }
    rewrite HP, (IH H2). reflexivity.
Qed.

Lemma index_of_noesc : forall x, noesc x = true -> index_of status_begin x = None.
Proof.
  induction x as [|b x IH]; intros H; [reflexivity|].
  cbn [noesc forallb] in H. apply andb_true_iff in H. destruct H as [Hb Hx].
  cbn [index_of status_begin has_prefix]. rewrite (N.eqb_sym ESC b).
  destruct (b =? ESC); [discriminate|]. cbn [andb]. rewrite (IH Hx). reflexivity.
Qed.

Lemma contains_noesc : forall x, noesc x = true -> contains status_begin (x ++ removelast status_begin) = false.
Proof.
  induction x as [|b x IH]; intros H; [reflexivity|].
  cbn [noesc forallb] in H. apply andb_true_iff in H. destruct H as [Hb Hx].
  specialize (IH Hx). unfold contains in *. cbn [app index_of].
  cbn [status_begin has_prefix]. rewrite (N.eqb_sym ESC b).
  destruct (b =? ESC); [discriminate|]. cbn [andb].
  destruct (index_of status_begin (x ++ removelast status_begin)); [discriminate|reflexivity].
Qed.

Lemma skipn_len_app {A} (a x : list A) n : skipn (length a + n) (a ++ x) = skipn n x.
Proof. induction a as [|b a IH]; [reflexivity|]. cbn [length app plus skipn]. exact IH. Qed.

Lemma firstn_len_app {A} (a x : list A) : firstn (length a) (a ++ x) = a.
Proof. induction a as [|b a IH]; [reflexivity|]. cbn [length app firstn]. rewrite IH. reflexivity. Qed.

Lemma skipn_len_exact {A} (a x : list A) : skipn (length a) (a ++ x) = x.
Proof. rewrite <- (Nat.add_0_r (length a)), skipn_len_app. reflexivity. Qed.

Ltac peel := rewrite <- ?Nat.add_assoc; rewrite ?skipn_len_app; rewrite ?skipn_len_exact.

Lemma strip_tmux_unfold f buf :
  strip_tmux (S f) buf =
  match index_of status_begin buf with
  | None => buf
  | Some b =>
    match index_of status_begin (skipn (b + 3) buf) with
    | None => firstn b buf
    | Some m =>
      match index_of status_end (skipn (b + 3 + m + 3) buf) with
      | None => firstn b buf
      | Some e => strip_tmux f (firstn b buf ++ skipn (b + 3 + m + 3 + e + 2) buf)
      end
    end
  end.
Proof. reflexivity. Qed.

(* all status strings are removed, whatever stands in front as long as it has no ESC *)
Lemma strip_with_status : forall l s, with_status l s ->
  forall pre f, noesc pre = true -> noesc l = true -> (length (pre ++ s) < f)%nat ->
  strip_tmux f (pre ++ s) = pre ++ l.
Proof.
  induction 1 as [|b l s W IH|t1 t2 l s T1 C1 T2 C2 W IH|t T C|t1 t2 T1 C1 T2 C2];
    intros pre f Hpre Hl Hf; (destruct f as [|f]; [lia|]).
  - rewrite strip_tmux_unfold, app_nil_r, index_of_noesc by exact Hpre. reflexivity.
  - cbn [noesc forallb] in Hl. apply andb_true_iff in Hl. destruct Hl as [Hb Hl].
    replace (pre ++ b :: s) with ((pre ++ [b]) ++ s) by (rewrite <- app_assoc; reflexivity).
    replace (pre ++ b :: l) with ((pre ++ [b]) ++ l) by (rewrite <- app_assoc; reflexivity).
    apply IH.
    + unfold noesc in *. rewrite forallb_app. apply andb_true_iff. split; [exact Hpre|].
      cbn [forallb]. rewrite Hb. reflexivity.
    + exact Hl.
    + rewrite <- app_assoc. exact Hf.
  - rewrite strip_tmux_unfold. norm_len.
    change 3%nat with (length status_begin). change 2%nat with (length status_end).
    rewrite (index_of_after status_begin pre _ ltac:(discriminate) (contains_noesc _ Hpre)).
    cbv beta iota. peel.
    rewrite (index_of_after status_begin t1 _ ltac:(discriminate) C1).
    cbv beta iota. peel.
    rewrite (index_of_after status_end t2 _ ltac:(discriminate) C2).
    cbv beta iota. peel.
    rewrite firstn_len_app. apply IH; try assumption.
    rewrite !app_length in *. cbn [length status_begin status_end] in *. lia.
  - rewrite strip_tmux_unfold. norm_len.
    change 3%nat with (length status_begin). change 2%nat with (length status_end).
    rewrite (index_of_after status_begin pre _ ltac:(discriminate) (contains_noesc _ Hpre)).
    cbv beta iota. peel.
    rewrite (contains_false_index _ _ C), firstn_len_app, app_nil_r. reflexivity.
  - rewrite strip_tmux_unfold. norm_len.
    change 3%nat with (length status_begin). change 2%nat with (length status_end).
    rewrite (index_of_after status_begin pre _ ltac:(discriminate) (contains_noesc _ Hpre)).
    cbv beta iota. peel.
    rewrite (index_of_after status_begin t1 _ ltac:(discriminate) C1).
    cbv beta iota. peel.
    rewrite (contains_false_index _ _ C2), firstn_len_app, app_nil_r. reflexivity.
Qed.

(* stripTmuxStatusLine called directly: every status redraw is removed, wherever it was
   inserted and however many there are; a truncated one at the end goes as well *)
Theorem strip_status_direct l s : with_status l s -> noesc l = true -> strip_tmux_status s = l.
Proof.
  intros W H. unfold strip_tmux_status.
  exact (strip_with_status l s W [] (S (length s)) eq_refl H (Nat.lt_succ_diag_r _)).
Qed.

(* bytes that the noise never introduces: '#' and CR *)
Definition no_hash_cr (l : list byte) : bool := forallb (fun b => negb (b =? HASH) && negb (b =? CR)) l.

Lemma status_text_no_hash_cr t : status_text t = true -> no_hash_cr t = true.
Proof.
  unfold status_text, no_hash_cr. rewrite !forallb_forall. intros H b Hb. specialize (H b Hb).
  destruct (b =? LF), (b =? CR), (b =? ETX), (b =? HASH); cbn in *; congruence.
Qed.

Lemma with_status_no_hash_cr : forall l s, with_status l s -> no_hash_cr l = true -> no_hash_cr s = true.
Proof.
  induction 1 as [|b l s W IH|t1 t2 l s T1 C1 T2 C2 W IH|t T C|t1 t2 T1 C1 T2 C2]; intros Hl.
  - reflexivity.
  - unfold no_hash_cr in *. cbn [forallb] in *. apply andb_true_iff in Hl. destruct Hl as [-> Hl]. exact (IH Hl).
  - pose proof (status_text_no_hash_cr _ T1) as Q1. pose proof (status_text_no_hash_cr _ T2) as Q2. specialize (IH Hl).
    unfold no_hash_cr in *. norm_len. rewrite !forallb_app, Q1, Q2, IH. reflexivity.
  - pose proof (status_text_no_hash_cr _ T) as Q1.
    unfold no_hash_cr in *. norm_len. rewrite !forallb_app, Q1. reflexivity.
  - pose proof (status_text_no_hash_cr _ T1) as Q1. pose proof (status_text_no_hash_cr _ T2) as Q2.
    unfold no_hash_cr in *. norm_len. rewrite !forallb_app, Q1, Q2. reflexivity.
Qed.

(* ================= the last-marker cut ================= *)
Lemma last_index_none_tail : forall t h m,
  forallb (fun b => negb (b =? h)) t = true -> last_index_of (h :: m) t = None.
Proof.
  induction t as [|b t IH]; intros h m H; [reflexivity|].
  cbn [forallb] in H. apply andb_true_iff in H. destruct H as [Hb Ht].
  cbn [last_index_of]. rewrite (IH h m Ht). cbn [has_prefix]. rewrite (N.eqb_sym h b).
  destruct (b =? h); [discriminate|reflexivity].
Qed.

Lemma last_index_app_some : forall (pat j r : list byte) i,
  last_index_of pat r = Some i -> last_index_of pat (j ++ r) = Some (length j + i)%nat.
Proof.
  induction j as [|b j IH]; intros r i H; [exact H|].
  cbn [app length last_index_of plus]. rewrite (IH r i H). reflexivity.
Qed.

Lemma has_prefix_straddle : forall m u h x,
  forallb (fun b => negb (b =? h)) m = true ->
  has_prefix m (u ++ h :: x) = true -> has_prefix m u = true.
Proof.
  induction m as [|a m IH]; intros u h x Hm H; [destruct u; reflexivity|].
  cbn [forallb] in Hm. apply andb_true_iff in Hm. destruct Hm as [Ha Hm].
  destruct u as [|c u].
  - cbn [app has_prefix] in H. destruct (a =? h); [discriminate|discriminate].
  - cbn [app has_prefix] in *. apply andb_true_iff in H. destruct H as [-> H].
    exact (IH u h x Hm H).
Qed.

Lemma last_index_app_none : forall junk h m St,
  forallb (fun b => negb (b =? h)) m = true ->
  contains (h :: m) junk = false ->
  last_index_of (h :: m) (h :: St) = None ->
  last_index_of (h :: m) (junk ++ h :: St) = None.
Proof.
  induction junk as [|b junk IH]; intros h m St Hm Hc Hr; [exact Hr|].
  apply contains_cons in Hc. destruct Hc as [H1 H2].
  cbn [app last_index_of]. rewrite (IH h m St Hm H2 Hr).
  destruct (has_prefix (h :: m) (b :: junk ++ h :: St)) eqn:E; [|reflexivity].
  cbn [has_prefix] in E, H1. apply andb_true_iff in E. destruct E as [E1 E2].
  rewrite E1 in H1. cbn [andb] in H1.
  rewrite (has_prefix_straddle m junk h St Hm E2) in H1. discriminate.
Qed.



Theorem marker_cut_junk ty junk St :
  forallb (fun b => negb (b =? HASH)) (ty ++ [COLON]) = true ->
  forallb (fun b => negb (b =? HASH)) St = true ->
  (contains (HASH :: ty ++ [COLON]) junk = false \/ has_prefix (ty ++ [COLON]) St = true) ->
  marker_cut ty (junk ++ HASH :: St) = HASH :: St.
Proof.
  intros Hty HS Hj. unfold marker_cut. rewrite marker_eq.
  assert (Htail: last_index_of (HASH :: ty ++ [COLON]) St = None) by (apply last_index_none_tail, HS).
  destruct (has_prefix (HASH :: ty ++ [COLON]) (HASH :: St)) eqn:P.
  - assert (R: last_index_of (HASH :: ty ++ [COLON]) (HASH :: St) = Some O).
    { cbn [last_index_of]. rewrite Htail, P. reflexivity. }
    erewrite last_index_app_some by exact R. rewrite Nat.add_0_r. apply skipn_len_exact.
  - assert (R: last_index_of (HASH :: ty ++ [COLON]) (HASH :: St) = None).
    { cbn [last_index_of]. rewrite Htail, P. reflexivity. }
    destruct Hj as [Hj|Hj]; [|cbn [has_prefix] in P; rewrite N.eqb_refl, Hj in P; discriminate].
    erewrite last_index_app_none by eassumption.
    assert (R1: last_index_of [Consts.recv_fallback_byte] (HASH :: St) = Some O).
    { change Consts.recv_fallback_byte with HASH. cbn [last_index_of].
      rewrite (last_index_none_tail St HASH [] HS). reflexivity. }
    erewrite last_index_app_some by exact R1. rewrite Nat.add_0_r.
    destruct junk as [|b junk]; [reflexivity|].
    change (length (b :: junk)) with (S (length junk)).
    change (skipn (S (length junk)) ((b :: junk) ++ HASH :: St)) with (skipn (length junk) (junk ++ HASH :: St)).
    apply skipn_len_exact.
Qed.

(* ================= C16, tmux ================= *)
Lemma plain_text_split l : plain_text l = true ->
  no_lf_etx l = true /\ noesc l = true /\ no_hash_cr l = true.
Proof.
  unfold plain_text, no_lf_etx, noesc, no_hash_cr. rewrite !forallb_forall. intros H.
  repeat split; intros b Hb; specialize (H b Hb);
    destruct (b =? LF), (b =? CR), (b =? ETX), (b =? ESC), (b =? HASH); cbn in *; congruence.
Qed.

Lemma no_hash_cr_split l : no_hash_cr l = true ->
  forallb (fun b => negb (b =? HASH)) l = true /\ forallb (fun b => negb (b =? CR)) l = true.
Proof.
  unfold no_hash_cr. rewrite !forallb_forall. intros H.
  split; intros b Hb; specialize (H b Hb); destruct (b =? HASH), (b =? CR); cbn in *; congruence.
Qed.

Lemma status_text_no_lf_etx t : status_text t = true -> no_lf_etx t = true.
Proof.
  unfold status_text, no_lf_etx. rewrite !forallb_forall. intros H b Hb. specialize (H b Hb).
  destruct (b =? LF), (b =? CR), (b =? ETX), (b =? HASH); cbn in *; congruence.
Qed.

Lemma with_status_no_lf_etx : forall l s, with_status l s -> no_lf_etx l = true -> no_lf_etx s = true.
Proof.
  induction 1 as [|b l s W IH|t1 t2 l s T1 C1 T2 C2 W IH|t T C|t1 t2 T1 C1 T2 C2]; intros Hl.
  - reflexivity.
  - unfold no_lf_etx in *. cbn [forallb] in *. apply andb_true_iff in Hl. destruct Hl as [-> Hl]. exact (IH Hl).
  - pose proof (status_text_no_lf_etx _ T1) as Q1. pose proof (status_text_no_lf_etx _ T2) as Q2. specialize (IH Hl).
    unfold no_lf_etx in *. norm_len. rewrite !forallb_app, Q1, Q2, IH. reflexivity.
  - pose proof (status_text_no_lf_etx _ T) as Q1.
    unfold no_lf_etx in *. norm_len. rewrite !forallb_app, Q1. reflexivity.
  - pose proof (status_text_no_lf_etx _ T1) as Q1. pose proof (status_text_no_lf_etx _ T2) as Q2.
    unfold no_lf_etx in *. norm_len. rewrite !forallb_app, Q1, Q2. reflexivity.
Qed.

(* the flat stream: the noisy rendering, its LF, anything behind *)
Theorem tmux_flat ty pl s rest :
  plain_text ty = true -> plain_text pl = true -> tmux_noisy ty pl s ->
  exists L, junk_bytes [] (s ++ LF :: rest) = FDone L rest /\
            strip_tmux_status (marker_cut ty L) = HASH :: ty ++ COLON :: pl.
Proof.
  intros Hty Hpl [junk St s' Hjunk Hmk WS W].
  destruct (plain_text_split _ Hty) as (Ty1 & Ty2 & Ty3).
  destruct (plain_text_split _ Hpl) as (Pl1 & Pl2 & Pl3).
  set (inner := ty ++ COLON :: pl) in *.
  assert (I1: no_lf_etx inner = true).
  { unfold inner, no_lf_etx in *. norm_len. rewrite forallb_app, Ty1. cbn [forallb]. rewrite Pl1. reflexivity. }
  assert (I2: noesc inner = true).
  { unfold inner, noesc in *. norm_len. rewrite forallb_app, Ty2. cbn [forallb]. rewrite Pl2. reflexivity. }
  assert (I3: no_hash_cr inner = true).
  { unfold inner, no_hash_cr in *. norm_len. rewrite forallb_app, Ty3. cbn [forallb]. rewrite Pl3. reflexivity. }
  pose proof (with_status_no_hash_cr _ _ WS I3) as S3.
  pose proof (with_status_no_lf_etx _ _ WS I1) as S1.
  destruct (no_hash_cr_split _ S3) as [Sh Sc].
  exists (junk ++ HASH :: St). split.
  - rewrite (junk_bytes_wrapped _ _ W).
    + cbn [app]. rewrite ends_cr_app by discriminate.
      rewrite ends_cr_nocr; [reflexivity|]. cbn [forallb]. exact Sc.
    + unfold no_lf_etx in *. norm_len. rewrite forallb_app, Hjunk. cbn [forallb]. rewrite S1. reflexivity.
  - rewrite marker_cut_junk; [| |exact Sh|exact Hmk].
    + unfold strip_tmux_status.
      change (HASH :: St) with ([HASH] ++ St).
      rewrite (strip_with_status _ _ WS [HASH]); [reflexivity|reflexivity|exact I2|lia].
    + destruct (no_hash_cr_split _ Ty3) as [Th _]. rewrite forallb_app. apply andb_true_iff.
      split; [exact Th|reflexivity].
Qed.

Theorem tmux_recovered ty pl s pend rest :
  plain_text ty = true -> plain_text pl = true -> tmux_noisy ty pl s ->
  concat pend = s ++ LF :: rest ->
  exists p', recv_line_junk ty pend = Done (HASH :: ty ++ COLON :: pl) p' /\ concat p' = rest.
Proof.
  intros Hty Hpl Hn Hc. destruct (tmux_flat ty pl s rest Hty Hpl Hn) as (L & HL & HS).
  pose proof (read_line_junk_flat pend) as F. rewrite Hc, HL in F.
  unfold recv_line_junk, recv_line.
  destruct (read_line true [] pend) as [d p'| |p']; cbn [obs_of] in F; try discriminate.
  inversion F; subst. exists p'. rewrite HS. auto.
Qed.

(* ================= Ctrl-C, line readers of buffer.go ================= *)
Lemma junk_bytes_interrupt : forall a acc b,
  junk_bytes acc a = FBlocked -> junk_bytes acc (a ++ intr :: b) = FInterrupted.
Proof.
  induction a as [|x a IH]; intros acc b H.
  - cbn [app junk_bytes]. rewrite N.eqb_refl. reflexivity.
  - cbn [app junk_bytes] in *. destruct (x =? intr); [reflexivity|].
    destruct (x =? nl).
    + destruct (ends_cr acc); [apply IH, H|discriminate].
    + apply IH, H.
Qed.

(* If the line is not complete before a Ctrl-C, the read is interrupted: whatever the
   chunking, whatever follows. *)
Theorem read_line_ctrl_c junk pend a b :
  concat pend = a ++ intr :: b ->
  ref_step (OpLine junk) a = FBlocked ->
  exists p', read_line junk [] pend = Interrupted p'.
Proof.
  intros Hc Hb.
  assert (F: obs_of (read_line junk [] pend) = FInterrupted).
  { change (read_line junk [] pend) with (step (OpLine junk) pend). rewrite step_flat, Hc.
    destruct junk; cbn [ref_step] in *.
    - rewrite junk_bytes_ref in * by lia. apply junk_bytes_interrupt, Hb.
    - unfold ref_line in *. destruct (split_at nl a) as [pre [post|]] eqn:E.
      + destruct (has_byte intr pre); discriminate.
      + destruct (split_at_none _ _ _ E) as [-> Hn]. destruct (has_byte intr a) eqn:X; [discriminate|].
        rewrite (split_at_app_none _ _ (intr :: b) _ E).
        destruct (split_at nl (intr :: b)) as [p2 r2] eqn:E2.
        assert (has_byte intr p2 = true) as Hp2.
        { cbn [split_at] in E2. change (intr =? nl) with false in E2.
          destruct (split_at nl b) as [p3 r3]. inversion E2; subst.
          cbn [has_byte existsb]. rewrite N.eqb_refl. reflexivity. }
        rewrite has_byte_app, Hp2, orb_true_r. destruct r2; reflexivity. }
  destruct (read_line junk [] pend) as [d p'| |p']; cbn [obs_of] in F; try discriminate.
  exists p'. reflexivity.
Qed.
