(* Proofs about the pause / resume model (C18). *)
From Trzsz Require Import Base.Bytes Gen.Consts Gen.Skel_pause Model.Pause.
From Coq Require Import Lia.
From Coq Require String.

(* ---------- the source still has the shape the model transcribes ---------- *)

Module SkelPin.
Import Coq.Strings.String.
Local Open Scope string_scope.

Definition expected_recvCheckV2 : list sk :=
  [ SK "pause := false" [];
    SK "var pauseIdx uint32" [];
    SK "for " [SK "if t.transferConfig.Protocol >= kProtocolVersion3" [SK "then" [SK "pauseIdx = t.pauseIdx.Load()" []; SK "for t.pausing.Load()" [SK "pause = true" []; SK "if err := t.checkStop(); err != nil" [SK "then" [SK "return nil, nil, pause, err" []]]; SK "time.Sleep(100 * time.Millisecond)" []]]]; SK "beginTime := timeNowFunc()" []; SK "line, err := t.recvLine(expectType, false, t.getNewTimeout())" []; SK "if t.transferConfig.Protocol >= kProtocolVersion3 && err == errReceiveDataTimeout && pauseIdx < t.pauseIdx.Load()" [SK "then" [SK "pause = true" []; SK "continue" []]]; SK "if err != nil" [SK "then" [SK "return nil, nil, pause, err" []]]; SK "if _" [SK "then" [SK "return nil, nil, pause, newTrzszError(encodeBytes(line), ""colon"", true)" []]]; SK "if string(typ) != expectType" [SK "then" [SK "return nil, nil, pause, newTrzszError(string(buf), string(typ), true)" []]]; SK "if t.transferConfig.Protocol >= kProtocolVersion3" [SK "then" [SK "if len(buf) == 1 && buf[0] == '='" [SK "then" [SK "pause = true" []; SK "continue" []]]; SK "if rbt := t.resumeBeginTime.Load(); rbt != nil && beginTime.Before(*rbt)" [SK "then" [SK "t.resumeBeginTime.CompareAndSwap(rbt, nil)" []; SK "beginTime = *rbt" []; SK "pause = true" []]]]]; SK "return buf, &beginTime, pause, nil" []] ].

Definition expected_checkStopAndPause : list sk :=
  [ SK "if t.transferConfig.Protocol >= kProtocolVersion3" [SK "then" [SK "for t.pausing.Load()" [SK "if err := t.checkStop(); err != nil" [SK "then" [SK "return err" []]]; SK "if err := t.writeAll([]byte(fmt.Sprintf(""#%s:=%s"", typ, t.transferConfig.Newline))); err != nil" [SK "then" [SK "return err" []]]; SK "time.Sleep(100 * time.Millisecond)" []]]];
    SK "return t.checkStop()" [] ].

Definition expected_sendDataV2 : list sk :=
  [ SK "if err := t.checkStopAndPause(""DATA""); err != nil" [SK "then" [SK "return nil, err" []]];
    SK "beginTime := timeNowFunc()" [];
    SK "if _" [SK "then" [SK "return &beginTime, t.writeAll(buffer)" []]];
    SK "if _" [SK "then" [SK "if err := t.writeAll([]byte(fmt.Sprintf(""#DATA:%d%s"", length, t.transferConfig.Newline))); err != nil" [SK "then" [SK "return nil, err" []]]; SK "return &beginTime, t.writeAll(buffer)" []]; SK "else" [SK "if err := t.writeAll([]byte(""#DATA:"")); err != nil" [SK "then" [SK "return nil, err" []]]; SK "if err := t.writeAll(buffer); err != nil" [SK "then" [SK "return nil, err" []]]; SK "return &beginTime, t.writeAll([]byte(t.transferConfig.Newline))" []]] ].

Definition expected_nextBuffer : list sk :=
  [ SK "if b.nextBuf != nil && b.nextIdx < len(b.nextBuf)" [SK "then" [SK "return b.nextBuf[b.nextIdx:], nil" []]];
    SK "for " [SK "select" [SK "case b.nextBuf = <-b.bufCh" [SK "return b.nextBuf, nil" []]; SK "case <-b.stopCh" [SK "return nil, errStopped" []]; SK "case <-b.timeout" [SK "if b.newTimeout != nil" [SK "then" [SK "b.timeout = b.newTimeout" []; SK "b.newTimeout = nil" []; SK "continue" []]]; SK "return nil, errReceiveDataTimeout" []]]] ].

Definition expected_readLine : list sk :=
  [ SK "b.timeout = timeout" [];
    SK "b.newTimeout = nil" [];
    SK "for " [SK "buf, err := b.nextBuffer()" []; SK "if err != nil" [SK "then" [SK "return nil, err" []]]; SK "if _" [SK "then" [SK "return nil, simpleTrzszError(""Interrupted"")" []]]; SK "if _" [SK "then" [SK "if _" [SK "then" [SK "continue" []]]; SK "return b.readBuf.Bytes(), nil" []]]] ].

Definition expected_pause : list sk :=
  [ SK "t.pausing.Store(true)" [];
    SK "if t.pauseBeginTime.Load() == 0" [SK "then" [SK "t.pauseIdx.Add(1)" []; SK "t.pauseBeginTime.CompareAndSwap(0, time.Now().UnixMilli())" []]] ].

Definition expected_resume : list sk :=
  [ SK "t.resumeBeginTime.Store(&now)" [];
    SK "t.pauseBeginTime.Store(0)" [];
    SK "t.buffer.setNewTimeout(t.getNewTimeout())" [];
    SK "t.pausing.Store(false)" [] ].

Definition expected_recvLine : list sk :=
  [ SK "if err := t.checkStop(); err != nil" [SK "then" [SK "return nil, err" []]];
    SK "if !t.tunnelConnected && (isWindowsEnvironment() || t.windowsProtocol)" [SK "then" [SK "line, err := t.buffer.readLineOnWindows(timeout)" []; SK "if err != nil" [SK "then" [SK "if e := t.checkStop(); e != nil" [SK "then" [SK "return nil, e" []]]; SK "return nil, err" []]]; SK "idx := bytes.LastIndex(line, []byte(""#""+expectType+"":""))" []; SK "return line, nil" []]];
    SK "line, err := t.buffer.readLine(mayHasJunk, timeout)" [];
    SK "if err != nil" [SK "then" [SK "if e := t.checkStop(); e != nil" [SK "then" [SK "return nil, e" []]]; SK "return nil, err" []]];
    SK "if _" [SK "then" [SK "idx := bytes.LastIndex(line, []byte(""#""+expectType+"":""))" []]];
    SK "return line, nil" [] ].

(* order of: pauseIdx snapshot, pausing loop (pause flag, checkStop, sleep), fresh timeout for the read,
   the timeout-and-pause-generation test, the type test, the "=" test, the resumeBeginTime adjustment;
   the gate: checkStop, keep-alive write, sleep, final checkStop; sendDataV2: gate before every write;
   nextBuffer: the three select arms and the newTimeout swap; readLine: timer set-up clears newTimeout;
   pause: generation bumped only when pauseBeginTime == 0; resume: new timer handed over BEFORE pausing
   is cleared; recvLine: checkStop before the read and after a failed read *)
Lemma skel_matches :
  skel_recvCheckV2 = expected_recvCheckV2 /\
  skel_checkStopAndPause = expected_checkStopAndPause /\
  skel_sendDataV2 = expected_sendDataV2 /\
  skel_nextBuffer = expected_nextBuffer /\
  skel_readLine = expected_readLine /\
  skel_pause = expected_pause /\
  skel_resume = expected_resume /\
  skel_recvLine = expected_recvLine.
Proof. repeat split; reflexivity. Qed.

End SkelPin.

(* what is written while pausing is what the reader skips; the sleeps are 100 ms; the window is 5 *)
Lemma pause_consts_ok :
  pause_keepalive_written = pause_keepalive_tested /\ pause_keepalive_tested = [61%N] /\
  pause_colon = 58%N /\ pause_gate_sleep_ms = 100%N /\ pause_reader_sleep_ms = 100%N /\
  pause_final_ack_poll_ms = 200%N /\ pause_ack_window = 5%N /\ pause_protocol3 = 3%N /\
  pause_timeout_unit_ms = 1000%N.
Proof. repeat split; reflexivity. Qed.

(* the keep-alive line the gate writes is classified as a keep-alive by the reader, for every type
   that contains no colon *)
Lemma index_byte_app_notin : forall b l r, index_byte b l = None -> index_byte b (l ++ b :: r) = Some (List.length l).
Proof.
  induction l as [|x l IH]; intros r H; cbn [index_byte app List.length] in *.
  - rewrite N.eqb_refl. reflexivity.
  - destruct (x =? b)%N; [discriminate|].
    destruct (index_byte b l) eqn:E; [discriminate|]. rewrite (IH r eq_refl). reflexivity.
Qed.

Lemma list_eqb_refl : forall l, list_eqb l l = true.
Proof. induction l as [|x l IH]; cbn [list_eqb]; [reflexivity|]. rewrite N.eqb_refl, IH. reflexivity. Qed.

Lemma keepalive_is_keep : forall typ, index_byte pause_colon typ = None -> (35 =? pause_colon)%N = false ->
  classify typ (keepalive_line typ) = CKeep.
Proof.
  intros typ H H35. unfold classify, keepalive_line.
  change (35%N :: typ ++ pause_colon :: pause_keepalive_written)
    with ((35%N :: typ) ++ pause_colon :: pause_keepalive_written).
  rewrite index_byte_app_notin.
  2:{ cbn [index_byte]. rewrite H35, H. reflexivity. }
  cbn [List.length].
  replace (firstn (List.length typ) (skipn 1 ((35%N :: typ) ++ pause_colon :: pause_keepalive_written))) with typ.
  2:{ change (skipn 1 ((35%N :: typ) ++ pause_colon :: pause_keepalive_written))
        with (typ ++ pause_colon :: pause_keepalive_written).
      rewrite firstn_app, Nat.sub_diag, firstn_all. cbn [firstn]. rewrite app_nil_r. reflexivity. }
  rewrite list_eqb_refl.
  replace (skipn (S (S (List.length typ))) ((35%N :: typ) ++ pause_colon :: pause_keepalive_written)) with pause_keepalive_written.
  2:{ change (skipn (S (S (List.length typ))) ((35%N :: typ) ++ pause_colon :: pause_keepalive_written))
        with (skipn (S (List.length typ)) (typ ++ pause_colon :: pause_keepalive_written)).
      rewrite skipn_app. rewrite skipn_all2 by lia.
      replace (S (List.length typ) - List.length typ)%nat with 1%nat by lia. reflexivity. }
  reflexivity.
Qed.

Lemma keepalive_DATA_SUCC :
  classify [68;65;84;65]%N (keepalive_line [68;65;84;65]%N) = CKeep /\
  classify [83;85;67;67]%N (keepalive_line [83;85;67;67]%N) = CKeep.
Proof. split; reflexivity. Qed.

(* ---------- (a) the reader ---------- *)

Local Open Scope nat_scope.

Definition timer_le (t : timer) (b : nat) : Prop := match t with None => True | Some r => r <= b end.

(* a read in progress has a timer (unless Timeout <= 0) *)
Definition has_timer (cf : cfg) (t : timer) : Prop :=
  match cT cf with O => t = None | S _ => exists r, t = Some r /\ 1 <= r <= cT cf end.

Lemma fresh_has_timer : forall cf, has_timer cf (fresh cf).
Proof. intros cf. unfold has_timer, fresh. destruct (cT cf) eqn:E; [reflexivity|]. exists (S n). split; [reflexivity|lia]. Qed.

Lemma fresh_le : forall cf, timer_le (fresh cf) (cT cf).
Proof. intros cf. unfold timer_le, fresh. destruct (cT cf); [exact I|lia]. Qed.

Lemma dec_le : forall t b, timer_le t b -> timer_le (dec t) b.
Proof. intros [[|r]|] b H; cbn in *; try exact I; lia. Qed.

Section ReaderProofs.
Variable L : Type.
Variable cls : L -> lclass.
Variable cf : cfg.
Hypothesis P3 : cP3 cf = true.

(* invariant of the reader machine *)
Definition rwf (s : rstate L) : Prop :=
  pausing (core s) = pbt (core s) /\
  timer_le (ntmo (core s)) (cT cf) /\
  match ph s with
  | PIdle => True
  | PGate snap j => snap <= pidx (core s) /\ j <= cSL cf
  | PRead snap =>
    queue s = [] /\ stopped (core s) = false /\ snap <= pidx (core s) /\
    (pausing (core s) = true -> snap < pidx (core s)) /\ has_timer cf (tmo (core s))
  end.

Definition entry_ok (e : entry) (c : rcore) : Prop :=
  match e with
  | AtTop => True
  | AfterGate snap => snap <= pidx c
  | GotLine snap => snap <= pidx c /\ stopped c = false /\ (pausing c = true -> snap < pidx c) /\ has_timer cf (tmo c)
  end.

Lemma pre_cases : forall e c, entry_ok e c ->
  (exists c' p o, pre L cf e c = PExit L c' p o /\ pausing c' = pausing c /\ pbt c' = pbt c /\ pidx c' = pidx c /\
      ntmo c' = ntmo c /\ stopped c' = stopped c /\
      ((p = PIdle /\ exists b, o = Some (OStopped b)) \/
       (o = None /\ pausing c = true /\ stopped c = false /\ pflag c' = true /\
        exists snap, p = PGate snap (cSL cf) /\ snap <= pidx c))) \/
  (exists c' snap, pre L cf e c = PGo L c' snap /\ pausing c' = pausing c /\ pbt c' = pbt c /\ pidx c' = pidx c /\
      stopped c' = false /\ stopped c = false /\ snap <= pidx c /\ (pausing c = true -> snap < pidx c) /\ has_timer cf (tmo c') /\
      (match e with GotLine s0 => c' = c /\ snap = s0 | AtTop => c' = arm cf c /\ pausing c = false /\ snap = pidx c
                  | AfterGate s0 => c' = arm cf c /\ pausing c = false /\ snap = s0 end)).
Proof.
  intros e c He. destruct e as [|snap|snap]; unfold pre, gate_check; cbn [entry_ok] in *.
  - destruct (pausing c) eqn:Ep, (stopped c) eqn:Es; rewrite ?P3; cbn [andb].
    + left. eexists _, _, _. split; [reflexivity|]. cbn. repeat split; auto. left. eauto.
    + left. eexists _, _, _. split; [reflexivity|]. cbn. repeat split; auto. right. repeat split; auto. eexists. split; [reflexivity|lia].
    + left. eexists _, _, _. split; [reflexivity|]. repeat split; auto. left. eauto.
    + right. eexists _, _. split; [reflexivity|]. cbn. repeat split; auto; try discriminate. apply fresh_has_timer.
  - destruct (pausing c) eqn:Ep, (stopped c) eqn:Es; rewrite ?P3; cbn [andb].
    + left. eexists _, _, _. split; [reflexivity|]. cbn. repeat split; auto. left. eauto.
    + left. eexists _, _, _. split; [reflexivity|]. cbn. repeat split; auto. right. repeat split; auto. eexists. split; [reflexivity|lia].
    + left. eexists _, _, _. split; [reflexivity|]. repeat split; auto. left. eauto.
    + right. eexists _, _. split; [reflexivity|]. cbn. repeat split; auto; try discriminate. apply fresh_has_timer.
  - right. destruct He as (H1 & H2 & H3 & H4). eexists _, _. split; [reflexivity|]. repeat split; auto.
Qed.

Lemma rd_wf : forall q e c s' o, rd L cls cf q e c = (s', o) ->
  pausing c = pbt c -> timer_le (ntmo c) (cT cf) -> entry_ok e c -> rwf s'.
Proof.
  induction q as [|l q IH]; intros e c s' o H Hpb Hnt He; cbn [rd] in H;
    destruct (pre_cases e c He) as [(c' & p & o' & Hpre & E1 & E2 & E3 & E4 & E5 & Hcase)|(c' & snap & Hpre & E1 & E2 & E3 & E4 & E5 & E6 & E7 & E8 & E9)];
    rewrite Hpre in H.
  - inversion H; subst; clear H. unfold rwf; cbn [core ph queue]. rewrite E1, E2, E4. split; [auto|split;[auto|]].
    destruct Hcase as [(-> & _)|(_ & _ & _ & _ & snap & -> & Hs)]; [exact I|]. rewrite E3. split; [lia|lia].
  - inversion H; subst; clear H. unfold rwf; cbn [core ph queue]. rewrite E1, E2, E3.
    assert (Hn : timer_le (ntmo c') (cT cf)).
    { destruct e; [destruct E9 as [-> _]; exact I|destruct E9 as [-> _]; exact I|destruct E9 as [-> _]; exact Hnt]. }
    repeat split; auto.
  - inversion H; subst; clear H. unfold rwf; cbn [core ph queue]. rewrite E1, E2, E4. split; [auto|split;[auto|]].
    destruct Hcase as [(-> & _)|(_ & _ & _ & _ & snap & -> & Hs)]; [exact I|]. rewrite E3. split; [lia|lia].
  - assert (Hn : timer_le (ntmo c') (cT cf)).
    { destruct e; [destruct E9 as [-> _]; exact I|destruct E9 as [-> _]; exact I|destruct E9 as [-> _]; exact Hnt]. }
    destruct (cls l).
    + rewrite P3 in H. eapply IH; [exact H| | |exact I]; cbn; congruence.
    + destruct (cP3 cf && rbt c'); inversion H; subst; clear H; unfold rwf; cbn [core ph queue consume_rbt pausing pbt ntmo];
        (split; [congruence|split; [exact Hn|exact I]]).
    + inversion H; subst; clear H. unfold rwf; cbn [core ph queue]. split; [congruence|split; [exact Hn|exact I]].
    + inversion H; subst; clear H. unfold rwf; cbn [core ph queue]. split; [congruence|split; [exact Hn|exact I]].
Qed.

Lemma on_timeout_wf : forall q snap c s' o, on_timeout L cls cf q snap c = (s', o) ->
  pausing c = pbt c -> timer_le (ntmo c) (cT cf) -> rwf s'.
Proof.
  intros q snap c s' o H Hpb Hnt. unfold on_timeout in H.
  destruct (stopped c).
  - inversion H; subst. unfold rwf; cbn [core ph queue]. auto.
  - destruct (cP3 cf && (snap <? pidx c)).
    + eapply rd_wf; [exact H| | |exact I]; cbn; auto.
    + inversion H; subst. unfold rwf; cbn [core ph queue]. auto.
Qed.

Lemma rstep_wf : forall s e s' o, rwf s -> rstep L cls cf s e = (s', o) -> rwf s'.
Proof.
  intros s e s' o (Hpb & Hnt & Hph) H. destruct s as [c q p]; cbn [core queue ph] in *.
  destruct e as [|l| | | |]; cbn [rstep core queue ph] in H.
  - (* tick *)
    unfold rtick in H; cbn [core queue ph] in H.
    set (c1 := upd_timers c (dec (tmo c)) (dec (ntmo c))) in *.
    assert (Hpb1 : pausing c1 = pbt c1) by exact Hpb.
    assert (Hnt1 : timer_le (ntmo c1) (cT cf)) by (apply dec_le; exact Hnt).
    destruct p as [|snap j|snap].
    + inversion H; subst. unfold rwf; cbn [core ph queue]; repeat split; auto.
    + destruct Hph as (Hs & Hj). destruct j as [|[|k]].
      * eapply rd_wf; [exact H|auto|auto|exact Hs].
      * eapply rd_wf; [exact H|auto|auto|exact Hs].
      * inversion H; subst. unfold rwf; cbn [core ph queue]. repeat split; auto. lia.
    + destruct Hph as (Hq & Hst & Hs & Hlt & Htm).
      destruct (fired (tmo c1)) eqn:Ef.
      * destruct (ntmo c1) as [r'|] eqn:En.
        -- set (c2 := upd_timers c1 (Some r') None) in *.
           destruct (fired (tmo c2)) eqn:Ef2.
           ++ eapply on_timeout_wf; [exact H|exact Hpb|exact I].
           ++ inversion H; subst. unfold rwf; cbn [core ph queue]. repeat split; auto.
              unfold has_timer. cbn in Hnt1. cbn [tmo c2 upd_timers] in Ef2 |- *.
              destruct r' as [|r'']; [discriminate|].
              destruct (cT cf) eqn:ET; [lia|]. exists (S r''). split; [reflexivity|lia].
        -- eapply on_timeout_wf; [exact H|exact Hpb1|rewrite En; exact I].
      * inversion H; subst. unfold rwf; cbn [core ph queue]. repeat split; auto.
        unfold has_timer in *. cbn [tmo c1 upd_timers] in Ef |- *.
        destruct (cT cf) eqn:ET.
        -- rewrite Htm. reflexivity.
        -- destruct Htm as (r & Hr & Hr1). rewrite Hr in *. destruct r as [|[|r]]; cbn in *; try lia; try discriminate.
           exists (S r). split; [reflexivity|lia].
  - (* arrive *)
    destruct (stopped c) eqn:Est.
    + inversion H; subst. unfold rwf; cbn [core ph queue]. split; [auto|split; [auto|]].
      destruct p; auto. destruct Hph as (_ & Hc & _); discriminate.
    + destruct p as [|snap j|snap].
      * inversion H; subst. unfold rwf; cbn [core ph queue]; repeat split; auto.
      * inversion H; subst. unfold rwf; cbn [core ph queue]; repeat split; auto; apply Hph.
      * destruct Hph as (Hq & Hst & Hs & Hlt & Htm).
        eapply rd_wf; [exact H|auto|auto|]. cbn. auto.
  - (* pause *)
    inversion H; subst. unfold rwf, do_pause; cbn [core ph queue].
    destruct (pbt c) eqn:Eb; cbn [pausing pbt ntmo pidx stopped tmo]; (split; [reflexivity|split; [exact Hnt|]]).
    + destruct p as [|snap j|snap]; auto.
      destruct Hph as (Hq & Hst & Hs & Hlt & Htm). repeat split; auto.
    + destruct p as [|snap j|snap]; auto.
      * destruct Hph; split; lia.
      * destruct Hph as (Hq & Hst & Hs & Hlt & Htm). repeat split; auto; lia.
  - (* resume *)
    inversion H; subst. unfold rwf, do_resume; cbn [core ph queue pausing pbt ntmo pidx stopped tmo].
    split; [reflexivity|split; [apply fresh_le|]].
    destruct p as [|snap j|snap]; auto.
    destruct Hph as (Hq & Hst & Hs & Hlt & Htm). repeat split; auto. discriminate.
  - (* stop *)
    destruct (stopped c) eqn:Est.
    + inversion H; subst. unfold rwf; cbn [core ph queue]. split; [auto|split; [auto|]].
      destruct p; auto. destruct Hph as (_ & Hc & _); discriminate.
    + destruct p as [|snap j|snap]; inversion H; subst; unfold rwf; cbn [core ph queue]; repeat split; auto; apply Hph.
  - (* call *)
    destruct p as [|snap j|snap].
    + eapply rd_wf; [exact H| | |exact I]; cbn; auto.
    + inversion H; subst. unfold rwf; cbn [core ph queue]; repeat split; auto; apply Hph.
    + inversion H; subst. unfold rwf; cbn [core ph queue]; repeat split; auto; apply Hph.
Qed.

Lemma rinit_wf : rwf (rinit L).
Proof. unfold rwf, rinit; cbn. auto. Qed.

Lemma rrun_wf : forall es s s' os, rwf s -> rrun L cls cf s es = (s', os) -> rwf s'.
Proof.
  induction es as [|e es IH]; intros s s' os Hwf H; cbn [rrun] in H.
  - inversion H; subst; exact Hwf.
  - destruct (rstep L cls cf s e) as [s1 o] eqn:E1. destruct (rrun L cls cf s1 es) as [s2 os2] eqn:E2.
    inversion H; subst. eapply IH; [|exact E2]. eapply rstep_wf; eauto.
Qed.

(* ----- keep-alive lines ----- *)

(* a keep-alive at the head of the buffer is consumed, sets the pause flag and sends recvCheckV2 back to
   the top of its loop, whatever the entry point: it never completes or fails the read *)
Lemma rd_keep_head : forall l q e c c' snap, cls l = CKeep -> pre L cf e c = PGo L c' snap ->
  rd L cls cf (l :: q) e c = rd L cls cf q AtTop (upd_pflag c' true).
Proof. intros l q e c c' snap Hk Hpre. cbn [rd]. rewrite Hpre, Hk, P3. reflexivity. Qed.

Definition is_verdict (o : option (out L)) : Prop :=
  match o with Some (ODelivered _ _) => True | Some (OTimeout _) => True | Some (OBadLine _) => True | _ => False end.

(* a buffer holding only keep-alives produces no verdict: recvCheckV2 ends up blocked in a read with a
   FRESH timer, or in the pausing loop, or stopped *)
Lemma rd_all_keep : forall q e c s' o, Forall (fun l => cls l = CKeep) q ->
  rd L cls cf q e c = (s', o) -> (forall snap, e <> GotLine snap \/ q <> []) ->
  ~ is_verdict o /\
  (o = None ->
     ((exists snap, ph s' = PRead snap /\ queue s' = [] /\ tmo (core s') = fresh cf /\ ntmo (core s') = None) \/
      (exists snap, ph s' = PGate snap (cSL cf)))).
Proof.
  induction q as [|l q IH]; intros e c s' o Hall H Hne.
  - cbn [rd] in H. destruct e as [|snap|snap]; unfold pre, gate_check in H; rewrite ?P3 in H; cbn [andb] in H.
    + destruct (pausing c), (stopped c); inversion H; subst; cbn; split; auto; intros; try discriminate; eauto 8.
    + destruct (pausing c), (stopped c); inversion H; subst; cbn; split; auto; intros; try discriminate; eauto 8.
    + destruct (Hne snap); congruence.
  - inversion Hall as [|? ? Hl Hq]; subst.
    cbn [rd] in H. destruct (pre L cf e c) as [c' p o'|c' snap] eqn:Hpre.
    + inversion H; subst. destruct e as [|snap|snap]; unfold pre, gate_check in Hpre; rewrite ?P3 in Hpre; cbn [andb] in Hpre;
        try discriminate;
        destruct (pausing c), (stopped c); inversion Hpre; subst; cbn; split; auto; intros; try discriminate; eauto.
    + rewrite Hl, P3 in H. eapply IH; [exact Hq|exact H|]. intros; left; discriminate.
Qed.

Theorem keepalive_ignored : forall s l, rwf s -> cls l = CKeep ->
  exists s', rstep L cls cf s (EArrive l) = (s', None) /\
  match ph s with
  | PRead _ =>
    if pausing (core s)
    then ph s' = PGate (pidx (core s)) (cSL cf) /\ queue s' = [] /\ pflag (core s') = true
    else ph s' = PRead (pidx (core s)) /\ tmo (core s') = fresh cf /\ ntmo (core s') = None /\
         queue s' = [] /\ pflag (core s') = true
  | p => ph s' = p /\ core s' = core s
  end.
Proof.
  intros [c q p] l (Hpb & Hnt & Hph) Hk; cbn [core queue ph] in *.
  cbn [rstep core queue ph].
  destruct p as [|snap j|snap].
  - destruct (stopped c); eexists; split; try reflexivity; cbn; auto.
  - destruct (stopped c); eexists; split; try reflexivity; cbn; auto.
  - destruct Hph as (-> & Hst & Hs & Hlt & Htm). rewrite Hst. cbn [app].
    rewrite (rd_keep_head l [] (GotLine snap) c c snap Hk eq_refl).
    cbn [rd]. unfold pre, gate_check. rewrite P3. cbn [andb upd_pflag pausing stopped pidx]. rewrite Hst.
    destruct (pausing c); eexists; (split; [reflexivity|]); cbn; auto.
Qed.

(* ----- no false timeout ----- *)

Lemma rd_no_timeout : forall q e c s' o b, rd L cls cf q e c = (s', o) -> o <> Some (OTimeout b).
Proof.
  induction q as [|l q IH]; intros e c s' o b H; cbn [rd] in H.
  - destruct (pre L cf e c) as [c' p o'|c' snap] eqn:Hpre.
    + inversion H; subst. destruct e; unfold pre, gate_check in Hpre; try discriminate;
        destruct (cP3 cf && pausing c), (stopped c); inversion Hpre; subst; discriminate.
    + inversion H; subst; discriminate.
  - destruct (pre L cf e c) as [c' p o'|c' snap] eqn:Hpre.
    + inversion H; subst. destruct e; unfold pre, gate_check in Hpre; try discriminate;
        destruct (cP3 cf && pausing c), (stopped c); inversion Hpre; subst; discriminate.
    + destruct (cls l).
      * rewrite P3 in H. eapply IH; exact H.
      * destruct (cP3 cf && rbt c'); inversion H; subst; discriminate.
      * inversion H; subst; discriminate.
      * inversion H; subst; discriminate.
Qed.

(* recvCheckV2 returns the timeout error only when a timer expires in a read that began after the last
   pause began (snapshot = current generation, hence not pausing) and no un-expired resume timer is
   waiting to replace it *)
Theorem reader_no_false_timeout : forall s e s' b, rwf s ->
  rstep L cls cf s e = (s', Some (OTimeout b)) ->
  e = ETick /\ pausing (core s) = false /\
  exists snap, ph s = PRead snap /\ snap = pidx (core s) /\
    (ntmo (core s) = None \/ exists r, ntmo (core s) = Some r /\ r <= 1).
Proof.
  intros [c q p] e s' b (Hpb & Hnt & Hph) H; cbn [core queue ph] in *.
  assert (Hot : forall c1 snap, pidx c1 = pidx c -> pausing c1 = pausing c -> p = PRead snap ->
            on_timeout L cls cf q snap c1 = (s', Some (OTimeout b)) ->
            pausing c = false /\ snap = pidx c).
  { intros c1 snap E1 E2 -> Ho. destruct Hph as (Hq & Hst & Hs & Hlt & Htm).
    unfold on_timeout in Ho. destruct (stopped c1); [inversion Ho|].
    rewrite P3 in Ho. cbn [andb] in Ho. destruct (snap <? pidx c1) eqn:El.
    - exfalso. exact (rd_no_timeout _ _ _ _ _ _ Ho eq_refl).
    - apply Nat.ltb_ge in El. rewrite E1 in El. split; [|lia].
      destruct (pausing c) eqn:Ep; [|reflexivity]. specialize (Hlt eq_refl). lia. }
  destruct e as [|l| | | |]; cbn [rstep core queue ph] in H.
  - split; [reflexivity|]. unfold rtick in H; cbn [core queue ph] in H.
    set (c1 := upd_timers c (dec (tmo c)) (dec (ntmo c))) in *.
    destruct p as [|snap j|snap].
    + inversion H.
    + destruct j as [|[|k]]; try (exfalso; exact (rd_no_timeout _ _ _ _ _ _ H eq_refl)). inversion H.
    + destruct (fired (tmo c1)); [|inversion H].
      destruct (ntmo c1) as [r'|] eqn:En.
      * destruct (fired (tmo (upd_timers c1 (Some r') None))) eqn:Ef2; [|inversion H].
        destruct (Hot (upd_timers c1 (Some r') None) snap eq_refl eq_refl eq_refl H) as (Hp & Hsn).
        split; [exact Hp|]. exists snap. repeat split; auto.
        cbn [tmo upd_timers] in Ef2. destruct r'; [|discriminate].
        unfold c1 in En; cbn [ntmo upd_timers] in En. right.
        destruct (ntmo c) as [[|[|r]]|]; cbn in En; try discriminate; eexists; split; try reflexivity; lia.
      * destruct (Hot c1 snap eq_refl eq_refl eq_refl H) as (Hp & Hsn).
        split; [exact Hp|]. exists snap. repeat split; auto.
        unfold c1 in En; cbn [ntmo upd_timers] in En.
        destruct (ntmo c) as [[|r]|]; cbn in En; try discriminate. left; reflexivity.
  - exfalso. destruct (stopped c); [inversion H|]. destruct p; try (inversion H; fail).
    exact (rd_no_timeout _ _ _ _ _ _ H eq_refl).
  - inversion H.
  - inversion H.
  - destruct (stopped c); [inversion H|]. destruct p; inversion H.
  - exfalso. destruct p; try (inversion H; fail). exact (rd_no_timeout _ _ _ _ _ _ H eq_refl).
Qed.

(* in particular: a timer that expires while the transfer is paused never yields an error *)
Corollary timer_in_pause_no_error : forall s s' o, rwf s -> pausing (core s) = true ->
  rstep L cls cf s ETick = (s', o) -> forall b, o <> Some (OTimeout b).
Proof.
  intros s s' o Hwf Hp H b ->. destruct (reader_no_false_timeout s ETick s' b Hwf H) as (_ & Hn & _). congruence.
Qed.

(* the pause generation only grows, and every pause that begins bumps it *)
Lemma pidx_pause : forall s, pausing (core s) = false -> rwf s ->
  pidx (core (fst (rstep L cls cf s EPause))) = S (pidx (core s)) /\ pausing (core (fst (rstep L cls cf s EPause))) = true.
Proof.
  intros [c q p] Hp (Hpb & _); cbn [core] in *. cbn [rstep core fst]. unfold do_pause.
  rewrite <- Hpb, Hp. cbn. auto.
Qed.

(* a blocked read always has a timer (Timeout > 0): there is no state in which the reader waits for
   input with nothing to wake it *)
Theorem reader_has_timer : forall es s os snap, rrun L cls cf (rinit L) es = (s, os) -> ph s = PRead snap ->
  has_timer cf (tmo (core s)) /\ stopped (core s) = false /\ queue s = [].
Proof.
  intros es s os snap H Hph. pose proof (rrun_wf es _ _ _ rinit_wf H) as (_ & _ & Hw).
  rewrite Hph in Hw. destruct Hw as (Hq & Hst & _ & _ & Htm). auto.
Qed.

End ReaderProofs.

(* ---------- (b) the gate ---------- *)

Section GateProofs.
Variable cf : cfg.
Hypothesis P3 : cP3 cf = true.

Definition passed (p : sphase) : nat := match p with SPassed => 1 | _ => 0 end.

Lemma count_frames_app : forall a b, count_frames (a ++ b) = count_frames a + count_frames b.
Proof. intros a b. unfold count_frames. rewrite filter_app, app_length. reflexivity. Qed.

(* one step of a paused sender: a frame is written only by a sender that had already passed its check,
   and nobody passes the check *)
Ltac inl := let x0 := fresh "x" in let Hx := fresh "Hx" in
  intros x0 Hx; cbn in Hx; repeat (destruct Hx as [<-|Hx]; auto); try contradiction.

Lemma sstep_paused : forall s e s' ws, s_pausing s = true -> e <> SResumeEv -> sstep cf s e = (s', ws) ->
  s_pausing s' = true /\ count_frames ws + passed (s_ph s') <= passed (s_ph s) /\
  (forall x, In x ws -> x = WFrame \/ x = WKeep \/ x = WStopErr).
Proof.
  intros [pa st p] e s' ws Hp Hne H; cbn [s_pausing s_stopped s_ph] in *; subst pa.
  destruct e; try congruence; cbn [sstep s_pausing s_stopped s_ph] in H.
  - destruct p as [|j|]; cbn [sphase_step] in H; try (inversion H; subst; cbn; repeat split; auto; inl).
    unfold gate_enter in H. rewrite P3 in H. cbn [andb] in H.
    destruct st; inversion H; subst; cbn; repeat split; auto; inl.
  - destruct p as [|j|]; cbn [sphase_step] in H; try (inversion H; subst; cbn; repeat split; auto; inl).
    destruct j as [|[|k]]; try (inversion H; subst; cbn; repeat split; auto; inl; fail);
      unfold gate_enter in H; rewrite P3 in H; cbn [andb] in H;
      destruct st; inversion H; subst; cbn; repeat split; auto; inl.
  - destruct p as [|j|]; cbn [sphase_step] in H; inversion H; subst; cbn; repeat split; auto; inl.
  - inversion H; subst; cbn. repeat split; auto. inl.
  - inversion H; subst; cbn. repeat split; auto. inl.
Qed.

(* while pausing (no resume among the events, any number of ticks, calls, stops, repeated pauses) the
   sender writes NO frame, except the single frame of a sender that was already past its pause check
   when the pause began; everything else it writes is keep-alives *)
Theorem gate_no_data : forall es s s' ws, s_pausing s = true -> ~ In SResumeEv es ->
  srun cf s es = (s', ws) ->
  count_frames ws + passed (s_ph s') <= passed (s_ph s) /\ s_pausing s' = true.
Proof.
  induction es as [|e es IH]; intros s s' ws Hp Hn H; cbn [srun] in H.
  - inversion H; subst. cbn. split; [lia|exact Hp].
  - destruct (sstep cf s e) as [s1 w] eqn:E1. destruct (srun cf s1 es) as [s2 ws2] eqn:E2.
    inversion H; subst; clear H.
    assert (He : e <> SResumeEv) by (intros ->; apply Hn; left; reflexivity).
    destruct (sstep_paused s e s1 w Hp He E1) as (Hp1 & Hle & _).
    destruct (IH s1 s' ws2 Hp1 (fun X => Hn (or_intror X)) E2) as (Hle2 & Hp2).
    rewrite count_frames_app. split; [lia|exact Hp2].
Qed.

(* the check itself is passed only while NOT pausing *)
Theorem gate_pass_not_pausing : forall s e s' ws, sstep cf s e = (s', ws) ->
  s_ph s <> SPassed -> s_ph s' = SPassed -> s_pausing s = false /\ s_stopped s = false.
Proof.
  intros [pa st p] e s' ws H Hn Hp; cbn [s_pausing s_stopped s_ph] in *.
  destruct pa; [|destruct st; [|auto]].
  - destruct e; try (inversion H; subst; cbn in Hp; congruence).
    + destruct (sstep_paused (mkS true st p) SCall s' ws eq_refl ltac:(discriminate) H) as (_ & Hle & _).
      cbn [s_ph] in Hle. rewrite Hp in Hle. destruct p; cbn in Hle; try lia. congruence.
    + destruct (sstep_paused (mkS true st p) STick s' ws eq_refl ltac:(discriminate) H) as (_ & Hle & _).
      cbn [s_ph] in Hle. rewrite Hp in Hle. destruct p; cbn in Hle; try lia. congruence.
    + destruct (sstep_paused (mkS true st p) SWrite s' ws eq_refl ltac:(discriminate) H) as (_ & Hle & _).
      cbn [s_ph] in Hle. rewrite Hp in Hle. destruct p; cbn in Hle; try lia. congruence.
  - exfalso. destruct e; cbn [sstep s_pausing s_stopped s_ph] in H;
      try (inversion H; subst; cbn in Hp; congruence);
      destruct p as [|[|[|k]]|]; cbn [sphase_step] in H; unfold gate_enter in H; rewrite ?P3 in H; cbn [andb] in H;
      inversion H; subst; cbn in Hp; congruence.
Qed.

(* after the resume the pending frame passes the gate at the sender's next wake-up: within one sleep *)
Theorem gate_resumes : forall j, j <= cGL cf ->
  exists k, k <= Nat.max 1 (cGL cf) /\
    srun cf (mkS false false (SSleep j)) (repeat STick k) = (mkS false false SPassed, []) /\
    srun cf (mkS false false SPassed) [SWrite] = (mkS false false SIdle, [WFrame]).
Proof.
  intros j Hj.
  assert (Hgo : forall j, exists k, k <= Nat.max 1 j /\
            srun cf (mkS false false (SSleep j)) (repeat STick k) = (mkS false false SPassed, [])).
  { induction j0 as [|j0 IH].
    - exists 1. split; [lia|]. cbn. unfold gate_enter. rewrite P3. reflexivity.
    - destruct j0 as [|j1].
      + exists 1. split; [lia|]. cbn. unfold gate_enter. rewrite P3. reflexivity.
      + destruct IH as (k & Hk & Hrun). exists (S k). split; [lia|].
        cbn [repeat srun sstep sphase_step s_pausing s_stopped s_ph]. rewrite Hrun. reflexivity. }
  destruct (Hgo j) as (k & Hk & Hrun). exists k. split; [lia|]. split; [exact Hrun|reflexivity].
Qed.

(* while pausing a sender at the gate writes one keep-alive per wake-up (every cGL ticks) *)
Lemma gate_keepalive_each_wake : forall j, j <= 1 ->
  sstep cf (mkS true false (SSleep j)) STick = (mkS true false (SSleep (cGL cf)), [WKeep]).
Proof.
  intros [|[|j]] Hj; try lia; cbn; unfold gate_enter; rewrite P3; reflexivity.
Qed.

End GateProofs.

(* ---------- the same, for every state reachable from the initial one ---------- *)

Section Reach.
Variable L : Type.
Variable cls : L -> lclass.
Variable cf : cfg.
Hypothesis P3 : cP3 cf = true.

Definition reachable (s : rstate L) : Prop := exists es os, rrun L cls cf (rinit L) es = (s, os).

Lemma reachable_wf : forall s, reachable s -> rwf L cf s.
Proof. intros s (es & os & H). exact (rrun_wf L cls cf P3 es _ _ _ (rinit_wf L cf) H). Qed.

Lemma keepalive_ignored_reach : forall s l, reachable s -> cls l = CKeep ->
  exists s', rstep L cls cf s (EArrive l) = (s', None) /\
  match ph s with
  | PRead _ =>
    if pausing (core s)
    then ph s' = PGate (pidx (core s)) (cSL cf) /\ queue s' = [] /\ pflag (core s') = true
    else ph s' = PRead (pidx (core s)) /\ tmo (core s') = fresh cf /\ ntmo (core s') = None /\
         queue s' = [] /\ pflag (core s') = true
  | p => ph s' = p /\ core s' = core s
  end.
Proof. intros s l Hr Hk. exact (keepalive_ignored L cls cf P3 s l (reachable_wf s Hr) Hk). Qed.

Lemma no_false_timeout_reach : forall s e s' b, reachable s ->
  rstep L cls cf s e = (s', Some (OTimeout b)) ->
  e = ETick /\ pausing (core s) = false /\
  exists snap, ph s = PRead snap /\ snap = pidx (core s) /\
    (ntmo (core s) = None \/ exists r, ntmo (core s) = Some r /\ r <= 1).
Proof. intros s e s' b Hr H. exact (reader_no_false_timeout L cls cf P3 s e s' b (reachable_wf s Hr) H). Qed.

Lemma timer_in_pause_no_error_reach : forall s s' o, reachable s -> pausing (core s) = true ->
  rstep L cls cf s ETick = (s', o) -> forall b, o <> Some (OTimeout b).
Proof. intros s s' o Hr. exact (timer_in_pause_no_error L cls cf P3 s s' o (reachable_wf s Hr)). Qed.

(* a pause that begins while a read is blocked makes that read's snapshot stale: whatever timer expires
   in it afterwards cannot produce the error (stated on the generation counter) *)
Lemma pause_bumps_generation : forall s, reachable s -> pausing (core s) = false ->
  pidx (core (fst (rstep L cls cf s EPause))) = S (pidx (core s)).
Proof. intros s Hr Hp. exact (proj1 (pidx_pause L cls cf s Hp (reachable_wf s Hr))). Qed.

End Reach.
