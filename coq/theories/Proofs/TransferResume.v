(* The resume exchange inside the whole-transfer model (C01, Model/Transfer.v), composed from
   Model/Resume.v and the lemmas behind C08 (Proofs/Resume.v): [agree] = C08_agree,
   [identical] = C08_identical, [run_exchange] (the closed form of a completed exchange).

   Here: what Transfer.v's use of Resume.v's functions amounts to - the exchange of one file as
   the three functions it is made of (hash sender, receiver, ack reader), the receiver's loop taken
   one record at a time, and the content the destination ends with. *)
From Coq Require Import ZArith Lia.
From Trzsz Require Import Base.Bytes Gen.Consts Model.Path Model.Fs Model.Names Model.Transfer Proofs.PathFs.
From Trzsz Require Model.Resume Proofs.Resume.

Import Model.Resume.

Lemma hash_B_pos : (0 < tr_hash_B)%N.
Proof. exact Proofs.Resume.step_positive_src_ok. Qed.

(* both models read the same protocol switch *)
Lemma resume_proto_src_ok : Consts.resume_min_protocol = Consts.tr_proto_json_names.
Proof. reflexivity. Qed.

Lemma json_names_resume_proto c : tr_json_names c = true -> (tc_proto c <? Consts.resume_min_protocol) = false.
Proof. unfold tr_json_names. rewrite resume_proto_src_ok. intro Hp. apply N.leb_le in Hp. apply N.ltb_ge. exact Hp. Qed.

(* ---------- the file replaced ---------- *)
Lemma set_file_lookup st p x q : lookup (st_fs (tr_set_file st p x)) q = if path_eqb p q then Some (File x) else lookup (st_fs st) q.
Proof. unfold tr_set_file, tr_set_fs. cbn [st_fs]. apply lookup_set. Qed.
Lemma set_file_map st p x : st_map (tr_set_file st p x) = st_map st.
Proof. reflexivity. Qed.

(* ---------- the rest of a file behind an offset ---------- *)
Lemma skip_chunks_concat : forall cs n, concat (tr_skip_chunks n cs) = skipn n (concat cs).
Proof.
  induction cs as [|ch cs IH]; intro n; cbn [tr_skip_chunks concat]; [rewrite skipn_nil; reflexivity|].
  destruct (Nat.leb_spec (length ch) n) as [Hle|Hgt].
  - rewrite IH, skipn_app. rewrite (skipn_all2 ch) by exact Hle. reflexivity.
  - cbn [concat]. rewrite skipn_app. replace (n - length ch)%nat with O by lia. reflexivity.
Qed.

Lemma rem_entry_data e ms : te_data (tr_rem_entry e ms) = skipn (Z.to_nat ms) (te_data e).
Proof. unfold tr_rem_entry, te_data. cbn [te_chunks]. apply skip_chunks_concat. Qed.

Lemma resume_size_min e (old : list byte) : tr_resume_size e (tr_blen old) = Nat.min (length (te_data e)) (length old).
Proof. unfold tr_resume_size, tr_blen. lia. Qed.

(* ---------- the receiver's loop, record by record ---------- *)
Section Recv.
Variable B : N.
Variable H : list byte -> digest.

Lemma recv_hashes_app dst : forall a b st,
  recv_hashes B H dst (a ++ b) st =
  match recv_hashes B H dst a st with RBlocked st' => recv_hashes B H dst b st' | r => r end.
Proof.
  induction a as [|m a IH]; intros b st; [reflexivity|]. cbn [app recv_hashes]. destruct m as [hstep h|]; [|reflexivity].
  destruct (negb (r_match st)); [apply IH|].
  destruct (Consts.resume_step_guard && _); [reflexivity|].
  destruct (_ <? 0)%Z; [reflexivity|]. destruct (_ <=? _)%Z; [apply IH | reflexivity].
Qed.

(* the answers only grow *)
Lemma recv_acks_grow dst : forall msgs st st',
  recv_hashes B H dst msgs st = RBlocked st' \/ recv_hashes B H dst msgs st = ROver st' ->
  exists ext, r_acks st' = r_acks st ++ ext.
Proof.
  induction msgs as [|m msgs IH]; intros st st' Hr.
  - cbn in Hr. destruct Hr as [Hr|Hr]; inversion Hr; subst. exists []. rewrite app_nil_r. reflexivity.
  - cbn [recv_hashes] in Hr. destruct m as [hstep h|].
    + destruct (negb (r_match st)); [apply IH, Hr|].
      destruct (Consts.resume_step_guard && _); [destruct Hr; discriminate|].
      destruct (_ <? 0)%Z; [destruct Hr; discriminate|]. destruct (_ <=? _)%Z; [|destruct Hr; discriminate].
      destruct (IH _ _ Hr) as (ext & He). cbn [r_acks] in He. rewrite <- app_assoc in He. eauto.
    + destruct Hr as [Hr|Hr]; inversion Hr; subst. exists []. rewrite app_nil_r. reflexivity.
Qed.

(* one HASH record never ends the loop *)
Lemma recv_one_not_over dst s h st st' : recv_hashes B H dst [Hash s h] st <> ROver st'.
Proof.
  cbn [recv_hashes]. destruct (negb (r_match st)); [discriminate|].
  destruct (Consts.resume_step_guard && _); [discriminate|].
  destruct (_ <? 0)%Z; [discriminate|]. destruct (_ <=? _)%Z; discriminate.
Qed.
(* ... nor does any run of HASH records *)
Lemma recv_hashes_no_over dst : forall hs st st', (forall m, In m hs -> m <> Over) -> recv_hashes B H dst hs st <> ROver st'.
Proof.
  induction hs as [|m hs IH]; intros st st' Hall; [discriminate|]. cbn [recv_hashes].
  destruct m as [hstep h|]; [|exfalso; apply (Hall Over); [left; reflexivity | reflexivity]].
  assert (Hall' : forall m, In m hs -> m <> Over) by (intros m Hm; apply Hall; right; exact Hm).
  destruct (negb (r_match st)); [apply IH, Hall'|].
  destruct (Consts.resume_step_guard && _); [discriminate|].
  destruct (_ <? 0)%Z; [discriminate|]. destruct (_ <=? _)%Z; [apply IH, Hall' | discriminate].
Qed.
(* the hash sender always produces a run of HASH records ended by Over *)
Lemma send_hashes_shape : forall fuel stops src size step fed hs,
  send_hashes B H fuel stops src size step fed = Some hs -> exists hl, hs = hl ++ [Over] /\ forall m, In m hl -> m <> Over.
Proof.
  induction fuel as [|fuel IH]; intros stops src size step fed hs; cbn [send_hashes].
  - destruct (_ && _); [discriminate|]. intro Hx; inversion Hx. exists []. split; [reflexivity | intros m Hm; destruct Hm].
  - destruct (_ && _).
    + destruct (send_hashes B H fuel _ src size _ _) as [r|] eqn:E; [|discriminate]. intro Hx; inversion Hx; subst hs.
      destruct (IH _ _ _ _ _ _ E) as (hl & -> & Hall). eexists (_ :: hl). split; [reflexivity|].
      intros m [<-|Hm]; [discriminate | apply Hall, Hm].
    + intro Hx; inversion Hx. exists []. split; [reflexivity | intros m Hm; destruct Hm].
Qed.

End Recv.

(* ---------- one file, both ends ---------- *)
Section Exchange.
Variable hx : list byte -> digest.

Notation B := tr_hash_B.

(* the exchange of Resume.run taken apart: what the hash sender emits, where the receiver's loop
   ends, what the ack reader concludes, and the outcome made of them *)
Lemma resume_run_inv c e sc old o : tr_json_names c = true -> old <> [] ->
  tr_resume_run hx c e sc old = Done o ->
  let src := te_data e in
  let size := Nat.min (length src) (length old) in
  exists hs rst ms,
    send_hashes B hx size (sc_hstops sc) src size 0 [] = Some hs /\
    recv_hashes B hx old hs r_init = ROver rst /\
    recv_hash_acks (Z.of_nat size) (r_acks rst) = SDone ms /\
    o = mkOut hs (r_acks rst) (r_mstep rst) ms (skipn (Z.to_nat ms) src)
          (f_data (f_write (f_truncate (f_seek (mkFile old (r_off rst)) (Z.to_nat (r_mstep rst))) (Z.to_nat (r_mstep rst)))
                           (skipn (Z.to_nat ms) src))).
Proof.
  intros Hj Hold. unfold tr_resume_run, run, opened. rewrite (json_names_resume_proto c Hj), Proofs.Resume.v3_keeps_src_ok.
  destruct (Nat.eqb_spec (length old) 0) as [He|_]; [destruct old; [congruence | discriminate]|].
  cbv zeta.
  destruct (send_hashes B hx _ (sc_hstops sc) (te_data e) _ 0 []) as [hs|]; [|discriminate].
  destruct (recv_hashes B hx old hs r_init) as [rst| | | |] eqn:Er; try discriminate.
  destruct (recv_hash_acks _ (r_acks rst)) as [ms| |] eqn:Ea; try discriminate.
  intro Hx. inversion Hx; subst o. exists hs, rst, ms. repeat split; assumption.
Qed.

(* the closed form (Proofs/Resume.run_exchange): the records are those of the announced steps, the
   answers those of the receiver on an honest sender, and the exchange completes exactly when the
   answers contain the verdict *)
Definition rs_steps (sc : tr_sched) (src old : list byte) : list nat :=
  let size := Nat.min (length src) (length old) in Proofs.Resume.steps_from B size (sc_hstops sc) size 0.

Lemma resume_run_cases c e sc old : tr_json_names c = true -> old <> [] ->
  let src := te_data e in
  let size := Nat.min (length src) (length old) in
  let l := rs_steps sc src old in
  let m := last (Proofs.Resume.take_good hx src old l) O in
  tr_resume_run hx c e sc old =
    if (size =? 0)%nat || Proofs.Resume.verdict hx src old size l
    then Done (mkOut (map (Proofs.Resume.mk hx src) l ++ [Over]) (Proofs.Resume.acks_of hx src old l)
                 (Z.of_nat m) (Z.of_nat m) (skipn m src) (firstn m old ++ skipn m src))
    else SenderBlocked (map (Proofs.Resume.mk hx src) l ++ [Over]) (Proofs.Resume.acks_of hx src old l).
Proof.
  intros Hj Hold. cbv zeta. unfold tr_resume_run, rs_steps.
  apply (Proofs.Resume.run_exchange B hx hash_B_pos (te_data e) old (tc_proto c) (sc_hstops sc) (json_names_resume_proto c Hj) Hold).
Qed.

Lemma rs_steps_props sc src old :
  let size := Nat.min (length src) (length old) in
  Proofs.Resume.incr 0 (rs_steps sc src old) /\ Forall (fun s => s <= size)%nat (rs_steps sc src old).
Proof. cbv zeta. unfold rs_steps. apply (Proofs.Resume.steps_incr B hash_B_pos). lia. Qed.

Lemma send_hashes_steps sc src old :
  let size := Nat.min (length src) (length old) in
  send_hashes B hx size (sc_hstops sc) src size 0 [] = Some (map (Proofs.Resume.mk hx src) (rs_steps sc src old) ++ [Over]).
Proof. cbv zeta. unfold rs_steps. apply (Proofs.Resume.send_spec B hx hash_B_pos); try lia. reflexivity. Qed.

(* the receiver on the records of the announced steps: it reaches Over, having answered each step
   up to and including the first that does not match *)
Lemma recv_honest_steps sc src old : exists rst,
  recv_hashes B hx old (map (Proofs.Resume.mk hx src) (rs_steps sc src old) ++ [Over]) r_init = ROver rst /\
  r_mstep rst = Z.of_nat (last (Proofs.Resume.take_good hx src old (rs_steps sc src old)) O) /\
  r_acks rst = Proofs.Resume.acks_of hx src old (rs_steps sc src old).
Proof.
  destruct (rs_steps_props sc src old) as [Hi Ha]. cbv zeta in Ha.
  assert (Ha' : Forall (fun s => s <= length old)%nat (rs_steps sc src old)).
  { eapply Forall_impl; [|exact Ha]. cbn. intros a Hx. lia. }
  assert (Hg : Proofs.Resume.gaps B 0 (rs_steps sc src old)).
  { unfold rs_steps. exact (Proofs.Resume.steps_gaps B hash_B_pos (Nat.min (length src) (length old)) (sc_hstops sc) (Nat.min (length src) (length old)) 0). }
  destruct (Proofs.Resume.recv_honest B hx hash_B_pos src old (rs_steps sc src old) 0 [] Hi Hg Ha') as (rst & Hr & Hm & Hk).
  exists rst. split; [exact Hr|]. split; [exact Hm | exact Hk].
Qed.

(* no collision on the compared prefixes: what is there in the end is the source (C08_identical) *)
Lemma resume_final_identical c e sc old o : tr_no_collision hx (te_data e) old ->
  tr_resume_run hx c e sc old = Done o -> o_final o = te_data e.
Proof.
  intros Hc Hr. exact (Proofs.Resume.identical B hx hash_B_pos (tc_proto c) (sc_hstops sc) (te_data e) old o Hc Hr).
Qed.

(* both ends agree on the offset (C08_agree) *)
Lemma resume_agree c e sc old o : tr_resume_run hx c e sc old = Done o -> o_mrecv o = o_msend o.
Proof.
  intro Hr. exact (proj1 (Proofs.Resume.agree B hx hash_B_pos (tc_proto c) (sc_hstops sc) (te_data e) old o Hr)).
Qed.

(* the exchange completes when the hash sender stops (if at all) only after the verdict *)
Lemma resume_run_done c e sc old : tr_stops_ok hx sc (te_data e) old ->
  exists o, tr_resume_run hx c e sc old = Done o.
Proof.
  unfold tr_stops_ok, tr_resume_run. intro Hst. destruct (te_data e) as [|b0 src'] eqn:Es.
  - destruct old as [|o0 old'].
    + rewrite (Proofs.Resume.run_no_exchange B hx [] [] (tc_proto c) (sc_hstops sc) (or_intror eq_refl)). eauto.
    + destruct (tc_proto c <? Consts.resume_min_protocol) eqn:Hp.
      * rewrite (Proofs.Resume.run_no_exchange B hx [] _ (tc_proto c) (sc_hstops sc) (or_introl Hp)). eauto.
      * rewrite (Proofs.Resume.run_empty_source_done B hx hash_B_pos [] (o0 :: old') (tc_proto c) (sc_hstops sc) Hp eq_refl ltac:(discriminate)). eauto.
  - rewrite <- Es in *. assert (Hne : te_data e <> []) by (rewrite Es; discriminate).
    destruct (sc_hstops sc) as [k|].
    + apply (Proofs.Resume.run_completes_stop B hx hash_B_pos (te_data e) old (tc_proto c) k Hne Hst).
    + apply (Proofs.Resume.run_completes B hx hash_B_pos (te_data e) old (tc_proto c) Hne).
Qed.

End Exchange.
