(* Model of zmodem.go (the whole file) and of the zmodem parts of filter.go's wrapOutput
   and sendInput.  Executable definitions only.

   One zmodem session is a state machine over five flags, the helper process handle,
   three timers and the reader goroutine; the filter holds a pointer to it.  The
   goroutines of the implementation (wrapOutput, wrapInput, handleZmodemEvent /
   handleZmodemStream, checkClientExited, the ensureClientExit killer, three
   time.AfterFunc callbacks) are abstracted to ONE EVENT = one complete activation of one
   of them, executed atomically; interleavings inside an activation are not modelled.
   Hidden by this abstraction (data races present in the source, all on unsynchronised
   plain fields): z.cleanupTimer is written by wrapOutput (handleServerOutput), by
   checkClientExited and - with the fix - by handleZmodemError; two concurrent
   resetCleanupTimer calls can leave two timers armed (cleaned stored twice, two "\r").
   z.clientTimer / z.serverTimer likewise.  A Ctrl-C between cmd.Start() and
   z.cmd.Store(cmd) sees cmd == nil.  filter.hidingCursor is a plain bool.

   [fixed] selects the code with hooks/fix_zmodem.diff applied (handleZmodemError arms
   the cleanup timer when there is no helper); [fixed = false] is the pinned upstream
   code. *)
From Trzsz Require Export Base.Bytes.
From Trzsz Require Import Gen.Consts.
From Coq Require Import ZArith.

(* ---- the two regular expressions, hand-written (sources pinned in Proofs/Zmodem.v) ---- *)

Definition is_hex_lc (b : N) : bool := ((48 <=? b) && (b <=? 57)) || ((97 <=? b) && (b <=? 102)).

(* the first n bytes exist and are [0-9a-f] *)
Fixpoint all_hex (n : nat) (l : list N) : bool :=
  match n with
  | O => true
  | S n' => match l with [] => false | b :: r => is_hex_lc b && all_hex n' r end
  end.

Definition init_prefix : list N := [42; 42; 24; 66; 48].        (* **\x18B0 *)
Definition finish_prefix : list N := [42; 42; 24; 66; 48; 56].  (* **\x18B08 *)

(* \*\*\x18B0(0|1)[0-9a-f]{12} anchored at the head of l; the result is "group 1 is '1'" *)
Definition init_at (l : list N) : option bool :=
  if has_prefix init_prefix l then
    match skipn 5 l with
    | d :: r => if ((d =? 48) || (d =? 49)) && all_hex 12 r then Some (d =? 49) else None
    | [] => None
    end
  else None.

(* FindSubmatch: leftmost match *)
Fixpoint init_find (l : list N) : option bool :=
  match init_at l with
  | Some u => Some u
  | None => match l with [] => None | _ :: r => init_find r end
  end.

Definition finish_at (l : list N) : bool := has_prefix finish_prefix l && all_hex 12 (skipn 6 l).

Fixpoint finish_find (l : list N) : bool :=
  finish_at l || match l with [] => false | _ :: r => finish_find r end.

(* len(buf) < 50 && zmodemFinishRegexp.Match(buf) *)
Definition is_finish (buf : list N) : bool :=
  (N.of_nat (length buf) <? Consts.zmodem_finish_max_len) && finish_find buf.

Definition has_cancel (buf : list N) : bool := contains Consts.zmodem_cancel_sub buf.
Definition has_cannot (buf : list N) : bool := contains Consts.zmodem_cannot_open buf.

(* detectZmodem: Some true = upload (the server runs rz, we start sz) *)
Definition detect_zmodem (buf : list N) : option bool :=
  match init_find buf with
  | None => None
  | Some up => if has_cancel buf || has_cannot buf then None else Some up
  end.

(* ---- state ---- *)

Inductive helper := HNone | HRun | HExit (code : Z).

Record zstate := mkZ {
  upload : bool;
  cf : bool;          (* clientFinished *)
  sf : bool;          (* serverFinished *)
  eo : bool;          (* errorOccurred *)
  stopped : bool;
  cleaned : bool;
  hp : helper;        (* z.cmd: nil / started and running / exited *)
  reader : bool;      (* the read loop of handleZmodemStream is running *)
  lpend : bool;       (* handleZmodemEvent has not yet finished its grace sleep ("the server may fail immediately") *)
  tcu : bool;         (* cleanup timer armed *)
  tcl : bool;         (* client timer armed *)
  tsv : bool;         (* server timer armed *)
  ksched : bool;      (* an ensureClientExit killer has been started *)
  gbegun : bool;      (* the goroutine handleZmodemEvent has begun (it is in, or past, its grace sleep) *)
}.

Definition set_cf (v : bool) (s : zstate) : zstate :=
  mkZ (upload s) v (sf s) (eo s) (stopped s) (cleaned s) (hp s) (reader s) (lpend s) (tcu s) (tcl s) (tsv s) (ksched s) (gbegun s).
Definition set_sf (v : bool) (s : zstate) : zstate :=
  mkZ (upload s) (cf s) v (eo s) (stopped s) (cleaned s) (hp s) (reader s) (lpend s) (tcu s) (tcl s) (tsv s) (ksched s) (gbegun s).
Definition set_eo (v : bool) (s : zstate) : zstate :=
  mkZ (upload s) (cf s) (sf s) v (stopped s) (cleaned s) (hp s) (reader s) (lpend s) (tcu s) (tcl s) (tsv s) (ksched s) (gbegun s).
Definition set_stopped (v : bool) (s : zstate) : zstate :=
  mkZ (upload s) (cf s) (sf s) (eo s) v (cleaned s) (hp s) (reader s) (lpend s) (tcu s) (tcl s) (tsv s) (ksched s) (gbegun s).
Definition set_cleaned (v : bool) (s : zstate) : zstate :=
  mkZ (upload s) (cf s) (sf s) (eo s) (stopped s) v (hp s) (reader s) (lpend s) (tcu s) (tcl s) (tsv s) (ksched s) (gbegun s).
Definition set_hp (v : helper) (s : zstate) : zstate :=
  mkZ (upload s) (cf s) (sf s) (eo s) (stopped s) (cleaned s) v (reader s) (lpend s) (tcu s) (tcl s) (tsv s) (ksched s) (gbegun s).
Definition set_reader (v : bool) (s : zstate) : zstate :=
  mkZ (upload s) (cf s) (sf s) (eo s) (stopped s) (cleaned s) (hp s) v (lpend s) (tcu s) (tcl s) (tsv s) (ksched s) (gbegun s).
Definition set_lpend (v : bool) (s : zstate) : zstate :=
  mkZ (upload s) (cf s) (sf s) (eo s) (stopped s) (cleaned s) (hp s) (reader s) v (tcu s) (tcl s) (tsv s) (ksched s) (gbegun s).
Definition set_tcu (v : bool) (s : zstate) : zstate :=
  mkZ (upload s) (cf s) (sf s) (eo s) (stopped s) (cleaned s) (hp s) (reader s) (lpend s) v (tcl s) (tsv s) (ksched s) (gbegun s).
Definition set_tcl (v : bool) (s : zstate) : zstate :=
  mkZ (upload s) (cf s) (sf s) (eo s) (stopped s) (cleaned s) (hp s) (reader s) (lpend s) (tcu s) v (tsv s) (ksched s) (gbegun s).
Definition set_tsv (v : bool) (s : zstate) : zstate :=
  mkZ (upload s) (cf s) (sf s) (eo s) (stopped s) (cleaned s) (hp s) (reader s) (lpend s) (tcu s) (tcl s) v (ksched s) (gbegun s).
Definition set_ksched (v : bool) (s : zstate) : zstate :=
  mkZ (upload s) (cf s) (sf s) (eo s) (stopped s) (cleaned s) (hp s) (reader s) (lpend s) (tcu s) (tcl s) (tsv s) v (gbegun s).
Definition set_gbegun (v : bool) (s : zstate) : zstate :=
  mkZ (upload s) (cf s) (sf s) (eo s) (stopped s) (cleaned s) (hp s) (reader s) (lpend s) (tcu s) (tcl s) (tsv s) (ksched s) v.

(* the filter: the session the pointer filter.zmodem refers to (or referred to last) and
   whether the pointer is set.  A session the filter has dropped keeps receiving its own
   events (helper exit, timers); it is replaced when the next session starts (events of
   a dropped session whose helper is still alive after that are outside the model). *)
Record fstate := mkF { zs : zstate; ptr : bool }.

Definition new_session (up : bool) : zstate :=
  mkZ up false false false false false HNone false true false false false false false.

(* no session: behaves like a finished one whose pointer is gone *)
Definition idle : fstate :=
  mkF (mkZ false false false false true true HNone false false false false false false true) false.

Inductive launch_res := LaunchOk | LaunchFail | ChooserErr.

Inductive event :=
| EvServer (buf : list N)      (* one read of the server's output in wrapOutput *)
| EvInput (buf : list N)       (* one read of the user's input in wrapInput; [3] is Ctrl-C *)
| EvLaunch (r : launch_res)    (* the grace sleep is over: stopped check, then chooser + launchZmodemCmd outcome *)
| EvHelperOut (buf : list N)   (* one read of the helper's stdout *)
| EvHelperEOF                  (* the helper's stdout is at EOF *)
| EvHelperReadErr              (* the read of the helper's stdout fails: cmd.Wait() closed the pipe under the reader *)
| EvHelperExit (code : Z)      (* cmd.Wait() returns in checkClientExited *)
| EvCleanupFire | EvClientFire | EvServerFire
| EvGraceBegin.                (* the goroutine handleZmodemEvent begins: stores its writers, starts the grace sleep *)

Inductive msg := MStopped | MSuccess | MExit (code : Z) | MLaunchFail | MChooser | MClientTimeout | MServerTimeout | MReadErr.
Inductive timer := TCleanup | TClient | TServer.

Inductive output :=
| OTerm (b : list N)       (* server bytes forwarded to the terminal *)
| OHide | OShow            (* cursor sequences written to the terminal *)
| OMsg (m : msg)           (* writeMessage *)
| OServer (b : list N)     (* data written to the server: helper output, typed input, the cleanup "\r" *)
| OCancelServer            (* zmodemCancelFullSequence to the server *)
| OCancelHelper            (* ... to the helper's stdin *)
| OOServer | OOHelper      (* zmodemOverAndOut *)
| OHelper (b : list N)     (* server bytes written to the helper's stdin *)
| OClaim | OForward        (* what happened to this server chunk *)
| OInput (forwarded : bool)(* what happened to this typed chunk *)
| OStart (up : bool)       (* a session was created and handleZmodemEvent started *)
| OArm (t : timer) | OStopT (t : timer)
| OKill                    (* ensureClientExit: kill the helper after zmodem_kill_delay_ms *)
| OLaunchHelper            (* a local rz / sz process was started *)
| OCrash.                  (* nil dereference in a goroutine without recover: the whole client process dies *)

Definition res := (zstate * list output)%type.
Definition andthen (r : res) (f : zstate -> res) : res :=
  let (s, o) := r in let (s', o') := f s in (s', o ++ o').

Definition is_transferring (s : zstate) : bool := negb (stopped s) || negb (cleaned s).

(* writes to the helper's stdin reach it only while it runs (errors are ignored by the code) *)
Definition to_helper (s : zstate) (o : output) : list output :=
  match hp s with HRun => [o] | _ => [] end.

Definition reset_cleanup (s : zstate) : res := (set_tcu true s, [OArm TCleanup]).
Definition reset_client (s : zstate) : res := if upload s then (set_tcl true s, [OArm TClient]) else (s, []).
Definition reset_server (s : zstate) : res := if upload s then (s, []) else (set_tsv true s, [OArm TServer]).

(* handleZmodemError; [alive = false]: the helper process is already gone although
   cmd.Wait() has not returned yet, so what is written to its stdin is lost *)
Definition handle_error_gen (fixed alive : bool) (m : msg) (s : zstate) : res :=
  if stopped s then (s, []) else
  let s1 := set_eo true (set_stopped true s) in
  match hp s1 with
  | HNone =>
    if fixed then (set_tcu true s1, [OCancelServer; OArm TCleanup; OMsg m])
    else (s1, [OCancelServer; OMsg m])
  | _ => (set_ksched true s1, [OCancelServer] ++ (if alive then to_helper s1 OCancelHelper else []) ++ [OKill; OMsg m])
  end.
Definition handle_error (fixed : bool) := handle_error_gen fixed true.

Definition ensure_over_and_out (s : zstate) : res :=
  if sf s && cf s then (s, if upload s then [OOServer] else to_helper s OOHelper) else (s, []).

(* handleServerOutput: result and whether the chunk was claimed *)
Definition handle_server_output (buf : list N) (s : zstate) : res * bool :=
  if stopped s then
    if cleaned s then ((s, []), false) else (reset_cleanup s, true)
  else
    match hp s with
    | HNone =>
      if has_cancel buf || has_cannot buf then ((set_stopped true (set_cleaned true s), []), false)
      else ((s, []), true)
    | _ =>
      (andthen (andthen (reset_server s)
         (fun s => if is_finish buf && negb (sf s) then ensure_over_and_out (set_sf true s) else (s, [])))
         (fun s => (s, to_helper s (OHelper buf))), true)
    end.

(* the tail of handleZmodemStream after its loop *)
Definition reader_end (s : zstate) : res :=
  (set_ksched true (set_reader false (set_tcl false s)), (if upload s then [OStopT TClient] else []) ++ [OKill]).

Definition helper_out (fixed : bool) (buf : list N) (s : zstate) : res :=
  if negb (reader s) then (s, []) else
  andthen (reset_client s) (fun s =>
    match buf with
    | [] => (s, [])
    | _ =>
      if eo s || (sf s && cf s) then reader_end s
      else andthen
        (if is_finish buf && negb (cf s) then ensure_over_and_out (set_cf true s) else (s, []))
        (fun s => (s, [OServer buf]))
    end).

Definition helper_eof (s : zstate) : res :=
  if negb (reader s) then (s, []) else andthen (reset_client s) reader_end.

(* Read returns an error other than EOF *)
Definition helper_readerr (fixed : bool) (s : zstate) : res :=
  if negb (reader s) then (s, [])
  else andthen (andthen (reset_client s) (handle_error_gen fixed false MReadErr)) reader_end.

(* checkClientExited *)
Definition helper_exit (code : Z) (s : zstate) : res :=
  match hp s with
  | HRun =>
    let s1 := set_stopped true (set_hp (HExit code) s) in
    let (s2, o2) := if upload s1 then (s1, []) else (set_tsv false s1, [OStopT TServer]) in
    (set_tcu true s2, o2 ++ [OMsg (if (code =? 0)%Z then MSuccess else MExit code); OArm TCleanup; OCancelServer])
  | _ => (s, [])
  end.

(* handleZmodemEvent: the goroutine begins (nothing observable; the stopped check is NOT here) *)
Definition grace_begin (s : zstate) : res :=
  if lpend s && negb (gbegun s) then (set_gbegun true s, []) else (s, []).

(* handleZmodemEvent after its grace sleep: only now is [stopped] looked at *)
Definition launch (fixed : bool) (r : launch_res) (s : zstate) : res :=
  if negb (lpend s && gbegun s) then (s, []) else
  let s := set_lpend false s in
  if stopped s then (s, []) else
  match r with
  | ChooserErr => handle_error fixed MChooser s
  | LaunchFail => handle_error fixed MLaunchFail s
  | LaunchOk => andthen (andthen (set_reader true (set_hp HRun s), [OLaunchHelper]) reset_client) reset_server
  end.

Definition cleanup_fire (s : zstate) : res :=
  if tcu s then (set_cleaned true (set_tcu false s), [OServer Consts.zmodem_cleanup_enter]) else (s, []).

Definition fres := (fstate * list output)%type.
Definition lift (p : bool) (r : res) : fres := (mkF (fst r) p, snd r).

(* wrapOutput from the zmodem hook onwards (no trzsz trigger in the chunk, not interrupting) *)
Definition server_chunk (buf : list N) (f : fstate) : fres :=
  let '(z1, o1, claimed) :=
    if ptr f then let '(r, c) := handle_server_output buf (zs f) in (fst r, snd r, c)
    else (zs f, [], false) in
  if claimed then (mkF z1 true, OClaim :: o1)
  else
    let o2 := o1 ++ (if ptr f then [OShow] else []) ++ [OForward; OTerm buf] in
    match detect_zmodem buf with
    | Some up => (mkF (new_session up) true, o2 ++ [OHide; OStart up])
    | None => (mkF z1 false, o2)
    end.

(* sendInput's zmodem block *)
Definition typed (fixed : bool) (buf : list N) (f : fstate) : fres :=
  if ptr f then
    let (z1, o1) := if list_eqb buf [Consts.zmodem_ctrl_c] then handle_error fixed MStopped (zs f) else (zs f, []) in
    if is_transferring z1 then (mkF z1 true, o1 ++ [OInput false])
    else (mkF z1 true, o1 ++ [OServer buf; OInput true])
  else (f, [OServer buf; OInput true]).

Definition step_gen (fixed : bool) (f : fstate) (e : event) : fres :=
  match e with
  | EvServer buf => server_chunk buf f
  | EvInput buf => typed fixed buf f
  | EvLaunch r => lift (ptr f) (launch fixed r (zs f))
  | EvHelperOut buf => lift (ptr f) (helper_out fixed buf (zs f))
  | EvHelperEOF => lift (ptr f) (helper_eof (zs f))
  | EvHelperReadErr => lift (ptr f) (helper_readerr fixed (zs f))
  | EvHelperExit c => lift (ptr f) (helper_exit c (zs f))
  | EvCleanupFire => lift (ptr f) (cleanup_fire (zs f))
  | EvClientFire => lift (ptr f) (if tcl (zs f) then handle_error fixed MClientTimeout (set_tcl false (zs f)) else (zs f, []))
  | EvServerFire => lift (ptr f) (if tsv (zs f) then handle_error fixed MServerTimeout (set_tsv false (zs f)) else (zs f, []))
  | EvGraceBegin => lift (ptr f) (grace_begin (zs f))
  end.

Definition step := step_gen true.

(* The session becomes visible to sendInput (filter.zmodem) BEFORE the goroutine
   handleZmodemEvent has stored the writers it uses.  [step] describes the code with
   hooks/fix_zmodem_early_ctrl_c.diff (the writers are stored before the pointer is
   published).  In the code as pinned, a lone Ctrl-C typed in that window reaches
   handleZmodemError with serverIn == nil: *)
Definition crash_window (f : fstate) (buf : list N) : bool :=
  ptr f && list_eqb buf [Consts.zmodem_ctrl_c] && negb (stopped (zs f)) && negb (gbegun (zs f)).

Definition step_pinned (f : fstate) (e : event) : fres :=
  match e with
  | EvInput buf => if crash_window f buf then (f, [OCrash]) else step f e
  | _ => step f e
  end.
Definition step_unfixed := step_gen false.

Fixpoint run_gen (fixed : bool) (f : fstate) (evs : list event) : fres :=
  match evs with
  | [] => (f, [])
  | e :: r => let (f1, o1) := step_gen fixed f e in let (f2, o2) := run_gen fixed f1 r in (f2, o1 ++ o2)
  end.
Definition run := run_gen true.
Fixpoint run_pinned (f : fstate) (evs : list event) : fres :=
  match evs with
  | [] => (f, [])
  | e :: r => let (f1, o1) := step_pinned f e in let (f2, o2) := run_pinned f1 r in (f2, o1 ++ o2)
  end.
Definition run_unfixed := run_gen false.

(* ---- timed wrapper, used only by the correspondence check ----
   Scripted events carry a nominal time in ms; the events the implementation produces by
   itself (wake-up of handleZmodemEvent, timers, the killer) are inserted from the
   delays in the source.  Internal events due at or before a scripted event go first. *)

Inductive scripted :=
| ScServer (buf : list N) | ScInput (buf : list N) | ScHelperOut (buf : list N) | ScHelperExit (code : Z).

(* A remote zmodem program as lrzsz behaves: it REPEATS its start header every [r_period] ms
   (at most [r_max] times) until it is sent the cancel sequence, or has seen the local side's
   finish header or over-and-out; after that a shell is there again, which answers every
   write ending in CR with a prompt.  The first header is an ordinary scripted event at [r_t0]. *)
Record remote_spec := mkRem { r_t0 : N; r_period : N; r_max : nat; r_hdr : list N; r_prompt : list N }.

Definition remote_stopper (o : output) : bool :=
  match o with
  | OCancelServer | OOServer => true
  | OServer b => finish_find b
  | _ => false
  end.
Definition remote_waiting (os : list output) : bool := negb (existsb remote_stopper os).

Definition ends_in_cr (b : list N) : bool := match rev b with 13 :: _ => true | _ => false end.

Record scenario := mkSc {
  sc_launch : launch_res;         (* what launching will give *)
  sc_autoexit : option Z;         (* the helper exits by itself at once with this code *)
  sc_dlpath : bool;               (* a default download path is set (adds its delay for downloads) *)
  sc_greet : list N;              (* what the helper prints right after it started ([] = nothing), as lrzsz does *)
  sc_remote : option remote_spec; (* the remote side is such a program (otherwise only the scripted chunks arrive) *)
  sc_readerr : list bool;         (* per session: the reader saw the helper's exit as a read error, not as EOF
                                     (a race in the implementation; taken from the observed run) *)
}.

Record pend := mkP { p_launch : option N; p_kill : option N; p_cleanup : option N; p_client : option N; p_server : option N }.
Definition no_pend := mkP None None None None None.

Definition note (sc : scenario) (t : N) (p : pend) (o : output) : pend :=
  match o with
  | OStart up =>
    mkP (Some (t + Consts.zmodem_launch_delay_ms +
               (if sc_dlpath sc && negb up then Consts.zmodem_default_path_delay_ms else 0)))
        None None None None
  | OKill => mkP (p_launch p) (match p_kill p with Some k => Some k | None => Some (t + Consts.zmodem_kill_delay_ms) end)
                 (p_cleanup p) (p_client p) (p_server p)
  | OArm TCleanup => mkP (p_launch p) (p_kill p) (Some (t + Consts.zmodem_cleanup_ms)) (p_client p) (p_server p)
  | OArm TClient => mkP (p_launch p) (p_kill p) (p_cleanup p) (Some (t + Consts.zmodem_client_timeout_ms)) (p_server p)
  | OArm TServer => mkP (p_launch p) (p_kill p) (p_cleanup p) (p_client p) (Some (t + Consts.zmodem_server_timeout_ms))
  | OStopT TCleanup => mkP (p_launch p) (p_kill p) None (p_client p) (p_server p)
  | OStopT TClient => mkP (p_launch p) (p_kill p) (p_cleanup p) None (p_server p)
  | OStopT TServer => mkP (p_launch p) (p_kill p) (p_cleanup p) (p_client p) None
  | _ => p
  end.

Inductive internal := ILaunch | IKill | ICleanup | IClient | IServer.

Definition earlier (a b : option (N * internal)) : option (N * internal) :=
  match a, b with
  | Some (ta, _), Some (tb, _) => if tb <? ta then b else a
  | Some _, None => a
  | None, _ => b
  end.
Definition tag (i : internal) (o : option N) : option (N * internal) :=
  match o with Some t => Some (t, i) | None => None end.

(* the earliest pending internal event; ties in the order launch, kill, cleanup, client, server *)
Definition next_internal (p : pend) : option (N * internal) :=
  earlier (earlier (earlier (earlier (tag ILaunch (p_launch p)) (tag IKill (p_kill p)))
    (tag ICleanup (p_cleanup p))) (tag IClient (p_client p))) (tag IServer (p_server p)).

Definition clear (i : internal) (p : pend) : pend :=
  match i with
  | ILaunch => mkP None (p_kill p) (p_cleanup p) (p_client p) (p_server p)
  | IKill => mkP (p_launch p) None (p_cleanup p) (p_client p) (p_server p)
  | ICleanup => mkP (p_launch p) (p_kill p) None (p_client p) (p_server p)
  | IClient => mkP (p_launch p) (p_kill p) (p_cleanup p) None (p_server p)
  | IServer => mkP (p_launch p) (p_kill p) (p_cleanup p) (p_client p) None
  end.

Definition internal_events (sc : scenario) (eof : event) (i : internal) : list event :=
  match i with
  | ILaunch => EvLaunch (sc_launch sc) ::
      match sc_launch sc with
      | LaunchOk => (match sc_greet sc with [] => [] | g => [EvHelperOut g] end) ++
                    (match sc_autoexit sc with Some c => [eof; EvHelperExit c] | None => [] end)
      | _ => []
      end
  | IKill => [eof; EvHelperExit (-1)%Z]   (* SIGKILL: ExitCode() = -1; no-ops if already gone *)
  | ICleanup => [EvCleanupFire]
  | IClient => [EvClientFire]
  | IServer => [EvServerFire]
  end.

Definition scripted_events (eof : event) (e : scripted) : list event :=
  match e with
  | ScServer b => [EvServer b]
  | ScInput b => [EvInput b]
  | ScHelperOut b => [EvHelperOut b]
  | ScHelperExit c => [eof; EvHelperExit c]
  end.

Record tstate := mkT { t_f : fstate; t_p : pend; t_out : list output; t_evs : list event; t_rem : nat }.

Definition sessions (os : list output) : nat :=
  length (filter (fun o => match o with OStart _ => true | _ => false end) os).

(* how the current session's reader learns of the helper's exit *)
Definition eof_event (sc : scenario) (st : tstate) : event :=
  if nth (pred (sessions (t_out st))) (sc_readerr sc) false then EvHelperReadErr else EvHelperEOF.

Definition has_start (os : list output) : bool :=
  existsb (fun o => match o with OStart _ => true | _ => false end) os.

(* the goroutine of a session that was just created begins at once *)
Definition apply_events1 (fixed : bool) (sc : scenario) (t : N) (evs : list event) (st : tstate) : tstate * list output :=
  let (f0, o0) := run_gen fixed (t_f st) evs in
  let evs' := if has_start o0 then evs ++ [EvGraceBegin] else evs in
  let (f', o) := run_gen fixed (t_f st) evs' in
  (mkT f' (fold_left (note sc t) o (t_p st)) (t_out st ++ o) (t_evs st ++ evs') (t_rem st), o).

(* the shell behind a remote program that is over answers what ends in CR *)
Definition shell_answers (sc : scenario) (before o : list output) : list event :=
  match sc_remote sc with
  | Some r =>
    if remote_waiting (before ++ o) then []
    else flat_map (fun x => match x with OServer b => if ends_in_cr b then [EvServer (r_prompt r)] else [] | _ => [] end) o
  | None => []
  end.

Definition apply_events (fixed : bool) (sc : scenario) (t : N) (evs : list event) (st : tstate) : tstate :=
  let (st1, o) := apply_events1 fixed sc t evs st in
  match shell_answers sc (t_out st) o with
  | [] => st1
  | answers => fst (apply_events1 fixed sc t answers st1)
  end.

(* when the remote program repeats its header next *)
Definition next_remote (sc : scenario) (st : tstate) : option (N * remote_spec) :=
  match sc_remote sc with
  | Some r => if (t_rem st <? r_max r)%nat then Some (r_t0 r + N.of_nat (S (t_rem st)) * r_period r, r) else None
  | None => None
  end.

(* fire the pending internal events and the remote's repetitions due at or before [limit];
   an internal event due no later than a repetition goes first *)
Fixpoint drain (fuel : nat) (fixed : bool) (sc : scenario) (limit : N) (st : tstate) : tstate :=
  match fuel with
  | O => st
  | S fuel' =>
    let fire_remote (tr : N) (r : remote_spec) :=
      let st' := mkT (t_f st) (t_p st) (t_out st) (t_evs st) (S (t_rem st)) in
      drain fuel' fixed sc limit
        (if remote_waiting (t_out st) then apply_events fixed sc tr [EvServer (r_hdr r)] st' else st') in
    let fire_internal (t : N) (i : internal) :=
      drain fuel' fixed sc limit
        (apply_events fixed sc t (internal_events sc (eof_event sc st) i)
           (mkT (t_f st) (clear i (t_p st)) (t_out st) (t_evs st) (t_rem st))) in
    match next_internal (t_p st), next_remote sc st with
    | Some (t, i), Some (tr, r) =>
      if (t <=? tr) then (if t <=? limit then fire_internal t i else st)
      else (if tr <=? limit then fire_remote tr r else st)
    | Some (t, i), None => if t <=? limit then fire_internal t i else st
    | None, Some (tr, r) => if tr <=? limit then fire_remote tr r else st
    | None, None => st
    end
  end.

Definition drain_fuel : nat := 64.

Fixpoint run_timed_from (fixed : bool) (sc : scenario) (evs : list (N * scripted)) (horizon : N) (st : tstate) : tstate :=
  match evs with
  | [] => drain drain_fuel fixed sc horizon st
  | (t, e) :: r =>
    run_timed_from fixed sc r horizon
      (let st1 := drain drain_fuel fixed sc t st in apply_events fixed sc t (scripted_events (eof_event sc st1) e) st1)
  end.

Definition run_timed (fixed : bool) (sc : scenario) (evs : list (N * scripted)) (horizon : N) : tstate :=
  run_timed_from fixed sc evs horizon (mkT idle no_pend [] [] O).

(* ---- entry points of the correspondence check: basic types only, unique names ---- *)

Definition zmodem_detect (buf : list N) : option bool := detect_zmodem buf.
Definition zmodem_finish_re (buf : list N) : bool := finish_find buf.

Definition msg_code (m : msg) : list N :=
  match m with
  | MStopped => [0] | MSuccess => [1]
  | MExit c => [2; if (c <? 0)%Z then 1 else 0; Z.abs_N c]
  | MLaunchFail => [3] | MChooser => [4] | MClientTimeout => [5] | MServerTimeout => [6] | MReadErr => [7]
  end.

(* terminal items: 0 forwarded bytes, 1 hide, 2 show, 3 message; server items: 4 data, 5 cancel, 6 OO *)
Definition canon_item (o : output) : option (N * list N) :=
  match o with
  | OTerm b => Some (0, b) | OHide => Some (1, []) | OShow => Some (2, []) | OMsg m => Some (3, msg_code m)
  | OServer b => Some (4, b) | OCancelServer => Some (5, []) | OOServer => Some (6, [])
  | _ => None
  end.

Fixpoint canon_items (os : list output) : list (N * list N) :=
  match os with
  | [] => []
  | o :: r => match canon_item o with Some i => i :: canon_items r | None => canon_items r end
  end.

(* everything the helper received on its stdin *)
Fixpoint helper_bytes (os : list output) : list N :=
  match os with
  | [] => []
  | OCancelHelper :: r => Consts.zmodem_cancel_full ++ helper_bytes r
  | OOHelper :: r => Consts.zmodem_over_and_out ++ helper_bytes r
  | OHelper b :: r => b ++ helper_bytes r
  | _ :: r => helper_bytes r
  end.

Definition started (os : list output) : bool :=
  existsb (fun o => match o with OStart _ => true | _ => false end) os.

Definition flags_of (s : zstate) : list bool :=
  [upload s; cf s; sf s; eo s; stopped s; cleaned s; match hp s with HNone => false | _ => true end].

Definition decode_scripted (e : N * (list N * Z)) : scripted :=
  let '(k, (d, c)) := e in
  if k =? 0 then ScServer d else if k =? 1 then ScInput d else if k =? 2 then ScHelperOut d else ScHelperExit c.

(* launch: 0 ok, 1 launch failure, otherwise chooser error *)
Definition launches (os : list output) : N :=
  N.of_nat (length (filter (fun o => match o with OLaunchHelper => true | _ => false end) os)).

Definition zmodem_run_canon (fixed : bool) (launch : N) (autoexit : option Z) (dl : bool) (greet : list N)
    (remote : option (N * (N * (nat * (list N * list N))))) (readerr : list bool) (horizon : N)
    (evs : list (N * (N * (list N * Z)))) : (list (N * list N) * list N) * (list bool * (bool * (bool * (N * bool)))) :=
  let sc := mkSc (if launch =? 0 then LaunchOk else if launch =? 1 then LaunchFail else ChooserErr) autoexit dl greet
    (match remote with Some (t0, (p, (m, (h, pr)))) => Some (mkRem t0 p m h pr) | None => None end) readerr in
  let st := run_timed fixed sc (map (fun e => (fst e, decode_scripted (snd e))) evs) horizon in
  ((canon_items (t_out st), helper_bytes (t_out st)),
   (flags_of (zs (t_f st)), (ptr (t_f st), (started (t_out st), (launches (t_out st), remote_waiting (t_out st)))))).
