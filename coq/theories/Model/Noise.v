(* Model of the noise-tolerant line readers (property C16):
     transfer.go  recvLine (last-marker cut), stripTmuxStatusLine
     buffer.go    readLineOnWindows, isTrzszLetter;  comm.go isVT100End
   on top of Model/Buffer.v, and the documented kinds of noise as inductive relations.
   Executable definitions and relation definitions only. *)
From Trzsz Require Export Base.Bytes Model.Buffer.
From Trzsz Require Import Gen.Consts.

(* ================= recvLine: junk-tolerant (tmux) path ================= *)

(* []byte("#" + expectType + ":") *)
Definition marker (ty : list byte) : list byte :=
  Consts.recv_marker_open ++ ty ++ Consts.recv_marker_close.

(* idx := LastIndex(line, marker); if idx >= 0 { line = line[idx:] }
   else { idx = LastIndexByte(line, '#'); if idx > 0 { line = line[idx:] } } *)
Definition marker_cut (ty line : list byte) : list byte :=
  match last_index_of (marker ty) line with
  | Some i => skipn i line
  | None =>
    match last_index_of [Consts.recv_fallback_byte] line with
    | Some (S i) => skipn (S i) line
    | _ => line
    end
  end.

(* stripTmuxStatusLine, statement by statement; every round removes at least the three
   delimiters, so fuel S (length buf) is never exhausted *)
Fixpoint strip_tmux (fuel : nat) (buf : list byte) : list byte :=
  match fuel with
  | O => buf
  | S f =>
    match index_of Consts.tmux_status_begin buf with
    | None => buf                                            (* beginIdx < 0 *)
    | Some b =>
      let i1 := (b + N.to_nat Consts.tmux_status_begin_skip)%nat in
      match index_of Consts.tmux_status_mid (skipn i1 buf) with
      | None => firstn b buf                                 (* midIdx < 0: buf[:beginIdx] *)
      | Some m =>
        let i2 := (i1 + m + N.to_nat Consts.tmux_status_mid_skip)%nat in
        match index_of Consts.tmux_status_end (skipn i2 buf) with
        | None => firstn b buf                               (* endIdx < 0: buf[:beginIdx] *)
        | Some e =>
          let i3 := (i2 + e + N.to_nat Consts.tmux_status_end_skip)%nat in
          strip_tmux f (firstn b buf ++ skipn i3 buf)
        end
      end
    end
  end.

Definition strip_tmux_status (buf : list byte) : list byte := strip_tmux (S (length buf)) buf.

(* recvLine(expectType, mayHasJunk) on the non-Windows path (mayHasJunk already includes
   transferConfig.TmuxOutputJunk) *)
Definition recv_line (ty : list byte) (junk : bool) (pend : pending) : rres :=
  match read_line junk [] pend with
  | Done line p' => Done (if junk then strip_tmux_status (marker_cut ty line) else line) p'
  | r => r
  end.

Definition recv_line_junk (ty : list byte) (pend : pending) : rres := recv_line ty true pend.

(* ================= readLineOnWindows ================= *)

Definition in_ranges (rs : list (N * N)) (b : byte) : bool :=
  existsb (fun r => (fst r <=? b) && (b <=? snd r)) rs.
Definition is_trzsz_letter (b : byte) : bool :=
  in_ranges Consts.noise_letter_ranges b || existsb (N.eqb b) Consts.trzsz_letter_singles.
Definition is_vt100_end (b : byte) : bool := in_ranges Consts.noise_vt100_end_ranges b.

(* the six locals of readLineOnWindows *)
Record wst := mk_wst {
  w_last : byte;      (* lastByte *)
  w_skip : bool;      (* skipVT100 *)
  w_nl : bool;        (* hasNewline *)
  w_dup : bool;       (* mayDuplicate *)
  w_home : bool;      (* hasCursorHome *)
  w_prehome : bool    (* preHasCursorHome *)
}.
Definition w_init : wst := mk_wst Consts.win_init_last false false false false false.

Definition last_is (l : list byte) (c : byte) : bool :=
  match rev l with x :: _ => c =? x | [] => false end.
(* bytes[len(bytes)-1] = c *)
Definition set_last (l : list byte) (c : byte) : list byte := removelast l ++ [c].

(* one iteration of `for i := 0; i < len(buf); i++`; None = return Interrupted *)
Definition win_byte (st : wst) (acc : list byte) (c : byte) : option (wst * list byte) :=
  if c =? Consts.win_interrupt then None else
  let nl := if c =? Consts.win_newline then true else w_nl st in
  if w_skip st then
    let ends := is_vt100_end c in
    let dup := if ends && (c =? Consts.win_move_final) &&
                  (Consts.win_digit_lo <=? w_last st) && (w_last st <=? Consts.win_digit_hi)
               then true else w_dup st in
    let home := if (w_last st =? Consts.win_home_prev) && (c =? Consts.win_home_final)
                then true else w_home st in
    Some (mk_wst c (negb ends) nl dup home (w_prehome st), acc)
  else if c =? Consts.win_esc then
    Some (mk_wst c true nl (w_dup st) (w_home st) (w_prehome st), acc)
  else if is_trzsz_letter c then
    if w_dup st && nl && nonempty acc && (last_is acc c || w_prehome st) then
      (* bytes[len-1] = c; continue  -- the flags below the WriteByte are NOT reset *)
      Some (mk_wst (w_last st) false nl false (w_home st) (w_prehome st), set_last acc c)
    else
      Some (mk_wst (w_last st) false false false false (w_home st), acc ++ [c])
  else
    Some (mk_wst (w_last st) false nl (w_dup st) (w_home st) (w_prehome st), acc).

(* The duplicate test of [win_byte] reads bytes[len(bytes)-1].  [win_reads_last guarded st acc c]:
   this iteration gets as far as evaluating that index expression, where [guarded] says whether
   `len(bytes) > 0 &&` stands in front of it in the condition (Gen.Consts.win_dup_guard_nonempty;
   [win_byte] above is written for guarded = true, pinned in Proofs/NoiseWin.v).
   [win_index_panics]: ... and the accumulator is empty, i.e. the index is -1. *)
Definition win_reads_last (guarded : bool) (st : wst) (acc : list byte) (c : byte) : bool :=
  negb (c =? Consts.win_interrupt) && negb (w_skip st) && negb (c =? Consts.win_esc) &&
  is_trzsz_letter c && w_dup st &&
  (if c =? Consts.win_newline then true else w_nl st) &&
  (if guarded then nonempty acc else true).
Definition win_index_panics (guarded : bool) (st : wst) (acc : list byte) (c : byte) : bool :=
  win_reads_last guarded st acc c && negb (nonempty acc).

Fixpoint win_fold (st : wst) (acc : list byte) (l : list byte) : option (wst * list byte) :=
  match l with
  | [] => Some (st, acc)
  | c :: t => match win_byte st acc c with
              | None => None
              | Some (st', acc') => win_fold st' acc' t
              end
  end.

Inductive wcres :=
| WCLine (line : list byte) (off : nat) (post : list byte)
| WCIntr (off : nat) (post : list byte)
| WCMore (st : wst) (acc : list byte).

(* the loop body on the current chunk: [buf] = nextBuf[nextIdx:], [off] = nextIdx.
   NB the test for the LF after '!' is written `buf[b.nextIdx]` in the code: it indexes the
   REST slice with the ABSOLUTE cursor, so it looks at the right byte only when off = 0. *)
Fixpoint win_chunk (fuel : nat) (st : wst) (acc : list byte) (off : nat) (buf : list byte) : wcres :=
  match fuel with
  | O => WCMore st acc
  | S f =>
    match index_byte Consts.win_terminator buf with        (* newLineIdx := IndexByte(buf, '!') *)
    | Some i =>
      let k := (i + 1)%nat in                              (* b.nextIdx += newLineIdx + 1 *)
      let off1 := (off + k)%nat in
      let used := if (off1 <? length buf)%nat && (nth off1 buf 0 =? Consts.win_after_terminator)
                  then (k + 1)%nat else k in               (* b.nextIdx++ *)
      let post := skipn used buf in
      match win_fold st acc (firstn i buf) with            (* buf = buf[0:newLineIdx] *)
      | None => WCIntr (off + used) post
      | Some (st', acc') =>
        if nonempty acc' && negb (w_skip st') then WCLine acc' (off + used) post
        else match post with
             | [] => WCMore st' acc'
             | _ => win_chunk f st' acc' (off + used) post
             end
      end
    | None =>                                              (* b.nextIdx += len(buf) *)
      match win_fold st acc buf with
      | None => WCIntr (off + length buf) []
      | Some (st', acc') => WCMore st' acc'
      end
    end
  end.

Inductive wres :=
| WDone (line : list byte) (off : nat) (pend : pending)
| WBlocked
| WInterrupted (off : nat) (pend : pending).

(* [off] is the cursor inside the chunk whose unread rest is the head of [pend] *)
Fixpoint win_read (st : wst) (acc : list byte) (off : nat) (pend : pending) : wres :=
  match pend with
  | [] => WBlocked
  | c :: rest =>
    match win_chunk (S (length c)) st acc off c with
    | WCLine l o post => WDone l o (post :: rest)
    | WCIntr o post => WInterrupted o (post :: rest)
    | WCMore st' acc' => win_read st' acc' 0 rest
    end
  end.

Definition read_line_windows (off : nat) (pend : pending) : wres := win_read w_init [] off pend.

(* recvLine on the Windows path: the marker cut, no status stripping *)
Definition recv_line_windows (ty : list byte) (off : nat) (pend : pending) : wres :=
  match read_line_windows off pend with
  | WDone line o p' => WDone (marker_cut ty line) o p'
  | r => r
  end.

(* successive recvLine calls on one buffer; reads on after an interrupt, stops at Blocked *)
Fixpoint win_run (tys : list (list byte)) (off : nat) (pend : pending) : list result :=
  match tys with
  | [] => []
  | ty :: r =>
    match recv_line_windows ty off pend with
    | WDone l o p' => RData l :: win_run r o p'
    | WBlocked => [RBlocked]
    | WInterrupted o p' => RInterrupted :: win_run r o p'
    end
  end.

Fixpoint junk_run (tys : list (list byte)) (junk : bool) (pend : pending) : list result :=
  match tys with
  | [] => []
  | ty :: r =>
    match recv_line ty junk pend with
    | Done l p' => RData l :: junk_run r junk p'
    | Blocked => [RBlocked]
    | Interrupted p' => RInterrupted :: junk_run r junk p'
    end
  end.

(* ================= documented noise: tmux ================= *)
(* Byte values below are those of the terminal world (ASCII), not read from the code;
   Proofs/Noise.v pins the generated constants to them. *)
Definition HASH : byte := 35.
Definition COLON : byte := 58.
Definition BANG : byte := 33.
Definition status_begin : list byte := [ESC; 80; 61].     (* ESC P = *)
Definition status_end : list byte := [ESC; 92].           (* ESC \ *)

(* CR LF inserted at any position, any number of times *)
Inductive wrapped : list byte -> list byte -> Prop :=
| wrapped_nil : wrapped [] []
| wrapped_byte b l s : wrapped l s -> wrapped (b :: l) (b :: s)
| wrapped_wrap l s : wrapped l s -> wrapped l (CR :: LF :: s).

Definition status_text (t : list byte) : bool :=
  forallb (fun b => negb (b =? LF) && negb (b =? CR) && negb (b =? ETX) && negb (b =? HASH)) t.

(* status-line control strings `ESC P = t1 ESC P = t2 ESC \` inserted at any position, any
   number of times; at the very end of the line possibly a truncated one *)
Inductive with_status : list byte -> list byte -> Prop :=
| ws_nil : with_status [] []
| ws_byte b l s : with_status l s -> with_status (b :: l) (b :: s)
| ws_pair t1 t2 l s :
    status_text t1 = true -> contains status_begin (t1 ++ removelast status_begin) = false ->
    status_text t2 = true -> contains status_end (t2 ++ removelast status_end) = false ->
    with_status l s ->
    with_status l (status_begin ++ t1 ++ status_begin ++ t2 ++ status_end ++ s)
| ws_truncated_first t :
    status_text t = true -> contains status_begin t = false ->
    with_status [] (status_begin ++ t)
| ws_truncated_second t1 t2 :
    status_text t1 = true -> contains status_begin (t1 ++ removelast status_begin) = false ->
    status_text t2 = true -> contains status_end t2 = false ->
    with_status [] (status_begin ++ t1 ++ status_begin ++ t2).

(* text of a protocol line: no line/interrupt/escape control and no '#' *)
Definition plain_text (l : list byte) : bool :=
  forallb (fun b => negb (b =? LF) && negb (b =? CR) && negb (b =? ETX) && negb (b =? ESC)
                    && negb (b =? HASH)) l.

(* what tmux may have made of the line "#ty:pl": unrelated text in front (anything without
   LF / Ctrl-C), status strings inside the line, CR LF wraps everywhere.  The text in front
   may even contain the marker "#ty:" (the echo of an earlier line) as long as no status
   string splits the line's own marker; if one does, the text in front must not contain the
   marker (the reader then falls back to the last '#') *)
Inductive tmux_noisy (ty pl : list byte) : list byte -> Prop :=
| tmux_noisy_intro junk S s :
    forallb (fun b => negb (b =? LF) && negb (b =? ETX)) junk = true ->
    (contains (HASH :: ty ++ [COLON]) junk = false \/ has_prefix (ty ++ [COLON]) S = true) ->
    with_status (ty ++ COLON :: pl) S ->
    wrapped (junk ++ HASH :: S) s ->
    tmux_noisy ty pl s.

(* ================= documented noise: Windows console ================= *)
Definition proto_letter (b : byte) : bool :=
  in_ranges [(97, 122); (65, 90); (48, 57)] b || existsb (N.eqb b) [35; 58; 43; 47; 61].

Inductive atom :=
| APad (b : byte)                         (* a byte outside the protocol alphabet *)
| ANewline                                (* LF *)
| AVt (body : list byte) (final : byte)   (* ESC body final: colour, erase, mode ... *)
| AMove (body : list byte)                (* ESC body H, body ending in a digit: cursor position *)
| AHome (body : list byte).               (* ESC body [ H: cursor home *)

Definition render_atom (a : atom) : list byte :=
  match a with
  | APad b => [b]
  | ANewline => [LF]
  | AVt body f => ESC :: body ++ [f]
  | AMove body => ESC :: body ++ [72]
  | AHome body => ESC :: body ++ [91; 72]
  end.
Definition render (n : list atom) : list byte := flat_map render_atom n.

(* parameter bytes of an escape sequence: anything that is not a letter (a letter would end
   it), not Ctrl-C, not '!', not LF *)
Definition body_ok (body : list byte) : bool :=
  forallb (fun b => negb (is_alpha b) && negb (b =? ETX) && negb (b =? BANG) && negb (b =? LF)) body.

Definition atom_ok (a : atom) : bool :=
  match a with
  | APad b => negb (proto_letter b) && negb (b =? ESC) && negb (b =? ETX) && negb (b =? BANG) && negb (b =? LF)
  | ANewline => true
  | AVt body f => body_ok body && is_alpha f && negb (f =? 72)
  | AMove body => body_ok body && match rev body with d :: _ => is_digit d | [] => false end
  | AHome body => body_ok body
  end.
Definition noise_ok (n : list atom) : bool := forallb atom_ok n.

Definition has_nl (n : list atom) : bool := existsb (fun a => match a with ANewline => true | _ => false end) n.
Definition has_move (n : list atom) : bool := existsb (fun a => match a with AMove _ => true | _ => false end) n.
Definition has_home (n : list atom) : bool := existsb (fun a => match a with AHome _ => true | _ => false end) n.

(* [win_noisy stale acc e s]: [s] is a console rendering of the letters [e] that follow the
   already received letters [acc].  [stale] marks the gap right after a re-printed or
   replaced character (the reader's hasNewline/preHasCursorHome flags are then left over).

   wn_end      trailing noise of any kind
   wn_char     noise, then the next letter.  The noise may be VT100 sequences, padding,
               CR/LF, cursor moves: a cursor move AND a newline together are allowed before
               the first letter, or when the letter differs from the previous one (a
               newline + move followed by the SAME letter is read as a re-print: inherently
               ambiguous, not a documented kind).  Right after a re-printed/replaced
               character: no cursor move (known finding win-stale-flags-after-home).
   wn_reprint  newline + cursor move (any order, any other noise), then the previous
               character printed again
   wn_home     cursor home, a character x redrawn there, then a cursor move and a newline,
               then the NEXT letter of the line, which takes the place of x.  A following
               letter is required (known finding win-home-before-terminator). *)
Inductive win_noisy : bool -> list byte -> list byte -> list byte -> Prop :=
| wn_end stale acc n :
    noise_ok n = true ->
    win_noisy stale acc [] (render n)
| wn_char (stale : bool) acc n c e s :
    noise_ok n = true -> has_home n = false -> proto_letter c = true ->
    (if stale then has_move n = false
     else has_move n && has_nl n && nonempty acc && last_is acc c = false) ->
    win_noisy false (acc ++ [c]) e s ->
    win_noisy stale acc (c :: e) (render n ++ c :: s)
| wn_reprint stale acc0 c n e s :
    proto_letter c = true ->
    noise_ok n = true -> has_home n = false -> has_move n = true ->
    has_nl n || stale = true ->
    win_noisy true (acc0 ++ [c]) e s ->
    win_noisy stale (acc0 ++ [c]) e (render n ++ c :: s)
| wn_home stale acc n1 x n2 c e s :
    noise_ok n1 = true -> has_move n1 = false -> has_home n1 = true -> proto_letter x = true ->
    noise_ok n2 = true -> has_move n2 = true -> has_nl n2 = true -> has_home n2 = false ->
    proto_letter c = true ->
    win_noisy true (acc ++ [c]) e s ->
    win_noisy stale acc (c :: e) (render n1 ++ x :: render n2 ++ c :: s).

(* the two documented shapes that the reader does NOT recover (Props/C16.v, ..._refuted) *)
Definition home_before_terminator (acc : list byte) (n1 : list atom) (x : byte) (n2 : list atom) : list byte :=
  acc ++ render n1 ++ x :: render n2.
Definition move_after_home (acc : list byte) (n1 : list atom) (x : byte) (n2 : list atom) (c : byte)
           (n3 : list atom) (d : byte) : list byte :=
  acc ++ render n1 ++ x :: render n2 ++ c :: render n3 ++ [d].

(* ALL documented console noise, i.e. [win_noisy] plus the two shapes it leaves out: a
   cursor-home redraw with no further letter behind it, and a cursor move in the gap right
   after a re-printed/replaced character.  The full-strength statement of C16 for the
   Windows reader quantifies over this relation; it is refuted (Props/C16.v). *)
Inductive win_noisy_full : bool -> list byte -> list byte -> list byte -> Prop :=
| wf_end stale acc n :
    noise_ok n = true ->
    win_noisy_full stale acc [] (render n)
| wf_char (stale : bool) acc n c e s :
    noise_ok n = true -> has_home n = false -> proto_letter c = true ->
    (if stale then has_move n = false
     else has_move n && has_nl n && nonempty acc && last_is acc c = false) ->
    win_noisy_full false (acc ++ [c]) e s ->
    win_noisy_full stale acc (c :: e) (render n ++ c :: s)
| wf_reprint stale acc0 c n e s :
    proto_letter c = true ->
    noise_ok n = true -> has_home n = false -> has_move n = true ->
    has_nl n || stale = true ->
    win_noisy_full true (acc0 ++ [c]) e s ->
    win_noisy_full stale (acc0 ++ [c]) e (render n ++ c :: s)
| wf_home stale acc n1 x n2 c e s :
    noise_ok n1 = true -> has_move n1 = false -> has_home n1 = true -> proto_letter x = true ->
    noise_ok n2 = true -> has_move n2 = true -> has_nl n2 = true -> has_home n2 = false ->
    proto_letter c = true ->
    win_noisy_full true (acc ++ [c]) e s ->
    win_noisy_full stale acc (c :: e) (render n1 ++ x :: render n2 ++ c :: s)
| wf_home_at_end stale acc n1 x n2 :
    noise_ok n1 = true -> has_move n1 = false -> has_home n1 = true -> proto_letter x = true ->
    noise_ok n2 = true -> has_move n2 = true -> has_nl n2 = true -> has_home n2 = false ->
    win_noisy_full stale acc [] (render n1 ++ x :: render n2)
| wf_move_when_stale acc n c e s :
    noise_ok n = true -> has_home n = false -> has_move n = true -> has_nl n = false ->
    proto_letter c = true ->
    win_noisy_full false (acc ++ [c]) e s ->
    win_noisy_full true acc (c :: e) (render n ++ c :: s).
