(* "Every fault reaches ctx.cancel" for the process-network language of Model/Proc.v
   (C11, first half).  Definitions only; proofs are in Proofs/ProcFault.v.

   The translator ties the error path of an operation to the operation: [IoE k h] is a wire /
   file operation ([k] = RecvLine, WriteWire, PauseGate, FileIO) or a computation of the stage
   itself that can fail ([k] = Check: codec, parsing, a consistency test) together with what
   the goroutine does when it failed.  The static question answered here: does every path
   through [h] call ctx.cancel before the goroutine leaves, or leave only where leaving
   itself cancels (the main function: `defer ctx.cancel(nil)`, nothing deferred that waits)?

   * arms of a select guarded by ctx.Done() and `if ctx.Err() != nil { return }` are exempt:
     they are only taken when the context is cancelled already;
   * [strict = true] additionally forbids every statement that can wait for another goroutine
     (select, receive, join, wait) before the Cancel: then the goroutine reaches Cancel on its
     own, whatever the others do. *)
From Coq Require Import List Arith Bool.
Import ListNotations.
From Trzsz Require Import Model.Proc.

Definition is_done (a : alt) : bool := match a with DoneAlt => true | _ => false end.

Section Cancels.
Variable strict : bool.   (* no waiting before the Cancel *)
Variable qe : bool.       (* leaving the goroutine cancels by itself *)

(* [ccS s kr]: every path through [s] followed by a rest of which [kr] says whether all ITS
   paths cancel, cancels before leaving. *)
Fixpoint ccS (s : stmt) (kr : bool) : bool :=
  match s with
  | Cancel => true
  | Return => qe
  | SendOnce _ => false
  | IfCtxExit | Io _ | WgAdd _ | WgDone _ => kr
  | RecvClose _ | Join _ | WgWait _ => negb strict && kr
  | IoE _ h =>
      (fix go (l : list stmt) : bool := match l with [] => kr | x :: t => ccS x (go t) end) h && kr
  | Branch a b =>
      (fix go (l : list stmt) : bool := match l with [] => kr | x :: t => ccS x (go t) end) a &&
      (fix go (l : list stmt) : bool := match l with [] => kr | x :: t => ccS x (go t) end) b
  | Sel cs =>
      negb strict &&
      (fix fa (cs : list (alt * list stmt)) : bool :=
         match cs with
         | [] => true
         | c :: r =>
             (let (a, bd) := c in
              is_done a ||
              (fix go (l : list stmt) : bool := match l with [] => kr | x :: t => ccS x (go t) end) bd)
             && fa r
         end) cs
  | LoopCtx _ | LoopRange _ _ | LoopData _ => false
  end.
Fixpoint cc (kb : bool) (l : list stmt) : bool :=
  match l with [] => kb | x :: t => ccS x (cc kb t) end.
Definition ccC (kr : bool) (cs : list (alt * list stmt)) : bool :=
  forallb (fun c => is_done (fst c) || cc kr (snd c)) cs.

(* the same on a running continuation; [e]: what reaching its end means *)
Fixpoint ccK (e : bool) (k : list item) : bool :=
  match k with
  | [] => e
  | IStmt s :: r => ccS s (ccK e r)
  | _ :: _ => false
  end.
End Cancels.

(* plain size: an upper bound on the own steps of a goroutine through a loop-free block *)
Fixpoint cmS (s : stmt) : nat :=
  match s with
  | IoE _ h => 1 + (fix ms (l : list stmt) : nat := match l with [] => 0 | x :: t => cmS x + ms t end) h
  | Branch a b =>
      1 + (fix ms (l : list stmt) : nat := match l with [] => 0 | x :: t => cmS x + ms t end) a
        + (fix ms (l : list stmt) : nat := match l with [] => 0 | x :: t => cmS x + ms t end) b
  | Sel cs =>
      1 + (fix sm (cs : list (alt * list stmt)) : nat :=
             match cs with
             | [] => 0
             | c :: r =>
                 (let (_, bd) := c in
                  (fix ms (l : list stmt) : nat := match l with [] => 0 | x :: t => cmS x + ms t end) bd)
                 + sm r
             end) cs
  | _ => 1
  end.
Definition cmL (l : list stmt) : nat := fold_right (fun x r => cmS x + r) 0 l.
Definition cmC (cs : list (alt * list stmt)) : nat := fold_right (fun c r => cmL (snd c) + r) 0 cs.
Definition cmI (i : item) : nat := match i with IStmt s => cmS s | _ => 0 end.
Definition cmK (k : list item) : nat := fold_right (fun i r => cmI i + r) 0 k.

(* a local test holds of a statement and of every statement nested in it *)
Section All.
Variable P : stmt -> bool.
Fixpoint allS (s : stmt) : bool :=
  P s &&
  match s with
  | Sel cs =>
      (fix fa (cs : list (alt * list stmt)) : bool :=
         match cs with
         | [] => true
         | c :: r =>
             (let (_, bd) := c in
              (fix al (l : list stmt) : bool := match l with [] => true | x :: t => allS x && al t end) bd)
             && fa r
         end) cs
  | Branch a b =>
      (fix al (l : list stmt) : bool := match l with [] => true | x :: t => allS x && al t end) a &&
      (fix al (l : list stmt) : bool := match l with [] => true | x :: t => allS x && al t end) b
  | IoE _ bd | LoopCtx bd | LoopRange _ bd | LoopData bd =>
      (fix al (l : list stmt) : bool := match l with [] => true | x :: t => allS x && al t end) bd
  | _ => true
  end.
Definition allL (l : list stmt) : bool := forallb allS l.
Definition allC (cs : list (alt * list stmt)) : bool := forallb (fun c => allL (snd c)) cs.
Definition allI (i : item) : bool :=
  match i with
  | IStmt s => allS s
  | IHeadCtx bd | IHeadRange _ bd | IHeadData bd _ => allL bd
  end.
Definition allK (k : list item) : bool := forallb allI k.
End All.

(* leaving the goroutine cancels by itself: `defer ctx.cancel(nil)` and nothing else deferred *)
Definition quiet_exit (p : proc) : bool :=
  exit_cancel p && match finally p with [] => true | _ => false end.

(* the local test: an operation that can fail has its error path tied to it, and that path
   cancels; a bare [Io] is an operation whose error nobody looks at *)
Definition fault_ok (strict qe : bool) (s : stmt) : bool :=
  match s with
  | IoE _ h => cc strict qe false h
  | Io _ => false
  | _ => true
  end.

Definition faults_proc (strict : bool) (p : proc) : bool :=
  allL (fault_ok strict (quiet_exit p)) (body p) && allL (fault_ok strict (exit_cancel p)) (finally p).

(* every fault of every goroutine of the net reaches ctx.cancel *)
Definition faults_cancel (N : net) : bool := forallb (faults_proc false) (procs_of N).

(* diagnostics: the operations whose error path does not (strictly) cancel *)
Fixpoint collectS (P : stmt -> bool) (s : stmt) : list stmt :=
  (if P s then [] else [s]) ++
  match s with
  | Sel cs =>
      (fix fa (cs : list (alt * list stmt)) : list stmt :=
         match cs with
         | [] => []
         | c :: r =>
             (let (_, bd) := c in
              (fix cl (l : list stmt) : list stmt := match l with [] => [] | x :: t => collectS P x ++ cl t end) bd)
             ++ fa r
         end) cs
  | Branch a b =>
      (fix cl (l : list stmt) : list stmt := match l with [] => [] | x :: t => collectS P x ++ cl t end) a ++
      (fix cl (l : list stmt) : list stmt := match l with [] => [] | x :: t => collectS P x ++ cl t end) b
  | IoE _ bd | LoopCtx bd | LoopRange _ bd | LoopData bd =>
      (fix cl (l : list stmt) : list stmt := match l with [] => [] | x :: t => collectS P x ++ cl t end) bd
  | _ => []
  end.
Definition collectL (P : stmt -> bool) (l : list stmt) : list stmt := flat_map (collectS P) l.
Definition violations_by (P : bool -> stmt -> bool) (N : net) : list (pid * stmt) :=
  flat_map (fun i => map (fun s => (i, s))
              (collectL (P (quiet_exit (info N i))) (body (info N i)) ++
               collectL (P (exit_cancel (info N i))) (finally (info N i))))
           (seq 0 (nprocs N)).
Definition fault_violations (strict : bool) (N : net) : list (pid * stmt) := violations_by (fault_ok strict) N.

(* the operations whose error path does cancel but may have to wait for another goroutine
   first, with their kinds (for pinning the exceptions) *)
Definition kind_of (s : stmt) : iokind := match s with IoE k _ | Io k => k | _ => Unknown end.
Definition fault_waits (N : net) : list (pid * iokind) :=
  map (fun x => (fst x, kind_of (snd x)))
      (violations_by (fun qe s => fault_ok true qe s || negb (fault_ok false qe s)) N).

(* how many tied operations and how many calls of ctx.cancel the net has (translator sanity,
   compared with independent counts on the source) *)
Definition is_ioe (s : stmt) : bool := match s with IoE _ _ => true | _ => false end.
Definition is_cancel (s : stmt) : bool := match s with Cancel => true | _ => false end.
Definition fault_counts (N : net) : list nat :=
  [ list_sum (map (fun p => count is_ioe (all_stmts p)) (procs_of N));
    list_sum (map (fun p => count is_cancel (all_stmts p)) (procs_of N));
    length (filter exit_cancel (procs_of N)) ].

(* the part of a main function before its context exists: nothing of the net runs yet, so it
   may only do operations and return *)
Fixpoint quietS (s : stmt) : bool :=
  match s with
  | Io _ | Return => true
  | IoE _ h => (fix q (l : list stmt) : bool := match l with [] => true | x :: t => quietS x && q t end) h
  | Branch a b =>
      (fix q (l : list stmt) : bool := match l with [] => true | x :: t => quietS x && q t end) a &&
      (fix q (l : list stmt) : bool := match l with [] => true | x :: t => quietS x && q t end) b
  | _ => false
  end.
Definition quietL (l : list stmt) : bool := forallb quietS l.

(* ------------------------------------------------------------------------------- *)
(* executions with the moving goroutine recorded *)
Section Traces.
Variable N : net.
Variable D : nat.
Variable io_ret : iokind -> bool.

Inductive lsteps : list pid -> gstate -> gstate -> Prop :=
| ls_nil g : lsteps [] g g
| ls_cons p tr g g' g'' : lstep N D io_ret p g g' -> lsteps tr g' g'' -> lsteps (p :: tr) g g''.

(* what reaching the end of the block means in phase [f] (body / deferred block) *)
Definition qx (p : pid) (f : bool) : bool :=
  if f then exit_cancel (info N p) else quiet_exit (info N p).

(* goroutine p is on an error path that cancels within n of its own steps *)
Definition on_fail_path (strict : bool) (n : nat) (p : pid) (g : gstate) : Prop :=
  (exists f kk kr, procs g p = Running f (kk ++ kr) /\ ccK strict (qx p f) false kk = true /\ cmK kk + 2 <= n) \/
  (procs g p = Running true [] /\ exit_cancel (info N p) = true /\ 1 <= n).

Definition enabled (p : pid) (g : gstate) : Prop := exists g', lstep N D io_ret p g g'.
End Traces.
