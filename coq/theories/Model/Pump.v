(* Model of the goroutines that pump a byte source into a trzszBuffer (property C03: the
   path from stdin / the tunnel connection into the buffer delivers every segmentation
   unchanged):
     comm.go    wrapTransferInput     (trz/tsz: stdin, tunnel connection)  -> addReceivedData
     filter.go  TrzszFilter.wrapOutput, the branch taken while a transfer runs -> addReceivedData
     relay.go   TrzszRelay.wrapInput / wrapOutput, tunnelRelay.wrapInput / wrapOutput
                while the relay is handshaking -> addHandshakeBuffer, else forwarded on a channel
     transfer.go addReceivedData,  relay.go addHandshakeBuffer
   Executable definitions only.

   A pump is a loop `n, err := reader.Read(buffer); if n > 0 { hand buffer[:n] on }; if err
   ... { break }`.  What it hands on is a list of chunks; each chunk must keep its content
   until the consumer reads it (the code gives every read its own array). *)
From Trzsz Require Export Base.Bytes Model.Buffer.
From Trzsz Require Import Gen.Consts.

(* what the source has ready when the pump calls Read: a segment (possibly empty: a read of
   0 bytes), or a segment together with an error (io.EOF) *)
Inductive src_ev :=
| SrcData (s : list byte)
| SrcEnd (s : list byte).

(* successive Reads of one ready segment into a caller buffer of B bytes: at most B bytes
   per Read, the rest stays ready (fuel = length of the segment) *)
Fixpoint chop (fuel B : nat) (s : list byte) : list (list byte) :=
  match fuel with
  | O => [s]
  | S f => if (length s <=? B)%nat then [s] else firstn B s :: chop f B (skipn B s)
  end.

(* `if n > 0 { ... }`: a read of zero bytes hands nothing on *)
Definition nonempty_chunks (cs : list (list byte)) : list (list byte) := filter nonempty cs.

(* the chunks a pump hands on, in order.  [stop_at_err]: the loop ends at the first error
   (wrapTransferInput: any error; relay pumps: io.EOF); TrzszFilter.wrapOutput ignores EOF
   and reads on *)
Fixpoint pump_reads (B : nat) (stop_at_err : bool) (evs : list src_ev) : list (list byte) :=
  match evs with
  | [] => []
  | SrcData s :: r => nonempty_chunks (chop (length s) B s) ++ pump_reads B stop_at_err r
  | SrcEnd s :: r =>
    nonempty_chunks (chop (length s) B s) ++ (if stop_at_err then [] else pump_reads B stop_at_err r)
  end.

(* the bytes the source delivered before the pump stopped *)
Fixpoint delivered (stop_at_err : bool) (evs : list src_ev) : list byte :=
  match evs with
  | [] => []
  | SrcData s :: r => s ++ delivered stop_at_err r
  | SrcEnd s :: r => s ++ (if stop_at_err then [] else delivered stop_at_err r)
  end.

(* transfer.addReceivedData(buf, tunnel): in-band data is ignored once the tunnel is
   connected; nothing is queued after the transfer has been stopped *)
Definition add_received (tunnel_connected stopped tunnel : bool) (buf : list byte) (q : pending) : pending :=
  if tunnel_connected && negb tunnel then q
  else if stopped then q
  else q ++ [buf].

(* relay.addHandshakeBuffer(buffer, data, tunnel): queued only while handshaking, and in-band
   data only as long as the tunnel is not connected; otherwise the caller forwards it *)
Definition add_handshake (handshaking tunnel_connected tunnel : bool) : bool :=
  handshaking && negb (negb tunnel && tunnel_connected).

Definition transfer_buf_size : nat := N.to_nat Consts.pump_transfer_buf_size.
Definition filter_buf_size : nat := N.to_nat Consts.pump_filter_buf_size.
Definition relay_stdin_buf_size : nat := N.to_nat Consts.pump_relay_stdin_buf_size.
Definition relay_stdout_buf_size : nat := N.to_nat Consts.pump_relay_stdout_buf_size.
Definition tunnel_in_buf_size : nat := N.to_nat Consts.pump_tunnel_in_buf_size.
Definition tunnel_out_buf_size : nat := N.to_nat Consts.pump_tunnel_out_buf_size.

(* the queue of a fresh transfer after wrapTransferInput(transfer, reader, tunnel) has
   pumped [evs] (head = no current chunk) *)
Definition pump_transfer (B : nat) (tunnel_connected stopped tunnel : bool) (evs : list src_ev) : pending :=
  [] :: fold_left (fun q c => add_received tunnel_connected stopped tunnel c q) (pump_reads B true evs) [].

(* TrzszFilter.wrapOutput while filter.transfer is set: addReceivedData(buf, false) *)
Definition pump_filter (B : nat) (tunnel_connected stopped : bool) (evs : list src_ev) : pending :=
  [] :: fold_left (fun q c => add_received tunnel_connected stopped false c q) (pump_reads B false evs) [].

(* a relay pump: (what is parked in the handshake buffer, what is forwarded on the channel) *)
Definition pump_relay (B : nat) (handshaking tunnel_connected tunnel : bool) (evs : list src_ev)
  : pending * list (list byte) :=
  let cs := pump_reads B true evs in
  if add_handshake handshaking tunnel_connected tunnel then ([] :: cs, []) else ([[]], cs).

(* which pump *)
Inductive pump_kind := PTransfer | PFilter | PRelayIn | PRelayOut | PTunnelIn | PTunnelOut.

(* everything the harness observes of one pump run: results of the reads issued once the
   source is exhausted (reading on after an interrupt), the chunks popBuffer then returns,
   and the chunks forwarded instead of parked.  [flag1 flag2 flag3] are
   tunnel_connected/stopped/tunnel for the transfer pumps and
   handshaking/tunnel_connected/unused for the relay pumps. *)
Definition pump_run (k : pump_kind) (f1 f2 f3 : bool) (evs : list src_ev) (ops : list op)
  : list result * list (list byte) * list (list byte) :=
  let '(pend, fwd) :=
    match k with
    | PTransfer => (pump_transfer transfer_buf_size f1 f2 f3 evs, [])
    | PFilter => (pump_filter filter_buf_size f1 f2 evs, [])
    | PRelayIn => pump_relay relay_stdin_buf_size f1 f2 false evs
    | PRelayOut => pump_relay relay_stdout_buf_size f1 f2 false evs
    | PTunnelIn => pump_relay tunnel_in_buf_size f1 f2 true evs
    | PTunnelOut => pump_relay tunnel_out_buf_size f1 f2 true evs
    end in
  let '(rs, e) := run_cont ops pend in
  (rs, pop_all (pop_all_fuel e) e, fwd).
