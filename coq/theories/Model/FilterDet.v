(* C05 x C06 - the filter's trigger detector made concrete: wrapOutput owns a client-mode
   detector (newTrzszDetector(false, false)) and, without a tunnel connector, calls it with
   tunnel = false.  [c05_client_detect] is that call on the detector model of C06, in the shape
   of the abstract [detect] parameter of Model/Filter.v.  [window_shown]: what is shown, and how
   many transfers are started, by the chunks that arrive while the client hides the output of a
   command it interrupted itself (the 200 ms after its ctrl-C): detection comes before the drop.
   Definitions only. *)
From Trzsz Require Import Base.Bytes Model.Filter Model.Detector.

Definition c05_client_det (m : idmap) : Detector.det := {| d_relay := false; d_tmux := false; d_map := m |}.

Definition c05_client_detect (winenv : bool) (m : idmap) (buf : list N)
  : (list N * option Detector.trigger) * idmap :=
  let '(out, t, d') := Detector.detect winenv (c05_client_det m) false buf in ((out, t), d_map d').

Section Window.
  Variable dstate : Type.
  Variable trigger : Type.
  Variable detect : dstate -> list N -> (list N * option trigger) * dstate.

  Fixpoint window_shown (d : dstate) (cs : list chunk) : list (list N) * nat :=
    match cs with
    | [] => ([], O)
    | c :: cs' =>
      let '((b, t), d') := detect d c in
      let (sh, n) := window_shown d' cs' in
      match t with Some _ => (b :: sh, S n) | None => (sh, n) end
    end.
End Window.

(* the window of a fresh filter, with the real detector's model *)
Definition c05_window (winenv : bool) (cs : list chunk) : list (list N) * nat :=
  window_shown idmap Detector.trigger (c05_client_detect winenv) [] cs.
