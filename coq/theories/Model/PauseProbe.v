(* Pause / resume (C18), third part: the acknowledgement bookkeeping of pipelineRecvAck (pipeline.go) as far as
   the pause flag of recvCheckV2 reaches into it.

   An acknowledgement that recvCheckV2 returns with `pause = true` (the read went through the pausing loop,
   skipped a keep-alive, was retried after a pause, or was re-dated by a resume) must not be used for the
   chunk-time statistics, nor the next kAckChanBufferSize + 2 ones: `ignoreChunkTimeCount`.  But while the
   sender is still PROBING the buffer size (t.bufInitPhase) the encoder goroutine waits, after every buffer it
   delivers, for bufInitDone() -- sendDataWriter.Write blocks on bufInitCh -- and only this loop calls it.  So
   in the probing phase every acknowledgement has to release the encoder whatever its pause flag:
       if ignoreChunkTimeCount <= 0 || t.bufInitPhase.Load() { ... bufInitDone() ... }
   Without the second operand a pause inside the probing phase leaves the encoder waiting for ever (no timer
   anywhere on that path: the wire sender waits for the encoder, the ack reader for the wire sender).

   [pra_step st pause grow]: one iteration of the loop body after pipelineRecvCurrentAck returned; [grow] is the
   outcome of `length == bufSize && chunkTime < 500 ms && bufSize < MaxBufSize`.  Result: the new state and
   whether bufInitDone() was called.  Executable definitions only. *)
From Trzsz Require Export Base.Bytes.
From Trzsz Require Import Gen.Consts.
From Coq Require Import ZArith.

Record pra := mkPra {
  pra_ignore : Z;        (* ignoreChunkTimeCount *)
  pra_init : bool }.     (* t.bufInitPhase *)

Definition pra_step (st : pra) (pause grow : bool) : pra * bool :=
  let cnt := if pause then Z.of_N pause_ignore_chunk_count else pra_ignore st in
  if (cnt <=? 0)%Z || pra_init st then
    if grow then (mkPra cnt (pra_init st), pra_init st)          (* buffer doubled; if probing: bufInitDone() *)
    else (mkPra cnt false, pra_init st)                          (* if probing: probing over, bufInitDone() *)
  else (mkPra (cnt - 1)%Z (pra_init st), false).                 (* ignoreChunkTimeCount-- *)

Fixpoint pra_run (st : pra) (acks : list (bool * bool)) : pra * list bool :=
  match acks with
  | [] => (st, [])
  | (p, g) :: rest =>
    let '(st1, r) := pra_step st p g in
    let '(st2, rs) := pra_run st1 rest in (st2, r :: rs)
  end.

Definition pra_init0 : pra := mkPra 0 true.     (* newTransfer: bufInitPhase = true; the loop: ignoreChunkTimeCount := 0 *)
