(* Message-level model of a WHOLE transfer ("L3", property C01):
     transfer.go   sendFiles / recvFiles, sendFileNum / recvFileNum, sendFileName / recvFileName,
                   sendFileSize / recvFileSize, sendFileData / recvFileData (protocol 1),
                   sendFileMD5 / recvFileMD5, clientExit / recvExit
     append.go     sendFileNameV3 / recvFileNameV3 (JSON names, target reply), the guard of
                   sendPrefixHash / recvPrefixHash that skips the resume exchange
     pipeline.go   sendFileDataV2 / recvFileDataV2, isCompressFixed, sendCompressFlag /
                   recvCompressFlag, pipelineRecvAck / pipelineRecvFinalAck, pipelineSendAck,
                   pipelineSaveData's step = size check
     trz.go / tsz.go / filter.go   who sends EXIT (always the client) and with which names

   Two deterministic machines (state x incoming message -> state x outgoing messages) and their
   composition over two perfect FIFO queues.  The payload codecs are Model/Wire.v (L1), the
   receiver's name handling and file creation are Model/Names.v on the abstract file system
   Model/Fs.v.  MD5 is the abstract [H]; zstd and zlib are Section variables as in Wire.v.

   Abstractions (each is discharged or quantified over in the theorems of Props/C01.v):
   * the adaptive buffer size is an arbitrary list of frame sizes per file ([sc_sizes], then
     [sc_dflt] for ever); pipelineSendData's re-splitting is one more such cutting;
   * windowed acknowledgement: the sender emits all frames of a file, then consumes the acks;
     the queues are unbounded, so this is the schedule with the largest window;
   * the "saved step" a per-frame ack carries and the not-yet-complete final acks the receiver
     emits every 200 ms depend on the disk writer's progress: they come from the schedule
     ([sc_steps], [sc_prefinal]); the sender ignores the former and skips the latter;
   * isCompressionProfitable (a heuristic on the file content) is the schedule's [sc_profit];
   * a file is written to the abstract file system when it is complete (the receiver's state
     before the file was opened is kept, and Names' creation function is re-run with the
     accepted bytes as the payload); partial files after a failure are the subject of C10;
   * JSON coding of names is not modelled: NAME / SUCC payloads are typed records.

   The two sub-protocols are composed in from their own models:
   * the ARCHIVE stream (protocol >= 4, overwrite off: archiveSourceFiles bundles the entries of
     one path id into its first entry, [tr_group]; that entry is named with archive:true and its
     "file" is the stream of Model/Archive.v): the sender reads it through the archive reader
     ([Archive.ar_reader_run], read sizes from the schedule), announces newArchiveReader's size,
     and sends it like any file; the receiver writes the decoded stream through the archive writer
     ([Archive.aw_writer_run], write sizes from the schedule) whose tree is the subtree below the
     archive's local name ([tr_graft]).  The header line of an entry is abstract as in Archive.v:
     [ahdr] / [aparse] are Section variables (encodeString(json) / decodeString + unmarshalSourceFile);
   * the RESUME exchange (protocol >= 3 onto a non-empty existing file, overwrite on): the
     functions of Model/Resume.v message by message - the sender emits the HASH records of
     [Resume.send_hashes] (all of them before it looks at the answers: the largest window; the
     schedule says after how many the hash goroutine observes stopNow), the receiver answers each
     with one step of [Resume.recv_hashes] and cuts the file at its matchStep on Over, the sender
     consumes the answers as [Resume.recv_acks] does and sends the rest of the file from its
     matchStep.  The prefix digest (hex MD5) is the Section variable [hx].
   Deviations (none reachable when the two machines talk to each other): an archive header that
   carries another path id than the archive's is refused here (the real writer creates another
   top-level name: KNOWN finding archive-entry-foreign-top-level, C07); effects of archive entries
   are not entered into Names' effect log (C07's MEntry does that).

   Executable definitions only. *)
From Coq Require Import ZArith.
From Trzsz Require Export Base.Bytes.
From Trzsz Require Import Gen.Consts Model.Path Model.Fs Model.Names Model.Escape Model.Base64 Model.Wire Model.RelayNeg.
From Trzsz Require Model.Resume Model.Archive.

(* ---- configuration (transferConfig as both ends hold it after the CFG line) ---- *)
Record tr_cfg := mkTrCfg {
  tc_proto : N;          (* Protocol; 0 / 1 = the legacy stop-and-wait exchange *)
  tc_binary : bool;      (* Binary *)
  tc_directory : bool;   (* Directory *)
  tc_overwrite : bool;   (* Overwrite *)
  tc_ctype : N;          (* CompressType *)
  tc_table : table;      (* EscapeTable; [] = none *)
  tc_upload : bool       (* true: the client is the sender (trz); false: the client receives (tsz) *)
}.

Definition tr_pipeline (c : tr_cfg) : bool := Consts.tr_proto_pipeline <=? tc_proto c.
Definition tr_json_names (c : tr_cfg) : bool := Consts.tr_proto_json_names <=? tc_proto c.
(* sendFileName marshals the source record in directory mode; sendFileNameV3 always *)
Definition tr_json (c : tr_cfg) : bool := tr_json_names c || tc_directory c.
Definition tr_names_cfg (c : tr_cfg) : Names.config :=
  {| overwrite := tc_overwrite c; directory := tc_directory c; v3 := tr_json_names c |}.

(* ---- isCompressFixed, interpreted from the regenerated decision list ---- *)
Definition tr_rule_cond (kind value : N) (c : tr_cfg) (size : N) : bool :=
  if kind =? 0 then tc_proto c <? value
  else if kind =? 1 then tc_ctype c =? value
  else if kind =? 2 then size <? value
  else false.
Definition tr_comp_val (v : N) (c : tr_cfg) : bool :=
  if v =? 0 then false else if v =? 1 then true else negb (tc_binary c).
Fixpoint tr_rules_eval (rules : list (N * N * bool * N)) (c : tr_cfg) (size : N) : bool * bool :=
  match rules with
  | [] => (fst Consts.tr_compress_default, tr_comp_val (snd Consts.tr_compress_default) c)
  | (k, v, fx, cv) :: r =>
    if tr_rule_cond k v c size then (fx, tr_comp_val cv c) else tr_rules_eval r c size
  end.
(* (fixed, compress) *)
Definition tr_is_compress_fixed (c : tr_cfg) (size : N) : bool * bool :=
  tr_rules_eval Consts.tr_compress_rules c size.

(* ---- source entries (checkPathsReadable's list) and the per-file schedule ---- *)
Inductive tr_entry := mkTrEntry {
  te_id : Z;                      (* PathID *)
  te_rel : list name;             (* RelPath *)
  te_isdir : bool;                (* IsDir *)
  te_chunks : list (list byte);   (* the reads of the file; its content is their concatenation *)
  te_subs : list tr_entry         (* SubFiles: filled by archiveSourceFiles ([tr_group]), [] otherwise *)
}.
Definition te_data (e : tr_entry) : list byte := concat (te_chunks e).
Definition te_size (e : tr_entry) : N := if te_isdir e then 0 else N.of_nat (length (te_data e)).
Definition te_name (e : tr_entry) : name := last (te_rel e) [].     (* getFileName *)

Record tr_sched := mkTrSched {
  sc_sizes : list nat; sc_dflt : nat;   (* frame sizes (protocol >= 2) / chunk sizes (protocol 1) *)
  sc_profit : bool;                     (* isCompressionProfitable, consulted only when not fixed *)
  sc_steps : list N;                    (* savedSteps at the moment of each per-frame ack *)
  sc_prefinal : list N;                 (* savedSteps at each final-ack attempt before completion *)
  sc_hstops : option nat;               (* resume: after how many HASH lines the hash sender observes stopNow (None: never) *)
  sc_rsizes : list nat; sc_rdflt : nat; (* archive: buffer sizes of the reads of the archive reader (each + 1) *)
  sc_wsizes : list nat; sc_wdflt : nat  (* archive: how the decoded stream is cut into the writes of the archive writer *)
}.

Definition tr_add_name (names : list name) (nm : name) : list name :=
  if existsb (list_eqb nm) names then names else names ++ [nm].

Definition tr_blen (l : list byte) : N := N.of_nat (length l).

Definition tr_has_subs (e : tr_entry) : bool := nonempty (te_subs e).

(* ---- archiveSourceFiles: with protocol >= 4 and overwrite off the entries of one path id are
   bundled into the first entry of that id (its SubFiles), ids in the order of first occurrence.
   (The Go code indexes an array of length last.PathID + 1 by PathID; for the lists
   checkPathsReadable produces - ids 0, 1, 2, ... in non-decreasing order - that is the same.) ---- *)
Definition tr_archive_mode (c : tr_cfg) : bool := (Consts.tr_proto_archive <=? tc_proto c) && negb (tc_overwrite c).
Definition tr_same_id (e : tr_entry) (x : tr_entry * tr_sched) : bool := Z.eqb (te_id (fst x)) (te_id e).
Definition tr_with_subs (e : tr_entry) (subs : list tr_entry) : tr_entry :=
  mkTrEntry (te_id e) (te_rel e) (te_isdir e) (te_chunks e) subs.
Fixpoint tr_group_go (n : nat) (ess : list (tr_entry * tr_sched)) : list (tr_entry * tr_sched) :=
  match n, ess with
  | S n', (e, sc) :: r =>
    (tr_with_subs e (te_subs e ++ map fst (filter (tr_same_id e) r)), sc)
      :: tr_group_go n' (filter (fun x => negb (tr_same_id e x)) r)
  | _, _ => []
  end.
Definition tr_group (c : tr_cfg) (ess : list (tr_entry * tr_sched)) : list (tr_entry * tr_sched) :=
  if tr_archive_mode c then tr_group_go (length ess) ess else ess.

(* the entries an item stands for: itself and its SubFiles *)
Definition tr_members (e : tr_entry) : list tr_entry := tr_with_subs e [] :: te_subs e.

(* ---- the archive stream of an item: Model/Archive.v's entries ---- *)
Definition tr_ameta (e : tr_entry) : Archive.ameta :=
  Archive.mkAMeta (tl (te_rel e)) (te_isdir e) (Z.of_N (te_size e)).
Definition tr_aentry (e : tr_entry) : Archive.aentry := Archive.mkAEntry (tr_ameta e) (te_data e).
Definition tr_src (e : tr_entry) : src :=
  {| s_id := te_id e; s_rel := te_rel e; s_isdir := te_isdir e; s_archive := false |}.
Definition tr_anode (n : Archive.anode) : node := match n with Archive.ADir => Dir | Archive.AFile x => File x end.
(* the tree of the archive writer, planted at [base] (= destination / local name of the archive);
   the first binding of an [afs] wins, so the oldest is planted first *)
Definition tr_graft (f : fs) (base : path) (t : Archive.afs) : fs :=
  fold_right (fun pn f' => set f' (base ++ fst pn) (tr_anode (snd pn))) f t.
Definition tr_set_fs (st : state) (f : fs) : state :=
  {| st_fs := f; st_log := st_log st; st_created := st_created st; st_map := st_map st |}.
Definition tr_graft_st (st : state) (base : path) (t : Archive.afs) : state := tr_set_fs st (tr_graft (st_fs st) base t).
(* the content of an open file replaced (resume: cut at the agreed offset, the rest written behind) *)
Definition tr_set_file (st : state) (p : path) (data : list byte) : state := tr_set_fs st (set (st_fs st) p (File data)).
Definition tr_old_content (st : state) (p : path) : list byte :=
  match lookup (st_fs st) p with Some (File old) => old | _ => [] end.

(* the rest of a file from offset n, as the reads that follow file.Seek(n) *)
Fixpoint tr_skip_chunks (n : nat) (cs : list (list byte)) : list (list byte) :=
  match cs with
  | [] => []
  | ch :: r => if (length ch <=? n)%nat then tr_skip_chunks (n - length ch) r else skipn n ch :: r
  end.
Definition tr_rem_entry (e : tr_entry) (ms : Z) : tr_entry :=
  mkTrEntry (te_id e) (te_rel e) false (tr_skip_chunks (Z.to_nat ms) (te_chunks e)) [].

Definition tr_hash_B : N := Consts.prefix_hash_step.

(* resume: the prefix digests compared do not collide - the premise of C08_identical, for a source
   content and the content it meets at the destination *)
Definition tr_no_collision (hx : list byte -> Resume.digest) (src old : list byte) : Prop :=
  forall k, hx (firstn k src) = hx (firstn k old) -> firstn k src = firstn k old.

Section Transfer.
Variable digest : Type.
Variable H : list byte -> digest.
Variable deq : digest -> digest -> bool.
Variable zcomp : list (list byte) -> list (list byte).
Variable zdecomp : list byte -> option (list byte).
Variable zl : list byte -> list byte.
Variable unzl : list byte -> option (list byte).
Variable hx : list byte -> Resume.digest.          (* fmt.Sprintf("%x", md5) of a prefix (resume) *)
Variable ahdr : src -> Z -> list byte.             (* archive header: encodeString(marshalSourceFile) of a record with its Size *)
Variable aparse : list byte -> option (src * Z).   (* decodeString + json.Unmarshal of a header line *)

(* ---- typed messages ---- *)
Inductive tr_npayload :=
| TrPlain (nm : name)               (* the base name as a string *)
| TrJson (s : src) (size : N).      (* marshalSourceFile: path_id, path_name, is_dir, archive, size *)

Inductive tr_msg :=
| TrNum (n : N)                       (* #NUM:n *)
| TrName (p : tr_npayload)            (* #NAME: *)
| TrSize (n : N)                      (* #SIZE:n *)
| TrComp (b : bool)                   (* #COMP:true/false *)
| TrData (f : list byte)              (* #DATA: one frame (protocol >= 2; [] = the finish flag) or one coded chunk (protocol 1) *)
| TrMd5 (d : digest)                  (* #MD5: *)
| TrExit (names : list name)          (* #EXIT: the client's closing message with the names it reports *)
| TrHash (step : Z) (h : Resume.digest) (* #HASH:{"step":..,"hash":..} *)
| TrHashOver                          (* #HASH:{..,"over":true} *)
| TrSuccInt (n : N)                   (* #SUCC:n — echo of NUM / SIZE, chunk length (protocol 1), final ack step *)
| TrSuccName (nm : name)              (* #SUCC:<local name> *)
| TrSuccTarget (nm : name) (size : N) (* #SUCC:{"name":..,"size":..} (protocol >= 3) *)
| TrSuccAck (len step : N)            (* #SUCC:len/step *)
| TrSuccDigest (d : digest)           (* #SUCC:<digest> *)
| TrSuccHack (step : Z) (mtch : bool) (* #SUCC:{"step":..,"match":..} answering a HASH record *)
| TrKeepAlive                         (* #DATA:= / #SUCC:= while pausing *)
| TrFail.                             (* #FAIL: / #fail: *)

(* ---- what both ends derive from an entry ---- *)
Definition tr_payload (c : tr_cfg) (e : tr_entry) : tr_npayload :=
  if tr_json c then
    TrJson {| s_id := te_id e; s_rel := te_rel e; s_isdir := te_isdir e; s_archive := tr_has_subs e |} (te_size e)
  else TrPlain (te_name e).

(* sendCompressFlag: the decision and the COMP message if there is one *)
Definition tr_compress (c : tr_cfg) (e : tr_entry) (sc : tr_sched) : bool * list tr_msg :=
  match tr_is_compress_fixed c (te_size e) with
  | (true, cp) => (cp, [])
  | (false, _) => (sc_profit sc, [TrComp (sc_profit sc)])
  end.

Definition tr_frames (c : tr_cfg) (e : tr_entry) (sc : tr_sched) : list (list byte) :=
  wire_frames (sc_sizes sc) (sc_dflt sc)
    (wire_encode zcomp (tc_binary c) (fst (tr_compress c e sc)) (tc_table c) (te_chunks e)).

(* protocol 1: the content is cut into chunks, each coded on its own *)
Definition tr_v1_chunks (e : tr_entry) (sc : tr_sched) : list (list byte) :=
  wire_frames (sc_sizes sc) (sc_dflt sc) (te_data e).
Definition tr_v1_payload (c : tr_cfg) (chunk : list byte) : list byte :=
  if tc_binary c then escape (tc_table c) chunk else wire_encode_bytes zl chunk.

(* ---- the archive stream of an item ---- *)
(* the header coding as Archive.v wants it, for the archive with path id [i] and top-level name [r0] *)
Definition tr_hdr_of (i : Z) (r0 : name) (m : Archive.ameta) : list byte :=
  ahdr {| s_id := i; s_rel := r0 :: Archive.am_path m; s_isdir := Archive.am_dir m; s_archive := false |} (Archive.am_size m).
(* unmarshalSourceFile on a header line, then createDirOrFile's use of the record: the local name is
   the one mapped to the path id, the path below it is RelPath[1:] *)
Definition tr_parse_of (i : Z) (raw : list byte) : option Archive.ameta :=
  match aparse raw with
  | Some (s, sz) =>
    match s_rel s with
    | [] => None
    | r0 :: rest =>
      if chk_unmarshal code_checks && negb (forallb valid_name (r0 :: rest)) then None
      else if Z.eqb (s_id s) i && negb (s_archive s) then Some (Archive.mkAMeta rest (s_isdir s) sz)
      else None                       (* deviation: a foreign path id / a nested archive is refused here *)
    end
  | None => None
  end.
Definition tr_arch_hdr (e : tr_entry) : Archive.ameta -> list byte := tr_hdr_of (te_id e) (hd [] (te_rel e)).
Definition tr_arch_entries (e : tr_entry) : list Archive.aentry := map tr_aentry (te_subs e).
(* newArchiveReader's size *)
Definition tr_arch_size (e : tr_entry) : Z := Archive.ar_total_size (tr_arch_hdr e) (tr_arch_entries e).
(* the "file" the sender reads: archiveFileReader.Read with the buffer sizes of the schedule *)
Definition tr_arch_entry (e : tr_entry) (sc : tr_sched) : option tr_entry :=
  match Archive.ar_reader_run (tr_arch_hdr e) (tr_arch_entries e) (map S (sc_rsizes sc)) (S (sc_rdflt sc)) with
  | (outs, Archive.ArEndEof, _) => Some (mkTrEntry (te_id e) (te_rel e) false outs [])
  | _ => None
  end.
(* archiveFileWriter: the decoded stream, cut as the schedule says, written through the writer
   (pipelineSaveData: one writeAll per decoded buffer); the tree below the archive's local name *)
Definition tr_unarchive (i : Z) (sc : tr_sched) (w : list byte) : option Archive.afs :=
  match Archive.aw_writer_run (tr_parse_of i) true (wire_frames (sc_wsizes sc) (sc_wdflt sc) w) with
  | Archive.AwDone ast => Some (Archive.aw_fs (Archive.aw_close ast))
  | _ => None
  end.

(* ---- the resume exchange ---- *)
Definition tr_hmsg (m : Resume.hmsg) : tr_msg :=
  match m with Resume.Hash s h => TrHash s h | Resume.Over => TrHashOver end.
Definition tr_hack (a : Resume.ack) : tr_msg := TrSuccHack (Resume.a_step a) (Resume.a_match a).
(* size := minInt64(srcFile.Size, tgtFile.Size) *)
Definition tr_resume_size (e : tr_entry) (tsize : N) : nat := N.to_nat (N.min (tr_blen (te_data e)) tsize).
(* sendPrefixHash announces the source size first when Protocol < 4 *)
Definition tr_resume_pre (c : tr_cfg) (e : tr_entry) : list tr_msg :=
  if tc_proto c <? Consts.tr_proto_resume_nosize then [TrSize (te_size e)] else [].

(* ==================================== SENDER ==================================== *)
Inductive tr_sphase :=
| SpNum                                           (* NUM sent *)
| SpName                                          (* NAME of the head entry sent *)
| SpHash (size mstep : Z)                         (* resume: all HASH records sent; pipelineRecvHashAck with its matchStep *)
| SpSize                                          (* SIZE sent *)
| SpAcks (pending : list N)                       (* all frames sent; per-frame acks outstanding *)
| SpFinal                                         (* pipelineRecvFinalAck *)
| SpV1 (rest : list (list byte)) (expect : N)     (* protocol 1: one chunk sent, its ack outstanding *)
| SpMd5                                           (* MD5 sent *)
| SpExit                                          (* server-side sender: recvExit *)
| SpDone                                          (* success *)
| SpFail.

Record tr_sstate := mkSS {
  ss_phase : tr_sphase;
  ss_todo : list (tr_entry * tr_sched);           (* head = the entry being sent; once its name exchange is over,
                                                     the FILE whose data is sent: the entry itself, the rest of it
                                                     behind the agreed offset (resume), or the archive stream *)
  ss_names : list name                            (* remoteNames *)
}.

Definition tr_s_fail (st : tr_sstate) : tr_sstate * list tr_msg :=
  (mkSS SpFail (ss_todo st) (ss_names st), [TrFail]).
Definition tr_s_stay (st : tr_sstate) : tr_sstate * list tr_msg := (st, []).

(* top of the loop in sendFiles; after the loop the client says EXIT, the server waits for it *)
Definition tr_s_next (c : tr_cfg) (todo : list (tr_entry * tr_sched)) (names : list name)
  : tr_sstate * list tr_msg :=
  match todo with
  | [] => if tc_upload c then (mkSS SpDone [] names, [TrExit names]) else (mkSS SpExit [] names, [])
  | (e, _) :: _ => (mkSS SpName todo names, [TrName (tr_payload c e)])
  end.

(* [items]: the list sendFiles loops over, i.e. after archiveSourceFiles *)
Definition tr_sender_init (c : tr_cfg) (items : list (tr_entry * tr_sched)) : tr_sstate * list tr_msg :=
  (mkSS SpNum items [], [TrNum (N.of_nat (length items))]).

Definition tr_s_md5 (st : tr_sstate) (e : tr_entry) : tr_sstate * list tr_msg :=
  (mkSS SpMd5 (ss_todo st) (ss_names st), [TrMd5 (H (te_data e))]).

(* the file to send is known: sendFileSize *)
Definition tr_s_size (f : tr_entry) (sc : tr_sched) (rest : list (tr_entry * tr_sched)) (names : list name) (n : N)
  : tr_sstate * list tr_msg :=
  (mkSS SpSize ((f, sc) :: rest) names, [TrSize n]).

(* sendPrefixHash: [SIZE], the HASH records, and - when there is nothing to compare - the verdict at once *)
Definition tr_s_resume (c : tr_cfg) (e : tr_entry) (sc : tr_sched) (rest : list (tr_entry * tr_sched))
    (names : list name) (tsize : N) : tr_sstate * list tr_msg :=
  let size := tr_resume_size e tsize in
  match Resume.send_hashes tr_hash_B hx size (sc_hstops sc) (te_data e) size 0 [] with
  | None => (mkSS SpFail ((e, sc) :: rest) names, [TrFail])
  | Some hs =>
    if (size =? 0)%nat then
      (mkSS SpSize ((tr_rem_entry e 0, sc) :: rest) names,
       tr_resume_pre c e ++ map tr_hmsg hs ++ [TrSize (te_size (tr_rem_entry e 0))])
    else (mkSS (SpHash (Z.of_nat size) 0) ((e, sc) :: rest) names, tr_resume_pre c e ++ map tr_hmsg hs)
  end.

(* sendFileName / sendFileNameV3 after the reply *)
Definition tr_s_named (c : tr_cfg) (st : tr_sstate) (e : tr_entry) (sc : tr_sched) (rest : list (tr_entry * tr_sched))
    (nm : name) (tsize : N) : tr_sstate * list tr_msg :=
  let names' := tr_add_name (ss_names st) nm in
  if tr_json_names c && tr_has_subs e then
    match tr_arch_entry e sc with
    | Some f => tr_s_size f sc rest names' (Z.to_N (tr_arch_size e))
    | None => (mkSS SpFail (ss_todo st) names', [TrFail])
    end
  else if te_isdir e then tr_s_next c rest names'
  else if 0 <? tsize then tr_s_resume c e sc rest names' tsize
  else (mkSS SpSize (ss_todo st) names', [TrSize (te_size e)]).

(* sendFileSize's echo arrived: sendFileDataV2 / sendFileData *)
Definition tr_s_data (c : tr_cfg) (st : tr_sstate) (e : tr_entry) (sc : tr_sched) : tr_sstate * list tr_msg :=
  if tr_pipeline c then
    let fs := tr_frames c e sc in
    (mkSS (SpAcks (map tr_blen fs ++ [0])) (ss_todo st) (ss_names st),
     snd (tr_compress c e sc) ++ map TrData fs ++ [TrData []])
  else
    match tr_v1_chunks e sc with
    | [] => tr_s_md5 st e
    | ch :: chs => (mkSS (SpV1 chs (tr_blen ch)) (ss_todo st) (ss_names st), [TrData (tr_v1_payload c ch)])
    end.

(* pipelineRecvHashAck on one answer *)
Definition tr_s_hack (st : tr_sstate) (size mstep step : Z) (mtch : bool) : tr_sstate * list tr_msg :=
  match ss_todo st with
  | (e, sc) :: rest =>
    let verdict ms := tr_s_size (tr_rem_entry e ms) sc rest (ss_names st) (te_size (tr_rem_entry e ms)) in
    if negb mtch then verdict mstep
    else if (step =? size)%Z then verdict step
    else if (size <? step)%Z then tr_s_fail st
    else (mkSS (SpHash size step) (ss_todo st) (ss_names st), [])
  | [] => tr_s_fail st
  end.

Definition tr_sender (c : tr_cfg) (st : tr_sstate) (m : tr_msg) : tr_sstate * list tr_msg :=
  match ss_phase st with
  | SpDone | SpFail => tr_s_stay st
  | ph =>
    match m with
    | TrFail => (mkSS SpFail (ss_todo st) (ss_names st), [])
    | _ =>
      match ph with
      | SpNum =>
        match m with
        | TrSuccInt n =>
          if n =? N.of_nat (length (ss_todo st)) then tr_s_next c (ss_todo st) (ss_names st) else tr_s_fail st
        | _ => tr_s_fail st
        end
      | SpName =>
        match ss_todo st with
        | (e, sc) :: rest =>
          match m with
          | TrSuccName nm => if tr_json_names c then tr_s_fail st else tr_s_named c st e sc rest nm 0
          | TrSuccTarget nm sz => if tr_json_names c then tr_s_named c st e sc rest nm sz else tr_s_fail st
          | _ => tr_s_fail st
          end
        | [] => tr_s_fail st
        end
      | SpHash size mstep =>
        match m with
        | TrSuccHack step mtch => tr_s_hack st size mstep step mtch
        | _ => tr_s_fail st
        end
      | SpSize =>
        match ss_todo st, m with
        | (e, sc) :: _, TrSuccInt n => if n =? te_size e then tr_s_data c st e sc else tr_s_fail st
        | _, _ => tr_s_fail st
        end
      | SpAcks pending =>
        match m, pending with
        | TrKeepAlive, _ => tr_s_stay st
        | TrSuccAck len _, l :: ls =>
          if len =? l then
            (mkSS (match ls with [] => SpFinal | _ => SpAcks ls end) (ss_todo st) (ss_names st), [])
          else tr_s_fail st
        | _, _ => tr_s_fail st
        end
      | SpFinal =>
        match ss_todo st, m with
        | _, TrKeepAlive => tr_s_stay st
        | (e, _) :: _, TrSuccInt step =>
          if te_size e <? step then tr_s_fail st
          else if step =? te_size e then tr_s_md5 st e
          else tr_s_stay st
        | _, _ => tr_s_fail st
        end
      | SpV1 chs expect =>
        match ss_todo st, m with
        | (e, _) :: _, TrSuccInt n =>
          if n =? expect then
            match chs with
            | [] => tr_s_md5 st e
            | ch :: chs' => (mkSS (SpV1 chs' (tr_blen ch)) (ss_todo st) (ss_names st), [TrData (tr_v1_payload c ch)])
            end
          else tr_s_fail st
        | _, _ => tr_s_fail st
        end
      | SpMd5 =>
        match ss_todo st, m with
        | (e, _) :: rest, TrSuccDigest d =>
          if deq d (H (te_data e)) then tr_s_next c rest (ss_names st) else tr_s_fail st
        | _, _ => tr_s_fail st
        end
      | SpExit =>
        match m with
        | TrExit _ => (mkSS SpDone (ss_todo st) (ss_names st), [])
        | _ => tr_s_fail st
        end
      | SpDone | SpFail => tr_s_stay st
      end
    end
  end.

(* =================================== RECEIVER =================================== *)
(* recvFileName / recvFileNameV3: the creation step of Names.v on the typed payload.
   [content] is what is written through the returned writer. *)
Definition tr_create (c : tr_cfg) (dest : path) (p : tr_npayload) (content : list byte) (st : state)
  : result * state :=
  match p with
  | TrPlain nm =>
    if tr_json c then (NErr, st) else create_file code_checks (tr_names_cfg c) dest nm true content st
  | TrJson s _ =>
    if tr_json_names c then recv_json code_checks (tr_names_cfg c) dest (Some s) false content st
    else if tc_directory c then recv_json code_checks (tr_names_cfg c) dest (Some s) true content st
    else (NErr, st)
  end.

Definition tr_p_isdir (p : tr_npayload) : bool := match p with TrJson s _ => s_isdir s | TrPlain _ => false end.
Definition tr_p_archive (p : tr_npayload) : bool := match p with TrJson s _ => s_archive s | TrPlain _ => false end.
Definition tr_p_tail (p : tr_npayload) : list name := match p with TrJson s _ => tl (s_rel s) | TrPlain _ => [] end.
Definition tr_p_aid (p : tr_npayload) : Z := match p with TrJson s _ => s_id s | TrPlain _ => 0%Z end.
Definition tr_p_size (p : tr_npayload) : N := match p with TrJson _ size => size | TrPlain _ => 0 end.   (* srcFile.Size *)
(* fullPath of createDirOrFile / createFile *)
Definition tr_leaf (dest : path) (ln : name) (p : tr_npayload) : path := join dest (ln :: tr_p_tail p).
(* file.Stat().Size() right after the file was opened *)
Definition tr_target_size (dest : path) (ln : name) (p : tr_npayload) (st : state) : N :=
  match lookup (st_fs st) (tr_leaf dest ln p) with
  | Some (File old) => tr_blen old
  | _ => 0
  end.

Inductive tr_rphase :=
| RpNum
| RpName
| RpHSize (p : tr_npayload) (leaf : path) (old : list byte)                    (* resume, protocol 3: SIZE (not echoed) *)
| RpHash (p : tr_npayload) (leaf : path) (old : list byte) (ssize : N) (r : Resume.rstate)
                                                  (* recvPrefixHash's loop; [ssize] = the source size as announced *)
| RpSize (p : tr_npayload)
| RpComp (p : tr_npayload) (size : N)
| RpData (p : tr_npayload) (size : N) (compress : bool) (acc : list (list byte)) (steps : list N)
| RpV1 (p : tr_npayload) (size : N) (w : list byte)
| RpMd5 (p : tr_npayload) (w : list byte)
| RpExit                                          (* server-side receiver: recvExit *)
| RpDone
| RpFail.

Record tr_rstate := mkRSx {
  rs_phase : tr_rphase;
  rs_left : nat;                 (* files still to come *)
  rs_st : Names.state;           (* file system, effect log, createdFiles, fileNameMap *)
  rs_names : list name;          (* localNames *)
  rs_sched : list tr_sched;      (* head = the schedule of the current entry *)
  rs_open : option (path * Resume.file * Z)
                                 (* resume: the existing file, cut at matchStep, offset there; resumeRestSize =
                                    what the rest must measure (announced source size - matchStep) *)
}.
Notation mkRS ph left st names sch := (mkRSx ph left st names sch None).

Definition tr_r_fail (st : tr_rstate) : tr_rstate * list tr_msg :=
  (mkRSx RpFail (rs_left st) (rs_st st) (rs_names st) (rs_sched st) (rs_open st), [TrFail]).
Definition tr_r_stay (st : tr_rstate) : tr_rstate * list tr_msg := (st, []).
Definition tr_r_phase (st : tr_rstate) (ph : tr_rphase) : tr_rstate :=
  mkRSx ph (rs_left st) (rs_st st) (rs_names st) (rs_sched st) (rs_open st).

(* top of the loop in recvFiles; after the loop the client says EXIT, the server waits for it *)
Definition tr_r_next (c : tr_cfg) (left : nat) (fst_ : Names.state) (names : list name) (sch : list tr_sched)
  : tr_rstate * list tr_msg :=
  match left with
  | O => if tc_upload c then (mkRS RpExit O fst_ names sch, []) else (mkRS RpDone O fst_ names sch, [TrExit names])
  | S _ => (mkRS RpName left fst_ names sch, [])
  end.

Definition tr_receiver_init (f0 : fs) (sch : list tr_sched) : tr_rstate :=
  mkRS RpNum O (init_state f0) [] sch.

Definition tr_dflt_sched : tr_sched := mkTrSched [] 1 false [] [] None [] 0 [] 1.
Definition tr_cur_sched (st : tr_rstate) : tr_sched :=
  match rs_sched st with sc :: _ => sc | [] => tr_dflt_sched end.

(* one entry is finished: recvFiles' loop continues *)
Definition tr_r_done (c : tr_cfg) (st : tr_rstate) (fst_ : Names.state) (outs : list tr_msg)
  : tr_rstate * list tr_msg :=
  match tr_r_next c (pred (rs_left st)) fst_ (rs_names st) (tl (rs_sched st)) with
  | (st', outs') => (st', outs ++ outs')
  end.

Definition tr_r_name (c : tr_cfg) (dest : path) (st : tr_rstate) (p : tr_npayload) : tr_rstate * list tr_msg :=
  match tr_create c dest p [] (rs_st st) with
  | (NErr, _) => tr_r_fail st
  | (NOk ln, st1) =>
    let names' := tr_add_name (rs_names st) ln in
    let tsize := if tr_p_isdir p || tr_p_archive p then 0 else tr_target_size dest ln p st1 in
    let reply := if tr_json_names c then TrSuccTarget ln tsize else TrSuccName ln in
    let stn := mkRSx (rs_phase st) (rs_left st) (rs_st st) names' (rs_sched st) (rs_open st) in
    if tr_p_archive p then (tr_r_phase stn (RpSize p), [reply])      (* the archive writer is the "file" *)
    else if tr_p_isdir p then tr_r_done c stn st1 [reply]
    else if tr_json_names c && (0 <? tsize) then
      let leaf := tr_leaf dest ln p in
      let old := tr_old_content st1 leaf in
      (tr_r_phase stn (if tc_proto c <? Consts.tr_proto_resume_nosize then RpHSize p leaf old
                       else RpHash p leaf old (tr_p_size p) Resume.r_init), [reply])
    else (tr_r_phase stn (RpSize p), [reply])
  end.

(* recvPrefixHash on one HASH record: one step of Resume.recv_hashes, the answers it appends *)
Definition tr_r_hash (st : tr_rstate) (p : tr_npayload) (leaf : path) (old : list byte) (ssize : N) (r : Resume.rstate)
    (step : Z) (h : Resume.digest) : tr_rstate * list tr_msg :=
  match Resume.recv_hashes tr_hash_B hx old [Resume.Hash step h] r with
  | Resume.RBlocked r' =>
    (tr_r_phase st (RpHash p leaf old ssize r'), map tr_hack (skipn (length (Resume.r_acks r)) (Resume.r_acks r')))
  | _ => tr_r_fail st
  end.
(* Over: file.Seek(matchStep), file.Truncate(matchStep); resumeRestSize = size - matchStep *)
Definition tr_r_over (st : tr_rstate) (p : tr_npayload) (leaf : path) (old : list byte) (ssize : N) (r : Resume.rstate)
  : tr_rstate * list tr_msg :=
  let mr := Z.to_nat (Resume.r_mstep r) in
  let f := Resume.f_truncate (Resume.f_seek (Resume.mkFile old (Resume.r_off r)) mr) mr in
  (mkRSx (RpSize p) (rs_left st) (rs_st st) (rs_names st) (rs_sched st)
         (Some (leaf, f, (Z.of_N ssize - Resume.r_mstep r)%Z)), []).

(* recvFiles after recvFileSize (which has echoed the size): a resumed file whose announced rest is not the
   source size minus the receiver's own offset is an error ("Resume offset mismatch") *)
Definition tr_rest_mismatch (st : tr_rstate) (n : N) : bool :=
  match rs_open st with
  | Some (_, _, rest) => Consts.tr_resume_rest_check && ((0 <=? rest) && negb (Z.of_N n =? rest))%Z
  | None => false
  end.

Definition tr_r_size (c : tr_cfg) (st : tr_rstate) (p : tr_npayload) (n : N) : tr_rstate * list tr_msg :=
  if tr_rest_mismatch st n then (tr_r_phase st RpFail, [TrSuccInt n; TrFail]) else
  if tr_pipeline c then
    match tr_is_compress_fixed c n with
    | (true, cp) => (tr_r_phase st (RpData p n cp [] (sc_steps (tr_cur_sched st))), [TrSuccInt n])
    | (false, _) => (tr_r_phase st (RpComp p n), [TrSuccInt n])
    end
  else if 0 <? n then (tr_r_phase st (RpV1 p n []), [TrSuccInt n])
  else (tr_r_phase st (RpMd5 p []), [TrSuccInt n]).

Definition tr_rdflt : nat := 1.   (* the decoder's read size: any positive value gives the same bytes (L1) *)

(* what was written through the writer reaches the abstract file system: a plain file by re-running
   Names' creation with the bytes; a resumed file by opening it again and placing the bytes behind the
   cut; an archive by creating its directory again and planting the writer's tree below it *)
Definition tr_complete (c : tr_cfg) (dest : path) (st : tr_rstate) (p : tr_npayload) (w : list byte) : option state :=
  match rs_open st with
  | Some (leaf, f, _) =>
    match tr_create c dest p [] (rs_st st) with
    | (NOk _, st2) => Some (tr_set_file st2 leaf (Resume.f_data (Resume.f_write f w)))
    | (NErr, _) => None
    end
  | None =>
    if tr_p_archive p then
      match tr_create c dest p [] (rs_st st) with
      | (NOk ln, st2) =>
        match tr_unarchive (tr_p_aid p) (tr_cur_sched st) w with
        | Some t => Some (tr_graft_st st2 (dest ++ [ln]) t)
        | None => None
        end
      | (NErr, _) => None
      end
    else
      match tr_create c dest p w (rs_st st) with
      | (NOk _, st2) => Some st2
      | (NErr, _) => None
      end
  end.

(* one DATA message in the pipelined exchange *)
Definition tr_r_frame (c : tr_cfg) (st : tr_rstate) (p : tr_npayload) (size : N) (cp : bool)
    (acc : list (list byte)) (steps : list N) (f : list byte) : tr_rstate * list tr_msg :=
  let step := match steps with s :: _ => s | [] => 0 end in
  match f with
  | _ :: _ => (tr_r_phase st (RpData p size cp (acc ++ [f]) (tl steps)), [TrSuccAck (tr_blen f) step])
  | [] =>
    match wire_decode zdecomp (tc_binary c) cp (tc_table c) acc [] tr_rdflt with
    | None => tr_r_fail st
    | Some w =>
      if tr_blen w =? size then
        (* the archive writer has seen the whole stream by now: an error of its Write ends the transfer *)
        if tr_p_archive p && match tr_unarchive (tr_p_aid p) (tr_cur_sched st) w with Some _ => false | None => true end
        then tr_r_fail st
        else
        (tr_r_phase st (RpMd5 p w),
         [TrSuccAck 0 step] ++ map TrSuccInt (filter (fun s => s <? size) (sc_prefinal (tr_cur_sched st)))
           ++ [TrSuccInt size])
      else tr_r_fail st
    end
  end.

(* one DATA message in the legacy exchange *)
Definition tr_r_v1 (c : tr_cfg) (st : tr_rstate) (p : tr_npayload) (size : N) (w : list byte)
    (pl : list byte) : tr_rstate * list tr_msg :=
  match wire_v1_decode unzl (tc_binary c) (tc_table c) pl with
  | None => tr_r_fail st
  | Some ch =>
    let w' := w ++ ch in
    (tr_r_phase st (if tr_blen w' <? size then RpV1 p size w' else RpMd5 p w'), [TrSuccInt (tr_blen ch)])
  end.

(* recvFileMD5, then the file is complete *)
Definition tr_r_md5 (c : tr_cfg) (dest : path) (st : tr_rstate) (p : tr_npayload) (w : list byte) (d : digest)
  : tr_rstate * list tr_msg :=
  if deq d (H w) then
    match tr_complete c dest st p w with
    | Some st2 => tr_r_done c st st2 [TrSuccDigest (H w)]
    | None => tr_r_fail st
    end
  else tr_r_fail st.

Definition tr_receiver (c : tr_cfg) (dest : path) (st : tr_rstate) (m : tr_msg) : tr_rstate * list tr_msg :=
  match rs_phase st with
  | RpDone | RpFail => tr_r_stay st
  | ph =>
    match m with
    | TrFail => (tr_r_phase st RpFail, [])
    | _ =>
      match ph with
      | RpNum =>
        match m with
        | TrNum n =>
          match tr_r_next c (N.to_nat n) (rs_st st) (rs_names st) (rs_sched st) with
          | (st', outs) => (st', TrSuccInt n :: outs)
          end
        | _ => tr_r_fail st
        end
      | RpName => match m with TrName p => tr_r_name c dest st p | _ => tr_r_fail st end
      | RpHSize p leaf old =>
        match m with TrSize n => (tr_r_phase st (RpHash p leaf old n Resume.r_init), []) | _ => tr_r_fail st end
      | RpHash p leaf old ssize r =>
        match m with
        | TrHash step h => tr_r_hash st p leaf old ssize r step h
        | TrHashOver => tr_r_over st p leaf old ssize r
        | _ => tr_r_fail st
        end
      | RpSize p => match m with TrSize n => tr_r_size c st p n | _ => tr_r_fail st end
      | RpComp p size =>
        match m with
        | TrComp b => (tr_r_phase st (RpData p size b [] (sc_steps (tr_cur_sched st))), [])
        | _ => tr_r_fail st
        end
      | RpData p size cp acc steps =>
        match m with
        | TrKeepAlive => tr_r_stay st
        | TrData f => tr_r_frame c st p size cp acc steps f
        | _ => tr_r_fail st
        end
      | RpV1 p size w => match m with TrData pl => tr_r_v1 c st p size w pl | _ => tr_r_fail st end
      | RpMd5 p w => match m with TrMd5 d => tr_r_md5 c dest st p w d | _ => tr_r_fail st end
      | RpExit => match m with TrExit _ => (tr_r_phase st RpDone, []) | _ => tr_r_fail st end
      | RpDone | RpFail => tr_r_stay st
      end
    end
  end.

(* ================================= COMPOSITION ================================= *)
(* two perfect FIFO queues; the log records every message in the order it was emitted,
   [true] = sender -> receiver *)
Record tr_conf := mkConf {
  cf_s : tr_sstate; cf_r : tr_rstate;
  cf_s2r : list tr_msg; cf_r2s : list tr_msg;
  cf_log : list (bool * tr_msg)
}.

Definition tr_tag_out (dir : bool) (ms : list tr_msg) : list (bool * tr_msg) := map (fun m => (dir, m)) ms.

(* deliver the oldest message to the receiver if there is one, else the oldest to the sender *)
Definition tr_step (c : tr_cfg) (dest : path) (cf : tr_conf) : option tr_conf :=
  match cf_s2r cf with
  | m :: q =>
    match tr_receiver c dest (cf_r cf) m with
    | (r', outs) => Some (mkConf (cf_s cf) r' q (cf_r2s cf ++ outs) (cf_log cf ++ tr_tag_out false outs))
    end
  | [] =>
    match cf_r2s cf with
    | m :: q =>
      match tr_sender c (cf_s cf) m with
      | (s', outs) => Some (mkConf s' (cf_r cf) outs q (cf_log cf ++ tr_tag_out true outs))
      end
    | [] => None
    end
  end.

Fixpoint tr_run_from (fuel : nat) (c : tr_cfg) (dest : path) (cf : tr_conf) : tr_conf :=
  match fuel with
  | O => cf
  | S f => match tr_step c dest cf with Some cf' => tr_run_from f c dest cf' | None => cf end
  end.

Definition tr_init (c : tr_cfg) (items : list (tr_entry * tr_sched)) (f0 : fs) : tr_conf :=
  match tr_sender_init c items with
  | (s, outs) => mkConf s (tr_receiver_init f0 (map snd items)) outs [] (tr_tag_out true outs)
  end.

(* the run on the list sendFiles loops over ... *)
Definition tr_run_items (fuel : nat) (c : tr_cfg) (dest : path) (items : list (tr_entry * tr_sched)) (f0 : fs) : tr_conf :=
  tr_run_from fuel c dest (tr_init c items f0).
(* ... and on the list checkPathsReadable hands to sendFiles *)
Definition tr_run (fuel : nat) (c : tr_cfg) (dest : path) (ess : list (tr_entry * tr_sched)) (f0 : fs) : tr_conf :=
  tr_run_items fuel c dest (tr_group c ess) f0.

Definition tr_sender_ok (cf : tr_conf) : bool := match ss_phase (cf_s cf) with SpDone => true | _ => false end.
Definition tr_receiver_ok (cf : tr_conf) : bool := match rs_phase (cf_r cf) with RpDone => true | _ => false end.
Definition tr_quiet (cf : tr_conf) : bool :=
  match cf_s2r cf, cf_r2s cf with [], [] => true | _, _ => false end.

(* ================================ SPECIFICATION ================================ *)
(* the resume exchange of one file, as Model/Resume.v runs it: [old] = the existing content *)
Definition tr_resume_run (c : tr_cfg) (e : tr_entry) (sc : tr_sched) (old : list byte) : Resume.result :=
  Resume.run tr_hash_B hx (tc_proto c) (sc_hstops sc) (te_data e) old.

(* what the receiver's file system goes through for one entry, as a function of the entry and its
   schedule alone: None = the receiver refuses, or an exchange does not complete *)
Definition tr_spec_entry (c : tr_cfg) (dest : path) (e : tr_entry) (sc : tr_sched) (st : state) : option (name * state) :=
  let p := tr_payload c e in
  if te_isdir e && negb (tr_json c) then None else      (* a directory cannot be named in plain mode *)
  match tr_create c dest p [] st with
  | (NErr, _) => None
  | (NOk ln, st1) =>
    if tr_has_subs e then
      match tr_arch_entry e sc with
      | Some f =>
        match tr_unarchive (te_id e) sc (te_data f) with
        | Some t => Some (ln, tr_graft_st st1 (dest ++ [ln]) t)
        | None => None
        end
      | None => None
      end
    else if te_isdir e then Some (ln, st1)
    else if tr_json_names c && (0 <? tr_target_size dest ln p st1) then
      match tr_resume_run c e sc (tr_old_content st1 (tr_leaf dest ln p)) with
      | Resume.Done o => Some (ln, tr_set_file st1 (tr_leaf dest ln p) (Resume.o_final o))
      | _ => None
      end
    else match tr_create c dest p (te_data e) st with
         | (NOk _, st2) => Some (ln, st2)
         | (NErr, _) => None
         end
  end.

Fixpoint tr_spec (c : tr_cfg) (dest : path) (items : list (tr_entry * tr_sched)) (st : state) (names : list name)
  : option (list name * list name * state) :=    (* (names per item, deduplicated names, state) *)
  match items with
  | [] => Some ([], names, st)
  | (e, sc) :: items' =>
    match tr_spec_entry c dest e sc st with
    | None => None
    | Some (ln, st') =>
      match tr_spec c dest items' st' (tr_add_name names ln) with
      | Some (per, all, stf) => Some (ln :: per, all, stf)
      | None => None
      end
    end
  end.

(* the premise about the prefix digests, along the run: for every entry, the non-empty file it meets
   at its place (if it meets one) - exactly the contents whose prefixes the resume exchange compares *)
Definition tr_coll_ok (c : tr_cfg) (dest : path) (e : tr_entry) (st : state) : Prop :=
  forall ln st1, tr_create c dest (tr_payload c e) [] st = (NOk ln, st1) ->
    tr_old_content st1 (tr_leaf dest ln (tr_payload c e)) <> [] ->
    tr_no_collision hx (te_data e) (tr_old_content st1 (tr_leaf dest ln (tr_payload c e))).
Fixpoint tr_resume_safe (c : tr_cfg) (dest : path) (items : list (tr_entry * tr_sched)) (st : state) : Prop :=
  match items with
  | [] => True
  | (e, sc) :: r =>
    tr_coll_ok c dest e st /\
    match tr_spec_entry c dest e sc st with Some (_, st') => tr_resume_safe c dest r st' | None => True end
  end.

(* ---- the number of messages of a fault-free transfer = the fuel that suffices.  In the resume
   exchange it depends on what is at the destination, so it is computed along the specification ---- *)
(* SIZE, echo, [COMP], frames, finish flag, acks, final acks, MD5, digest reply *)
Definition tr_tail_steps (c : tr_cfg) (e : tr_entry) (sc : tr_sched) : nat :=
  if tr_pipeline c then
    2 + length (snd (tr_compress c e sc)) + 2 * S (length (tr_frames c e sc))
      + length (filter (fun s => s <? te_size e) (sc_prefinal sc)) + 1 + 2
  else 2 + 2 * length (tr_v1_chunks e sc) + 2.
Definition tr_entry_steps (c : tr_cfg) (dest : path) (e : tr_entry) (sc : tr_sched) (st : state) : nat :=
  2 +
  match tr_create c dest (tr_payload c e) [] st with
  | (NErr, _) => 0
  | (NOk ln, st1) =>
    if tr_json_names c && tr_has_subs e then
      match tr_arch_entry e sc with Some f => tr_tail_steps c f sc | None => 1 end
    else if te_isdir e then 0
    else if tr_json_names c && (0 <? tr_target_size dest ln (tr_payload c e) st1) then
      match tr_resume_run c e sc (tr_old_content st1 (tr_leaf dest ln (tr_payload c e))) with
      | Resume.Done o =>
        length (tr_resume_pre c e) + length (Resume.o_hashes o) + length (Resume.o_acks o)
          + tr_tail_steps c (tr_rem_entry e (Resume.o_msend o)) sc
      | Resume.SenderBlocked hs acks => length (tr_resume_pre c e) + length hs + length acks
      | _ => 0
      end
    else tr_tail_steps c e sc
  end.
Fixpoint tr_fuel_go (c : tr_cfg) (dest : path) (items : list (tr_entry * tr_sched)) (st : state) : nat :=
  match items with
  | [] => 1
  | (e, sc) :: r =>
    tr_entry_steps c dest e sc st +
    match tr_spec_entry c dest e sc st with Some (_, st') => tr_fuel_go c dest r st' | None => 0 end
  end.
Definition tr_fuel_items (c : tr_cfg) (dest : path) (items : list (tr_entry * tr_sched)) (f0 : fs) : nat :=
  2 + tr_fuel_go c dest items (init_state f0).
Definition tr_fuel (c : tr_cfg) (dest : path) (ess : list (tr_entry * tr_sched)) (f0 : fs) : nat :=
  tr_fuel_items c dest (tr_group c ess) f0.

(* ================================ TRANSCRIPT SHAPE ================================ *)
Inductive tr_tag := TgNum | TgSucc | TgName | TgSize | TgComp | TgData | TgFinish | TgAck | TgMd5 | TgExit
                  | TgHash | TgOver | TgHack | TgOther.

Definition tr_tag_of (m : tr_msg) : tr_tag :=
  match m with
  | TrNum _ => TgNum | TrName _ => TgName | TrSize _ => TgSize | TrComp _ => TgComp
  | TrData [] => TgFinish | TrData _ => TgData | TrMd5 _ => TgMd5 | TrExit _ => TgExit
  | TrHash _ _ => TgHash | TrHashOver => TgOver | TrSuccHack _ _ => TgHack
  | TrSuccInt _ | TrSuccName _ | TrSuccTarget _ _ | TrSuccDigest _ => TgSucc
  | TrSuccAck _ _ => TgAck
  | TrKeepAlive | TrFail => TgOther
  end.

(* the grammar
     NUM SUCC (NAME SUCC [resume] [SIZE SUCC [COMP] DATA* finish ack* SUCC+ MD5 SUCC])* EXIT       (pipelined)
       resume = [SIZE] (HASH | hash-ack)* Over hash-ack*      (protocol >= 3; the SIZE only below protocol 4)
     NUM SUCC (NAME SUCC [SIZE SUCC (DATA SUCC)* MD5 SUCC])* EXIT                                    (legacy)
   as a deterministic automaton.  An archive is a NAME whose file is the archive stream: the same
   words.  HASH records and their answers travel in opposite directions at the same time, so every
   interleaving of the two is a word. *)
Inductive tr_q := Q0 | Q1 | Q2 | Q3 | Q4 | Q5 | Q6 | Q7 | Q8 | Q9 | Q10 | Q11 | QH | QO | QE.

Definition tr_delta (pipe : bool) (q : tr_q) (t : tr_tag) : option tr_q :=
  match q, t with
  | Q0, TgNum => Some Q1
  | Q1, TgSucc => Some Q2
  | Q2, TgName => Some Q3            (* Q2: between entries *)
  | Q2, TgExit => Some QE
  | Q3, TgSucc => Some Q4
  | Q4, TgName => Some Q3            (* Q4: after a name reply *)
  | Q4, TgExit => Some QE
  | Q4, TgSize => Some Q5
  | Q4, TgHash => if pipe then Some QH else None     (* resume, protocol >= 4 *)
  | Q4, TgOver => if pipe then Some QO else None
  | Q5, TgSucc => Some Q6
  | Q5, TgHash => if pipe then Some QH else None     (* resume, protocol 3: the SIZE before was not a sendFileSize *)
  | Q5, TgOver => if pipe then Some QO else None
  | QH, TgHash => Some QH
  | QH, TgHack => Some QH
  | QH, TgOver => Some QO
  | QO, TgHack => Some QO
  | QO, TgSize => Some Q5
  | Q6, TgComp => if pipe then Some Q7 else None
  | Q6, TgData => if pipe then Some Q7 else Some Q11
  | Q6, TgFinish => if pipe then Some Q8 else Some Q11   (* legacy: a chunk whose coding is empty is still a DATA message *)
  | Q6, TgMd5 => if pipe then None else Some Q10
  | Q7, TgData => Some Q7
  | Q7, TgFinish => Some Q8
  | Q8, TgAck => Some Q8
  | Q8, TgSucc => Some Q9
  | Q9, TgSucc => Some Q9
  | Q9, TgMd5 => Some Q10
  | Q10, TgSucc => Some Q2
  | Q11, TgSucc => Some Q6
  | _, _ => None
  end.

Fixpoint tr_accepts_from (pipe : bool) (q : tr_q) (ts : list tr_tag) : option tr_q :=
  match ts with
  | [] => Some q
  | t :: ts' => match tr_delta pipe q t with Some q' => tr_accepts_from pipe q' ts' | None => None end
  end.

Definition tr_shape_ok (pipe : bool) (log : list (bool * tr_msg)) : bool :=
  match tr_accepts_from pipe Q0 (map (fun dm => tr_tag_of (snd dm)) log) with
  | Some QE => true
  | _ => false
  end.

End Transfer.
Notation mkRS ph left st names sch := (mkRSx ph left st names sch None).

(* ============================ WHAT THE THEOREMS SAY ============================ *)
Definition tr_p_id (p : tr_npayload) : option Z := match p with TrJson s _ => Some (s_id s) | TrPlain _ => None end.
Definition tr_p_head (p : tr_npayload) : name := match p with TrJson s _ => hd [] (s_rel s) | TrPlain nm => nm end.

(* where an entry lands below its top-level name, what is to be there, and its top-level name as sent *)
Definition tr_tail (c : tr_cfg) (e : tr_entry) : list name := tr_p_tail (tr_payload c e).
Definition tr_node (e : tr_entry) : node := if te_isdir e then Dir else File (te_data e).
Definition tr_key (c : tr_cfg) (e : tr_entry) : name := tr_p_head (tr_payload c e).

(* the SubFiles of an item as archiveSourceFiles and a directory scan leave them: of the item's path
   id and below its top-level name, themselves without SubFiles, no path twice, none the archive's
   root, none below a file ([Archive.awf_tree]) *)
Definition tr_subs_wf (e : tr_entry) : Prop :=
  (forall s, In s (te_subs e) -> te_id s = te_id e /\ te_subs s = [] /\ hd [] (te_rel s) = hd [] (te_rel e) /\ te_rel s <> []) /\
  Archive.awf_tree (tr_arch_entries e).

(* the list sendFiles loops over, as checkPathsReadable / checkDuplicateNames / archiveSourceFiles leave it:
   overwrite off, JSON names: no two entries with the same path id and the same path below the
   top-level name, and the first entry of every path id is the top-level one;
   overwrite on: no two entries with the same relative path (plain mode: the same name);
   SubFiles only in archive mode (protocol >= 4, overwrite off), then one item per path id *)
Definition tr_wf (c : tr_cfg) (es : list tr_entry) : Prop :=
  (tc_overwrite c = false -> tr_json c = true ->
     NoDup (map (fun e => (te_id e, tl (te_rel e))) es) /\
     (forall pre e post, es = pre ++ e :: post -> tl (te_rel e) <> [] -> exists e', In e' pre /\ te_id e' = te_id e)) /\
  (tc_overwrite c = true -> NoDup (map (fun e => tr_key c e :: tr_tail c e) es)) /\
  (forall e, In e es -> te_subs e <> [] -> tr_archive_mode c = true /\ tr_subs_wf e) /\
  (tr_archive_mode c = true -> NoDup (map te_id es)).

(* the destination [ff] holds the items [es] under the names [per] (one per item; [all] is
   their deduplicated list): every member of an item (itself and its SubFiles) at its relative path
   below the item's name with its bytes; with overwrite on the names are the ones sent, with overwrite
   off they did not exist in [f0] and do now; nothing that existed is gone *)
Definition tr_tree_at (c : tr_cfg) (d : path) (f0 ff : fs) (es : list tr_entry) (per all : list name) : Prop :=
  length per = length es /\
  (forall ln, In ln all <-> In ln per) /\ NoDup all /\
  (forall e ln, In (e, ln) (combine es per) ->
     forall m, In m (tr_members e) -> lookup ff (d ++ ln :: tr_tail c m) = Some (tr_node m)) /\
  (tc_overwrite c = true -> forall e ln, In (e, ln) (combine es per) -> ln = tr_key c e) /\
  (tc_overwrite c = false -> forall e ln, In (e, ln) (combine es per) ->
     lookup f0 (d ++ [ln]) = None /\ lookup ff (d ++ [ln]) <> None) /\
  (forall q, lookup f0 q <> None -> lookup ff q <> None).

(* both sides report success with the same names, the queues are empty, the tree is there, the
   client's EXIT message carries exactly these names, and the transcript has the shape of the grammar *)
Definition tr_outcome_ok {digest : Type} (c : tr_cfg) (d : path) (f0 : fs) (items : list (tr_entry * tr_sched))
    (cf : tr_conf digest) : Prop :=
  tr_sender_ok digest cf = true /\ tr_receiver_ok digest cf = true /\ tr_quiet digest cf = true /\
  exists per all, ss_names (cf_s digest cf) = all /\ rs_names (cf_r digest cf) = all /\
    tr_tree_at c d f0 (st_fs (rs_st (cf_r digest cf))) (map fst items) per all /\
    (exists L, cf_log digest cf = L ++ [(tc_upload c, TrExit digest all)]) /\   (* the names the client reports *)
    tr_shape_ok digest (tr_pipeline c) (cf_log digest cf) = true.

(* ---- the premises about the abstract external functions, for the data at hand only ---- *)
(* archive headers: the writer's decoder inverts the reader's encoder on the SubFiles of the items, an
   encoded header contains no newline, and checkFileName accepts the names (they come from a directory scan) *)
Definition tr_hdr_ok1 (ahdr : src -> Z -> list byte) (aparse : list byte -> option (src * Z)) (s : tr_entry) : Prop :=
  aparse (ahdr (tr_src s) (Z.of_N (te_size s))) = Some (tr_src s, Z.of_N (te_size s)) /\
  ~ In Consts.archive_newline (ahdr (tr_src s) (Z.of_N (te_size s))) /\
  forallb valid_name (te_rel s) = true /\
  bytes_ok (ahdr (tr_src s) (Z.of_N (te_size s))) = true.
Definition tr_hdrs_ok (ahdr : src -> Z -> list byte) (aparse : list byte -> option (src * Z)) (es : list tr_entry) : Prop :=
  forall e s, In e es -> In s (te_subs e) -> tr_hdr_ok1 ahdr aparse s.
(* the contents are bytes: of the items and of their SubFiles *)
Definition tr_bytes_ok (items : list (tr_entry * tr_sched)) : Prop :=
  Forall (fun es => Forall (fun m => bytes_ok (te_data m) = true) (tr_members (fst es))) items.

(* ---- a sufficient condition on the inputs for the receiver to accept every entry ---- *)
Definition tr_len_ok (n : name) : Prop := (name_max <? name_len n) = false.           (* at most NAME_MAX bytes *)
Definition tr_comp_ok (n : name) : Prop := has_nul n = false /\ tr_len_ok n.
Definition tr_name_fine (n : name) : Prop := valid_name n = true /\ tr_comp_ok n.     (* checkFileName accepts it *)
(* the names of an entry are clean; JSON mode: the path is not empty; a directory only in JSON mode *)
Definition tr_entry_clean (c : tr_cfg) (e : tr_entry) : Prop :=
  Forall tr_name_fine (tr_key c e :: tr_tail c e) /\ (tr_json c = true -> te_rel e <> []) /\
  (te_isdir e = true -> tr_json c = true).
Definition tr_leaf_of (c : tr_cfg) (d : path) (e : tr_entry) : path := d ++ tr_key c e :: tr_tail c e.
(* the hash sender stops (if at all) only after the verdict: stopNow is set once the ack reader has
   delivered matchStep *)
Definition tr_stops_ok (hx : list byte -> Resume.digest) (sc : tr_sched) (src old : list byte) : Prop :=
  match sc_hstops sc with
  | None => True
  | Some k =>
    let size := Nat.min (length src) (length old) in
    (Resume.good_blocks tr_hash_B hx size src old size 0 < k)%nat
  end.
(* what may be in the way of an entry: nothing - or, with overwrite on, a regular file where a file goes
   (protocol >= 3 resumes onto it: then the hash sender stops only after the verdict, and the prefix
   digests compared do not collide) *)
Definition tr_place_ok (hx : list byte -> Resume.digest) (c : tr_cfg) (d : path) (f0 : fs) (es : tr_entry * tr_sched) : Prop :=
  lookup f0 (tr_leaf_of c d (fst es)) = None \/
  (tc_overwrite c = true /\ te_isdir (fst es) = false /\
   exists old, lookup f0 (tr_leaf_of c d (fst es)) = Some (File old) /\
     tr_stops_ok hx (snd es) (te_data (fst es)) old /\ tr_no_collision hx (te_data (fst es)) old).
(* clean names; no two entries at one place; every entry below the top level comes after its
   parent directory, which has the same path id; entries share a path id exactly when they share
   the top-level name; nothing but (overwrite on) a regular file in the way at the destination;
   SubFiles only in archive mode, as [tr_wf] wants them, below a directory; then one item per path id *)
Definition tr_ready (hx : list byte -> Resume.digest) (c : tr_cfg) (d : path) (f0 : fs) (items : list (tr_entry * tr_sched)) : Prop :=
  let es := map fst items in
  Forall (tr_entry_clean c) es /\
  NoDup (map (fun e => tr_key c e :: tr_tail c e) es) /\
  (forall pre e post, es = pre ++ e :: post -> tr_tail c e <> [] ->
     exists e', In e' pre /\ te_isdir e' = true /\ te_id e' = te_id e /\
       tr_key c e' :: tr_tail c e' = removelast (tr_key c e :: tr_tail c e)) /\
  (forall e e', In e es -> In e' es -> (te_id e = te_id e' <-> tr_key c e = tr_key c e')) /\
  (forall it, In it items -> tr_place_ok hx c d f0 it) /\
  (forall e, In e es -> te_subs e <> [] -> tr_archive_mode c = true /\ tr_subs_wf e /\ te_isdir e = true) /\
  (tr_archive_mode c = true -> NoDup (map te_id es)).

(* the escape table is absent or well-formed *)
Definition tr_table_ok (c : tr_cfg) : Prop := tc_table c = [] \/ wf (tc_table c) = true.

(* [tr_wf] as a computation *)
Fixpoint tr_nodupb {A} (eqb : A -> A -> bool) (l : list A) : bool :=
  match l with
  | [] => true
  | x :: r => negb (existsb (eqb x) r) && tr_nodupb eqb r
  end.
Fixpoint tr_first_top (seen : list Z) (es : list tr_entry) : bool :=
  match es with
  | [] => true
  | e :: r =>
    (match tl (te_rel e) with [] => true | _ => existsb (Z.eqb (te_id e)) seen end) && tr_first_top (te_id e :: seen) r
  end.
Definition tr_subs_wfb (e : tr_entry) : bool :=
  forallb (fun s => Z.eqb (te_id s) (te_id e) && negb (tr_has_subs s) && list_eqb (hd [] (te_rel s)) (hd [] (te_rel e))
                    && nonempty (te_rel s)) (te_subs e) &&
  tr_nodupb Archive.apath_eqb (map (fun s => tl (te_rel s)) (te_subs e)) &&
  forallb (fun s => nonempty (tl (te_rel s))) (te_subs e) &&
  forallb (fun s => te_isdir s || forallb (fun s' => negb (Archive.apath_proper_prefix (tl (te_rel s)) (tl (te_rel s')))) (te_subs e)) (te_subs e).
Definition tr_wfb (c : tr_cfg) (es : list tr_entry) : bool :=
  (if tc_overwrite c then tr_nodupb path_eqb (map (fun e => tr_key c e :: tr_tail c e) es)
   else if tr_json c then
     tr_nodupb (fun a b => Z.eqb (fst a) (fst b) && path_eqb (snd a) (snd b)) (map (fun e => (te_id e, tl (te_rel e))) es)
     && tr_first_top [] es
   else true) &&
  forallb (fun e => negb (tr_has_subs e) || (tr_archive_mode c && tr_subs_wfb e)) es &&
  (negb (tr_archive_mode c) || tr_nodupb Z.eqb (map te_id es)).

(* ---- the configuration both ends hold after the negotiation of Model/RelayNeg.v (C14) ---- *)
Definition tr_cfg_of (nc : n_config) (upload : bool) : tr_cfg :=
  mkTrCfg (Z.to_N (nc_protocol nc)) (nc_binary nc) (nc_directory nc) (nc_overwrite nc) (Z.to_N (nc_compress nc))
          (match nc_escape nc with Some t => t | None => [] end) upload.
