(* Message-level model of a WHOLE transfer ("L3", property C01):
     transfer.go   sendFiles / recvFiles, sendFileNum / recvFileNum, sendFileName / recvFileName,
                   sendFileSize / recvFileSize, sendFileData / recvFileData (protocol 1),
                   sendFileMD5 / recvFileMD5, clientExit / recvExit
     append.go     sendFileNameV3 / recvFileNameV3 (JSON names, target reply), the guard of
                   sendPrefixHash / recvPrefixHash that skips the resume exchange
     pipeline.go   sendFileDataV2 / recvFileDataV2, isCompressFixed, sendCompressFlag /
                   recvCompressFlag, pipelineRecvAck / pipelineRecvFinalAck, pipelineSendAck,
                   pipelineSaveData's step = size check
     trz.go / tsz.go / filter.go   who sends EXIT (always the client) and with which names

   Two deterministic machines (state x incoming message -> state x outgoing messages) and their
   composition over two perfect FIFO queues.  The payload codecs are Model/Wire.v (L1), the
   receiver's name handling and file creation are Model/Names.v on the abstract file system
   Model/Fs.v.  MD5 is the abstract [H]; zstd and zlib are Section variables as in Wire.v.

   Abstractions (each is discharged or quantified over in the theorems of Props/C01.v):
   * the adaptive buffer size is an arbitrary list of frame sizes per file ([sc_sizes], then
     [sc_dflt] for ever); pipelineSendData's re-splitting is one more such cutting;
   * windowed acknowledgement: the sender emits all frames of a file, then consumes the acks;
     the queues are unbounded, so this is the schedule with the largest window;
   * the "saved step" a per-frame ack carries and the not-yet-complete final acks the receiver
     emits every 200 ms depend on the disk writer's progress: they come from the schedule
     ([sc_steps], [sc_prefinal]); the sender ignores the former and skips the latter;
   * isCompressionProfitable (a heuristic on the file content) is the schedule's [sc_profit];
   * a file is written to the abstract file system when it is complete (the receiver's state
     before the file was opened is kept, and Names' creation function is re-run with the
     accepted bytes as the payload); partial files after a failure are the subject of C10;
   * JSON coding of names is not modelled: NAME / SUCC payloads are typed records.

   NOT modelled here (clearly marked extensions): the archive stream for directories
   (protocol >= 4, overwrite off: Model/Archive.v, C15) and the prefix-hash resume exchange
   (protocol >= 3 onto a non-empty existing file: Model/Resume.v, C08).  The machines enter
   the phase [..Unmodelled] where the real code would start either of them; no theorem
   counts that phase as success.

   Executable definitions only. *)
From Coq Require Import ZArith.
From Trzsz Require Export Base.Bytes.
From Trzsz Require Import Gen.Consts Model.Path Model.Fs Model.Names Model.Escape Model.Base64 Model.Wire Model.RelayNeg.

(* ---- configuration (transferConfig as both ends hold it after the CFG line) ---- *)
Record tr_cfg := mkTrCfg {
  tc_proto : N;          (* Protocol; 0 / 1 = the legacy stop-and-wait exchange *)
  tc_binary : bool;      (* Binary *)
  tc_directory : bool;   (* Directory *)
  tc_overwrite : bool;   (* Overwrite *)
  tc_ctype : N;          (* CompressType *)
  tc_table : table;      (* EscapeTable; [] = none *)
  tc_upload : bool       (* true: the client is the sender (trz); false: the client receives (tsz) *)
}.

Definition tr_pipeline (c : tr_cfg) : bool := Consts.tr_proto_pipeline <=? tc_proto c.
Definition tr_json_names (c : tr_cfg) : bool := Consts.tr_proto_json_names <=? tc_proto c.
(* sendFileName marshals the source record in directory mode; sendFileNameV3 always *)
Definition tr_json (c : tr_cfg) : bool := tr_json_names c || tc_directory c.
Definition tr_names_cfg (c : tr_cfg) : Names.config :=
  {| overwrite := tc_overwrite c; directory := tc_directory c; v3 := tr_json_names c |}.

(* ---- isCompressFixed, interpreted from the regenerated decision list ---- *)
Definition tr_rule_cond (kind value : N) (c : tr_cfg) (size : N) : bool :=
  if kind =? 0 then tc_proto c <? value
  else if kind =? 1 then tc_ctype c =? value
  else if kind =? 2 then size <? value
  else false.
Definition tr_comp_val (v : N) (c : tr_cfg) : bool :=
  if v =? 0 then false else if v =? 1 then true else negb (tc_binary c).
Fixpoint tr_rules_eval (rules : list (N * N * bool * N)) (c : tr_cfg) (size : N) : bool * bool :=
  match rules with
  | [] => (fst Consts.tr_compress_default, tr_comp_val (snd Consts.tr_compress_default) c)
  | (k, v, fx, cv) :: r =>
    if tr_rule_cond k v c size then (fx, tr_comp_val cv c) else tr_rules_eval r c size
  end.
(* (fixed, compress) *)
Definition tr_is_compress_fixed (c : tr_cfg) (size : N) : bool * bool :=
  tr_rules_eval Consts.tr_compress_rules c size.

(* ---- source entries (checkPathsReadable's list) and the per-file schedule ---- *)
Record tr_entry := mkTrEntry {
  te_id : Z;                      (* PathID *)
  te_rel : list name;             (* RelPath *)
  te_isdir : bool;                (* IsDir *)
  te_chunks : list (list byte)    (* the reads of the file; its content is their concatenation *)
}.
Definition te_data (e : tr_entry) : list byte := concat (te_chunks e).
Definition te_size (e : tr_entry) : N := if te_isdir e then 0 else N.of_nat (length (te_data e)).
Definition te_name (e : tr_entry) : name := last (te_rel e) [].     (* getFileName *)

Record tr_sched := mkTrSched {
  sc_sizes : list nat; sc_dflt : nat;   (* frame sizes (protocol >= 2) / chunk sizes (protocol 1) *)
  sc_profit : bool;                     (* isCompressionProfitable, consulted only when not fixed *)
  sc_steps : list N;                    (* savedSteps at the moment of each per-frame ack *)
  sc_prefinal : list N                  (* savedSteps at each final-ack attempt before completion *)
}.

Definition tr_add_name (names : list name) (nm : name) : list name :=
  if existsb (list_eqb nm) names then names else names ++ [nm].

Definition tr_blen (l : list byte) : N := N.of_nat (length l).

Section Transfer.
Variable digest : Type.
Variable H : list byte -> digest.
Variable deq : digest -> digest -> bool.
Variable zcomp : list (list byte) -> list (list byte).
Variable zdecomp : list byte -> option (list byte).
Variable zl : list byte -> list byte.
Variable unzl : list byte -> option (list byte).

(* ---- typed messages ---- *)
Inductive tr_npayload :=
| TrPlain (nm : name)               (* the base name as a string *)
| TrJson (s : src) (size : N).      (* marshalSourceFile: path_id, path_name, is_dir, archive, size *)

Inductive tr_msg :=
| TrNum (n : N)                       (* #NUM:n *)
| TrName (p : tr_npayload)            (* #NAME: *)
| TrSize (n : N)                      (* #SIZE:n *)
| TrComp (b : bool)                   (* #COMP:true/false *)
| TrData (f : list byte)              (* #DATA: one frame (protocol >= 2; [] = the finish flag) or one coded chunk (protocol 1) *)
| TrMd5 (d : digest)                  (* #MD5: *)
| TrExit (names : list name)          (* #EXIT: the client's closing message with the names it reports *)
| TrSuccInt (n : N)                   (* #SUCC:n — echo of NUM / SIZE, chunk length (protocol 1), final ack step *)
| TrSuccName (nm : name)              (* #SUCC:<local name> *)
| TrSuccTarget (nm : name) (size : N) (* #SUCC:{"name":..,"size":..} (protocol >= 3) *)
| TrSuccAck (len step : N)            (* #SUCC:len/step *)
| TrSuccDigest (d : digest)           (* #SUCC:<digest> *)
| TrKeepAlive                         (* #DATA:= / #SUCC:= while pausing *)
| TrFail.                             (* #FAIL: / #fail: *)

(* ---- what both ends derive from an entry ---- *)
Definition tr_payload (c : tr_cfg) (e : tr_entry) : tr_npayload :=
  if tr_json c then
    TrJson {| s_id := te_id e; s_rel := te_rel e; s_isdir := te_isdir e; s_archive := false |} (te_size e)
  else TrPlain (te_name e).

(* sendCompressFlag: the decision and the COMP message if there is one *)
Definition tr_compress (c : tr_cfg) (e : tr_entry) (sc : tr_sched) : bool * list tr_msg :=
  match tr_is_compress_fixed c (te_size e) with
  | (true, cp) => (cp, [])
  | (false, _) => (sc_profit sc, [TrComp (sc_profit sc)])
  end.

Definition tr_frames (c : tr_cfg) (e : tr_entry) (sc : tr_sched) : list (list byte) :=
  wire_frames (sc_sizes sc) (sc_dflt sc)
    (wire_encode zcomp (tc_binary c) (fst (tr_compress c e sc)) (tc_table c) (te_chunks e)).

(* protocol 1: the content is cut into chunks, each coded on its own *)
Definition tr_v1_chunks (e : tr_entry) (sc : tr_sched) : list (list byte) :=
  wire_frames (sc_sizes sc) (sc_dflt sc) (te_data e).
Definition tr_v1_payload (c : tr_cfg) (chunk : list byte) : list byte :=
  if tc_binary c then escape (tc_table c) chunk else wire_encode_bytes zl chunk.

(* ==================================== SENDER ==================================== *)
Inductive tr_sphase :=
| SpNum                                           (* NUM sent *)
| SpName                                          (* NAME of the head entry sent *)
| SpSize                                          (* SIZE sent *)
| SpAcks (pending : list N)                       (* all frames sent; per-frame acks outstanding *)
| SpFinal                                         (* pipelineRecvFinalAck *)
| SpV1 (rest : list (list byte)) (expect : N)     (* protocol 1: one chunk sent, its ack outstanding *)
| SpMd5                                           (* MD5 sent *)
| SpExit                                          (* server-side sender: recvExit *)
| SpDone                                          (* success *)
| SpFail
| SpUnmodelled.                                   (* resume exchange would start here *)

Record tr_sstate := mkSS {
  ss_phase : tr_sphase;
  ss_todo : list (tr_entry * tr_sched);           (* head = the entry being sent *)
  ss_names : list name                            (* remoteNames *)
}.

Definition tr_s_fail (st : tr_sstate) : tr_sstate * list tr_msg :=
  (mkSS SpFail (ss_todo st) (ss_names st), [TrFail]).
Definition tr_s_stay (st : tr_sstate) : tr_sstate * list tr_msg := (st, []).

(* top of the loop in sendFiles; after the loop the client says EXIT, the server waits for it *)
Definition tr_s_next (c : tr_cfg) (todo : list (tr_entry * tr_sched)) (names : list name)
  : tr_sstate * list tr_msg :=
  match todo with
  | [] => if tc_upload c then (mkSS SpDone [] names, [TrExit names]) else (mkSS SpExit [] names, [])
  | (e, _) :: _ => (mkSS SpName todo names, [TrName (tr_payload c e)])
  end.

Definition tr_sender_init (c : tr_cfg) (ess : list (tr_entry * tr_sched)) : tr_sstate * list tr_msg :=
  (mkSS SpNum ess [], [TrNum (N.of_nat (length ess))]).

Definition tr_s_md5 (st : tr_sstate) (e : tr_entry) : tr_sstate * list tr_msg :=
  (mkSS SpMd5 (ss_todo st) (ss_names st), [TrMd5 (H (te_data e))]).

(* sendFileName / sendFileNameV3 after the reply *)
Definition tr_s_named (c : tr_cfg) (st : tr_sstate) (e : tr_entry) (rest : list (tr_entry * tr_sched))
    (nm : name) (tsize : N) : tr_sstate * list tr_msg :=
  let names' := tr_add_name (ss_names st) nm in
  if te_isdir e then tr_s_next c rest names'
  else if 0 <? tsize then (mkSS SpUnmodelled (ss_todo st) names', [])
  else (mkSS SpSize (ss_todo st) names', [TrSize (te_size e)]).

(* sendFileSize's echo arrived: sendFileDataV2 / sendFileData *)
Definition tr_s_data (c : tr_cfg) (st : tr_sstate) (e : tr_entry) (sc : tr_sched) : tr_sstate * list tr_msg :=
  if tr_pipeline c then
    let fs := tr_frames c e sc in
    (mkSS (SpAcks (map tr_blen fs ++ [0])) (ss_todo st) (ss_names st),
     snd (tr_compress c e sc) ++ map TrData fs ++ [TrData []])
  else
    match tr_v1_chunks e sc with
    | [] => tr_s_md5 st e
    | ch :: chs => (mkSS (SpV1 chs (tr_blen ch)) (ss_todo st) (ss_names st), [TrData (tr_v1_payload c ch)])
    end.

Definition tr_sender (c : tr_cfg) (st : tr_sstate) (m : tr_msg) : tr_sstate * list tr_msg :=
  match ss_phase st with
  | SpDone | SpFail | SpUnmodelled => tr_s_stay st
  | ph =>
    match m with
    | TrFail => (mkSS SpFail (ss_todo st) (ss_names st), [])
    | _ =>
      match ph with
      | SpNum =>
        match m with
        | TrSuccInt n =>
          if n =? N.of_nat (length (ss_todo st)) then tr_s_next c (ss_todo st) (ss_names st) else tr_s_fail st
        | _ => tr_s_fail st
        end
      | SpName =>
        match ss_todo st with
        | (e, _) :: rest =>
          match m with
          | TrSuccName nm => if tr_json_names c then tr_s_fail st else tr_s_named c st e rest nm 0
          | TrSuccTarget nm sz => if tr_json_names c then tr_s_named c st e rest nm sz else tr_s_fail st
          | _ => tr_s_fail st
          end
        | [] => tr_s_fail st
        end
      | SpSize =>
        match ss_todo st, m with
        | (e, sc) :: _, TrSuccInt n => if n =? te_size e then tr_s_data c st e sc else tr_s_fail st
        | _, _ => tr_s_fail st
        end
      | SpAcks pending =>
        match m, pending with
        | TrKeepAlive, _ => tr_s_stay st
        | TrSuccAck len _, l :: ls =>
          if len =? l then
            (mkSS (match ls with [] => SpFinal | _ => SpAcks ls end) (ss_todo st) (ss_names st), [])
          else tr_s_fail st
        | _, _ => tr_s_fail st
        end
      | SpFinal =>
        match ss_todo st, m with
        | _, TrKeepAlive => tr_s_stay st
        | (e, _) :: _, TrSuccInt step =>
          if te_size e <? step then tr_s_fail st
          else if step =? te_size e then tr_s_md5 st e
          else tr_s_stay st
        | _, _ => tr_s_fail st
        end
      | SpV1 chs expect =>
        match ss_todo st, m with
        | (e, _) :: _, TrSuccInt n =>
          if n =? expect then
            match chs with
            | [] => tr_s_md5 st e
            | ch :: chs' => (mkSS (SpV1 chs' (tr_blen ch)) (ss_todo st) (ss_names st), [TrData (tr_v1_payload c ch)])
            end
          else tr_s_fail st
        | _, _ => tr_s_fail st
        end
      | SpMd5 =>
        match ss_todo st, m with
        | (e, _) :: rest, TrSuccDigest d =>
          if deq d (H (te_data e)) then tr_s_next c rest (ss_names st) else tr_s_fail st
        | _, _ => tr_s_fail st
        end
      | SpExit =>
        match m with
        | TrExit _ => (mkSS SpDone (ss_todo st) (ss_names st), [])
        | _ => tr_s_fail st
        end
      | SpDone | SpFail | SpUnmodelled => tr_s_stay st
      end
    end
  end.

(* =================================== RECEIVER =================================== *)
(* recvFileName / recvFileNameV3: the creation step of Names.v on the typed payload.
   [content] is what is written through the returned writer. *)
Definition tr_create (c : tr_cfg) (dest : path) (p : tr_npayload) (content : list byte) (st : state)
  : result * state :=
  match p with
  | TrPlain nm =>
    if tr_json c then (NErr, st) else create_file code_checks (tr_names_cfg c) dest nm true content st
  | TrJson s _ =>
    if tr_json_names c then recv_json code_checks (tr_names_cfg c) dest (Some s) false content st
    else if tc_directory c then recv_json code_checks (tr_names_cfg c) dest (Some s) true content st
    else (NErr, st)
  end.

Definition tr_p_isdir (p : tr_npayload) : bool := match p with TrJson s _ => s_isdir s | TrPlain _ => false end.
Definition tr_p_archive (p : tr_npayload) : bool := match p with TrJson s _ => s_archive s | TrPlain _ => false end.
Definition tr_p_tail (p : tr_npayload) : list name := match p with TrJson s _ => tl (s_rel s) | TrPlain _ => [] end.
(* fullPath of createDirOrFile / createFile *)
Definition tr_leaf (dest : path) (ln : name) (p : tr_npayload) : path := join dest (ln :: tr_p_tail p).
(* file.Stat().Size() right after the file was opened *)
Definition tr_target_size (dest : path) (ln : name) (p : tr_npayload) (st : state) : N :=
  match lookup (st_fs st) (tr_leaf dest ln p) with
  | Some (File old) => tr_blen old
  | _ => 0
  end.

Inductive tr_rphase :=
| RpNum
| RpName
| RpSize (p : tr_npayload)
| RpComp (p : tr_npayload) (size : N)
| RpData (p : tr_npayload) (size : N) (compress : bool) (acc : list (list byte)) (steps : list N)
| RpV1 (p : tr_npayload) (size : N) (w : list byte)
| RpMd5 (p : tr_npayload) (w : list byte)
| RpExit                                          (* server-side receiver: recvExit *)
| RpDone
| RpFail
| RpUnmodelled.                                   (* archive stream or resume exchange would start here *)

Record tr_rstate := mkRS {
  rs_phase : tr_rphase;
  rs_left : nat;                 (* files still to come *)
  rs_st : Names.state;           (* file system, effect log, createdFiles, fileNameMap *)
  rs_names : list name;          (* localNames *)
  rs_sched : list tr_sched       (* head = the schedule of the current entry *)
}.

Definition tr_r_fail (st : tr_rstate) : tr_rstate * list tr_msg :=
  (mkRS RpFail (rs_left st) (rs_st st) (rs_names st) (rs_sched st), [TrFail]).
Definition tr_r_stay (st : tr_rstate) : tr_rstate * list tr_msg := (st, []).
Definition tr_r_phase (st : tr_rstate) (ph : tr_rphase) : tr_rstate :=
  mkRS ph (rs_left st) (rs_st st) (rs_names st) (rs_sched st).

(* top of the loop in recvFiles; after the loop the client says EXIT, the server waits for it *)
Definition tr_r_next (c : tr_cfg) (left : nat) (fst_ : Names.state) (names : list name) (sch : list tr_sched)
  : tr_rstate * list tr_msg :=
  match left with
  | O => if tc_upload c then (mkRS RpExit O fst_ names sch, []) else (mkRS RpDone O fst_ names sch, [TrExit names])
  | S _ => (mkRS RpName left fst_ names sch, [])
  end.

Definition tr_receiver_init (f0 : fs) (sch : list tr_sched) : tr_rstate :=
  mkRS RpNum O (init_state f0) [] sch.

Definition tr_cur_sched (st : tr_rstate) : tr_sched :=
  match rs_sched st with sc :: _ => sc | [] => mkTrSched [] 1 false [] [] end.

(* one entry is finished: recvFiles' loop continues *)
Definition tr_r_done (c : tr_cfg) (st : tr_rstate) (fst_ : Names.state) (outs : list tr_msg)
  : tr_rstate * list tr_msg :=
  match tr_r_next c (pred (rs_left st)) fst_ (rs_names st) (tl (rs_sched st)) with
  | (st', outs') => (st', outs ++ outs')
  end.

Definition tr_r_name (c : tr_cfg) (dest : path) (st : tr_rstate) (p : tr_npayload) : tr_rstate * list tr_msg :=
  match tr_create c dest p [] (rs_st st) with
  | (NErr, _) => tr_r_fail st
  | (NOk ln, st1) =>
    let names' := tr_add_name (rs_names st) ln in
    let tsize := if tr_p_isdir p then 0 else tr_target_size dest ln p st1 in
    let reply := if tr_json_names c then TrSuccTarget ln tsize else TrSuccName ln in
    let stn := mkRS (rs_phase st) (rs_left st) (rs_st st) names' (rs_sched st) in
    if tr_p_archive p then (tr_r_phase stn RpUnmodelled, [reply])
    else if tr_p_isdir p then tr_r_done c stn st1 [reply]
    else if tr_json_names c && (0 <? tsize) then (tr_r_phase stn RpUnmodelled, [reply])
    else (tr_r_phase stn (RpSize p), [reply])
  end.

Definition tr_r_size (c : tr_cfg) (st : tr_rstate) (p : tr_npayload) (n : N) : tr_rstate * list tr_msg :=
  if tr_pipeline c then
    match tr_is_compress_fixed c n with
    | (true, cp) => (tr_r_phase st (RpData p n cp [] (sc_steps (tr_cur_sched st))), [TrSuccInt n])
    | (false, _) => (tr_r_phase st (RpComp p n), [TrSuccInt n])
    end
  else if 0 <? n then (tr_r_phase st (RpV1 p n []), [TrSuccInt n])
  else (tr_r_phase st (RpMd5 p []), [TrSuccInt n]).

Definition tr_rdflt : nat := 1.   (* the decoder's read size: any positive value gives the same bytes (L1) *)

(* one DATA message in the pipelined exchange *)
Definition tr_r_frame (c : tr_cfg) (st : tr_rstate) (p : tr_npayload) (size : N) (cp : bool)
    (acc : list (list byte)) (steps : list N) (f : list byte) : tr_rstate * list tr_msg :=
  let step := match steps with s :: _ => s | [] => 0 end in
  match f with
  | _ :: _ => (tr_r_phase st (RpData p size cp (acc ++ [f]) (tl steps)), [TrSuccAck (tr_blen f) step])
  | [] =>
    match wire_decode zdecomp (tc_binary c) cp (tc_table c) acc [] tr_rdflt with
    | None => tr_r_fail st
    | Some w =>
      if tr_blen w =? size then
        (tr_r_phase st (RpMd5 p w),
         [TrSuccAck 0 step] ++ map TrSuccInt (filter (fun s => s <? size) (sc_prefinal (tr_cur_sched st)))
           ++ [TrSuccInt size])
      else tr_r_fail st
    end
  end.

(* one DATA message in the legacy exchange *)
Definition tr_r_v1 (c : tr_cfg) (st : tr_rstate) (p : tr_npayload) (size : N) (w : list byte)
    (pl : list byte) : tr_rstate * list tr_msg :=
  match wire_v1_decode unzl (tc_binary c) (tc_table c) pl with
  | None => tr_r_fail st
  | Some ch =>
    let w' := w ++ ch in
    (tr_r_phase st (if tr_blen w' <? size then RpV1 p size w' else RpMd5 p w'), [TrSuccInt (tr_blen ch)])
  end.

(* recvFileMD5, then the file is complete *)
Definition tr_r_md5 (c : tr_cfg) (dest : path) (st : tr_rstate) (p : tr_npayload) (w : list byte) (d : digest)
  : tr_rstate * list tr_msg :=
  if deq d (H w) then
    match tr_create c dest p w (rs_st st) with
    | (NOk _, st2) => tr_r_done c st st2 [TrSuccDigest (H w)]
    | (NErr, _) => tr_r_fail st
    end
  else tr_r_fail st.

Definition tr_receiver (c : tr_cfg) (dest : path) (st : tr_rstate) (m : tr_msg) : tr_rstate * list tr_msg :=
  match rs_phase st with
  | RpDone | RpFail | RpUnmodelled => tr_r_stay st
  | ph =>
    match m with
    | TrFail => (tr_r_phase st RpFail, [])
    | _ =>
      match ph with
      | RpNum =>
        match m with
        | TrNum n =>
          match tr_r_next c (N.to_nat n) (rs_st st) (rs_names st) (rs_sched st) with
          | (st', outs) => (st', TrSuccInt n :: outs)
          end
        | _ => tr_r_fail st
        end
      | RpName => match m with TrName p => tr_r_name c dest st p | _ => tr_r_fail st end
      | RpSize p => match m with TrSize n => tr_r_size c st p n | _ => tr_r_fail st end
      | RpComp p size =>
        match m with
        | TrComp b => (tr_r_phase st (RpData p size b [] (sc_steps (tr_cur_sched st))), [])
        | _ => tr_r_fail st
        end
      | RpData p size cp acc steps =>
        match m with
        | TrKeepAlive => tr_r_stay st
        | TrData f => tr_r_frame c st p size cp acc steps f
        | _ => tr_r_fail st
        end
      | RpV1 p size w => match m with TrData pl => tr_r_v1 c st p size w pl | _ => tr_r_fail st end
      | RpMd5 p w => match m with TrMd5 d => tr_r_md5 c dest st p w d | _ => tr_r_fail st end
      | RpExit => match m with TrExit _ => (tr_r_phase st RpDone, []) | _ => tr_r_fail st end
      | RpDone | RpFail | RpUnmodelled => tr_r_stay st
      end
    end
  end.

(* ================================= COMPOSITION ================================= *)
(* two perfect FIFO queues; the log records every message in the order it was emitted,
   [true] = sender -> receiver *)
Record tr_conf := mkConf {
  cf_s : tr_sstate; cf_r : tr_rstate;
  cf_s2r : list tr_msg; cf_r2s : list tr_msg;
  cf_log : list (bool * tr_msg)
}.

Definition tr_tag_out (dir : bool) (ms : list tr_msg) : list (bool * tr_msg) := map (fun m => (dir, m)) ms.

(* deliver the oldest message to the receiver if there is one, else the oldest to the sender *)
Definition tr_step (c : tr_cfg) (dest : path) (cf : tr_conf) : option tr_conf :=
  match cf_s2r cf with
  | m :: q =>
    match tr_receiver c dest (cf_r cf) m with
    | (r', outs) => Some (mkConf (cf_s cf) r' q (cf_r2s cf ++ outs) (cf_log cf ++ tr_tag_out false outs))
    end
  | [] =>
    match cf_r2s cf with
    | m :: q =>
      match tr_sender c (cf_s cf) m with
      | (s', outs) => Some (mkConf s' (cf_r cf) outs q (cf_log cf ++ tr_tag_out true outs))
      end
    | [] => None
    end
  end.

Fixpoint tr_run_from (fuel : nat) (c : tr_cfg) (dest : path) (cf : tr_conf) : tr_conf :=
  match fuel with
  | O => cf
  | S f => match tr_step c dest cf with Some cf' => tr_run_from f c dest cf' | None => cf end
  end.

Definition tr_init (c : tr_cfg) (ess : list (tr_entry * tr_sched)) (f0 : fs) : tr_conf :=
  match tr_sender_init c ess with
  | (s, outs) => mkConf s (tr_receiver_init f0 (map snd ess)) outs [] (tr_tag_out true outs)
  end.

Definition tr_run (fuel : nat) (c : tr_cfg) (dest : path) (ess : list (tr_entry * tr_sched)) (f0 : fs) : tr_conf :=
  tr_run_from fuel c dest (tr_init c ess f0).

Definition tr_sender_ok (cf : tr_conf) : bool := match ss_phase (cf_s cf) with SpDone => true | _ => false end.
Definition tr_receiver_ok (cf : tr_conf) : bool := match rs_phase (cf_r cf) with RpDone => true | _ => false end.
Definition tr_quiet (cf : tr_conf) : bool :=
  match cf_s2r cf, cf_r2s cf with [], [] => true | _, _ => false end.

(* ---- the number of messages of a fault-free transfer = the fuel that suffices ---- *)
Definition tr_entry_steps (c : tr_cfg) (es : tr_entry * tr_sched) : nat :=
  let (e, sc) := es in
  if te_isdir e then 2
  else if tr_pipeline c then
    2 + 2 + length (snd (tr_compress c e sc)) + 2 * S (length (tr_frames c e sc))
      + length (filter (fun s => s <? te_size e) (sc_prefinal sc)) + 1 + 2
  else 2 + 2 + 2 * length (tr_v1_chunks e sc) + 2.
Definition tr_fuel (c : tr_cfg) (ess : list (tr_entry * tr_sched)) : nat :=
  2 + fold_right (fun es n => tr_entry_steps c es + n)%nat 1%nat ess.

(* ================================ SPECIFICATION ================================ *)
(* what the receiver's file system goes through for one entry, as a function of the entry
   alone: None = the receiver refuses (or an unmodelled exchange would start) *)
Definition tr_spec_entry (c : tr_cfg) (dest : path) (e : tr_entry) (st : state) : option (name * state) :=
  let p := tr_payload c e in
  if te_isdir e && negb (tr_json c) then None else      (* a directory cannot be named in plain mode *)
  match tr_create c dest p [] st with
  | (NErr, _) => None
  | (NOk ln, st1) =>
    if te_isdir e then Some (ln, st1)
    else if tr_json_names c && (0 <? tr_target_size dest ln p st1) then None
    else match tr_create c dest p (te_data e) st with
         | (NOk _, st2) => Some (ln, st2)
         | (NErr, _) => None
         end
  end.

Fixpoint tr_spec (c : tr_cfg) (dest : path) (es : list tr_entry) (st : state) (names : list name)
  : option (list name * list name * state) :=    (* (names per entry, deduplicated names, state) *)
  match es with
  | [] => Some ([], names, st)
  | e :: es' =>
    match tr_spec_entry c dest e st with
    | None => None
    | Some (ln, st') =>
      match tr_spec c dest es' st' (tr_add_name names ln) with
      | Some (per, all, stf) => Some (ln :: per, all, stf)
      | None => None
      end
    end
  end.

(* ================================ TRANSCRIPT SHAPE ================================ *)
Inductive tr_tag := TgNum | TgSucc | TgName | TgSize | TgComp | TgData | TgFinish | TgAck | TgMd5 | TgExit | TgOther.

Definition tr_tag_of (m : tr_msg) : tr_tag :=
  match m with
  | TrNum _ => TgNum | TrName _ => TgName | TrSize _ => TgSize | TrComp _ => TgComp
  | TrData [] => TgFinish | TrData _ => TgData | TrMd5 _ => TgMd5 | TrExit _ => TgExit
  | TrSuccInt _ | TrSuccName _ | TrSuccTarget _ _ | TrSuccDigest _ => TgSucc
  | TrSuccAck _ _ => TgAck
  | TrKeepAlive | TrFail => TgOther
  end.

(* the grammar  NUM SUCC (NAME SUCC [SIZE SUCC [COMP] DATA* finish ack* SUCC+ MD5 SUCC])* EXIT
   (pipelined) resp.  NUM SUCC (NAME SUCC [SIZE SUCC (DATA SUCC)* MD5 SUCC])* EXIT  (legacy)
   as a deterministic automaton *)
Inductive tr_q := Q0 | Q1 | Q2 | Q3 | Q4 | Q5 | Q6 | Q7 | Q8 | Q9 | Q10 | Q11 | QE.

Definition tr_delta (pipe : bool) (q : tr_q) (t : tr_tag) : option tr_q :=
  match q, t with
  | Q0, TgNum => Some Q1
  | Q1, TgSucc => Some Q2
  | Q2, TgName => Some Q3            (* Q2: between entries *)
  | Q2, TgExit => Some QE
  | Q3, TgSucc => Some Q4
  | Q4, TgName => Some Q3            (* Q4: after a name reply *)
  | Q4, TgExit => Some QE
  | Q4, TgSize => Some Q5
  | Q5, TgSucc => Some Q6
  | Q6, TgComp => if pipe then Some Q7 else None
  | Q6, TgData => if pipe then Some Q7 else Some Q11
  | Q6, TgFinish => if pipe then Some Q8 else Some Q11   (* legacy: a chunk whose coding is empty is still a DATA message *)
  | Q6, TgMd5 => if pipe then None else Some Q10
  | Q7, TgData => Some Q7
  | Q7, TgFinish => Some Q8
  | Q8, TgAck => Some Q8
  | Q8, TgSucc => Some Q9
  | Q9, TgSucc => Some Q9
  | Q9, TgMd5 => Some Q10
  | Q10, TgSucc => Some Q2
  | Q11, TgSucc => Some Q6
  | _, _ => None
  end.

Fixpoint tr_accepts_from (pipe : bool) (q : tr_q) (ts : list tr_tag) : option tr_q :=
  match ts with
  | [] => Some q
  | t :: ts' => match tr_delta pipe q t with Some q' => tr_accepts_from pipe q' ts' | None => None end
  end.

Definition tr_shape_ok (pipe : bool) (log : list (bool * tr_msg)) : bool :=
  match tr_accepts_from pipe Q0 (map (fun dm => tr_tag_of (snd dm)) log) with
  | Some QE => true
  | _ => false
  end.

End Transfer.

(* ============================ WHAT THE THEOREMS SAY ============================ *)
Definition tr_p_id (p : tr_npayload) : option Z := match p with TrJson s _ => Some (s_id s) | TrPlain _ => None end.
Definition tr_p_head (p : tr_npayload) : name := match p with TrJson s _ => hd [] (s_rel s) | TrPlain nm => nm end.

(* where an entry lands below its top-level name, what is to be there, and its top-level name as sent *)
Definition tr_tail (c : tr_cfg) (e : tr_entry) : list name := tr_p_tail (tr_payload c e).
Definition tr_node (e : tr_entry) : node := if te_isdir e then Dir else File (te_data e).
Definition tr_key (c : tr_cfg) (e : tr_entry) : name := tr_p_head (tr_payload c e).

(* the source list as checkPathsReadable / checkDuplicateNames leave it:
   overwrite off, JSON names: no two entries with the same path id and the same path below the
   top-level name, and the first entry of every path id is the top-level one;
   overwrite on: no two entries with the same relative path (plain mode: the same name) *)
Definition tr_wf (c : tr_cfg) (es : list tr_entry) : Prop :=
  (tc_overwrite c = false -> tr_json c = true ->
     NoDup (map (fun e => (te_id e, tl (te_rel e))) es) /\
     (forall pre e post, es = pre ++ e :: post -> tl (te_rel e) <> [] -> exists e', In e' pre /\ te_id e' = te_id e)) /\
  (tc_overwrite c = true -> NoDup (map (fun e => tr_key c e :: tr_tail c e) es)).

(* the destination [ff] holds the source entries [es] under the names [per] (one per entry; [all] is
   their deduplicated list): same relative structure, same bytes; with overwrite on the names are the
   ones sent, with overwrite off they did not exist in [f0] and do now; nothing that existed is gone *)
Definition tr_tree_at (c : tr_cfg) (d : path) (f0 ff : fs) (es : list tr_entry) (per all : list name) : Prop :=
  length per = length es /\
  (forall ln, In ln all <-> In ln per) /\ NoDup all /\
  (forall e ln, In (e, ln) (combine es per) -> lookup ff (d ++ ln :: tr_tail c e) = Some (tr_node e)) /\
  (tc_overwrite c = true -> forall e ln, In (e, ln) (combine es per) -> ln = tr_key c e) /\
  (tc_overwrite c = false -> forall e ln, In (e, ln) (combine es per) ->
     lookup f0 (d ++ [ln]) = None /\ lookup ff (d ++ [ln]) <> None) /\
  (forall q, lookup f0 q <> None -> lookup ff q <> None).

(* both sides report success with the same names, the queues are empty, the tree is there, the
   client's EXIT message carries exactly these names, and the transcript has the shape of the grammar *)
Definition tr_outcome_ok {digest : Type} (c : tr_cfg) (d : path) (f0 : fs) (ess : list (tr_entry * tr_sched))
    (cf : tr_conf digest) : Prop :=
  tr_sender_ok digest cf = true /\ tr_receiver_ok digest cf = true /\ tr_quiet digest cf = true /\
  exists per all, ss_names (cf_s digest cf) = all /\ rs_names (cf_r digest cf) = all /\
    tr_tree_at c d f0 (st_fs (rs_st (cf_r digest cf))) (map fst ess) per all /\
    (exists L, cf_log digest cf = L ++ [(tc_upload c, TrExit digest all)]) /\   (* the names the client reports *)
    tr_shape_ok digest (tr_pipeline c) (cf_log digest cf) = true.

(* ---- a sufficient condition on the inputs for the receiver to accept every entry ---- *)
Definition tr_len_ok (n : name) : Prop := (name_max <? name_len n) = false.           (* at most NAME_MAX bytes *)
Definition tr_comp_ok (n : name) : Prop := has_nul n = false /\ tr_len_ok n.
Definition tr_name_fine (n : name) : Prop := valid_name n = true /\ tr_comp_ok n.     (* checkFileName accepts it *)
(* the names of an entry are clean; JSON mode: the path is not empty; a directory only in JSON mode *)
Definition tr_entry_clean (c : tr_cfg) (e : tr_entry) : Prop :=
  Forall tr_name_fine (tr_key c e :: tr_tail c e) /\ (tr_json c = true -> te_rel e <> []) /\
  (te_isdir e = true -> tr_json c = true).
Definition tr_leaf_of (c : tr_cfg) (d : path) (e : tr_entry) : path := d ++ tr_key c e :: tr_tail c e.
(* clean names; no two entries at one place; every entry below the top level comes after its
   parent directory, which has the same path id; entries share a path id exactly when they share
   the top-level name; and nothing is in the way at the destination *)
Definition tr_ready (c : tr_cfg) (d : path) (f0 : fs) (es : list tr_entry) : Prop :=
  Forall (tr_entry_clean c) es /\
  NoDup (map (fun e => tr_key c e :: tr_tail c e) es) /\
  (forall pre e post, es = pre ++ e :: post -> tr_tail c e <> [] ->
     exists e', In e' pre /\ te_isdir e' = true /\ te_id e' = te_id e /\
       tr_key c e' :: tr_tail c e' = removelast (tr_key c e :: tr_tail c e)) /\
  (forall e e', In e es -> In e' es -> (te_id e = te_id e' <-> tr_key c e = tr_key c e')) /\
  (forall e, In e es -> lookup f0 (tr_leaf_of c d e) = None).

(* the escape table is absent or well-formed *)
Definition tr_table_ok (c : tr_cfg) : Prop := tc_table c = [] \/ wf (tc_table c) = true.

(* [tr_wf] as a computation *)
Fixpoint tr_nodupb {A} (eqb : A -> A -> bool) (l : list A) : bool :=
  match l with
  | [] => true
  | x :: r => negb (existsb (eqb x) r) && tr_nodupb eqb r
  end.
Fixpoint tr_first_top (seen : list Z) (es : list tr_entry) : bool :=
  match es with
  | [] => true
  | e :: r =>
    (match tl (te_rel e) with [] => true | _ => existsb (Z.eqb (te_id e)) seen end) && tr_first_top (te_id e :: seen) r
  end.
Definition tr_wfb (c : tr_cfg) (es : list tr_entry) : bool :=
  if tc_overwrite c then tr_nodupb path_eqb (map (fun e => tr_key c e :: tr_tail c e) es)
  else if tr_json c then
    tr_nodupb (fun a b => Z.eqb (fst a) (fst b) && path_eqb (snd a) (snd b)) (map (fun e => (te_id e, tl (te_rel e))) es)
    && tr_first_top [] es
  else true.

(* ---- the configuration both ends hold after the negotiation of Model/RelayNeg.v (C14) ---- *)
Definition tr_cfg_of (nc : n_config) (upload : bool) : tr_cfg :=
  mkTrCfg (Z.to_N (nc_protocol nc)) (nc_binary nc) (nc_directory nc) (nc_overwrite nc) (Z.to_N (nc_compress nc))
          (match nc_escape nc with Some t => t | None => [] end) upload.
