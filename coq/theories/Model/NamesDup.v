(* checkDuplicateNames (comm.go) and its two call sites, tsz.go and filter.go uploadFiles (C09,
   C08): with overwrite requested the receiver stores every entry under the name that was sent,
   so two entries of the scan list with one destination-relative name would be written on top of
   each other; the sender refuses such a request before anything is sent.
   Executable definitions only.

   An entry of the scan list (checkPathsReadable) is its absolute source path and its
   destination-relative path RelPath; the key of the map is filepath.Join(RelPath...), which
   for elements that are single path components (info.Name(), Readdir names) is the elements
   separated by '/'. *)
From Trzsz Require Import Base.Bytes Gen.Consts Model.Path.

Record nd_entry := { nd_abs : list N; nd_rel : list name }.

(* filepath.Join of single path components *)
Fixpoint nd_join (rel : list name) : list N :=
  match rel with
  | [] => []
  | [c] => c
  | c :: rest => c ++ slash :: nd_join rest
  end.

Definition nd_mem (p : list N) (seen : list (list N)) : bool := existsb (list_eqb p) seen.

(* the loop: Some p = simpleTrzszError("Duplicate name: %s", p) *)
Fixpoint nd_check_from (seen : list (list N)) (es : list nd_entry) : option (list N) :=
  match es with
  | [] => None
  | e :: es' =>
    let p := nd_join (nd_rel e) in
    if nd_mem p seen then Some p else nd_check_from (p :: seen) es'
  end.
Definition nd_check (es : list nd_entry) : option (list N) := nd_check_from [] es.

(* the call sites: `if Overwrite { if err := checkDuplicateNames(files); err != nil { return } }`
   and only then the transfer; what is handed to sendFiles *)
Inductive nd_verdict := NdRefused (p : list N) | NdSend (es : list nd_entry).
Definition nd_guard (overwrite : bool) (es : list nd_entry) : nd_verdict :=
  if overwrite then match nd_check es with Some p => NdRefused p | None => NdSend es end
  else NdSend es.
