(* Names of archive entries and NAME records over the WHOLE of Unicode (property C15).
   A Go string made from code points is their UTF-8 encoding (utf8.AppendRune: surrogates
   and values above U+10FFFF become U+FFFD); checkFileName (Model/Names.v [valid_name],
   constants regenerated from the source) looks at the BYTES of that encoding.
   Executable definitions only; unique prefix anm_. *)
From Trzsz Require Export Base.Bytes.
From Trzsz Require Import Model.Names.

Definition anm_replacement : list byte := [239; 191; 189].     (* U+FFFD *)

(* utf8.AppendRune for one code point *)
Definition anm_enc1 (c : N) : list byte :=
  if c <? 128 then [c]
  else if c <? 2048 then [192 + c / 64; 128 + c mod 64]
  else if (55296 <=? c) && (c <? 57344) then anm_replacement
  else if c <? 65536 then [224 + c / 4096; 128 + (c / 64) mod 64; 128 + c mod 64]
  else if c <? 1114112 then [240 + c / 262144; 128 + (c / 4096) mod 64; 128 + (c / 64) mod 64; 128 + c mod 64]
  else anm_replacement.

Definition anm_utf8 (cps : list N) : list byte := flat_map anm_enc1 cps.

(* checkFileName on the string made of these code points *)
Definition anm_valid (cps : list N) : bool := valid_name (anm_utf8 cps).
