(* A file system as an association list, with an effect log (C07, C09).
   Executable definitions only.

   What is modelled: regular files with their bytes, directories; os.Stat, os.OpenFile
   with O_RDWR|O_CREATE[|O_TRUNC] followed by a write at offset 0, os.MkdirAll,
   os.RemoveAll as Go implements them on Linux for a process allowed to do everything:
   ENOENT vs. other errors (a regular file used as a directory: ENOTDIR; a component
   longer than NAME_MAX bytes looked up in an existing directory: ENAMETOOLONG; a NUL byte
   anywhere in the path: EINVAL before any system call).
   Not modelled: symbolic and hard links, permissions, PATH_MAX, other processes. *)
From Trzsz Require Import Base.Bytes Model.Path.

Inductive node := File (data : list N) | Dir.
Definition fs := list (path * node).

Inductive effect :=
  | EMkdir (p : path)    (* directory created *)
  | ECreate (p : path)   (* regular file created *)
  | EOpen (p : path)     (* existing regular file opened for writing *)
  | ETrunc (p : path)    (* existing regular file opened for writing and truncated *)
  | ERemove (p : path).  (* entry removed *)

Definition effect_path (e : effect) : path :=
  match e with EMkdir p | ECreate p | EOpen p | ETrunc p | ERemove p => p end.

Fixpoint lookup (f : fs) (p : path) : option node :=
  match f with
  | [] => None
  | (q, n) :: f' => if path_eqb q p then Some n else lookup f' p
  end.

(* the root always exists and is a directory *)
Definition get (f : fs) (p : path) : option node :=
  match p with [] => Some Dir | _ => lookup f p end.

Definition set (f : fs) (p : path) (n : node) : fs :=
  (p, n) :: filter (fun kv => negb (path_eqb (fst kv) p)) f.

(* Linux NAME_MAX (bytes per component) *)
Definition name_max : N := 255.
Definition name_len (c : name) : N := N.of_nat (length c).
Definition has_nul (c : name) : bool := existsb (N.eqb 0) c.
Definition bad_path (p : path) : bool := existsb has_nul p.

Inductive stat_res := SFound (n : node) | SNotExist | SOther.

(* path walk: [pre] is the part already resolved, [rest] the components still to look up *)
Fixpoint walk (f : fs) (pre : path) (rest : list name) : stat_res :=
  match rest with
  | [] => match get f pre with Some n => SFound n | None => SNotExist end
  | c :: rest' =>
    match get f pre with
    | Some Dir => if name_max <? name_len c then SOther else walk f (pre ++ [c]) rest'
    | Some (File _) => SOther
    | None => SNotExist
    end
  end.

Definition stat (f : fs) (p : path) : stat_res :=
  if bad_path p then SOther else walk f [] p.

(* bytes of a file after writing [new] at offset 0 *)
Definition write0 (old new : list N) : list N := new ++ skipn (length new) old.

(* os.OpenFile(p, O_RDWR|O_CREATE[|O_TRUNC]) then Write(payload); None = error, no effect *)
Definition open_create (f : fs) (p : path) (trunc : bool) (payload : list N) : option (fs * list effect) :=
  match p with
  | [] => None
  | _ =>
    match stat f (removelast p) with
    | SFound Dir =>
      if has_nul (last p []) || (name_max <? name_len (last p [])) then None else
      match lookup f p with
      | Some Dir => None
      | Some (File old) =>
        Some (set f p (File (write0 (if trunc then [] else old) payload)),
              [if trunc then ETrunc p else EOpen p])
      | None => Some (set f p (File payload), [ECreate p])
      end
    | _ => None
    end
  end.

(* os.MkdirAll: [pre] exists and is a directory; creates the missing ones of rest top-down,
   stops at the first failure (what was created before stays) *)
Fixpoint mk_down (f : fs) (pre : path) (rest : list name) : bool * fs * list effect :=
  match rest with
  | [] => (true, f, [])
  | c :: rest' =>
    if has_nul c || (name_max <? name_len c) then (false, f, []) else
    match lookup f (pre ++ [c]) with
    | Some Dir => mk_down f (pre ++ [c]) rest'
    | Some (File _) => (false, f, [])
    | None =>
      match mk_down (set f (pre ++ [c]) Dir) (pre ++ [c]) rest' with
      | (ok, f', es) => (ok, f', EMkdir (pre ++ [c]) :: es)
      end
    end
  end.

Definition mkdir_all (f : fs) (p : path) : bool * fs * list effect := mk_down f [] p.

(* os.RemoveAll on an existing entry: the entry and everything below it *)
Definition remove_all (f : fs) (p : path) : fs * list effect :=
  (filter (fun kv => negb (is_prefix p (fst kv))) f,
   map (fun kv => ERemove (fst kv)) (filter (fun kv => is_prefix p (fst kv)) f)).
