(* Model of the tunnel code of transfer.go: getHelloConstant, acceptOnTunnel (server:
   trz / tsz), connectToTunnel (client: the filter), addReceivedData's drop rule,
   sendAction / recvAction's adoption of the connection, cleanup; comm.go
   wrapTransferInput.  Interleaving semantics: one labelled step = one I/O, atomic,
   channel, wait-group or timer operation of one thread; [sstep] / [cstep] are
   executable (label in, next state out), so every label list is a schedule and the
   theorems of Proofs/Tunnel.v quantify over all of them.  Executable definitions only. *)
From Trzsz Require Export Base.Bytes.
From Trzsz Require Import Gen.Consts.
From Coq Require Import ZArith.

(* ------------------------------------------------------------------------------------ *)
(* getHelloConstant *)

(* %d *)
Fixpoint dec_fuel (fuel : nat) (n : N) (acc : list N) : list N :=
  match fuel with
  | O => acc
  | S f =>
    let d := 48 + n mod 10 in
    let q := n / 10 in
    if q =? 0 then d :: acc else dec_fuel f q (d :: acc)
  end.
Definition dec_N (n : N) : list N := dec_fuel (S (N.size_nat n)) n [].
Definition dec_Z (z : Z) : list N :=
  match z with Zneg p => 45 :: dec_N (Npos p) | _ => dec_N (Z.to_N z) end.

Inductive farg := FStr (s : list N) | FInt (z : Z).

(* fmt.Sprintf restricted to the verbs %s (string argument) and %d (int argument); any other
   verb or a wrongly typed argument is copied literally (Proofs/Tunnel.v pins the verbs of
   the two format strings of the source to [%s; %d], so that branch is never taken). *)
Fixpoint sprintf (fmt : list N) (args : list farg) : list N :=
  match fmt with
  | [] => []
  | c :: r =>
    if c =? 37 then
      match r with
      | v :: r' =>
        if v =? 115 then
          match args with FStr s :: a => s ++ sprintf r' a | _ => c :: v :: sprintf r' args end
        else if v =? 100 then
          match args with FInt z :: a => dec_Z z ++ sprintf r' a | _ => c :: v :: sprintf r' args end
        else c :: v :: sprintf r' args
      | [] => [c]
      end
    else c :: sprintf r args
  end.

Fixpoint fmt_verbs (fmt : list N) : list N :=
  match fmt with
  | [] => []
  | c :: r => if c =? 37 then match r with v :: r' => v :: fmt_verbs r' | [] => [] end else fmt_verbs r
  end.

(* uid := uniqueID; if len(uid) > 2 { uid = uid[:len(uid)-2] } *)
Definition cut_uid (uid : list N) : list N :=
  if Consts.tunnel_uid_cut_if_longer <? N.of_nat (length uid)
  then firstn (length uid - N.to_nat Consts.tunnel_uid_cut) uid
  else uid.

Definition client_hello (uid : list N) (port : Z) : list N :=
  sprintf Consts.tunnel_client_hello_fmt [FStr (cut_uid uid); FInt port].
Definition server_hello (uid : list N) (port : Z) : list N :=
  sprintf Consts.tunnel_server_hello_fmt [FStr (cut_uid uid); FInt port].

(* string(buf[:n]) != clientHello — exact equality, not a prefix test *)
Definition hello_matches (got expected : list N) : bool := list_eqb got expected.

(* ------------------------------------------------------------------------------------ *)
(* connections *)

(* what the far end of a connection does, in order *)
Inductive pev := PWrite (bs : list N) | PClose.

(* where bytes in the transfer's input buffer came from *)
Inductive src := SrcInband | SrcConn (c : nat).

(* program point of the per-connection handler goroutine of acceptOnTunnel *)
Inductive hpc :=
| HRefused                          (* connect() arrived after the listener was closed *)
| HPending                          (* in the listener's backlog *)
| HAccepted                         (* returned by Accept; the acceptor is at its tunnelConn.Load() *)
| HRead                             (* go func(conn) started: conn.Read(buf[0:100]) *)
| HCompare (r : option (list N))    (* Read returned r (None = error): err != nil || string(buf[:n]) != clientHello *)
| HReply                            (* conn.Write(serverHello) *)
| HCas                              (* t.tunnelConn.CompareAndSwap(nil, &conn) *)
| HPumpStart                        (* wrapTransferInput(t, conn, true) *)
| HCloseListener                    (* listener.Close() *)
| HDone.

Record conn := mkConn {
  k_script : list pev;        (* what the far end still does *)
  k_rx : list N;              (* arrived at our end, not yet read *)
  k_eof : bool;               (* far end closed *)
  k_pc : hpc;
  k_first : option (list N);  (* ghost: what the handler's single Read returned *)
  k_tx : list N;              (* everything we wrote to it *)
  k_closed : bool;            (* we called Close on it *)
  k_won : bool;               (* ghost: its CompareAndSwap succeeded *)
  k_pump : bool               (* a wrapTransferInput(…, true) goroutine reads from it *)
}.

Definition new_conn (script : list pev) (pc : hpc) : conn :=
  mkConn script [] false pc None [] false false false.

Definition set_pc (pc : hpc) (k : conn) : conn :=
  mkConn (k_script k) (k_rx k) (k_eof k) pc (k_first k) (k_tx k) (k_closed k) (k_won k) (k_pump k).
Definition set_closed (k : conn) : conn :=
  mkConn (k_script k) (k_rx k) (k_eof k) (k_pc k) (k_first k) (k_tx k) true (k_won k) (k_pump k).
Definition set_rx (rx : list N) (k : conn) : conn :=
  mkConn (k_script k) rx (k_eof k) (k_pc k) (k_first k) (k_tx k) (k_closed k) (k_won k) (k_pump k).

Fixpoint upd {A} (c : nat) (f : A -> A) (l : list A) : list A :=
  match l, c with
  | [], _ => []
  | k :: r, O => f k :: r
  | k :: r, S c' => k :: upd c' f r
  end.

(* the far end performs its next scripted action *)
Definition peer_step (k : conn) : option conn :=
  match k_script k with
  | [] => None
  | PWrite bs :: r =>
    Some (mkConn r (if k_eof k then k_rx k else k_rx k ++ bs) (k_eof k) (k_pc k) (k_first k) (k_tx k)
                 (k_closed k) (k_won k) (k_pump k))
  | PClose :: r =>
    Some (mkConn r (k_rx k) true (k_pc k) (k_first k) (k_tx k) (k_closed k) (k_won k) (k_pump k))
  end.

(* ------------------------------------------------------------------------------------ *)
(* server side: acceptOnTunnel + the transfer it belongs to *)

Inductive apc := AAccept | ACheck (c : nat) | ADone.
Inductive actst := ActWaiting | ActOk | ActErr.

Record sstate := mkS {
  s_conns : list conn;
  s_lis : bool;                       (* listener open *)
  s_apc : apc;
  s_tconn : option nat;               (* t.tunnelConn *)
  s_tconnected : bool;                (* t.tunnelConnected *)
  s_writer : option nat;              (* t.writer: None = stdout (in-band), Some c = connection c *)
  s_act : actst;                      (* recvAction *)
  s_inbuf : list (src * list N);      (* t.buffer, as a log of what was added *)
  s_dropped : list (list N)           (* in-band chunks ignored by addReceivedData *)
}.

Definition s_init : sstate := mkS [] true AAccept None false None ActWaiting [] [].

Definition with_conns (s : sstate) (cs : list conn) : sstate :=
  mkS cs (s_lis s) (s_apc s) (s_tconn s) (s_tconnected s) (s_writer s) (s_act s) (s_inbuf s) (s_dropped s).

Inductive slabel :=
| LConnect (script : list pev)   (* somebody connects to the port; behaves as script says *)
| LPeer (c : nat)                (* far end of c: next scripted action *)
| LAccept (c : nat)              (* acceptor: listener.Accept() returns pending connection c *)
| LAcceptErr                     (* acceptor: listener.Accept() fails (listener closed) *)
| LCheck                         (* acceptor: t.tunnelConn.Load() != nil ? close+return : go handler *)
| LHandler (c : nat)             (* handler of c: next statement *)
| LWriteFail (c : nat)           (* handler of c at the Write: the write fails (far end gone) *)
| LPump (c : nat) (n : nat)      (* pump of c: Read returns n bytes; addReceivedData(buf, true) *)
| LInband (bs : list N)          (* stdin pump: addReceivedData(bs, false) *)
| LAct (tun : bool)              (* main: recvAction decoded an ACT whose "tunnel" field is tun *)
| LCleanup.                      (* main: t.cleanup() *)

(* addReceivedData (the stopped flag, which only ever discards, is not modelled) *)
Definition add_received (tconnected : bool) (from : src) (bs : list N)
           (inbuf : list (src * list N)) (dropped : list (list N)) :=
  match from with
  | SrcInband => if tconnected then (inbuf, dropped ++ [bs]) else (inbuf ++ [(from, bs)], dropped)
  | SrcConn _ => (inbuf ++ [(from, bs)], dropped)
  end.

Definition sstep (ch sh : list N) (s : sstate) (l : slabel) : option sstate :=
  match l with
  | LConnect script =>
    Some (with_conns s (s_conns s ++ [new_conn script (if s_lis s then HPending else HRefused)]))
  | LPeer c =>
    match nth_error (s_conns s) c with
    | Some k => match peer_step k with
                | Some k' => Some (with_conns s (upd c (fun _ => k') (s_conns s)))
                | None => None
                end
    | None => None
    end
  | LAccept c =>
    match s_apc s, s_lis s, nth_error (s_conns s) c with
    | AAccept, true, Some k =>
      match k_pc k with
      | HPending =>
        Some (mkS (upd c (set_pc HAccepted) (s_conns s)) (s_lis s) (ACheck c) (s_tconn s) (s_tconnected s)
                  (s_writer s) (s_act s) (s_inbuf s) (s_dropped s))
      | _ => None
      end
    | _, _, _ => None
    end
  | LAcceptErr =>
    match s_apc s, s_lis s with
    | AAccept, false =>     (* return; the deferred listener.Close() is a no-op here *)
      Some (mkS (s_conns s) false ADone (s_tconn s) (s_tconnected s) (s_writer s) (s_act s) (s_inbuf s) (s_dropped s))
    | _, _ => None
    end
  | LCheck =>
    match s_apc s with
    | ACheck c =>
      match s_tconn s with
      | Some _ =>           (* conn.Close(); return; deferred listener.Close() *)
        Some (mkS (upd c (fun k => set_closed (set_pc HDone k)) (s_conns s)) false ADone (s_tconn s)
                  (s_tconnected s) (s_writer s) (s_act s) (s_inbuf s) (s_dropped s))
      | None =>             (* go func(conn) {...}(conn); back to Accept *)
        Some (mkS (upd c (set_pc HRead) (s_conns s)) (s_lis s) AAccept (s_tconn s)
                  (s_tconnected s) (s_writer s) (s_act s) (s_inbuf s) (s_dropped s))
      end
    | _ => None
    end
  | LHandler c =>
    match nth_error (s_conns s) c with
    | None => None
    | Some k =>
      match k_pc k with
      | HRead =>
        (* ONE Read into a buffer of tunnel_hello_read_size bytes: whatever has arrived, at most
           that many; blocks while nothing has arrived and the far end is open; error on EOF *)
        match k_rx k with
        | _ :: _ =>
          let n := N.to_nat Consts.tunnel_hello_read_size in
          let got := firstn n (k_rx k) in
          Some (with_conns s (upd c (fun _ =>
            mkConn (k_script k) (skipn n (k_rx k)) (k_eof k) (HCompare (Some got)) (Some got) (k_tx k)
                   (k_closed k) (k_won k) (k_pump k)) (s_conns s)))
        | [] =>
          if k_eof k then Some (with_conns s (upd c (set_pc (HCompare None)) (s_conns s))) else None
        end
      | HCompare r =>
        match r with
        | Some got =>
          if hello_matches got ch
          then Some (with_conns s (upd c (set_pc HReply) (s_conns s)))
          else Some (with_conns s (upd c (fun k => set_closed (set_pc HDone k)) (s_conns s)))
        | None => Some (with_conns s (upd c (fun k => set_closed (set_pc HDone k)) (s_conns s)))
        end
      | HReply =>
        Some (with_conns s (upd c (fun _ =>
          mkConn (k_script k) (k_rx k) (k_eof k) HCas (k_first k) (k_tx k ++ sh)
                 (k_closed k) (k_won k) (k_pump k)) (s_conns s)))
      | HCas =>
        match s_tconn s with
        | None =>
          Some (mkS (upd c (fun _ =>
                  mkConn (k_script k) (k_rx k) (k_eof k) HPumpStart (k_first k) (k_tx k)
                         (k_closed k) true (k_pump k)) (s_conns s))
                    (s_lis s) (s_apc s) (Some c) (s_tconnected s) (s_writer s) (s_act s) (s_inbuf s) (s_dropped s))
        | Some _ =>         (* lost: the goroutine ends; the connection is neither used nor closed *)
          Some (with_conns s (upd c (set_pc HDone) (s_conns s)))
        end
      | HPumpStart =>
        Some (with_conns s (upd c (fun _ =>
          mkConn (k_script k) (k_rx k) (k_eof k) HCloseListener (k_first k) (k_tx k)
                 (k_closed k) (k_won k) true) (s_conns s)))
      | HCloseListener =>
        Some (mkS (upd c (set_pc HDone) (s_conns s)) false (s_apc s) (s_tconn s) (s_tconnected s)
                  (s_writer s) (s_act s) (s_inbuf s) (s_dropped s))
      | _ => None
      end
    end
  | LWriteFail c =>
    match nth_error (s_conns s) c with
    | Some k =>
      match k_pc k, k_eof k with
      | HReply, true => Some (with_conns s (upd c (fun k => set_closed (set_pc HDone k)) (s_conns s)))
      | _, _ => None
      end
    | None => None
    end
  | LPump c n =>
    match nth_error (s_conns s) c with
    | Some k =>
      if k_pump k && negb (k_closed k) && (1 <=? n)%nat && (n <=? length (k_rx k))%nat
         && (N.of_nat n <=? Consts.tunnel_pump_bufsize)
      then
        let '(ib, dr) := add_received (s_tconnected s) (SrcConn c) (firstn n (k_rx k)) (s_inbuf s) (s_dropped s) in
        Some (mkS (upd c (set_rx (skipn n (k_rx k))) (s_conns s)) (s_lis s) (s_apc s) (s_tconn s)
                  (s_tconnected s) (s_writer s) (s_act s) ib dr)
      else None
    | None => None
    end
  | LInband bs =>
    let '(ib, dr) := add_received (s_tconnected s) SrcInband bs (s_inbuf s) (s_dropped s) in
    Some (mkS (s_conns s) (s_lis s) (s_apc s) (s_tconn s) (s_tconnected s) (s_writer s) (s_act s) ib dr)
  | LAct tun =>
    match s_act s with
    | ActWaiting =>
      if tun then
        match s_tconn s with
        | Some c => Some (mkS (s_conns s) (s_lis s) (s_apc s) (s_tconn s) true (Some c) ActOk (s_inbuf s) (s_dropped s))
        | None => Some (mkS (s_conns s) (s_lis s) (s_apc s) (s_tconn s) true (s_writer s) ActErr (s_inbuf s) (s_dropped s))
        end
      else Some (mkS (s_conns s) (s_lis s) (s_apc s) (s_tconn s) (s_tconnected s) (s_writer s) ActOk (s_inbuf s) (s_dropped s))
    | _ => None
    end
  | LCleanup =>
    match s_tconn s with
    | Some c => Some (with_conns s (upd c set_closed (s_conns s)))
    | None => Some s
    end
  end.

Fixpoint srun (ch sh : list N) (s : sstate) (ls : list slabel) : option sstate :=
  match ls with
  | [] => Some s
  | l :: r => match sstep ch sh s l with Some s' => srun ch sh s' r | None => None end
  end.

(* ------------------------------------------------------------------------------------ *)
(* client side: connectToTunnel + sendAction.  Reads of the unsynchronised local
   `timeout` are NOT modelled as reads of a variable: every such read returns the boolean
   carried by the label (any value), so nothing proved here relies on it. *)

Inductive kpc :=
| KCall                             (* conn := connector(port) *)
| KChk                              (* if timeout *)
| KWrite                            (* conn.Write(clientHello); err != nil || timeout *)
| KRead                             (* conn.Read(buf[0:100]) *)
| KCmp (r : option (list N))        (* err != nil || string(buf[:n]) != serverHello || timeout *)
| KSend                             (* connChan <- conn *)
| KDone.

Inductive spc := SSelect | SStore | SPump | SDone.
Inductive mpc := MWait | MLoad | MSent (tun : bool).

Record cstate := mkC {
  c_conn : option conn;               (* what the connector returned (k_pc unused) *)
  c_kpc : kpc;
  c_chan : option bool;               (* connChan (capacity 1): None empty, Some false = nil, Some true = conn *)
  c_spc : spc;
  c_timer : bool;                     (* time.After's channel holds a value *)
  c_timedout : bool;                  (* ghost: the select took the timer branch *)
  c_wg_done : bool;                   (* tunnelInitWG.Done() ran *)
  c_mpc : mpc;
  c_tconn : bool;                     (* t.tunnelConn != nil *)
  c_tconnected : bool;                (* t.tunnelConnected *)
  c_writer_tunnel : bool;             (* t.writer == the connection *)
  c_pump : bool;
  c_inbuf : list (src * list N);
  c_dropped : list (list N)
}.

Definition c_init : cstate :=
  mkC None KCall None SSelect false false false MWait false false false false [] [].

Inductive clabel :=
| CConnector (o : option (list pev))  (* the connector returns nil / a connection whose far end follows the script *)
| CK (tmo : bool) (wfail : bool)      (* connector goroutine: next statement; tmo = what a read of `timeout`
                                         yields, wfail = the Write fails (only consulted at the Write) *)
| CPeer                               (* far end of the connection: next scripted action *)
| CTimer                              (* one second has passed *)
| CSelChan                            (* select takes `conn := <-connChan` *)
| CSelTimer                           (* select takes `<-time.After(time.Second)` *)
| CS                                  (* select goroutine: next statement after a received connection *)
| CMain                               (* sendAction: tunnelInitWG.Wait() / Load + adopt + send ACT *)
| CPumpRead (n : nat)
| CInband (bs : list N)
| CCleanup.

Definition cset (s : cstate) (k : option conn) (kp : kpc) (ch : option bool) : cstate :=
  mkC k kp ch (c_spc s) (c_timer s) (c_timedout s) (c_wg_done s) (c_mpc s) (c_tconn s) (c_tconnected s)
      (c_writer_tunnel s) (c_pump s) (c_inbuf s) (c_dropped s).

(* conn.Close(); connChan <- nil; return *)
Definition cgive_up (s : cstate) (k : conn) : cstate := cset s (Some (set_closed k)) KDone (Some false).

Definition cstep (ch sh : list N) (s : cstate) (l : clabel) : option cstate :=
  match l with
  | CConnector o =>
    match c_kpc s with
    | KCall =>
      match o with
      | None => Some (cset s None KDone (Some false))
      | Some script => Some (cset s (Some (new_conn script HDone)) KChk (c_chan s))
      end
    | _ => None
    end
  | CK tmo wfail =>
    match c_conn s with
    | None => None
    | Some k =>
      match c_kpc s with
      | KChk => if tmo then Some (cgive_up s k) else Some (cset s (Some k) KWrite (c_chan s))
      | KWrite =>
        if wfail then Some (cgive_up s k)
        else
          let k' := mkConn (k_script k) (k_rx k) (k_eof k) (k_pc k) (k_first k) (k_tx k ++ ch)
                           (k_closed k) (k_won k) (k_pump k) in
          if tmo then Some (cgive_up s k') else Some (cset s (Some k') KRead (c_chan s))
      | KRead =>
        match k_rx k with
        | _ :: _ =>
          let n := N.to_nat Consts.tunnel_reply_read_size in
          let got := firstn n (k_rx k) in
          Some (cset s (Some (mkConn (k_script k) (skipn n (k_rx k)) (k_eof k) (k_pc k) (Some got) (k_tx k)
                                     (k_closed k) (k_won k) (k_pump k))) (KCmp (Some got)) (c_chan s))
        | [] => if k_eof k then Some (cset s (Some k) (KCmp None) (c_chan s)) else None
        end
      | KCmp r =>
        match r with
        | Some got => if hello_matches got sh && negb tmo
                      then Some (cset s (Some k) KSend (c_chan s))
                      else Some (cgive_up s k)
        | None => Some (cgive_up s k)
        end
      | KSend => Some (cset s (Some k) KDone (Some true))
      | _ => None
      end
    end
  | CPeer =>
    match c_conn s with
    | Some k => match peer_step k with Some k' => Some (cset s (Some k') (c_kpc s) (c_chan s)) | None => None end
    | None => None
    end
  | CTimer =>
    Some (mkC (c_conn s) (c_kpc s) (c_chan s) (c_spc s) true (c_timedout s) (c_wg_done s) (c_mpc s) (c_tconn s)
              (c_tconnected s) (c_writer_tunnel s) (c_pump s) (c_inbuf s) (c_dropped s))
  | CSelChan =>
    match c_spc s, c_chan s with
    | SSelect, Some v =>
      Some (mkC (c_conn s) (c_kpc s) None (if v then SStore else SDone) (c_timer s) (c_timedout s)
                (if v then c_wg_done s else true) (c_mpc s) (c_tconn s)
                (c_tconnected s) (c_writer_tunnel s) (c_pump s) (c_inbuf s) (c_dropped s))
    | _, _ => None
    end
  | CSelTimer =>
    match c_spc s, c_timer s with
    | SSelect, true =>      (* timeout = true; deferred Done *)
      Some (mkC (c_conn s) (c_kpc s) (c_chan s) SDone (c_timer s) true true (c_mpc s) (c_tconn s)
                (c_tconnected s) (c_writer_tunnel s) (c_pump s) (c_inbuf s) (c_dropped s))
    | _, _ => None
    end
  | CS =>
    match c_spc s with
    | SStore =>             (* t.tunnelConn.Store(&conn) *)
      Some (mkC (c_conn s) (c_kpc s) (c_chan s) SPump (c_timer s) (c_timedout s) (c_wg_done s) (c_mpc s) true
                (c_tconnected s) (c_writer_tunnel s) (c_pump s) (c_inbuf s) (c_dropped s))
    | SPump =>              (* wrapTransferInput(t, conn, true); deferred Done *)
      Some (mkC (c_conn s) (c_kpc s) (c_chan s) SDone (c_timer s) (c_timedout s) true (c_mpc s) (c_tconn s)
                (c_tconnected s) (c_writer_tunnel s) true (c_inbuf s) (c_dropped s))
    | _ => None
    end
  | CMain =>
    match c_mpc s with
    | MWait =>
      if c_wg_done s
      then Some (mkC (c_conn s) (c_kpc s) (c_chan s) (c_spc s) (c_timer s) (c_timedout s) (c_wg_done s) MLoad
                     (c_tconn s) (c_tconnected s) (c_writer_tunnel s) (c_pump s) (c_inbuf s) (c_dropped s))
      else None
    | MLoad =>              (* if conn := t.tunnelConn.Load(); conn != nil { writer = conn; tunnelConnected = true; … } *)
      Some (mkC (c_conn s) (c_kpc s) (c_chan s) (c_spc s) (c_timer s) (c_timedout s) (c_wg_done s)
                (MSent (c_tconn s)) (c_tconn s) (c_tconn s) (c_tconn s) (c_pump s) (c_inbuf s) (c_dropped s))
    | MSent _ => None
    end
  | CPumpRead n =>
    match c_conn s with
    | Some k =>
      if c_pump s && negb (k_closed k) && (1 <=? n)%nat && (n <=? length (k_rx k))%nat
         && (N.of_nat n <=? Consts.tunnel_pump_bufsize)
      then
        let '(ib, dr) := add_received (c_tconnected s) (SrcConn 0) (firstn n (k_rx k)) (c_inbuf s) (c_dropped s) in
        Some (mkC (Some (set_rx (skipn n (k_rx k)) k)) (c_kpc s) (c_chan s) (c_spc s) (c_timer s) (c_timedout s)
                  (c_wg_done s) (c_mpc s) (c_tconn s) (c_tconnected s) (c_writer_tunnel s) (c_pump s) ib dr)
      else None
    | None => None
    end
  | CInband bs =>
    let '(ib, dr) := add_received (c_tconnected s) SrcInband bs (c_inbuf s) (c_dropped s) in
    Some (mkC (c_conn s) (c_kpc s) (c_chan s) (c_spc s) (c_timer s) (c_timedout s) (c_wg_done s) (c_mpc s)
              (c_tconn s) (c_tconnected s) (c_writer_tunnel s) (c_pump s) ib dr)
  | CCleanup =>
    if c_tconn s
    then match c_conn s with
         | Some k => Some (cset s (Some (set_closed k)) (c_kpc s) (c_chan s))
         | None => Some s
         end
    else Some s
  end.

Fixpoint crun (ch sh : list N) (s : cstate) (ls : list clabel) : option cstate :=
  match ls with
  | [] => Some s
  | l :: r => match cstep ch sh s l with Some s' => crun ch sh s' r | None => None end
  end.

(* ------------------------------------------------------------------------------------ *)
(* fixed scheduler used by the trace replay of Model/TunnelReplay.v: acceptor first, then
   handlers by index *)

Fixpoint first_some {A} (f : nat -> option A) (cs : list nat) : option A :=
  match cs with
  | [] => None
  | c :: r => match f c with Some x => Some x | None => first_some f r end
  end.

Definition pending_idx (s : sstate) : list nat :=
  filter (fun c => match nth_error (s_conns s) c with
                   | Some k => match k_pc k with HPending => true | _ => false end
                   | None => false end) (seq 0 (length (s_conns s))).

Definition sched_once (ch sh : list N) (s : sstate) : option sstate :=
  match sstep ch sh s LCheck with
  | Some s' => Some s'
  | None =>
    match first_some (fun c => sstep ch sh s (LAccept c)) (pending_idx s) with
    | Some s' => Some s'
    | None =>
      match sstep ch sh s LAcceptErr with
      | Some s' => Some s'
      | None => first_some (fun c => sstep ch sh s (LHandler c)) (seq 0 (length (s_conns s)))
      end
    end
  end.

Definition settle_fuel (s : sstate) : nat := 16 + 8 * length (s_conns s).

(* what the far end of a connection can observe *)
Inductive cobs := ObsRefused | ObsOpenSilent | ObsClosedSilent | ObsReplied (bs : list N) (closed : bool).
Definition observe (k : conn) : cobs :=
  match k_pc k with
  | HRefused => ObsRefused
  | _ => match k_tx k with
         | [] => if k_closed k then ObsClosedSilent else ObsOpenSilent
         | bs => ObsReplied bs (k_closed k)
         end
  end.

(* the client's decision as a function of what happens on its connection, with the scheduler
   "connector goroutine first; the timer fires before the connector returns iff late" *)
Inductive coutcome := CoNil | CoConn (late : bool) (wfail : bool) (reply : option (list N)).
Definition client_labels (o : coutcome) : list clabel :=
  match o with
  | CoNil => [CConnector None; CSelChan; CMain; CMain]
  | CoConn true _ _ => [CTimer; CSelTimer; CMain; CMain]
  | CoConn false true _ => [CConnector (Some []); CK false false; CK false true; CSelChan; CMain; CMain]
  | CoConn false false None =>      (* the far end closes without answering *)
    [CConnector (Some [PClose]); CK false false; CK false false; CPeer; CK false false; CK false false; CSelChan; CMain; CMain]
  | CoConn false false (Some r) =>
    [CConnector (Some [PWrite r]); CK false false; CK false false; CPeer; CK false false; CK false false; CK false false;
     CSelChan; CS; CS; CMain; CMain]
  end.
(* labels that are not enabled are skipped (the lists above are supersets) *)
Fixpoint crun_skip (ch sh : list N) (s : cstate) (ls : list clabel) : cstate :=
  match ls with
  | [] => s
  | l :: r => match cstep ch sh s l with Some s' => crun_skip ch sh s' r | None => crun_skip ch sh s r end
  end.
Definition client_decides (uid : list N) (port : Z) (o : coutcome) : option bool :=
  match c_mpc (crun_skip (client_hello uid port) (server_hello uid port) c_init (client_labels o)) with
  | MSent tun => Some tun
  | _ => None
  end.

(* ------------------------------------------------------------------------------------ *)
(* vocabulary of the theorems (Props/C17.v) *)

Definition sreach (ch sh : list N) (s : sstate) : Prop := exists ls, srun ch sh s_init ls = Some s.
Definition creach (ch sh : list N) (s : cstate) : Prop := exists ls, crun ch sh c_init ls = Some s.

Definition is_inband (e : src * list N) : bool := match fst e with SrcInband => true | SrcConn _ => false end.

(* the labels with which the client's own threads and the runtime's timer move — no
   cooperation of the connector or of the far end of the connection *)
Definition own_label (l : clabel) : bool :=
  match l with CTimer | CSelTimer | CS | CMain => true | _ => false end.
