(* The bounded queue between the goroutine that fills a trzszBuffer (a pump calling addBuffer
   for every read, in order) and the one that empties it (nextBuffer / popBuffer), property
   C03: buffer.go newTrzszBuffer (`bufCh: make(chan []byte, N)`) and addBuffer
   (`b.bufCh <- buf`, a send that WAITS while N chunks are queued).
   Model/Buffer.v and Model/Pump.v treat the queue as an unbounded list; this file states the
   bounded queue with its two players as an interleaving semantics, and Proofs/BufQueue.v
   shows that with a producer that waits nothing is lost or reordered under any schedule.
   Executable definitions only.  Capacity and "the producer waits" are VALUES regenerated
   from the source. *)
From Trzsz Require Export Base.Bytes.
From Trzsz Require Import Gen.Consts.

Definition queue_capacity : nat := N.to_nat Consts.buffer_queue_capacity.
Definition add_blocks : bool := Consts.buffer_add_blocks.

Record qstate := mk_q {
  q_todo : list (list byte);     (* reads the pump has still to hand to addBuffer, in order *)
  q_queue : list (list byte);    (* bufCh, oldest first *)
  q_taken : list (list byte);    (* what the reader has taken out, in order *)
  q_dropped : list (list byte)   (* what a producer that does not wait has thrown away *)
}.

Inductive qmove := QProduce | QConsume.

(* one move of one player; None = the player is blocked (or has nothing to do) *)
Definition qstep (cap : nat) (blocking : bool) (m : qmove) (s : qstate) : option qstate :=
  match m with
  | QProduce =>
    match q_todo s with
    | [] => None
    | c :: r =>
      if (length (q_queue s) <? cap)%nat
      then Some (mk_q r (q_queue s ++ [c]) (q_taken s) (q_dropped s))
      else if blocking then None                                      (* b.bufCh <- buf waits *)
      else Some (mk_q r (q_queue s) (q_taken s) (q_dropped s ++ [c]))  (* select { ...; default: } *)
    end
  | QConsume =>
    match q_queue s with
    | [] => None
    | c :: q => Some (mk_q (q_todo s) q (q_taken s ++ [c]) (q_dropped s))
    end
  end.

(* a schedule: whose turn it is, step after step; a player that cannot move stays where it is *)
Fixpoint qrun (cap : nat) (blocking : bool) (sched : list qmove) (s : qstate) : qstate :=
  match sched with
  | [] => s
  | m :: r => qrun cap blocking r (match qstep cap blocking m s with Some s' => s' | None => s end)
  end.

Definition q_init (chunks : list (list byte)) : qstate := mk_q chunks [] [] [].

(* what is still to be done: two moves per chunk not yet produced, one per queued chunk *)
Definition q_measure (s : qstate) : nat := (2 * length (q_todo s) + length (q_queue s))%nat.

(* the reader that starts late: the pump runs until it has handed over everything or waits,
   then both run in turn until nothing moves any more.  With the values of the source. *)
Fixpoint q_alternate (n : nat) : list qmove :=
  match n with O => [] | S k => QConsume :: QProduce :: q_alternate k end.
Definition q_late_schedule (n : nat) : list qmove := repeat QProduce n ++ q_alternate n.
Definition queue_late (chunks : list (list byte)) : qstate :=
  qrun queue_capacity add_blocks (q_late_schedule (length chunks)) (q_init chunks).
