(* Model of encoding/base64 StdEncoding as trzsz-go uses it:
     base64.StdEncoding.EncodeToString / NewEncoder(...).Write / Close   (comm.go encodeBytes,
                                                                          pipeline.go base64Writer)
     base64.StdEncoding.DecodeString / NewDecoder                        (comm.go decodeString,
                                                                          pipeline.go base64Reader)
   The library is external code; what is transcribed is its input/output behaviour:
   the standard alphabet, '=' padding, the NON-strict decoder (trailing bits of a padded
   quantum are ignored), CR and LF skipped anywhere, anything after the padding rejected.
   Executable definitions only. *)
From Trzsz Require Export Base.Bytes.

(* "ABCDEFGHIJKLMNOPQRSTUVWXYZabcdefghijklmnopqrstuvwxyz0123456789+/" *)
Definition b64_alphabet : list byte :=
  [65; 66; 67; 68; 69; 70; 71; 72; 73; 74; 75; 76; 77; 78; 79; 80; 81; 82; 83; 84; 85; 86; 87; 88; 89; 90;
   97; 98; 99; 100; 101; 102; 103; 104; 105; 106; 107; 108; 109; 110; 111; 112; 113; 114; 115; 116; 117; 118;
   119; 120; 121; 122;
   48; 49; 50; 51; 52; 53; 54; 55; 56; 57; 43; 47].
Definition b64_pad : byte := 61.

(* enc.encode[s] for a sextet s < 64 *)
Definition b64_char (s : N) : byte := nth (N.to_nat s) b64_alphabet 0.

(* enc.decodeMap[c]: the sextet of c, None for 0xff *)
Fixpoint b64_index_from (l : list byte) (i : N) (c : byte) : option N :=
  match l with
  | [] => None
  | x :: r => if x =? c then Some i else b64_index_from r (i + 1) c
  end.
Definition b64_index (c : byte) : option N := b64_index_from b64_alphabet 0 c.

Definition is_b64_byte (c : byte) : bool := existsb (N.eqb c) b64_alphabet || (c =? b64_pad).

(* ---- Encode ---- *)
(* val := a<<16 | b<<8 | c ; enc.encode[val>>18&0x3F] ... enc.encode[val&0x3F] *)
Definition b64_enc3 (a b c : byte) : list byte :=
  let v := a * 65536 + b * 256 + c in
  [b64_char (v / 262144 mod 64); b64_char (v / 4096 mod 64); b64_char (v / 64 mod 64); b64_char (v mod 64)].

(* all complete 3-byte groups of d: (their encoding, the 0..2 bytes left over) *)
Fixpoint b64_groups (d : list byte) : list byte * list byte :=
  match d with
  | a :: b :: c :: r => let '(o, rest) := b64_groups r in (b64_enc3 a b c ++ o, rest)
  | _ => ([], d)
  end.

(* the final partial group with padding *)
Definition b64_tail (r : list byte) : list byte :=
  match r with
  | [a] =>
    let v := a * 65536 in
    [b64_char (v / 262144 mod 64); b64_char (v / 4096 mod 64); b64_pad; b64_pad]
  | [a; b] =>
    let v := a * 65536 + b * 256 in
    [b64_char (v / 262144 mod 64); b64_char (v / 4096 mod 64); b64_char (v / 64 mod 64); b64_pad]
  | _ => []
  end.

(* EncodeToString *)
Definition b64_encode (d : list byte) : list byte :=
  let '(o, r) := b64_groups d in o ++ b64_tail r.

(* ---- the streaming encoder (NewEncoder): e.buf holds the 0..2 bytes of an incomplete
   group between Writes; every Write emits the encoding of all groups completed so far;
   Close emits the padded final group.  Result: what each Write handed to the underlying
   writer (concatenated per Write), and what Close wrote. *)
Fixpoint b64_writer_go (buf : list byte) (chunks : list (list byte)) : list (list byte) * list byte :=
  match chunks with
  | [] => ([], b64_tail buf)
  | p :: r =>
    let '(o, buf') := b64_groups (buf ++ p) in
    let '(os, cl) := b64_writer_go buf' r in (o :: os, cl)
  end.
Definition b64_writer (chunks : list (list byte)) : list (list byte) * list byte := b64_writer_go [] chunks.
Definition b64_writer_all (chunks : list (list byte)) : list byte :=
  let '(os, cl) := b64_writer chunks in concat os ++ cl.

(* ---- Decode ---- *)
Definition is_newline (c : byte) : bool := (c =? LF) || (c =? CR).

(* val := s0<<18 | s1<<12 | s2<<6 | s3 ; byte(val>>16), byte(val>>8), byte(val) *)
Definition b64_dec4 (s0 s1 s2 s3 : N) : list byte :=
  let v := s0 * 262144 + s1 * 4096 + s2 * 64 + s3 in
  [v / 65536 mod 256; v / 256 mod 256; v mod 256].

Definition is_nil {A} (l : list A) : bool := match l with [] => true | _ => false end.

(* Decode on input without CR/LF, quantum by quantum (decodeQuantum):
     4 alphabet characters            -> 3 bytes
     2 characters "=="  then the end  -> 1 byte   (dbuf[2], dbuf[3] stay 0: not strict)
     3 characters "="   then the end  -> 2 bytes
     '=' in position 0 or 1, a single '=' in position 2, anything after the padding,
     a character outside the alphabet, 1..3 characters left at the end -> CorruptInputError *)
Fixpoint b64_quanta (s : list byte) : option (list byte) :=
  match s with
  | [] => Some []
  | c0 :: c1 :: c2 :: c3 :: r =>
    match b64_index c0, b64_index c1 with
    | Some s0, Some s1 =>
      match b64_index c2 with
      | Some s2 =>
        match b64_index c3 with
        | Some s3 =>
          match b64_quanta r with
          | Some o => Some (b64_dec4 s0 s1 s2 s3 ++ o)
          | None => None
          end
        | None =>
          if (c3 =? b64_pad) && is_nil r then Some (firstn 2 (b64_dec4 s0 s1 s2 0)) else None
        end
      | None =>
        if (c2 =? b64_pad) && (c3 =? b64_pad) && is_nil r then Some (firstn 1 (b64_dec4 s0 s1 0 0)) else None
      end
    | _, _ => None
    end
  | _ => None
  end.

(* DecodeString, and NewDecoder on a well-formed stream: '\r' and '\n' are dropped
   wherever they occur (inside a quantum, between the two '=', after the padding) *)
Definition b64_strip (s : list byte) : list byte := filter (fun c => negb (is_newline c)) s.
Definition b64_decode (s : list byte) : option (list byte) := b64_quanta (b64_strip s).
