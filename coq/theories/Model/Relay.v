(* Interleaving model of the trzsz relay (relay.go: wrapInput, wrapOutput, addHandshakeBuffer,
   flushHandshakeBuffer, handshake, resetToStandby; buffer.go: addBuffer, popBuffer, readLine).
   Executable definitions only.

   Threads: In (wrapInput), Out (wrapOutput), Hs (the handshake worker spawned by Out; its
   last step -- the deferred Unlock after the status change -- is kept in the separate slot
   [tl], because Out may already have spawned the next worker at that moment).
   One transition = one atomic load/store/CAS of relayStatus, one Lock/Unlock of bufferLock,
   one channel send, one addBuffer/popBuffer/readLine, or one read from the client/server.
   Sequentially consistent; any enabled thread may move.

   Everything the relay cannot control is a label parameter (an oracle choice), so that a
   theorem over all label sequences covers every schedule, arrival pattern and outcome:
     - what the detector does to a chunk seen in standby (rewritten chunk, trigger or not);
     - how many parked bytes a readLine consumes and whether the decoded line is accepted
       (RdOk), rejected (RdErr: malformed ACT/CFG, interrupted) or not complete yet (RdMore);
     - the text of the lines the relay writes itself (rewritten ACT/CFG, FAIL);
     - action.Confirm;
     - whether a chunk passing in transferring state carries an end marker.

   Outside the model (scope): the tunnel (tunnelConnector = nil, tunnelRelay = nil and
   tunnelConnected = false throughout; their atomic operations appear in expected_skel and
   are no-ops here), the racily shared r.trigger / r.clientIsWindows, the trace logger,
   blocking of channel sends (a send that would block only removes schedules). *)
From Trzsz Require Export Base.Bytes.
From Trzsz Require Import Base.Skel Gen.Consts.
Import List ListNotations.   (* List.concat, not String.concat *)
Open Scope N_scope.

Definition chunk := list byte.

Inductive status := StS | StH | StT.           (* kRelayStandBy / Handshaking / Transferring *)
Inductive owner := Free | ByIn | ByOut | ByHs | ByTl.
Inductive dev := Std | Byp.                     (* osStdoutChan / bypassTmuxChan consumer *)

(* the numeric values of the status word, regenerated from the const block of relay.go *)
Definition status_code (x : status) : N :=
  match x with StS => Consts.relay_standby | StH => Consts.relay_handshaking | StT => Consts.relay_transferring end.

(* ---- program points ---- *)
Inductive inpc :=
| I0                                  (* clientIn.Read *)
| I1 (c : chunk)                      (* relayStatus.Load()                          relay.go:490 *)
| I3 (c : chunk)                      (* addHandshakeBuffer: bufferLock.Lock()                217 *)
| I4 (c : chunk)                      (*   relayStatus.Load() under the lock                  219 *)
| I4a (c : chunk)                     (*   buffer.addBuffer(data)                             223 *)
| I4p                                 (*   deferred Unlock, returns ok                             *)
| I4u (c : chunk) (t : bool)          (*   deferred Unlock, returns (status,false)                 *)
| I5 (c : chunk) (t : bool)           (* osStdinChan <- buf ; t = the status seen was transferring 499 *)
| I6 (t : bool).                      (* end-marker test, resetToStandby's CAS           501-508 *)

Inductive outpc :=
| O0                                  (* serverOut.Read *)
| O1 (c : chunk)                      (* relayStatus.Load()                                   536 *)
| O3 (c : chunk) | O4 (c : chunk) | O4a (c : chunk) | O4p | O4u (c : chunk) (t : bool)
| O5 (c : chunk) (t : bool)           (* t: bypassTmuxChan <- buf ; else detectTrzsz      545-557 *)
| O5h (c c' : chunk)                  (* relayStatus.Store(kRelayHandshaking)                 559 *)
| O5g (c c' : chunk)                  (* go r.handshake()                                     562 *)
| O5s (c c' : chunk)                  (* osStdoutChan <- buf                                  565 *)
| O6.                                 (* end-marker test, CAS                             548-552 *)

Inductive hspc :=
| HN                                  (* no worker *)
| H0                                  (* recvAction: stdinBuffer.readLine *)
| H2                                  (* sendAction: osStdinChan <- line *)
| H3                                  (* recvConfig: stdoutBuffer.readLine *)
| H4                                  (* sendConfig: bypassTmuxChan <- line *)
| HF1                                 (* sendError: bypassTmuxChan <- FAIL *)
| HF2                                 (*            osStdinChan <- FAIL *)
| HL (cf : bool)                      (* flushHandshakeBuffer(cf): Lock *)
| HP1 (cf : bool)                     (*   stdinBuffer.popBuffer() *)
| HS1 (cf : bool) (b : chunk)         (*   osStdinChan <- buf *)
| HP2 (cf : bool)                     (*   stdoutBuffer.popBuffer() *)
| HS2 (cf : bool) (b : chunk)         (*   bypassTmuxChan / osStdoutChan <- buf *)
| HD (cf : bool).                     (*   Store(transferring) / CAS(handshaking -> standby) *)

(* ---- ghost history ---- *)
Inductive evI := PassI (b : chunk) | EatI (b : chunk) | InsI (b : chunk).
Inductive evO := PassO (d : dev) (cin cout : chunk) | EatO (b : chunk) | InsO (d : dev) (b : chunk).

Definition evI_in (e : evI) := match e with PassI b | EatI b => b | InsI _ => [] end.
Definition evI_out (e : evI) := match e with PassI b | InsI b => b | EatI _ => [] end.
Definition inI_of (h : list evI) := concat (map evI_in h).
Definition outI_of (h : list evI) := concat (map evI_out h).

Definition dev_eqb (a b : dev) := match a, b with Std, Std | Byp, Byp => true | _, _ => false end.
Definition evO_in (e : evO) := match e with PassO _ c _ => c | EatO b => b | InsO _ _ => [] end.
Definition evO_out (d : dev) (e : evO) :=
  match e with
  | PassO d' _ c' => if dev_eqb d d' then c' else []
  | InsO d' b => if dev_eqb d d' then b else []
  | EatO _ => []
  end.
Definition inO_of (h : list evO) := concat (map evO_in h).
Definition outO_of (d : dev) (h : list evO) := concat (map (evO_out d) h).

(* ---- state ---- *)
Record state := mk {
  st : status; lk : owner;
  cin : list chunk;               (* client chunks not yet read by In *)
  sin : list chunk;               (* server chunks not yet read by Out *)
  ibr : chunk; ibq : list chunk;  (* stdinBuffer: rest of the partially consumed chunk, queue *)
  obr : chunk; obq : list chunk;  (* stdoutBuffer *)
  slog : list byte;               (* everything sent on osStdinChan *)
  clog : list byte;               (* ... on osStdoutChan *)
  blog : list byte;               (* ... on bypassTmuxChan when it is a channel of its own *)
  ipc : inpc; opc : outpc; hpc : hspc;
  tlk : bool;                     (* a finished worker still holds the lock (deferred Unlock) *)
  hI : list evI; hO : list evO;
  trg : bool;                     (* ghost: the detector has fired at least once *)
}.

Definition set_st s x := mk x (lk s) (cin s) (sin s) (ibr s) (ibq s) (obr s) (obq s) (slog s) (clog s) (blog s) (ipc s) (opc s) (hpc s) (tlk s) (hI s) (hO s) (trg s).
Definition set_lk s x := mk (st s) x (cin s) (sin s) (ibr s) (ibq s) (obr s) (obq s) (slog s) (clog s) (blog s) (ipc s) (opc s) (hpc s) (tlk s) (hI s) (hO s) (trg s).
Definition set_cin s x := mk (st s) (lk s) x (sin s) (ibr s) (ibq s) (obr s) (obq s) (slog s) (clog s) (blog s) (ipc s) (opc s) (hpc s) (tlk s) (hI s) (hO s) (trg s).
Definition set_sin s x := mk (st s) (lk s) (cin s) x (ibr s) (ibq s) (obr s) (obq s) (slog s) (clog s) (blog s) (ipc s) (opc s) (hpc s) (tlk s) (hI s) (hO s) (trg s).
Definition set_ib s r q := mk (st s) (lk s) (cin s) (sin s) r q (obr s) (obq s) (slog s) (clog s) (blog s) (ipc s) (opc s) (hpc s) (tlk s) (hI s) (hO s) (trg s).
Definition set_ob s r q := mk (st s) (lk s) (cin s) (sin s) (ibr s) (ibq s) r q (slog s) (clog s) (blog s) (ipc s) (opc s) (hpc s) (tlk s) (hI s) (hO s) (trg s).
Definition set_slog s x := mk (st s) (lk s) (cin s) (sin s) (ibr s) (ibq s) (obr s) (obq s) x (clog s) (blog s) (ipc s) (opc s) (hpc s) (tlk s) (hI s) (hO s) (trg s).
Definition set_clog s x := mk (st s) (lk s) (cin s) (sin s) (ibr s) (ibq s) (obr s) (obq s) (slog s) x (blog s) (ipc s) (opc s) (hpc s) (tlk s) (hI s) (hO s) (trg s).
Definition set_blog s x := mk (st s) (lk s) (cin s) (sin s) (ibr s) (ibq s) (obr s) (obq s) (slog s) (clog s) x (ipc s) (opc s) (hpc s) (tlk s) (hI s) (hO s) (trg s).
Definition set_ipc s x := mk (st s) (lk s) (cin s) (sin s) (ibr s) (ibq s) (obr s) (obq s) (slog s) (clog s) (blog s) x (opc s) (hpc s) (tlk s) (hI s) (hO s) (trg s).
Definition set_opc s x := mk (st s) (lk s) (cin s) (sin s) (ibr s) (ibq s) (obr s) (obq s) (slog s) (clog s) (blog s) (ipc s) x (hpc s) (tlk s) (hI s) (hO s) (trg s).
Definition set_hpc s x := mk (st s) (lk s) (cin s) (sin s) (ibr s) (ibq s) (obr s) (obq s) (slog s) (clog s) (blog s) (ipc s) (opc s) x (tlk s) (hI s) (hO s) (trg s).
Definition set_tl s x := mk (st s) (lk s) (cin s) (sin s) (ibr s) (ibq s) (obr s) (obq s) (slog s) (clog s) (blog s) (ipc s) (opc s) (hpc s) x (hI s) (hO s) (trg s).
Definition set_hI s x := mk (st s) (lk s) (cin s) (sin s) (ibr s) (ibq s) (obr s) (obq s) (slog s) (clog s) (blog s) (ipc s) (opc s) (hpc s) (tlk s) x (hO s) (trg s).
Definition set_hO s x := mk (st s) (lk s) (cin s) (sin s) (ibr s) (ibq s) (obr s) (obq s) (slog s) (clog s) (blog s) (ipc s) (opc s) (hpc s) (tlk s) (hI s) x (trg s).
Definition set_trg s x := mk (st s) (lk s) (cin s) (sin s) (ibr s) (ibq s) (obr s) (obq s) (slog s) (clog s) (blog s) (ipc s) (opc s) (hpc s) (tlk s) (hI s) (hO s) x.

(* a send on osStdinChan / on a client-side channel, with its ghost event *)
Definition send_srv s (b : chunk) (e : evI) := set_hI (set_slog s (slog s ++ b)) (hI s ++ [e]).
Definition send_cli s (d : dev) (b : chunk) (e : evO) :=
  set_hO (match d with Std => set_clog s (clog s ++ b) | Byp => set_blog s (blog s ++ b) end) (hO s ++ [e]).

(* bypassTmuxChan is osStdoutChan unless the relay runs inside tmux (NewTrzszRelay) *)
Definition bdev (tmux : bool) : dev := if tmux then Byp else Std.

(* ---- trzszBuffer ---- *)
Definition flat (r : chunk) (q : list chunk) : list byte := r ++ concat q.

(* readLine having consumed n bytes: nextBuf/nextIdx point into the chunk where the cut falls *)
Fixpoint drop_parked (n : nat) (r : chunk) (q : list chunk) : chunk * list chunk :=
  if (n <=? length r)%nat then (skipn n r, q) else
  match q with
  | [] => ([], [])
  | c :: q' => drop_parked (n - length r) c q'
  end.

(* popBuffer: the partially consumed chunk first, then the queue in order, nil when empty *)
Definition pop_buf (r : chunk) (q : list chunk) : option chunk * chunk * list chunk :=
  match r with
  | _ :: _ => (Some r, [], q)
  | [] => match q with b :: q' => (Some b, [], q') | [] => (None, [], []) end
  end.

Inductive rd_res := RdMore | RdOk | RdErr.

Inductive label :=
| LInRead | LInLoad | LInLock | LInReload | LInAdd | LInUnlockP | LInUnlockU | LInSend | LInEnd (cas : bool)
| LOutRead | LOutLoad | LOutLock | LOutReload | LOutAdd | LOutUnlockP | LOutUnlockU
| LOutBypass | LOutDetect (c' : chunk) (trig : bool) | LOutStoreH | LOutGo | LOutSend | LOutEnd (cas : bool)
| LHsAct (n : nat) (r : rd_res) | LHsSendAct (l : chunk) (confirm : bool)
| LHsCfg (n : nat) (r : rd_res) | LHsSendCfg (l : chunk)
| LHsFail1 (l : chunk) | LHsFail2 (l : chunk)
| LHsLock | LHsPopI | LHsSendI | LHsPopO | LHsSendO | LHsDone
| LTlUnlock.

Definition after_load_in (x : status) (c : chunk) : inpc :=
  match x with StH => I3 c | StT => I5 c true | StS => I5 c false end.
Definition after_reload_in (x : status) (c : chunk) : inpc :=
  match x with StH => I4a c | StT => I4u c true | StS => I4u c false end.
Definition after_load_out (x : status) (c : chunk) : outpc :=
  match x with StH => O3 c | StT => O5 c true | StS => O5 c false end.
Definition after_reload_out (x : status) (c : chunk) : outpc :=
  match x with StH => O4a c | StT => O4u c true | StS => O4u c false end.

(* resetToStandby(kRelayTransferring): CompareAndSwap *)
Definition cas_t_s s := match st s with StT => set_st s StS | _ => s end.

(* rc = false drops the re-read of the status under the lock (C13_recheck_needed) *)
Definition step_fn (rc tm : bool) (l : label) (s : state) : option state :=
  match l with
  (* ---- wrapInput ---- *)
  | LInRead => match ipc s, cin s with I0, c :: r => Some (set_ipc (set_cin s r) (I1 c)) | _, _ => None end
  | LInLoad => match ipc s with I1 c => Some (set_ipc s (after_load_in (st s) c)) | _ => None end
  | LInLock => match ipc s, lk s with I3 c, Free => Some (set_ipc (set_lk s ByIn) (I4 c)) | _, _ => None end
  | LInReload => match ipc s with I4 c => Some (set_ipc s (after_reload_in (if rc then st s else StH) c)) | _ => None end
  | LInAdd => match ipc s with I4a c => Some (set_ipc (set_ib s (ibr s) (ibq s ++ [c])) I4p) | _ => None end
  | LInUnlockP => match ipc s with I4p => Some (set_ipc (set_lk s Free) I0) | _ => None end
  | LInUnlockU => match ipc s with I4u c t => Some (set_ipc (set_lk s Free) (I5 c t)) | _ => None end
  | LInSend => match ipc s with I5 c t => Some (set_ipc (send_srv s c (PassI c)) (I6 t)) | _ => None end
  | LInEnd cas => match ipc s with I6 t => Some (set_ipc (if t && cas then cas_t_s s else s) I0) | _ => None end
  (* ---- wrapOutput ---- *)
  | LOutRead => match opc s, sin s with O0, c :: r => Some (set_opc (set_sin s r) (O1 c)) | _, _ => None end
  | LOutLoad => match opc s with O1 c => Some (set_opc s (after_load_out (st s) c)) | _ => None end
  | LOutLock => match opc s, lk s with O3 c, Free => Some (set_opc (set_lk s ByOut) (O4 c)) | _, _ => None end
  | LOutReload => match opc s with O4 c => Some (set_opc s (after_reload_out (if rc then st s else StH) c)) | _ => None end
  | LOutAdd => match opc s with O4a c => Some (set_opc (set_ob s (obr s) (obq s ++ [c])) O4p) | _ => None end
  | LOutUnlockP => match opc s with O4p => Some (set_opc (set_lk s Free) O0) | _ => None end
  | LOutUnlockU => match opc s with O4u c t => Some (set_opc (set_lk s Free) (O5 c t)) | _ => None end
  | LOutBypass => match opc s with
                  | O5 c true => Some (set_opc (send_cli s (bdev tm) c (PassO (bdev tm) c c)) O6)
                  | _ => None end
  | LOutDetect c' trig => match opc s with
                  | O5 c false => Some (if trig then set_trg (set_opc s (O5h c c')) true else set_opc s (O5s c c'))
                  | _ => None end
  | LOutStoreH => match opc s with O5h c c' => Some (set_opc (set_st s StH) (O5g c c')) | _ => None end
  | LOutGo => match opc s with O5g c c' => Some (set_opc (set_hpc s H0) (O5s c c')) | _ => None end
  | LOutSend => match opc s with O5s c c' => Some (set_opc (send_cli s Std c' (PassO Std c c')) O0) | _ => None end
  | LOutEnd cas => match opc s with O6 => Some (set_opc (if cas then cas_t_s s else s) O0) | _ => None end
  (* ---- handshake ---- *)
  | LHsAct n r => match hpc s with
                  | H0 => let (r', q') := drop_parked n (ibr s) (ibq s) in
                          Some (set_hpc (set_hI (set_ib s r' q') (hI s ++ [EatI (firstn n (flat (ibr s) (ibq s)))]))
                                        (match r with RdMore => H0 | RdOk => H2 | RdErr => HF1 end))
                  | _ => None end
  | LHsSendAct l cf => match hpc s with
                  | H2 => Some (set_hpc (send_srv s l (InsI l)) (if cf then H3 else HL false))
                  | _ => None end
  | LHsCfg n r => match hpc s with
                  | H3 => let (r', q') := drop_parked n (obr s) (obq s) in
                          Some (set_hpc (set_hO (set_ob s r' q') (hO s ++ [EatO (firstn n (flat (obr s) (obq s)))]))
                                        (match r with RdMore => H3 | RdOk => H4 | RdErr => HF1 end))
                  | _ => None end
  | LHsSendCfg l => match hpc s with
                  | H4 => Some (set_hpc (send_cli s (bdev tm) l (InsO (bdev tm) l)) (HL true))
                  | _ => None end
  | LHsFail1 l => match hpc s with
                  | HF1 => Some (set_hpc (send_cli s (bdev tm) l (InsO (bdev tm) l)) HF2)
                  | _ => None end
  | LHsFail2 l => match hpc s with
                  | HF2 => Some (set_hpc (send_srv s l (InsI l)) (HL false))
                  | _ => None end
  (* ---- flushHandshakeBuffer ---- *)
  | LHsLock => match hpc s, lk s with HL cf, Free => Some (set_hpc (set_lk s ByHs) (HP1 cf)) | _, _ => None end
  | LHsPopI => match hpc s with
                  | HP1 cf => match pop_buf (ibr s) (ibq s) with
                              | (Some b, r', q') => Some (set_hpc (set_ib s r' q') (HS1 cf b))
                              | (None, r', q') => Some (set_hpc (set_ib s r' q') (HP2 cf))
                              end
                  | _ => None end
  | LHsSendI => match hpc s with HS1 cf b => Some (set_hpc (send_srv s b (PassI b)) (HP1 cf)) | _ => None end
  | LHsPopO => match hpc s with
                  | HP2 cf => match pop_buf (obr s) (obq s) with
                              | (Some b, r', q') => Some (set_hpc (set_ob s r' q') (HS2 cf b))
                              | (None, r', q') => Some (set_hpc (set_ob s r' q') (HD cf))
                              end
                  | _ => None end
  | LHsSendO => match hpc s with
                  | HS2 cf b => let d := if cf then bdev tm else Std in
                                Some (set_hpc (send_cli s d b (PassO d b b)) (HP2 cf))
                  | _ => None end
  | LHsDone => match hpc s with
                  | HD cf => Some (set_tl (set_lk (set_hpc
                                 (if cf then set_st s StT else match st s with StH => set_st s StS | _ => s end)
                                 HN) ByTl) true)
                  | _ => None end
  | LTlUnlock => if tlk s then Some (set_tl (set_lk s Free) false) else None
  end.

Definition init (cs ss : list chunk) : state :=
  mk StS Free cs ss [] [] [] [] [] [] [] I0 O0 HN false [] [] false.

Fixpoint run (rc tm : bool) (ls : list label) (s : state) : option state :=
  match ls with
  | [] => Some s
  | l :: r => match step_fn rc tm l s with Some s' => run rc tm r s' | None => None end
  end.

(* every schedule = every label sequence the faithful model (rc = true) accepts *)
Inductive reach (tm : bool) (s0 : state) : state -> Prop :=
| reach_refl : reach tm s0 s0
| reach_step s s' l : reach tm s0 s -> step_fn true tm l s = Some s' -> reach tm s0 s'.

(* ---- what the theorems talk about ---- *)
Definition inflightI (p : inpc) : chunk :=
  match p with I1 c | I3 c | I4 c | I4a c | I4u c _ | I5 c _ => c | I0 | I4p | I6 _ => [] end.
Definition inflightO (p : outpc) : chunk :=
  match p with O1 c | O3 c | O4 c | O4a c | O4u c _ | O5 c _ | O5h c _ | O5g c _ | O5s c _ => c | O0 | O4p | O6 => [] end.
Definition hs_flI (p : hspc) : chunk := match p with HS1 _ b => b | _ => [] end.
Definition hs_flO (p : hspc) : chunk := match p with HS2 _ b => b | _ => [] end.

Definition in_holds (p : inpc) : bool := match p with I4 _ | I4a _ | I4p | I4u _ _ => true | _ => false end.
Definition out_holds (p : outpc) : bool := match p with O4 _ | O4a _ | O4p | O4u _ _ => true | _ => false end.
Definition hs_holds (p : hspc) : bool := match p with HP1 _ | HS1 _ _ | HP2 _ | HS2 _ _ | HD _ => true | _ => false end.

(* client -> server: decided part of the input ++ what the worker holds ++ parked ++ the
   reader's chunk ++ not yet arrived = the client's input; the server-side log is the
   decided part with eaten lines removed and the relay's lines inserted *)
Definition conserved_I (ci : list byte) (s : state) : Prop :=
  inI_of (hI s) ++ hs_flI (hpc s) ++ flat (ibr s) (ibq s) ++ inflightI (ipc s) ++ concat (cin s) = ci
  /\ outI_of (hI s) = slog s.
Definition conserved_O (si : list byte) (s : state) : Prop :=
  inO_of (hO s) ++ hs_flO (hpc s) ++ flat (obr s) (obq s) ++ inflightO (opc s) ++ concat (sin s) = si
  /\ outO_of Std (hO s) = clog s /\ outO_of Byp (hO s) = blog s.

(* boolean version of conserved_I, for the refutation by computation *)
Definition conserved_I_b (ci : list byte) (s : state) : bool :=
  list_eqb (inI_of (hI s) ++ hs_flI (hpc s) ++ flat (ibr s) (ibq s) ++ inflightI (ipc s) ++ concat (cin s)) ci
  && list_eqb (outI_of (hI s)) (slog s).

Definition is_passI (e : evI) : bool := match e with PassI _ => true | _ => false end.
Definition is_passO_std (e : evO) : bool := match e with PassO Std _ _ => true | _ => false end.
Definition passO_same (e : evO) : Prop := match e with PassO _ c c' => c' = c | _ => True end.
Definition insI_all (P : byte -> Prop) (e : evI) : Prop := match e with InsI b => Forall P b | _ => True end.
Definition outO_all (P : byte -> Prop) (e : evO) : Prop :=
  match e with InsO _ b => Forall P b | PassO _ _ c' => Forall P c' | EatO _ => True end.

(* subsequence: l1 is l2 with some elements removed, order kept *)
Inductive subseq {A} : list A -> list A -> Prop :=
| sub_nil : subseq [] []
| sub_keep x a b : subseq a b -> subseq (x :: a) (x :: b)
| sub_skip x a b : subseq a b -> subseq a (x :: b).
Definition passedI (h : list evI) : list byte :=
  concat (map (fun e => match e with PassI b => b | _ => [] end) h).

(* ---- the synchronisation skeleton the program points above implement ----
   (compare with Gen/Skel_relay.v, regenerated from relay.go on every run)
   Model steps:  relayStatus Load/Store/CAS, bufferLock Lock/Unlock, sends on osStdinChan /
   osStdoutChan / bypassTmuxChan, addBuffer / popBuffer / readLine, go handshake.
   No-ops in the model (tunnel out of scope): tunnelConnected, tunnelRelay, tunnelListener,
   tunnelConnector, clientBufChan, serverBufChan, listenForTunnel, readLineOnWindows. *)
Open Scope string_scope.
Definition expected_skel : skel := [
  ("addHandshakeBuffer",
   [SkLock "bufferLock";
    SkDefer [SkUnlock "bufferLock"];
    SkAtomic "relayStatus" ALoad;
    SkIf [SkAtomic "tunnelConnected" ALoad] [SkReturn] [];
    SkCall "addBuffer";
    SkReturn]);
  ("flushHandshakeBuffer",
   [SkLock "bufferLock";
    SkDefer [SkUnlock "bufferLock"];
    SkLoop [SkCall "popBuffer"; SkIf [] [SkBreak] []; SkIf [SkAtomic "tunnelRelay" ALoad; SkAtomic "tunnelConnected" ALoad] [SkSend "clientBufChan"] [SkSend "osStdinChan"]];
    SkLoop [SkCall "popBuffer"; SkIf [] [SkBreak] []; SkIf [SkAtomic "tunnelRelay" ALoad; SkAtomic "tunnelConnected" ALoad] [SkSend "serverBufChan"] [SkIf [] [SkSend "bypassTmuxChan"] [SkSend "osStdoutChan"]]];
    SkIf [] [SkAtomic "relayStatus" AStore] [SkCall "resetToStandby"]]);
  ("handshake",
   [SkDefer [SkIf [] [SkCall "sendError"] []; SkCall "flushHandshakeBuffer"];
    SkCall "recvAction";
    SkIf [] [SkReturn] [];
    SkAtomic "tunnelConnected" AStore;
    SkIf [SkCall "sendAction"] [SkReturn] [];
    SkIf [] [SkReturn] [];
    SkCall "recvConfig";
    SkIf [] [SkReturn] [];
    SkIf [SkCall "sendConfig"] [SkReturn] []]);
  ("recvAction",
   [SkCall "recvStringFromClient";
    SkIf [] [SkReturn] [];
    SkIf [] [SkReturn] [];
    SkReturn]);
  ("recvConfig",
   [SkCall "recvStringFromServer";
    SkIf [] [SkReturn] [];
    SkIf [SkAtomic "tunnelConnected" ALoad] [] [];
    SkIf [] [SkReturn] [];
    SkReturn]);
  ("recvStringFromClient",
   [SkIf [SkAtomic "tunnelConnected" ALoad] [SkCall "recvStringForWindows"; SkReturn] [];
    SkCall "recvStringFromBuffer";
    SkReturn]);
  ("recvStringFromServer",
   [SkIf [SkAtomic "tunnelConnected" ALoad] [SkCall "recvStringForWindows"; SkReturn] [];
    SkCall "recvStringFromBuffer";
    SkReturn]);
  ("resetToStandby",
   [SkIf [SkAtomic "relayStatus" ACas] [SkReturn] [];
    SkIf [SkAtomic "tunnelListener" ALoad] [SkAtomic "tunnelListener" AStore] [];
    SkIf [SkAtomic "tunnelRelay" ALoad] [SkAtomic "relay" AStore; SkAtomic "tunnelRelay" AStore] [];
    SkAtomic "tunnelConnected" AStore]);
  ("sendAction",
   [SkIf [] [SkReturn] [];
    SkCall "sendStringToServer";
    SkReturn]);
  ("sendConfig",
   [SkIf [] [SkReturn] [];
    SkCall "sendStringToClient";
    SkReturn]);
  ("sendError",
   [SkCall "sendStringToClient";
    SkCall "sendStringToServer"]);
  ("sendStringToClient",
   [SkIf [SkAtomic "tunnelConnected" ALoad] [] [];
    SkIf [SkAtomic "tunnelRelay" ALoad; SkAtomic "tunnelConnected" ALoad] [SkSend "serverBufChan"] [SkSend "bypassTmuxChan"];
    SkReturn]);
  ("sendStringToServer",
   [SkIf [SkAtomic "tunnelConnected" ALoad] [] [];
    SkIf [SkAtomic "tunnelRelay" ALoad; SkAtomic "tunnelConnected" ALoad] [SkSend "clientBufChan"] [SkSend "osStdinChan"];
    SkReturn]);
  ("wrapInput",
   [SkDefer [SkClose "osStdinChan"];
    SkLoop [SkIf [] [SkAtomic "relayStatus" ALoad; SkIf [] [SkCall "addHandshakeBuffer"; SkIf [] [SkContinue] []] []; SkSend "osStdinChan"; SkIf [] [SkIf [] [SkCall "resetToStandby"] [SkIf [] [SkCall "resetToStandby"] [SkIf [] [SkCall "resetToStandby"] []]]] []] []; SkIf [] [SkIf [] [SkSend "osStdinChan"; SkContinue] []; SkBreak] []]]);
  ("wrapOutput",
   [SkDefer [SkClose "osStdoutChan"];
    SkIf [] [SkDefer [SkClose "bypassTmuxChan"]] [];
    SkLoop [SkIf [] [SkAtomic "relayStatus" ALoad; SkIf [] [SkCall "addHandshakeBuffer"; SkIf [] [SkContinue] []] []; SkIf [] [SkSend "bypassTmuxChan"; SkIf [] [SkCall "resetToStandby"] [SkIf [] [SkCall "resetToStandby"] []]; SkContinue] []; SkAtomic "tunnelConnector" ALoad; SkIf [] [SkAtomic "relayStatus" AStore; SkCall "listenForTunnel"; SkGo "handshake"] []; SkSend "osStdoutChan"] []; SkIf [] [SkBreak] []]]);
  ("recvStringForWindows",
   [SkCall "readLineOnWindows";
    SkIf [] [SkReturn] [];
    SkReturn]);
  ("recvStringFromBuffer",
   [SkCall "readLine";
    SkIf [] [SkReturn] [];
    SkReturn])
].

(* ==== trace validation: replaying an OBSERVED execution of the real relay ==================
   The overlay build (go/cmd/overlay) logs one event per synchronisation operation the relay
   goroutines actually execute, in real order: a per-relay mutex makes "operation + log
   append" one indivisible action for the atomics, the channel sends, addBuffer and
   popBuffer; Lock is logged right after it was acquired and Unlock right before it is
   released (so critical sections are exact); a readLine consumption is logged after the
   bytes were taken (every addBuffer it depends on was logged before).
   An event carries the goroutine role, the operation and the OBSERVED value.  [rv_labels]
   maps an event, in the current model state, to the label(s) of [step_fn] it stands for,
   provided the observed value is the one the model has (the status loaded is the current
   status, the chunk sent / parked / popped is the one the model holds at that program
   point, the CAS succeeded iff the model's status is the expected one, the channel is the
   one the model sends on).  [rv_run] replays a whole trace and returns the final state or the
   index of the first event that is not an enabled step.

   Event <-> label (program points are those of expected_skel; codes are the trace tokens):
     wrapInput        clientIn.Read                 RvRead RvIn c      LInRead   (preceded by the
                                                     silent LInEnd false when the previous chunk's
                                                     end-marker test found nothing: no operation)
                      relayStatus.Load()            RvLoad RvIn x      LInLoad       x = status
                      osStdinChan <- buf            RvSend RvIn RvSrv  LInSend       buf = chunk held
     addHandshakeBuffer bufferLock.Lock()           RvLock r           LInLock / LOutLock
                      relayStatus.Load()            RvReload r x       LInReload / LOutReload
                      buffer.addBuffer(data)        RvAdd r c          LInAdd / LOutAdd
                      deferred Unlock               RvUnlock r         L*UnlockP after an add, L*UnlockU otherwise
     resetToStandby   relayStatus.CompareAndSwap    RvCas r old ok     LInEnd true / LOutEnd true (old = transferring),
                                                                       LHsDone (old = handshaking); ok = (status = old)
     wrapOutput       serverOut.Read                RvRead RvOut c     LOutRead (preceded by a silent LOutEnd false)
                      relayStatus.Load()            RvLoad RvOut x     LOutLoad
                      bypassTmuxChan <- buf         RvSend RvOut RvByp LOutBypass
                      detector.detectTrzsz          RvDetect c' trig   LOutDetect c' trig
                      relayStatus.Store(handshaking) RvStore RvOut x   LOutStoreH
                      go r.handshake()              RvGo               LOutGo
                      osStdoutChan <- buf           RvSend RvOut RvCli LOutSend
     readLine         b.nextIdx += k                RvEat side k       LHsAct k RdMore / LHsCfg k RdMore
     handshake        recvAction() / recvConfig() returned  RvRes side ok   LHsAct 0 RdOk|RdErr / LHsCfg 0 ...
     sendStringToServer osStdinChan <- line         RvSend RvHs RvSrv l cf   LHsSendAct l cf (cf = action.Confirm) / LHsFail2 l
     sendStringToClient bypassTmuxChan <- line      RvSend RvHs RvByp l      LHsSendCfg l / LHsFail1 l
     flushHandshakeBuffer bufferLock.Lock()         RvLock RvHs cf     LHsLock   cf = the confirm argument
                      stdinBuffer.popBuffer()       RvPop RvBufI x     LHsPopI   x = what the model pops
                      osStdinChan <- buf            RvSend RvHs RvSrv  LHsSendI
                      stdoutBuffer.popBuffer()      RvPop RvBufO x     LHsPopO
                      bypassTmuxChan/osStdoutChan <- buf  RvSend RvHs RvByp/RvCli  LHsSendO (channel by cf)
                      relayStatus.Store(transferring)     RvStore RvHs x           LHsDone (confirm)
                      deferred Unlock               RvUnlock RvHs      LTlUnlock
   Scope events (no model step): every Load/Store of tunnelConnected, tunnelRelay,
   tunnelListener, tunnelConnector is logged as RvScope v and must have v = false / nil.
   Deliberately not logged: bufCh operations inside addBuffer/popBuffer/nextBuffer (they are
   the logged addBuffer/popBuffer/readLine steps themselves), close(chan) at EOF, the two
   writer goroutines of NewTrzszRelay, r.trigger / r.clientIsWindows (racy plain fields),
   tmuxRefreshClient, the trace logger. *)
Close Scope string_scope.
Inductive rv_role := RvIn | RvOut | RvHs.
Inductive rv_chan := RvSrv | RvCli | RvByp.       (* osStdinChan / osStdoutChan / bypassTmuxChan *)
Inductive rv_buf := RvBufI | RvBufO.              (* stdinBuffer / stdoutBuffer *)

Inductive rv_ev :=
| RvRead (r : rv_role) (c : chunk)
| RvLoad (r : rv_role) (x : N)
| RvLock (r : rv_role) (cf : bool)
| RvReload (r : rv_role) (x : N)
| RvAdd (r : rv_role) (c : chunk)
| RvUnlock (r : rv_role)
| RvSend (r : rv_role) (ch : rv_chan) (b : chunk) (cf : bool)
| RvCas (r : rv_role) (old : N) (ok : bool)
| RvStore (r : rv_role) (x : N)
| RvDetect (c' : chunk) (trig : bool)
| RvGo
| RvEat (b : rv_buf) (n : nat)
| RvRes (b : rv_buf) (ok : bool)
| RvPop (b : rv_buf) (x : option chunk)
| RvScope (v : bool).

Definition rv_st_is (s : state) (x : N) : bool := status_code (st s) =? x.
Definition rv_chan_eqb (a b : rv_chan) : bool :=
  match a, b with RvSrv, RvSrv | RvCli, RvCli | RvByp, RvByp => true | _, _ => false end.
Definition rv_opt_eqb (a b : option chunk) : bool :=
  match a, b with Some x, Some y => list_eqb x y | None, None => true | _, _ => false end.
Definition rv_when (b : bool) (ls : list label) : option (list label) := if b then Some ls else None.
Definition rv_rd (ok : bool) : rd_res := if ok then RdOk else RdErr.
Definition rv_head_is (l : list chunk) (c : chunk) : bool :=
  match l with c0 :: _ => list_eqb c0 c | [] => false end.

Definition rv_labels (e : rv_ev) (s : state) : option (list label) :=
  match e with
  | RvRead RvIn c =>
      match ipc s with
      | I0 => rv_when (rv_head_is (cin s) c) [LInRead]
      | I6 _ => rv_when (rv_head_is (cin s) c) [LInEnd false; LInRead]
      | _ => None end
  | RvRead RvOut c =>
      match opc s with
      | O0 => rv_when (rv_head_is (sin s) c) [LOutRead]
      | O6 => rv_when (rv_head_is (sin s) c) [LOutEnd false; LOutRead]
      | _ => None end
  | RvRead RvHs _ => None
  | RvLoad RvIn x => match ipc s with I1 _ => rv_when (rv_st_is s x) [LInLoad] | _ => None end
  | RvLoad RvOut x => match opc s with O1 _ => rv_when (rv_st_is s x) [LOutLoad] | _ => None end
  | RvLoad RvHs _ => None
  | RvLock RvIn _ => match ipc s with I3 _ => Some [LInLock] | _ => None end
  | RvLock RvOut _ => match opc s with O3 _ => Some [LOutLock] | _ => None end
  | RvLock RvHs cf => match hpc s with HL cf' => rv_when (Bool.eqb cf cf') [LHsLock] | _ => None end
  | RvReload RvIn x => match ipc s with I4 _ => rv_when (rv_st_is s x) [LInReload] | _ => None end
  | RvReload RvOut x => match opc s with O4 _ => rv_when (rv_st_is s x) [LOutReload] | _ => None end
  | RvReload RvHs _ => None
  | RvAdd RvIn c => match ipc s with I4a c0 => rv_when (list_eqb c0 c) [LInAdd] | _ => None end
  | RvAdd RvOut c => match opc s with O4a c0 => rv_when (list_eqb c0 c) [LOutAdd] | _ => None end
  | RvAdd RvHs _ => None
  | RvUnlock RvIn => match ipc s with I4p => Some [LInUnlockP] | I4u _ _ => Some [LInUnlockU] | _ => None end
  | RvUnlock RvOut => match opc s with O4p => Some [LOutUnlockP] | O4u _ _ => Some [LOutUnlockU] | _ => None end
  | RvUnlock RvHs => rv_when (tlk s) [LTlUnlock]
  | RvSend RvIn ch b _ =>
      match ipc s with I5 c _ => rv_when (rv_chan_eqb ch RvSrv && list_eqb c b) [LInSend] | _ => None end
  | RvSend RvOut ch b _ =>
      match opc s with
      | O5 c true => rv_when (rv_chan_eqb ch RvByp && list_eqb c b) [LOutBypass]
      | O5s _ c' => rv_when (rv_chan_eqb ch RvCli && list_eqb c' b) [LOutSend]
      | _ => None end
  | RvSend RvHs ch b cf =>
      match hpc s with
      | H2 => rv_when (rv_chan_eqb ch RvSrv) [LHsSendAct b cf]
      | H4 => rv_when (rv_chan_eqb ch RvByp) [LHsSendCfg b]
      | HF1 => rv_when (rv_chan_eqb ch RvByp) [LHsFail1 b]
      | HF2 => rv_when (rv_chan_eqb ch RvSrv) [LHsFail2 b]
      | HS1 _ b' => rv_when (rv_chan_eqb ch RvSrv && list_eqb b' b) [LHsSendI]
      | HS2 cf' b' => rv_when (rv_chan_eqb ch (if cf' then RvByp else RvCli) && list_eqb b' b) [LHsSendO]
      | _ => None end
  | RvCas RvIn old ok =>
      match ipc s with
      | I6 true => rv_when ((old =? status_code StT) && Bool.eqb ok (rv_st_is s old)) [LInEnd true]
      | _ => None end
  | RvCas RvOut old ok =>
      match opc s with
      | O6 => rv_when ((old =? status_code StT) && Bool.eqb ok (rv_st_is s old)) [LOutEnd true]
      | _ => None end
  | RvCas RvHs old ok =>
      match hpc s with
      | HD false => rv_when ((old =? status_code StH) && Bool.eqb ok (rv_st_is s old)) [LHsDone]
      | _ => None end
  | RvStore RvOut x => match opc s with O5h _ _ => rv_when (x =? status_code StH) [LOutStoreH] | _ => None end
  | RvStore RvHs x => match hpc s with HD true => rv_when (x =? status_code StT) [LHsDone] | _ => None end
  | RvStore RvIn _ => None
  | RvDetect c' trig => match opc s with O5 _ false => Some [LOutDetect c' trig] | _ => None end
  | RvGo => match opc s with O5g _ _ => Some [LOutGo] | _ => None end
  | RvEat RvBufI n =>
      match hpc s with H0 => rv_when (n <=? length (flat (ibr s) (ibq s)))%nat [LHsAct n RdMore] | _ => None end
  | RvEat RvBufO n =>
      match hpc s with H3 => rv_when (n <=? length (flat (obr s) (obq s)))%nat [LHsCfg n RdMore] | _ => None end
  | RvRes RvBufI ok => match hpc s with H0 => Some [LHsAct O (rv_rd ok)] | _ => None end
  | RvRes RvBufO ok => match hpc s with H3 => Some [LHsCfg O (rv_rd ok)] | _ => None end
  | RvPop RvBufI x =>
      match hpc s with
      | HP1 _ => rv_when (rv_opt_eqb (fst (fst (pop_buf (ibr s) (ibq s)))) x) [LHsPopI]
      | _ => None end
  | RvPop RvBufO x =>
      match hpc s with
      | HP2 _ => rv_when (rv_opt_eqb (fst (fst (pop_buf (obr s) (obq s)))) x) [LHsPopO]
      | _ => None end
  | RvScope v => rv_when (negb v) []
  end.

Definition rv_step (tm : bool) (e : rv_ev) (s : state) : option state :=
  match rv_labels e s with Some ls => run true tm ls s | None => None end.

(* final state, or the index of the first offending event with the state in front of it *)
Inductive rv_result := RvOk (s : state) | RvBad (i : nat) (s : state).

Fixpoint rv_run (tm : bool) (es : list rv_ev) (i : nat) (s : state) : rv_result :=
  match es with
  | [] => RvOk s
  | e :: r => match rv_step tm e s with Some s' => rv_run tm r (S i) s' | None => RvBad i s end
  end.

(* the label sequence a trace stands for (None = some event is not an enabled step) *)
Fixpoint rv_path (tm : bool) (es : list rv_ev) (s : state) : option (list label) :=
  match es with
  | [] => Some []
  | e :: r =>
      match rv_labels e s with
      | Some ls => match run true tm ls s with
                   | Some s' => match rv_path tm r s' with Some ls' => Some (ls ++ ls') | None => None end
                   | None => None end
      | None => None end
  end.

(* ==== the reset guard ========================================================================
   resetToStandby(expected) is CompareAndSwap(expected, standby): a reset request that was
   decided for an EARLIER state (the input reader saw "transferring" and an end marker, then
   was delayed behind its channel send) is harmless once the relay has moved on.  The variant
   below carries the other possibility, a reset from whatever state the relay is in
   (Swap(standby)), so that the model can say which interleavings need the guard; which of
   the two the CURRENT source has is regenerated from relay.go ([rg_current] from
   Consts.relay_reset_guarded; Proofs/Relay.v ties it to the generated skeleton as well). *)
Definition rg_current : bool := negb Consts.relay_reset_guarded.

Definition rg_reset (ug : bool) (expect : status) (s : state) : state :=
  if ug then set_st s StS
  else match expect, st s with StT, StT | StH, StH | StS, StS => set_st s StS | _, _ => s end.

(* step_fn (faithful, re-read enabled) with the reset of the three resetToStandby call sites
   replaced by [rg_reset ug]; [rg_step false] is [step_fn true] (Proofs: rg_step_guarded) *)
Definition rg_step (ug tm : bool) (l : label) (s : state) : option state :=
  match l with
  | LInEnd cas => match ipc s with I6 t => Some (set_ipc (if t && cas then rg_reset ug StT s else s) I0) | _ => None end
  | LOutEnd cas => match opc s with O6 => Some (set_opc (if cas then rg_reset ug StT s else s) O0) | _ => None end
  | LHsDone => match hpc s with
               | HD cf => Some (set_tl (set_lk (set_hpc (if cf then set_st s StT else rg_reset ug StH s) HN) ByTl) true)
               | _ => None end
  | _ => step_fn true tm l s
  end.

Fixpoint rg_run (ug tm : bool) (ls : list label) (s : state) : option state :=
  match ls with
  | [] => Some s
  | l :: r => match rg_step ug tm l s with Some s' => rg_run ug tm r s' | None => None end
  end.

Definition conserved_O_b (si : list byte) (s : state) : bool :=
  list_eqb (inO_of (hO s) ++ hs_flO (hpc s) ++ flat (obr s) (obq s) ++ inflightO (opc s) ++ concat (sin s)) si
  && list_eqb (outO_of Std (hO s)) (clog s) && list_eqb (outO_of Byp (hO s)) (blog s).

(* what the search looks for: conservation broken, or bytes parked while the relay is not
   handshaking (nothing will ever flush them: parked_only_while_handshaking) *)
Definition rg_is_nil (l : list byte) : bool := match l with [] => true | _ => false end.
Definition rg_stranded (s : state) : bool :=
  negb (rg_is_nil (flat (ibr s) (ibq s)) && rg_is_nil (flat (obr s) (obq s)))
  && match st s with StH => false | _ => true end.
Definition rg_bad (ci si : list byte) (s : state) : bool :=
  negb (conserved_I_b ci s && conserved_O_b si s) || rg_stranded s.

(* ---- the three threads as deterministic programs over an abstract alphabet --------------
   For the schedule search the oracle choices of the labels are resolved by the CONTENT of
   the chunks, over a small alphabet: a server chunk holding byte 9 carries a trigger; a
   chunk holding 7 carries an end marker; 10 ends a line; a line holding 1 is a valid ACT
   (with 3: confirm), a line holding 2 a valid CFG; the relay's own lines are [101] (ACT),
   [102] (CFG), [103] (FAIL).  What a thread has to remember between two of its steps
   (end marker in the chunk just sent, action.Confirm) is [rg_mem].  The worker reads a line
   only when a complete one is parked (when it consumes the bytes is not observable). *)
Definition rg_has (x : N) (c : list byte) : bool := existsb (N.eqb x) c.
Fixpoint rg_line (l : list byte) : option nat :=
  match l with
  | [] => None
  | b :: r => if b =? 10 then Some 1%nat else match rg_line r with Some k => Some (S k) | None => None end
  end.

Record rg_mem := rg_mk_mem { rg_ie : bool; rg_oe : bool; rg_cf : bool }.
Definition rg_mem0 := rg_mk_mem false false false.
Inductive rg_thread := RgIn | RgOut | RgHs | RgTl.

Definition rg_next (th : rg_thread) (m : rg_mem) (s : state) : option (label * rg_mem) :=
  match th with
  | RgIn =>
      match ipc s with
      | I0 => match cin s with [] => None | _ => Some (LInRead, m) end
      | I1 _ => Some (LInLoad, m) | I3 _ => Some (LInLock, m) | I4 _ => Some (LInReload, m)
      | I4a _ => Some (LInAdd, m) | I4p => Some (LInUnlockP, m) | I4u _ _ => Some (LInUnlockU, m)
      | I5 c _ => Some (LInSend, rg_mk_mem (rg_has 7 c) (rg_oe m) (rg_cf m))
      | I6 _ => Some (LInEnd (rg_ie m), m)
      end
  | RgOut =>
      match opc s with
      | O0 => match sin s with [] => None | _ => Some (LOutRead, m) end
      | O1 _ => Some (LOutLoad, m) | O3 _ => Some (LOutLock, m) | O4 _ => Some (LOutReload, m)
      | O4a _ => Some (LOutAdd, m) | O4p => Some (LOutUnlockP, m) | O4u _ _ => Some (LOutUnlockU, m)
      | O5 c true => Some (LOutBypass, rg_mk_mem (rg_ie m) (rg_has 7 c) (rg_cf m))
      | O5 c false => Some (LOutDetect c (rg_has 9 c), m)
      | O5h _ _ => Some (LOutStoreH, m) | O5g _ _ => Some (LOutGo, m) | O5s _ _ => Some (LOutSend, m)
      | O6 => Some (LOutEnd (rg_oe m), m)
      end
  | RgHs =>
      match hpc s with
      | HN => None
      | H0 => match rg_line (flat (ibr s) (ibq s)) with
              | Some k => let line := firstn k (flat (ibr s) (ibq s)) in
                          Some (LHsAct k (if rg_has 1 line then RdOk else RdErr), rg_mk_mem (rg_ie m) (rg_oe m) (rg_has 3 line))
              | None => None end
      | H2 => Some (LHsSendAct [101] (rg_cf m), m)
      | H3 => match rg_line (flat (obr s) (obq s)) with
              | Some k => Some (LHsCfg k (if rg_has 2 (firstn k (flat (obr s) (obq s))) then RdOk else RdErr), m)
              | None => None end
      | H4 => Some (LHsSendCfg [102], m)
      | HF1 => Some (LHsFail1 [103], m) | HF2 => Some (LHsFail2 [103], m)
      | HL _ => Some (LHsLock, m) | HP1 _ => Some (LHsPopI, m) | HS1 _ _ => Some (LHsSendI, m)
      | HP2 _ => Some (LHsPopO, m) | HS2 _ _ => Some (LHsSendO, m) | HD _ => Some (LHsDone, m)
      end
  | RgTl => if tlk s then Some (LTlUnlock, m) else None
  end.

Definition rg_move (ug tm : bool) (th : rg_thread) (ms : rg_mem * state) : option (label * (rg_mem * state)) :=
  match rg_next th (fst ms) (snd ms) with
  | Some (l, m') => match rg_step ug tm l (snd ms) with Some s' => Some (l, (m', s')) | None => None end
  | None => None
  end.

(* back at the head of its loop (In, Out), finished (Hs), released (Tl) *)
Definition rg_at_head (th : rg_thread) (s : state) : bool :=
  match th with
  | RgIn => match ipc s with I0 => true | _ => false end
  | RgOut => match opc s with O0 => true | _ => false end
  | RgHs => match hpc s with HN => true | _ => false end
  | RgTl => negb (tlk s)
  end.

(* ==== where "handshaking" is published =====================================================
   wrapOutput stores kRelayHandshaking BEFORE it starts the worker and forwards the trigger to
   the client ("store status before send to client"): whatever the client answers is read by an
   input reader that already sees "handshaking".  The variant below carries the other
   possibility: the store is the FIRST statement of the worker goroutine ([late] = true), i.e.
   published asynchronously after the trigger has gone out.  The worker's publication step is
   not a label of [step_fn]; it is the extra label [RpPublish], and the extra state bit says
   that it is still pending.  Which of the two the CURRENT source has is regenerated from
   relay.go ([rp_current]). *)
Definition rp_current : bool := negb Consts.relay_handshaking_stored_by_reader.

Definition rp_state := (bool * state)%type.
Inductive rp_label := RpL (l : label) | RpPublish.

Definition rp_is_hs (l : label) : bool :=
  match l with
  | LHsAct _ _ | LHsSendAct _ _ | LHsCfg _ _ | LHsSendCfg _ | LHsFail1 _ | LHsFail2 _
  | LHsLock | LHsPopI | LHsSendI | LHsPopO | LHsSendO | LHsDone => true
  | _ => false
  end.

Definition rp_keep (pend : bool) (o : option state) : option rp_state :=
  match o with Some s => Some (pend, s) | None => None end.

Definition rp_step (late ug tm : bool) (x : rp_label) (ps : rp_state) : option rp_state :=
  let (pend, s) := ps in
  match x with
  | RpPublish => if pend then Some (false, set_st s StH) else None
  | RpL l =>
      if pend && rp_is_hs l then None else
      match l with
      | LOutStoreH =>
          if late then match opc s with O5h c c' => Some (pend, set_opc s (O5g c c')) | _ => None end
          else rp_keep pend (rg_step ug tm l s)
      | LOutGo => rp_keep late (rg_step ug tm l s)
      | _ => rp_keep pend (rg_step ug tm l s)
      end
  end.

Fixpoint rp_run (late ug tm : bool) (ls : list rp_label) (ps : rp_state) : option rp_state :=
  match ls with
  | [] => Some ps
  | l :: r => match rp_step late ug tm l ps with Some ps' => rp_run late ug tm r ps' | None => None end
  end.

(* the deterministic thread programs with the publication step *)
Definition rp_next (th : rg_thread) (m : rg_mem) (ps : rp_state) : option (rp_label * rg_mem) :=
  match th, fst ps with
  | RgHs, true => Some (RpPublish, m)
  | _, _ => match rg_next th m (snd ps) with Some (l, m') => Some (RpL l, m') | None => None end
  end.

Definition rp_move (late ug tm : bool) (th : rg_thread) (x : rg_mem * rp_state) : option (rp_label * (rg_mem * rp_state)) :=
  match rp_next th (fst x) (snd x) with
  | Some (l, m') => match rp_step late ug tm l (snd x) with Some ps' => Some (l, (m', ps')) | None => None end
  | None => None
  end.

Definition rp_at_head (th : rg_thread) (ps : rp_state) : bool :=
  match th with RgHs => negb (fst ps) && rg_at_head th (snd ps) | _ => rg_at_head th (snd ps) end.

(* bytes the relay holds: parked, in a reader's hand, popped by the worker *)
Definition rp_holds (s : state) : bool :=
  negb (rg_is_nil (flat (ibr s) (ibq s)) && rg_is_nil (flat (obr s) (obq s))
        && rg_is_nil (inflightI (ipc s)) && rg_is_nil (inflightO (opc s))
        && rg_is_nil (hs_flI (hpc s)) && rg_is_nil (hs_flO (hpc s))).
