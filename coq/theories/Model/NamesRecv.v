(* recvFiles (transfer.go): the loop over the announced entries and its bookkeeping of the
   local names that are reported to the user as saved (C07).  Executable definitions only.

   One [nr_record] is one iteration of the loop: the NAME message, and what arrives through
   the writer the name handling returned - the bytes of a regular file, or, for an archive
   record, the entry headers (each with the bytes of its file) that archiveFileWriter.Write
   finds in the data stream.  A directory record has no writer ([file == nil]) and therefore no
   SIZE / DATA / MD5 exchange.  The data exchange itself (C01, C02, C04) is not part of this
   model: an entry whose data exchange fails ends the transfer with an error, exactly as a
   refused name does, and nothing is reported. *)
From Coq Require Import ZArith.
From Trzsz Require Import Base.Bytes Gen.Consts Model.Path Model.Fs Model.Names.

(* if !containsString(localNames, localName) { localNames = append(localNames, localName) } *)
Definition nr_add_name (names : list name) (ln : name) : list name :=
  if existsb (list_eqb ln) names then names else names ++ [ln].

Record nr_record := {
  nr_raw : list N;                          (* payload of the NAME message *)
  nr_payload : list N;                      (* bytes of the file, if the record is a regular file *)
  nr_entries : list (list N * list N)       (* archive entry headers with their bytes, if it is an archive *)
}.

Inductive nr_kind := NrFile | NrDir | NrArchive.

Section NamesRecv.
  Variable decode : list N -> option src.

  (* which writer recvFileName / recvFileNameV3 returns for an accepted record *)
  Definition nr_kind_of (cfg : config) (raw : list N) : nr_kind :=
    match (if v3 cfg || directory cfg then decode raw else None) with
    | Some s => if s_archive s then NrArchive else if s_isdir s then NrDir else NrFile
    | None => NrFile
    end.

  (* the data stream of an archive record: header after header through createDirOrFile *)
  Fixpoint nr_entries_run (ck : checks) (cfg : config) (dest : path) (es : list (list N * list N))
      (st : state) : bool * state :=
    match es with
    | [] => (true, st)
    | (raw, pl) :: es' =>
      match step decode ck cfg dest (MEntry raw pl) st with
      | (NErr, st1) => (false, st1)
      | (NOk _, st1) => nr_entries_run ck cfg dest es' st1
      end
    end.

  (* the loop of recvFiles: None = the transfer failed (nil, err), nothing is reported *)
  Fixpoint nr_recv_files (ck : checks) (cfg : config) (dest : path) (rs : list nr_record)
      (st : state) (names : list name) : option (list name) * state :=
    match rs with
    | [] => (Some names, st)
    | r :: rs' =>
      match step decode ck cfg dest (MName (nr_raw r) (nr_payload r)) st with
      | (NErr, st1) => (None, st1)
      | (NOk ln, st1) =>
        let names' := nr_add_name names ln in
        match nr_kind_of cfg (nr_raw r) with
        | NrArchive =>
          match nr_entries_run ck cfg dest (nr_entries r) st1 with
          | (false, st2) => (None, st2)
          | (true, st2) => nr_recv_files ck cfg dest rs' st2 names'
          end
        | NrDir | NrFile => nr_recv_files ck cfg dest rs' st1 names'
        end
      end
    end.

  (* every entry header of an archive record carries the path id of the record itself (what
     the real sender produces; archive.go does not check it) *)
  Definition nr_own_record (cfg : config) (r : nr_record) : bool :=
    match nr_kind_of cfg (nr_raw r) with
    | NrArchive =>
      match decode (nr_raw r) with
      | Some s => forallb (fun e => match decode (fst e) with
                                    | Some se => Z.eqb (s_id se) (s_id s)
                                    | None => true      (* refused anyway *)
                                    end) (nr_entries r)
      | None => true
      end
    | _ => true
    end.
  Definition nr_own (cfg : config) (rs : list nr_record) : bool := forallb (nr_own_record cfg) rs.
End NamesRecv.

(* a whole receive with the current source / with explicit checks *)
Definition nr_run_gen (decode : list N -> option src) (ck : checks) (cfg : config) (dest : path)
    (rs : list nr_record) (f0 : fs) : option (list name) * state :=
  nr_recv_files decode ck cfg dest rs (init_state f0) [].
Definition nr_run decode := nr_run_gen decode code_checks.
