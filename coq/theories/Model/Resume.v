(* Model of append.go (prefix-hash resume of protocol >= 3: pipelineSendHash,
   pipelineRecvHashAck, sendPrefixHash, recvPrefixHash, recvFileNameV3) and of the
   truncate-and-rewrite path of protocol 2 (transfer.go recvFileName / doCreateFile),
   followed by the file writes of the data phase (the data is written from the file
   offset the name exchange left behind).  Executable definitions only.

   Files are byte lists; an absent destination and an empty one are the same to the
   code after os.OpenFile(O_RDWR|O_CREATE) and are both [].  Offsets/lengths that index
   the local files are nat; every number that arrives from the peer (hash.Step,
   hashAck.Step) is Z.  The digest is the string fmt.Sprintf("%x", md5) -- a byte list
   compared with ==; MD5 itself is the Section variable H. *)
From Trzsz Require Export Base.Bytes.
From Trzsz Require Import Gen.Consts.
From Coq Require Export ZArith.

Definition digest := list N.

(* prefixHash{Step, Hash, Over} *)
Inductive hmsg :=
| Hash (step : Z) (h : digest)
| Over.

(* prefixHashAck{Step, Match} *)
Record ack := mkAck { a_step : Z; a_match : bool }.

(* a regular file opened O_RDWR: content and the current offset *)
Record file := mkFile { f_data : list byte; f_off : nat }.

(* write(2) at the current offset; a hole left by a seek beyond the end reads as zeros *)
Definition f_write (f : file) (d : list byte) : file :=
  let c := f_data f in
  let o := f_off f in
  mkFile (firstn o c ++ repeat 0 (o - length c) ++ d ++ skipn (o + length d) c) (o + length d).

(* file.Seek(m, io.SeekStart); file.Truncate(m) (ftruncate: cut or zero-extend) *)
Definition f_seek (f : file) (m : nat) : file := mkFile (f_data f) m.
Definition f_truncate (f : file) (m : nat) : file :=
  mkFile (firstn m (f_data f) ++ repeat 0 (m - length (f_data f))) (f_off f).

Section Resume.
  Variable B : N.                       (* kPrefixHashStep *)
  Variable H : list byte -> digest.     (* fmt.Sprintf("%x", md5.Sum(...)) of everything written so far *)

  Definition Bn : nat := N.to_nat B.

  (* ---- pipelineSendHash --------------------------------------------------------
     loop state: step (= file offset, the file is read sequentially from 0) and the
     bytes written to the cumulative hasher.  [stops] is the number of iterations
     after which the goroutine observes stopNow = true (None: never) -- the only
     nondeterminism of the exchange.  The source file has at least [size] bytes
     (size = min(srcFile.Size, tgtFile.Size)), so file.Read fills the buffer.
     Fuel: one unit per iteration; [size] units are enough when B > 0 (with B = 0 the
     Go loop spins forever on zero-length reads; the model then reports OutOfFuel). *)
  Fixpoint send_hashes (fuel : nat) (stops : option nat) (src : list byte) (size step : nat)
           (fed : list byte) : option (list hmsg) :=
    if (step <? size)%nat && negb (match stops with Some O => true | _ => false end) then
      match fuel with
      | O => None
      | S fuel' =>
        let m := (size - step)%nat in
        (* min(m, kPrefixHashStep): the comparison is made on binary numbers so that evaluating the
           model does not build the block size (10 MiB) as a unary number for every small file *)
        let want := if (N.of_nat m <? B)%N then m else Bn in
        let buf := firstn want (skipn step src) in          (* n, err := file.Read(buf) *)
        let step' := (step + length buf)%nat in
        let fed' := fed ++ buf in                            (* hasher.Write(buf[:n]) *)
        match send_hashes fuel' (option_map pred stops) src size step' fed' with
        | Some r => Some (Hash (Z.of_nat step') (H fed') :: r)
        | None => None
        end
      end
    else Some [Over].

  (* ---- recvPrefixHash ------------------------------------------------------------
     [dst] is the destination file as it was opened (no O_TRUNC).  State: match flag,
     matchStep, bytes written to the cumulative hasher, file offset, acks sent so far. *)
  Record rstate := mkR { r_match : bool; r_mstep : Z; r_fed : list byte; r_off : nat; r_acks : list ack }.

  Definition r_init : rstate := mkR true 0%Z [] 0 [].

  Inductive rout :=
  | ROver (st : rstate)                 (* Over received: loop left *)
  | RBlocked (st : rstate)              (* waiting for the next HASH line *)
  | RInvalid (st : rstate) (hstep : Z)  (* "Invalid hash step": step <= 0 or step > kPrefixHashStep, refused before
                                           anything is allocated or answered (guard present: Consts.resume_step_guard) *)
  | RPanic (st : rstate) (n : Z)        (* only without the guard: make([]byte, n) with n < 0 panics, unrecovered *)
  | RReadErr (st : rstate) (alloc : Z). (* n bytes were allocated, then io.ReadFull hit EOF: error returned *)

  Fixpoint recv_hashes (dst : list byte) (msgs : list hmsg) (st : rstate) : rout :=
    match msgs with
    | [] => RBlocked st
    | Over :: _ => ROver st
    | Hash hstep h :: rest =>
      if negb (r_match st) then recv_hashes dst rest st          (* `continue`: nothing read, nothing answered *)
      else
        let step := (hstep - r_mstep st)%Z in
        if Consts.resume_step_guard && ((step <=? 0)%Z || (Z.of_N B <? step)%Z) then RInvalid st hstep
        else if (step <? 0)%Z then RPanic st step                 (* buffer := make([]byte, step) *)
        else if (Z.of_nat (r_off st) + step <=? Z.of_nat (length dst))%Z then
          let n := Z.to_nat step in
          let buf := firstn n (skipn (r_off st) dst) in           (* io.ReadFull(file, buffer) *)
          let fed' := r_fed st ++ buf in                          (* hasher.Write(buffer[:n]) *)
          let m := list_eqb h (H fed') in
          recv_hashes dst rest
            (mkR m (if m then hstep else r_mstep st) fed' (r_off st + n)
                 (r_acks st ++ [mkAck hstep m]))
        else RReadErr st step
    end.

  (* ---- pipelineRecvHashAck ------------------------------------------------------- *)
  Inductive sres :=
  | SDone (m : Z)       (* matchChan <- matchStep *)
  | SErr (m : Z)        (* "Hash step check [m] > [size]" *)
  | SBlocked.           (* waiting for the next SUCC line *)

  Fixpoint recv_acks (size : Z) (acks : list ack) (mstep : Z) : sres :=
    match acks with
    | [] => SBlocked
    | a :: rest =>
      if negb (a_match a) then SDone mstep
      else
        let mstep := a_step a in
        if (mstep =? size)%Z then SDone mstep
        else if (size <? mstep)%Z then SErr mstep
        else recv_acks size rest mstep
    end.

  (* pipelineRecvHashAck as called: with size = 0 no HASH line is sent, so no ack is awaited *)
  Definition recv_hash_acks (size : Z) (acks : list ack) : sres :=
    if (size =? 0)%Z then SDone 0%Z else recv_acks size acks 0%Z.

  (* ---- one file, both ends ------------------------------------------------------- *)
  Record outcome := mkOut {
    o_hashes : list hmsg;     (* HASH lines sent (incl. Over) *)
    o_acks : list ack;        (* SUCC lines answered to them *)
    o_mrecv : Z;              (* receiver's matchStep: Seek + Truncate there *)
    o_msend : Z;              (* sender's matchStep: Seek there, send the rest *)
    o_sent : list byte;       (* payload of the data phase *)
    o_final : list byte       (* destination content after the data phase *)
  }.

  Inductive result :=
  | Done (o : outcome)
  | SenderBlocked (hs : list hmsg) (acks : list ack)   (* ack reader waits for a SUCC that never comes *)
  | SenderErr (m : Z)
  | RecvFail (r : rout)
  | OutOfFuel.

  (* the destination file as opened by the receive path of the protocol *)
  Definition opened (proto : N) (dst : list byte) : list byte :=
    let truncate := if proto <? Consts.resume_min_protocol then Consts.resume_v2_truncate
                    else Consts.resume_v3_truncate in
    if truncate then [] else dst.

  Definition no_exchange (src dst0 : list byte) : result :=
    Done (mkOut [] [] 0%Z 0%Z src (f_data (f_write (mkFile dst0 0) src))).

  Definition run (proto : N) (stops : option nat) (src dst : list byte) : result :=
    let dst0 := opened proto dst in
    if proto <? Consts.resume_min_protocol then no_exchange src dst0            (* recvFileName / sendFileName *)
    else if (length dst0 =? 0)%nat then no_exchange src dst0                    (* tgtFile.Size <= 0 *)
    else
      let size := Nat.min (length src) (length dst0) in
      match send_hashes size stops src size 0 [] with
      | None => OutOfFuel
      | Some hs =>
        match recv_hashes dst0 hs r_init with
        | ROver st =>
          match recv_hash_acks (Z.of_nat size) (r_acks st) with
          | SDone ms =>
            let mr := Z.to_nat (r_mstep st) in
            let f := f_truncate (f_seek (mkFile dst0 (r_off st)) mr) mr in   (* receiver *)
            let sent := skipn (Z.to_nat ms) src in                             (* sender: Seek(ms), rest of the file *)
            Done (mkOut hs (r_acks st) (r_mstep st) ms sent (f_data (f_write f sent)))
          | SErr m => SenderErr m
          | SBlocked => SenderBlocked hs (r_acks st)
          end
        | r => RecvFail r
        end
      end.

  (* closed form of the agreed offset: B * (number of leading blocks whose cumulative
     digests are equal), capped at size = min(|src|, |dst|) *)
  Definition block_end (size i : nat) : nat := Nat.min (i * Bn) size.

  Fixpoint good_blocks (fuel : nat) (src dst : list byte) (size i : nat) : nat :=
    match fuel with
    | O => O
    | S fuel' =>
      if ((i * Bn <? size)%nat) &&
         list_eqb (H (firstn (block_end size (S i)) src)) (H (firstn (block_end size (S i)) dst))
      then S (good_blocks fuel' src dst size (S i)) else O
    end.

  Definition agreed (src dst : list byte) : nat :=
    let size := Nat.min (length src) (length dst) in
    block_end size (good_blocks size src dst size 0).
End Resume.

(* arithmetic closed form when the two files are known only by their lengths and the
   length cp of their common prefix (used for files too large to hand to the extracted
   model as lists): number of HASH lines of a complete exchange, the agreed offset,
   the acks, and the remaining size *)
Definition abs_nblocks (B size : N) : N := (size + B - 1) / B.
Definition abs_agreed (B size cp : N) : N := if size <=? cp then size else B * (cp / B).
Definition abs_good (B size cp : N) : N := if size <=? cp then abs_nblocks B size else cp / B.
(* SUCC lines answered: one per good block, plus the mismatch *)
Definition abs_nacks (B size cp : N) : N :=
  let g := abs_good B size cp in if g <? abs_nblocks B size then g + 1 else g.
(* k HASH lines were sent before Over: the hash sender may stop early only once the
   verdict (the first mismatch) has been produced *)
Definition abs_stops_ok (B size cp k : N) : bool :=
  let n := abs_nblocks B size in
  let g := abs_good B size cp in
  if g <? n then (g + 1 <=? k) && (k <=? n) else k =? n.

(* instances handed to extraction: H := identity (collision-free by construction) *)
Definition run_id (B : N) := run B (fun l => l).
Definition agreed_id (B : N) := agreed B (fun l => l).
