(* The receiver's name handling (C07, C09): comm.go getNewName / unmarshalSourceFile /
   checkFileName, transfer.go createFile / createDirOrFile / doCreateFile /
   doCreateDirectory / recvFileName / deleteCreatedFiles, append.go recvFileNameV3,
   archive.go archiveFileWriter.Write / newArchiveWriter.   Executable definitions only.

   All constants come from Gen.Consts (regenerated from the source on every run).  The
   functions take a [checks] argument saying where checkFileName is applied:
   [code_checks] is what the current source does, [no_checks] is the code before the
   validation existed (kept for the refutation and for running the correspondence
   against such a tree). *)
From Coq Require Import ZArith.
From Trzsz Require Import Base.Bytes Gen.Consts Model.Path Model.Fs.

(* ---- fmt.Sprintf("%d", i) for i >= 0 ---- *)
Fixpoint dec_aux (fuel : nat) (n : N) (acc : list N) : list N :=
  match fuel with
  | O => acc
  | S fuel' =>
    let acc' := (48 + n mod 10) :: acc in
    if n <? 10 then acc' else dec_aux fuel' (n / 10) acc'
  end.
Definition decimal (n : N) : list N := dec_aux (S (N.size_nat n)) n [].

(* fmt.Sprintf("%s.%d", name, i) *)
Definition candidate (nm : name) (i : N) : name := nm ++ [dot] ++ decimal i.

(* ---- getNewName ---- *)
Fixpoint find_fresh (f : fs) (dest : path) (nm : name) (i : N) (fuel : nat) : option name :=
  match fuel with
  | O => None
  | S fuel' =>
    match stat f (join dest [candidate nm i]) with
    | SNotExist => Some (candidate nm i)
    | _ => find_fresh f dest nm (i + 1) fuel'
    end
  end.

Definition get_new_name (f : fs) (dest : path) (nm : name) : option name :=
  if names_max_len <? name_len nm then None
  else match stat f (join dest [nm]) with
       | SNotExist => Some nm
       | _ => find_fresh f dest nm 0 (N.to_nat names_max_tries)
       end.

(* ---- checkFileName ---- *)
Definition valid_name (nm : name) : bool :=
  negb (existsb (list_eqb nm) names_reject_exact) &&
  negb (existsb (fun b => existsb (N.eqb b) names_reject_bytes) nm).

Record checks := { chk_unmarshal : bool; chk_create_file : bool }.
Definition code_checks : checks :=
  {| chk_unmarshal := names_check_in_unmarshal; chk_create_file := names_check_in_create_file |}.
Definition no_checks : checks := {| chk_unmarshal := false; chk_create_file := false |}.

(* ---- the decoded NAME record (sourceFile) ---- *)
Record src := { s_id : Z; s_rel : list name; s_isdir : bool; s_archive : bool }.

(* ---- transfer state ---- *)
Record state := {
  st_fs : fs;
  st_log : list effect;          (* every effect on the file system, in order *)
  st_created : list path;        (* createdFiles *)
  st_map : list (Z * name)       (* fileNameMap *)
}.

Record config := { overwrite : bool; directory : bool; v3 : bool }.

Inductive result := NOk (local : name) | NErr.

Definition init_state (f : fs) : state :=
  {| st_fs := f; st_log := []; st_created := []; st_map := [] |}.

Fixpoint map_get (m : list (Z * name)) (k : Z) : option name :=
  match m with
  | [] => None
  | (k', v) :: m' => if Z.eqb k' k then Some v else map_get m' k
  end.

(* doCreateFile: open (create) the file, record the path; the payload is what the
   caller then writes through the returned writer *)
Definition do_create_file (p : path) (trunc : bool) (pl : list N) (st : state) : bool * state :=
  match open_create (st_fs st) p trunc pl with
  | None => (false, st)
  | Some (f', es) =>
    (true, {| st_fs := f'; st_log := st_log st ++ es; st_created := st_created st ++ [p];
              st_map := st_map st |})
  end.

(* doCreateDirectory *)
Definition do_create_directory (p : path) (st : state) : bool * state :=
  match stat (st_fs st) p with
  | SNotExist =>
    match mkdir_all (st_fs st) p with
    | (ok, f', es) =>
      (ok, {| st_fs := f'; st_log := st_log st ++ es;
              st_created := if ok then st_created st ++ [p] else st_created st;
              st_map := st_map st |})
    end
  | SOther => (false, st)
  | SFound Dir => (true, st)
  | SFound (File _) => (false, st)
  end.

(* createFile *)
Definition create_file (ck : checks) (cfg : config) (dest : path) (nm : name) (trunc : bool)
    (pl : list N) (st : state) : result * state :=
  if chk_create_file ck && negb (valid_name nm) then (NErr, st) else
  match (if overwrite cfg then Some nm else get_new_name (st_fs st) dest nm) with
  | None => (NErr, st)
  | Some ln =>
    match do_create_file (join dest [ln]) trunc pl st with
    | (true, st') => (NOk ln, st')
    | (false, st') => (NErr, st')
    end
  end.

Definition set_map (st : state) (m : list (Z * name)) : state :=
  {| st_fs := st_fs st; st_log := st_log st; st_created := st_created st; st_map := m |}.

(* the last three steps of createDirOrFile, on the full path *)
Definition create_leaf (s : src) (full : path) (trunc : bool) (pl : list N) (ln : name)
    (st : state) : result * state :=
  if s_archive s then
    if negb (s_isdir s) then (NErr, st)          (* newArchiveWriter: not a directory *)
    else match do_create_directory full st with
         | (true, st') => (NOk ln, st')
         | (false, st') => (NErr, st')
         end
  else if s_isdir s then
    match do_create_directory full st with
    | (true, st') => (NOk ln, st')
    | (false, st') => (NErr, st')
    end
  else
    match do_create_file full trunc pl st with
    | (true, st') => (NOk ln, st')
    | (false, st') => (NErr, st')
    end.

(* createDirOrFile; [r0 :: rest] is RelPath (non-empty) *)
Definition create_dir_or_file (cfg : config) (dest : path) (s : src) (r0 : name) (rest : list name)
    (trunc : bool) (pl : list N) (st : state) : result * state :=
  let chosen :=
    if overwrite cfg then Some (r0, st)
    else match map_get (st_map st) (s_id s) with
         | Some v => Some (v, st)
         | None =>
           match get_new_name (st_fs st) dest r0 with
           | None => None
           | Some ln => Some (ln, set_map st ((s_id s, ln) :: st_map st))
           end
         end in
  match chosen with
  | None => (NErr, st)
  | Some (ln, st1) =>
    match rest with
    | [] => create_leaf s (join dest [ln]) trunc pl ln st1
    | _ :: _ =>
      let p := join dest (ln :: removelast rest) in
      match do_create_directory p st1 with
      | (false, st2) => (NErr, st2)
      | (true, st2) => create_leaf s (join p [last rest []]) trunc pl ln st2
      end
    end
  end.

(* unmarshalSourceFile (after json.Unmarshal, which is [decode]) + createDirOrFile *)
Definition recv_json (ck : checks) (cfg : config) (dest : path) (d : option src) (trunc : bool)
    (pl : list N) (st : state) : result * state :=
  match d with
  | None => (NErr, st)
  | Some s =>
    match s_rel s with
    | [] => (NErr, st)
    | r0 :: rest =>
      if chk_unmarshal ck && negb (forallb valid_name (r0 :: rest)) then (NErr, st)
      else create_dir_or_file cfg dest s r0 rest trunc pl st
    end
  end.

(* what the peer sends: a NAME message (raw string) or an archive entry header (raw
   string), each followed by the bytes written through the writer that is returned *)
Inductive msg :=
  | MName (raw : list N) (payload : list N)
  | MEntry (raw : list N) (payload : list N).

Section Recv.
  (* json.Unmarshal([]byte(raw), &sourceFile{}) : None = error *)
  Variable decode : list N -> option src.

  (* recvFileName / recvFileNameV3 / archiveFileWriter.Write *)
  Definition step (ck : checks) (cfg : config) (dest : path) (m : msg) (st : state) : result * state :=
    match m with
    | MName raw pl =>
      if v3 cfg then recv_json ck cfg dest (decode raw) false pl st
      else if directory cfg then recv_json ck cfg dest (decode raw) true pl st
      else create_file ck cfg dest raw true pl st
    | MEntry raw pl => recv_json ck cfg dest (decode raw) true pl st
    end.

  (* per message: the result and the effects of that message *)
  Fixpoint recv_msgs (ck : checks) (cfg : config) (dest : path) (ms : list msg) (st : state)
      : list (result * list effect) * state :=
    match ms with
    | [] => ([], st)
    | m :: ms' =>
      match step ck cfg dest m st with
      | (r, st1) =>
        match recv_msgs ck cfg dest ms' st1 with
        | (rs, st2) => ((r, skipn (length (st_log st)) (st_log st1)) :: rs, st2)
        end
      end
    end.
End Recv.

(* deleteCreatedFiles *)
Fixpoint delete_paths (ps : list path) (f : fs) : fs * list effect * list path :=
  match ps with
  | [] => (f, [], [])
  | p :: ps' =>
    match stat f p with
    | SNotExist => delete_paths ps' f
    | SOther => delete_paths ps' f                   (* RemoveAll fails, nothing removed *)
    | SFound _ =>
      match remove_all f p with
      | (f1, es1) =>
        match delete_paths ps' f1 with
        | (f2, es2, del) => (f2, es1 ++ es2, p :: del)
        end
      end
    end
  end.

Definition delete_created (st : state) : state * list path :=
  match delete_paths (st_created st) (st_fs st) with
  | (f', es, del) =>
    ({| st_fs := f'; st_log := st_log st ++ es; st_created := st_created st; st_map := st_map st |}, del)
  end.

(* a whole receive: the messages, then (on stop-and-delete) deleteCreatedFiles *)
Record outcome := {
  o_results : list (result * list effect);
  o_mid : state;                 (* after the messages *)
  o_final : state;               (* after the optional deletion *)
  o_deleted : list path
}.

Definition recv_names_gen (decode : list N -> option src) (ck : checks) (cfg : config) (dest : path)
    (ms : list msg) (del : bool) (f0 : fs) : outcome :=
  match recv_msgs decode ck cfg dest ms (init_state f0) with
  | (rs, st1) =>
    if del then
      match delete_created st1 with
      | (st2, dl) => {| o_results := rs; o_mid := st1; o_final := st2; o_deleted := dl |}
      end
    else {| o_results := rs; o_mid := st1; o_final := st1; o_deleted := [] |}
  end.

(* the current source *)
Definition recv_names decode := recv_names_gen decode code_checks.
(* the source before checkFileName existed *)
Definition recv_names_unfixed decode := recv_names_gen decode no_checks.
