(* Model of archive.go: newArchiveReader (size accounting), archiveFileReader.Read/Close,
   archiveFileWriter.Write/Close, driven through comm.go writeAll; the effects of
   transfer.go createDirOrFile/doCreateDirectory/doCreateFile (overwrite off, truncate on)
   on an abstract tree.  Executable definitions only.

   What is abstract: the header line of an entry.  [hdr m] is encodeString(json(sourceFile))
   and [parse] is decodeString + unmarshalSourceFile; both are Section variables (the proofs
   assume [parse (hdr m) = Some m] and that [hdr m] contains no newline).  For the
   correspondence run the harness passes the real header strings and [parse]/[hdr] are
   lookup tables built from them.

   What is not modelled: permissions; path cleaning by filepath.Join (names are assumed to be
   plain components: non-empty, no separator, not "." or ".."); entries whose PathID differs
   from the archive's (getNewName would pick another root); errors of Close and of the
   underlying file Write; short reads of the underlying os.File (a regular file returns
   min(len p, bytes left in the file), and (0, io.EOF) only when asked for >= 1 byte at its end). *)
From Trzsz Require Export Base.Bytes.
From Trzsz Require Import Gen.Consts.
From Coq Require Export ZArith.

Definition aname := list byte.
Definition apath := list aname.           (* RelPath[1:], i.e. relative to the archive root *)

Record ameta := mkAMeta { am_path : apath; am_dir : bool; am_size : Z }.
(* an entry on the sending side: what was scanned (meta) and what the file holds when read *)
Record aentry := mkAEntry { ae_meta : ameta; ae_data : list byte }.

Fixpoint apath_eqb (a b : apath) : bool :=
  match a, b with
  | [], [] => true
  | x :: a', y :: b' => list_eqb x y && apath_eqb a' b'
  | _, _ => false
  end.

(* ------------------------------------------------------------------------------------ *)
(* the abstract destination tree *)
Inductive anode := ADir | AFile (c : list byte).
Definition afs := list (apath * anode).     (* first binding wins *)

Fixpoint afs_lookup (t : afs) (p : apath) : option anode :=
  match t with
  | [] => None
  | (q, n) :: r => if apath_eqb q p then Some n else afs_lookup r p
  end.

(* file.Write on the handle of the file at p: appends in place *)
Fixpoint afs_append (t : afs) (p : apath) (x : list byte) : afs :=
  match t with
  | [] => []
  | (q, n) :: r =>
    if apath_eqb q p then (q, match n with AFile c => AFile (c ++ x) | ADir => ADir end) :: r
    else (q, n) :: afs_append r p x
  end.

(* doCreateDirectory = Stat, then MkdirAll when missing: every missing prefix becomes a
   directory; a prefix that is a file is an error and nothing is created *)
Fixpoint afs_mkdirs (t : afs) (pre rest : apath) : option afs :=
  match rest with
  | [] => Some t
  | c :: rest' =>
    let q := pre ++ [c] in
    match afs_lookup t q with
    | Some ADir => afs_mkdirs t q rest'
    | Some (AFile _) => None
    | None => afs_mkdirs ((q, ADir) :: t) q rest'
    end
  end.
Definition afs_mkdir_all (t : afs) (p : apath) : option afs := afs_mkdirs t [] p.

(* createDirOrFile(path, srcFile, truncate=true), overwrite off, PathID already mapped:
   parent directories, then the directory itself or the file (O_CREATE|O_TRUNC); returns
   the new tree and the open file (nil for a directory) *)
Definition afs_create (t : afs) (m : ameta) : option (afs * option apath) :=
  let p := am_path m in
  match afs_mkdir_all t (removelast p) with
  | None => None
  | Some t1 =>
    if am_dir m then
      match afs_mkdir_all t1 p with
      | None => None
      | Some t2 => Some (t2, None)
      end
    else
      match afs_lookup t1 p with
      | Some ADir => None
      | _ => Some ((p, AFile []) :: t1, Some p)
      end
  end.

(* the tree newArchiveWriter leaves: the archive's root directory *)
Definition afs0 : afs := [([], ADir)].

Definition ae_path (e : aentry) : apath := am_path (ae_meta e).
Definition ae_dir (e : aentry) : bool := am_dir (ae_meta e).
(* what a correct reader sends after the header line: the announced number of bytes *)
Definition apayload (e : aentry) : list byte :=
  if ae_dir e then [] else firstn (Z.to_nat (am_size (ae_meta e))) (ae_data e).

Section Archive.
Variable hdr : ameta -> list byte.
Variable parse : list byte -> option ameta.

Definition ANL : byte := Consts.archive_newline.          (* appended by the reader *)
Definition ASPLIT : byte := Consts.archive_split_byte.    (* searched by the writer *)

(* ------------------------------------------------------------------------------------ *)
(* newArchiveReader: the size announced for the whole stream *)
Fixpoint ar_total_size (es : list aentry) : Z :=
  match es with
  | [] => 0
  | e :: r =>
    let m := ae_meta e in
    (Z.of_nat (length (hdr m)) + Z.of_N Consts.archive_header_extra
     + (if am_dir m then 0 else am_size m) + ar_total_size r)%Z
  end.

(* what a correct reader produces: header line, then the payload *)
Definition astream1 (e : aentry) : list byte := hdr (ae_meta e) ++ ANL :: apayload e.
Definition astream (es : list aentry) : list byte := flat_map astream1 es.

(* ------------------------------------------------------------------------------------ *)
(* archiveFileReader *)
Record arstate := mkAR {
  ar_files : list aentry;          (* f.files[f.idx:] *)
  ar_src : option aentry;          (* f.src *)
  ar_buf : list byte;             (* f.buf: the reader's own copy of header+newline, never the caller's p *)
  ar_file : option (list byte);   (* f.file: the unread rest of the open file *)
  ar_left : Z;                    (* f.left *)
  ar_fds : nat;                   (* descriptors currently open *)
  ar_peak : nat                   (* the most ever open at once *)
}.

Inductive arres :=
| ArData (out : list byte)        (* (n, nil) *)
| ArEof                           (* (0, io.EOF) *)
| ArErrShrink                     (* "EOF but left <> 0" *)
| ArPanic                         (* p[:m] with m < 0 *)
| ArSpin.                         (* the for loop never ends (len(p) = 0 inside a file) *)

Inductive arstep := ArRet (r : arres) (st : arstate) | ArNext (st : arstate).

(* the part of the loop body after "if f.src == nil {...}" *)
Definition ar_cur (st : arstate) (size : nat) : arstep :=
  match ar_buf st with
  | _ :: _ =>
    let n := Nat.min size (length (ar_buf st)) in
    ArRet (ArData (firstn n (ar_buf st)))
        (mkAR (ar_files st) (ar_src st) (skipn n (ar_buf st)) (ar_file st) (ar_left st) (ar_fds st) (ar_peak st))
  | [] =>
    match ar_file st with
    | Some content =>
      let m := Z.min (Z.of_nat size) (ar_left st) in
      if (m <? 0)%Z then ArRet ArPanic st else
      let n := Nat.min (Z.to_nat m) (length content) in
      let eof := (0 <? m)%Z && negb (nonempty content) in
      let left' := (ar_left st - Z.of_nat n)%Z in
      if eof && negb (left' =? 0)%Z then
        ArRet ArErrShrink (mkAR (ar_files st) (ar_src st) [] (ar_file st) left' (ar_fds st) (ar_peak st))
      else
        let src' := if (left' =? 0)%Z then None else ar_src st in
        let st' := mkAR (ar_files st) src' [] (Some (skipn n content)) left' (ar_fds st) (ar_peak st) in
        match n with
        | S _ => ArRet (ArData (firstn n content)) st'
        | O => match src' with None => ArNext st' | Some _ => ArRet ArSpin st' end
        end
    | None => ArNext (mkAR (ar_files st) None [] None (ar_left st) (ar_fds st) (ar_peak st))
    end
  end.

(* "if f.src == nil {...}" followed by the rest of the body, repeated *)
Fixpoint ar_load (files : list aentry) (st : arstate) (size : nat) : arres * arstate :=
  match files with
  | [] => (ArEof, mkAR [] None (ar_buf st) (ar_file st) (ar_left st) (ar_fds st) (ar_peak st))
  | e :: rest =>
    let m := ae_meta e in
    let fds1 := match ar_file st with Some _ => pred (ar_fds st) | None => ar_fds st end in
    let file := if am_dir m then None else Some (ae_data e) in
    let fds2 := if am_dir m then fds1 else S fds1 in
    let st1 := mkAR rest (Some e) (hdr m ++ [ANL]) file (am_size m) fds2 (Nat.max (ar_peak st) fds2) in
    match ar_cur st1 size with
    | ArRet r st2 => (r, st2)
    | ArNext st2 => ar_load rest st2 size
    end
  end.

(* one call of Read(p), len(p) = size *)
Definition ar_read (st : arstate) (size : nat) : arres * arstate :=
  match ar_src st with
  | None => ar_load (ar_files st) st size
  | Some _ =>
    match ar_cur st size with
    | ArRet r st' => (r, st')
    | ArNext st' => ar_load (ar_files st') st' size
    end
  end.

Definition ar_init (es : list aentry) : arstate := mkAR es None [] None 0 0 0.

Definition ar_close (st : arstate) : arstate :=
  match ar_file st with
  | Some _ => mkAR (ar_files st) (ar_src st) (ar_buf st) None (ar_left st) (pred (ar_fds st)) (ar_peak st)
  | None => st
  end.

Definition ar_next_size (sizes : list nat) (dflt : nat) : nat * list nat :=
  match sizes with [] => (dflt, []) | s :: r => (s, r) end.

Inductive arend := ArEndEof | ArEndErr (r : arres) | ArEndFuel.

(* the caller's loop: Read until io.EOF or an error, buffers of the given sizes, then dflt *)
Fixpoint ar_run (fuel : nat) (st : arstate) (sizes : list nat) (dflt : nat)
  : list (list byte) * arend * arstate :=
  match fuel with
  | O => ([], ArEndFuel, st)
  | S f =>
    let '(size, sizes') := ar_next_size sizes dflt in
    match ar_read st size with
    | (ArData out, st') =>
      let '(outs, e, st'') := ar_run f st' sizes' dflt in (out :: outs, e, st'')
    | (ArEof, st') => ([], ArEndEof, st')
    | (r, st') => ([], ArEndErr r, st')
    end
  end.

Definition ar_fuel (es : list aentry) : nat :=
  S (length (flat_map (fun e => hdr (ae_meta e) ++ ANL :: ae_data e) es)).

Definition ar_reader_run (es : list aentry) (sizes : list nat) (dflt : nat) :=
  ar_run (ar_fuel es) (ar_init es) sizes dflt.

(* ------------------------------------------------------------------------------------ *)
(* archiveFileWriter *)
Record awstate := mkAW {
  aw_buf : list byte;             (* f.buf: the part of a header seen so far.  A VALUE: the writer owns a
                                     copy (append(f.buf, p...)), it does not keep the caller's slice.  Hence
                                     the model's result is a function of the byte values of the segments at
                                     the time of each Write only - exactly what C15_writer quantifies over -
                                     and no assumption on what the caller does with its buffer afterwards is
                                     needed.  The harness checks this of the code by reusing and scribbling
                                     over one backing array (oracle key roundtrip-tree:reused-buffer). *)
  aw_file : option apath;          (* f.file: the open file, by its path *)
  aw_left : Z;                    (* f.left *)
  aw_fs : afs;
  aw_fds : nat;
  aw_peak : nat
}.

Inductive awerr := AwEHeader | AwECreate | AwEWrite.   (* AwEWrite: the write to the entry's file failed *)
Inductive awres := AwOk (n : nat) (st : awstate) | AwErr (e : awerr) (st : awstate).

(* one call of Write(p).  [fixed] = the previous file is closed before the next entry is
   created (hooks/fix_archive.diff); without it f.file is simply overwritten. *)
Definition aw_write (fixed : bool) (st : awstate) (p : list byte) : awres :=
  match (0 <? aw_left st)%Z, aw_file st with
  | true, Some h =>
    let n := Z.to_nat (Z.min (aw_left st) (Z.of_nat (length p))) in
    AwOk n (mkAW (aw_buf st) (aw_file st) (aw_left st - Z.of_nat n)%Z
               (afs_append (aw_fs st) h (firstn n p)) (aw_fds st) (aw_peak st))
  | _, _ =>
    match index_byte ASPLIT p with
    | None => AwOk (length p) (mkAW (aw_buf st ++ p) (aw_file st) (aw_left st) (aw_fs st) (aw_fds st) (aw_peak st))
    | Some idx =>
      match parse (aw_buf st ++ firstn idx p) with
      | None => AwErr AwEHeader (mkAW [] (aw_file st) (aw_left st) (aw_fs st) (aw_fds st) (aw_peak st))
      | Some m =>
        let file1 := if fixed then None else aw_file st in
        let fds1 := if fixed then match aw_file st with Some _ => pred (aw_fds st) | None => aw_fds st end
                    else aw_fds st in
        match afs_create (aw_fs st) m with
        | None => AwErr AwECreate (mkAW [] file1 (aw_left st) (aw_fs st) fds1 (aw_peak st))
        | Some (t', f') =>
          let fds2 := match f' with Some _ => S fds1 | None => fds1 end in
          AwOk (idx + N.to_nat Consts.archive_write_extra)%nat (mkAW [] f' (am_size m) t' fds2 (Nat.max (aw_peak st) fds2))
        end
      end
    end
  end.

Inductive awall := AwDone (st : awstate) | AwFail (e : awerr) (st : awstate) | AwFuel.

(* comm.go writeAll: for m < l { n, err := dst.Write(data[m:]); ...; m += n } *)
Fixpoint aw_wa (fuel : nat) (fixed : bool) (st : awstate) (data : list byte) : awall :=
  match data with
  | [] => AwDone st
  | _ :: _ =>
    match fuel with
    | O => AwFuel
    | S f =>
      match aw_write fixed st data with
      | AwErr e st' => AwFail e st'
      | AwOk n st' => aw_wa f fixed st' (skipn n data)
      end
    end
  end.
Definition aw_write_all (fixed : bool) (st : awstate) (data : list byte) : awall :=
  aw_wa (length data) fixed st data.

(* pipelineSaveData: one writeAll per decoded chunk *)
Fixpoint aw_run (fixed : bool) (st : awstate) (ws : list (list byte)) : awall :=
  match ws with
  | [] => AwDone st
  | w :: r =>
    match aw_write_all fixed st w with
    | AwDone st' => aw_run fixed st' r
    | x => x
    end
  end.

Definition aw_init : awstate := mkAW [] None 0 afs0 0 0.

Definition aw_close (st : awstate) : awstate :=
  match aw_file st with
  | Some _ => mkAW (aw_buf st) None (aw_left st) (aw_fs st) (pred (aw_fds st)) (aw_peak st)
  | None => st
  end.

Definition aw_writer_run (fixed : bool) (ws : list (list byte)) : awall := aw_run fixed aw_init ws.
Definition writer_unfixed := aw_writer_run false.

(* ---- a destination that fails: [full h] = every write to the file at h fails (ENOSPC, EIO, a
   quota; /dev/full in the correspondence run).  file.Write returns (0, err) and Write hands that
   on: `n, err := f.file.Write(p[:m]); f.left -= n; return n, err` - an ERROR outcome with nothing
   consumed and the state unchanged, never (0, nil), on which writeAll would call Write again with
   the same bytes for ever. *)
Variable full : apath -> bool.

Definition aw_write_f (fixed : bool) (st : awstate) (p : list byte) : awres :=
  match (0 <? aw_left st)%Z, aw_file st with
  | true, Some h => if full h && nonempty p then AwErr AwEWrite st else aw_write fixed st p
  | _, _ => aw_write fixed st p
  end.

Fixpoint aw_wa_f (fuel : nat) (fixed : bool) (st : awstate) (data : list byte) : awall :=
  match data with
  | [] => AwDone st
  | _ :: _ =>
    match fuel with
    | O => AwFuel
    | S f =>
      match aw_write_f fixed st data with
      | AwErr e st' => AwFail e st'
      | AwOk n st' => aw_wa_f f fixed st' (skipn n data)
      end
    end
  end.
Definition aw_write_all_f (fixed : bool) (st : awstate) (data : list byte) : awall :=
  aw_wa_f (length data) fixed st data.
Fixpoint aw_run_f (fixed : bool) (st : awstate) (ws : list (list byte)) : awall :=
  match ws with
  | [] => AwDone st
  | w :: r =>
    match aw_write_all_f fixed st w with
    | AwDone st' => aw_run_f fixed st' r
    | x => x
    end
  end.
Definition aw_writer_run_f (fixed : bool) (ws : list (list byte)) : awall := aw_run_f fixed aw_init ws.

(* what is assumed of the header coding, for the entries at hand only: the writer's decoder
   inverts the reader's encoder, and an encoded header contains no newline *)
Definition hdr_ok (e : aentry) : Prop :=
  parse (hdr (ae_meta e)) = Some (ae_meta e) /\ ~ In ANL (hdr (ae_meta e)).

(* the same as a boolean, so that the correspondence run can evaluate it on the header
   strings the real encoder (marshalSourceFile + zlib + base64) produced and on what the real
   decoder (base64 + zlib + unmarshalSourceFile) made of them: [hdr] and [parse] are then the
   two tables of real results.  Nothing bounds the ratio length (json) / length (hdr m):
   the hypothesis covers headers that compress arbitrarily well. *)
Definition ameta_eqb (a b : ameta) : bool :=
  apath_eqb (am_path a) (am_path b) && Bool.eqb (am_dir a) (am_dir b) && (am_size a =? am_size b)%Z.
Definition ahdr_okb (e : aentry) : bool :=
  match parse (hdr (ae_meta e)) with
  | Some m => ameta_eqb m (ae_meta e)
  | None => false
  end && negb (existsb (N.eqb ANL) (hdr (ae_meta e))).

Definition aw_state_of (r : awall) : option awstate :=
  match r with AwDone st => Some st | AwFail _ st => Some st | AwFuel => None end.

(* ------------------------------------------------------------------------------------ *)
(* reference semantics of a list of entries on the tree: one createDirOrFile per entry,
   then its payload *)
Definition abuild1 (t : afs) (e : aentry) : option afs :=
  match afs_create t (ae_meta e) with
  | None => None
  | Some (t', Some h) => Some (afs_append t' h (apayload e))
  | Some (t', None) => Some t'
  end.
Fixpoint abuild (t : afs) (es : list aentry) : option afs :=
  match es with
  | [] => Some t
  | e :: r => match abuild1 t e with Some t' => abuild t' r | None => None end
  end.

End Archive.

(* ------------------------------------------------------------------------------------ *)
(* the tree a list of entries denotes, in closed form: the root, every entry, and every
   ancestor directory of an entry; nothing else *)
Fixpoint apath_prefix (p q : apath) : bool :=      (* p is a prefix of q (possibly equal) *)
  match p, q with
  | [], _ => true
  | x :: p', y :: q' => list_eqb x y && apath_prefix p' q'
  | _ :: _, [] => false
  end.
Definition apath_proper_prefix (p q : apath) : bool := apath_prefix p q && negb (apath_eqb p q).

Definition aspec_tree (es : list aentry) (p : apath) : option anode :=
  match p with
  | [] => Some ADir
  | _ =>
    match find (fun e => apath_eqb (ae_path e) p) es with
    | Some e => Some (if ae_dir e then ADir else AFile (apayload e))
    | None => if existsb (fun e => apath_proper_prefix p (ae_path e)) es then Some ADir else None
    end
  end.

(* entries as a directory scan yields them: no path twice, no entry below a file, none is
   the root itself *)
Definition awf_tree (es : list aentry) : Prop :=
  NoDup (map ae_path es) /\
  (forall e, In e es -> ae_path e <> []) /\
  (forall e e', In e es -> In e' es -> ae_dir e = false -> apath_proper_prefix (ae_path e) (ae_path e') = false).

(* no file is shorter than announced (it may have grown: only the announced prefix is sent) *)
Definition aentry_ok (e : aentry) : bool :=
  ae_dir e || ((0 <=? am_size (ae_meta e))%Z && (am_size (ae_meta e) <=? Z.of_nat (length (ae_data e)))%Z).
Definition aentry_exact (e : aentry) : bool :=
  ae_dir e || (am_size (ae_meta e) =? Z.of_nat (length (ae_data e)))%Z.
(* a file shorter than announced; an announced size that is not negative *)
Definition ashort (e : aentry) : bool :=
  negb (ae_dir e) && (Z.of_nat (length (ae_data e)) <? am_size (ae_meta e))%Z.
Definition anonneg (e : aentry) : bool := ae_dir e || (0 <=? am_size (ae_meta e))%Z.
