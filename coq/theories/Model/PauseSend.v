(* Pause / resume (C18), fourth part: the wire sender goroutine of pipelineSendData at CHUNK granularity.

   pipeline.go   pipelineSendData:  for data := range sendDataChan {
                                       bufSize := t.bufferSize.Load()
                                       if len(data.data) <= bufSize { deliver(data.buffer, len, encoded) ; continue }   -- whole frame
                                       for data.index < len(data.data) {                                                -- split and send
                                           bufSize := t.bufferSize.Load(); if bufSize > left { bufSize = left }
                                           deliver(data.data[index:index+bufSize], bufSize, not encoded); index += bufSize } }
                 deliver = sendDataV2 (checkStopAndPause("DATA"), then the write) ; ackChan <- ack   (blocks while the window is full)

   An encoded block that is still queued (up to 5 in sendDataChan, one in the encoder) when the chunk size shrinks
   -- pipelineRecvAck divides t.bufferSize after an acknowledgement that took >= 2 s -- is cut into several chunks.
   The pause check sits in sendDataV2, i.e. in front of EVERY chunk: the whole frame, each piece of a re-split block,
   the zero-length finish chunk.  (The composition machines of Model/Pause.v number the chunks 0,1,2,...: their
   "frames" are the chunks this machine produces; [bs_to_cs] is the projection.)

   Byte counts are N; sleeps and the window are nat.  Executable definitions only. *)
From Trzsz Require Export Base.Bytes.
From Trzsz Require Import Gen.Consts Model.Pause.

(* where the goroutine is *)
Inductive bsph :=
| BSTake                                              (* at `for data := range sendDataChan` *)
| BSSplit (len idx : N)                               (* top of the split loop: idx of len bytes of the block sent *)
| BSIn (whole : bool) (len idx piece : N) (p : sphase) (* inside sendDataV2 for a chunk of [piece] bytes *)
| BSPush (whole : bool) (len idx piece : N)            (* chunk written; `ackChan <- ack` *)
| BSDone.                                             (* channel closed and drained, or cancelled *)

Inductive bout :=
| BOKeep                                  (* "#DATA:=" *)
| BOChunk (whole : bool) (piece : N)      (* a DATA chunk: the encoded block as it is, or a piece cut out of it *)
| BOStopErr.

Inductive bev :=
| BTick | BPauseEv | BResumeEv | BStopEv
| BSetBuf (n : N)        (* pipelineRecvAck stores a new t.bufferSize *)
| BEnqueue (len : N)     (* the encoder hands over a block of len bytes *)
| BClose                 (* the encoder closes sendDataChan *)
| BAckTake               (* the ack reader takes one entry from ackChan *)
| BNext | BCall | BWrite | BPush.   (* the goroutine's own moves *)

Record bsd := mkBsd {
  bd_pausing : bool;
  bd_stopped : bool;
  bd_queue : list N;     (* sendDataChan: data lengths of the queued blocks *)
  bd_closed : bool;
  bd_buf : N;            (* t.bufferSize *)
  bd_ph : bsph;
  bd_cnt : nat }.        (* len(ackChan) *)

Definition bd_set (s : bsd) (q : list N) (p : bsph) (c : nat) : bsd :=
  mkBsd (bd_pausing s) (bd_stopped s) q (bd_closed s) (bd_buf s) p c.

(* after the ack of a chunk has been pushed *)
Definition bs_after_push (whole : bool) (len idx piece : N) : bsph :=
  if whole then BSTake
  else if (idx + piece <? len)%N then BSSplit len (idx + piece)%N else BSTake.

Section Send.
Variable cf : cfg.
Variable W : nat.       (* capacity of ackChan *)

(* the gate of sendDataV2 moves by gate event e; a stop error cancels the pipeline *)
Definition bs_gate (s : bsd) (whole : bool) (len idx piece : N) (p : sphase) (e : sev) : bsd * list bout :=
  let '(p', ws) := sphase_step cf (bd_pausing s) (bd_stopped s) p e in
  let outs := map (fun w => match w with WKeep => BOKeep | WFrame => BOChunk whole piece | WStopErr => BOStopErr end) ws in
  match ws with
  | [WStopErr] => (bd_set s (bd_queue s) BSDone (bd_cnt s), outs)
  | _ =>
    match p', e with
    | SIdle, SWrite => (bd_set s (bd_queue s) (BSPush whole len idx piece) (bd_cnt s), outs)
    | _, _ => (bd_set s (bd_queue s) (BSIn whole len idx piece p') (bd_cnt s), outs)
    end
  end.

Definition bstep (s : bsd) (e : bev) : bsd * list bout :=
  match e with
  | BPauseEv => (mkBsd true (bd_stopped s) (bd_queue s) (bd_closed s) (bd_buf s) (bd_ph s) (bd_cnt s), [])
  | BResumeEv => (mkBsd false (bd_stopped s) (bd_queue s) (bd_closed s) (bd_buf s) (bd_ph s) (bd_cnt s), [])
  | BStopEv => (mkBsd (bd_pausing s) true (bd_queue s) (bd_closed s) (bd_buf s) (bd_ph s) (bd_cnt s), [])
  | BSetBuf n => (mkBsd (bd_pausing s) (bd_stopped s) (bd_queue s) (bd_closed s) n (bd_ph s) (bd_cnt s), [])
  | BEnqueue len =>
    if bd_closed s then (s, []) else (bd_set s (bd_queue s ++ [len]) (bd_ph s) (bd_cnt s), [])
  | BClose => (mkBsd (bd_pausing s) (bd_stopped s) (bd_queue s) true (bd_buf s) (bd_ph s) (bd_cnt s), [])
  | BAckTake => match bd_cnt s with S c => (bd_set s (bd_queue s) (bd_ph s) c, []) | O => (s, []) end
  | BNext =>
    match bd_ph s with
    | BSTake =>
      match bd_queue s with
      | len :: q =>
        if (len <=? bd_buf s)%N then (bd_set s q (BSIn true len 0 len SIdle) (bd_cnt s), [])     (* send all at once *)
        else (bd_set s q (BSSplit len 0) (bd_cnt s), [])                                         (* split and send *)
      | [] => if bd_closed s then (bd_set s [] BSDone (bd_cnt s), []) else (s, [])
      end
    | BSSplit len idx =>
      let piece := N.min (bd_buf s) (len - idx)%N in
      (bd_set s (bd_queue s) (BSIn false len idx piece SIdle) (bd_cnt s), [])
    | _ => (s, [])
    end
  | BCall =>
    match bd_ph s with
    | BSIn whole len idx piece SIdle => bs_gate s whole len idx piece SIdle SCall
    | _ => (s, [])
    end
  | BTick =>
    match bd_ph s with
    | BSIn whole len idx piece (SSleep j) => bs_gate s whole len idx piece (SSleep j) STick
    | _ => (s, [])
    end
  | BWrite =>
    match bd_ph s with
    | BSIn whole len idx piece SPassed => bs_gate s whole len idx piece SPassed SWrite
    | _ => (s, [])
    end
  | BPush =>
    match bd_ph s with
    | BSPush whole len idx piece =>
      if (bd_cnt s <? W)%nat then (bd_set s (bd_queue s) (bs_after_push whole len idx piece) (S (bd_cnt s)), [])
      else (s, [])
    | _ => (s, [])
    end
  end.

Fixpoint brun (s : bsd) (es : list bev) : bsd * list bout :=
  match es with
  | [] => (s, [])
  | e :: es' => let '(s1, o) := bstep s e in let '(s2, os) := brun s1 es' in (s2, o ++ os)
  end.

End Send.

Definition bs_init (buf : N) : bsd := mkBsd false false [] false buf BSTake O.

Definition bs_chunks (os : list bout) : list N :=
  flat_map (fun o => match o with BOChunk _ n => [n] | _ => [] end) os.
Definition bs_count_chunks (os : list bout) : nat := length (bs_chunks os).

(* past the pause check, chunk not yet written *)
Definition bs_passed (p : bsph) : nat := match p with BSIn _ _ _ _ SPassed => 1 | _ => 0 end.

(* the projection to the sender phases of the composition machines, k = chunks pushed so far *)
Definition bs_to_cs (k : nat) (p : bsph) : csph :=
  match p with
  | BSTake | BSSplit _ _ => CSGate k
  | BSIn _ _ _ _ SIdle => CSGate k
  | BSIn _ _ _ _ q => CSIn k q
  | BSPush _ _ _ _ => CSPush k
  | BSDone => CSDone
  end.
