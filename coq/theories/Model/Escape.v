(* Model of escape.go (escapeData, unescapeData, escapeCharsToTable, getEscapeChars)
   and of pipeline.go's escapeReader / escapeWriter.  Executable definitions only. *)
From Trzsz Require Export Base.Bytes.
From Trzsz Require Import Gen.Consts.

Definition leader : byte := Consts.escape_leader.

(* A table is the list of (source byte, code byte) pairs in announcement order.
   escapeCharsToTable fills two 256-entry arrays in that order, so a later pair
   overwrites an earlier one: lookups are last-writer-wins. *)
Definition table := list (byte * byte).

Fixpoint esc_code (t : table) (b : byte) : option byte :=
  match t with
  | [] => None
  | (s, c) :: r =>
    match esc_code r b with
    | Some x => Some x
    | None => if s =? b then Some c else None
    end
  end.

Fixpoint unesc_code (t : table) (c : byte) : option byte :=
  match t with
  | [] => None
  | (s, c') :: r =>
    match unesc_code r c with
    | Some x => Some x
    | None => if c' =? c then Some s else None
    end
  end.

(* escapeData: with an empty table (totalCount = 0) every lookup is None, i.e. identity *)
Fixpoint escape (t : table) (d : list byte) : list byte :=
  match d with
  | [] => []
  | b :: r =>
    match esc_code t b with
    | Some c => leader :: c :: escape t r
    | None => b :: escape t r
    end
  end.

Inductive ures :=
| UOk (out rem : list byte)
| UErr (code : byte).

Definition ucons (b : byte) (r : ures) : ures :=
  match r with UOk o rem => UOk (b :: o) rem | UErr c => UErr c end.

(* unescapeData with a non-empty table.  [room] = len(buf) - idx, the space left in
   the destination; it is >= 1 whenever the loop body runs (dst of length 0 is replaced
   by a buffer of len(data)).  A lone trailing leader is returned as remaining; when
   the destination fills up the rest of the input is returned as remaining. *)
Fixpoint unesc (t : table) (data : list byte) (room : nat) : ures :=
  match data with
  | [] => UOk [] []
  | b :: r =>
    if b =? leader then
      match r with
      | [] => UOk [] [b]
      | c :: r' =>
        match unesc_code t c with
        | None => UErr c
        | Some s =>
          match room with
          | O | S O => UOk [s] r'
          | S room' => ucons s (unesc t r' room')
          end
        end
      end
    else
      match room with
      | O | S O => UOk [b] r
      | S room' => ucons b (unesc t r room')
      end
  end.

(* unescapeData as called: table == nil || totalCount == 0 returns the data untouched;
   dstlen = 0 means "allocate len(data)" *)
Definition unescape_data (t : table) (data : list byte) (dstlen : nat) : ures :=
  match t with
  | [] => UOk data []
  | _ => unesc t data (match dstlen with O => length data | _ => dstlen end)
  end.

(* ---- escapeReader (pipeline.go) ----
   state: e.buffer (the not yet unescaped input) and the chunks the underlying reader
   will still deliver (one chunk per underlying Read; EOF when exhausted). *)
Inductive rres :=
| RData (out : list byte)
| REof
| RErr (code : byte).

(* one call of escapeReader.Read(p) with len(p) = size >= 1, non-empty table.
   The underlying reader delivers the chunks of [cs] one per call (the harness keeps
   every chunk below the 32 KiB internal buffer), then io.EOF. *)
Fixpoint er_read (t : table) (buffer : list byte) (cs : list (list byte)) (size : nat)
  : rres * (list byte * list (list byte)) :=
  match (match buffer with [] => UOk [] [] | _ => unesc t buffer size end) with
  | UErr c => (RErr c, (buffer, cs))
  | UOk out rem =>
    match out with
    | _ :: _ => (RData out, (rem, cs))
    | [] =>
      match cs with
      | [] => (REof, (rem, []))
      | c :: cs' => er_read t (rem ++ c) cs' size
      end
    end
  end.

(* size of the i-th caller buffer: taken from [sizes], then [dflt] for ever *)
Definition next_size (sizes : list nat) (dflt : nat) : nat * list nat :=
  match sizes with [] => (dflt, []) | s :: r => (s, r) end.

(* read until EOF or error; result: everything delivered, and how it ended *)
Inductive rend := EndEof (leftover : list byte) | EndErr (code : byte) | EndFuel.

Fixpoint er_run (fuel : nat) (t : table) (buffer : list byte) (cs : list (list byte))
                (sizes : list nat) (dflt : nat) : list (list byte) * rend :=
  match fuel with
  | O => ([], EndFuel)
  | S f =>
    let '(size, sizes') := next_size sizes dflt in
    match er_read t buffer cs size with
    | (RData out, (b', cs')) =>
      let '(outs, e) := er_run f t b' cs' sizes' dflt in (out :: outs, e)
    | (REof, (b', _)) => ([], EndEof b')
    | (RErr c, _) => ([], EndErr c)
    end
  end.

Definition er_fuel (buffer : list byte) (cs : list (list byte)) : nat :=
  S (length buffer + length (concat cs)).

(* escapeWriter.Write: each written chunk is escaped on its own and handed on whole *)
Definition ew_write (t : table) (chunks : list (list byte)) : list (list byte) :=
  map (escape t) chunks.

(* ---- escapeCharsToTable ----
   Input: the decoded JSON array, already of shape array-of-arrays-of-strings; a
   string is its list of code points.  ISO 8859-1 encoding fails on code points > 255. *)
Definition latin1 (s : list N) : option (list byte) :=
  if forallb (fun c => c <? 256) s then Some s else None.

Fixpoint table_of_json (js : list (list (list N))) : option table :=
  match js with
  | [] => Some []
  | e :: r =>
    match e with
    | [a; b] =>
      match latin1 a, latin1 b with
      | Some [s], Some [l; c] =>
        if l =? leader then
          match table_of_json r with Some t => Some ((s, c) :: t) | None => None end
        else None
      | _, _ => None
      end
    | _ => None
    end
  end.
(* NB: the Go loop fills the arrays front to back, so the LAST pair for a byte wins;
   esc_code/unesc_code look through the tail first for the same reason, but then the
   list must be kept in announcement order: *)

(* getEscapeChars(escapeAll) as JSON value *)
Fixpoint escape_all_pairs (chars : list N) (code : N) : list (list (list N)) :=
  match chars with
  | [] => []
  | c :: r => [[c]; [leader; code]] :: escape_all_pairs r (code + 1)
  end.

Definition builtin_json (escape_all : bool) : list (list (list N)) :=
  map (fun p => [fst p; snd p]) Consts.escape_base_json ++
  (if escape_all then escape_all_pairs Consts.escape_all_chars Consts.escape_all_first_code else []).

Definition builtin_table (escape_all : bool) : table :=
  match table_of_json (builtin_json escape_all) with Some t => t | None => [] end.

(* ---- well-formedness, as boolean predicates over the 256 byte values ---- *)
(* every byte either has a code that decodes back to it, or is sent raw and is not the leader *)
Definition wf_byte (t : table) (b : byte) : bool :=
  match esc_code t b with
  | Some c => match unesc_code t c with Some s => s =? b | None => false end
  | None => negb (b =? leader)
  end.
Definition wf (t : table) : bool := forallb (wf_byte t) all_bytes.

(* bytes the table promises to keep off the wire: every source except the leader *)
Definition protected (t : table) (b : byte) : bool :=
  match esc_code t b with Some _ => negb (b =? leader) | None => false end.
Definition is_code (t : table) (c : byte) : bool := existsb (fun p => snd p =? c) t.
(* no code byte is itself protected *)
Definition clean (t : table) : bool :=
  forallb (fun b => negb (protected t b && is_code t b)) all_bytes.

(* ---- escapeReader with an EMPTY announced table (totalCount = 0): Read hands the caller's
   buffer straight to the underlying reader, which fills it with at most len(p) bytes of
   its current chunk and keeps the rest ---- *)
Fixpoint er_run_passthru (fuel : nat) (cs : list (list byte)) (sizes : list nat) (dflt : nat)
  : list (list byte) :=
  match fuel with
  | O => []
  | S f =>
    let '(size, sizes') := next_size sizes dflt in
    match cs with
    | [] => []
    | c :: cs' =>
      if (length c <=? size)%nat then c :: er_run_passthru f cs' sizes' dflt
      else firstn size c :: er_run_passthru f (skipn size c :: cs') sizes' dflt
    end
  end.
Definition er_passthru_fuel (cs : list (list byte)) : nat := S (length (concat cs) + length cs).
