(* Pause / resume (C18), second part: the DOWNLOAD direction and the phases after the last DATA frame.

   pipeline.go   pipelineRecvData (our data reader: recvCheckV2("DATA"), pausing loop), pipelineSendAck (our
                 acker: checkStopAndPause("SUCC") in front of every "#SUCC:len/step", then the final-ack loop:
                 gate, "#SUCC:step", 200 ms poll), pipelineSendData / pipelineRecvAck on the PEER (wire sender,
                 ack window, ack reader on its timer), pipelineRecvFinalAck (our ack reader after the last
                 frame), pipelineSaveData (ackImmediately)
   transfer.go   recvFileMD5 / sendFileMD5 (plain timed reads, no pause handling)

   Same conventions as Model/Pause.v: time is a sequence of ticks, everything else happens between ticks,
   latency 0, the peer never pauses (only the client has the prompt).  Three machines:

   (d) [ystep]   download, data phase: the peer's wire sender PS with its ack window, our data reader D
                 (pausing loop, read timer), our acker K (gate, keep-alives "#SUCC:="), the peer's ack reader
                 PA on its timer.  K emits keep-alives only while it HOLDS an acknowledgement; when every
                 frame D returned has been acknowledged K waits on its channel and the peer hears nothing.
   (e) [ustep]   upload, after the last DATA frame: the peer's acker polls (a "#SUCC:step" every FP ticks
                 until its disk has everything, then the final one), our ack reader FA loops in
                 pipelineRecvFinalAck (pausing loop in front of every read), our main goroutine sends the MD5
                 line when FA saw the final ack; the peer's main goroutine waits for that line with a PLAIN
                 timed read (no keep-alive is ever sent for it).
   (f) [vstep]   download, after the last DATA frame: our acker in its final loop (gate, "#SUCC:step", poll
                 wait), the peer's pipelineRecvFinalAck on its timer.  Our acker always has something to say, so
                 it emits a line every max(gate sleep, poll) ticks whatever the pause length.

   Each machine exists twice, as in Model/Pause.v: built from the reader machine [rstep] (concrete: ydstep,
   udstep, vdstep) and with the readers replaced by their abstractions (ystep, ustep, vstep), related by
   [yabs], [uabs], [vabs].  Executable definitions only. *)
From Trzsz Require Export Base.Bytes.
From Trzsz Require Import Gen.Consts Model.Pause.

(* ---------- abstractions of the two kinds of reader ---------- *)

(* our reader (may sit in the pausing loop): idle / asleep in the loop, j ticks left / blocked, t ticks left *)
Inductive oph := OIdle | OGate (j : nat) | ORead (t : nat).

(* our acker in the data phase *)
Inductive kph :=
| KIdle                          (* waiting on its channel *)
| KHave (k : nat)                (* took the length of frame k, about to call checkStopAndPause *)
| KIn (k : nat) (p : sphase).    (* inside the gate / past it, "#SUCC:len/step" not yet written *)

Inductive yev := YTick | YPause | YResume | YPSCall | YPSWrite | YPSPush | YPATake | YDCall | YKTake | YKCall | YKWrite.

(* ---------- (d) download, data phase: abstract machine ---------- *)

Record bst := mkB {
  yPausing : bool;
  yPS : csph;            (* the peer's wire sender (its gate never sleeps) *)
  yPcnt : nat;           (* len(ackChan) on the peer *)
  yD : oph;              (* our data reader *)
  yDq : list nat;        (* server -> client wire: DATA frames not yet read *)
  yDeliv : list nat;     (* frames our reader returned, in order *)
  yK : kph;              (* our acker *)
  yKq : list nat;        (* our ackChan *)
  yPA : rph;             (* the peer's ack reader *)
  yPAq : list wline;     (* client -> server wire: keep-alives and acknowledgements not yet read *)
  yPacked : nat;         (* acknowledgements the peer's reader returned *)
  yBad : bool;
  yEp : epi }.

Section Down.
Variable cf : cfg.
Variable n : nat.       (* number of DATA frames (the last one is the empty finish frame) *)
Variable W : nat.       (* capacity of the peer's ackChan *)
Variable P : nat.       (* budget: ticks an episode of pausing may last *)

Definition y_setPS (b : bst) (p : csph) (c : nat) : bst :=
  mkB (yPausing b) p c (yD b) (yDq b) (yDeliv b) (yK b) (yKq b) (yPA b) (yPAq b) (yPacked b) (yBad b) (yEp b).
Definition y_setD (b : bst) (p : oph) (q : list nat) : bst :=
  mkB (yPausing b) (yPS b) (yPcnt b) p q (yDeliv b) (yK b) (yKq b) (yPA b) (yPAq b) (yPacked b) (yBad b) (yEp b).
Definition y_setK (b : bst) (p : kph) (q : list nat) : bst :=
  mkB (yPausing b) (yPS b) (yPcnt b) (yD b) (yDq b) (yDeliv b) p q (yPA b) (yPAq b) (yPacked b) (yBad b) (yEp b).
Definition y_setPA (b : bst) (p : rph) (q : list wline) (acked : nat) : bst :=
  mkB (yPausing b) (yPS b) (yPcnt b) (yD b) (yDq b) (yDeliv b) (yK b) (yKq b) p q acked (yBad b) (yEp b).
Definition y_bad (b : bst) : bst :=
  mkB (yPausing b) (yPS b) (yPcnt b) (yD b) (yDq b) (yDeliv b) (yK b) (yKq b) (yPA b) (yPAq b) (yPacked b) true (yEp b).
Definition y_flags (b : bst) (pa : bool) (e : epi) : bst :=
  mkB pa (yPS b) (yPcnt b) (yD b) (yDq b) (yDeliv b) (yK b) (yKq b) (yPA b) (yPAq b) (yPacked b) (yBad b) e.

(* our reader returns frame k: handed to the decoder and its length pushed to our ackChan (capacity 100,
   never full: at most W + 2 frames are unacknowledged) *)
Definition y_deliver (b : bst) (p : oph) (q : list nat) (k : nat) : bst :=
  mkB (yPausing b) (yPS b) (yPcnt b) p q (yDeliv b ++ [k]) (yK b) (yKq b ++ [k]) (yPA b) (yPAq b) (yPacked b) (yBad b) (yEp b).

(* a DATA frame reaches our side *)
Definition y_darrive (b : bst) (k : nat) : bst :=
  match yD b with
  | ORead _ => y_deliver b OIdle [] k
  | p => y_setD b p (yDq b ++ [k])
  end.

(* our reader leaves (or skips) the pausing loop and reads *)
Definition y_dcall (b : bst) : bst :=
  if yPausing b then y_setD b (OGate (cSL cf)) (yDq b)
  else match yDq b with
       | k :: q => y_deliver b OIdle q k
       | [] => y_setD b (ORead (cT cf)) []
       end.

(* a line from our acker reaches the peer *)
Definition y_paarrive (b : bst) (l : wline) : bst :=
  match yPA b with
  | RIdle => y_setPA b RIdle (yPAq b ++ [l]) (yPacked b)
  | RRead _ =>
    match l with
    | WLKeep => y_setPA b (RRead (cT cf)) (yPAq b) (yPacked b)
    | WLData _ => y_setPA b RIdle (yPAq b) (S (yPacked b))
    end
  end.

(* the peer's ack reader calls recvCheckV2 *)
Definition y_pacall (b : bst) : bst :=
  match first_data (yPAq b) with
  | None => y_setPA b (RRead (cT cf)) [] (yPacked b)
  | Some (_, q') => y_setPA b RIdle q' (S (yPacked b))
  end.

(* checkStopAndPause("SUCC") from its loop condition, holding the acknowledgement of frame k *)
Definition y_kgate (b : bst) (k : nat) : bst :=
  if yPausing b then y_paarrive (y_setK b (KIn k (SSleep (cGL cf))) (yKq b)) WLKeep
  else y_setK b (KIn k SPassed) (yKq b).

Definition y_live (b : bst) : bool := (length (yDeliv b) <? n)%nat.

Definition y_quiescent (b : bst) : bool :=
  match yPS b with
  | CSPush _ => (W <=? yPcnt b)%nat
  | CSDone => true
  | _ => false
  end
  && negb (match yPA b with RIdle => (0 <? yPcnt b)%nat | _ => false end)
  && negb (match yD b with OIdle => y_live b | _ => false end)
  && match yK b with
     | KIdle => match yKq b with [] => true | _ => false end
     | KIn _ (SSleep _) => true
     | _ => false
     end.

Definition y_tickPA (b : bst) : bst :=
  match yPA b with
  | RIdle => b
  | RRead (S (S t)) => y_setPA b (RRead (S t)) (yPAq b) (yPacked b)
  | RRead _ => y_bad b                                      (* the peer's ack reader times out *)
  end.
Definition y_tickD (b : bst) : bst :=
  match yD b with
  | OIdle => b
  | OGate (S (S j)) => y_setD b (OGate (S j)) (yDq b)
  | OGate _ => y_dcall b
  | ORead (S (S t)) => y_setD b (ORead (S t)) (yDq b)
  | ORead _ => y_bad b                                      (* our data reader's timer expires *)
  end.
Definition y_tickK (b : bst) : bst :=
  match yK b with
  | KIn k (SSleep (S (S j))) => y_setK b (KIn k (SSleep (S j))) (yKq b)
  | KIn k (SSleep _) => y_kgate b k
  | _ => b
  end.

Definition ystep (b : bst) (x : yev) : option bst :=
  match x with
  | YPSCall => match yPS b with CSGate k => Some (y_setPS b (CSIn k SPassed) (yPcnt b)) | _ => None end
  | YPSWrite => match yPS b with CSIn k SPassed => Some (y_darrive (y_setPS b (CSPush k) (yPcnt b)) k) | _ => None end
  | YPSPush =>
    match yPS b with
    | CSPush k =>
      if (yPcnt b <? W)%nat
      then Some (y_setPS b (if (S k <? n)%nat then CSGate (S k) else CSDone) (S (yPcnt b)))
      else None
    | _ => None
    end
  | YPATake =>
    match yPA b, yPcnt b with
    | RIdle, S c => Some (y_pacall (y_setPS b (yPS b) c))
    | _, _ => None
    end
  | YDCall => match yD b with OIdle => if y_live b then Some (y_dcall b) else None | _ => None end
  | YKTake =>
    match yK b, yKq b with
    | KIdle, k :: q => Some (y_setK b (KHave k) q)
    | _, _ => None
    end
  | YKCall => match yK b with KHave k => Some (y_kgate b k) | _ => None end
  | YKWrite => match yK b with KIn k SPassed => Some (y_paarrive (y_setK b KIdle (yKq b)) (WLData k)) | _ => None end
  | YPause =>
    match yEp b with
    | EpResumed _ _ => None
    | e => Some (y_flags b true (ep_pause e))
    end
  | YResume =>
    match yEp b with
    | EpPausing e => if yPausing b then Some (y_flags b false (EpResumed e O)) else None
    | _ => None
    end
  | YTick =>
    if y_quiescent b && (match yEp b with EpPausing e => (e <? P)%nat | _ => true end) then
      let b3 := y_tickK (y_tickD (y_tickPA b)) in
      Some (y_flags b3 (yPausing b3) (ep_tick cf (yEp b)))
    else None
  end.

Fixpoint yrun (b : bst) (xs : list yev) : option bst :=
  match xs with
  | [] => Some b
  | x :: xs' => match ystep b x with Some b' => yrun b' xs' | None => None end
  end.

Definition yinit : bst :=
  mkB false (match n with O => CSDone | _ => CSGate O end) O OIdle [] [] KIdle [] RIdle [] O false EpNone.

End Down.

(* ---------- (d') download, data phase: the same composition built from the reader machine ---------- *)

Record dstate := mkD {
  dD : rstate nat;        (* our data reader: its core carries OUR pause flags, its queue is the server->client wire *)
  dDeliv : list nat;
  dK : kph;
  dKq : list nat;
  dPS : csph;
  dPcnt : nat;
  dPA : rstate wline;     (* the peer's ack reader; its queue is the client->server wire *)
  dPacked : nat;
  dErrD : bool;           (* our data reader returned an error *)
  dErrPA : bool;          (* the peer's ack reader returned an error *)
  dEp : epi }.

Section DownConc.
Variable cf : cfg.
Variable n : nat.
Variable W : nat.
Variable P : nat.

Definition d_setD (s : dstate) (a : rstate nat) (dl kq : list nat) (err : bool) : dstate :=
  mkD a dl (dK s) kq (dPS s) (dPcnt s) (dPA s) (dPacked s) err (dErrPA s) (dEp s).
Definition d_setPA (s : dstate) (r : rstate wline) (acked : nat) (err : bool) : dstate :=
  mkD (dD s) (dDeliv s) (dK s) (dKq s) (dPS s) (dPcnt s) r acked (dErrD s) err (dEp s).
Definition d_setK (s : dstate) (p : kph) (q : list nat) : dstate :=
  mkD (dD s) (dDeliv s) p q (dPS s) (dPcnt s) (dPA s) (dPacked s) (dErrD s) (dErrPA s) (dEp s).
Definition d_setPS (s : dstate) (p : csph) (c : nat) : dstate :=
  mkD (dD s) (dDeliv s) (dK s) (dKq s) p c (dPA s) (dPacked s) (dErrD s) (dErrPA s) (dEp s).
Definition d_setEp (s : dstate) (e : epi) : dstate :=
  mkD (dD s) (dDeliv s) (dK s) (dKq s) (dPS s) (dPcnt s) (dPA s) (dPacked s) (dErrD s) (dErrPA s) e.

(* an event for our data reader; a returned frame goes to the decoder and its length to our ackChan *)
Definition feedD (s : dstate) (e : ev nat) : dstate :=
  let '(a, o) := rstep nat cls_a cf (dD s) e in
  match o with
  | None => d_setD s a (dDeliv s) (dKq s) (dErrD s)
  | Some (ODelivered k _) => d_setD s a (dDeliv s ++ [k]) (dKq s ++ [k]) (dErrD s)
  | Some _ => d_setD s a (dDeliv s) (dKq s) true
  end.

(* an event for the peer's ack reader *)
Definition feedPA (s : dstate) (e : ev wline) : dstate :=
  let '(r, o) := rstep wline cls_w cf (dPA s) e in
  match o with
  | None => d_setPA s r (dPacked s) (dErrPA s)
  | Some (ODelivered _ _) => d_setPA s r (S (dPacked s)) (dErrPA s)
  | Some _ => d_setPA s r (dPacked s) true
  end.

(* what our acker wrote reaches the peer *)
Fixpoint d_emit (s : dstate) (k : nat) (ws : list wout) : dstate :=
  match ws with
  | [] => s
  | WKeep :: ws' => d_emit (feedPA s (EArrive WLKeep)) k ws'
  | WFrame :: ws' => d_emit (feedPA s (EArrive (WLData k))) k ws'
  | WStopErr :: ws' => d_emit s k ws'
  end.

Definition d_pausing (s : dstate) : bool := pausing (core (dD s)).
Definition d_stopped (s : dstate) : bool := stopped (core (dD s)).

(* our acker, holding the acknowledgement of frame k, moves by gate event e *)
Definition k_move (s : dstate) (k : nat) (p : sphase) (e : sev) : dstate :=
  let '(p', ws) := sphase_step cf (d_pausing s) (d_stopped s) p e in
  let s1 := d_emit s k ws in
  match p', e with
  | SIdle, SWrite => d_setK s1 KIdle (dKq s1)
  | _, _ => d_setK s1 (KIn k p') (dKq s1)
  end.

Definition d_live (s : dstate) : bool := (length (dDeliv s) <? n)%nat.

Definition d_quiescent (s : dstate) : bool :=
  match dPS s with
  | CSPush _ => (W <=? dPcnt s)%nat
  | CSDone => true
  | _ => false
  end
  && negb (match ph (dPA s) with PIdle => (0 <? dPcnt s)%nat | _ => false end)
  && negb (match ph (dD s) with PIdle => d_live s | _ => false end)
  && match dK s with
     | KIdle => match dKq s with [] => true | _ => false end
     | KIn _ (SSleep _) => true
     | _ => false
     end.

Definition ydstep (s : dstate) (x : yev) : option dstate :=
  match x with
  | YPSCall => match dPS s with CSGate k => Some (d_setPS s (CSIn k SPassed) (dPcnt s)) | _ => None end
  | YPSWrite => match dPS s with CSIn k SPassed => Some (feedD (d_setPS s (CSPush k) (dPcnt s)) (EArrive k)) | _ => None end
  | YPSPush =>
    match dPS s with
    | CSPush k =>
      if (dPcnt s <? W)%nat
      then Some (d_setPS s (if (S k <? n)%nat then CSGate (S k) else CSDone) (S (dPcnt s)))
      else None
    | _ => None
    end
  | YPATake =>
    match ph (dPA s), dPcnt s with
    | PIdle, S c => Some (feedPA (d_setPS s (dPS s) c) ECall)
    | _, _ => None
    end
  | YDCall => match ph (dD s) with PIdle => if d_live s then Some (feedD s ECall) else None | _ => None end
  | YKTake =>
    match dK s, dKq s with
    | KIdle, k :: q => Some (d_setK s (KHave k) q)
    | _, _ => None
    end
  | YKCall => match dK s with KHave k => Some (k_move s k SIdle SCall) | _ => None end
  | YKWrite => match dK s with KIn k SPassed => Some (k_move s k SPassed SWrite) | _ => None end
  | YPause =>
    match dEp s with
    | EpResumed _ _ => None
    | _ => Some (d_setEp (feedD s EPause) (ep_pause (dEp s)))
    end
  | YResume =>
    match dEp s with
    | EpPausing e => if d_pausing s then Some (d_setEp (feedD s EResume) (EpResumed e O)) else None
    | _ => None
    end
  | YTick =>
    if d_quiescent s && (match dEp s with EpPausing e => (e <? P)%nat | _ => true end) then
      let s1 := feedD (feedPA s ETick) ETick in
      let s2 := match dK s1 with KIn k (SSleep j) => k_move s1 k (SSleep j) STick | _ => s1 end in
      Some (d_setEp s2 (ep_tick cf (dEp s)))
    else None
  end.

Fixpoint ydrun (s : dstate) (xs : list yev) : option dstate :=
  match xs with
  | [] => Some s
  | x :: xs' => match ydstep s x with Some s' => ydrun s' xs' | None => None end
  end.

Definition ydinit : dstate :=
  mkD (rinit nat) [] KIdle [] (match n with O => CSDone | _ => CSGate O end) O (rinit wline) O false false EpNone.

Definition tmo_val (c : rcore) : nat := match tmo c with Some t => t | None => O end.

(* the abstraction of a concrete state *)
Definition yabs (s : dstate) : bst :=
  mkB (pausing (core (dD s))) (dPS s) (dPcnt s)
      (match ph (dD s) with PIdle => OIdle | PGate _ j => OGate j | PRead _ => ORead (tmo_val (core (dD s))) end)
      (queue (dD s)) (dDeliv s) (dK s) (dKq s)
      (match ph (dPA s) with PRead _ => RRead (tmo_val (core (dPA s))) | _ => RIdle end)
      (queue (dPA s)) (dPacked s) (dErrD s || dErrPA s) (dEp s).

End DownConc.
