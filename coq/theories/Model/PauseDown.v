(* Pause / resume (C18), second part: the DOWNLOAD direction and the phases after the last DATA frame.

   pipeline.go   pipelineRecvData (our data reader: recvCheckV2("DATA"), pausing loop), pipelineSendAck (our
                 acker: checkStopAndPause("SUCC") in front of every "#SUCC:len/step", then the final-ack loop:
                 gate, "#SUCC:step", 200 ms poll), pipelineSendData / pipelineRecvAck on the PEER (wire sender,
                 ack window, ack reader on its timer), pipelineRecvFinalAck (our ack reader after the last
                 frame), pipelineSaveData (ackImmediately)
   transfer.go   recvFileMD5 / sendFileMD5 (plain timed reads, no pause handling)

   Same conventions as Model/Pause.v: time is a sequence of ticks, everything else happens between ticks,
   latency 0, the peer never pauses (only the client has the prompt).  Three machines:

   (d) [ystep]   download, data phase: the peer's wire sender PS with its ack window, our data reader D
                 (pausing loop, read timer), our acker K (gate, keep-alives "#SUCC:="), the peer's ack reader
                 PA on its timer.  K emits keep-alives only while it HOLDS an acknowledgement; when every
                 frame D returned has been acknowledged K waits on its channel and the peer hears nothing.
   (e) [ustep]   upload, after the last DATA frame: the peer's acker polls (a "#SUCC:step" every FP ticks
                 until its disk has everything, then the final one), our ack reader FA loops in
                 pipelineRecvFinalAck (pausing loop in front of every read), our main goroutine sends the MD5
                 line when FA saw the final ack; the peer's main goroutine waits for that line with a PLAIN
                 timed read (no keep-alive is ever sent for it).
   (f) [vstep]   download, after the last DATA frame: our acker in its final loop (gate, "#SUCC:step", poll
                 wait), the peer's pipelineRecvFinalAck on its timer.  Our acker always has something to say, so
                 it emits a line every max(gate sleep, poll) ticks whatever the pause length.

   Each machine exists twice, as in Model/Pause.v: built from the reader machine [rstep] (ydstep, udstep, vdstep)
   and with the readers replaced by their abstractions (ystep, ustep, vstep), related by [yabs], [uabs], [vabs].
   Executable definitions only. *)
From Trzsz Require Export Base.Bytes.
From Trzsz Require Import Gen.Consts Model.Pause.

(* ---------- abstractions of the two kinds of reader ---------- *)

(* our reader (may sit in the pausing loop): idle / asleep in the loop, j ticks left / blocked, t ticks left *)
Inductive oph := OIdle | OGate (j : nat) | ORead (t : nat).

(* our acker in the data phase *)
Inductive kph :=
| KIdle                          (* waiting on its channel *)
| KHave (k : nat)                (* took the length of frame k, about to call checkStopAndPause *)
| KIn (k : nat) (p : sphase).    (* inside the gate / past it, "#SUCC:len/step" not yet written *)

Inductive yev := YTick | YPause | YResume | YPSCall | YPSWrite | YPSPush | YPATake | YDCall | YKTake | YKCall | YKWrite.

(* ---------- (d) download, data phase: abstract machine ---------- *)

Record bst := mkB {
  yPausing : bool;
  yPS : csph;            (* the peer's wire sender (its gate never sleeps) *)
  yPcnt : nat;           (* len(ackChan) on the peer *)
  yD : oph;              (* our data reader *)
  yDq : list nat;        (* server -> client wire: DATA frames not yet read *)
  yDeliv : list nat;     (* frames our reader returned, in order *)
  yK : kph;              (* our acker *)
  yKq : list nat;        (* our ackChan *)
  yPA : rph;             (* the peer's ack reader *)
  yPAq : list wline;     (* client -> server wire: keep-alives and acknowledgements not yet read *)
  yPacked : nat;         (* acknowledgements the peer's reader returned *)
  yBad : bool;
  yEp : epi }.

Section Down.
Variable cf : cfg.
Variable n : nat.       (* number of DATA frames (the last one is the empty finish frame) *)
Variable W : nat.       (* capacity of the peer's ackChan *)
Variable P : nat.       (* budget: ticks an episode of pausing may last *)

Definition y_setPS (b : bst) (p : csph) (c : nat) : bst :=
  mkB (yPausing b) p c (yD b) (yDq b) (yDeliv b) (yK b) (yKq b) (yPA b) (yPAq b) (yPacked b) (yBad b) (yEp b).
Definition y_setD (b : bst) (p : oph) (q : list nat) : bst :=
  mkB (yPausing b) (yPS b) (yPcnt b) p q (yDeliv b) (yK b) (yKq b) (yPA b) (yPAq b) (yPacked b) (yBad b) (yEp b).
Definition y_setK (b : bst) (p : kph) (q : list nat) : bst :=
  mkB (yPausing b) (yPS b) (yPcnt b) (yD b) (yDq b) (yDeliv b) p q (yPA b) (yPAq b) (yPacked b) (yBad b) (yEp b).
Definition y_setPA (b : bst) (p : rph) (q : list wline) (acked : nat) : bst :=
  mkB (yPausing b) (yPS b) (yPcnt b) (yD b) (yDq b) (yDeliv b) (yK b) (yKq b) p q acked (yBad b) (yEp b).
Definition y_bad (b : bst) : bst :=
  mkB (yPausing b) (yPS b) (yPcnt b) (yD b) (yDq b) (yDeliv b) (yK b) (yKq b) (yPA b) (yPAq b) (yPacked b) true (yEp b).
Definition y_flags (b : bst) (pa : bool) (e : epi) : bst :=
  mkB pa (yPS b) (yPcnt b) (yD b) (yDq b) (yDeliv b) (yK b) (yKq b) (yPA b) (yPAq b) (yPacked b) (yBad b) e.

(* our reader returns frame k: handed to the decoder and its length pushed to our ackChan (capacity 100,
   never full: at most W + 2 frames are unacknowledged) *)
Definition y_deliver (b : bst) (p : oph) (q : list nat) (k : nat) : bst :=
  mkB (yPausing b) (yPS b) (yPcnt b) p q (yDeliv b ++ [k]) (yK b) (yKq b ++ [k]) (yPA b) (yPAq b) (yPacked b) (yBad b) (yEp b).

(* a DATA frame reaches our side *)
Definition y_darrive (b : bst) (k : nat) : bst :=
  match yD b with
  | ORead _ => y_deliver b OIdle [] k
  | p => y_setD b p (yDq b ++ [k])
  end.

(* our reader leaves (or skips) the pausing loop and reads *)
Definition y_dcall (b : bst) : bst :=
  if yPausing b then y_setD b (OGate (cSL cf)) (yDq b)
  else match yDq b with
       | k :: q => y_deliver b OIdle q k
       | [] => y_setD b (ORead (cT cf)) []
       end.

(* a line from our acker reaches the peer *)
Definition y_paarrive (b : bst) (l : wline) : bst :=
  match yPA b with
  | RIdle => y_setPA b RIdle (yPAq b ++ [l]) (yPacked b)
  | RRead _ =>
    match l with
    | WLKeep => y_setPA b (RRead (cT cf)) (yPAq b) (yPacked b)
    | WLData _ => y_setPA b RIdle (yPAq b) (S (yPacked b))
    end
  end.

(* the peer's ack reader calls recvCheckV2 *)
Definition y_pacall (b : bst) : bst :=
  match first_data (yPAq b) with
  | None => y_setPA b (RRead (cT cf)) [] (yPacked b)
  | Some (_, q') => y_setPA b RIdle q' (S (yPacked b))
  end.

(* checkStopAndPause("SUCC") from its loop condition, holding the acknowledgement of frame k *)
Definition y_kgate (b : bst) (k : nat) : bst :=
  if yPausing b then y_paarrive (y_setK b (KIn k (SSleep (cGL cf))) (yKq b)) WLKeep
  else y_setK b (KIn k SPassed) (yKq b).

Definition y_live (b : bst) : bool := (length (yDeliv b) <? n)%nat.

Definition y_quiescent (b : bst) : bool :=
  match yPS b with
  | CSPush _ => (W <=? yPcnt b)%nat
  | CSDone => true
  | _ => false
  end
  && negb (match yPA b with RIdle => (0 <? yPcnt b)%nat | _ => false end)
  && negb (match yD b with OIdle => y_live b | _ => false end)
  && match yK b with
     | KIdle => match yKq b with [] => true | _ => false end
     | KIn _ (SSleep _) => true
     | _ => false
     end.

Definition y_tickPA (b : bst) : bst :=
  match yPA b with
  | RIdle => b
  | RRead (S (S t)) => y_setPA b (RRead (S t)) (yPAq b) (yPacked b)
  | RRead _ => y_bad b                                      (* the peer's ack reader times out *)
  end.
Definition y_tickD (b : bst) : bst :=
  match yD b with
  | OIdle => b
  | OGate (S (S j)) => y_setD b (OGate (S j)) (yDq b)
  | OGate _ => y_dcall b
  | ORead (S (S t)) => y_setD b (ORead (S t)) (yDq b)
  | ORead _ => y_bad b                                      (* our data reader's timer expires *)
  end.
Definition y_tickK (b : bst) : bst :=
  match yK b with
  | KIn k (SSleep (S (S j))) => y_setK b (KIn k (SSleep (S j))) (yKq b)
  | KIn k (SSleep _) => y_kgate b k
  | _ => b
  end.

Definition ystep (b : bst) (x : yev) : option bst :=
  match x with
  | YPSCall => match yPS b with CSGate k => Some (y_setPS b (CSIn k SPassed) (yPcnt b)) | _ => None end
  | YPSWrite => match yPS b with CSIn k SPassed => Some (y_darrive (y_setPS b (CSPush k) (yPcnt b)) k) | _ => None end
  | YPSPush =>
    match yPS b with
    | CSPush k =>
      if (yPcnt b <? W)%nat
      then Some (y_setPS b (if (S k <? n)%nat then CSGate (S k) else CSDone) (S (yPcnt b)))
      else None
    | _ => None
    end
  | YPATake =>
    match yPA b, yPcnt b with
    | RIdle, S c => Some (y_pacall (y_setPS b (yPS b) c))
    | _, _ => None
    end
  | YDCall => match yD b with OIdle => if y_live b then Some (y_dcall b) else None | _ => None end
  | YKTake =>
    match yK b, yKq b with
    | KIdle, k :: q => Some (y_setK b (KHave k) q)
    | _, _ => None
    end
  | YKCall => match yK b with KHave k => Some (y_kgate b k) | _ => None end
  | YKWrite => match yK b with KIn k SPassed => Some (y_paarrive (y_setK b KIdle (yKq b)) (WLData k)) | _ => None end
  | YPause =>
    match yEp b with
    | EpResumed _ _ => None
    | e => Some (y_flags b true (ep_pause e))
    end
  | YResume =>
    match yEp b with
    | EpPausing e => if yPausing b then Some (y_flags b false (EpResumed e O)) else None
    | _ => None
    end
  | YTick =>
    if y_quiescent b && (match yEp b with EpPausing e => (e <? P)%nat | _ => true end) then
      let b3 := y_tickK (y_tickD (y_tickPA b)) in
      Some (y_flags b3 (yPausing b3) (ep_tick cf (yEp b)))
    else None
  end.

Fixpoint yrun (b : bst) (xs : list yev) : option bst :=
  match xs with
  | [] => Some b
  | x :: xs' => match ystep b x with Some b' => yrun b' xs' | None => None end
  end.

Definition yinit : bst :=
  mkB false (match n with O => CSDone | _ => CSGate O end) O OIdle [] [] KIdle [] RIdle [] O false EpNone.

End Down.

(* ---------- (d') download, data phase: the same composition built from the reader machine ---------- *)

Record dstate := mkD {
  dD : rstate nat;        (* our data reader: its core carries OUR pause flags, its queue is the server->client wire *)
  dDeliv : list nat;
  dK : kph;
  dKq : list nat;
  dPS : csph;
  dPcnt : nat;
  dPA : rstate wline;     (* the peer's ack reader; its queue is the client->server wire *)
  dPacked : nat;
  dErrD : bool;           (* our data reader returned an error *)
  dErrPA : bool;          (* the peer's ack reader returned an error *)
  dEp : epi }.

Section DownConc.
Variable cf : cfg.
Variable n : nat.
Variable W : nat.
Variable P : nat.

Definition d_setD (s : dstate) (a : rstate nat) (dl kq : list nat) (err : bool) : dstate :=
  mkD a dl (dK s) kq (dPS s) (dPcnt s) (dPA s) (dPacked s) err (dErrPA s) (dEp s).
Definition d_setPA (s : dstate) (r : rstate wline) (acked : nat) (err : bool) : dstate :=
  mkD (dD s) (dDeliv s) (dK s) (dKq s) (dPS s) (dPcnt s) r acked (dErrD s) err (dEp s).
Definition d_setK (s : dstate) (p : kph) (q : list nat) : dstate :=
  mkD (dD s) (dDeliv s) p q (dPS s) (dPcnt s) (dPA s) (dPacked s) (dErrD s) (dErrPA s) (dEp s).
Definition d_setPS (s : dstate) (p : csph) (c : nat) : dstate :=
  mkD (dD s) (dDeliv s) (dK s) (dKq s) p c (dPA s) (dPacked s) (dErrD s) (dErrPA s) (dEp s).
Definition d_setEp (s : dstate) (e : epi) : dstate :=
  mkD (dD s) (dDeliv s) (dK s) (dKq s) (dPS s) (dPcnt s) (dPA s) (dPacked s) (dErrD s) (dErrPA s) e.

(* an event for our data reader; a returned frame goes to the decoder and its length to our ackChan *)
Definition feedD (s : dstate) (e : ev nat) : dstate :=
  let '(a, o) := rstep nat cls_a cf (dD s) e in
  match o with
  | None => d_setD s a (dDeliv s) (dKq s) (dErrD s)
  | Some (ODelivered k _) => d_setD s a (dDeliv s ++ [k]) (dKq s ++ [k]) (dErrD s)
  | Some _ => d_setD s a (dDeliv s) (dKq s) true
  end.

(* an event for the peer's ack reader *)
Definition feedPA (s : dstate) (e : ev wline) : dstate :=
  let '(r, o) := rstep wline cls_w cf (dPA s) e in
  match o with
  | None => d_setPA s r (dPacked s) (dErrPA s)
  | Some (ODelivered _ _) => d_setPA s r (S (dPacked s)) (dErrPA s)
  | Some _ => d_setPA s r (dPacked s) true
  end.

(* what our acker wrote reaches the peer *)
Fixpoint d_emit (s : dstate) (k : nat) (ws : list wout) : dstate :=
  match ws with
  | [] => s
  | WKeep :: ws' => d_emit (feedPA s (EArrive WLKeep)) k ws'
  | WFrame :: ws' => d_emit (feedPA s (EArrive (WLData k))) k ws'
  | WStopErr :: ws' => d_emit s k ws'
  end.

Definition d_pausing (s : dstate) : bool := pausing (core (dD s)).
Definition d_stopped (s : dstate) : bool := stopped (core (dD s)).

(* our acker, holding the acknowledgement of frame k, moves by gate event e *)
Definition k_move (s : dstate) (k : nat) (p : sphase) (e : sev) : dstate :=
  let '(p', ws) := sphase_step cf (d_pausing s) (d_stopped s) p e in
  let s1 := d_emit s k ws in
  match p', e with
  | SIdle, SWrite => d_setK s1 KIdle (dKq s1)
  | _, _ => d_setK s1 (KIn k p') (dKq s1)
  end.

Definition d_live (s : dstate) : bool := (length (dDeliv s) <? n)%nat.

Definition d_quiescent (s : dstate) : bool :=
  match dPS s with
  | CSPush _ => (W <=? dPcnt s)%nat
  | CSDone => true
  | _ => false
  end
  && negb (match ph (dPA s) with PIdle => (0 <? dPcnt s)%nat | _ => false end)
  && negb (match ph (dD s) with PIdle => d_live s | _ => false end)
  && match dK s with
     | KIdle => match dKq s with [] => true | _ => false end
     | KIn _ (SSleep _) => true
     | _ => false
     end.

Definition ydstep (s : dstate) (x : yev) : option dstate :=
  match x with
  | YPSCall => match dPS s with CSGate k => Some (d_setPS s (CSIn k SPassed) (dPcnt s)) | _ => None end
  | YPSWrite => match dPS s with CSIn k SPassed => Some (feedD (d_setPS s (CSPush k) (dPcnt s)) (EArrive k)) | _ => None end
  | YPSPush =>
    match dPS s with
    | CSPush k =>
      if (dPcnt s <? W)%nat
      then Some (d_setPS s (if (S k <? n)%nat then CSGate (S k) else CSDone) (S (dPcnt s)))
      else None
    | _ => None
    end
  | YPATake =>
    match ph (dPA s), dPcnt s with
    | PIdle, S c => Some (feedPA (d_setPS s (dPS s) c) ECall)
    | _, _ => None
    end
  | YDCall => match ph (dD s) with PIdle => if d_live s then Some (feedD s ECall) else None | _ => None end
  | YKTake =>
    match dK s, dKq s with
    | KIdle, k :: q => Some (d_setK s (KHave k) q)
    | _, _ => None
    end
  | YKCall => match dK s with KHave k => Some (k_move s k SIdle SCall) | _ => None end
  | YKWrite => match dK s with KIn k SPassed => Some (k_move s k SPassed SWrite) | _ => None end
  | YPause =>
    match dEp s with
    | EpResumed _ _ => None
    | _ => Some (d_setEp (feedD s EPause) (ep_pause (dEp s)))
    end
  | YResume =>
    match dEp s with
    | EpPausing e => if d_pausing s then Some (d_setEp (feedD s EResume) (EpResumed e O)) else None
    | _ => None
    end
  | YTick =>
    if d_quiescent s && (match dEp s with EpPausing e => (e <? P)%nat | _ => true end) then
      let s1 := feedD (feedPA s ETick) ETick in
      let s2 := match dK s1 with KIn k (SSleep j) => k_move s1 k (SSleep j) STick | _ => s1 end in
      Some (d_setEp s2 (ep_tick cf (dEp s)))
    else None
  end.

Fixpoint ydrun (s : dstate) (xs : list yev) : option dstate :=
  match xs with
  | [] => Some s
  | x :: xs' => match ydstep s x with Some s' => ydrun s' xs' | None => None end
  end.

Definition ydinit : dstate :=
  mkD (rinit nat) [] KIdle [] (match n with O => CSDone | _ => CSGate O end) O (rinit wline) O false false EpNone.

Definition tmo_val (c : rcore) : nat := match tmo c with Some t => t | None => O end.

(* the abstraction of a concrete state *)
Definition yabs (s : dstate) : bst :=
  mkB (pausing (core (dD s))) (dPS s) (dPcnt s)
      (match ph (dD s) with PIdle => OIdle | PGate _ j => OGate j | PRead _ => ORead (tmo_val (core (dD s))) end)
      (queue (dD s)) (dDeliv s) (dK s) (dKq s)
      (match ph (dPA s) with PRead _ => RRead (tmo_val (core (dPA s))) | _ => RIdle end)
      (queue (dPA s)) (dPacked s) (dErrD s || dErrPA s) (dEp s).

End DownConc.

(* ---------- (e) upload, after the last DATA frame ----------
   Lines from the peer's acker: 0 = "#SUCC:step" with step < size, 1 = the final one (step == size).
   [cFP]: the poll interval of the peer's acker in ticks. *)

Inductive pkph := PKWait (j : nat) | PKDone.            (* the peer's acker: j ticks to its next "#SUCC:step" *)
Inductive pmph := PMWait | PMRead (t : nat) | PMDone.   (* the peer's main goroutine: in recvFileDataV2 / reading
                                                           the MD5 line with a plain timer / has it *)
Inductive uev := UTick | UPause | UResume | UFACall | USaved.

Record ust := mkU {
  uPausing : bool;
  uFA : oph;             (* our reader in pipelineRecvFinalAck *)
  uFAq : list nat;       (* server -> client wire, unread *)
  uFin : bool;           (* our reader returned the final ack; sendFileDataV2 returned and the MD5 line went out *)
  uPK : pkph;
  uSaved : bool;         (* the peer's savedSteps == size *)
  uPM : pmph;
  uBad : bool;
  uEp : epi }.

Section UpFinal.
Variable cf : cfg.
Variable FP : nat.      (* poll interval of the final-ack loop, in ticks *)
Variable P : nat.

Definition u_setFA (u : ust) (p : oph) (q : list nat) : ust :=
  mkU (uPausing u) p q (uFin u) (uPK u) (uSaved u) (uPM u) (uBad u) (uEp u).
Definition u_bad (u : ust) : ust :=
  mkU (uPausing u) (uFA u) (uFAq u) (uFin u) (uPK u) (uSaved u) (uPM u) true (uEp u).
Definition u_flags (u : ust) (pa : bool) (e : epi) : ust :=
  mkU pa (uFA u) (uFAq u) (uFin u) (uPK u) (uSaved u) (uPM u) (uBad u) e.

(* our reader returns line l: a progress ack is just consumed; the final one ends sendFileDataV2, the MD5 line
   is written at once (no gate in front of it) and reaches the peer's main goroutine *)
Definition u_deliver (u : ust) (q : list nat) (l : nat) : ust :=
  match l with
  | O => mkU (uPausing u) OIdle q (uFin u) (uPK u) (uSaved u) (uPM u) (uBad u) (uEp u)
  | _ => mkU (uPausing u) OIdle q true (uPK u) (uSaved u)
             (match uPM u with PMRead _ => PMDone | p => p end) (uBad u) (uEp u)
  end.

Definition u_arrive (u : ust) (l : nat) : ust :=
  match uFA u with
  | ORead _ => u_deliver u [] l
  | p => u_setFA u p (uFAq u ++ [l])
  end.

Definition u_facall (u : ust) : ust :=
  if uPausing u then u_setFA u (OGate (cSL cf)) (uFAq u)
  else match uFAq u with
       | l :: q => u_deliver u q l
       | [] => u_setFA u (ORead (cT cf)) []
       end.

(* the peer's acker writes "#SUCC:step": the final one if its disk has everything (then its pipeline is
   done and its main goroutine starts the plain timed read of the MD5 line), a progress ack otherwise *)
Definition u_poll (u : ust) : ust :=
  if uSaved u
  then u_arrive (mkU (uPausing u) (uFA u) (uFAq u) (uFin u) PKDone true
                     (match uPM u with PMWait => PMRead (cT cf) | p => p end) (uBad u) (uEp u)) 1
  else u_arrive (mkU (uPausing u) (uFA u) (uFAq u) (uFin u) (PKWait FP) false (uPM u) (uBad u) (uEp u)) 0.

Definition u_quiescent (u : ust) : bool :=
  negb (match uFA u with OIdle => negb (uFin u) | _ => false end).

Definition u_tickPM (u : ust) : ust :=
  match uPM u with
  | PMRead (S (S t)) => mkU (uPausing u) (uFA u) (uFAq u) (uFin u) (uPK u) (uSaved u) (PMRead (S t)) (uBad u) (uEp u)
  | PMRead _ => u_bad u                                   (* the peer gives up waiting for the MD5 line *)
  | _ => u
  end.
Definition u_tickFA (u : ust) : ust :=
  match uFA u with
  | OIdle => u
  | OGate (S (S j)) => u_setFA u (OGate (S j)) (uFAq u)
  | OGate _ => u_facall u
  | ORead (S (S t)) => u_setFA u (ORead (S t)) (uFAq u)
  | ORead _ => u_bad u
  end.
Definition u_tickPK (u : ust) : ust :=
  match uPK u with
  | PKWait (S (S j)) => mkU (uPausing u) (uFA u) (uFAq u) (uFin u) (PKWait (S j)) (uSaved u) (uPM u) (uBad u) (uEp u)
  | PKWait _ => u_poll u
  | PKDone => u
  end.

(* A new pause may begin only MORE than one sleep after the previous resume (one sleep plus one tick): our
   reader looks at the pause flag before every read, so after its wake-up it needs an instant to work
   through the progress acks that piled up before it reaches the final one; a pause that begins in that
   very instant sends it back to sleep with the final ack still unread. *)
Definition u_ep_tick (e : epi) : epi :=
  match e with
  | EpNone => EpNone
  | EpPausing e => EpPausing (S e)
  | EpResumed e j => if (j <? cSL cf)%nat then EpResumed e (S j) else EpNone
  end.

Definition ustep (u : ust) (x : uev) : option ust :=
  match x with
  | UFACall => match uFA u with OIdle => if uFin u then None else Some (u_facall u) | _ => None end
  | USaved =>                                             (* the disk catches up; ackImmediately wakes the acker *)
    if uSaved u then None
    else match uPK u with
         | PKWait _ => Some (u_poll (mkU (uPausing u) (uFA u) (uFAq u) (uFin u) (uPK u) true (uPM u) (uBad u) (uEp u)))
         | PKDone => None
         end
  | UPause =>
    match uEp u with
    | EpResumed _ _ => None
    | e => Some (u_flags u true (ep_pause e))
    end
  | UResume =>
    match uEp u with
    | EpPausing e => if uPausing u then Some (u_flags u false (EpResumed e O)) else None
    | _ => None
    end
  | UTick =>
    if u_quiescent u && (match uEp u with EpPausing e => (e <? P)%nat | _ => true end) then
      let u3 := u_tickPK (u_tickFA (u_tickPM u)) in
      Some (u_flags u3 (uPausing u3) (u_ep_tick (uEp u)))
    else None
  end.

Fixpoint urun (u : ust) (xs : list uev) : option ust :=
  match xs with
  | [] => Some u
  | x :: xs' => match ustep u x with Some u' => urun u' xs' | None => None end
  end.

(* the acker enters its final loop and writes its first "#SUCC:step" at once *)
Definition uinit : ust := u_poll (mkU false OIdle [] false (PKWait O) false PMWait false EpNone).

End UpFinal.

(* ---------- (f) download, after the last DATA frame ----------
   Lines from our acker: WLKeep = "#SUCC:=", WLData 0 = "#SUCC:step" with step < size, WLData 1 = the final one. *)

Inductive k2ph :=
| K2Call                 (* about to call checkStopAndPause("SUCC") *)
| K2Sleep (j : nat)      (* asleep in the gate *)
| K2Passed               (* past the gate, "#SUCC:step" not yet written *)
| K2Wait (j : nat)       (* select { ackImmediately / time.After(200 ms) } *)
| K2Done.

Inductive vev := VTick | VPause | VResume | VKCall | VKWrite | VSaved | VPFCall.

Record vst := mkV {
  vPausing : bool;
  vK : k2ph;
  vSaved : bool;         (* our savedSteps == size *)
  vPF : rph;             (* the peer's reader in pipelineRecvFinalAck *)
  vPFq : list wline;
  vPfin : bool;          (* it returned the final ack *)
  vBad : bool }.

Section DownFinal.
Variable cf : cfg.
Variable FP : nat.

Definition v_setPF (v : vst) (p : rph) (q : list wline) (fin : bool) : vst :=
  mkV (vPausing v) (vK v) (vSaved v) p q fin (vBad v).
Definition v_setK (v : vst) (k : k2ph) : vst :=
  mkV (vPausing v) k (vSaved v) (vPF v) (vPFq v) (vPfin v) (vBad v).

Definition is_final (k : nat) : bool := match k with O => false | _ => true end.

Definition v_arrive (v : vst) (l : wline) : vst :=
  match vPF v with
  | RIdle => v_setPF v RIdle (vPFq v ++ [l]) (vPfin v)
  | RRead _ =>
    match l with
    | WLKeep => v_setPF v (RRead (cT cf)) (vPFq v) (vPfin v)
    | WLData k => v_setPF v RIdle (vPFq v) (vPfin v || is_final k)
    end
  end.

Definition v_pfcall (v : vst) : vst :=
  match first_data (vPFq v) with
  | None => v_setPF v (RRead (cT cf)) [] (vPfin v)
  | Some (k, q') => v_setPF v RIdle q' (vPfin v || is_final k)
  end.

Definition v_gate (v : vst) : vst :=
  if vPausing v then v_arrive (v_setK v (K2Sleep (cGL cf))) WLKeep else v_setK v K2Passed.

Definition v_quiescent (v : vst) : bool :=
  match vK v with K2Call => false | K2Passed => false | _ => true end
  && negb (match vPF v with RIdle => negb (vPfin v) | _ => false end).

Definition v_tickPF (v : vst) : vst :=
  match vPF v with
  | RIdle => v
  | RRead (S (S t)) => v_setPF v (RRead (S t)) (vPFq v) (vPfin v)
  | RRead _ => mkV (vPausing v) (vK v) (vSaved v) (vPF v) (vPFq v) (vPfin v) true
  end.
Definition v_tickK (v : vst) : vst :=
  match vK v with
  | K2Sleep (S (S j)) => v_setK v (K2Sleep (S j))
  | K2Sleep _ => v_gate v
  | K2Wait (S (S j)) => v_setK v (K2Wait (S j))
  | K2Wait _ => v_setK v K2Call
  | _ => v
  end.

Definition vstep (v : vst) (x : vev) : option vst :=
  match x with
  | VKCall => match vK v with K2Call => Some (v_gate v) | _ => None end
  | VKWrite =>
    match vK v with
    | K2Passed =>
      if vSaved v then Some (v_arrive (v_setK v K2Done) (WLData 1))
      else Some (v_arrive (v_setK v (K2Wait FP)) (WLData 0))
    | _ => None
    end
  | VSaved =>
    if vSaved v then None
    else Some (mkV (vPausing v) (match vK v with K2Wait _ => K2Call | k => k end) true (vPF v) (vPFq v) (vPfin v) (vBad v))
  | VPFCall => match vPF v with RIdle => if vPfin v then None else Some (v_pfcall v) | _ => None end
  | VPause => Some (mkV true (vK v) (vSaved v) (vPF v) (vPFq v) (vPfin v) (vBad v))
  | VResume => Some (mkV false (vK v) (vSaved v) (vPF v) (vPFq v) (vPfin v) (vBad v))
  | VTick => if v_quiescent v then Some (v_tickK (v_tickPF v)) else None
  end.

Fixpoint vrun (v : vst) (xs : list vev) : option vst :=
  match xs with
  | [] => Some v
  | x :: xs' => match vstep v x with Some v' => vrun v' xs' | None => None end
  end.

Definition vinit : vst := mkV false K2Call false RIdle [] false false.

End DownFinal.

(* ---------- (e') upload after the last DATA frame, with our reader as the reader machine ---------- *)

Record udst := mkUD {
  udFA : rstate nat;     (* our reader in pipelineRecvFinalAck: its core carries OUR pause flags *)
  udFin : bool;
  udPK : pkph;
  udSaved : bool;
  udPM : pmph;
  udErr : bool;          (* our reader returned an error *)
  udBadPM : bool;        (* the peer gave up waiting for the MD5 line *)
  udEp : epi }.

Section UpFinalConc.
Variable cf : cfg.
Variable FP : nat.
Variable P : nat.

Definition ud_setFA (s : udst) (a : rstate nat) (err : bool) : udst :=
  mkUD a (udFin s) (udPK s) (udSaved s) (udPM s) err (udBadPM s) (udEp s).

Definition feedFA (s : udst) (e : ev nat) : udst :=
  let '(a, o) := rstep nat cls_a cf (udFA s) e in
  match o with
  | None => ud_setFA s a (udErr s)
  | Some (ODelivered O _) => ud_setFA s a (udErr s)
  | Some (ODelivered (S _) _) =>
    mkUD a true (udPK s) (udSaved s) (match udPM s with PMRead _ => PMDone | p => p end) (udErr s) (udBadPM s) (udEp s)
  | Some _ => ud_setFA s a true
  end.

Definition ud_poll (s : udst) : udst :=
  if udSaved s
  then feedFA (mkUD (udFA s) (udFin s) PKDone true (match udPM s with PMWait => PMRead (cT cf) | p => p end)
                    (udErr s) (udBadPM s) (udEp s)) (EArrive 1%nat)
  else feedFA (mkUD (udFA s) (udFin s) (PKWait FP) false (udPM s) (udErr s) (udBadPM s) (udEp s)) (EArrive 0%nat).

Definition ud_quiescent (s : udst) : bool :=
  negb (match ph (udFA s) with PIdle => negb (udFin s) | _ => false end).

Definition ud_tickPM (s : udst) : udst :=
  match udPM s with
  | PMRead (S (S t)) => mkUD (udFA s) (udFin s) (udPK s) (udSaved s) (PMRead (S t)) (udErr s) (udBadPM s) (udEp s)
  | PMRead _ => mkUD (udFA s) (udFin s) (udPK s) (udSaved s) (udPM s) (udErr s) true (udEp s)
  | _ => s
  end.
Definition ud_tickPK (s : udst) : udst :=
  match udPK s with
  | PKWait (S (S j)) => mkUD (udFA s) (udFin s) (PKWait (S j)) (udSaved s) (udPM s) (udErr s) (udBadPM s) (udEp s)
  | PKWait _ => ud_poll s
  | PKDone => s
  end.
Definition ud_setEp (s : udst) (e : epi) : udst :=
  mkUD (udFA s) (udFin s) (udPK s) (udSaved s) (udPM s) (udErr s) (udBadPM s) e.

Definition udstep (s : udst) (x : uev) : option udst :=
  match x with
  | UFACall => match ph (udFA s) with PIdle => if udFin s then None else Some (feedFA s ECall) | _ => None end
  | USaved =>
    if udSaved s then None
    else match udPK s with
         | PKWait _ => Some (ud_poll (mkUD (udFA s) (udFin s) (udPK s) true (udPM s) (udErr s) (udBadPM s) (udEp s)))
         | PKDone => None
         end
  | UPause =>
    match udEp s with
    | EpResumed _ _ => None
    | e => Some (ud_setEp (feedFA s EPause) (ep_pause e))
    end
  | UResume =>
    match udEp s with
    | EpPausing e => if pausing (core (udFA s)) then Some (ud_setEp (feedFA s EResume) (EpResumed e O)) else None
    | _ => None
    end
  | UTick =>
    if ud_quiescent s && (match udEp s with EpPausing e => (e <? P)%nat | _ => true end) then
      Some (ud_setEp (ud_tickPK (feedFA (ud_tickPM s) ETick)) (u_ep_tick cf (udEp s)))
    else None
  end.

Fixpoint udrun (s : udst) (xs : list uev) : option udst :=
  match xs with
  | [] => Some s
  | x :: xs' => match udstep s x with Some s' => udrun s' xs' | None => None end
  end.

Definition udinit : udst := ud_poll (mkUD (rinit nat) false (PKWait O) false PMWait false false EpNone).

Definition uabs (s : udst) : ust :=
  mkU (pausing (core (udFA s)))
      (match ph (udFA s) with PIdle => OIdle | PGate _ j => OGate j | PRead _ => ORead (tmo_val (core (udFA s))) end)
      (queue (udFA s)) (udFin s) (udPK s) (udSaved s) (udPM s) (udErr s || udBadPM s) (udEp s).

End UpFinalConc.

(* ---------- (f') download final-ack loop, with the peer's reader as the reader machine and the gate of Pause.v ---------- *)

Record vdst := mkVD {
  vdPausing : bool;
  vdK : k2ph;
  vdSaved : bool;
  vdPF : rstate wline;   (* the peer's reader in pipelineRecvFinalAck *)
  vdPfin : bool;
  vdErr : bool }.

Section DownFinalConc.
Variable cf : cfg.
Variable FP : nat.

Definition vd_setK (s : vdst) (k : k2ph) : vdst := mkVD (vdPausing s) k (vdSaved s) (vdPF s) (vdPfin s) (vdErr s).

Definition feedPF (s : vdst) (e : ev wline) : vdst :=
  let '(r, o) := rstep wline cls_w cf (vdPF s) e in
  match o with
  | None => mkVD (vdPausing s) (vdK s) (vdSaved s) r (vdPfin s) (vdErr s)
  | Some (ODelivered (WLData k) _) => mkVD (vdPausing s) (vdK s) (vdSaved s) r (vdPfin s || is_final k) (vdErr s)
  | Some _ => mkVD (vdPausing s) (vdK s) (vdSaved s) r (vdPfin s) true
  end.

(* checkStopAndPause("SUCC") from its loop condition: the gate of Model/Pause.v *)
Definition vd_gate (s : vdst) : vdst :=
  match gate_enter cf (vdPausing s) false with
  | (SSleep j, _) => feedPF (vd_setK s (K2Sleep j)) (EArrive WLKeep)
  | (SPassed, _) => vd_setK s K2Passed
  | _ => s
  end.

Definition vd_quiescent (s : vdst) : bool :=
  match vdK s with K2Call => false | K2Passed => false | _ => true end
  && negb (match ph (vdPF s) with PIdle => negb (vdPfin s) | _ => false end).

Definition vd_tickK (s : vdst) : vdst :=
  match vdK s with
  | K2Sleep (S (S j)) => vd_setK s (K2Sleep (S j))
  | K2Sleep _ => vd_gate s
  | K2Wait (S (S j)) => vd_setK s (K2Wait (S j))
  | K2Wait _ => vd_setK s K2Call
  | _ => s
  end.

Definition vdstep (s : vdst) (x : vev) : option vdst :=
  match x with
  | VKCall => match vdK s with K2Call => Some (vd_gate s) | _ => None end
  | VKWrite =>
    match vdK s with
    | K2Passed =>
      if vdSaved s then Some (feedPF (vd_setK s K2Done) (EArrive (WLData 1%nat)))
      else Some (feedPF (vd_setK s (K2Wait FP)) (EArrive (WLData 0%nat)))
    | _ => None
    end
  | VSaved =>
    if vdSaved s then None
    else Some (mkVD (vdPausing s) (match vdK s with K2Wait _ => K2Call | k => k end) true (vdPF s) (vdPfin s) (vdErr s))
  | VPFCall => match ph (vdPF s) with PIdle => if vdPfin s then None else Some (feedPF s ECall) | _ => None end
  | VPause => Some (mkVD true (vdK s) (vdSaved s) (vdPF s) (vdPfin s) (vdErr s))
  | VResume => Some (mkVD false (vdK s) (vdSaved s) (vdPF s) (vdPfin s) (vdErr s))
  | VTick => if vd_quiescent s then Some (vd_tickK (feedPF s ETick)) else None
  end.

Fixpoint vdrun (s : vdst) (xs : list vev) : option vdst :=
  match xs with
  | [] => Some s
  | x :: xs' => match vdstep s x with Some s' => vdrun s' xs' | None => None end
  end.

Definition vdinit : vdst := mkVD false K2Call false (rinit wline) false false.

Definition vabs (s : vdst) : vst :=
  mkV (vdPausing s) (vdK s) (vdSaved s)
      (match ph (vdPF s) with PRead _ => RRead (tmo_val (core (vdPF s))) | _ => RIdle end)
      (queue (vdPF s)) (vdPfin s) (vdErr s).

End DownFinalConc.
