(* Model of buffer.go: trzszBuffer (nextBuffer, readLine, readBinary, popBuffer).
   Executable definitions only.

   State.  [pending] = unread rest of the current chunk (nextBuf[nextIdx:]) followed by
   the chunks still queued in bufCh, in order.  An empty head is what the code has when
   nextIdx == len(nextBuf) (or nextBuf == nil): nextBuffer then takes the next queued
   chunk.  A queued chunk that is itself empty is handed out by nextBuffer as an empty
   slice, on which every reader does nothing and loops: also skipped.  The empty
   pending list is "current chunk exhausted, queue empty": a read would wait.

   A blocking read is a function of the pending list returning [Done data pend'],
   [Blocked] (would wait for more input) or [Interrupted pend'] (Ctrl-C seen). *)
From Trzsz Require Export Base.Bytes.
From Trzsz Require Import Gen.Consts.
From Coq Require Import ZArith.

Definition nl : byte := Consts.buffer_line_newline.
Definition intr : byte := Consts.buffer_line_interrupt.
Definition cr : byte := Consts.buffer_line_cr.

Definition pending := list (list byte).

Inductive rres :=
| Done (data : list byte) (pend : pending)
| Blocked
| Interrupted (pend : pending).

(* bytes.IndexByte(buf, b) >= 0 *)
Definition has_byte (b : byte) (l : list byte) : bool := existsb (N.eqb b) l.

(* readBuf.Len() > 0 && readBuf.Bytes()[readBuf.Len()-1] == '\r' *)
Definition ends_cr (l : list byte) : bool :=
  match rev l with b :: _ => b =? cr | [] => false end.

(* what one chunk does to a line read *)
Inductive cres :=
| CLine (line post : list byte)   (* line complete; post = rest of this chunk *)
| CIntr (post : list byte)        (* Ctrl-C seen; post = what the cursor leaves of this chunk *)
| CMore (acc : list byte).        (* chunk used up, the next one is needed *)

(* The body of readLine's loop on the current chunk [buf], with [acc] = readBuf.
   Junk mode's `continue` re-enters on the rest of the SAME chunk (nextBuffer returns
   nextBuf[nextIdx:] as long as something is left), hence the recursion; each round
   consumes at least the newline, so fuel S (length buf) is never exhausted
   (Proofs/Buffer.v, in_chunk_fuel). *)
Fixpoint in_chunk (fuel : nat) (junk : bool) (acc buf : list byte) : cres :=
  match fuel with
  | O => CMore acc
  | S f =>
    match index_byte nl buf with               (* newLineIdx := bytes.IndexByte(buf, '\n') *)
    | Some i =>
      let post := skipn (i + 1)%nat buf in        (* b.nextIdx += newLineIdx + 1 *)
      let pre := firstn i buf in               (* buf = buf[0:newLineIdx] *)
      if has_byte intr pre then CIntr post     (* Ctrl-C in the part before the newline *)
      else
        let acc' := acc ++ pre in              (* b.readBuf.Write(buf) *)
        if junk && ends_cr acc' then           (* CR checked on the ACCUMULATED line *)
          match post with
          | [] => CMore (removelast acc')      (* Truncate(Len-1); continue -> next chunk *)
          | _ => in_chunk f junk (removelast acc') post
          end
        else CLine acc' post
    | None =>                                  (* b.nextIdx += len(buf) *)
      if has_byte intr buf then CIntr [] else CMore (acc ++ buf)
    end
  end.

(* readLine(mayHasJunk): readBuf starts empty, i.e. call with acc = [] *)
Fixpoint read_line (junk : bool) (acc : list byte) (pend : pending) : rres :=
  match pend with
  | [] => Blocked
  | c :: rest =>
    match in_chunk (S (length c)) junk acc c with
    | CLine l post => Done l (post :: rest)
    | CIntr post => Interrupted (post :: rest)
    | CMore acc' => read_line junk acc' rest
    end
  end.

(* readBinary's loop with left = size - readBuf.Len() > 0: takes min(left, len) of each
   chunk, never looks at the bytes *)
Fixpoint read_binary (left : nat) (acc : list byte) (pend : pending) : rres :=
  match pend with
  | [] => Blocked
  | c :: rest =>
    if (left <=? length c)%nat               (* len(buf) > left: nextIdx += left; else += len(buf), *)
    then Done (acc ++ firstn left c) (skipn left c :: rest)   (* and the loop ends when left = len *)
    else read_binary (left - length c)%nat (acc ++ c) rest
  end.

(* readBinary(size): size <= 0 returns an empty block at once, without touching the queue *)
Definition read_binary_op (size : Z) (pend : pending) : rres :=
  match Z.to_nat size with
  | O => Done [] pend
  | n => read_binary n [] pend
  end.

(* popBuffer: the unread rest of the current chunk if there is one, else the next queued
   chunk as it is (possibly empty), else nil *)
Definition pop_buffer (pend : pending) : option (list byte) * pending :=
  match pend with
  | [] => (None, [])
  | (b :: c) :: q => (Some (b :: c), [] :: q)
  | [] :: [] => (None, [])
  | [] :: c :: q => (Some c, [] :: q)
  end.

(* popBuffer until it returns nil, as the relay does when it hands the stream back *)
Fixpoint pop_all (fuel : nat) (pend : pending) : list (list byte) :=
  match fuel with
  | O => []
  | S f => match pop_buffer pend with
           | (Some c, p') => c :: pop_all f p'
           | (None, _) => []
           end
  end.
Definition pop_all_fuel (pend : pending) : nat := S (length pend).

Definition unread (pend : pending) : list byte := concat pend.

(* ---- sequences of reads sharing the one cursor ---- *)
Inductive op := OpLine (junk : bool) | OpBinary (size : Z).

Inductive result := RData (d : list byte) | RBlocked | RInterrupted.

Definition step (o : op) (pend : pending) : rres :=
  match o with
  | OpLine junk => read_line junk [] pend
  | OpBinary size => read_binary_op size pend
  end.

(* results up to and including the first Blocked / Interrupted, and the state in which
   that last read was issued (after an interrupt the transfer is over) *)
Fixpoint run_st (ops : list op) (pend : pending) : list result * pending :=
  match ops with
  | [] => ([], pend)
  | o :: r =>
    match step o pend with
    | Done d p' => let '(rs, e) := run_st r p' in (RData d :: rs, e)
    | Blocked => ([RBlocked], pend)
    | Interrupted _ => ([RInterrupted], pend)
    end
  end.
Definition run (ops : list op) (pend : pending) : list result := fst (run_st ops pend).

(* the same but reading on after an interrupt, from the state the code is then in; also
   returns the final state (after Blocked everything has been consumed).  Used by the
   correspondence check (it validates the states carried by Done and Interrupted) and by
   after_interrupt_differs *)
Fixpoint run_cont (ops : list op) (pend : pending) : list result * pending :=
  match ops with
  | [] => ([], pend)
  | o :: r =>
    match step o pend with
    | Done d p' => let '(rs, e) := run_cont r p' in (RData d :: rs, e)
    | Blocked => ([RBlocked], [])
    | Interrupted p' => let '(rs, e) := run_cont r p' in (RInterrupted :: rs, e)
    end
  end.

(* ---- reference parse of the flat stream (no chunks, no cursor) ---- *)
Fixpoint split_at (b : byte) (l : list byte) : list byte * option (list byte) :=
  match l with
  | [] => ([], None)
  | x :: t => if x =? b then ([], Some t)
              else let '(p, r) := split_at b t in (x :: p, r)
  end.

Inductive fres := FDone (data rest : list byte) | FBlocked | FInterrupted.

(* strict line: everything up to the first LF *)
Definition ref_line (s : list byte) : fres :=
  match split_at nl s with
  | (pre, Some post) => if has_byte intr pre then FInterrupted else FDone pre post
  | (pre, None) => if has_byte intr pre then FInterrupted else FBlocked
  end.

(* junk-tolerant line: segments up to LF are appended; when the text so far ends in CR
   that CR is dropped and the line goes on.  [fuel] >= number of LFs + 1. *)
Fixpoint ref_junk_line (fuel : nat) (acc s : list byte) : fres :=
  match fuel with
  | O => FBlocked
  | S f =>
    match split_at nl s with
    | (pre, Some post) =>
      if has_byte intr pre then FInterrupted
      else if ends_cr (acc ++ pre) then ref_junk_line f (removelast (acc ++ pre)) post
      else FDone (acc ++ pre) post
    | (pre, None) => if has_byte intr pre then FInterrupted else FBlocked
    end
  end.

Definition ref_binary (size : Z) (s : list byte) : fres :=
  let n := Z.to_nat size in
  if (n <=? length s)%nat then FDone (firstn n s) (skipn n s) else FBlocked.

Definition ref_step (o : op) (s : list byte) : fres :=
  match o with
  | OpLine false => ref_line s
  | OpLine true => ref_junk_line (S (length s)) [] s
  | OpBinary size => ref_binary size s
  end.

Fixpoint ref_run_st (ops : list op) (s : list byte) : list result * list byte :=
  match ops with
  | [] => ([], s)
  | o :: r =>
    match ref_step o s with
    | FDone d s' => let '(rs, e) := ref_run_st r s' in (RData d :: rs, e)
    | FBlocked => ([RBlocked], s)
    | FInterrupted => ([RInterrupted], s)
    end
  end.
Definition ref_run (ops : list op) (s : list byte) : list result := fst (ref_run_st ops s).

(* ---- what a delivered result accounts for on the flat stream ---- *)

(* [unwrap acc raw line]: reading the raw text [raw] (which ends with its LF) in junk mode
   with [acc] already accumulated delivers [line]: raw is a sequence of LF-terminated
   segments; after each segment but the last the accumulated text ends in CR, and that
   CR is dropped; after the last it does not. *)
Inductive unwrap : list byte -> list byte -> list byte -> Prop :=
| unwrap_end acc seg :
    has_byte nl seg = false -> ends_cr (acc ++ seg) = false ->
    unwrap acc (seg ++ [nl]) (acc ++ seg)
| unwrap_wrap acc seg raw line :
    has_byte nl seg = false -> ends_cr (acc ++ seg) = true ->
    unwrap (removelast (acc ++ seg)) raw line ->
    unwrap acc (seg ++ nl :: raw) line.

(* the raw bytes [raw] consumed by read [o] and the data [d] it delivered *)
Definition accounts (o : op) (d raw : list byte) : Prop :=
  match o with
  | OpLine false => raw = d ++ [nl] /\ has_byte nl d = false /\ has_byte intr d = false
  | OpLine true => unwrap [] raw d /\ has_byte intr raw = false
  | OpBinary size => raw = d /\ length d = Z.to_nat size
  end.

(* results of a run against the consecutive raw segments they consumed *)
Inductive accounted : list op -> list result -> list (list byte) -> Prop :=
| acc_end ops : accounted ops [] []
| acc_data o ops d rs raw raws :
    accounts o d raw -> accounted ops rs raws ->
    accounted (o :: ops) (RData d :: rs) (raw :: raws)
| acc_blocked o ops : accounted (o :: ops) [RBlocked] []
| acc_interrupted o ops : accounted (o :: ops) [RInterrupted] [].
