(* The DATA messages of one file under the Windows-console framing (lines end in "!\n",
   the receiver's recvLine goes through readLineOnWindows, which ends a line at '!' only):
     pipeline.go  pipelineSendData / sendDataV2 (assembled frames and re-split pieces, both
                  written with the NEGOTIATED newline: Model/Wire.v wire_render_piece),
                  pipelineRecvData / pipelineRecvBase64Data / recvCheckV2 on the receiving side
     transfer.go  recvLine, Windows branch (Model/Noise.v recv_line_windows over the buffer of C03)
   Executable definitions only.  Unique prefix ww_. *)
From Trzsz Require Export Base.Bytes.
From Trzsz Require Import Gen.Consts Model.Buffer Model.Noise Model.Base64 Model.Wire.

(* everything pipelineSendData writes for a list of (pre-assembled?, piece) messages *)
Definition ww_wire (binary : bool) (newline : list byte) (ps : list (bool * list byte)) : list byte :=
  concat (map (wire_render_piece binary newline) ps).

(* the part of a DATA message that must carry the terminator: base64 mode the whole message
   (one line), binary mode the header line "#DATA:<n><newline>" in front of the n payload bytes *)
Definition ww_line_part (binary : bool) (payload_len : nat) (msg : list byte) : list byte :=
  if binary then firstn (length msg - payload_len) msg else msg.

(* pipelineRecvData, base64 mode, on the Windows path: recvCheckV2("DATA") line after line
   until the empty frame.  [off] = cursor inside the current chunk, [pend] = the chunks still
   to be read (any chunking).  A read that would block (time out) or is interrupted ends the
   reception with an error: None. *)
Fixpoint ww_recv (fuel : nat) (off : nat) (pend : pending) : option (list (list byte) * (nat * pending)) :=
  match fuel with
  | O => None
  | S f =>
    match recv_line_windows wire_DATA off pend with
    | WDone line o p' =>
      match wire_check wire_DATA line with
      | None => None
      | Some [] => Some ([], (o, p'))
      | Some buf =>
        match ww_recv f o p' with
        | Some (fs, e) => Some (buf :: fs, e)
        | None => None
        end
      end
    | _ => None
    end
  end.
