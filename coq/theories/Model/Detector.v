(* Model of comm.go's trigger detector: parseTrzszVersion, trzszDetector
   (rewriteTrzszTrigger, addRelaySuffix, isRepeatedID, detectTrzsz) and the three
   regexps trzszRegexp, uniqueIDRegexp, tmuxControlModeRegexp.
   Executable definitions only.  Every number/string of the Go source comes from
   Gen.Consts; the MEANING of the three regex source strings is hard-coded in the
   hand-written matchers below and pinned by the *_src_ok lemmas of Proofs/Detector.v. *)
From Trzsz Require Export Base.Bytes.
From Trzsz Require Import Gen.Consts.

(* ------------------------------------------------------------------------------------ *)
(* generic byte-string helpers *)

Definition nlen (l : list N) : N := N.of_nat (length l).

(* bytes.HasSuffix *)
Definition has_suffix (suf l : list N) : bool :=
  (length suf <=? length l)%nat && list_eqb (skipn (length l - length suf) l) suf.

(* maximal run of ASCII digits (what a greedy \d+ / \d* consumes here) and the rest *)
Fixpoint span_digits (l : list N) : list N * list N :=
  match l with
  | x :: r => if is_digit x then let (d, t) := span_digits r in (x :: d, t) else ([], l)
  | [] => ([], [])
  end.

(* \d+ *)
Definition digits1 (l : list N) : option (list N * list N) :=
  match span_digits l with
  | ([], _) => None
  | (d, t) => Some (d, t)
  end.

(* a literal *)
Fixpoint strip_prefix (p l : list N) : option (list N) :=
  match p, l with
  | [], _ => Some l
  | x :: p', y :: l' => if x =? y then strip_prefix p' l' else None
  | _ :: _, [] => None
  end.

Definition strip_byte (b : N) (l : list N) : option (list N) :=
  match l with
  | x :: r => if x =? b then Some r else None
  | [] => None
  end.

(* bytes.ReplaceAll(l, old, new) for non-empty old: non-overlapping occurrences, left to
   right.  [skip] counts bytes of a matched occurrence still to be dropped. *)
Fixpoint replace_from (old new : list N) (skip : nat) (l : list N) : list N :=
  match l with
  | [] => []
  | x :: r =>
    match skip with
    | S k => replace_from old new k r
    | O => if has_prefix old l then new ++ replace_from old new (pred (length old)) r
           else x :: replace_from old new O r
    end
  end.

(* only ever called with a non-empty [old] (an id of >= 13 digits, or "TRZSZ") *)
Definition replace_all (old new l : list N) : list N := replace_from old new O l.

(* decimal value of a digit string, arbitrary precision *)
Definition dec_value (ds : list N) : N := fold_left (fun acc d => acc * 10 + (d - 48)) ds 0.

Definition all_digits (l : list N) : bool := forallb is_digit l.

(* strings.Split(s, sep) for a one-byte separator *)
Fixpoint split_on (sep : N) (l : list N) : list (list N) :=
  match l with
  | [] => [[]]
  | x :: r =>
    if x =? sep then [] :: split_on sep r
    else match split_on sep r with
         | t :: ts => (x :: t) :: ts
         | [] => [[x]]
         end
  end.

(* ------------------------------------------------------------------------------------ *)
(* parseTrzszVersion *)

(* strconv.ParseUint(tok, 10, bits): non-empty, digits only, value < 2^bits *)
Definition parse_uint (bits : N) (tok : list N) : option N :=
  if nonempty tok && all_digits tok then
    let v := dec_value tok in
    if v <? 2 ^ bits then Some v else None
  else None.

Definition version := (N * N * N)%type.

Definition version_sep : N := match Consts.det_version_sep with [c] => c | _ => 0 end.

Definition parse_version (ver : list N) : option version :=
  match split_on version_sep ver with
  | [a; b; c] =>
    match parse_uint Consts.det_version_bits a, parse_uint Consts.det_version_bits b,
          parse_uint Consts.det_version_bits c with
    | Some x, Some y, Some z => Some (x, y, z)
    | _, _, _ => None
    end
  | _ => None
  end.

(* ------------------------------------------------------------------------------------ *)
(* the three regexps as deterministic matchers *)

Definition marker : list N := Consts.det_marker.

Definition ch_colon : N := 58.
Definition ch_dot : N := 46.
Definition ch_space : N := 32.
Definition ch_nl : N := 10.
(* [SRD] *)
Definition is_mode (b : N) : bool := (b =? 83) || (b =? 82) || (b =? 68).
(* "%output %" and "%extended-output %" and " : " *)
Definition lit_output : list N := [37; 111; 117; 116; 112; 117; 116; 32; 37].
Definition lit_ext_output : list N :=
  [37; 101; 120; 116; 101; 110; 100; 101; 100; 45; 111; 117; 116; 112; 117; 116; 32; 37].
Definition lit_ext_tail : list N := [32; 58; 32].
(* \d{13} *)
Definition uid_regex_min : nat := 13.

(* \d+\.\d+\.\d+  : the matched text and the rest *)
Definition match_version (l : list N) : option (list N * list N) :=
  match digits1 l with None => None | Some (a, l1) =>
  match strip_byte ch_dot l1 with None => None | Some l2 =>
  match digits1 l2 with None => None | Some (b, l3) =>
  match strip_byte ch_dot l3 with None => None | Some l4 =>
  match digits1 l4 with None => None | Some (c, l5) =>
  Some (a ++ ch_dot :: b ++ ch_dot :: c, l5)
  end end end end end.

(* (:\d+)?  greedy: taken whenever ':' and at least one digit follow; the captured
   digits (the group without its leading ':') and the rest *)
Definition opt_colon_digits (l : list N) : option (list N) * list N :=
  match strip_byte ch_colon l with
  | Some r => match digits1 r with
              | Some (d, t) => (Some d, t)
              | None => (None, l)
              end
  | None => (None, l)
  end.

(* submatches of trzszRegexp: group 1 (one byte), group 2, group 3 and 4 without ':' *)
Record tmatch := { m_mode : N; m_ver : list N; m_id : option (list N); m_port : option (list N) }.

(* ::TRZSZ:TRANSFER:([SRD]):(\d+\.\d+\.\d+)(:\d+)?(:\d+)?  anchored at the head of l *)
Definition trzsz_at (l : list N) : option (tmatch * list N) :=
  match strip_prefix marker l with None => None | Some l1 =>
  match l1 with [] => None | m :: l2 =>
  if is_mode m then
    match strip_byte ch_colon l2 with None => None | Some l3 =>
    match match_version l3 with None => None | Some (v, l4) =>
    let (g3, l5) := opt_colon_digits l4 in
    let (g4, l6) := opt_colon_digits l5 in
    Some ({| m_mode := m; m_ver := v; m_id := g3; m_port := g4 |}, l6)
    end end
  else None
  end end.

(* trzszRegexp.FindSubmatch: leftmost match *)
Fixpoint find_trzsz (l : list N) : option tmatch :=
  match trzsz_at l with
  | Some (m, _) => Some m
  | None => match l with [] => None | _ :: r => find_trzsz r end
  end.

(* ::TRZSZ:TRANSFER:[SRD]:\d+\.\d+\.\d+:( \d{13} \d* )  anchored: captured id and the rest *)
Definition uid_at (l : list N) : option (list N * list N) :=
  match strip_prefix marker l with None => None | Some l1 =>
  match l1 with [] => None | m :: l2 =>
  if is_mode m then
    match strip_byte ch_colon l2 with None => None | Some l3 =>
    match match_version l3 with None => None | Some (_, l4) =>
    match strip_byte ch_colon l4 with None => None | Some l5 =>
    let (d, l6) := span_digits l5 in
    if (uid_regex_min <=? length d)%nat then Some (d, l6) else None
    end end end
  else None
  end end.

(* uniqueIDRegexp.FindAllSubmatch(buf, -1): successive non-overlapping leftmost matches;
   the captured ids in order.  [skip] = bytes of the previous match still to pass. *)
Fixpoint uid_find_all (skip : nat) (l : list N) : list (list N) :=
  match l with
  | [] => []
  | _ :: r =>
    match skip with
    | S k => uid_find_all k r
    | O => match uid_at l with
           | Some (id, rest) => id :: uid_find_all (length r - length rest) r
           | None => uid_find_all O r
           end
    end
  end.

(* ((%output %\d+ )|(%extended-output %\d+ \d+ : ))  anchored: group 1 and the rest *)
Definition tmux_prefix_at (l : list N) : option (list N * list N) :=
  match strip_prefix lit_output l with
  | Some l1 =>
    match digits1 l1 with None => None | Some (d, l2) =>
    match strip_byte ch_space l2 with None => None | Some l3 =>
    Some (lit_output ++ d ++ [ch_space], l3)
    end end
  | None =>
    match strip_prefix lit_ext_output l with None => None | Some l1 =>
    match digits1 l1 with None => None | Some (d, l2) =>
    match strip_byte ch_space l2 with None => None | Some l3 =>
    match digits1 l3 with None => None | Some (e, l4) =>
    match strip_prefix lit_ext_tail l4 with None => None | Some l5 =>
    Some (lit_ext_output ++ d ++ ch_space :: e ++ lit_ext_tail, l5)
    end end end end end
  end.

(* what `.*` can cross: everything up to the first '\n' *)
Fixpoint take_line (l : list N) : list N :=
  match l with
  | [] => []
  | x :: r => if x =? ch_nl then [] else x :: take_line r
  end.

Definition tmux_at (l : list N) : option (list N) :=
  match tmux_prefix_at l with
  | Some (p, rest) => if contains marker (take_line rest) then Some p else None
  | None => None
  end.

(* tmuxControlModeRegexp.FindSubmatch(l)[1]: leftmost start at which the whole pattern
   (prefix, then bytes other than '\n', then the marker) matches *)
Fixpoint find_tmux (l : list N) : option (list N) :=
  match tmux_at l with
  | Some p => Some p
  | None => match l with [] => None | _ :: r => find_tmux r end
  end.

(* ------------------------------------------------------------------------------------ *)
(* rewriteTrzszTrigger *)

(* newUniqueID[len(uniqueID)-2] = '2' *)
Definition retag (id : list N) : list N :=
  let k := (length id - N.to_nat Consts.det_retag_back)%nat in
  firstn k id ++ Consts.det_retag_char :: skipn (S k) id.

Definition rewrite_step (buf id : list N) : list N :=
  if (Consts.det_rewrite_min_len <=? nlen id) && has_suffix Consts.det_rewrite_suffix id
  then replace_all id (retag id) buf else buf.

(* the matches are found on the ORIGINAL buffer (their slices alias it; ReplaceAll
   copies), the replacements are applied one after the other to the current buffer *)
Definition rewrite_trigger (buf : list N) : list N :=
  fold_left rewrite_step (uid_find_all O buf) buf.

(* ------------------------------------------------------------------------------------ *)
(* addRelaySuffix *)

Definition relay_scan_char (c : N) : bool :=
  existsb (N.eqb c) Consts.det_relay_scan_chars ||
  ((Consts.det_relay_scan_lo <=? c) && (c <=? Consts.det_relay_scan_hi)).

Fixpoint span_relay (l : list N) : list N * list N :=
  match l with
  | x :: r => if relay_scan_char x then let (a, b) := span_relay r in (x :: a, b) else ([], l)
  | [] => ([], [])
  end.

Definition add_relay_suffix (out : list N) (idx : nat) : list N :=
  let i := (idx + N.to_nat Consts.det_relay_offset)%nat in
  if (length out <=? i)%nat then out else
  let (a, b) := span_relay (skipn i out) in
  firstn i out ++ a ++ Consts.det_relay_suffix ++ b.

(* ------------------------------------------------------------------------------------ *)
(* isRepeatedID: the map as an association list (insertion order; Go's iteration order
   in the prune step does not matter, the result is a function of the set) *)

Definition idmap := list (list N * N).

Definition mlen (m : idmap) : N := N.of_nat (length m).

Fixpoint map_find (m : idmap) (id : list N) : option N :=
  match m with
  | [] => None
  | (k, v) :: r => if list_eqb k id then Some v else map_find r id
  end.

Definition dedup_eligible (winenv : bool) (id : list N) : bool :=
  (Consts.det_id_min_len <? nlen id) &&
  (winenv || negb ((nlen id =? Consts.det_plain_id_len) && has_suffix Consts.det_plain_suffix id)).

Definition prune (m : idmap) : idmap :=
  if Consts.det_prune_limit <? mlen m then
    map (fun kv => (fst kv, snd kv - Consts.det_prune_keep))
        (filter (fun kv => Consts.det_prune_keep <=? snd kv) m)
  else m.

Definition is_repeated (winenv : bool) (m : idmap) (id : list N) : bool * idmap :=
  if dedup_eligible winenv id then
    match map_find m id with
    | Some _ => (true, m)
    | None => let m' := prune m in (false, m' ++ [(id, mlen m')])
    end
  else (false, m).

(* ------------------------------------------------------------------------------------ *)
(* detectTrzsz *)

Record trigger := {
  t_mode : N;
  t_version : version;
  t_id : list N;
  t_win : bool;
  t_port : N;
  t_prefix : list N
}.

Record det := { d_relay : bool; d_tmux : bool; d_map : idmap }.

Definition new_det (relay tmux : bool) : det := {| d_relay := relay; d_tmux := tmux; d_map := [] |}.

Definition set_map (d : det) (m : idmap) : det :=
  {| d_relay := d_relay d; d_tmux := d_tmux d; d_map := m |}.

(* strconv.Atoi on a 64-bit platform fails above 2^63-1 (not a source literal: the
   width of Go's int on the platforms trzsz is built for) *)
Definition int_max : N := 2 ^ 63 - 1.

Definition finished (tail : list N) : bool :=
  existsb (fun w => contains w tail) Consts.det_finished_words.

Definition win_server (id : list N) : bool :=
  list_eqb id Consts.det_win_id ||
  ((nlen id =? Consts.det_win_id_len) && has_suffix Consts.det_win_suffix id).

Definition is_none {A} (o : option A) : bool := match o with None => true | Some _ => false end.

(* result: (output, trigger) and the detector afterwards.  [winenv] = isWindowsEnvironment() *)
Definition detect (winenv : bool) (d : det) (tunnel : bool) (buf : list N)
  : (list N * option trigger) * det :=
  if nlen buf <? Consts.det_min_len then (buf, None, d) else
  match last_index_of marker buf with
  | None => (buf, None, d)
  | Some _ =>
    let out := if d_relay d && d_tmux d then rewrite_trigger buf else buf in
    match last_index_of marker out with
    | None => (out, None, d)   (* Go would slice at -1 and panic; unreachable (rewrite keeps markers) *)
    | Some idx =>
      let sub := skipn idx out in
      match find_trzsz sub with
      | None => (out, None, d)
      | Some m =>
        let tm := find_tmux out in
        if negb (is_none tm) && (negb tunnel || is_none (m_port m)) then (out, None, d) else
        let prefix := match tm with Some p => p | None => [] end in
        if (Consts.det_finished_offset <? nlen sub) &&
           finished (skipn (N.to_nat Consts.det_finished_offset) sub) then (out, None, d) else
        match parse_version (m_ver m) with
        | None => (out, None, d)
        | Some ver =>
          let id := match m_id m with Some i => i | None => [] end in
          let (rep, mp) := is_repeated winenv (d_map d) id in
          let d' := set_map d mp in
          if rep then (out, None, d') else
          let port := match m_port m with
                      | Some p => let v := dec_value p in if v <=? int_max then v else 0
                      | None => 0
                      end in
          let out' := if d_relay d then add_relay_suffix out idx
                      else replace_all Consts.det_client_old Consts.det_client_new out in
          (out', Some {| t_mode := m_mode m; t_version := ver; t_id := id; t_win := win_server id;
                         t_port := port; t_prefix := prefix |}, d')
        end
      end
    end
  end.

(* a whole session: the calls one detector sees *)
Fixpoint detect_hist (winenv : bool) (d : det) (calls : list (bool * list N))
  : list (list N * option trigger * N) * det :=
  match calls with
  | [] => ([], d)
  | (tunnel, buf) :: r =>
    let '(o, t, d') := detect winenv d tunnel buf in
    let (rs, dn) := detect_hist winenv d' r in
    ((o, t, mlen (d_map d')) :: rs, dn)
  end.

(* ------------------------------------------------------------------------------------ *)
(* what trz.go / tsz.go print: fmt.Sprintf("\x1b7\x07::TRZSZ:TRANSFER:%s:%s:%013d:%d\r\n",
   mode, version, uniqueID, port) — the grammar the property quantifies over.  %013d pads
   with zeros to at least 13 digits; %d prints the shortest decimal. *)

Fixpoint dec_digits_fuel (fuel : nat) (n : N) (acc : list N) : list N :=
  match fuel with
  | O => acc
  | S f => if n <? 10 then (48 + n) :: acc
           else dec_digits_fuel f (n / 10) ((48 + n mod 10) :: acc)
  end.

(* shortest decimal representation (%d) *)
Definition dec_of (n : N) : list N := dec_digits_fuel (S (N.to_nat (N.log2 n))) n [].

(* %013d *)
Definition dec_pad (w : nat) (n : N) : list N :=
  let s := dec_of n in repeat 48 (w - length s) ++ s.

Definition trigger_head : list N := firstn 3 Consts.det_trz_format.   (* ESC 7 BEL *)

Definition version_text (v : version) : list N :=
  let '(a, b, c) := v in dec_of a ++ ch_dot :: dec_of b ++ ch_dot :: dec_of c.

(* the line trz/tsz print *)
Definition trigger_line (mode : N) (v : version) (uid port : N) : list N :=
  trigger_head ++ marker ++ mode :: ch_colon :: version_text v ++ ch_colon :: dec_pad 13 uid
  ++ ch_colon :: dec_of port ++ [CR; LF].

(* ------------------------------------------------------------------------------------ *)
(* ghost history for C06_replay: the dedup-eligible ids of the triggers one detector has
   accepted so far, newest first, over an arbitrary sequence of calls *)

Definition hist_step (winenv : bool) (st : det * list (list N)) (c : bool * list N)
  : det * list (list N) :=
  let '(o, t, d') := detect winenv (fst st) (fst c) (snd c) in
  (d', match t with
       | Some tr => if dedup_eligible winenv (t_id tr) then t_id tr :: snd st else snd st
       | None => snd st
       end).

Definition hist_run (winenv : bool) (d : det) (calls : list (bool * list N)) : det * list (list N) :=
  fold_left (hist_step winenv) calls (d, []).

(* how many of the most recently accepted ids are guaranteed to be still remembered:
   a prune keeps limit+1-keep entries and the new id is added to them *)
Definition replay_window : nat :=
  N.to_nat (Consts.det_prune_limit + 1 - Consts.det_prune_keep + 1).
