(* C02 and the prefix-hash resume exchange (append.go; Model/Resume.v is its model for C08):
   the exchange of Resume.run, except that the answers (SUCC lines of recvPrefixHash) reach the
   sender as an ARBITRARY list [delivered] - what a damaged connection makes of them.
   Result: what the sender then transmits in the data phase, and the destination afterwards
   (None = an error on either side: nothing is reported as saved).
   The data phase itself is the per-file exchange of Model/Protocol.v: the sender announces
   SIZE = length of what it transmits and MD5 = H of what it transmits, and the receiver counts
   and hashes what it appends - neither covers the kept prefix.  Executable definitions only. *)
From Trzsz Require Export Base.Bytes.
From Trzsz Require Import Gen.Consts Model.Resume.

Section FaultResume.
Variable B : N.
Variable H : list byte -> digest.

Record fr_outcome := mkFrOut {
  fo_mrecv : Z;            (* the receiver's matchStep: it truncates there and appends *)
  fo_msend : Z;            (* the sender's matchStep: it seeks there and sends the rest *)
  fo_sent : list byte;     (* the payload of the data phase *)
  fo_final : list byte     (* the destination after the data phase *)
}.

(* [check] = the receiver-side check of the fix 75b62fe is in force: recvPrefixHash remembers
   source size - its own offset, recvFiles refuses a SIZE message that announces anything else.  The
   sender announces source size - ITS offset, so the check passes exactly when the two offsets are
   equal.  A negative offset makes the sender's file.Seek fail (both variants). *)
Definition fr_run_gen (check : bool) (src dst : list byte) (delivered : list ack) : option fr_outcome :=
  let size := Nat.min (length src) (length dst) in
  match send_hashes B H size None src size 0 [] with
  | None => None
  | Some hs =>
    match recv_hashes B H dst hs r_init with
    | ROver st =>
      match recv_hash_acks (Z.of_nat size) delivered with
      | SDone ms =>
        if (ms <? 0)%Z then None
        else if check && negb (Z.of_nat (length src) - ms =? Z.of_nat (length src) - r_mstep st)%Z then None
        else
          let mr := Z.to_nat (r_mstep st) in
          let f := f_truncate (f_seek (mkFile dst (r_off st)) mr) mr in
          let sent := skipn (Z.to_nat ms) src in
          Some (mkFrOut (r_mstep st) ms sent (f_data (f_write f sent)))
      | _ => None
      end
    | _ => None
    end
  end.

(* the code as it is (whether the check is there is read from the source) and as it was *)
Definition fr_run := fr_run_gen Consts.c02_resume_rest_check.
Definition fr_run_old := fr_run_gen false.

(* the answers the receiver really gave *)
Definition fr_answers (src dst : list byte) : list ack :=
  let size := Nat.min (length src) (length dst) in
  match send_hashes B H size None src size 0 [] with
  | Some hs => match recv_hashes B H dst hs r_init with ROver st => r_acks st | _ => [] end
  | None => []
  end.
End FaultResume.
