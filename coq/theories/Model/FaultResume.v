(* C02 and the prefix-hash resume exchange (append.go; Model/Resume.v is its model for C08):
   the exchange of Resume.run, except that the answers (SUCC lines of recvPrefixHash) reach the
   sender as an ARBITRARY list [delivered] - what a damaged connection makes of them.
   Result: what the sender then transmits in the data phase, and the destination afterwards
   (None = an error on either side: nothing is reported as saved).
   The data phase itself is the per-file exchange of Model/Protocol.v: the sender announces
   SIZE = length of what it transmits and MD5 = H of what it transmits, and the receiver counts
   and hashes what it appends - neither covers the kept prefix.  Executable definitions only. *)
From Trzsz Require Export Base.Bytes.
From Trzsz Require Import Gen.Consts Model.Resume.

Section FaultResume.
Variable B : N.
Variable H : list byte -> digest.

Record fr_outcome := mkFrOut {
  fo_mrecv : Z;            (* the receiver's matchStep: it truncates there and appends *)
  fo_msend : Z;            (* the sender's matchStep: it seeks there and sends the rest *)
  fo_sent : list byte;     (* the payload of the data phase *)
  fo_final : list byte     (* the destination after the data phase *)
}.

(* [check] = the receiver-side check of the fix 75b62fe is in force: recvPrefixHash remembers
   source size - its own offset, recvFiles refuses a SIZE message that announces anything else.  The
   sender announces source size - ITS offset, so the check passes exactly when the two offsets are
   equal.  A negative offset makes the sender's file.Seek fail (both variants). *)
Definition fr_run_gen (check : bool) (src dst : list byte) (delivered : list ack) : option fr_outcome :=
  let size := Nat.min (length src) (length dst) in
  match send_hashes B H size None src size 0 [] with
  | None => None
  | Some hs =>
    match recv_hashes B H dst hs r_init with
    | ROver st =>
      match recv_hash_acks (Z.of_nat size) delivered with
      | SDone ms =>
        if (ms <? 0)%Z then None
        else if check && negb (Z.of_nat (length src) - ms =? Z.of_nat (length src) - r_mstep st)%Z then None
        else
          let mr := Z.to_nat (r_mstep st) in
          let f := f_truncate (f_seek (mkFile dst (r_off st)) mr) mr in
          let sent := skipn (Z.to_nat ms) src in
          Some (mkFrOut (r_mstep st) ms sent (f_data (f_write f sent)))
      | _ => None
      end
    | _ => None
    end
  end.

(* the code as it is (whether the check is there is read from the source) and as it was *)
Definition fr_run := fr_run_gen Consts.c02_resume_rest_check.
Definition fr_run_old := fr_run_gen false.

(* the answers the receiver really gave *)
Definition fr_answers (src dst : list byte) : list ack :=
  let size := Nat.min (length src) (length dst) in
  match send_hashes B H size None src size 0 [] with
  | Some hs => match recv_hashes B H dst hs r_init with ROver st => r_acks st | _ => [] end
  | None => []
  end.

(* ==========================================================================================
   The whole fault alphabet of the resume exchange.  Everything the two ends read during the
   exchange is what the connection DELIVERED:
     fd_size     the hash-phase "#SIZE:" line (protocol 3 only: the one integer of the protocol
                 that is neither echoed nor checksummed; protocol 4 takes the size from the NAME
                 record) - any integer: digit substituted, inserted, deleted
     fd_hashes   the HASH records and the Over record as the receiver reads them - any list of
                 well-formed records: step digits changed, digest characters changed, records
                 lost, doubled, out of order
     fd_answers  the answers as the sender reads them - any list of well-formed records: match
                 flipped, step digits changed, lost, doubled, stale answers in their place
   Taken as sent: the NAME record and its reply (zlib + base64 coded; they carry the source size
   for protocol 4 and the size of the existing destination), and the data phase that follows (SIZE
   with its echo, DATA, MD5: Model/Protocol.v).
   Every line the reader does not consume during the exchange is read by the NEXT step of the
   protocol (recvFileSize on the receiver, the SIZE echo on the sender), which fails on it: the
   delivered lists must be used up exactly.

   The two places of the code the outcome hinges on are parameters, read from the source
   (go/cmd/gen/protocol.go):
     guard   Consts.c02_resume_rest_guard  2: recvFiles refuses an announced size other than the
             remembered rest whenever that rest is >= 0; 1: only when it is > 0; 0: never
     trunc   Consts.c02_resume_truncates   1: recvPrefixHash cuts the destination at its own offset;
             2: only if the existing file is longer than the (delivered) source size; 0: never
     sizeck  Consts.c02_resume_size_guard  0: the hash-phase SIZE line is used as delivered; 1: it is compared
             with the size in the NAME record, and a size below the receiver's own offset is refused *)
Record fr_deliv := mkFrDeliv { fd_size : Z; fd_hashes : list hmsg; fd_answers : list ack }.

(* pipelineRecvHashAck on the delivered answers: the verdict and what is left unread *)
Fixpoint fr_recv_acks (size : Z) (acks : list ack) (mstep : Z) : sres * list ack :=
  match acks with
  | [] => (SBlocked, [])
  | a :: rest =>
    if negb (a_match a) then (SDone mstep, rest)
    else
      let mstep := a_step a in
      if (mstep =? size)%Z then (SDone mstep, rest)
      else if (size <? mstep)%Z then (SErr mstep, rest)
      else fr_recv_acks size rest mstep
  end.
Definition fr_recv_hash_acks (size : Z) (acks : list ack) : sres * list ack :=
  if (size =? 0)%Z then (SDone 0%Z, acks) else fr_recv_acks size acks 0%Z.

(* what the receiver leaves unread: everything behind the first Over *)
Fixpoint fr_after_over (msgs : list hmsg) : list hmsg :=
  match msgs with
  | [] => []
  | Over :: rest => rest
  | Hash _ _ :: rest => fr_after_over rest
  end.

Definition fr_is_nil {A} (l : list A) : bool := match l with [] => true | _ => false end.

Definition fr_exchange (guard trunc sizeck : N) (proto4 : bool) (src dst : list byte) (d : fr_deliv) : option fr_outcome :=
  match dst with
  | [] =>
    (* tgtFile.Size <= 0: neither end starts the exchange; nothing is delivered, nothing remembered *)
    if fr_is_nil (fd_hashes d) && fr_is_nil (fd_answers d)
    then Some (mkFrOut 0 0 src (f_data (f_write (mkFile [] 0) src))) else None
  | _ :: _ =>
    let size_r := if proto4 then Z.of_nat (length src) else fd_size d in
    (* sizeck = 1: the SIZE line is compared with the size in the NAME record (taken as sent) when that is > 0 *)
    if (sizeck =? 1)%N && negb proto4 && (0 <? Z.of_nat (length src))%Z && negb (size_r =? Z.of_nat (length src))%Z then None else
    match recv_hashes B H dst (fd_hashes d) r_init with
    | ROver st =>
      if negb (fr_is_nil (fr_after_over (fd_hashes d))) then None else
      match fr_recv_hash_acks (Z.of_nat (Nat.min (length src) (length dst))) (fd_answers d) with
      | (SDone ms, []) =>
        if (ms <? 0)%Z then None                          (* file.Seek to a negative offset *)
        else
          let mr := r_mstep st in
          let rest := (size_r - mr)%Z in                  (* t.resumeRestSize *)
          if (sizeck =? 1)%N && (rest <? 0)%Z then None else   (* sizeck = 1: a size below the own offset is refused *)
          let announced := (Z.of_nat (length src) - ms)%Z in
          let checked := if (guard =? 2)%N then (0 <=? rest)%Z else if (guard =? 1)%N then (0 <? rest)%Z else false in
          if checked && negb (announced =? rest)%Z then None
          else
            let mrn := Z.to_nat mr in
            let f0 := f_seek (mkFile dst (r_off st)) mrn in
            let cut := if (trunc =? 1)%N then true else if (trunc =? 2)%N then (size_r <? Z.of_nat (length dst))%Z else false in
            let f := if cut then f_truncate f0 mrn else f0 in
            let sent := skipn (Z.to_nat ms) src in
            Some (mkFrOut mr ms sent (f_data (f_write f sent)))
      | _ => None
      end
    | _ => None
    end
  end.

(* the code as it is *)
Definition fr_exchange_code := fr_exchange Consts.c02_resume_rest_guard Consts.c02_resume_truncates Consts.c02_resume_size_guard.

(* what an undamaged connection delivers *)
Definition fr_honest (src dst : list byte) : fr_deliv :=
  let size := Nat.min (length src) (length dst) in
  match dst with
  | [] => mkFrDeliv (Z.of_nat (length src)) [] []
  | _ => mkFrDeliv (Z.of_nat (length src))
           (match send_hashes B H size None src size 0 [] with Some hs => hs | None => [] end)
           (fr_answers src dst)
  end.
End FaultResume.
