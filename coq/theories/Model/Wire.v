(* Model of the codec layer ("L1") of trzsz-go:
     transfer.go   sendLine / sendInteger / sendString / sendBinary / sendData / recvData
     comm.go       encodeBytes / decodeString
     buffer.go     isTrzszLetter
     pipeline.go   sendDataWriter (deliver / Write / Close), pipelineSendData, sendDataV2,
                   pipelineRecvBase64Data / pipelineRecvBinaryData,
                   pipelineEncodeData / pipelineDecodeData (the four stacks)
   zstd and zlib are external: Section variables.  Line reassembly from arbitrary reads is
   Buffer.v (C03); here a received wire is one byte list and a line ends at the first LF.
   Executable definitions only. *)
From Trzsz Require Export Base.Bytes.
From Trzsz Require Import Gen.Consts Model.Escape Model.Base64.

(* ---- buffer.go isTrzszLetter, from the regenerated character classes ---- *)
Definition wire_letter (b : byte) : bool :=
  existsb (fun r => (fst r <=? b) && (b <=? snd r)) Consts.trzsz_letter_ranges ||
  existsb (N.eqb b) Consts.trzsz_letter_chars.

(* ---- fmt.Sprintf with %s / %d verbs only: each verb is replaced by the next argument
   (already rendered); the formats are the regenerated source strings ---- *)
Fixpoint wire_fmt (f : list byte) (args : list (list byte)) : list byte :=
  match f with
  | [] => []
  | c :: r =>
    if c =? 37 then
      match r with
      | [] => [c]
      | _ :: r' =>
        match args with
        | a :: args' => a ++ wire_fmt r' args'
        | [] => wire_fmt r' []
        end
      end
    else c :: wire_fmt r args
  end.

(* strconv.Itoa / FormatInt(_, 10) of a non-negative number *)
Fixpoint wire_dec_go (fuel : nat) (n : N) (acc : list byte) : list byte :=
  let acc' := (48 + n mod 10) :: acc in
  match fuel with
  | O => acc'
  | S f => if n / 10 =? 0 then acc' else wire_dec_go f (n / 10) acc'
  end.
Definition wire_dec (n : N) : list byte := wire_dec_go (N.to_nat (N.log2 n)) n [].

(* strconv.ParseInt(_, 10, 64) restricted to what a cooperating peer sends: a non-empty
   string of digits (sign, overflow and junk are the business of C12) *)
Fixpoint wire_undec_go (acc : N) (l : list byte) : option N :=
  match l with
  | [] => Some acc
  | c :: r => if is_digit c then wire_undec_go (acc * 10 + (c - 48)) r else None
  end.
Definition wire_undec (l : list byte) : option N :=
  match l with [] => None | _ => wire_undec_go 0 l end.

(* ---- lines ---- *)
(* sendLine: fmt.Sprintf("#%s:%s%s", typ, buf, newline) *)
Definition wire_line (typ payload newline : list byte) : list byte :=
  wire_fmt Consts.send_line_format [typ; payload; newline].
Definition wire_int_line (typ : list byte) (n : N) (newline : list byte) : list byte :=
  wire_line typ (wire_dec n) newline.
(* checkStopAndPause: "#%s:=%s" *)
Definition wire_pause_line (typ newline : list byte) : list byte :=
  wire_fmt Consts.pause_line_format [typ; newline].
(* pipelineSendAck: "#SUCC:%d/%d%s" *)
Definition wire_ack_line (len step : N) (newline : list byte) : list byte :=
  wire_fmt Consts.ack_line_format [wire_dec len; wire_dec step; newline].

(* one DATA frame as sendDataWriter.deliver assembles it *)
Definition wire_data_frame (binary : bool) (newline frame : list byte) : list byte :=
  if binary then
    Consts.deliver_data_prefix ++ wire_dec (N.of_nat (length frame)) ++ newline ++ frame
  else
    Consts.deliver_data_prefix ++ frame ++ newline.
(* one piece of a frame as sendDataV2 writes it when pipelineSendData had to split *)
Definition wire_data_piece (binary : bool) (newline piece : list byte) : list byte :=
  if binary then
    wire_fmt Consts.data_v2_binary_format [wire_dec (N.of_nat (length piece)); newline] ++ piece
  else
    Consts.data_v2_base64_prefix ++ piece ++
    (match Consts.data_v2_piece_terminator with None => newline | Some literal => literal end).

(* ---- sendDataWriter: the encoded stream is cut into frames.  [room] is the space left in
   the current buffer; a frame is delivered the moment it is full, then the NEXT buffer
   size is read (it may have changed: [sizes], then [dflt] for ever).  Close delivers a
   non-empty rest.  The finish flag (the empty frame) is added by wire_send.
   A buffer size of 0 is outside the model (the Go loop would deliver empty frames for
   ever); it is treated like 1. *)
Fixpoint wire_frames_go (s : list byte) (acc : list byte) (room : nat) (sizes : list nat) (dflt : nat)
  : list (list byte) :=
  match s with
  | [] => match acc with [] => [] | _ => [rev acc] end
  | b :: r =>
    match room with
    | O | S O =>
      let '(n, sizes') := next_size sizes dflt in
      rev (b :: acc) :: wire_frames_go r [] n sizes' dflt
    | S room' => wire_frames_go r (b :: acc) room' sizes dflt
    end
  end.
Definition wire_frames (sizes : list nat) (dflt : nat) (s : list byte) : list (list byte) :=
  let '(n, sizes') := next_size sizes dflt in wire_frames_go s [] n sizes' dflt.

(* pipelineSendData: a frame no longer than the CURRENT buffer size goes out as it is;
   a longer one (the size shrank meanwhile) is cut again, a fresh size for every piece.
   Result: the pieces with a flag "sent pre-assembled". *)
Fixpoint wire_resplit (fs : list (list byte)) (sizes : list nat) (dflt : nat) : list (bool * list byte) :=
  match fs with
  | [] => []
  | f :: r =>
    let '(n, sizes') := next_size sizes dflt in
    if (length f <=? n)%nat then (true, f) :: wire_resplit r sizes' dflt
    else
      let pieces := wire_frames sizes' dflt f in
      map (fun p => (false, p)) pieces ++ wire_resplit r (skipn (length pieces) sizes') dflt
  end.

Definition wire_render_piece (binary : bool) (newline : list byte) (p : bool * list byte) : list byte :=
  if fst p then wire_data_frame binary newline (snd p) else wire_data_piece binary newline (snd p).

(* ---- the receiver's view: a line ends at the first LF (readLine); recvCheck(V2) wants
   '#', the expected type, ':' and returns the rest ---- *)
Fixpoint wire_split_lf (w : list byte) : option (list byte * list byte) :=
  match w with
  | [] => None
  | c :: r =>
    if c =? LF then Some ([], r)
    else match wire_split_lf r with Some (l, rest) => Some (c :: l, rest) | None => None end
  end.

Fixpoint wire_split_colon (l : list byte) : option (list byte * list byte) :=
  match l with
  | [] => None
  | c :: r =>
    if c =? 58 then Some ([], r)
    else match wire_split_colon r with Some (a, b) => Some (c :: a, b) | None => None end
  end.

(* idx := IndexByte(line, ':'); idx < 1 -> error; typ = line[1:idx] must be the expected one *)
Definition wire_check (typ line : list byte) : option (list byte) :=
  match wire_split_colon line with
  | Some (_ :: t, buf) => if list_eqb t typ then Some buf else None
  | _ => None
  end.

Definition wire_DATA : list byte := [68; 65; 84; 65].

(* pipelineRecvData: frames until the empty one.  base64 mode: the frame is the line's
   payload; binary mode: the line carries the length, the frame is the next [n] bytes
   (readBinary).  Result: the frames and the unread rest of the wire. *)
Fixpoint wire_recv (fuel : nat) (binary : bool) (w : list byte) : option (list (list byte) * list byte) :=
  match fuel with
  | O => None
  | S f =>
    match wire_split_lf w with
    | None => None
    | Some (line, rest) =>
      match wire_check wire_DATA line with
      | None => None
      | Some buf =>
        if binary then
          match wire_undec buf with
          | None => None
          | Some n =>
            if n =? 0 then Some ([], rest)
            else if (N.to_nat n <=? length rest)%nat then
              match wire_recv f binary (skipn (N.to_nat n) rest) with
              | Some (fs, rest') => Some (firstn (N.to_nat n) rest :: fs, rest')
              | None => None
              end
            else None
          end
        else
          match buf with
          | [] => Some ([], rest)
          | _ =>
            match wire_recv f binary rest with
            | Some (fs, rest') => Some (buf :: fs, rest')
            | None => None
            end
          end
      end
    end
  end.

(* ---- the four stacks ---- *)
Section Stacks.
(* zstd: the encoder sees the file chunks (with whatever Flush calls) and performs writes
   on the next stage; the decoder is a function of the concatenated compressed stream *)
Variable zcomp : list (list byte) -> list (list byte).
Variable zdecomp : list byte -> option (list byte).

(* pipelineEncodeData: the stream handed to sendDataWriter *)
Definition wire_encode (binary compress : bool) (t : table) (chunks : list (list byte)) : list byte :=
  let mid := if compress then zcomp chunks else chunks in
  if binary then concat (ew_write t mid) else b64_writer_all mid.

(* everything pipelineEncodeData delivers for one file: the frames and the finish flag *)
Definition wire_send (binary compress : bool) (t : table) (chunks : list (list byte))
                     (sizes : list nat) (dflt : nat) : list (list byte) :=
  wire_frames sizes dflt (wire_encode binary compress t chunks) ++ [[]].

(* pipelineDecodeData over the received frames (finish flag excluded).  binary: the
   streaming escapeReader over the frames (an empty/absent table is the identity), caller
   buffer sizes [rsizes] then [rdflt]; a lone leader left at EOF is dropped silently.
   base64: the decoder over the concatenated frames. *)
Definition wire_decode (binary compress : bool) (t : table) (fs : list (list byte))
                       (rsizes : list nat) (rdflt : nat) : option (list byte) :=
  let mid :=
    if binary then
      match t with
      | [] => Some (concat fs)
      | _ =>
        match er_run (er_fuel [] fs) t [] fs rsizes rdflt with
        | (outs, EndEof _) => Some (concat outs)
        | _ => None
        end
      end
    else b64_decode (concat fs) in
  match mid with
  | None => None
  | Some m => if compress then zdecomp m else Some m
  end.

(* ---- protocol 1 (transfer.go sendData / recvData): every chunk coded on its own;
   base64 mode: encodeBytes = base64(zlib(chunk)); binary mode: escaped, no compression ---- *)
Variable zl : list byte -> list byte.
Variable unzl : list byte -> option (list byte).

(* comm.go encodeBytes / decodeString *)
Definition wire_encode_bytes (d : list byte) : list byte := b64_encode (zl d).
Definition wire_decode_string (s : list byte) : option (list byte) :=
  match b64_decode s with Some z => unzl z | None => None end.

Definition wire_v1_chunk (binary : bool) (t : table) (newline chunk : list byte) : list byte :=
  if binary then
    let buf := escape t chunk in
    wire_fmt Consts.data_v1_binary_format [wire_dec (N.of_nat (length buf))] ++ buf
  else wire_line wire_DATA (wire_encode_bytes chunk) newline.

(* recvData on the payload of one DATA message *)
Definition wire_v1_decode (binary : bool) (t : table) (payload : list byte) : option (list byte) :=
  if binary then
    match unescape_data t payload 0 with
    | UOk o [] => Some o
    | _ => None
    end
  else wire_decode_string payload.

(* one protocol-1 DATA message read back from the wire: (chunk, rest) *)
Definition wire_v1_recv (binary : bool) (t : table) (w : list byte) : option (list byte * list byte) :=
  match wire_split_lf w with
  | None => None
  | Some (line, rest) =>
    match wire_check wire_DATA line with
    | None => None
    | Some buf =>
      if binary then
        match wire_undec buf with
        | None => None
        | Some n =>
          if (N.to_nat n <=? length rest)%nat then
            match wire_v1_decode true t (firstn (N.to_nat n) rest) with
            | Some c => Some (c, skipn (N.to_nat n) rest)
            | None => None
            end
          else None
        end
      else
        match wire_v1_decode false t buf with
        | Some c => Some (c, rest)
        | None => None
        end
    end
  end.

(* ---- everything an uploading client writes, message by message ---- *)
Inductive wmsg :=
| WStr (typ z : list byte)          (* sendString / sendBinary: payload = base64 of the zlib output z *)
| WInt (typ : list byte) (n : N)    (* sendInteger *)
| WBool (typ : list byte) (b : bool)(* #COMP:true / #COMP:false *)
| WPause (typ : list byte)          (* #DATA:= / #SUCC:= keep-alive while pausing *)
| WAck (len step : N)               (* #SUCC:len/step (receiving side) *)
| WFrame (pre : bool) (payload : list byte)  (* one DATA frame or piece of the current mode *)
| WV1 (chunk : list byte).          (* protocol-1 DATA message *)

Definition wire_true : list byte := [116; 114; 117; 101].
Definition wire_false : list byte := [102; 97; 108; 115; 101].

Definition wire_render (binary : bool) (t : table) (newline : list byte) (m : wmsg) : list byte :=
  match m with
  | WStr typ z => wire_line typ (b64_encode z) newline
  | WInt typ n => wire_int_line typ n newline
  | WBool typ b => wire_line typ (if b then wire_true else wire_false) newline
  | WPause typ => wire_pause_line typ newline
  | WAck l s => wire_ack_line l s newline
  | WFrame pre p => wire_render_piece binary newline (pre, p)
  | WV1 c => wire_v1_chunk binary t newline c
  end.

Definition wire_bytes (binary : bool) (t : table) (newline : list byte) (ms : list wmsg) : list byte :=
  concat (map (wire_render binary t newline) ms).

(* message types are words of letters and digits (ACT NUM NAME SIZE DATA MD5 SUCC EXIT COMP HASH FAIL fail) *)
Definition wire_typ_ok (typ : list byte) : bool := forallb (fun c => is_alpha c || is_digit c) typ.
Definition wmsg_typ_ok (m : wmsg) : bool :=
  match m with
  | WStr typ _ | WInt typ _ | WBool typ _ | WPause typ => wire_typ_ok typ
  | _ => true
  end.

(* the messages of one uploaded file, protocol >= 2, after NAME/SIZE negotiation *)
Definition wire_file_msgs (binary compress : bool) (t : table) (name_z : list byte) (size : N)
    (chunks : list (list byte)) (sizes : list nat) (dflt : nat) (rsizes : list nat) (md5_z : list byte) : list wmsg :=
  [WStr [78; 65; 77; 69] name_z; WInt [83; 73; 90; 69] size] ++
  map (fun p => WFrame (fst p) (snd p)) (wire_resplit (wire_send binary compress t chunks sizes dflt) rsizes dflt) ++
  [WStr [77; 68; 53] md5_z].

(* a whole upload: ACT, NUM, the files, EXIT *)
Record wfile := {
  wf_name_z : list byte; wf_size : N; wf_compress : bool; wf_chunks : list (list byte);
  wf_sizes : list nat; wf_rsizes : list nat; wf_md5_z : list byte }.

Definition wire_upload_msgs (binary : bool) (t : table) (act_z : list byte) (files : list wfile) (dflt : nat)
    (exit_z : list byte) : list wmsg :=
  [WStr [65; 67; 84] act_z; WInt [78; 85; 77] (N.of_nat (length files))] ++
  flat_map (fun f => wire_file_msgs binary (wf_compress f) t (wf_name_z f) (wf_size f) (wf_chunks f)
                                    (wf_sizes f) dflt (wf_rsizes f) (wf_md5_z f)) files ++
  [WStr [69; 88; 73; 84] exit_z].

End Stacks.
